(* Tlog/ProofsRfcCons.v — CheckTree accepts exactly what the iterative algorithm of RFC 9162
   section 2.1.4.2 accepts.  The descent of runTreeProof follows the audit path of leaf n-1
   and stops at the complete subtree [slo, n) whose right end is n (the "seed"); the RFC
   algorithm starts from that seed (after stripping the trailing one bits of n-1) and climbs
   with the same bit tests as the inclusion algorithm.  Both are reduced to folding the proof
   along the directions from the seed. *)
From Verif.Base Require Import Bytes.
From Verif.Tlog Require Import Index Tree Spec6962 Rfc9162 ProofsIndex ProofsSpec ProofsTree ProofsRecord ProofsRfcIncl.

Section RfcCons.
Variable node_hash : hash -> hash -> hash.

(* ------------------------------------------------------------------ folding two hashes along directions *)

Fixpoint foldD2 (ds : list bool) (p : list hash) (fr sr : hash) : option (hash * hash) :=
  match ds, p with
  | [], [] => Some (fr, sr)
  | d :: ds', x :: p' =>
      if d then foldD2 ds' p' (node_hash x fr) (node_hash x sr)
      else foldD2 ds' p' fr (node_hash sr x)
  | _, _ => None
  end.

Definition step2 (d : bool) (x : hash) (r : hash * hash) : hash * hash :=
  if d then (node_hash x (fst r), node_hash x (snd r)) else (fst r, node_hash (snd r) x).

Lemma foldD2_snoc ds : forall p fr sr d x,
  foldD2 (ds ++ [d]) (p ++ [x]) fr sr =
  match foldD2 ds p fr sr with
  | Some r => Some (step2 d x r)
  | None => None
  end.
Proof.
  induction ds as [|d0 ds IH]; intros p fr sr d x.
  - destruct p as [|y p]; [destruct d; reflexivity|]. cbn [app foldD2]. destruct d, p; reflexivity.
  - destruct p as [|y p].
    + cbn [app foldD2]. destruct d0, ds; reflexivity.
    + cbn [app foldD2]. destruct d0; apply IH.
Qed.

Lemma foldD2_nil_r ds fr sr : ds <> [] -> foldD2 ds [] fr sr = None.
Proof. destruct ds; [congruence|reflexivity]. Qed.

Definition of_opt2 (o : option (hash * hash)) : res (hash * hash) :=
  match o with Some r => Ok r | None => Err EProofFailed end.

(* ------------------------------------------------------------------ top-down descent of runTreeProof *)

(* CDirs lo hi n slo ds: descending from [lo, hi) towards the old size n ends at the seed
   [slo, n); ds are the directions from the seed up to [lo, hi) *)
Inductive CDirs : Z -> Z -> Z -> Z -> list bool -> Prop :=
| CD_same lo hi : CDirs lo hi hi lo []
| CD_left lo hi n slo ds :
    n < hi -> n <= lo + split_point (hi - lo) ->
    CDirs lo (lo + split_point (hi - lo)) n slo ds -> CDirs lo hi n slo (ds ++ [false])
| CD_right lo hi n slo ds :
    n < hi -> lo + split_point (hi - lo) < n ->
    CDirs (lo + split_point (hi - lo)) hi n slo ds -> CDirs lo hi n slo (ds ++ [true]).

Lemma CDirs_exists f : forall lo hi n, hi - lo <= Z.of_nat f -> lo < n <= hi ->
  exists slo ds, CDirs lo hi n slo ds.
Proof.
  induction f as [|f IH]; intros lo hi n Hf Hn; [lia|].
  destruct (Z.eq_dec n hi) as [->|Hne].
  - do 2 eexists. constructor.
  - pose proof (split_point_bounds (hi - lo) ltac:(lia)) as Hk.
    destruct (Z_le_gt_dec n (lo + split_point (hi - lo))) as [Hl|Hr].
    + destruct (IH lo (lo + split_point (hi - lo)) n ltac:(lia) ltac:(lia)) as [slo [ds Hd]].
      do 2 eexists. apply CD_left; try lia. exact Hd.
    + destruct (IH (lo + split_point (hi - lo)) hi n ltac:(lia) ltac:(lia)) as [slo [ds Hd]].
      do 2 eexists. apply CD_right; try lia. exact Hd.
Qed.

Definition seeded (slo : Z) (ds : list bool) (p : list hash) (old : hash) : res (hash * hash) :=
  if slo =? 0 then of_opt2 (foldD2 ds p old old)
  else match p with
       | [] => Err EProofFailed
       | c0 :: rest => of_opt2 (foldD2 ds rest c0 c0)
       end.

Lemma seeded_snoc slo ds d p x old :
  seeded slo (ds ++ [d]) (p ++ [x]) old = bind (seeded slo ds p old) (fun r => Ok (step2 d x r)).
Proof.
  unfold seeded. destruct (slo =? 0).
  - rewrite foldD2_snoc. destruct (foldD2 ds p old old); reflexivity.
  - destruct p as [|c0 rest].
    + cbn [app]. rewrite foldD2_nil_r by (destruct ds; discriminate). reflexivity.
    + cbn [app]. rewrite foldD2_snoc. destruct (foldD2 ds rest c0 c0); reflexivity.
Qed.

Lemma seeded_nil slo ds d old : seeded slo (ds ++ [d]) [] old = Err EProofFailed.
Proof.
  unfold seeded. destruct (slo =? 0); [|reflexivity].
  rewrite foldD2_nil_r by (destruct ds; discriminate). reflexivity.
Qed.

Lemma run_tree_proof_cdirs lo hi n slo ds :
  CDirs lo hi n slo ds -> lo < n -> hi - lo <= 2 ^ 63 ->
  forall p old, run_tree_proof_rev node_hash (rev p) lo hi n old = seeded slo ds p old.
Proof.
  induction 1 as [lo hi|lo hi n slo ds Hnh Hle HC IH|lo hi n slo ds Hnh Hgt HC IH];
    intros Hln Hb p old.
  - unfold seeded. destruct p as [|c0 rest].
    + cbn [rev run_tree_proof_rev].
      destruct (Z.ltb_spec lo hi), (Z.leb_spec hi hi); try lia. cbn [andb negb].
      rewrite Z.eqb_refl. destruct (lo =? 0); reflexivity.
    + destruct (rev (c0 :: rest)) as [|y l] eqn:E.
      { apply (f_equal (@length _)) in E. rewrite rev_length in E. discriminate. }
      cbn [run_tree_proof_rev].
      destruct (Z.ltb_spec lo hi), (Z.leb_spec hi hi); try lia. cbn [andb negb].
      rewrite Z.eqb_refl. destruct (lo =? 0); [reflexivity|].
      destruct rest as [|c1 rest].
      * cbn in E. injection E as <- <-. reflexivity.
      * cbn [foldD2 of_opt2]. destruct l as [|z l]; [|reflexivity].
        apply (f_equal (@length _)) in E. rewrite rev_length in E. discriminate.
  - pose proof (split_point_bounds (hi - lo) ltac:(lia)) as Hk.
    destruct p as [|x p _] using rev_ind.
    + rewrite seeded_nil. cbn [rev run_tree_proof_rev].
      destruct (Z.ltb_spec lo n), (Z.leb_spec n hi); try lia. cbn [andb negb].
      destruct (Z.eqb_spec n hi); [lia|]. reflexivity.
    + rewrite seeded_snoc, rev_unit. cbn [run_tree_proof_rev].
      destruct (Z.ltb_spec lo n), (Z.leb_spec n hi); try lia. cbn [andb negb].
      destruct (Z.eqb_spec n hi); [lia|].
      pose proof (maxpow2_split_point (hi - lo) ltac:(lia)) as Hmp.
      destruct (maxpow2 (hi - lo)) as [k l']. cbn [fst] in Hmp. subst k.
      destruct (Z.leb_spec n (lo + split_point (hi - lo))); [|lia].
      rewrite IH by lia. reflexivity.
  - pose proof (split_point_bounds (hi - lo) ltac:(lia)) as Hk.
    destruct p as [|x p _] using rev_ind.
    + rewrite seeded_nil. cbn [rev run_tree_proof_rev].
      destruct (Z.ltb_spec lo n), (Z.leb_spec n hi); try lia. cbn [andb negb].
      destruct (Z.eqb_spec n hi); [lia|]. reflexivity.
    + rewrite seeded_snoc, rev_unit. cbn [run_tree_proof_rev].
      destruct (Z.ltb_spec lo n), (Z.leb_spec n hi); try lia. cbn [andb negb].
      destruct (Z.eqb_spec n hi); [lia|].
      pose proof (maxpow2_split_point (hi - lo) ltac:(lia)) as Hmp.
      destruct (maxpow2 (hi - lo)) as [k l']. cbn [fst] in Hmp. subst k.
      destruct (Z.leb_spec n (lo + split_point (hi - lo))); [lia|].
      rewrite IH by lia. reflexivity.
Qed.

(* ------------------------------------------------------------------ the descent is the audit path of leaf n-1 *)

Lemma repeat_snoc {A} (x : A) k : repeat x k ++ [x] = repeat x (S k).
Proof. induction k as [|k IH]; [reflexivity|]. cbn [repeat app]. rewrite IH. reflexivity. Qed.

Lemma split_point_pow2_exact a : 1 <= a -> split_point (2 ^ a) = 2 ^ (a - 1).
Proof.
  intros Ha.
  assert (Hp : 2 ^ a = 2 * 2 ^ (a - 1)).
  { replace a with (a - 1 + 1) at 1 by lia. apply pow2_succ. lia. }
  pose proof (pow2_pos (a - 1) ltac:(lia)).
  apply split_point_unique; lia.
Qed.

(* the last leaf of a complete tree: every sibling is on the left *)
Lemma Dirs_last a : Dirs (2 ^ Z.of_nat a) (2 ^ Z.of_nat a - 1) (repeat true a).
Proof.
  induction a as [|a IH]; [constructor|].
  assert (Hp : 2 ^ Z.of_nat (S a) = 2 * 2 ^ Z.of_nat a).
  { rewrite Nat2Z.inj_succ. unfold Z.succ. apply pow2_succ. lia. }
  pose proof (pow2_pos (Z.of_nat a) ltac:(lia)) as Hpos.
  assert (Hsp : split_point (2 ^ Z.of_nat (S a)) = 2 ^ Z.of_nat a).
  { rewrite split_point_pow2_exact by lia. f_equal. lia. }
  rewrite <- repeat_snoc. apply Dirs_right; rewrite ?Hsp; try lia.
  replace (2 ^ Z.of_nat (S a) - 2 ^ Z.of_nat a) with (2 ^ Z.of_nat a) by lia.
  replace (2 ^ Z.of_nat (S a) - 1 - 2 ^ Z.of_nat a) with (2 ^ Z.of_nat a - 1) by lia.
  exact IH.
Qed.

Lemma CDirs_Dirs lo hi n slo ds :
  CDirs lo hi n slo ds -> 0 <= lo < n -> aligned lo hi ->
  (n < hi \/ exists a, hi - lo = 2 ^ Z.of_nat a /\ (2 * 2 ^ Z.of_nat a | lo)) ->
  exists a, n - slo = 2 ^ Z.of_nat a /\ (2 * 2 ^ Z.of_nat a | slo) /\ 0 <= slo /\
            Dirs (hi - lo) (n - 1 - lo) (repeat true a ++ ds).
Proof.
  induction 1 as [lo hi|lo hi n slo ds Hnh Hle HC IH|lo hi n slo ds Hnh Hgt HC IH];
    intros Hlo Hal Hsz.
  - destruct Hsz as [Hsz|[a [Ha Hd]]]; [lia|].
    exists a. rewrite app_nil_r. repeat split; try assumption; try lia.
    rewrite Ha. replace (hi - 1 - lo) with (2 ^ Z.of_nat a - 1) by lia. apply Dirs_last.
  - pose proof (split_point_bounds (hi - lo) ltac:(lia)) as Hk.
    destruct (split_point_pow2 (hi - lo) ltac:(lia)) as [l [Hl El]].
    destruct (IH ltac:(lia)) as [a [Hna [Hda [Hs0 HD]]]].
    + rewrite El. apply (aligned_left lo hi l); try assumption; lia.
    + right. exists (Z.to_nat l). rewrite Z2Nat.id by lia. split; [lia|].
      destruct Hal as [j [Hj [Hdj Hszj]]].
      assert (l < j).
      { destruct (Z_lt_ge_dec l j); [assumption|]. assert (2 ^ j <= 2 ^ l) by (apply pow2_le; lia). lia. }
      apply Z.divide_trans with (2 ^ j); [|exact Hdj].
      replace (2 * 2 ^ l) with (2 ^ (l + 1)) by (rewrite pow2_succ; lia). apply pow2_divide. lia.
    + exists a. repeat split; try assumption. rewrite app_assoc.
      apply Dirs_left; try lia.
      replace (lo + split_point (hi - lo) - lo) with (split_point (hi - lo)) in HD by lia. exact HD.
  - pose proof (split_point_bounds (hi - lo) ltac:(lia)) as Hk.
    destruct (split_point_pow2 (hi - lo) ltac:(lia)) as [l [Hl El]].
    destruct (IH ltac:(lia)) as [a [Hna [Hda [Hs0 HD]]]].
    + rewrite El. apply (aligned_right lo hi l); try assumption; lia.
    + left. lia.
    + exists a. repeat split; try assumption. rewrite app_assoc.
      apply Dirs_right; try lia.
      replace (hi - (lo + split_point (hi - lo))) with (hi - lo - split_point (hi - lo)) in HD by lia.
      replace (n - 1 - (lo + split_point (hi - lo))) with (n - 1 - lo - split_point (hi - lo)) in HD by lia.
      exact HD.
Qed.

(* ------------------------------------------------------------------ RFC side *)

Definition accept_cons (p : list hash) (fn sn : Z) (fr sr fh sh : hash) : bool :=
  match consistency_loop node_hash p fn sn fr sr with
  | None => false
  | Some (sn', fr', sr') => str_eqb fr' fh && str_eqb sr' sh && (sn' =? 0)
  end.

Lemma cons_promote q x rest fr sr :
  consistency_loop node_hash (x :: rest) (Zpos q~0) (Zpos q~0) fr sr
  = consistency_loop node_hash (x :: rest) (Zpos q) (Zpos q) fr sr.
Proof.
  cbn [consistency_loop]. unfold lsb.
  change (Zpos q~0 =? 0) with false. change (Zpos q =? 0) with false.
  change (Z.odd (Zpos q~0)) with false. rewrite !Z.eqb_refl. cbn [orb].
  destruct q as [q'|q'|]; reflexivity.
Qed.

Lemma accept_cons_dirs fn sn ds fh sh :
  Edirs fn sn ds -> 0 <= sn ->
  forall p fr sr, accept_cons p fn sn fr sr fh sh
              = match foldD2 ds p fr sr with
                | Some r => str_eqb (fst r) fh && str_eqb (snd r) sh
                | None => false
                end.
Proof.
  induction 1 as [fn|fn sn ds Hsn Hodd HE IH|fn sn ds Hsn Hodd Hne HE IH|fn sn ds Hsn Hodd Heq HE IH];
    intros Hpos p fr sr.
  - destruct p as [|x p]; unfold accept_cons; cbn [consistency_loop foldD2 fst snd]; [|reflexivity].
    rewrite andb_true_r. reflexivity.
  - assert (H2 : 0 <= Z.div2 sn) by (rewrite Z.div2_div; apply Z.div_pos; lia).
    destruct p as [|x p]; unfold accept_cons; cbn [consistency_loop foldD2].
    + destruct (Z.eqb_spec sn 0); [lia|]. rewrite andb_false_r. reflexivity.
    + destruct (Z.eqb_spec sn 0); [lia|]. unfold lsb. rewrite Hodd. cbn [orb].
      apply (IH H2 p).
  - assert (H2 : 0 <= Z.div2 sn) by (rewrite Z.div2_div; apply Z.div_pos; lia).
    destruct p as [|x p]; unfold accept_cons; cbn [consistency_loop foldD2].
    + destruct (Z.eqb_spec sn 0); [lia|]. rewrite andb_false_r. reflexivity.
    + destruct (Z.eqb_spec sn 0); [lia|]. unfold lsb. rewrite Hodd.
      destruct (Z.eqb_spec fn sn); [lia|]. cbn [orb]. apply (IH H2 p).
  - assert (H2 : 0 <= Z.div2 sn) by (rewrite Z.div2_div; apply Z.div_pos; lia).
    rewrite <- (IH H2 p fr sr). subst fn.
    destruct sn as [|q|q]; try lia. destruct q as [q|q|]; try discriminate.
    change (Z.div2 (Zpos q~0)) with (Zpos q).
    destruct p as [|x p].
    + unfold accept_cons. cbn [consistency_loop]. rewrite !andb_false_r. reflexivity.
    + unfold accept_cons. rewrite cons_promote. reflexivity.
Qed.

(* stripping the trailing one bits *)
Lemma Edirs_strip a : forall fn sn ds c,
  Edirs fn sn (repeat true a ++ ds) -> 0 <= c ->
  fn = c * 2 ^ Z.of_nat a + 2 ^ Z.of_nat a - 1 ->
  Edirs c (Z.shiftr sn (Z.of_nat a)) ds.
Proof.
  induction a as [|a IH]; intros fn sn ds c HE Hc Hfn.
  - change (2 ^ Z.of_nat 0) with 1 in Hfn. cbn [repeat app] in HE.
    rewrite Z.shiftr_0_r. replace c with fn by lia. exact HE.
  - assert (Hp : 2 ^ Z.of_nat (S a) = 2 * 2 ^ Z.of_nat a).
    { rewrite Nat2Z.inj_succ. unfold Z.succ. apply pow2_succ. lia. }
    pose proof (pow2_pos (Z.of_nat a) ltac:(lia)) as Hpos.
    assert (Hodd : Z.odd fn = true).
    { subst fn. rewrite Hp.
      replace (c * (2 * 2 ^ Z.of_nat a) + 2 * 2 ^ Z.of_nat a - 1)
        with (1 + 2 * (c * 2 ^ Z.of_nat a + 2 ^ Z.of_nat a - 1)) by lia.
      rewrite Z.odd_add_mul_2. reflexivity. }
    assert (Hdiv : Z.div2 fn = c * 2 ^ Z.of_nat a + 2 ^ Z.of_nat a - 1).
    { subst fn. rewrite Hp, Z.div2_div.
      replace (c * (2 * 2 ^ Z.of_nat a) + 2 * 2 ^ Z.of_nat a - 1)
        with (1 + (c * 2 ^ Z.of_nat a + 2 ^ Z.of_nat a - 1) * 2) by lia.
      rewrite Z.div_add by lia. cbn. lia. }
    cbn [repeat app] in HE.
    assert (HE' : Edirs (Z.div2 fn) (Z.div2 sn) (repeat true a ++ ds)).
    { clear IH. remember (true :: repeat true a ++ ds) as l eqn:El.
      revert El. induction HE as [fn|fn sn ds0 Hsn Ho HE0 _|fn sn ds0 Hsn Ho Hne HE0 _|fn sn ds0 Hsn Ho Heq HE0 _];
        intros El; try discriminate; congruence. }
    specialize (IH (Z.div2 fn) (Z.div2 sn) ds c HE' Hc Hdiv).
    replace (Z.shiftr sn (Z.of_nat (S a))) with (Z.shiftr (Z.div2 sn) (Z.of_nat a)); [exact IH|].
    rewrite Z.div2_spec, Z.shiftr_shiftr by lia. f_equal. lia.
Qed.

Lemma shift_to_even_spec a : forall c sn,
  0 <= c -> Z.odd c = false ->
  shift_to_even (c * 2 ^ Z.of_nat a + 2 ^ Z.of_nat a - 1) sn = (c, Z.shiftr sn (Z.of_nat a)).
Proof.
  induction a as [|a IH]; intros c sn Hc Hodd.
  - change (2 ^ Z.of_nat 0) with 1. replace (c * 1 + 1 - 1) with c by lia. rewrite Z.shiftr_0_r.
    destruct c as [|q|q]; try lia; [reflexivity|]. destruct q; try discriminate. reflexivity.
  - assert (Hp : 2 ^ Z.of_nat (S a) = 2 * 2 ^ Z.of_nat a).
    { rewrite Nat2Z.inj_succ. unfold Z.succ. apply pow2_succ. lia. }
    pose proof (pow2_pos (Z.of_nat a) ltac:(lia)) as Hpos.
    set (m := c * 2 ^ Z.of_nat a + 2 ^ Z.of_nat a - 1).
    assert (Hm : 0 <= m) by (unfold m; nia).
    replace (c * 2 ^ Z.of_nat (S a) + 2 ^ Z.of_nat (S a) - 1) with (2 * m + 1) by (unfold m; lia).
    assert (Hshift : Z.shiftr sn (Z.of_nat (S a)) = Z.shiftr (shr1 sn) (Z.of_nat a)).
    { unfold shr1. rewrite Z.div2_spec, Z.shiftr_shiftr by lia. f_equal. lia. }
    rewrite Hshift, <- (IH c (shr1 sn) Hc Hodd). fold m.
    destruct m as [|q|q]; try lia; reflexivity.
Qed.

Lemma is_pow2_spec x : 0 < x -> (is_pow2 x = true <-> x = 2 ^ Z.log2 x).
Proof.
  intros Hx. unfold is_pow2. destruct x as [|q|q]; try lia.
  set (x := Zpos q) in *. set (b := Z.log2 x).
  pose proof (Z.log2_nonneg x) as Hb. fold b in Hb.
  pose proof (Z.log2_spec x Hx) as [Hlo Hhi]. fold b in Hlo, Hhi.
  split.
  - intros H. apply Z.eqb_eq in H.
    destruct (Z.eq_dec x (2 ^ b)) as [|Hne]; [assumption|exfalso].
    assert (Hb1 : Z.testbit x b = true) by (apply Z.bit_log2; lia).
    assert (Hl : Z.log2 (x - 1) = b).
    { apply Z.log2_unique; lia. }
    assert (Hb2 : Z.testbit (x - 1) b = true) by (rewrite <- Hl; apply Z.bit_log2; lia).
    assert (Z.testbit (Z.land x (x - 1)) b = true) by (rewrite Z.land_spec, Hb1, Hb2; reflexivity).
    rewrite H, Z.bits_0 in H0. discriminate.
  - intros E. apply Z.eqb_eq. rewrite E.
    replace (2 ^ b - 1) with (Z.ones b) by (rewrite Z.ones_equiv; lia).
    rewrite Z.land_ones by lia. apply Z.mod_same. pose proof (pow2_pos b Hb). lia.
Qed.

Lemma seed_zero_iff_pow2 n slo a :
  0 <= slo -> n - slo = 2 ^ Z.of_nat a -> (2 * 2 ^ Z.of_nat a | slo) ->
  (slo = 0 <-> is_pow2 n = true).
Proof.
  intros Hs Hn [c Hc].
  pose proof (pow2_pos (Z.of_nat a) ltac:(lia)) as Hp.
  rewrite is_pow2_spec by lia. split.
  - intros ->. replace n with (2 ^ Z.of_nat a) by lia. rewrite Z.log2_pow2 by lia. reflexivity.
  - intros Hpow. set (b := Z.log2 n) in *.
    assert (Hc0 : 0 <= c) by nia.
    destruct (Z.eq_dec c 0) as [->|Hcn]; [lia|exfalso].
    assert (Hab : Z.of_nat a < b).
    { pose proof (Z.log2_nonneg n) as Hb0. fold b in Hb0.
      apply pow2_lt_inv; try lia; rewrite <- Hpow; nia. }
    assert (Hsplit : 2 ^ b = 2 ^ Z.of_nat a * (2 * 2 ^ (b - Z.of_nat a - 1))).
    { replace (2 * 2 ^ (b - Z.of_nat a - 1)) with (2 ^ (b - Z.of_nat a))
        by (replace (b - Z.of_nat a) with (b - Z.of_nat a - 1 + 1) at 1 by lia; apply pow2_succ; lia).
      rewrite <- Z.pow_add_r by lia. f_equal. lia. }
    assert (n = 2 ^ Z.of_nat a * (2 * c + 1)) by lia.
    rewrite Hpow, Hsplit in H.
    apply Z.mul_reg_l in H; lia.
Qed.

(* ------------------------------------------------------------------ the theorem *)

Theorem check_tree_iff_rfc9162 p t th n h :
  t <= 2 ^ 62 ->
  (check_tree node_hash p t th n h = Ok tt <-> rfc_verify_consistency node_hash p t th n h = true).
Proof.
  intros Ht. unfold check_tree, rfc_verify_consistency.
  destruct (Z.ltb_spec t 1), (Z.ltb_spec n 1), (Z.ltb_spec t n); cbn [orb];
    try (split; discriminate); try (exfalso; lia).
  unfold run_tree_proof.
  destruct (CDirs_exists (Z.to_nat t) 0 t n ltac:(lia) ltac:(lia)) as [slo [ds HC]].
  assert (H63 : 2 ^ 62 <= 2 ^ 63) by (apply pow2_le; lia).
  rewrite (run_tree_proof_cdirs 0 t n slo ds HC ltac:(lia) ltac:(lia)).
  destruct (Z.eqb_spec n t) as [->|Hnt].
  - (* equal sizes: empty proof, equal hashes *)
    assert (slo = 0 /\ ds = []) as [-> ->].
    { inversion HC; subst; try lia. split; reflexivity. }
    unfold seeded. cbn [Z.eqb]. destruct p as [|x p]; cbn [foldD2 of_opt2 bind fst snd].
    + rewrite str_eqb_refl, andb_true_r.
      destruct (str_eqb_spec h th) as [->|Hne].
      * split; reflexivity.
      * split; discriminate.
    + split; discriminate.
  - (* n < t *)
    destruct (CDirs_Dirs 0 t n slo ds HC ltac:(lia) (aligned_0 t ltac:(lia)) ltac:(left; lia))
      as [a [Hna [Hda [Hs0 HD]]]].
    rewrite !Z.sub_0_r in HD.
    pose proof (Dirs_Edirs _ _ _ HD) as HE.
    pose proof (pow2_pos (Z.of_nat a) ltac:(lia)) as Hp.
    destruct Hda as [c Hc].
    assert (Hc0 : 0 <= c) by nia.
    assert (Hfn : n - 1 = (2 * c) * 2 ^ Z.of_nat a + 2 ^ Z.of_nat a - 1) by lia.
    pose proof (Edirs_strip a (n - 1) (t - 1) ds (2 * c) HE ltac:(lia) Hfn) as HE'.
    assert (Hodd2 : Z.odd (2 * c) = false) by (rewrite Z.odd_mul; reflexivity).
    pose proof (shift_to_even_spec a (2 * c) (t - 1) ltac:(lia) Hodd2) as Hsh.
    rewrite <- Hfn in Hsh.
    assert (Hsn : 0 <= Z.shiftr (t - 1) (Z.of_nat a)) by (apply Z.shiftr_nonneg; lia).
    pose proof (seed_zero_iff_pow2 n slo a Hs0 Hna ltac:(exists c; lia)) as Hseed.
    unfold rfc_verify_consistency_lt.
    (* step 4 without the test: shift_to_even is the identity on an even number *)
    assert (Hstep4 : (if lsb (n - 1) then shift_to_even (n - 1) (t - 1) else (n - 1, t - 1))
                     = (2 * c, Z.shiftr (t - 1) (Z.of_nat a))).
    { destruct (lsb (n - 1)) eqn:El; [exact Hsh|].
      destruct a as [|a'].
      - change (2 ^ Z.of_nat 0) with 1 in *. rewrite Z.shiftr_0_r. f_equal. lia.
      - exfalso. unfold lsb in El. rewrite Hfn in El.
        assert (Hp' : 2 ^ Z.of_nat (S a') = 2 * 2 ^ Z.of_nat a').
        { rewrite Nat2Z.inj_succ. unfold Z.succ. apply pow2_succ. lia. }
        rewrite Hp' in El.
        replace (2 * c * (2 * 2 ^ Z.of_nat a') + 2 * 2 ^ Z.of_nat a' - 1)
          with (1 + 2 * (2 * c * 2 ^ Z.of_nat a' + 2 ^ Z.of_nat a' - 1)) in El by lia.
        rewrite Z.odd_add_mul_2 in El. discriminate. }
    unfold seeded.
    destruct (Z.eqb_spec slo 0) as [Hz|Hnz].
    + (* the old size is a power of two: the seed is the old hash *)
      rewrite (proj1 Hseed Hz).
      destruct p as [|x p].
      * rewrite foldD2_nil_r; [split; discriminate|].
        intros ->. inversion HC; subst; try lia;
          match goal with H : _ ++ [_] = [] |- _ => destruct (app_cons_not_nil _ _ _ (eq_sym H)) end.
      * rewrite Hstep4.
        pose proof (accept_cons_dirs (2 * c) _ ds h th HE' Hsn (x :: p) h h) as HA.
        unfold accept_cons in HA.
        destruct (consistency_loop node_hash (x :: p) (2 * c) (Z.shiftr (t - 1) (Z.of_nat a)) h h)
          as [[[sn' fr'] sr']|]; destruct (foldD2 ds (x :: p) h h) as [[fr0 sr0]|];
          cbn [of_opt2 bind fst snd] in *.
        -- rewrite HA, (andb_comm (str_eqb sr0 th)).
           destruct (str_eqb fr0 h && str_eqb sr0 th); split; intros; try reflexivity; discriminate.
        -- rewrite HA. split; discriminate.
        -- rewrite (andb_comm (str_eqb sr0 th)), <- HA. split; discriminate.
        -- split; discriminate.
    + assert (Hnp : is_pow2 n = false).
      { destruct (is_pow2 n) eqn:E; [|reflexivity]. exfalso. apply Hnz. apply Hseed. reflexivity. }
      rewrite Hnp.
      destruct p as [|x p]; [split; discriminate|].
      rewrite Hstep4.
      pose proof (accept_cons_dirs (2 * c) _ ds h th HE' Hsn p x x) as HA.
      unfold accept_cons in HA.
      destruct (consistency_loop node_hash p (2 * c) (Z.shiftr (t - 1) (Z.of_nat a)) x x)
        as [[[sn' fr'] sr']|]; destruct (foldD2 ds p x x) as [[fr0 sr0]|];
        cbn [of_opt2 bind fst snd] in *.
      * rewrite HA, (andb_comm (str_eqb sr0 th)).
        destruct (str_eqb fr0 h && str_eqb sr0 th); split; intros; try reflexivity; discriminate.
      * rewrite HA. split; discriminate.
      * rewrite (andb_comm (str_eqb sr0 th)), <- HA. split; discriminate.
      * split; discriminate.
Qed.

End RfcCons.
