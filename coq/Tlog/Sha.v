(* Tlog/Sha.v — the execution instance of the hash functions of tlog.go:
     RecordHash(data)      = SHA-256(0x00 || data)
     NodeHash(left, right) = SHA-256(0x01 || left || right)
   with the executable SHA-256 of Base/Sha256.v.  Model file: no proofs.

   Exported: record_hash : str -> str,  node_hash_sha : str -> str -> str,
   and the instantiated functions  sha_stored_hashes, sha_stored_hashes_for_record_hash,
   sha_tree_hash, sha_prove_record, sha_check_record, sha_prove_tree, sha_check_tree. *)
From Verif.Base Require Import Bytes Sha256.
From Verif.Tlog Require Import Index Tree.

Definition record_hash (data : str) : str := sha256 (0 :: data).
Definition node_hash_sha (l r : str) : str := sha256 (1 :: l ++ r).

Definition sha_stored_hashes := stored_hashes record_hash node_hash_sha.
Definition sha_stored_hashes_for_record_hash := stored_hashes_for_record_hash node_hash_sha.
Definition sha_tree_hash := tree_hash node_hash_sha.
Definition sha_prove_record := prove_record node_hash_sha.
Definition sha_check_record := check_record node_hash_sha.
Definition sha_prove_tree := prove_tree node_hash_sha.
Definition sha_check_tree := check_tree node_hash_sha.
