(* Tlog/TileProofsTrue.v — corollaries of read_hashes_sound and nodeat_true_or_collision:
   against the true tree head of a log with leaf hashes L, every hash returned and every entry
   of every tile handed to SaveTiles is the true RFC 6962 hash, or a collision is explicit. *)
From Verif.Base Require Import Bytes.
From Verif.Tlog Require Import Index Tree Spec6962 Tile TileReader TileSpec.
From Verif.Tlog Require Import TileProofsMerkle TileProofsSound TileProofsPath6962.

Section TrueTiles.
Variable node_hash : hash -> hash -> hash.

(* the true content of entry i of tile t for the log with leaf hashes L *)
Definition true_entry (L : list hash) (t : tile) (i : Z) : hash :=
  mth node_hash (slice L ((tN t * 2 ^ tH t + i) * 2 ^ (tH t * tL t)) (2 ^ (tH t * tL t))).

Theorem saved_tiles_are_true_tiles (L : list hash) N h ix rt r ts ds :
  zlen L = N -> N <= 2 ^ 62 ->
  tile_read_hashes node_hash (N, mth node_hash L) h ix rt = (r, Some (ts, ds)) ->
  Forall2 (fun t d => len d = tW t * 32 /\
                      forall i, 0 <= i < tW t -> entry d i = true_entry L t i \/ collision node_hash) ts ds.
Proof.
  intros EN HN H.
  assert (HN0 : 0 <= N) by (unfold zlen in EN; lia).
  pose proof (read_hashes_saved_only_authenticated node_hash N _ h ix rt r ts ds ltac:(lia) H) as HF.
  revert HF. apply Forall2_impl_in. intros t d _ [_ [_ [_ [_ [Hlen Hent]]]]].
  split; [exact Hlen|]. intros i Hi.
  apply (nodeat_true_or_collision node_hash L _ N _ _ _ eq_refl EN (Hent i Hi)).
Qed.

Theorem returned_hashes_are_true (L : list hash) N h ix rt hs sv :
  zlen L = N -> N <= 2 ^ 62 ->
  tile_read_hashes node_hash (N, mth node_hash L) h ix rt = (TOk hs, Some sv) ->
  Forall2 (fun i x => exists l o, split_stored_hash_index i = Ok (l, o) /\
                                  (x = mth node_hash (slice L (o * 2 ^ l) (2 ^ l)) \/ collision node_hash)) ix hs.
Proof.
  intros EN HN H. destruct sv as [ts ds].
  assert (HN0 : 0 <= N) by (unfold zlen in EN; lia).
  destruct (read_hashes_sound node_hash N _ h ix rt hs ts ds ltac:(lia) H) as [HF _].
  revert HF. apply Forall2_impl_in. intros i x _ [l [o [Hs Hn]]].
  exists l, o. split; [exact Hs|].
  apply (nodeat_true_or_collision node_hash L _ N _ _ _ eq_refl EN Hn).
Qed.

End TrueTiles.
