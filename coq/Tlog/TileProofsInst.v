(* Tlog/TileProofsInst.v — read_hashes_complete for a real log: records recs, SHA-256 record and
   node hashes, tree head = RFC 6962 MTH of the record hashes, honest tiles = the true
   subtree hashes.  (Instantiates the family T of TileProofsHonest.v by ProofsStore.range_hash.) *)
From Verif.Base Require Import Bytes Sha256 Sha256Proofs.
From Verif.Tlog Require Import Index Tree Spec6962 ProofsIndex ProofsSpec ProofsTree ProofsStore Sha.
From Verif.Tlog Require Import Tile TileReader TileSpec TileProofsHonest TileProofsHonestRun.

Lemma mth_fuel_length node_hash f l :
  (forall a b, length (node_hash a b) = 32%nat) -> Forall (fun x : hash => length x = 32%nat) l ->
  length (mth_fuel node_hash f l) = 32%nat.
Proof.
  intros Hn Hl. destruct f; destruct l as [|x [|y r]]; cbn [mth_fuel];
    try reflexivity; try (inversion Hl; assumption); apply Hn.
Qed.

Definition sha_range (recs : list str) : Z -> Z -> hash := range_hash record_hash node_hash_sha recs.

Lemma sha_range_length recs lo hi : length (sha_range recs lo hi) = 32%nat.
Proof.
  unfold sha_range, range_hash, mth. apply mth_fuel_length.
  - intros a b. apply sha256_length.
  - apply Forall_forall. intros x Hx. apply in_map_iff in Hx. destruct Hx as [r [<- _]]. apply sha256_length.
Qed.

Lemma sha_range_root recs : sha_range recs 0 (zlen recs) = mth node_hash_sha (map record_hash recs).
Proof. unfold sha_range, range_hash. rewrite Z.sub_0_r, slice_all. reflexivity. Qed.

Theorem read_hashes_complete_sha256 (recs : list str) h ix :
  1 <= h <= 30 -> 0 < zlen recs <= 2 ^ 62 ->
  Forall (fun x => 0 <= x < stored_hash_index 0 (zlen recs)) ix ->
  exists sv,
    tile_read_hashes node_hash_sha (zlen recs, mth node_hash_sha (map record_hash recs)) h ix
                     (honest_rt (sha_range recs))
    = (TOk (map (true_hash (sha_range recs)) ix), Some sv).
Proof.
  intros Hh HN Hix. rewrite <- sha_range_root.
  apply (read_hashes_complete node_hash_sha (sha_range recs) (zlen recs)
           (range_hash_splits record_hash node_hash_sha recs) (sha_range_length recs) HN h Hh ix Hix).
Qed.
