(* Tlog/TilePathProofsBij.v — tile_path_bijection: Tile.Path and ParseTilePath are inverse
   bijections between valid_tile coordinates (TileSpec.v: 1 <= H <= 30, -1 <= L < 2^63 with
   L = -1 the data tiles, 0 <= N < 2^63, 1 <= W <= 2^H) and the strings ParseTilePath accepts. *)
From Verif.Base Require Import Bytes Strconv StrconvProofs.
From Verif.Tlog Require Import Index Tree Tile TileSpec TileProofs TilePathProofs.

(* ---------------------------------------------------------------- ParseTilePath after strings.Split *)

Definition parse_body (path f1 f2 : str) (rest : list str) : tres tile :=
  let is_data := str_eqb f2 (B "data") in
  let f2' := if is_data then B "0" else f2 in
  let f' := B "tile" :: f1 :: f2' :: rest in
  match atoi f1, atoi f2' with
  | Some h, Some l =>
      if (h <? 1) || (l <? 0) || (30 <? h) then TErr TEBadPath
      else
        let nf := length f' in
        let dotp := nth (nf - 2) f' [] in
        let after_p : option (Z * list str) :=
          if has_suffix dotp (B ".p") then
            match atoi (nth (nf - 1) f' []) with
            | Some ww =>
                if (ww <=? 0) || (2 ^ h <=? ww) then None
                else Some (ww, firstn (nf - 2) f' ++ [strip_dot_p dotp])
            | None => None
            end
          else Some (2 ^ h, f') in
        match after_p with
        | None => TErr TEBadPath
        | Some (w, f'') =>
            match parse_n (skipn 3 f'') 0 with
            | None => TErr TEBadPath
            | Some n =>
                let t := mkTile h (if is_data then -1 else l) n w in
                if str_eqb path (tile_path t) then TOk t else TErr TEBadPath
            end
        end
  | _, _ => TErr TEBadPath
  end.

Lemma parse_tile_path_unfold path f1 f2 rest :
  split_on 47 path = B "tile" :: f1 :: f2 :: rest -> rest <> [] ->
  parse_tile_path path = parse_body path f1 f2 rest.
Proof.
  intros H Hne. destruct rest as [|r0 rr]; [congruence|].
  unfold parse_tile_path. rewrite H. reflexivity.
Qed.

(* ---------------------------------------------------------------- list positions from the end *)

Lemma nth_last2 {A} (pre : list A) a b d : nth (length (pre ++ [a; b]) - 2) (pre ++ [a; b]) d = a.
Proof.
  rewrite app_length. cbn [length]. replace (length pre + 2 - 2)%nat with (length pre) by lia.
  rewrite app_nth2 by lia. rewrite Nat.sub_diag. reflexivity.
Qed.

Lemma nth_last1 {A} (pre : list A) a b d : nth (length (pre ++ [a; b]) - 1) (pre ++ [a; b]) d = b.
Proof.
  rewrite app_length. cbn [length]. replace (length pre + 2 - 1)%nat with (S (length pre)) by lia.
  rewrite app_nth2 by lia. replace (S (length pre) - length pre)%nat with 1%nat by lia. reflexivity.
Qed.

Lemma firstn_last2 {A} (pre : list A) a b : firstn (length (pre ++ [a; b]) - 2) (pre ++ [a; b]) = pre.
Proof.
  rewrite app_length. cbn [length]. replace (length pre + 2 - 2)%nat with (length pre) by lia.
  rewrite firstn_app, Nat.sub_diag, firstn_all. cbn [firstn]. apply app_nil_r.
Qed.

(* ---------------------------------------------------------------- the level field *)

Lemma format_int_not_data n : 0 <= n -> str_eqb (format_int n) (B "data") = false.
Proof.
  intros Hn. destruct (format_int_shape n) as [ds [E [Hd [Hne _]]]].
  destruct (Z.ltb_spec n 0); [lia|]. cbn [app] in E. rewrite E.
  destruct ds as [|c r]; [congruence|]. inversion_clear Hd as [|? ? Hc _].
  apply is_digit_range in Hc. cbn [str_eqb]. change (B "data") with [100; 97; 116; 97].
  cbn [str_eqb]. destruct (Z.eqb_spec c 100); [lia|reflexivity].
Qed.

Lemma lstr_parse t : -1 <= tL t < 2 ^ 63 ->
  exists (b : bool) f2' l,
    str_eqb (lstr t) (B "data") = b /\ (if b then B "0" else lstr t) = f2' /\
    atoi f2' = Some l /\ 0 <= l /\ (if b then -1 else l) = tL t /\
    has_suffix f2' (B ".p") = false.
Proof.
  intros HL. unfold lstr. destruct (Z.eqb_spec (tL t) (-1)) as [E|Hne].
  - exists true, (B "0"), 0. rewrite str_eqb_refl. repeat split; try reflexivity; lia.
  - exists false, (format_int (tL t)), (tL t).
    rewrite format_int_not_data by lia. repeat split; try lia.
    + apply atoi_format_int. lia.
    + apply format_int_not_dotp.
Qed.

Lemma pow2sh_small h : 1 <= h <= 30 -> pow2sh h = 2 ^ h.
Proof.
  intros Hh. unfold pow2sh.
  destruct (Z.ltb_spec h 0); [lia|]. destruct (Z.leb_spec 64 h); [lia|]. cbn [orb].
  destruct (Z.eqb_spec h 63); [lia|reflexivity].
Qed.

Lemma pow2_30 h : 1 <= h <= 30 -> 2 <= 2 ^ h <= 2 ^ 30.
Proof.
  intros Hh. split.
  - change 2 with (2 ^ 1) at 1. apply Z.pow_le_mono_r; lia.
  - apply Z.pow_le_mono_r; lia.
Qed.

(* ---------------------------------------------------------------- (a) parse (path t) = t *)

Theorem parse_tile_path_of_path t : valid_tile t -> parse_tile_path (tile_path t) = TOk t.
Proof.
  intros [HH [HL [HN HW]]].
  destruct (nstr_spec (tN t) ltac:(lia)) as [ds [E [Hds Hv]]].
  set (glast := fmt03 (tN t mod 1000)) in *.
  assert (Hg : in_group (tN t mod 1000)) by (apply Z.mod_pos_bound; lia).
  destruct (fmt03_spec _ Hg) as [_ [Hgd _]]. fold glast in Hgd.
  pose proof (tile_path_fields t ds glast E Hds (digits_no47 _ Hgd)) as Hf.
  rewrite (pow2sh_small _ HH) in Hf.
  pose proof (pow2_30 _ HH) as Hp30.
  assert (H263 : 2 ^ 30 < 2 ^ 63) by (apply Z.pow_lt_mono_r; lia).
  set (rest := map xg ds ++ (if tW t =? 2 ^ tH t then [glast] else [glast ++ B ".p"; format_int (tW t)])) in *.
  assert (Hne : rest <> []).
  { unfold rest. intros Hnil. apply app_eq_nil in Hnil. destruct Hnil as [_ Hnil].
    destruct (tW t =? 2 ^ tH t); discriminate. }
  rewrite (parse_tile_path_unfold _ _ _ _ Hf Hne). unfold parse_body. cbv zeta.
  destruct (lstr_parse t HL) as (b & f2' & l & Eb & Ef2 & Hl & Hl0 & EL & Hl2p).
  rewrite Eb, Ef2, Hl. rewrite atoi_format_int by lia.
  destruct (Z.ltb_spec (tH t) 1); [lia|]. destruct (Z.ltb_spec l 0); [lia|].
  destruct (Z.ltb_spec 30 (tH t)); [lia|]. cbn [orb].
  (* the value the accumulator loop computes *)
  assert (Hval :
            match parse_n (map xg ds ++ [glast]) 0 with
            | Some n =>
                if str_eqb (tile_path t) (tile_path (mkTile (tH t) (if b then -1 else l) n (tW t)))
                then TOk (mkTile (tH t) (if b then -1 else l) n (tW t)) else TErr TEBadPath
            | None => TErr TEBadPath
            end = TOk t).
  { assert (Hq : gval ds 0 * 1000 + tN t mod 1000 = tN t).
    { rewrite Hv. pose proof (Z.div_mod (tN t) 1000 ltac:(lia)). lia. }
    assert (Hgv : gval ds 0 < 2 ^ 63).
    { rewrite Hv. apply Z.div_lt_upper_bound; lia. }
    rewrite (parse_n_groups ds Hds) by lia.
    cbn [parse_n]. unfold glast. rewrite (atoi_fmt03 _ Hg).
    unfold in_group in Hg.
    destruct (Z.ltb_spec (tN t mod 1000) 0); [lia|]. destruct (Z.leb_spec 1000 (tN t mod 1000)); [lia|].
    cbn [orb]. rewrite Hq, wrap64_small by lia. rewrite EL.
    replace (mkTile (tH t) (tL t) (tN t) (tW t)) with t by (destruct t; reflexivity).
    rewrite str_eqb_refl. reflexivity. }
  assert (HQx : Forall (fun s => has_suffix s (B ".p") = false) (map xg ds)).
  { apply Forall_forall. intros s Hs. apply in_map_iff in Hs. destruct Hs as [d [<- Hd]].
    rewrite Forall_forall in Hds. apply xg_not_dotp, Hds, Hd. }
  unfold rest. destruct (Z.eqb_spec (tW t) (2 ^ tH t)) as [Efull|Hpart].
  - (* a complete tile: no field ends in ".p" *)
    match goal with |- context [nth _ ?l []] => set (f' := l) end.
    assert (HQ : Forall (fun s => has_suffix s (B ".p") = false) f').
    { unfold f'. constructor; [reflexivity|]. constructor; [apply format_int_not_dotp|].
      constructor; [exact Hl2p|]. apply Forall_app. split; [exact HQx|].
      constructor; [apply fmt03_not_dotp; exact Hg|constructor]. }
    pose proof (proj1 (Forall_nth _ f') HQ (length f' - 2)%nat []
                  ltac:(unfold f'; cbn [length]; lia)) as Hnth.
    cbv beta in Hnth. rewrite Hnth.
    unfold f'. cbn [skipn]. rewrite <- Efull. exact Hval.
  - (* a partial tile: …/NNN.p/W *)
    match goal with |- context [nth _ ?l []] => set (f' := l) end.
    assert (Ef' : f' = (B "tile" :: format_int (tH t) :: f2' :: map xg ds) ++ [glast ++ B ".p"; format_int (tW t)])
      by reflexivity.
    rewrite Ef', nth_last2, nth_last1, firstn_last2, has_suffix_dotp_app, strip_dot_p_app.
    rewrite atoi_format_int by lia.
    destruct (Z.leb_spec (tW t) 0); [lia|]. destruct (Z.leb_spec (2 ^ tH t) (tW t)); [lia|]. cbn [orb].
    cbn [app skipn]. exact Hval.
Qed.

(* ---------------------------------------------------------------- (b) what ParseTilePath returns *)

Lemma parse_digits_ge s : forall a n, parse_digits s a = POk n -> 0 <= a -> a <= n.
Proof.
  induction s as [|c s IH]; intros a n H Ha; cbn [parse_digits] in H.
  - injection H as <-. lia.
  - destruct (is_digit c) eqn:Hc; [|discriminate]. apply is_digit_range in Hc.
    destruct (max_uint64 <? 10 * a + (c - 48)); [discriminate|].
    apply IH in H; lia.
Qed.

Lemma atoi_range s n : atoi s = Some n -> - 2 ^ 63 <= n < 2 ^ 63.
Proof.
  unfold atoi, atoi_r, parse_int64_r. change (2 ^ 63) with two63. intros H.
  destruct s as [|c r]; [discriminate|]. cbv zeta in H.
  match type of H with
  | context [parse_uint64_r ?b] => destruct (parse_uint64_r b) as [un|e] eqn:Eu
  end; [|cbn [pres_value] in H; discriminate].
  assert (Hun : 0 <= un).
  { unfold parse_uint64_r in Eu.
    match type of Eu with match ?b with _ => _ end = _ => destruct b; [discriminate|] end.
    apply parse_digits_ge in Eu; lia. }
  destruct (c =? 45).
  - destruct (Z.ltb_spec two63 un); cbn [pres_value] in H; [discriminate|]. injection H as <-.
    unfold two63 in *. lia.
  - destruct (Z.leb_spec two63 un); cbn [pres_value] in H; [discriminate|]. injection H as <-.
    unfold two63 in *. lia.
Qed.

(* at most two path elements: no int64 wrap, the number is not negative *)
Lemma parse_n_short f n : parse_n f 0 = Some n -> (length f <= 2)%nat -> 0 <= n.
Proof.
  assert (Hstep : forall s a k, 0 <= a < 1000000 ->
            match atoi (trim_x s) with
            | Some nn => if (nn <? 0) || (1000 <=? nn) then None else k (wrap64 (a * 1000 + nn))
            | None => None
            end = Some n -> exists a', 0 <= a' < a * 1000 + 1000 /\ k a' = Some n).
  { intros s a k Ha H. destruct (atoi (trim_x s)) as [nn|]; [|discriminate].
    destruct (Z.ltb_spec nn 0); [discriminate|]. destruct (Z.leb_spec 1000 nn); [discriminate|].
    cbn [orb] in H. assert (2 ^ 63 = 9223372036854775808) by reflexivity.
    rewrite wrap64_small in H by lia. exists (a * 1000 + nn). split; [lia|exact H]. }
  intros H Hlen. destruct f as [|s1 [|s2 [|s3 f]]]; cbn [length] in Hlen; try lia; cbn [parse_n] in H.
  - injection H as <-. lia.
  - destruct (Hstep s1 0 (fun a => Some a) ltac:(lia) H) as [a' [Ha' [= <-]]]. lia.
  - destruct (Hstep s1 0 (fun a => parse_n [s2] a) ltac:(lia) H) as [a1 [Ha1 H1]]. cbn [parse_n] in H1.
    destruct (Hstep s2 a1 (fun a => Some a) ltac:(lia) H1) as [a2 [Ha2 [= <-]]]. lia.
Qed.

Lemma parse_tile_path_shape2 s t :
  parse_tile_path s = TOk t ->
  tL t < 2 ^ 63 /\ ((length (split_on 47 s) <= 5)%nat -> 0 <= tN t).
Proof.
  unfold parse_tile_path. intros H.
  destruct (split_on 47 s) as [|f0 [|f1 [|f2 [|f3 fr]]]]; try discriminate.
  destruct (negb (str_eqb f0 (B "tile"))); [discriminate|].
  destruct (Strconv.atoi f1) as [h|]; [|discriminate].
  destruct (Strconv.atoi (if str_eqb f2 (B "data") then B "0" else f2)) as [l|] eqn:El; [|discriminate].
  apply atoi_range in El.
  destruct ((h <? 1) || (l <? 0) || (30 <? h)); [discriminate|].
  change (skipn 3 (f0 :: f1 :: f2 :: f3 :: fr)) with (f3 :: fr) in H.
  remember (f0 :: f1 :: (if str_eqb f2 (B "data") then B "0" else f2) :: f3 :: fr) as f' eqn:Ef'.
  assert (Hlf : length f' = S (S (S (S (length fr))))) by (rewrite Ef'; reflexivity).
  match type of H with
  | match ?o with _ => _ end = _ => destruct o as [[w f'']|] eqn:Eo; [|discriminate]
  end.
  assert (Hlen : (length f'' <= length f')%nat).
  { destruct (has_suffix _ _) in Eo.
    - destruct (Strconv.atoi _) as [ww|] in Eo; [|discriminate].
      destruct ((ww <=? 0) || (2 ^ h <=? ww)); [discriminate|].
      injection Eo as _ <-. rewrite app_length, firstn_length. cbn [length]. lia.
    - injection Eo as _ <-. lia. }
  destruct (parse_n (skipn 3 f'') 0) as [n|] eqn:En; [|discriminate].
  match type of H with
  | (if ?c then _ else _) = _ => destruct c; [|discriminate]
  end.
  injection H as <-. cbn [tL tN]. split.
  - destruct (str_eqb f2 (B "data")); lia.
  - intros H5. apply (parse_n_short _ _ En). rewrite skipn_length.
    cbn [length] in H5. lia.
Qed.

(* a negative tile number is printed as one path element *)
Lemma tile_path_neg_fields t : tN t < 0 -> (length (split_on 47 (tile_path t)) <= 5)%nat.
Proof.
  intros Hn.
  assert (Hr : -1000 < Z.rem (tN t) 1000 < 1000).
  { pose proof (Z.rem_bound_pos_neg (tN t) 1000 ltac:(lia) ltac:(lia)). lia. }
  rewrite (tile_path_fields t [] (fmt03 (Z.rem (tN t) 1000))).
  - cbn [map app length]. destruct (tW t =? pow2sh (tH t)); cbn [length]; lia.
  - apply nstr_neg. exact Hn.
  - constructor.
  - apply fmt03_small_no47. exact Hr.
Qed.

Theorem parse_tile_path_valid s t : parse_tile_path s = TOk t -> tile_path t = s /\ valid_tile t.
Proof.
  intros H. pose proof (parse_tile_path_canonical s t H) as Hc. split; [exact Hc|].
  destruct (parse_tile_path_shape s t H) as [HH [HL [HW HN]]].
  destruct (parse_tile_path_shape2 s t H) as [HL2 HN2].
  unfold valid_tile. repeat split; try lia.
  destruct (Z_lt_le_dec (tN t) 0) as [Hneg|]; [|assumption].
  apply HN2. rewrite <- Hc. apply tile_path_neg_fields. exact Hneg.
Qed.

(* tile_path_bijection *)
Theorem tile_path_bijection :
  (forall t, valid_tile t -> parse_tile_path (tile_path t) = TOk t) /\
  (forall s t, parse_tile_path s = TOk t -> tile_path t = s /\ valid_tile t).
Proof. split; [exact parse_tile_path_of_path|exact parse_tile_path_valid]. Qed.

(* consequences: tile_path is injective on valid tiles, and the accepted strings are exactly the
   paths of valid tiles *)
Corollary tile_path_inj t1 t2 : valid_tile t1 -> valid_tile t2 -> tile_path t1 = tile_path t2 -> t1 = t2.
Proof.
  intros H1 H2 E. apply parse_tile_path_of_path in H1, H2. rewrite E in H1. congruence.
Qed.

Corollary parse_tile_path_accepts s :
  (exists t, parse_tile_path s = TOk t) <-> (exists t, valid_tile t /\ s = tile_path t).
Proof.
  split.
  - intros [t H]. destruct (parse_tile_path_valid s t H) as [E V]. exists t. split; [exact V|congruence].
  - intros [t [V ->]]. exists t. apply parse_tile_path_of_path. exact V.
Qed.
