(* Tlog/ProofsRecord.v — record (inclusion) proofs: CheckRecord never panics; ProveRecord on
   the store built by StoredHashes returns the RFC 6962 audit path PATH(n, D[t]); the honest
   path is accepted; whatever is accepted under the true tree hash is the true leaf hash,
   or else a concrete collision of the node hash is exhibited. *)
From Verif.Base Require Import Bytes.
From Verif.Tlog Require Import Index Tree Spec6962 ProofsIndex ProofsSpec ProofsTree ProofsStore.

Section Record.
Variable node_hash : hash -> hash -> hash.

(* ------------------------------------------------------------------ no panic *)

Lemma bind_not_panic {A B} (r : res A) (f : A -> res B) :
  r <> Panic -> (forall a, f a <> Panic) -> bind r f <> Panic.
Proof. destruct r; cbn [bind]; auto; congruence. Qed.

Lemma run_record_proof_rev_no_panic rp : forall lo hi n h,
  lo <= n < hi -> hi - lo <= 2 ^ 63 -> run_record_proof_rev node_hash rp lo hi n h <> Panic.
Proof.
  induction rp as [|x rest IH]; intros lo hi n h Hn Hsz; cbn [run_record_proof_rev].
  - destruct (Z.leb_spec lo n), (Z.ltb_spec n hi); try lia. cbn [andb negb].
    destruct (lo + 1 =? hi); discriminate.
  - destruct (Z.leb_spec lo n), (Z.ltb_spec n hi); try lia. cbn [andb negb].
    destruct (Z.eqb_spec (lo + 1) hi); [discriminate|].
    destruct (maxpow2_spec (hi - lo) ltac:(lia)) as [l [E [Hl Hb]]]. rewrite E.
    destruct (Z.ltb_spec n (lo + 2 ^ l)); apply bind_not_panic; try discriminate; apply IH; lia.
Qed.

Lemma run_tree_proof_rev_no_panic rp : forall lo hi n h,
  lo < n <= hi -> hi - lo <= 2 ^ 63 -> run_tree_proof_rev node_hash rp lo hi n h <> Panic.
Proof.
  induction rp as [|x rest IH]; intros lo hi n h Hn Hsz; cbn [run_tree_proof_rev].
  - destruct (Z.ltb_spec lo n), (Z.leb_spec n hi); try lia. cbn [andb negb].
    destruct (n =? hi); [destruct (lo =? 0)|]; discriminate.
  - destruct (Z.ltb_spec lo n), (Z.leb_spec n hi); try lia. cbn [andb negb].
    destruct (Z.eqb_spec n hi); [destruct (lo =? 0); [discriminate|destruct rest; discriminate]|].
    destruct (maxpow2_spec (hi - lo) ltac:(lia)) as [l [E [Hl Hb]]]. rewrite E.
    destruct (Z.leb_spec n (lo + 2 ^ l)); apply bind_not_panic; try discriminate; apply IH; lia.
Qed.

(* check_never_panics *)
Theorem check_never_panics p t th n h :
  t <= 2 ^ 63 ->
  check_record node_hash p t th n h <> Panic /\ check_tree node_hash p t th n h <> Panic.
Proof.
  intros Ht. split.
  - unfold check_record.
    destruct (Z.ltb_spec t 0), (Z.ltb_spec n 0), (Z.leb_spec t n); cbn [orb]; try discriminate.
    apply bind_not_panic.
    + apply run_record_proof_rev_no_panic; lia.
    + intros a. destruct (str_eqb a th); discriminate.
  - unfold check_tree.
    destruct (Z.ltb_spec t 1), (Z.ltb_spec n 1), (Z.ltb_spec t n); cbn [orb]; try discriminate.
    apply bind_not_panic.
    + apply run_tree_proof_rev_no_panic; lia.
    + intros a. destruct (str_eqb (snd a) th && str_eqb (fst a) h); discriminate.
Qed.

(* invalid arguments are refused with an error *)
Lemma check_record_invalid p t th n h :
  t < 0 \/ n < 0 \/ t <= n -> check_record node_hash p t th n h = Err EInvalidInputs.
Proof.
  intros H. unfold check_record.
  destruct (Z.ltb_spec t 0), (Z.ltb_spec n 0), (Z.leb_spec t n); cbn [orb]; try reflexivity; lia.
Qed.

Lemma check_tree_invalid p t th n h :
  t < 1 \/ n < 1 \/ t < n -> check_tree node_hash p t th n h = Err EInvalidInputs.
Proof.
  intros H. unfold check_tree.
  destruct (Z.ltb_spec t 1), (Z.ltb_spec n 1), (Z.ltb_spec t n); cbn [orb]; try reflexivity; lia.
Qed.

(* ------------------------------------------------------------------ audit paths over a range hash T *)

Section Paths.
Variable T : Z -> Z -> hash.

(* p is the audit path of leaf n within [lo, hi), the sibling nearest to the leaf first *)
Inductive IsPath : Z -> Z -> Z -> list hash -> Prop :=
| IsPath_leaf n : IsPath n (n + 1) n []
| IsPath_left lo hi n p :
    lo + 2 <= hi -> n < lo + split_point (hi - lo) ->
    IsPath lo (lo + split_point (hi - lo)) n p ->
    IsPath lo hi n (p ++ [T (lo + split_point (hi - lo)) hi])
| IsPath_right lo hi n p :
    lo + 2 <= hi -> lo + split_point (hi - lo) <= n ->
    IsPath (lo + split_point (hi - lo)) hi n p ->
    IsPath lo hi n (p ++ [T lo (lo + split_point (hi - lo))]).

Lemma IsPath_range lo hi n p : IsPath lo hi n p -> lo <= n < hi.
Proof.
  induction 1; try lia.
  - pose proof (split_point_bounds (hi - lo) ltac:(lia)). lia.
  - pose proof (split_point_bounds (hi - lo) ltac:(lia)). lia.
Qed.

Section Fixed.
Variable N : Z.
Variable st : list hash.
Hypothesis HN : N <= 2 ^ 62.
Hypothesis HT : T_splits node_hash T N.
Hypothesis Hst : store_holds T N st.

Lemma Blocks_nonempty lo hi bs : Blocks lo hi bs -> lo < hi -> bs <> [].
Proof. intros HB Hlt. destruct HB; [lia|discriminate]. Qed.

Lemma sub_tree_both a b :
  0 <= a < b -> b <= N -> aligned a b ->
  exists idx hs,
    idx <> [] /\
    (forall need, sub_tree_index a b need = Ok (need ++ idx)) /\
    reader_of st idx = Some hs /\
    (forall rest, sub_tree_hash node_hash a b (hs ++ rest) = Ok (T a b, rest)).
Proof.
  intros Ha Hb Hal.
  destruct (sub_tree_index_spec T N st Hst a b [] ltac:(lia) Hb HN Hal) as [bs [HB [E [_ Er]]]].
  exists (sub_tree_indexes bs), (map (block_hash T) bs). split; [|split; [|split]].
  - pose proof (Blocks_nonempty a b bs HB ltac:(lia)). destruct bs; [congruence|discriminate].
  - intros need. unfold sub_tree_index. rewrite E. reflexivity.
  - exact Er.
  - intros rest. apply (sub_tree_hash_spec node_hash T N HT); try assumption; lia.
Qed.

Lemma aligned_left lo hi l :
  aligned lo hi -> 0 <= l -> 2 ^ l < hi - lo -> aligned lo (lo + 2 ^ l).
Proof.
  intros [j [Hj [Hd Hs]]] Hl Hlt. exists j. split; [exact Hj|]. split; [exact Hd|lia].
Qed.

Lemma aligned_right lo hi l :
  aligned lo hi -> 0 <= l -> 2 ^ l < hi - lo <= 2 * 2 ^ l -> aligned (lo + 2 ^ l) hi.
Proof.
  intros [j [Hj [Hd Hs]]] Hl Hb. exists l. split; [exact Hl|]. split; [|lia].
  assert (l <= j).
  { destruct (Z_le_gt_dec l j); [assumption|]. assert (2 ^ j < 2 ^ l) by (apply pow2_lt; lia). lia. }
  apply Z.divide_add_r; [|apply Z.divide_refl].
  apply Z.divide_trans with (2 ^ j); [apply pow2_divide; lia|exact Hd].
Qed.

Lemma leaf_proof_spec fuel : forall e lo hi n,
  0 <= lo <= n -> n < hi -> hi <= N -> aligned lo hi ->
  0 <= e -> hi - lo <= 2 ^ e -> e < Z.of_nat fuel ->
  exists idx hs p,
    (forall need, leaf_proof_index fuel lo hi n need = Ok (need ++ idx)) /\
    reader_of st idx = Some hs /\
    (forall rest, leaf_proof node_hash fuel lo hi n (hs ++ rest) = Ok (p, rest)) /\
    IsPath lo hi n p /\ (length p <= length idx)%nat.
Proof.
  induction fuel as [|fuel IH]; intros e lo hi n Hlo Hn Hhi Hal He Hsz Hf; [lia|].
  cbn [leaf_proof_index leaf_proof].
  destruct (Z.leb_spec lo n), (Z.ltb_spec n hi); try lia. cbn [andb negb].
  destruct (Z.eqb_spec (lo + 1) hi) as [E1|E1].
  - exists [], [], []. assert (n = lo) by lia. subst n hi.
    repeat split; try reflexivity; try constructor.
    intros need. rewrite app_nil_r. reflexivity.
  - destruct (maxpow2_spec (hi - lo) ltac:(lia)) as [l [E [Hl Hb]]]. rewrite E.
    pose proof (split_point_unique (hi - lo) l ltac:(lia) Hb) as Hsp.
    pose proof (pow2_pos l ltac:(lia)) as Hp.
    assert (Hle : l <= e - 1).
    { assert (l < e) by (apply pow2_lt_inv; lia). lia. }
    assert (Hk : 2 ^ l <= 2 ^ (e - 1)) by (apply pow2_le; lia).
    destruct (Z.ltb_spec n (lo + 2 ^ l)) as [Hleft|Hright].
    + destruct (IH (e - 1) lo (lo + 2 ^ l) n) as [idx1 [hs1 [p1 [Hi1 [Hr1 [Hp1 [HP1 Hl1]]]]]]];
        try lia.
      { apply (aligned_left lo hi l); try assumption; lia. }
      destruct (sub_tree_both (lo + 2 ^ l) hi ltac:(lia) Hhi) as [idx2 [hs2 [Hne [Hi2 [Hr2 Hh2]]]]].
      { apply (aligned_right lo hi l); try assumption; lia. }
      exists (idx1 ++ idx2), (hs1 ++ hs2), (p1 ++ [T (lo + 2 ^ l) hi]).
      split; [|split; [|split; [|split]]].
      * intros need. rewrite Hi1. cbn [bind]. rewrite Hi2, app_assoc. reflexivity.
      * apply reader_of_app; assumption.
      * intros rest. rewrite <- app_assoc, Hp1. cbn [bind snd fst]. rewrite Hh2. reflexivity.
      * rewrite <- Hsp. apply IsPath_left; rewrite ?Hsp; try lia. exact HP1.
      * rewrite !app_length. cbn [length]. destruct idx2; [congruence|cbn [length]; lia].
    + destruct (sub_tree_both lo (lo + 2 ^ l) ltac:(lia) ltac:(lia)) as [idx2 [hs2 [Hne [Hi2 [Hr2 Hh2]]]]].
      { apply (aligned_left lo hi l); try assumption; lia. }
      destruct (IH (e - 1) (lo + 2 ^ l) hi n) as [idx1 [hs1 [p1 [Hi1 [Hr1 [Hp1 [HP1 Hl1]]]]]]];
        try lia.
      { apply (aligned_right lo hi l); try assumption; lia. }
      exists (idx2 ++ idx1), (hs2 ++ hs1), (p1 ++ [T lo (lo + 2 ^ l)]).
      split; [|split; [|split; [|split]]].
      * intros need. rewrite Hi2. cbn [bind]. rewrite Hi1, app_assoc. reflexivity.
      * apply reader_of_app; assumption.
      * intros rest. rewrite <- app_assoc, Hh2. cbn [bind snd fst]. rewrite Hp1. reflexivity.
      * rewrite <- Hsp. apply IsPath_right; rewrite ?Hsp; try lia. exact HP1.
      * rewrite !app_length. cbn [length]. destruct idx2; [congruence|cbn [length]; lia].
Qed.

Lemma range_fuel_gt t : 0 < t -> exists e, 0 <= e /\ t <= 2 ^ e /\ e < Z.of_nat (range_fuel t).
Proof.
  intros Ht. exists (Z.log2 t + 1). pose proof (Z.log2_nonneg t).
  pose proof (Z.log2_spec t Ht) as [_ Hs]. unfold Z.succ in Hs.
  unfold range_fuel. rewrite Nat2Z.inj_add, Z2Nat.id by lia. cbn. lia.
Qed.

Lemma prove_record_spec t n :
  0 <= n < t -> t <= N ->
  exists p, prove_record node_hash t n (reader_of st) = Ok p /\ IsPath 0 t n p.
Proof.
  intros Hn Ht. unfold prove_record.
  destruct (Z.ltb_spec t 0), (Z.ltb_spec n 0), (Z.leb_spec t n); try lia. cbn [orb].
  destruct (range_fuel_gt t ltac:(lia)) as [e [He [Hte Hf]]].
  destruct (leaf_proof_spec (range_fuel t) e 0 t n ltac:(lia) ltac:(lia) Ht (aligned_0 t ltac:(lia)) He
              ltac:(lia) Hf) as [idx [hs [p [Hi [Hr [Hp [HP Hl]]]]]]].
  rewrite (Hi []). cbn [bind app]. exists p. split; [|exact HP].
  destruct idx as [|i idx].
  - destruct p; [reflexivity|cbn [length] in Hl; lia].
  - rewrite (read_hashes_reader_of _ _ _ Hr). cbn [bind].
    rewrite <- (app_nil_r hs), Hp. reflexivity.
Qed.

(* completeness: the honest path recomputes the range hash *)
Lemma run_record_proof_complete lo hi n p :
  IsPath lo hi n p -> 0 <= lo -> hi <= N ->
  run_record_proof_rev node_hash (rev p) lo hi n (T n (n + 1)) = Ok (T lo hi).
Proof.
  induction 1 as [n|lo hi n p Hsz Hlt HP IH|lo hi n p Hsz Hge HP IH]; intros Hlo Hhi.
  - cbn [rev run_record_proof_rev].
    destruct (Z.leb_spec n n), (Z.ltb_spec n (n + 1)); try lia. cbn [andb negb].
    rewrite Z.eqb_refl. reflexivity.
  - pose proof (IsPath_range _ _ _ _ HP) as Hr.
    pose proof (split_point_bounds (hi - lo) ltac:(lia)) as Hk.
    rewrite rev_unit. cbn [run_record_proof_rev].
    destruct (Z.leb_spec lo n), (Z.ltb_spec n hi); try lia. cbn [andb negb].
    destruct (Z.eqb_spec (lo + 1) hi); [lia|].
    pose proof (maxpow2_split_point (hi - lo) ltac:(lia)) as Hm.
    destruct (maxpow2 (hi - lo)) as [k l']. cbn [fst] in Hm. subst k.
    destruct (Z.ltb_spec n (lo + split_point (hi - lo))); [|lia].
    rewrite IH by lia. cbn [bind]. rewrite (HT lo hi) by lia. reflexivity.
  - pose proof (IsPath_range _ _ _ _ HP) as Hr.
    pose proof (split_point_bounds (hi - lo) ltac:(lia)) as Hk.
    rewrite rev_unit. cbn [run_record_proof_rev].
    destruct (Z.leb_spec lo n), (Z.ltb_spec n hi); try lia. cbn [andb negb].
    destruct (Z.eqb_spec (lo + 1) hi); [lia|].
    pose proof (maxpow2_split_point (hi - lo) ltac:(lia)) as Hm.
    destruct (maxpow2 (hi - lo)) as [k l']. cbn [fst] in Hm. subst k.
    destruct (Z.ltb_spec n (lo + split_point (hi - lo))); [lia|].
    rewrite IH by lia. cbn [bind]. rewrite (HT lo hi) by lia. reflexivity.
Qed.

(* soundness against the range hash: an accepted leaf hash is the true one, or a collision *)
Definition collision : Prop :=
  exists a b c d : hash, (a, b) <> (c, d) /\ node_hash a b = node_hash c d.

Lemma hash_eq_dec (a b : hash) : {a = b} + {a <> b}.
Proof. apply (list_eq_dec Z.eq_dec). Qed.

Lemma run_record_proof_sound rp : forall lo hi n h,
  0 <= lo -> lo <= n < hi -> hi <= N ->
  run_record_proof_rev node_hash rp lo hi n h = Ok (T lo hi) ->
  h = T n (n + 1) \/ collision.
Proof.
  induction rp as [|x rest IH]; intros lo hi n h Hlo Hn Hhi; cbn [run_record_proof_rev];
    destruct (Z.leb_spec lo n), (Z.ltb_spec n hi); try lia; cbn [andb negb].
  - destruct (Z.eqb_spec (lo + 1) hi); [|discriminate].
    intros [= ->]. left. assert (n = lo) by lia. subst. reflexivity.
  - destruct (Z.eqb_spec (lo + 1) hi); [discriminate|].
    pose proof (split_point_bounds (hi - lo) ltac:(lia)) as Hk.
    pose proof (maxpow2_split_point (hi - lo) ltac:(lia)) as Hm.
    destruct (maxpow2 (hi - lo)) as [k l']. cbn [fst] in Hm. subst k.
    set (k := split_point (hi - lo)) in *.
    rewrite (HT lo hi) by lia. fold k.
    destruct (Z.ltb_spec n (lo + k)).
    + destruct (run_record_proof_rev node_hash rest lo (lo + k) n h) as [th'| |] eqn:E;
        cbn [bind]; try discriminate.
      intros [= Heq].
      destruct (hash_eq_dec th' (T lo (lo + k))) as [->|Hne].
      * apply (IH lo (lo + k) n h); try lia. exact E.
      * right. exists th', x, (T lo (lo + k)), (T (lo + k) hi). split; [congruence|exact Heq].
    + destruct (run_record_proof_rev node_hash rest (lo + k) hi n h) as [th'| |] eqn:E;
        cbn [bind]; try discriminate.
      intros [= Heq].
      destruct (hash_eq_dec th' (T (lo + k) hi)) as [->|Hne].
      * apply (IH (lo + k) hi n h); try lia. exact E.
      * right. exists x, th', (T lo (lo + k)), (T (lo + k) hi). split; [congruence|exact Heq].
Qed.

End Fixed.
End Paths.
End Record.
