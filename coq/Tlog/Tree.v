(* Tlog/Tree.v — model of the hashing part of /repo/sumdb/tlog/tlog.go, parametric in the
   hash functions.  Model file: no proofs here (see ProofsTree.v, ProofsRecord.v).

   Section Hash.  Variable leaf_hash : str -> str.         (RecordHash)
                  Variable node_hash : str -> str -> str.  (NodeHash)
   After the Section is closed each definition takes exactly the hash functions it uses as
   leading arguments (shown in brackets below).

   Exported names and types (hash := str, 32 bytes in the implementation; reader := list Z ->
   option (list hash), None = the HashReader returned an error)
     empty_hash           : hash                                   tlog.emptyHash (Gen/GenConsts.v)
     read_hashes          : reader -> list Z -> res (list hash)    r.ReadHashes + the length check
     record_indexes       : Z -> list Z                            indexes read by StoredHashesForRecordHash
     stored_hashes_for_record_hash [node_hash] : Z -> hash -> reader -> res (list hash)   (n h read)
     stored_hashes [leaf_hash node_hash]       : Z -> str -> reader -> res (list hash)    (n data read)
     fold_hashes [node_hash]   : list hash -> option hash   h1 # (h2 # (… # hk)), None on []
     sub_tree_hash [node_hash] : Z -> Z -> list hash -> res (hash * list hash)   (lo hi hashes)
                                 Panic: misaligned range, too few hashes, or lo >= hi (hashes[-1])
     tree_hash [node_hash]     : Z -> reader -> res hash           (n read)
     leaf_proof [node_hash]    : nat -> Z -> Z -> Z -> list hash -> res (list hash * list hash)
                                 (fuel lo hi n hashes) = (proof, leftover hashes)
     prove_record [node_hash]  : Z -> Z -> reader -> res (list hash)              (t n read)
     run_record_proof_rev [node_hash] : list hash -> Z -> Z -> Z -> hash -> res hash
                                 (rev p, lo, hi, n, leafHash); structural on the reversed proof
     run_record_proof [node_hash] : list hash -> Z -> Z -> Z -> hash -> res hash  (p lo hi n leafHash)
     check_record [node_hash]  : list hash -> Z -> hash -> Z -> hash -> res unit  (p t th n h)
     tree_proof [node_hash]    : nat -> Z -> Z -> Z -> list hash -> res (list hash * list hash)
     prove_tree [node_hash]    : Z -> Z -> reader -> res (list hash)              (t n read)
     run_tree_proof_rev [node_hash] : list hash -> Z -> Z -> Z -> hash -> res (hash * hash)
     run_tree_proof [node_hash]: list hash -> Z -> Z -> Z -> hash -> res (hash * hash) (p lo hi n old)
     check_tree [node_hash]    : list hash -> Z -> hash -> Z -> hash -> res unit  (p t th n h)
     reader_of            : list hash -> reader      in-memory store: None if an index is out of range
   Index functions (maxpow2, stored_hash_index, sub_tree_index, leaf_proof_index, …), the result
   type res and err_kind are in Tlog/Index.v. *)
From Verif.Base Require Import Bytes.
From Verif.Gen Require Import GenConsts.
From Verif.Tlog Require Import Index.

Definition hash := str.
Definition reader := list Z -> option (list hash).

Definition empty_hash : hash := tlog_emptyHash.

(* hashes, err := r.ReadHashes(indexes); if err != nil {…}; if len(hashes) != len(indexes) {…} *)
Definition read_hashes (read : reader) (indexes : list Z) : res (list hash) :=
  match read indexes with
  | None => Err EReader
  | Some hs => if Nat.eqb (length hs) (length indexes) then Ok hs else Err EReadCount
  end.

(* indexes[m-1-i] = StoredHashIndex(i, n>>uint(i)-1) for i < m = TrailingZeros64(uint64(n+1)) *)
Definition record_indexes (n : Z) : list Z :=
  rev (map (fun i => stored_hash_index (Z.of_nat i) (Z.shiftr n (Z.of_nat i) - 1))
           (seq 0 (Z.to_nat (trailing_zeros64 (n + 1))))).

(* an in-memory hash store as a reader *)
Fixpoint reader_of (store : list hash) (indexes : list Z) : option (list hash) :=
  match indexes with
  | [] => Some []
  | i :: r =>
      if i <? 0 then None
      else match nth_error store (Z.to_nat i), reader_of store r with
           | Some h, Some t => Some (h :: t)
           | _, _ => None
           end
  end.

Section Hash.
Variable leaf_hash : str -> hash.
Variable node_hash : hash -> hash -> hash.

(* for i := 0; i < m; i++ { h = NodeHash(old[m-1-i], h); hashes = append(hashes, h) }
   olds is old reversed: old[m-1], old[m-2], …, old[0] *)
Fixpoint build_hashes (olds : list hash) (h : hash) : list hash :=
  match olds with
  | [] => []
  | o :: r => let h' := node_hash o h in h' :: build_hashes r h'
  end.

(* func StoredHashesForRecordHash(n int64, h Hash, r HashReader) ([]Hash, error) *)
Definition stored_hashes_for_record_hash (n : Z) (h : hash) (read : reader) : res (list hash) :=
  bind (read_hashes read (record_indexes n))
       (fun old => Ok (h :: build_hashes (rev old) h)).

(* func StoredHashes(n int64, data []byte, r HashReader) ([]Hash, error) *)
Definition stored_hashes (n : Z) (data : str) (read : reader) : res (list hash) :=
  stored_hashes_for_record_hash n (leaf_hash data) read.

(* h := hashes[numTree-1]; for i := numTree-2; i >= 0; i-- { h = NodeHash(hashes[i], h) } *)
Fixpoint fold_hashes (hs : list hash) : option hash :=
  match hs with
  | [] => None
  | h :: r => match r with
              | [] => Some h
              | _ => option_map (node_hash h) (fold_hashes r)
              end
  end.

(* func subTreeHash(lo, hi int64, hashes []Hash) (Hash, []Hash) *)
Definition sub_tree_hash (lo hi : Z) (hashes : list hash) : res (hash * list hash) :=
  bind (sub_tree_split (range_fuel (hi - lo)) lo hi)
       (fun l =>
          let num := length l in
          if Nat.ltb (length hashes) num then Panic          (* bad index math in subTreeHash *)
          else match fold_hashes (firstn num hashes) with
               | None => Panic                               (* numTree = 0: hashes[-1] *)
               | Some h => Ok (h, skipn num hashes)
               end).

(* func TreeHash(n int64, r HashReader) (Hash, error) *)
Definition tree_hash (n : Z) (read : reader) : res hash :=
  if n =? 0 then Ok empty_hash
  else
    bind (sub_tree_index 0 n []) (fun indexes =>
    bind (read_hashes read indexes) (fun hashes =>
    bind (sub_tree_hash 0 n hashes) (fun hr =>
    match snd hr with
    | [] => Ok (fst hr)
    | _ => Panic                                             (* bad index math in TreeHash *)
    end))).

(* func leafProof(lo, hi, n int64, hashes []Hash) (RecordProof, []Hash) *)
Fixpoint leaf_proof (fuel : nat) (lo hi n : Z) (hashes : list hash)
  : res (list hash * list hash) :=
  match fuel with
  | O => Err EFuel
  | S f =>
      if negb ((lo <=? n) && (n <? hi)) then Panic
      else if lo + 1 =? hi then Ok ([], hashes)
      else
        let (k, _) := maxpow2 (hi - lo) in
        if n <? lo + k then
          bind (leaf_proof f lo (lo + k) n hashes) (fun ph =>
          bind (sub_tree_hash (lo + k) hi (snd ph)) (fun th =>
          Ok (fst ph ++ [fst th], snd th)))
        else
          bind (sub_tree_hash lo (lo + k) hashes) (fun th =>
          bind (leaf_proof f (lo + k) hi n (snd th)) (fun ph =>
          Ok (fst ph ++ [fst th], snd ph)))
  end.

(* func ProveRecord(t, n int64, r HashReader) (RecordProof, error) *)
Definition prove_record (t n : Z) (read : reader) : res (list hash) :=
  if (t <? 0) || (n <? 0) || (t <=? n) then Err EInvalidInputs
  else
    bind (leaf_proof_index (range_fuel t) 0 t n []) (fun indexes =>
    match indexes with
    | [] => Ok []
    | _ =>
        bind (read_hashes read indexes) (fun hashes =>
        bind (leaf_proof (range_fuel t) 0 t n hashes) (fun ph =>
        match snd ph with
        | [] => Ok (fst ph)
        | _ => Panic                                         (* bad index math in ProveRecord *)
        end))
    end).

(* func runRecordProof(p RecordProof, lo, hi, n int64, leafHash Hash) (Hash, error)
   on the reversed proof: p[len(p)-1] is the head, p[:len(p)-1] the tail *)
Fixpoint run_record_proof_rev (rp : list hash) (lo hi n : Z) (leafHash : hash) : res hash :=
  if negb ((lo <=? n) && (n <? hi)) then Panic
  else if lo + 1 =? hi then
    match rp with
    | [] => Ok leafHash
    | _ => Err EProofFailed
    end
  else
    match rp with
    | [] => Err EProofFailed
    | last :: rest =>
        let (k, _) := maxpow2 (hi - lo) in
        if n <? lo + k then
          bind (run_record_proof_rev rest lo (lo + k) n leafHash)
               (fun th => Ok (node_hash th last))
        else
          bind (run_record_proof_rev rest (lo + k) hi n leafHash)
               (fun th => Ok (node_hash last th))
    end.

Definition run_record_proof (p : list hash) (lo hi n : Z) (leafHash : hash) : res hash :=
  run_record_proof_rev (rev p) lo hi n leafHash.

(* func CheckRecord(p RecordProof, t int64, th Hash, n int64, h Hash) error *)
Definition check_record (p : list hash) (t : Z) (th : hash) (n : Z) (h : hash) : res unit :=
  if (t <? 0) || (n <? 0) || (t <=? n) then Err EInvalidInputs
  else
    bind (run_record_proof p 0 t n h) (fun th2 =>
    if str_eqb th2 th then Ok tt else Err EProofFailed).

(* func treeProof(lo, hi, n int64, hashes []Hash) (TreeProof, []Hash) *)
Fixpoint tree_proof (fuel : nat) (lo hi n : Z) (hashes : list hash)
  : res (list hash * list hash) :=
  match fuel with
  | O => Err EFuel
  | S f =>
      if negb ((lo <? n) && (n <=? hi)) then Panic
      else if n =? hi then
        if lo =? 0 then Ok ([], hashes)
        else bind (sub_tree_hash lo hi hashes) (fun th => Ok ([fst th], snd th))
      else
        let (k, _) := maxpow2 (hi - lo) in
        if n <=? lo + k then
          bind (tree_proof f lo (lo + k) n hashes) (fun ph =>
          bind (sub_tree_hash (lo + k) hi (snd ph)) (fun th =>
          Ok (fst ph ++ [fst th], snd th)))
        else
          bind (sub_tree_hash lo (lo + k) hashes) (fun th =>
          bind (tree_proof f (lo + k) hi n (snd th)) (fun ph =>
          Ok (fst ph ++ [fst th], snd ph)))
  end.

(* func ProveTree(t, n int64, h HashReader) (TreeProof, error) *)
Definition prove_tree (t n : Z) (read : reader) : res (list hash) :=
  if (t <? 1) || (n <? 1) || (t <? n) then Err EInvalidInputs
  else
    bind (tree_proof_index (range_fuel t) 0 t n []) (fun indexes =>
    match indexes with
    | [] => Ok []
    | _ =>
        bind (read_hashes read indexes) (fun hashes =>
        bind (tree_proof (range_fuel t) 0 t n hashes) (fun ph =>
        match snd ph with
        | [] => Ok (fst ph)
        | _ => Panic                                         (* bad index math in ProveTree *)
        end))
    end).

(* func runTreeProof(p TreeProof, lo, hi, n int64, old Hash) (Hash, Hash, error)
   on the reversed proof; result (hash in the old tree, hash in the new tree) *)
Fixpoint run_tree_proof_rev (rp : list hash) (lo hi n : Z) (old : hash) : res (hash * hash) :=
  if negb ((lo <? n) && (n <=? hi)) then Panic
  else if n =? hi then
    if lo =? 0 then
      match rp with
      | [] => Ok (old, old)
      | _ => Err EProofFailed
      end
    else
      match rp with
      | [p0] => Ok (p0, p0)
      | _ => Err EProofFailed
      end
  else
    match rp with
    | [] => Err EProofFailed
    | last :: rest =>
        let (k, _) := maxpow2 (hi - lo) in
        if n <=? lo + k then
          bind (run_tree_proof_rev rest lo (lo + k) n old)
               (fun r => Ok (fst r, node_hash (snd r) last))
        else
          bind (run_tree_proof_rev rest (lo + k) hi n old)
               (fun r => Ok (node_hash last (fst r), node_hash last (snd r)))
    end.

Definition run_tree_proof (p : list hash) (lo hi n : Z) (old : hash) : res (hash * hash) :=
  run_tree_proof_rev (rev p) lo hi n old.

(* func CheckTree(p TreeProof, t int64, th Hash, n int64, h Hash) error *)
Definition check_tree (p : list hash) (t : Z) (th : hash) (n : Z) (h : hash) : res unit :=
  if (t <? 1) || (n <? 1) || (t <? n) then Err EInvalidInputs
  else
    bind (run_tree_proof p 0 t n h) (fun r =>
    if str_eqb (snd r) th && str_eqb (fst r) h then Ok tt else Err EProofFailed).

End Hash.
