(* Tlog/ProofsRfcIncl.v — CheckRecord accepts exactly what the iterative algorithm of
   RFC 9162 section 2.1.3.2 accepts.  Both are reduced to folding the proof along a list of
   directions (is the sibling on the left?): Dirs s m, defined top-down by splitting at the
   largest power of two (tlog.go), and Edirs fn sn, defined bottom-up by the bit tests of
   the RFC; the arithmetic core is Dirs s m ds -> Edirs m (s - 1) ds. *)
From Verif.Base Require Import Bytes.
From Verif.Tlog Require Import Index Tree Spec6962 Rfc9162 ProofsIndex ProofsSpec ProofsTree ProofsRecord.

Section RfcIncl.
Variable node_hash : hash -> hash -> hash.

(* ------------------------------------------------------------------ folding along directions *)

Fixpoint foldD (ds : list bool) (p : list hash) (r : hash) : option hash :=
  match ds, p with
  | [], [] => Some r
  | d :: ds', x :: p' => foldD ds' p' (if d then node_hash x r else node_hash r x)
  | _, _ => None
  end.

Lemma foldD_snoc ds : forall p r d x,
  foldD (ds ++ [d]) (p ++ [x]) r =
  match foldD ds p r with
  | Some r' => Some (if d then node_hash x r' else node_hash r' x)
  | None => None
  end.
Proof.
  induction ds as [|d0 ds IH]; intros p r d x.
  - destruct p as [|y p]; [reflexivity|]. cbn [app foldD]. destruct p; reflexivity.
  - destruct p as [|y p].
    + cbn [app foldD]. destruct ds; reflexivity.
    + cbn [app foldD]. apply IH.
Qed.

Lemma foldD_nil_r ds r : ds <> [] -> foldD ds [] r = None.
Proof. destruct ds; [congruence|reflexivity]. Qed.

(* ------------------------------------------------------------------ top-down directions (tlog.go) *)

Inductive Dirs : Z -> Z -> list bool -> Prop :=
| Dirs_leaf : Dirs 1 0 []
| Dirs_left s m ds :
    2 <= s -> 0 <= m < split_point s -> Dirs (split_point s) m ds -> Dirs s m (ds ++ [false])
| Dirs_right s m ds :
    2 <= s -> split_point s <= m < s ->
    Dirs (s - split_point s) (m - split_point s) ds -> Dirs s m (ds ++ [true]).

Lemma Dirs_exists f : forall s m, s <= Z.of_nat f -> 0 <= m < s -> exists ds, Dirs s m ds.
Proof.
  induction f as [|f IH]; intros s m Hf Hm; [lia|].
  destruct (Z.eq_dec s 1) as [->|Hs].
  - assert (m = 0) by lia. subst. eexists. constructor.
  - pose proof (split_point_bounds s ltac:(lia)) as Hk.
    destruct (Z_lt_ge_dec m (split_point s)) as [Hl|Hr].
    + destruct (IH (split_point s) m ltac:(lia) ltac:(lia)) as [ds Hd].
      eexists. apply Dirs_left; try lia. exact Hd.
    + destruct (IH (s - split_point s) (m - split_point s) ltac:(lia) ltac:(lia)) as [ds Hd].
      eexists. apply Dirs_right; try lia. exact Hd.
Qed.

Lemma Dirs_nonempty s m ds : Dirs s m ds -> 2 <= s -> ds <> [].
Proof. intros H Hs. destruct H; try lia; destruct ds; discriminate. Qed.

Lemma run_record_proof_rev_shift rp : forall lo hi n h c,
  run_record_proof_rev node_hash rp (lo + c) (hi + c) (n + c) h
  = run_record_proof_rev node_hash rp lo hi n h.
Proof.
  induction rp as [|x rest IH]; intros lo hi n h c; cbn [run_record_proof_rev].
  - replace (lo + c <=? n + c) with (lo <=? n) by (destruct (Z.leb_spec lo n), (Z.leb_spec (lo + c) (n + c)); lia).
    replace (n + c <? hi + c) with (n <? hi) by (destruct (Z.ltb_spec n hi), (Z.ltb_spec (n + c) (hi + c)); lia).
    replace (lo + c + 1 =? hi + c) with (lo + 1 =? hi) by (destruct (Z.eqb_spec (lo + 1) hi), (Z.eqb_spec (lo + c + 1) (hi + c)); lia).
    reflexivity.
  - replace (lo + c <=? n + c) with (lo <=? n) by (destruct (Z.leb_spec lo n), (Z.leb_spec (lo + c) (n + c)); lia).
    replace (n + c <? hi + c) with (n <? hi) by (destruct (Z.ltb_spec n hi), (Z.ltb_spec (n + c) (hi + c)); lia).
    replace (lo + c + 1 =? hi + c) with (lo + 1 =? hi) by (destruct (Z.eqb_spec (lo + 1) hi), (Z.eqb_spec (lo + c + 1) (hi + c)); lia).
    replace (hi + c - (lo + c)) with (hi - lo) by lia.
    destruct (maxpow2 (hi - lo)) as [k l].
    replace (n + c <? lo + c + k) with (n <? lo + k) by (destruct (Z.ltb_spec n (lo + k)), (Z.ltb_spec (n + c) (lo + c + k)); lia).
    replace (lo + c + k) with (lo + k + c) by lia.
    rewrite !IH. reflexivity.
Qed.

Definition of_opt (o : option hash) : res hash :=
  match o with Some r => Ok r | None => Err EProofFailed end.

Lemma run_record_proof_dirs s m ds :
  Dirs s m ds -> s <= 2 ^ 63 ->
  forall p h, run_record_proof_rev node_hash (rev p) 0 s m h = of_opt (foldD ds p h).
Proof.
  induction 1 as [|s m ds Hs Hm HD IH|s m ds Hs Hm HD IH]; intros Hb p h.
  - destruct p as [|x p] using rev_ind.
    + reflexivity.
    + rewrite rev_unit. cbn [run_record_proof_rev]. cbn. destruct p; reflexivity.
  - pose proof (split_point_bounds s Hs) as Hk.
    destruct p as [|x p _] using rev_ind.
    + cbn [rev run_record_proof_rev].
      destruct (Z.leb_spec 0 m), (Z.ltb_spec m s); try lia. cbn [andb negb].
      destruct (Z.eqb_spec (0 + 1) s); [lia|].
      rewrite foldD_nil_r by (destruct ds; discriminate). reflexivity.
    + rewrite rev_unit. cbn [run_record_proof_rev].
      destruct (Z.leb_spec 0 m), (Z.ltb_spec m s); try lia. cbn [andb negb].
      destruct (Z.eqb_spec (0 + 1) s); [lia|].
      rewrite Z.sub_0_r.
      pose proof (maxpow2_split_point s ltac:(lia)) as Hmp.
      destruct (maxpow2 s) as [k l']. cbn [fst] in Hmp. subst k.
      destruct (Z.ltb_spec m (0 + split_point s)); [|lia].
      rewrite Z.add_0_l, IH by lia. rewrite foldD_snoc.
      destruct (foldD ds p h); reflexivity.
  - pose proof (split_point_bounds s Hs) as Hk.
    destruct p as [|x p _] using rev_ind.
    + cbn [rev run_record_proof_rev].
      destruct (Z.leb_spec 0 m), (Z.ltb_spec m s); try lia. cbn [andb negb].
      destruct (Z.eqb_spec (0 + 1) s); [lia|].
      rewrite foldD_nil_r by (destruct ds; discriminate). reflexivity.
    + rewrite rev_unit. cbn [run_record_proof_rev].
      destruct (Z.leb_spec 0 m), (Z.ltb_spec m s); try lia. cbn [andb negb].
      destruct (Z.eqb_spec (0 + 1) s); [lia|].
      rewrite Z.sub_0_r.
      pose proof (maxpow2_split_point s ltac:(lia)) as Hmp.
      destruct (maxpow2 s) as [k l']. cbn [fst] in Hmp. subst k.
      destruct (Z.ltb_spec m (0 + split_point s)); [lia|].
      rewrite Z.add_0_l.
      replace (run_record_proof_rev node_hash (rev p) (split_point s) s m h)
        with (run_record_proof_rev node_hash (rev p) 0 (s - split_point s) (m - split_point s) h).
      2:{ rewrite <- (run_record_proof_rev_shift (rev p) 0 (s - split_point s) (m - split_point s) h (split_point s)).
          f_equal; lia. }
      rewrite IH by lia. rewrite foldD_snoc.
      destruct (foldD ds p h); reflexivity.
Qed.

(* ------------------------------------------------------------------ bottom-up directions (RFC 9162) *)

Inductive Edirs : Z -> Z -> list bool -> Prop :=
| E_end fn : Edirs fn 0 []
| E_odd fn sn ds :
    sn <> 0 -> Z.odd fn = true -> Edirs (Z.div2 fn) (Z.div2 sn) ds -> Edirs fn sn (true :: ds)
| E_even fn sn ds :
    sn <> 0 -> Z.odd fn = false -> fn <> sn -> Edirs (Z.div2 fn) (Z.div2 sn) ds ->
    Edirs fn sn (false :: ds)
| E_promote fn sn ds :       (* the last node of its level has no sibling there *)
    sn <> 0 -> Z.odd fn = false -> fn = sn -> Edirs (Z.div2 fn) (Z.div2 sn) ds -> Edirs fn sn ds.

Definition accept_incl (p : list hash) (fn sn : Z) (r root : hash) : bool :=
  match inclusion_loop node_hash p fn sn r with
  | None => false
  | Some (sn', r') => (sn' =? 0) && str_eqb r' root
  end.

Lemma incl_promote q x rest r :
  inclusion_loop node_hash (x :: rest) (Zpos q~0) (Zpos q~0) r
  = inclusion_loop node_hash (x :: rest) (Zpos q) (Zpos q) r.
Proof.
  cbn [inclusion_loop]. unfold lsb.
  change (Zpos q~0 =? 0) with false. change (Zpos q =? 0) with false.
  change (Z.odd (Zpos q~0)) with false. rewrite !Z.eqb_refl. cbn [orb].
  destruct q as [q'|q'|]; reflexivity.
Qed.

Lemma accept_incl_dirs fn sn ds root :
  Edirs fn sn ds -> 0 <= sn ->
  forall p r, accept_incl p fn sn r root
              = match foldD ds p r with Some r' => str_eqb r' root | None => false end.
Proof.
  induction 1 as [fn|fn sn ds Hsn Hodd HE IH|fn sn ds Hsn Hodd Hne HE IH|fn sn ds Hsn Hodd Heq HE IH];
    intros Hpos p r.
  - destruct p as [|x p]; unfold accept_incl; cbn [inclusion_loop foldD]; reflexivity.
  - assert (H2 : 0 <= Z.div2 sn) by (rewrite Z.div2_div; apply Z.div_pos; lia).
    destruct p as [|x p]; unfold accept_incl; cbn [inclusion_loop foldD].
    + destruct (Z.eqb_spec sn 0); [lia|]. reflexivity.
    + destruct (Z.eqb_spec sn 0); [lia|]. unfold lsb. rewrite Hodd. cbn [orb].
      apply (IH H2 p).
  - assert (H2 : 0 <= Z.div2 sn) by (rewrite Z.div2_div; apply Z.div_pos; lia).
    destruct p as [|x p]; unfold accept_incl; cbn [inclusion_loop foldD].
    + destruct (Z.eqb_spec sn 0); [lia|]. reflexivity.
    + destruct (Z.eqb_spec sn 0); [lia|]. unfold lsb. rewrite Hodd.
      destruct (Z.eqb_spec fn sn); [lia|]. cbn [orb]. apply (IH H2 p).
  - assert (H2 : 0 <= Z.div2 sn) by (rewrite Z.div2_div; apply Z.div_pos; lia).
    rewrite <- (IH H2 p r). subst fn.
    destruct sn as [|q|q]; try lia. destruct q as [q|q|]; try discriminate.
    change (Z.div2 (Zpos q~0)) with (Zpos q).
    destruct p as [|x p].
    + reflexivity.
    + unfold accept_incl. rewrite incl_promote. reflexivity.
Qed.

(* ------------------------------------------------------------------ the arithmetic core *)

Lemma div2_pow2_add j x : 1 <= j -> Z.div2 (2 ^ j + x) = 2 ^ (j - 1) + Z.div2 x.
Proof.
  intros Hj. rewrite !Z.div2_div. replace (2 ^ j) with (2 ^ (j - 1) * 2).
  - rewrite Z.add_comm, Z.div_add by lia. lia.
  - replace j with (j - 1 + 1) at 2 by lia. rewrite pow2_succ by lia. lia.
Qed.

Lemma odd_pow2_add j x : 1 <= j -> Z.odd (2 ^ j + x) = Z.odd x.
Proof.
  intros Hj. replace (2 ^ j) with (2 * 2 ^ (j - 1)).
  - rewrite Z.add_comm. apply Z.odd_add_mul_2.
  - replace j with (j - 1 + 1) at 2 by lia. rewrite pow2_succ by lia. lia.
Qed.

Lemma div2_bounds x j : 0 <= x < 2 ^ j -> 1 <= j -> 0 <= Z.div2 x < 2 ^ (j - 1).
Proof.
  intros Hx Hj. rewrite Z.div2_div. replace (2 ^ j) with (2 * 2 ^ (j - 1)) in Hx.
  - split; [apply Z.div_pos; lia|]. apply Z.div_lt_upper_bound; lia.
  - replace j with (j - 1 + 1) at 2 by lia. rewrite pow2_succ by lia. lia.
Qed.

Lemma div2_le a b : 0 <= a <= b -> Z.div2 a <= Z.div2 b.
Proof. intros H. rewrite !Z.div2_div. apply Z.div_le_mono; lia. Qed.

Lemma Edirs_pow2 j : 0 <= j -> Edirs (2 ^ j) (2 ^ j) [true].
Proof.
  intros Hj. pattern j. apply natlike_ind; [| |exact Hj].
  - change (2 ^ 0) with 1. apply E_odd; [lia|reflexivity|]. cbn. constructor.
  - intros x Hx IH. pose proof (pow2_pos x Hx).
    assert (Hd : Z.div2 (2 ^ Z.succ x) = 2 ^ x).
    { rewrite Z.div2_div, Z.pow_succ_r by lia. rewrite Z.mul_comm, Z.div_mul by lia. reflexivity. }
    apply E_promote; try lia.
    + rewrite Z.pow_succ_r by lia. rewrite Z.odd_mul. reflexivity.
    + rewrite Hd. exact IH.
Qed.

(* Lemma B: adding the same high bit to both sides appends one left sibling on top *)
Lemma Edirs_high fn sn ds :
  Edirs fn sn ds -> forall j, 0 <= j -> 0 <= fn <= sn -> sn < 2 ^ j ->
  Edirs (2 ^ j + fn) (2 ^ j + sn) (ds ++ [true]).
Proof.
  induction 1 as [fn|fn sn ds Hsn Hodd HE IH|fn sn ds Hsn Hodd Hne HE IH|fn sn ds Hsn Hodd Heq HE IH];
    intros j Hj Hf Hs.
  - assert (fn = 0) by lia. subst. rewrite !Z.add_0_r. cbn [app]. apply Edirs_pow2. exact Hj.
  - assert (Hj1 : 1 <= j).
    { destruct (Z.eq_dec j 0) as [->|]; [change (2 ^ 0) with 1 in Hs; lia|lia]. }
    pose proof (pow2_pos j Hj). cbn [app]. apply E_odd; try lia.
    + rewrite odd_pow2_add by lia. exact Hodd.
    + rewrite !div2_pow2_add by lia. apply IH; try lia.
      * split; [apply (div2_bounds fn j); lia|apply div2_le; lia].
      * apply (div2_bounds sn j); lia.
  - assert (Hj1 : 1 <= j).
    { destruct (Z.eq_dec j 0) as [->|]; [change (2 ^ 0) with 1 in Hs; lia|lia]. }
    pose proof (pow2_pos j Hj). cbn [app]. apply E_even; try lia.
    + rewrite odd_pow2_add by lia. exact Hodd.
    + rewrite !div2_pow2_add by lia. apply IH; try lia.
      * split; [apply (div2_bounds fn j); lia|apply div2_le; lia].
      * apply (div2_bounds sn j); lia.
  - assert (Hj1 : 1 <= j).
    { destruct (Z.eq_dec j 0) as [->|]; [change (2 ^ 0) with 1 in Hs; lia|lia]. }
    pose proof (pow2_pos j Hj). apply E_promote; try lia.
    + rewrite odd_pow2_add by lia. exact Hodd.
    + rewrite !div2_pow2_add by lia. apply IH; try lia.
      * split; [apply (div2_bounds fn j); lia|apply div2_le; lia].
      * apply (div2_bounds sn j); lia.
Qed.

(* Lemma A: a leaf of a complete left subtree of size 2^l, seen in a tree whose last index
   lies in [2^l, 2^(l+1)): same directions, then one right sibling on top *)
Lemma Edirs_complete fn c ds :
  Edirs fn c ds -> forall l sn, 0 <= l -> c = 2 ^ l - 1 -> 0 <= fn < 2 ^ l ->
  2 ^ l <= sn < 2 * 2 ^ l ->
  Edirs fn sn (ds ++ [false]).
Proof.
  induction 1 as [fn|fn c ds Hc Hodd HE IH|fn c ds Hc Hodd Hne HE IH|fn c ds Hc Hodd Heq HE IH];
    intros l sn Hl Hcl Hf Hs.
  - assert (l = 0).
    { destruct (Z.eq_dec l 0); [assumption|]. assert (2 ^ 1 <= 2 ^ l) by (apply pow2_le; lia).
      change (2 ^ 1) with 2 in *. lia. }
    subst l. change (2 ^ 0) with 1 in *. assert (fn = 0) by lia. assert (sn = 1) by lia. subst.
    cbn [app]. apply E_even; try lia; [reflexivity|]. cbn. constructor.
  - assert (Hl1 : 1 <= l).
    { destruct (Z.eq_dec l 0) as [->|]; [change (2 ^ 0) with 1 in *; lia|lia]. }
    pose proof (pow2_pos (l - 1) ltac:(lia)) as Hp.
    assert (Hpow : 2 ^ l = 2 * 2 ^ (l - 1)).
    { replace l with (l - 1 + 1) at 1 by lia. apply pow2_succ. lia. }
    cbn [app]. apply E_odd; try lia; [exact Hodd|].
    apply (IH (l - 1)); try lia.
    + subst c. rewrite Z.div2_div, Hpow.
      replace (2 * 2 ^ (l - 1) - 1) with (1 + (2 ^ (l - 1) - 1) * 2) by lia.
      rewrite Z.div_add by lia. cbn. lia.
    + apply (div2_bounds fn l); lia.
    + rewrite Z.div2_div, <- Hpow. split.
      * apply Z.div_le_lower_bound; lia.
      * apply Z.div_lt_upper_bound; lia.
  - assert (Hl1 : 1 <= l).
    { destruct (Z.eq_dec l 0) as [->|]; [change (2 ^ 0) with 1 in *; lia|lia]. }
    pose proof (pow2_pos (l - 1) ltac:(lia)) as Hp.
    assert (Hpow : 2 ^ l = 2 * 2 ^ (l - 1)).
    { replace l with (l - 1 + 1) at 1 by lia. apply pow2_succ. lia. }
    cbn [app]. apply E_even; try lia; [exact Hodd|].
    apply (IH (l - 1)); try lia.
    + subst c. rewrite Z.div2_div, Hpow.
      replace (2 * 2 ^ (l - 1) - 1) with (1 + (2 ^ (l - 1) - 1) * 2) by lia.
      rewrite Z.div_add by lia. cbn. lia.
    + apply (div2_bounds fn l); lia.
    + rewrite Z.div2_div, <- Hpow. split.
      * apply Z.div_le_lower_bound; lia.
      * apply Z.div_lt_upper_bound; lia.
  - (* fn = c = 2^l - 1 is odd for l >= 1 and zero for l = 0 *)
    exfalso. subst fn c.
    destruct (Z.eq_dec l 0) as [->|]; [change (2 ^ 0) with 1 in *; lia|].
    assert (Hpow : 2 ^ l = 2 * 2 ^ (l - 1)).
    { replace l with (l - 1 + 1) at 1 by lia. apply pow2_succ. lia. }
    rewrite Hpow in Hodd.
    replace (2 * 2 ^ (l - 1) - 1) with (1 + 2 * (2 ^ (l - 1) - 1)) in Hodd by lia.
    rewrite Z.odd_add_mul_2 in Hodd. discriminate.
Qed.

Lemma split_point_pow2 s : 2 <= s -> exists l, 0 <= l /\ split_point s = 2 ^ l.
Proof. intros Hs. exists (Z.log2 (s - 1)). split; [apply Z.log2_nonneg|reflexivity]. Qed.

Theorem Dirs_Edirs s m ds : Dirs s m ds -> Edirs m (s - 1) ds.
Proof.
  induction 1 as [|s m ds Hs Hm HD IH|s m ds Hs Hm HD IH].
  - constructor.
  - pose proof (split_point_bounds s Hs) as Hk.
    destruct (split_point_pow2 s Hs) as [l [Hl El]].
    apply (Edirs_complete m (split_point s - 1) ds IH l); try lia.
  - pose proof (split_point_bounds s Hs) as Hk.
    destruct (split_point_pow2 s Hs) as [l [Hl El]].
    replace m with (2 ^ l + (m - split_point s)) by lia.
    replace (s - 1) with (2 ^ l + (s - split_point s - 1)) by lia.
    apply Edirs_high; try lia. exact IH.
Qed.

(* ------------------------------------------------------------------ the theorem *)

Theorem check_record_iff_rfc9162 p t th n h :
  t <= 2 ^ 63 ->
  (check_record node_hash p t th n h = Ok tt <-> rfc_verify_inclusion node_hash p t th n h = true).
Proof.
  intros Ht. unfold check_record, rfc_verify_inclusion.
  destruct (Z.ltb_spec t 0), (Z.ltb_spec n 0), (Z.leb_spec t n); cbn [orb];
    try (split; discriminate).
  destruct (Dirs_exists (Z.to_nat t) t n ltac:(lia) ltac:(lia)) as [ds HD].
  unfold run_record_proof. rewrite (run_record_proof_dirs t n ds HD Ht).
  pose proof (accept_incl_dirs n (t - 1) ds th (Dirs_Edirs t n ds HD) ltac:(lia) p h) as HA.
  unfold accept_incl in HA.
  destruct (inclusion_loop node_hash p n (t - 1) h) as [[sn' r']|];
    destruct (foldD ds p h) as [r0|]; cbn [of_opt bind] in *.
  - rewrite HA. destruct (str_eqb r0 th); split; intros; try reflexivity; discriminate.
  - rewrite HA. split; discriminate.
  - rewrite <- HA. destruct (str_eqb r0 th) eqn:E; [discriminate|]. split; discriminate.
  - split; discriminate.
Qed.

Lemma run_record_proof_rev_err rp : forall lo hi n h k,
  run_record_proof_rev node_hash rp lo hi n h = Err k -> k = EProofFailed.
Proof.
  induction rp as [|x l IH]; intros lo hi n h k; cbn [run_record_proof_rev].
  - destruct (negb ((lo <=? n) && (n <? hi))); [discriminate|].
    destruct (lo + 1 =? hi); intros [= <-]. reflexivity.
  - destruct (negb ((lo <=? n) && (n <? hi))); [discriminate|].
    destruct (lo + 1 =? hi); [intros [= <-]; reflexivity|].
    destruct (maxpow2 (hi - lo)) as [kk ll]. destruct (n <? lo + kk).
    + destruct (run_record_proof_rev node_hash l lo (lo + kk) n h) eqn:E; cbn [bind]; try discriminate.
      intros [= <-]. apply (IH _ _ _ _ _ E).
    + destruct (run_record_proof_rev node_hash l (lo + kk) hi n h) eqn:E; cbn [bind]; try discriminate.
      intros [= <-]. apply (IH _ _ _ _ _ E).
Qed.

(* any tuple the RFC algorithm rejects is refused with an error (never accepted, never a panic) *)
Corollary check_record_rejects p t th n h :
  t <= 2 ^ 63 ->
  rfc_verify_inclusion node_hash p t th n h = false ->
  check_record node_hash p t th n h = Err EInvalidInputs \/
  check_record node_hash p t th n h = Err EProofFailed.
Proof.
  intros Ht Hr.
  pose proof (check_record_iff_rfc9162 p t th n h Ht) as [H1 _].
  pose proof (proj1 (check_never_panics node_hash p t th n h Ht)) as Hp.
  unfold check_record, run_record_proof in *.
  destruct ((t <? 0) || (n <? 0) || (t <=? n)); [left; reflexivity|right].
  match goal with |- context [bind ?x _] => remember x as r eqn:E end.
  destruct r as [a|k|]; cbn [bind] in *.
  - destruct (str_eqb a th); [|reflexivity]. rewrite H1 in Hr by reflexivity. discriminate.
  - rewrite (run_record_proof_rev_err _ _ _ _ _ _ (eq_sym E)). reflexivity.
  - congruence.
Qed.

End RfcIncl.
