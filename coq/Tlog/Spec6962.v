(* Tlog/Spec6962.v — the specification side: RFC 6962 section 2.1 Merkle tree hash, audit
   path and consistency proof as recursive functions on the list of leaf hashes, and the
   hash store obtained by appending records one at a time.  No proofs here.

     split_point n          : Z        the largest power of two strictly smaller than n (n >= 2)
     mth [node_hash]        : list hash -> hash      MTH; mth [] = empty_hash, mth [x] = x,
                              mth l = node (mth (firstn k l)) (mth (skipn k l)), k = split_point (zlen l)
                              (equations: ProofsSpec.mth_nil / mth_one / mth_split)
     path [node_hash]       : Z -> list hash -> list hash      PATH(m, D[n]), bottom-up order
     subproof [node_hash]   : Z -> list hash -> bool -> list hash   SUBPROOF(m, D[n], b)
     proof [node_hash]      : Z -> list hash -> list hash      PROOF(m, D[n]) = SUBPROOF(m, D[n], true)
     slice l a n            : firstn n (skipn a l) with Z arguments
     append_record [leaf_hash node_hash] : list hash -> Z -> str -> list hash
                              the store after writing record n with tlog.StoredHashes at the end
                              (unchanged if StoredHashes fails; store_of_ok shows it never does)
     store_of [leaf_hash node_hash]      : list str -> list hash
   The recursive functions are fuelled by the length of the list; the defining equations
   are proved for every list (ProofsSpec.v), so the fuel is not visible. *)
From Verif.Base Require Import Bytes.
From Verif.Tlog Require Import Index Tree.

Definition split_point (n : Z) : Z := 2 ^ Z.log2 (n - 1).

Definition zlen {A : Type} (l : list A) : Z := Z.of_nat (length l).

Definition slice {A : Type} (l : list A) (a n : Z) : list A :=
  firstn (Z.to_nat n) (skipn (Z.to_nat a) l).

Section Spec.
Variable leaf_hash : str -> hash.
Variable node_hash : hash -> hash -> hash.

Fixpoint mth_fuel (fuel : nat) (l : list hash) : hash :=
  match l with
  | [] => empty_hash
  | [x] => x
  | _ =>
      match fuel with
      | O => empty_hash
      | S f =>
          let k := Z.to_nat (split_point (zlen l)) in
          node_hash (mth_fuel f (firstn k l)) (mth_fuel f (skipn k l))
      end
  end.

Definition mth (l : list hash) : hash := mth_fuel (length l) l.

(* PATH(m, D[n]) (RFC 6962 2.1.1), the sibling nearest to the leaf first *)
Fixpoint path_fuel (fuel : nat) (m : Z) (l : list hash) : list hash :=
  match l with
  | [] | [_] => []
  | _ =>
      match fuel with
      | O => []
      | S f =>
          let k := split_point (zlen l) in
          if m <? k
          then path_fuel f m (firstn (Z.to_nat k) l) ++ [mth (skipn (Z.to_nat k) l)]
          else path_fuel f (m - k) (skipn (Z.to_nat k) l) ++ [mth (firstn (Z.to_nat k) l)]
      end
  end.

Definition path (m : Z) (l : list hash) : list hash := path_fuel (length l) m l.

(* SUBPROOF(m, D[n], b) (RFC 6962 2.1.2) *)
Fixpoint subproof_fuel (fuel : nat) (m : Z) (l : list hash) (b : bool) : list hash :=
  if m =? zlen l then (if b then [] else [mth l])
  else
    match fuel with
    | O => []
    | S f =>
        let k := split_point (zlen l) in
        if m <=? k
        then subproof_fuel f m (firstn (Z.to_nat k) l) b ++ [mth (skipn (Z.to_nat k) l)]
        else subproof_fuel f (m - k) (skipn (Z.to_nat k) l) false ++ [mth (firstn (Z.to_nat k) l)]
    end.

Definition subproof (m : Z) (l : list hash) (b : bool) : list hash :=
  subproof_fuel (length l) m l b.

Definition proof (m : Z) (l : list hash) : list hash := subproof m l true.

(* writing record number n (with content data) to a store *)
Definition append_record (st : list hash) (n : Z) (data : str) : list hash :=
  match stored_hashes leaf_hash node_hash n data (reader_of st) with
  | Ok hs => st ++ hs
  | _ => st
  end.

Fixpoint store_from (st : list hash) (n : Z) (recs : list str) : list hash :=
  match recs with
  | [] => st
  | r :: rest => store_from (append_record st n r) (n + 1) rest
  end.

Definition store_of (recs : list str) : list hash := store_from [] 0 recs.

End Spec.
