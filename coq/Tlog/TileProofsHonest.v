(* Tlog/TileProofsHonest.v — completeness: with honest tiles ReadHashes succeeds and returns the
   true hashes.  "Honest" is relative to a family T lo hi of hashes of the record ranges [lo, hi)
   that satisfies the RFC 6962 recursion (T_splits; ProofsStore.range_hash_splits instantiates it
   with the MTH of a real log) and whose members are 32 bytes long. *)
From Verif.Base Require Import Bytes.
From Verif.Tlog Require Import Index Tree Spec6962 ProofsIndex ProofsSpec ProofsTree.
From Verif.Tlog Require Import Tile TileReader TileSpec TileProofs TileProofsMerkle TileProofsArith TileProofsPlan
     TileProofsSound TileProofsExtract TileProofsComplete.

(* ---------------------------------------------------------------- lists of 32-byte chunks *)

Lemma concat_chunks_length {A} (g : A -> str) (l : list A) :
  (forall x, length (g x) = 32%nat) -> length (concat (map g l)) = (32 * length l)%nat.
Proof.
  intros Hg. induction l as [|a l IH]; [reflexivity|].
  cbn [map concat length]. rewrite app_length, Hg, IH. lia.
Qed.

Lemma firstn_concat_chunks {A} (g : A -> str) (l : list A) k :
  (forall x, length (g x) = 32%nat) ->
  firstn (32 * k) (concat (map g l)) = concat (map g (firstn k l)).
Proof.
  intros Hg. revert k. induction l as [|a l IH]; intros k.
  - cbn. rewrite !firstn_nil. reflexivity.
  - destruct k as [|k]; [rewrite Nat.mul_0_r; reflexivity|].
    cbn [map concat firstn]. replace (32 * S k)%nat with (32 + 32 * k)%nat by lia.
    rewrite firstn_app, Hg. replace (32 + 32 * k - 32)%nat with (32 * k)%nat by lia.
    rewrite (firstn_all2 (n := (32 + 32 * k)%nat)) by (rewrite Hg; lia).
    rewrite IH. reflexivity.
Qed.

Lemma skipn_concat_chunks {A} (g : A -> str) (l : list A) k :
  (forall x, length (g x) = 32%nat) ->
  skipn (32 * k) (concat (map g l)) = concat (map g (skipn k l)).
Proof.
  intros Hg. revert k. induction l as [|a l IH]; intros k.
  - cbn. rewrite !skipn_nil. reflexivity.
  - destruct k as [|k]; [rewrite Nat.mul_0_r; reflexivity|].
    cbn [map concat skipn]. replace (32 * S k)%nat with (32 + 32 * k)%nat by lia.
    rewrite skipn_app, Hg. replace (32 + 32 * k - 32)%nat with (32 * k)%nat by lia.
    rewrite (skipn_all2 (n := (32 + 32 * k)%nat)) by (rewrite Hg; lia).
    rewrite IH. reflexivity.
Qed.

Lemma firstn_seq k start n : (k <= n)%nat -> firstn k (seq start n) = seq start k.
Proof.
  revert start n. induction k as [|k IH]; intros start n H; [reflexivity|].
  destruct n as [|n]; [lia|]. cbn [seq firstn]. f_equal. apply IH. lia.
Qed.

Lemma skipn_seq k start n : skipn k (seq start n) = seq (start + k) (n - k).
Proof.
  revert start n. induction k as [|k IH]; intros start n.
  - cbn [skipn]. f_equal; lia.
  - destruct n as [|n]; [reflexivity|]. cbn [seq skipn]. rewrite IH. f_equal; lia.
Qed.

Section Honest.
Variable node_hash : hash -> hash -> hash.
Variable T : Z -> Z -> hash.
Variable N : Z.
Hypothesis HT : T_splits node_hash T N.
Hypothesis HT32 : forall lo hi, length (T lo hi) = 32%nat.
Hypothesis HN : 0 <= N <= 2 ^ 62.
Notation mtree := (mtree node_hash).

(* entry number i (counted from b) of level lam *)
Definition hentry (lam b : Z) (i : nat) : hash :=
  T ((b + Z.of_nat i) * 2 ^ lam) ((b + Z.of_nat i + 1) * 2 ^ lam).

Definition honest_tile (t : tile) : str :=
  concat (map (hentry (tL t * tH t) (tN t * 2 ^ tH t)) (seq 0 (Z.to_nat (tW t)))).

Definition honest_rt : tile_reader := fun ts => Some (map honest_tile ts).

Lemma honest_len t : 0 <= tW t -> len (honest_tile t) = tW t * 32.
Proof.
  intros H. unfold len, honest_tile. rewrite concat_chunks_length by (intros; apply HT32).
  rewrite seq_length. lia.
Qed.

Lemma honest_block t (j s : nat) :
  (Z.of_nat s + 1) * 2 ^ Z.of_nat j <= tW t ->
  block (honest_tile t) j s = concat (map (hentry (tL t * tH t) (tN t * 2 ^ tH t)) (seq (2 ^ j * s) (2 ^ j))).
Proof.
  intros H. unfold block, honest_tile.
  pose proof (pow2_nat_Z j) as Hp. pose proof (pow2_nat_pos j) as Hpp.
  replace (32 * 2 ^ j * s)%nat with (32 * (2 ^ j * s))%nat by lia.
  rewrite skipn_concat_chunks by (intros; apply HT32).
  rewrite firstn_concat_chunks by (intros; apply HT32).
  rewrite skipn_seq, firstn_seq by nia. reflexivity.
Qed.

(* the perfect tree over 2^j consecutive honest entries is the hash of their range *)
Lemma mtree_honest lam b : 0 <= lam -> 0 <= b ->
  forall (j start : nat),
    (b + Z.of_nat start + 2 ^ Z.of_nat j) * 2 ^ lam <= N ->
    mtree j (concat (map (hentry lam b) (seq start (2 ^ j)))) =
    T ((b + Z.of_nat start) * 2 ^ lam) ((b + Z.of_nat start + 2 ^ Z.of_nat j) * 2 ^ lam).
Proof.
  intros Hlam Hb. pose proof (pow2_pos lam Hlam) as Hpl.
  induction j as [|j IH]; intros start Hin.
  - cbn [Nat.pow seq map concat TileSpec.mtree]. rewrite app_nil_r. unfold hentry.
    change (2 ^ Z.of_nat 0) with 1. reflexivity.
  - cbn [TileSpec.mtree].
    pose proof (pow2_nat_pos j) as Hpp. pose proof (pow2_nat_Z j) as Hp.
    pose proof (pow2_pos (Z.of_nat j) ltac:(lia)) as Hpj.
    assert (E2 : 2 ^ Z.of_nat (S j) = 2 * 2 ^ Z.of_nat j).
    { rewrite Nat2Z.inj_succ. unfold Z.succ. apply pow2_succ. lia. }
    replace (2 ^ S j)%nat with (2 ^ j + 2 ^ j)%nat by (cbn [Nat.pow]; lia).
    rewrite seq_app, map_app, concat_app.
    assert (Hl1 : length (concat (map (hentry lam b) (seq start (2 ^ j)))) = (32 * 2 ^ j)%nat).
    { rewrite concat_chunks_length by (intros; apply HT32). rewrite seq_length. reflexivity. }
    rewrite firstn_app, Hl1, Nat.sub_diag. cbn [firstn]. rewrite app_nil_r.
    rewrite <- Hl1 at 1. rewrite firstn_all.
    rewrite skipn_app, Hl1, Nat.sub_diag. cbn [skipn].
    rewrite <- Hl1 at 1. rewrite skipn_all. cbn [app].
    rewrite E2 in Hin.
    rewrite IH by nia. rewrite IH by (rewrite Nat2Z.inj_add, Hp; nia).
    rewrite Nat2Z.inj_add, Hp, E2.
    set (lo := (b + Z.of_nat start) * 2 ^ lam).
    set (hi := (b + Z.of_nat start + 2 * 2 ^ Z.of_nat j) * 2 ^ lam).
    assert (Hsz : hi - lo = 2 * 2 ^ (Z.of_nat j + lam)).
    { unfold hi, lo. rewrite pow2_mul by lia. ring. }
    assert (Hsp : split_point (hi - lo) = 2 ^ (Z.of_nat j + lam)).
    { apply split_point_unique; [lia|]. pose proof (pow2_pos (Z.of_nat j + lam) ltac:(lia)). lia. }
    pose proof (pow2_pos (Z.of_nat j + lam) ltac:(lia)) as Hpjl.
    rewrite (HT lo hi) by (unfold lo, hi in *; nia).
    rewrite Hsp. unfold lo, hi. rewrite pow2_mul by lia. f_equal; f_equal; ring.
Qed.

(* HashFromTile on the honest content of x's tile (widened to the tree) gives the true hash *)
Lemma hash_from_honest_tile h x t0 s e :
  1 <= h <= 30 -> x < stored_hash_index 0 N -> tile_for_index h x = TOk (t0, s, e) ->
  exists l o, split_stored_hash_index x = Ok (l, o) /\ 0 <= l /\ 0 <= o /\ (o + 1) * 2 ^ l <= N /\
    hash_from_tile node_hash (tile_parent t0 0 N) (honest_tile (tile_parent t0 0 N)) x
      = TOk (T (o * 2 ^ l) ((o + 1) * 2 ^ l)).
Proof.
  intros Hh Hx Htfi.
  assert (Hx0 : 0 <= x).
  { destruct (Z_lt_le_dec x 0) as [Hneg|]; [rewrite tile_for_index_neg in Htfi by exact Hneg; discriminate|assumption]. }
  pose proof (shi0_bound' N x HN Hx) as Hx63.
  set (Tt := tile_parent t0 0 N).
  assert (Hex : exists hh, hash_from_tile node_hash Tt (honest_tile Tt) x = TOk hh).
  { apply (hash_from_own_tile node_hash h N x t0 s e); try assumption.
    apply honest_len.
    (* the width of the widened tile is not negative *)
    destruct (tile_for_index_spec _ _ _ _ _ Htfi ltac:(lia)) as [l [o [j [n' [_ [_ [_ [_ [_ [HH0 [HL0 [_ [_ [HN0 _]]]]]]]]]]]]]].
    pose proof (tile_parent_spec t0 0 N ltac:(lia) ltac:(lia) HL0 HN0 ltac:(lia)) as Hps. cbv zeta in Hps.
    destruct Hps as [Hno Hyes]. unfold Tt.
    destruct (Z_le_gt_dec (N / 2 ^ ((tL t0 + 0) * tH t0)) (tN t0 / 2 ^ (0 * tH t0) * 2 ^ tH t0)) as [Hle|Hgt].
    - rewrite (Hno Hle). cbn. lia.
    - rewrite (Hyes ltac:(lia)). cbn [tW]. pose proof (pow2_pos (tH t0) ltac:(lia)). lia. }
  destruct Hex as [hh Ehh].
  destruct (hash_from_tile_spec _ _ _ _ _ Ehh Hx63)
    as [l [o [j [n' [Hs [Hl [Ho [Hidx [HH [HL [HW [Hlend [HNn [Hj [Hlj [Hn' [Hco Ehh2]]]]]]]]]]]]]]]]].
  exists l, o. split; [exact Hs|]. split; [exact Hl|]. split; [exact Ho|].
  assert (Hin : (o + 1) * 2 ^ l <= N) by (apply index_lt_count_inv; try lia; rewrite Hidx; unfold first_index; lia).
  split; [exact Hin|]. rewrite Ehh. f_equal. rewrite Ehh2.
  rewrite honest_block by exact Hn'.
  assert (HLh : 0 <= tL Tt * tH Tt) by (apply Z.mul_nonneg_nonneg; lia).
  pose proof (pow2_pos (tH Tt) ltac:(lia)) as HpH. pose proof (pow2_pos (Z.of_nat j) ltac:(lia)) as Hpj.
  pose proof (pow2_pos (tL Tt * tH Tt) HLh) as HpL.
  assert (El : 2 ^ l = 2 ^ Z.of_nat j * 2 ^ (tL Tt * tH Tt)) by (rewrite Hlj, Z.add_comm; apply pow2_mul; lia).
  pose proof (pow2_nat_Z j) as Hp2.
  assert (Estart : tN Tt * 2 ^ tH Tt + Z.of_nat (2 ^ j * n') = o * 2 ^ Z.of_nat j).
  { rewrite Nat2Z.inj_mul, Hp2. lia. }
  rewrite (mtree_honest (tL Tt * tH Tt) (tN Tt * 2 ^ tH Tt) HLh ltac:(nia) j (2 ^ j * n')%nat).
  - rewrite Estart. rewrite El. f_equal; ring.
  - rewrite Estart. rewrite El in Hin. nia.
Qed.

End Honest.
