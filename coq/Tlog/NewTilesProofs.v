(* Tlog/NewTilesProofs.v — NewTiles is sufficient (and publishes nothing else).

   tree_tile h N t : t is one of the tiles of height h of the tree of size N — at level L the
     complete tiles n < (N >> h*L) >> h and, when (N >> h*L) is not a multiple of 2^h, the partial
     right-edge tile of width (N >> h*L) mod 2^h.  These are exactly the coordinates tileParent
     produces, so they are the only tiles a reader of size N asks for (make_plan_tiles_in_tree).
   new_tile h old new t : the membership predicate of NewTiles(h, old, new) (new_tiles_in).
   published h ns j t : t is in NewTiles(h, n_i, n_(i+1)) for some step i < j of the growth
     history ns = [n_0 = 0; n_1; …].
   new_tiles_sufficient : every tile of EVERY signed size n_j was published at or before step j. *)
From Verif.Base Require Import Bytes.
From Verif.Tlog Require Import Index Tree Spec6962 ProofsIndex ProofsSpec ProofsTree.
From Verif.Tlog Require Import Tile TileReader TileSpec TileProofs TileProofsMerkle TileProofsArith TileProofsPlan
     TileProofsSound TileProofsComplete.

Definition tree_tile (h N : Z) (t : tile) : Prop :=
  tH t = h /\ 0 <= tL t /\ 0 <= tN t /\ 1 <= tW t <= 2 ^ h /\
  tN t * 2 ^ h + tW t <= N / 2 ^ (h * tL t) /\
  (tW t = 2 ^ h \/ tN t * 2 ^ h + tW t = N / 2 ^ (h * tL t)).

Definition new_tile (h old new : Z) (t : tile) : Prop :=
  tH t = h /\ 0 <= tL t /\
  old / 2 ^ (h * tL t) <> new / 2 ^ (h * tL t) /\
  ((tW t = 2 ^ h /\ old / 2 ^ (h * tL t) / 2 ^ h <= tN t < new / 2 ^ (h * tL t) / 2 ^ h) \/
   (tN t = new / 2 ^ (h * tL t) / 2 ^ h /\ tW t = (new / 2 ^ (h * tL t)) mod 2 ^ h /\ 0 < tW t)).

(* a growth history: starts at the empty tree, never shrinks, sizes are int64 *)
Definition growth (ns : list Z) : Prop :=
  nth_error ns 0 = Some 0 /\
  (forall i a b, nth_error ns i = Some a -> nth_error ns (S i) = Some b -> a <= b) /\
  Forall (fun n => n < 2 ^ 63) ns.

Definition published (h : Z) (ns : list Z) (j : nat) (t : tile) : Prop :=
  exists i a b ts, (i < j)%nat /\ nth_error ns i = Some a /\ nth_error ns (S i) = Some b /\
                   new_tiles h a b = TOk ts /\ In t ts.

(* ---------------------------------------------------------------- NewTiles, level by level *)

Lemma in_zrange_iff a b x : In x (zrange a b) <-> a <= x < b.
Proof.
  unfold zrange. rewrite in_map_iff. split.
  - intros [i [<- Hi]]. apply in_seq in Hi. lia.
  - intros H. exists (Z.to_nat (x - a)). split; [lia|]. apply in_seq. lia.
Qed.

Lemma div_pow2_zero x a b : 0 <= x -> 0 <= a <= b -> x / 2 ^ a = 0 -> x / 2 ^ b = 0.
Proof.
  intros Hx Hab H0. pose proof (pow2_pos a ltac:(lia)) as Hpa.
  assert (x < 2 ^ a).
  { pose proof (Z.div_mod x (2 ^ a) ltac:(lia)). pose proof (Z.mod_pos_bound x (2 ^ a) Hpa). nia. }
  pose proof (pow2_le a b Hab). apply Z.div_small. lia.
Qed.

Section Levels.
Variables (h old new : Z).
Hypothesis Hh : 1 <= h.
Hypothesis Hon : 0 <= old <= new.

(* the tiles NewTiles emits at one level *)
Lemma level_tiles_in level t : 0 <= level ->
  let oldN := Z.shiftr old (h * level) in
  let newN := Z.shiftr new (h * level) in
  In t (if oldN =? newN then []
        else map (fun n => mkTile h level n (2 ^ h)) (zrange (Z.shiftr oldN h) (Z.shiftr newN h))
             ++ (if 0 <? newN - Z.shiftl (Z.shiftr newN h) h
                 then [mkTile h level (Z.shiftr newN h) (newN - Z.shiftl (Z.shiftr newN h) h)] else []))
  <-> (tL t = level /\ new_tile h old new t).
Proof.
  intros Hl oldN newN. unfold oldN, newN.
  assert (Hhl : 0 <= h * level) by nia.
  rewrite !shr_div, shl_mul by lia.
  pose proof (pow2_pos h ltac:(lia)) as Hph.
  set (o := old / 2 ^ (h * level)). set (c := new / 2 ^ (h * level)).
  assert (Ew : c - c / 2 ^ h * 2 ^ h = c mod 2 ^ h) by (rewrite Z.mod_eq by lia; lia).
  rewrite Ew. unfold new_tile. split.
  - intros Hin. destruct (Z.eqb_spec o c) as [|Hne]; [destruct Hin|].
    apply in_app_or in Hin. destruct Hin as [Hin|Hin].
    + apply in_map_iff in Hin. destruct Hin as [k [<- Hk]]. apply in_zrange_iff in Hk.
      cbn [tH tL tN tW]. fold o c. split; [reflexivity|]. split; [reflexivity|]. split; [lia|].
      split; [exact Hne|]. left. split; [reflexivity|exact Hk].
    + destruct (Z.ltb_spec 0 (c mod 2 ^ h)) as [Hw|]; [|destruct Hin].
      destruct Hin as [<-|[]]. cbn [tH tL tN tW]. fold o c. split; [reflexivity|]. split; [reflexivity|].
      split; [lia|]. split; [exact Hne|]. right. split; [reflexivity|]. split; [reflexivity|exact Hw].
  - intros [EL [EH [_ [Hne Hc]]]]. rewrite EL in Hne, Hc. fold o c in Hne, Hc.
    destruct (Z.eqb_spec o c) as [|_]; [contradiction|]. apply in_or_app.
    destruct t as [th tl tn tw]. cbn [tH tL tN tW] in *. subst th tl.
    destruct Hc as [[-> Hk]|[-> [-> Hw]]].
    + left. apply in_map_iff. exists tn. split; [reflexivity|]. apply in_zrange_iff. exact Hk.
    + right. destruct (Z.ltb_spec 0 (c mod 2 ^ h)); [left; reflexivity|lia].
Qed.

Lemma no_new_tile_above level t :
  0 <= level -> new / 2 ^ (h * level) = 0 -> level <= tL t -> ~ new_tile h old new t.
Proof.
  intros Hl H0 HL [_ [_ [Hne _]]]. apply Hne.
  assert (Hc : new / 2 ^ (h * tL t) = 0) by (apply (div_pow2_zero new (h * level)); [lia|nia|exact H0]).
  rewrite Hc. apply Z.le_antisymm.
  - rewrite <- Hc. apply Z.div_le_mono; [apply pow2_pos; nia|lia].
  - apply Z.div_pos; [lia|apply pow2_pos; nia].
Qed.

Lemma new_tiles_loop_in : forall fuel level ts, 0 <= level ->
  new_tiles_loop fuel h level old new = TOk ts ->
  forall t, In t ts <-> (level <= tL t /\ new_tile h old new t).
Proof.
  assert (Hstop : forall level ts, 0 <= level -> (0 <? Z.shiftr new (h * level)) = false -> ts = [] ->
            forall t, In t ts <-> (level <= tL t /\ new_tile h old new t)).
  { intros level ts Hl Hc -> t. split; [intros []|]. intros [HL Hnt]. exfalso.
    apply Z.ltb_ge in Hc. rewrite shr_div in Hc by nia.
    assert (new / 2 ^ (h * level) = 0).
    { apply Z.le_antisymm; [exact Hc|]. apply Z.div_pos; [lia|apply pow2_pos; nia]. }
    exact (no_new_tile_above level t Hl H HL Hnt). }
  induction fuel as [|f IH]; intros level ts Hl H.
  - cbn [new_tiles_loop] in H. destruct (0 <? Z.shiftr new (h * level)) eqn:Ec; [discriminate|].
    injection H as <-. apply (Hstop level []); auto.
  - cbn [new_tiles_loop] in H. destruct (0 <? Z.shiftr new (h * level)) eqn:Ec.
    + apply tbind_ok in H. destruct H as [r [Hr H]]. injection H as <-.
      intros t. rewrite in_app_iff, (IH (level + 1) r ltac:(lia) Hr t), (level_tiles_in level t Hl). split.
      * intros [[E Hn]|[HL Hn]]; split; try assumption; lia.
      * intros [HL Hn]. destruct (Z.eq_dec (tL t) level) as [E|Hne]; [left; auto|right; split; [lia|exact Hn]].
    + injection H as <-. apply (Hstop level []); auto.
Qed.

Lemma new_tiles_loop_ok : new < 2 ^ 63 -> forall fuel level, 0 <= level -> 65 <= Z.of_nat fuel + level ->
  exists ts, new_tiles_loop fuel h level old new = TOk ts.
Proof.
  intros Hn63. induction fuel as [|f IH]; intros level Hl Hf.
  - cbn [new_tiles_loop]. rewrite shr_div by nia.
    assert (new / 2 ^ (h * level) = 0).
    { apply Z.div_small. split; [lia|]. assert (2 ^ 63 <= 2 ^ (h * level)) by (apply pow2_le; nia). lia. }
    rewrite H. cbn. eexists. reflexivity.
  - cbn [new_tiles_loop]. destruct (0 <? Z.shiftr new (h * level)); [|eexists; reflexivity].
    destruct (IH (level + 1) ltac:(lia) ltac:(lia)) as [r Hr]. rewrite Hr. cbn [tbind]. eexists. reflexivity.
Qed.

End Levels.

(* NewTiles never fails on int64 sizes, and its members are exactly the tiles new_tile describes *)
Theorem new_tiles_ok h old new :
  1 <= h -> 0 <= old <= new -> new < 2 ^ 63 -> exists ts, new_tiles h old new = TOk ts.
Proof.
  intros Hh Hon Hn. unfold new_tiles. destruct (Z.leb_spec h 0); [lia|].
  apply new_tiles_loop_ok; try assumption; lia.
Qed.

Theorem new_tiles_in h old new ts t :
  1 <= h -> 0 <= old <= new -> new_tiles h old new = TOk ts -> (In t ts <-> new_tile h old new t).
Proof.
  intros Hh Hon H. unfold new_tiles in H. destruct (Z.leb_spec h 0); [lia|].
  rewrite (new_tiles_loop_in h old new Hh Hon 65%nat 0 ts ltac:(lia) H t).
  split; [intros [_ Hn]; exact Hn|]. intros Hn. split; [|exact Hn]. destruct Hn as [_ [HL _]]. exact HL.
Qed.

(* ---------------------------------------------------------------- one growth step *)

(* NewTiles publishes tiles of the new tree only *)
Lemma new_tile_is_tree_tile h old new t :
  1 <= h -> 0 <= old <= new -> new_tile h old new t -> tree_tile h new t.
Proof.
  intros Hh Hon [EH [HL [Hne Hc]]].
  pose proof (pow2_pos h ltac:(lia)) as Hph. pose proof (pow2_pos (h * tL t) ltac:(nia)) as HpL.
  set (o := old / 2 ^ (h * tL t)) in *. set (c := new / 2 ^ (h * tL t)) in *.
  assert (Ho : 0 <= o) by (apply Z.div_pos; lia).
  assert (Hc0 : 0 <= c) by (apply Z.div_pos; lia).
  pose proof (Z.div_mod c (2 ^ h) ltac:(lia)) as Hdm. pose proof (Z.mod_pos_bound c (2 ^ h) Hph) as Hmb.
  assert (Hoq : 0 <= o / 2 ^ h) by (apply Z.div_pos; lia).
  assert (Hcq : 0 <= c / 2 ^ h) by (apply Z.div_pos; lia).
  unfold tree_tile. fold c. destruct Hc as [[EW Hk]|[EN [EW Hw]]].
  - assert ((tN t + 1) * 2 ^ h <= c) by nia.
    repeat split; first [lia | left; exact EW].
  - repeat split; first [lia | right; lia].
Qed.

(* a tile of the new tree is a tile of the old tree or one of NewTiles(old, new) *)
Lemma tree_tile_step h a b t :
  1 <= h -> 0 <= a <= b -> tree_tile h b t -> tree_tile h a t \/ new_tile h a b t.
Proof.
  intros Hh Hab [EH [HL [HN [HW [Hle Hc]]]]].
  pose proof (pow2_pos h ltac:(lia)) as Hph. pose proof (pow2_pos (h * tL t) ltac:(nia)) as HpL.
  assert (Hmono : a / 2 ^ (h * tL t) <= b / 2 ^ (h * tL t)) by (apply Z.div_le_mono; lia).
  assert (Ha0 : 0 <= a / 2 ^ (h * tL t)) by (apply Z.div_pos; lia).
  unfold tree_tile, new_tile.
  set (ca := a / 2 ^ (h * tL t)) in *. set (cb := b / 2 ^ (h * tL t)) in *.
  destruct (Z.eq_dec (tW t) (2 ^ h)) as [Efull|Hpart].
  - (* a complete tile: published by the first step that reaches its right end *)
    destruct (Z_le_gt_dec ((tN t + 1) * 2 ^ h) ca) as [Hold|Hnew].
    + left. repeat split; first [lia | left; exact Efull].
    + right.
      assert (ca / 2 ^ h < tN t + 1) by (apply Z.div_lt_upper_bound; lia).
      assert (tN t + 1 <= cb / 2 ^ h) by (apply Z.div_le_lower_bound; lia).
      repeat split; first [lia | left; split; [exact Efull|lia]].
  - (* a partial tile: published by the step that set this level's width *)
    destruct Hc as [|Hc]; [contradiction|].
    destruct (Z.eq_dec ca cb) as [Esame|Hdiff].
    + left. repeat split; first [lia | right; lia].
    + right.
      assert (E1 : tN t = cb / 2 ^ h) by (apply (Z.div_unique_pos cb (2 ^ h) (tN t) (tW t)); lia).
      assert (E2 : tW t = cb mod 2 ^ h) by (apply (Z.mod_unique_pos cb (2 ^ h) (tN t) (tW t)); lia).
      repeat split; first [lia | right; repeat split; first [assumption | lia]].
Qed.

(* ---------------------------------------------------------------- growth histories *)

Lemma growth_nonneg ns : growth ns -> forall i n, nth_error ns i = Some n -> 0 <= n.
Proof.
  intros [H0 [Hm _]]. induction i as [|i IH]; intros n Hn.
  - rewrite H0 in Hn. injection Hn as <-. lia.
  - destruct (nth_error ns i) as [a|] eqn:Ea.
    + specialize (IH a eq_refl). specialize (Hm i a n Ea Hn). lia.
    + apply nth_error_None in Ea. assert (nth_error ns (S i) <> None) by congruence.
      apply nth_error_Some in H. lia.
Qed.

Lemma published_mono h ns j j' t : (j <= j')%nat -> published h ns j t -> published h ns j' t.
Proof.
  intros Hj [i [a [b [ts [Hi H]]]]]. exists i, a, b, ts. split; [lia|exact H].
Qed.

(* new_tiles_sufficient: every tile of every signed size was published at or before that step *)
Theorem new_tiles_sufficient h ns :
  1 <= h -> growth ns ->
  forall j nj t, nth_error ns j = Some nj -> tree_tile h nj t -> published h ns j t.
Proof.
  intros Hh Hg. pose proof (growth_nonneg ns Hg) as Hnn. destruct Hg as [H0 [Hm H63]].
  induction j as [|j IH]; intros nj t Hj Ht.
  - exfalso. rewrite H0 in Hj. injection Hj as <-.
    destruct Ht as [_ [HL [HN [HW [Hle _]]]]]. rewrite Z.div_0_l in Hle by (pose proof (pow2_pos (h * tL t) ltac:(nia)); lia).
    pose proof (pow2_pos h ltac:(lia)). nia.
  - destruct (nth_error ns j) as [a|] eqn:Ea.
    2:{ apply nth_error_None in Ea. assert (nth_error ns (S j) <> None) by congruence.
        apply nth_error_Some in H. lia. }
    pose proof (Hm j a nj Ea Hj) as Hab. pose proof (Hnn j a Ea) as Ha0.
    destruct (tree_tile_step h a nj t Hh ltac:(lia) Ht) as [Hold|Hnew].
    + apply (published_mono h ns j); [lia|]. apply (IH a t eq_refl Hold).
    + assert (Hb63 : nj < 2 ^ 63).
      { rewrite Forall_forall in H63. apply H63. eapply nth_error_In. exact Hj. }
      destruct (new_tiles_ok h a nj Hh ltac:(lia) Hb63) as [ts Ets].
      exists j, a, nj, ts. repeat split; try assumption; try lia.
      apply (new_tiles_in h a nj ts t Hh ltac:(lia) Ets). exact Hnew.
Qed.

(* nothing else is published: a published tile is a tile of the tree signed at its step *)
Theorem published_tiles_are_tree_tiles h ns j t :
  1 <= h -> growth ns -> published h ns j t ->
  exists i b, (i < j)%nat /\ nth_error ns (S i) = Some b /\ tree_tile h b t.
Proof.
  intros Hh Hg [i [a [b [ts [Hi [Ea [Eb [Ets Hin]]]]]]]].
  pose proof (growth_nonneg ns Hg i a Ea) as Ha0. destruct Hg as [_ [Hm _]].
  pose proof (Hm i a b Ea Eb) as Hab.
  exists i, b. split; [exact Hi|]. split; [exact Eb|].
  apply (new_tile_is_tree_tile h a b t Hh ltac:(lia)).
  apply (new_tiles_in h a b ts t Hh ltac:(lia) Ets). exact Hin.
Qed.

(* ---------------------------------------------------------------- the tiles a reader asks for *)

(* the tile of a stored position of the tree, widened to the tree, and its full parents *)
Lemma parent_in_tree h N x t0 s e k :
  tile_for_index h x = TOk (t0, s, e) -> 0 <= x < 2 ^ 63 -> 0 <= N -> 0 <= k ->
  tile_parent t0 k N = no_tile \/ tree_tile h N (tile_parent t0 k N).
Proof.
  intros Htfi Hx HN Hk.
  destruct (parent_chain_shape h N x t0 s e Htfi Hx HN)
    as [l [o [Hl [Ho [Hidx [Hh [HH0 [HL0 [EL Hchain]]]]]]]]].
  specialize (Hchain k Hk). cbv zeta in Hchain. destruct Hchain as [Hnk [Hno Hyes]].
  set (Lk := tL t0 + k) in *. set (nk := o * 2 ^ l / 2 ^ ((Lk + 1) * h)) in *.
  destruct (Z_le_gt_dec (N / 2 ^ (Lk * h)) (nk * 2 ^ h)) as [Hle|Hgt]; [left; apply Hno; exact Hle|].
  right. rewrite (Hyes ltac:(lia)). unfold tree_tile. cbn [tH tL tN tW].
  rewrite (Z.mul_comm h Lk). pose proof (pow2_pos h ltac:(lia)).
  repeat split; try lia.
Qed.

Lemma index_tile_in_tree h N x t0 s e :
  1 <= h -> 0 <= N <= 2 ^ 62 -> 0 <= x < stored_hash_index 0 N ->
  tile_for_index h x = TOk (t0, s, e) -> tree_tile h N (tile_parent t0 0 N).
Proof.
  intros Hh HN Hx Htfi.
  pose proof (shi0_bound' N x HN ltac:(lia)) as Hx63.
  destruct (parent_in_tree h N x t0 s e 0 Htfi ltac:(lia) ltac:(lia) ltac:(lia)) as [Hno|Hyes]; [|exact Hyes].
  exfalso.
  destruct (parent_chain_shape h N x t0 s e Htfi ltac:(lia) ltac:(lia))
    as [l [o [Hl [Ho [Hidx [_ [HH0 [HL0 [EL Hchain]]]]]]]]].
  specialize (Hchain 0 ltac:(lia)). cbv zeta in Hchain. rewrite Z.add_0_r in Hchain.
  destruct Hchain as [Hnk [_ Hyes]].
  assert (Hin : (o + 1) * 2 ^ l <= N) by (apply index_lt_count_inv; try lia; rewrite Hidx; unfold first_index; lia).
  set (L := tL t0) in *.
  assert (HLl : L * h <= l) by (rewrite EL; pose proof (Z.mul_div_le l h ltac:(lia)); lia).
  assert (HLh : 0 <= L * h) by nia.
  pose proof (pow2_pos h ltac:(lia)) as Hph. pose proof (pow2_pos (L * h) HLh) as HpL.
  pose proof (pow2_pos (l - L * h) ltac:(lia)) as Hpd.
  assert (El : 2 ^ l = 2 ^ (l - L * h) * 2 ^ (L * h)) by (apply pow2_split; lia).
  assert (EM : 2 ^ ((L + 1) * h) = 2 ^ h * 2 ^ (L * h)).
  { replace ((L + 1) * h) with (h + L * h) by ring. apply pow2_mul; lia. }
  set (a' := o * 2 ^ (l - L * h)).
  assert (Enk : o * 2 ^ l / 2 ^ ((L + 1) * h) = a' / 2 ^ h).
  { rewrite El, EM, Z.mul_assoc. fold a'. apply Z.div_mul_cancel_r; lia. }
  rewrite Enk in Hyes.
  assert (Hlow : a' / 2 ^ h * 2 ^ h <= a') by (pose proof (Z.mul_div_le a' (2 ^ h) ltac:(lia)); lia).
  assert (Hmx : a' + 1 <= N / 2 ^ (L * h)).
  { apply Z.div_le_lower_bound; [lia|]. rewrite El in Hin. unfold a'. nia. }
  rewrite (Hyes ltac:(lia)) in Hno. unfold no_tile in Hno. injection Hno as E1 _ _ _. lia.
Qed.

Theorem make_plan_tiles_in_tree N h ix p :
  1 <= h -> 0 <= N <= 2 ^ 62 -> make_plan N h ix = TOk p -> Forall (tree_tile h N) (p_tiles p).
Proof.
  intros Hh HN Ep.
  destruct (make_plan_spec N h ix p HN Ep)
    as [bs [tiles1 [ext2 [ord1 [HB [Estx [Etiles [Enstx [Hfull1 [Hsto [Hcov [Hok2 [Hp2 Hixs]]]]]]]]]]]]].
  rewrite Etiles. apply Forall_app. split.
  - (* the tiles of the tree-hash positions *)
    apply Forall_forall. intros t Hin. destruct (In_nth_error _ _ Hin) as [q Hq].
    assert (Hql : (q < length tiles1)%nat) by (apply nth_error_Some; congruence).
    destruct (In_nth_error _ _ (Hcov q Hql)) as [i Hi].
    assert (Hil : (i < length (p_stx p))%nat).
    { rewrite (Forall2_length' _ _ _ Hsto). apply nth_error_Some. congruence. }
    destruct (nth_error (p_stx p) i) as [x|] eqn:Ex; [|apply nth_error_None in Ex; lia].
    destruct (Forall2_nth _ _ _ _ _ Hsto Ex) as [q' [Hq' [t' [[t0 [s [e [Htfi Et']]]] Hnth]]]].
    rewrite Hi in Hq'. injection Hq' as <-. rewrite Hq in Hnth. injection Hnth as <-.
    rewrite Estx in Ex. unfold sub_tree_indexes in Ex. rewrite nth_error_map in Ex.
    destruct (nth_error bs i) as [[lv lo]|] eqn:Eb; [|discriminate]. cbn [option_map fst snd] in Ex.
    injection Ex as <-. destruct (Blocks_member _ _ _ _ _ HB (nth_error_In _ _ Eb)) as [Hlv [Hlo0 [Htop [c Hc]]]].
    pose proof (pow2_pos lv Hlv) as Hplv.
    assert (Hshr : Z.shiftr lo lv = c) by (rewrite shr_div by lia; subst lo; apply Z.div_mul; lia).
    rewrite Hshr in Htfi. assert (Hc0 : 0 <= c) by nia.
    destruct (no_overflow_index lv c Hlv Hc0 ltac:(nia)) as [[Hx0 Hx63] _].
    assert (Hxlt : stored_hash_index lv c < stored_hash_index 0 N) by (apply (index_lt_count lv c N); lia).
    rewrite Et'. apply (index_tile_in_tree h N (stored_hash_index lv c) t0 s e Hh HN ltac:(lia) Htfi).
  - (* the parent chains of the requested positions: full tiles *)
    revert Hp2. apply Forall_impl. intros t [x [t0 [s [e [Hx [Htfi [Hw [k Et]]]]]]]].
    assert (Hx0 : 0 <= x).
    { destruct (Z_lt_le_dec x 0) as [Hneg|]; [rewrite tile_for_index_neg in Htfi by exact Hneg; discriminate|assumption]. }
    pose proof (shi0_bound' N x HN Hx) as Hx63.
    destruct (parent_in_tree h N x t0 s e (Z.of_nat k) Htfi ltac:(lia) ltac:(lia) ltac:(lia)) as [Hno|Hyes].
    + rewrite <- Et in Hno. rewrite Hno in Hw. cbn in Hw. discriminate.
    + rewrite Et. exact Hyes.
Qed.
