(* Tlog/TileProofsExtract.v — after SaveTiles the extraction of the requested hashes cannot fail:
   for 1 <= h <= 30 and N <= 2^62, tile_read_hashes = (r, Some _) implies r = TOk _.
   Hence an error (or panic) result means nothing was handed to SaveTiles. *)
From Verif.Base Require Import Bytes.
From Verif.Tlog Require Import Index Tree Spec6962 ProofsIndex ProofsSpec ProofsTree.
From Verif.Tlog Require Import Tile TileReader TileSpec TileProofs TileProofsMerkle TileProofsArith TileProofsPlan TileProofsSound.

Section Extract.
Variable node_hash : hash -> hash -> hash.

(* HashFromTile succeeds on x's own tile widened to the tree, whatever the data (of the right length) *)
Lemma hash_from_own_tile h N x t0 s e d :
  1 <= h <= 30 -> 0 <= N <= 2 ^ 62 -> x < stored_hash_index 0 N ->
  tile_for_index h x = TOk (t0, s, e) ->
  len d = tW (tile_parent t0 0 N) * 32 ->
  exists hh, hash_from_tile node_hash (tile_parent t0 0 N) d x = TOk hh.
Proof.
  intros Hh HN Hx Htfi Hlen.
  assert (Hx0 : 0 <= x).
  { destruct (Z_lt_le_dec x 0) as [Hneg|]; [rewrite tile_for_index_neg in Htfi by exact Hneg; discriminate|assumption]. }
  pose proof (shi0_bound' N x HN Hx) as Hx63.
  destruct (tile_for_index_spec _ _ _ _ _ Htfi ltac:(lia))
    as [l [o [j [n' [Hs [Hl [Ho [Hidx [Hh1 [HH0 [HL0 [Hj [Hlj [HN0 [Hn' [HW [Es [Ee [Hco [Hle [EL EN]]]]]]]]]]]]]]]]]]]]].
  (* the subtree (l, o) is complete within N records *)
  assert (Hin : (o + 1) * 2 ^ l <= N).
  { apply index_lt_count_inv; try lia. rewrite Hidx. exact Hx. }
  assert (HLh : 0 <= tL t0 * h) by (apply Z.mul_nonneg_nonneg; lia).
  pose proof (pow2_pos j ltac:(lia)) as Hpj. pose proof (pow2_pos h ltac:(lia)) as Hph.
  pose proof (pow2_pos (tL t0 * h) HLh) as HpL.
  assert (El : 2 ^ l = 2 ^ j * 2 ^ (tL t0 * h)) by (rewrite Hlj, Z.add_comm; apply pow2_mul; lia).
  (* level bound *)
  assert (Hl62 : l <= 62).
  { destruct (Z_le_gt_dec l 62) as [|Hgt]; [assumption|]. exfalso.
    assert (2 ^ 63 <= 2 ^ l) by (apply pow2_le; lia).
    assert (2 ^ 62 < 2 ^ 63) by (apply pow2_lt; lia). nia. }
  (* the entries of level L*h available in the tree *)
  set (mx := N / 2 ^ (tL t0 * h)).
  assert (Hmx : tN t0 * 2 ^ h + (n' + 1) * 2 ^ j <= mx).
  { unfold mx. apply Z.div_le_lower_bound; [lia|].
    replace (tN t0 * 2 ^ h + (n' + 1) * 2 ^ j) with ((o + 1) * 2 ^ j) by lia.
    rewrite El in Hin. nia. }
  pose proof (tile_parent_spec t0 0 N ltac:(lia) ltac:(lia) HL0 HN0 ltac:(lia)) as Hps.
  cbv zeta in Hps. rewrite HH0 in Hps. rewrite Z.mul_0_l in Hps. change (2 ^ 0) with 1 in Hps.
  rewrite Z.div_1_r, Z.add_0_r in Hps. fold mx in Hps. destruct Hps as [_ Hyes].
  specialize (Hyes ltac:(nia)).
  set (T := tile_parent t0 0 N) in *. rewrite Hyes in Hlen |- *. cbn [tW] in Hlen.
  unfold Tile.hash_from_tile. cbn [tH tL tN tW].
  assert (HL64 : tL t0 < 64).
  { assert (tL t0 <= l); [|lia]. rewrite EL. apply Z.div_le_upper_bound; nia. }
  set (W := Z.min (2 ^ h) (mx - tN t0 * 2 ^ h)) in *.
  assert (HW1 : (n' + 1) * 2 ^ j <= W) by (unfold W; lia).
  destruct (Z.ltb_spec h 1); [lia|]. destruct (Z.ltb_spec 30 h); [lia|].
  destruct (Z.ltb_spec (tL t0) 0); [lia|]. destruct (Z.leb_spec 64 (tL t0)); [lia|].
  destruct (Z.ltb_spec W 1); [nia|]. destruct (Z.ltb_spec (2 ^ h) W); [unfold W in *; lia|].
  cbn [orb]. unfold hash_size.
  destruct (Z.ltb_spec (len d) (W * 32)); [lia|].
  rewrite Htfi. cbn [tbind fst snd].
  rewrite !Z.eqb_refl. cbn [negb orb].
  destruct (Z.ltb_spec W (tW t0)); [lia|].
  set (jn := Z.to_nat j).
  assert (Hp2 : Z.of_nat (2 ^ jn) = 2 ^ j) by (rewrite pow2_nat_Z; unfold jn; rewrite Z2Nat.id by lia; reflexivity).
  assert (Hes : Z.to_nat (e - s) = (32 * 2 ^ jn)%nat) by (subst e s; nia).
  assert (Hss : Z.to_nat s = (32 * 2 ^ jn * Z.to_nat n')%nat) by (subst s; nia).
  rewrite Hes, Hss. fold (block d jn (Z.to_nat n')).
  rewrite (tile_hash_spec node_hash jn).
  - eexists. reflexivity.
  - unfold block. rewrite firstn_length, skipn_length. unfold len in Hlen. nia.
Qed.

Lemma extract_ok h N tiles data : forall ixs js,
  1 <= h <= 30 -> 0 <= N <= 2 ^ 62 ->
  Forall2 (fun t d => len d = tW t * 32) tiles data ->
  Forall2 (index_at h N tiles) ixs js ->
  exists hs, extract node_hash tiles data (combine ixs js) = TOk hs.
Proof.
  intros ixs js Hh HN Hlen HF. induction HF as [|x j ixs js Hxj HF IH].
  - exists []. reflexivity.
  - destruct IH as [hs Ehs]. destruct Hxj as [Hx [t0 [s [e [Htfi Hnth]]]]].
    cbn [combine extract]. unfold hash_at. rewrite Hnth.
    destruct (Forall2_nth _ _ _ _ _ Hlen Hnth) as [d [Hd Hld]]. rewrite Hd.
    destruct (hash_from_own_tile h N x t0 s e d Hh HN Hx Htfi Hld) as [hh Ehh].
    rewrite Ehh, Ehs. cbn [tbind]. eexists. reflexivity.
Qed.

(* SaveTiles is followed by a successful return *)
Theorem read_hashes_saved_implies_ok N R h ix rt r sv :
  1 <= h <= 30 -> 0 <= N <= 2 ^ 62 ->
  tile_read_hashes node_hash (N, R) h ix rt = (r, Some sv) -> exists hs, r = TOk hs.
Proof.
  intros Hh HN H. unfold tile_read_hashes in H. cbn [fst snd] in H.
  destruct ((h <? 1) || (62 <? h)); [discriminate|].
  destruct (make_plan N h ix) as [p| |] eqn:Ep; try discriminate.
  destruct (rt (p_tiles p)) as [data|]; [|discriminate].
  unfold check_and_extract in H. cbn [fst snd] in H.
  destruct (Nat.eqb_spec (length data) (length (p_tiles p))) as [Hl|]; [|discriminate]. cbn [negb] in H.
  destruct (check_lengths (p_tiles p) data) eqn:Ecl; [|discriminate]. cbn [negb] in H.
  destruct (auth_stx node_hash p data R) as [[]| |]; try discriminate.
  destruct (auth_rest node_hash N (p_order p) (p_tiles p) data _) as [[]| |]; try discriminate.
  injection H as <- _.
  destruct (make_plan_spec N h ix p HN Ep)
    as [bs [tiles1 [ext2 [ord1 [_ [_ [_ [_ [_ [_ [_ [_ [_ Hix]]]]]]]]]]]]].
  apply (extract_ok h N); try assumption.
  apply check_lengths_spec; assumption.
Qed.

(* nothing is saved on failure *)
Theorem read_hashes_err_nothing_saved N R h ix rt e s :
  1 <= h <= 30 -> 0 <= N <= 2 ^ 62 ->
  tile_read_hashes node_hash (N, R) h ix rt = (TErr e, s) -> s = None.
Proof.
  intros Hh HN H. destruct s as [sv|]; [|reflexivity].
  destruct (read_hashes_saved_implies_ok N R h ix rt _ sv Hh HN H) as [hs E]. discriminate.
Qed.

Theorem read_hashes_panic_nothing_saved N R h ix rt s :
  1 <= h <= 30 -> 0 <= N <= 2 ^ 62 ->
  tile_read_hashes node_hash (N, R) h ix rt = (TPanic, s) -> s = None.
Proof.
  intros Hh HN H. destruct s as [sv|]; [|reflexivity].
  destruct (read_hashes_saved_implies_ok N R h ix rt _ sv Hh HN H) as [hs E]. discriminate.
Qed.

End Extract.
