(* Tlog/TileProofsMerkle.v — facts about NodeAt (Merkle paths to aligned complete subtrees):
   bounds, descent to children and to aligned sub-blocks of a perfect tree, the decomposition
   of the root into the maximal complete subtrees (what TreeHash folds), the covering lemma,
   and NodeAt => true hash or explicit collision. *)
From Verif.Base Require Import Bytes.
From Verif.Tlog Require Import Index Tree Spec6962 ProofsIndex ProofsSpec ProofsTree Tile TileSpec.

Lemma Forall2_impl_in {A B} (P Q : A -> B -> Prop) l l' :
  (forall a b, In a l -> P a b -> Q a b) -> Forall2 P l l' -> Forall2 Q l l'.
Proof.
  intros H F. induction F as [|a b l l' Hab F IH]; constructor.
  - apply H; [left; reflexivity|exact Hab].
  - apply IH. intros x y Hx. apply H. right. exact Hx.
Qed.

Section Merkle.
Variable node_hash : hash -> hash -> hash.
Notation node_in := (node_in node_hash).
Notation NodeAt := (NodeAt node_hash).
Notation mtree := (mtree node_hash).

Lemma node_in_bounds R lo hi l o x :
  node_in R lo hi l o x -> 0 <= l -> lo <= o * 2 ^ l /\ (o + 1) * 2 ^ l <= hi.
Proof.
  induction 1 as [R lo hi l o Hlo Hhi | R lo hi l o x a b H2 HR Hle Hn IH | R lo hi l o x a b H2 HR Hle Hn IH];
    intros Hl.
  - lia.
  - specialize (IH Hl). pose proof (split_point_bounds (hi - lo) ltac:(lia)). lia.
  - specialize (IH Hl). pose proof (split_point_bounds (hi - lo) ltac:(lia)). lia.
Qed.

(* descent: the children of an authenticated node are authenticated *)
Lemma node_in_children R lo hi l o a b :
  0 <= l -> node_in R lo hi (l + 1) o (node_hash a b) ->
  node_in R lo hi l (2 * o) a /\ node_in R lo hi l (2 * o + 1) b.
Proof.
  intros Hl H.
  remember (l + 1) as l1 eqn:El. remember (node_hash a b) as x eqn:Ex.
  pose proof (pow2_pos l Hl) as Hp.
  assert (Hpow : 2 ^ (l + 1) = 2 * 2 ^ l) by (apply pow2_succ; lia).
  induction H as [R lo hi l1 o Hlo Hhi | R lo hi l1 o x a0 b0 H2 HR Hle Hn IH | R lo hi l1 o x a0 b0 H2 HR Hle Hn IH];
    subst l1.
  - subst R. rewrite Hpow in Hlo, Hhi.
    assert (Hsp : split_point (hi - lo) = 2 ^ l) by (apply split_point_unique; lia).
    split.
    + eapply ni_left with (a := a) (b := b); try reflexivity; try lia.
      rewrite Hsp. apply ni_here; lia.
    + eapply ni_right with (a := a) (b := b); try reflexivity; try lia.
      rewrite Hsp. apply ni_here; lia.
  - specialize (IH eq_refl Ex) as [IHa IHb]. rewrite Hpow in Hle.
    split; (eapply ni_left; [exact H2 | exact HR | | eassumption]); lia.
  - specialize (IH eq_refl Ex) as [IHa IHb]. rewrite Hpow in Hle.
    split; (eapply ni_right; [exact H2 | exact HR | | eassumption]); lia.
Qed.

Lemma NodeAt_children R N l o a b :
  NodeAt R N (l + 1) o (node_hash a b) -> 0 <= l ->
  NodeAt R N l (2 * o) a /\ NodeAt R N l (2 * o + 1) b.
Proof.
  intros [Hl1 [Ho H]] Hl. destruct (node_in_children R 0 N l o a b Hl H) as [Ha Hb].
  split; (split; [lia | split; [lia | assumption]]).
Qed.

(* ---------------------------------------------------------------- perfect trees over tile entries *)

Lemma firstn_skipn_firstn {A} (d : list A) m k n :
  (k + m <= n)%nat -> firstn m (skipn k (firstn n d)) = firstn m (skipn k d).
Proof.
  intros H. rewrite skipn_firstn_comm, firstn_firstn. f_equal. lia.
Qed.

Lemma pow2_nat_pos j : (0 < 2 ^ j)%nat.
Proof. induction j; cbn; lia. Qed.

Lemma pow2_nat_Z j : Z.of_nat (2 ^ j) = 2 ^ Z.of_nat j.
Proof.
  induction j as [|j IH]; [reflexivity|].
  rewrite Nat2Z.inj_succ, Z.pow_succ_r by lia. rewrite <- IH. cbn [Nat.pow]. lia.
Qed.

(* the sub-block s of size 2^j' of d (both in entries) *)
Definition block (d : str) (j' s : nat) : str := firstn (32 * 2 ^ j') (skipn (32 * 2 ^ j' * s) d).

Lemma mtree_blocks R N l : forall (j : nat) (d : str) (o : Z),
  0 <= l -> length d = (32 * 2 ^ j)%nat ->
  NodeAt R N (l + Z.of_nat j) o (mtree j d) ->
  forall (j' s : nat), (j' <= j)%nat -> (s < 2 ^ (j - j'))%nat ->
    NodeAt R N (l + Z.of_nat j') (o * 2 ^ Z.of_nat (j - j') + Z.of_nat s) (mtree j' (block d j' s)).
Proof.
  induction j as [|j IH]; intros d o Hl Hlen HN j' s Hj Hs.
  - assert (j' = O) by lia. subst j'. cbn in Hs. assert (s = O) by lia. subst s.
    unfold block. rewrite Nat.mul_0_r. cbn [skipn].
    rewrite <- Hlen, firstn_all. change (2 ^ Z.of_nat (0 - 0)) with 1.
    replace (o * 1 + Z.of_nat 0) with o by lia. exact HN.
  - destruct (Nat.eq_dec j' (S j)) as [->|Hne].
    + rewrite Nat.sub_diag in Hs. cbn in Hs. assert (s = O) by lia. subst s.
      unfold block. rewrite Nat.mul_0_r. cbn [skipn]. rewrite <- Hlen, firstn_all.
      rewrite Nat.sub_diag. change (2 ^ Z.of_nat 0) with 1.
      replace (o * 1 + Z.of_nat 0) with o by lia. exact HN.
    + assert (Hj' : (j' <= j)%nat) by lia.
      cbn [mtree] in HN.
      replace (l + Z.of_nat (S j)) with (l + Z.of_nat j + 1) in HN by lia.
      apply NodeAt_children in HN; [|lia]. destruct HN as [HA HB].
      set (n := (32 * 2 ^ j)%nat) in *.
      assert (Hn2 : length d = (n + n)%nat) by (rewrite Hlen; unfold n; cbn [Nat.pow]; lia).
      assert (Hsplit : (2 ^ (S j - j') = 2 ^ (j - j') + 2 ^ (j - j'))%nat).
      { replace (S j - j')%nat with (S (j - j')) by lia. cbn [Nat.pow]. lia. }
      assert (Hm : (32 * 2 ^ j' * 2 ^ (j - j') = n)%nat).
      { unfold n. rewrite <- Nat.mul_assoc, <- Nat.pow_add_r. do 2 f_equal. lia. }
      assert (HpZ : 2 ^ Z.of_nat (S j - j') = 2 * 2 ^ Z.of_nat (j - j')).
      { replace (Z.of_nat (S j - j')) with (Z.of_nat (j - j') + 1) by lia. apply pow2_succ. lia. }
      destruct (Nat.lt_ge_cases s (2 ^ (j - j'))) as [Hlt|Hge].
      * specialize (IH (firstn n d) (2 * o) Hl ltac:(rewrite firstn_length; lia) HA j' s Hj' Hlt).
        replace (block (firstn n d) j' s) with (block d j' s) in IH.
        2:{ unfold block. symmetry. apply firstn_skipn_firstn. rewrite <- Hm. nia. }
        rewrite HpZ. replace (o * (2 * 2 ^ Z.of_nat (j - j')) + Z.of_nat s)
          with (2 * o * 2 ^ Z.of_nat (j - j') + Z.of_nat s) by ring. exact IH.
      * specialize (IH (skipn n d) (2 * o + 1) Hl ltac:(rewrite skipn_length; lia) HB j'
                       (s - 2 ^ (j - j'))%nat Hj' ltac:(lia)).
        replace (block (skipn n d) j' (s - 2 ^ (j - j'))) with (block d j' s) in IH.
        2:{ unfold block. rewrite skipn_skipn'. do 2 f_equal. rewrite <- Hm. nia. }
        rewrite HpZ. rewrite (Nat2Z.inj_sub s (2 ^ (j - j'))) in IH by lia. rewrite pow2_nat_Z in IH.
        replace (o * (2 * 2 ^ Z.of_nat (j - j')) + Z.of_nat s)
          with ((2 * o + 1) * 2 ^ Z.of_nat (j - j') + (Z.of_nat s - 2 ^ Z.of_nat (j - j'))) by ring.
        exact IH.
Qed.

(* ---------------------------------------------------------------- the top-level blocks *)

Lemma Blocks_member lo hi bs l a :
  Blocks lo hi bs -> In (l, a) bs -> 0 <= l /\ lo <= a /\ a + 2 ^ l <= hi /\ (2 ^ l | a).
Proof.
  induction 1 as [lo|lo hi level rest Hl H1 H2 Hd HB IH]; intros Hin; [destruct Hin|].
  pose proof (pow2_pos level Hl).
  destruct Hin as [E|Hin].
  - injection E as -> ->. repeat split; try lia; assumption.
  - destruct (IH Hin) as [? [? [? ?]]]. pose proof (Blocks_lo_le _ _ _ HB).
    repeat split; try lia; assumption.
Qed.

(* every complete aligned subtree inside [lo, hi) lies inside one of the blocks *)
Lemma Blocks_cover lo hi bs lam a :
  Blocks lo hi bs -> 0 <= lam -> lo <= a * 2 ^ lam -> (a + 1) * 2 ^ lam <= hi ->
  exists lv b, In (lv, b) bs /\ lam <= lv /\ b <= a * 2 ^ lam /\ (a + 1) * 2 ^ lam <= b + 2 ^ lv.
Proof.
  intros HB Hlam. pose proof (pow2_pos lam Hlam) as Hp.
  induction HB as [lo|lo hi level rest Hl H1 H2 Hd HB IH]; intros Hlo Hhi; [lia|].
  pose proof (pow2_pos level Hl) as Hpl.
  destruct (Z_lt_le_dec level lam) as [Hlt|Hle].
  - (* the subtree is larger than anything left *)
    assert (2 * 2 ^ level <= 2 ^ lam).
    { replace (2 * 2 ^ level) with (2 ^ (level + 1)) by (rewrite pow2_succ; lia). apply pow2_le. lia. }
    lia.
  - destruct (Z_lt_le_dec (a * 2 ^ lam) (lo + 2 ^ level)) as [Hin|Hout].
    + exists level, lo. split; [left; reflexivity|]. split; [lia|]. split; [lia|].
      (* lo + 2^level is a multiple of 2^lam above a*2^lam *)
      destruct Hd as [c Hc].
      assert (Hpw : 2 ^ level = 2 ^ (level - lam) * 2 ^ lam) by (rewrite <- Z.pow_add_r by lia; f_equal; lia).
      pose proof (pow2_pos (level - lam) ltac:(lia)).
      set (q := (c + 1) * 2 ^ (level - lam)).
      assert (Hq : lo + 2 ^ level = q * 2 ^ lam) by (unfold q; nia).
      rewrite Hq in Hin |- *. assert (a < q) by nia. nia.
    + destruct (IH Hout Hhi) as [lv [b [Hb Hr]]]. exists lv, b. split; [right; exact Hb|exact Hr].
Qed.

Lemma Blocks_disjoint lo hi bs l1 a1 l2 a2 :
  Blocks lo hi bs -> In (l1, a1) bs -> In (l2, a2) bs ->
  (l1, a1) = (l2, a2) \/ a1 + 2 ^ l1 <= a2 \/ a2 + 2 ^ l2 <= a1.
Proof.
  induction 1 as [lo|lo hi level rest Hl H1 H2 Hd HB IH]; intros In1 In2; [destruct In1|].
  destruct In1 as [E1|In1], In2 as [E2|In2].
  - left. congruence.
  - injection E1 as <- <-. destruct (Blocks_member _ _ _ _ _ HB In2) as [_ [Hge _]]. right. left. lia.
  - injection E2 as <- <-. destruct (Blocks_member _ _ _ _ _ HB In1) as [_ [Hge _]]. right. right. lia.
  - apply IH; assumption.
Qed.

(* the fold of TreeHash authenticates each block hash *)
Lemma Blocks_fold_node_in lo hi bs :
  Blocks lo hi bs -> forall hs R, lo < hi -> length hs = length bs ->
  fold_hashes node_hash hs = Some R ->
  Forall2 (fun b h => node_in R lo hi (fst b) (snd b / 2 ^ fst b) h) bs hs.
Proof.
  induction 1 as [lo|lo hi level rest Hl H1 H2 Hd HB IH]; intros hs R Hlt Hlen Hf; [lia|].
  pose proof (pow2_pos level Hl) as Hp.
  destruct hs as [|h1 hs]; [discriminate|]. cbn [length] in Hlen.
  destruct Hd as [c Hc].
  assert (Hdiv : lo / 2 ^ level = c) by (subst lo; apply Z.div_mul; lia).
  destruct rest as [|b rest].
  - apply Blocks_nil_inv in HB. destruct hs; [|discriminate]. cbn in Hf. injection Hf as ->.
    constructor; [|constructor]. cbn [fst snd]. rewrite Hdiv. apply ni_here; lia.
  - destruct hs as [|h2 hs]; [discriminate|].
    assert (Hlt' : lo + 2 ^ level < hi).
    { inversion HB; subst. pose proof (pow2_pos level0 ltac:(assumption)). lia. }
    rewrite fold_hashes_cons2 in Hf.
    destruct (fold_hashes node_hash (h2 :: hs)) as [R'|] eqn:Ef; [|discriminate].
    cbn [option_map] in Hf. injection Hf as <-.
    assert (Hsp : split_point (hi - lo) = 2 ^ level) by (apply split_point_unique; lia).
    specialize (IH (h2 :: hs) R' Hlt' ltac:(cbn [length] in *; lia) Ef).
    constructor.
    + cbn [fst snd]. rewrite Hdiv.
      eapply ni_left with (a := h1) (b := R'); try reflexivity; try lia.
      rewrite Hsp. apply ni_here; lia.
    + revert IH. apply Forall2_impl_in.
      intros [l a] h Hin Hn. cbn [fst snd] in *.
      destruct (Blocks_member _ _ _ _ _ HB Hin) as [Hl0 [Hge [_ [q Hq]]]].
      pose proof (pow2_pos l Hl0).
      eapply ni_right with (a := h1) (b := R'); try reflexivity; try lia.
      * rewrite Hsp. subst a. rewrite Z.div_mul by lia. lia.
      * rewrite Hsp. exact Hn.
Qed.

End Merkle.
