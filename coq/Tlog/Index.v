(* Tlog/Index.v — model of the index arithmetic of /repo/sumdb/tlog/tlog.go (no hashing).
   Model file: no proofs here (see ProofsIndex.v).

   Exported names and types
     err_kind   := EInvalidInputs | EReader | EReadCount | EProofFailed | EMalformed | EFuel
                   (EInvalidInputs: "tlog: invalid inputs in …"; EReader: the HashReader returned an
                    error; EReadCount: the HashReader returned the wrong number of hashes;
                    EProofFailed: errProofFailed; EMalformed: errMalformedTree/Record, "malformed hash";
                    EFuel: the model ran out of fuel — never an implementation behaviour, excluded
                    by theorems under the guard 0 <= n < 2^62)
     res A      := Ok (a : A) | Err (k : err_kind) | Panic          (Panic = a Go panic)
     bind       : res A -> (A -> res B) -> res B
     maxpow2              : Z -> Z * Z            (k, l) as in Go, with the loop bound l < 62
     trailing_zeros64     : Z -> Z                bits.TrailingZeros64(uint64(x))
     trailing_ones64      : Z -> Z                number of trailing 1 bits of uint64(x)
     level_up             : Z -> Z -> Z           first loop of StoredHashIndex: n := 2n+1, level times
     sum_shifts           : Z -> Z                second loop: n + n>>1 + n>>2 + … while > 0
     stored_hash_index    : Z -> Z -> Z           (level n)
     split_fuel           : Z -> nat
     split_stored_hash_index : Z -> res (Z * Z)   Ok (level, n) | Panic ("bad math") | Err EFuel
     stored_hash_count    : Z -> Z
     range_fuel           : Z -> nat              fuel for the recursions on ranges [lo,hi): bits(hi-lo)+3
     sub_tree_split       : nat -> Z -> Z -> res (list (Z * Z))
                            the loop shared by subTreeIndex and subTreeHash: the (level, lo) of the
                            maximal complete subtrees covering [lo,hi), left to right; Panic on
                            misalignment ("bad math in subTreeIndex/subTreeHash")
     sub_tree_index       : Z -> Z -> list Z -> res (list Z)        (lo hi need)
     leaf_proof_index     : nat -> Z -> Z -> Z -> list Z -> res (list Z)   (fuel lo hi n need)
     tree_proof_index     : nat -> Z -> Z -> Z -> list Z -> res (list Z)   (fuel lo hi n need)
   Integers are unbounded Z; Go's int64 behaviour is mirrored for 0 <= n < 2^62 (theorems carry
   the guard).  Shifts n>>i are Z.shiftr (arithmetic, like Go on int64), x&y is Z.land,
   index/2 is Z.quot (Go truncates). *)
From Verif.Base Require Import Bytes.

Inductive err_kind :=
  EInvalidInputs | EReader | EReadCount | EProofFailed | EMalformed | EFuel.

Inductive res (A : Type) : Type :=
| Ok (a : A)
| Err (k : err_kind)
| Panic.
Arguments Ok {A} a.
Arguments Err {A} k.
Arguments Panic {A}.

Definition bind {A B : Type} (r : res A) (f : A -> res B) : res B :=
  match r with
  | Ok a => f a
  | Err k => Err k
  | Panic => Panic
  end.

(* func maxpow2(n int64) (k int64, l int):
     l = 0; for l < 62 && 1<<uint(l+1) < n { l++ }; return 1<<uint(l), l
   the loop carries k = 1<<l; the fuel 62 is the bound l < 62 *)
Fixpoint maxpow2_loop (fuel : nat) (k l n : Z) : Z * Z :=
  match fuel with
  | O => (k, l)
  | S f => if 2 * k <? n then maxpow2_loop f (2 * k) (l + 1) n else (k, l)
  end.

Definition maxpow2 (n : Z) : Z * Z := maxpow2_loop 62 1 0 n.

(* bits.TrailingZeros64(uint64(x)) and the loop `for i := uint64(x); i&1 != 0; i >>= 1` *)
Fixpoint tz_pos (p : positive) : Z :=
  match p with
  | xO q => 1 + tz_pos q
  | _ => 0
  end.

Fixpoint to_pos (p : positive) : Z :=
  match p with
  | xI q => 1 + to_pos q
  | xH => 1
  | xO _ => 0
  end.

Definition two64 : Z := 2 ^ 64.

Definition trailing_zeros64 (x : Z) : Z :=
  match x mod two64 with
  | Zpos p => tz_pos p
  | _ => 64
  end.

Definition trailing_ones64 (x : Z) : Z :=
  match x mod two64 with
  | Zpos p => to_pos p
  | _ => 0
  end.

(* func StoredHashIndex(level int, n int64) int64 *)
(* for l := level; l > 0; l-- { n = 2*n + 1 } *)
Definition level_up (level n : Z) : Z := Z.iter level (fun x => 2 * x + 1) n.

(* i := 0; for ; n > 0; n >>= 1 { i += n } *)
Fixpoint sum_shifts_pos (p : positive) : Z :=
  match p with
  | xH => 1
  | xO q => Zpos p + sum_shifts_pos q
  | xI q => Zpos p + sum_shifts_pos q
  end.

Definition sum_shifts (n : Z) : Z :=
  match n with
  | Zpos p => sum_shifts_pos p
  | _ => 0
  end.

Definition stored_hash_index (level n : Z) : Z :=
  sum_shifts (level_up level n) + level.

(* func SplitStoredHashIndex(index int64) (level int, n int64) *)
Fixpoint split_loop (fuel : nat) (index n indexN : Z) : option (Z * Z) :=
  match fuel with
  | O => None
  | S f =>
      let x := indexN + 1 + trailing_zeros64 (n + 1) in
      if index <? x then Some (n, indexN) else split_loop f index (n + 1) x
  end.

Definition split_fuel (index : Z) : nat := (Z.to_nat (Z.log2 index) + 4)%nat.

Definition split_stored_hash_index (index : Z) : res (Z * Z) :=
  let n := Z.quot index 2 in
  let indexN := stored_hash_index 0 n in
  if index <? indexN then Panic                       (* panic("bad math") *)
  else
    match split_loop (split_fuel index) index n indexN with
    | None => Err EFuel
    | Some (n', indexN') =>
        let level := index - indexN' in
        Ok (level, Z.shiftr n' level)
    end.

(* func StoredHashCount(n int64) int64 *)
Definition stored_hash_count (n : Z) : Z :=
  if n =? 0 then 0
  else stored_hash_index 0 (n - 1) + 1 + trailing_ones64 (n - 1).

(* fuel for loops and recursions over a range of the given size: number of bits + 3 *)
Definition range_fuel (size : Z) : nat := (Z.to_nat (Z.log2 size) + 4)%nat.

(* the loop of subTreeIndex and of subTreeHash:
     for lo < hi { k, level := maxpow2(hi-lo+1); if lo&(k-1) != 0 { panic }; …; lo += k } *)
Fixpoint sub_tree_split (fuel : nat) (lo hi : Z) : res (list (Z * Z)) :=
  if lo <? hi then
    match fuel with
    | O => Err EFuel
    | S f =>
        let (k, level) := maxpow2 (hi - lo + 1) in
        if Z.land lo (k - 1) =? 0
        then bind (sub_tree_split f (lo + k) hi) (fun r => Ok ((level, lo) :: r))
        else Panic
    end
  else Ok [].

Definition sub_tree_indexes (l : list (Z * Z)) : list Z :=
  map (fun p => stored_hash_index (fst p) (Z.shiftr (snd p) (fst p))) l.

(* func subTreeIndex(lo, hi int64, need []int64) []int64 *)
Definition sub_tree_index (lo hi : Z) (need : list Z) : res (list Z) :=
  bind (sub_tree_split (range_fuel (hi - lo)) lo hi)
       (fun l => Ok (need ++ sub_tree_indexes l)).

(* func leafProofIndex(lo, hi, n int64, need []int64) []int64 *)
Fixpoint leaf_proof_index (fuel : nat) (lo hi n : Z) (need : list Z) : res (list Z) :=
  match fuel with
  | O => Err EFuel
  | S f =>
      if negb ((lo <=? n) && (n <? hi)) then Panic
      else if lo + 1 =? hi then Ok need
      else
        let (k, _) := maxpow2 (hi - lo) in
        if n <? lo + k then
          bind (leaf_proof_index f lo (lo + k) n need)
               (fun need => sub_tree_index (lo + k) hi need)
        else
          bind (sub_tree_index lo (lo + k) need)
               (fun need => leaf_proof_index f (lo + k) hi n need)
  end.

(* func treeProofIndex(lo, hi, n int64, need []int64) []int64 *)
Fixpoint tree_proof_index (fuel : nat) (lo hi n : Z) (need : list Z) : res (list Z) :=
  match fuel with
  | O => Err EFuel
  | S f =>
      if negb ((lo <? n) && (n <=? hi)) then Panic
      else if n =? hi then
        if lo =? 0 then Ok need else sub_tree_index lo hi need
      else
        let (k, _) := maxpow2 (hi - lo) in
        if n <=? lo + k then
          bind (tree_proof_index f lo (lo + k) n need)
               (fun need => sub_tree_index (lo + k) hi need)
        else
          bind (sub_tree_index lo (lo + k) need)
               (fun need => tree_proof_index f (lo + k) hi n need)
  end.
