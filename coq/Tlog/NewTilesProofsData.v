(* Tlog/NewTilesProofsData.v — the content side of new_tiles_sufficient, and the composition with
   read_hashes_complete:
     read_tile_data_honest : ReadTileData of a tile of the tree, over a store that holds the hashes
       T, is the honest tile content (TileProofsHonest.honest_tile T);
     served_readers_succeed : a server holding (at least) the tiles published up to step j, with
       honest content, makes ReadHashes succeed with the true hashes for the size signed at step j;
     publisher_lets_readers_succeed : the publisher that, at every growth step, publishes exactly
       NewTiles(h, n_i, n_(i+1)) with the content ReadTileData reads from its store at that time. *)
From Verif.Base Require Import Bytes Sha256 Sha256Proofs.
From Verif.Tlog Require Import Index Tree Spec6962 ProofsIndex ProofsSpec ProofsTree ProofsStore Sha.
From Verif.Tlog Require Import Tile TileReader TileSpec TileProofs TileProofsArith TileProofsHonest TileProofsHonestRun
     TileProofsInst NewTilesProofs.

(* ---------------------------------------------------------------- ReadTileData over a true store *)

Lemma reader_of_map {A} (st : list hash) (f : A -> Z) (g : A -> hash) (l : list A) :
  (forall a, In a l -> 0 <= f a /\ nth_error st (Z.to_nat (f a)) = Some (g a)) ->
  reader_of st (map f l) = Some (map g l).
Proof.
  induction l as [|a l IH]; intros H; [reflexivity|].
  cbn [map reader_of]. destruct (H a (or_introl eq_refl)) as [H0 Hn].
  destruct (Z.ltb_spec (f a) 0); [lia|]. rewrite Hn, IH; [reflexivity|].
  intros b Hb. apply H. right. exact Hb.
Qed.

Theorem read_tile_data_honest (T : Z -> Z -> hash) N st h t :
  1 <= h -> 0 <= N -> store_holds T N st -> tree_tile h N t ->
  read_tile_data t (reader_of st) = TOk (honest_tile T t).
Proof.
  intros Hh HN Hst [EH [HL [HNt [HW [Hle _]]]]].
  unfold read_tile_data. destruct (Z.eqb_spec (tW t) 0); [lia|].
  destruct (Z.ltb_spec (tW t) 0); [lia|].
  rewrite EH. rewrite shl_mul by lia. unfold zrange. rewrite map_map. rewrite Z.sub_0_r.
  assert (HLh : 0 <= tL t * h) by nia.
  pose proof (pow2_pos h ltac:(lia)) as Hph. pose proof (pow2_pos (tL t * h) HLh) as HpL.
  rewrite (reader_of_map st _ (hentry T (tL t * h) (tN t * 2 ^ h))).
  - rewrite !map_length, Nat.eqb_refl. unfold honest_tile. rewrite EH. reflexivity.
  - intros i Hi. apply in_seq in Hi. rewrite (Z.mul_comm h (tL t)).
    set (o := tN t * 2 ^ h + (0 + Z.of_nat i)).
    assert (Ho : 0 <= o) by (unfold o; nia).
    assert (Hin : (o + 1) * 2 ^ (tL t * h) <= N).
    { rewrite (Z.mul_comm h (tL t)) in Hle.
      assert (o + 1 <= N / 2 ^ (tL t * h)) by (unfold o; lia).
      pose proof (Z.mul_div_le N (2 ^ (tL t * h)) HpL). nia. }
    split; [apply stored_hash_index_nonneg; lia|].
    rewrite (Hst (tL t * h) o HLh Ho Hin). unfold hentry, o. do 2 f_equal; lia.
Qed.

(* ---------------------------------------------------------------- a tile server *)

Fixpoint lookup_tile (t : tile) (pub : list (tile * str)) : option str :=
  match pub with
  | [] => None
  | (t', d) :: r => if tile_eqb t t' then Some d else lookup_tile t r
  end.

(* TileReader.ReadTiles of a server that holds the tiles pub: an error if one is missing *)
Fixpoint serve_tiles (pub : list (tile * str)) (ts : list tile) : option (list str) :=
  match ts with
  | [] => Some []
  | t :: r =>
      match lookup_tile t pub, serve_tiles pub r with
      | Some d, Some ds => Some (d :: ds)
      | _, _ => None
      end
  end.

Lemma lookup_tile_content (content : tile -> str) pub t :
  (forall t' d, In (t', d) pub -> d = content t') -> (exists d, In (t, d) pub) ->
  lookup_tile t pub = Some (content t).
Proof.
  intros Hc [d Hin]. induction pub as [|[t' d'] pub IH]; [destruct Hin|].
  cbn [lookup_tile]. destruct (tile_eqb t t') eqn:E.
  - apply tile_eqb_eq in E. subst t'. f_equal. apply Hc. left. reflexivity.
  - destruct Hin as [Heq|Hin].
    + injection Heq as -> _. rewrite tile_eqb_refl in E. discriminate.
    + apply IH; [|exact Hin]. intros t2 d2 H2. apply Hc. right. exact H2.
Qed.

Lemma serve_content (content : tile -> str) pub ts :
  (forall t' d, In (t', d) pub -> d = content t') ->
  Forall (fun t => exists d, In (t, d) pub) ts ->
  serve_tiles pub ts = Some (map content ts).
Proof.
  intros Hc. induction 1 as [|t ts Ht _ IH]; [reflexivity|].
  cbn [serve_tiles map]. rewrite (lookup_tile_content content pub t Hc Ht), IH. reflexivity.
Qed.

(* ReadHashes calls ReadTiles once, with the planned tiles *)
Lemma tile_read_hashes_ext nh tree h ix (rt1 rt2 : tile_reader) :
  (forall p, make_plan (fst tree) h ix = TOk p -> rt1 (p_tiles p) = rt2 (p_tiles p)) ->
  tile_read_hashes nh tree h ix rt1 = tile_read_hashes nh tree h ix rt2.
Proof.
  intros H. unfold tile_read_hashes. destruct ((h <? 1) || (62 <? h)); [reflexivity|].
  destruct (make_plan (fst tree) h ix) as [p| |]; try reflexivity.
  rewrite (H p eq_refl). reflexivity.
Qed.

Section Served.
Variable node_hash : hash -> hash -> hash.
Variable T : Z -> Z -> hash.
Hypothesis HT32 : forall lo hi, length (T lo hi) = 32%nat.

(* every reader of a signed size is served by what was published up to then *)
Theorem served_readers_succeed h ns j nj pub ix :
  1 <= h <= 30 -> growth ns -> nth_error ns j = Some nj -> 0 < nj <= 2 ^ 62 ->
  T_splits node_hash T nj ->
  (forall t, published h ns j t -> exists d, In (t, d) pub) ->
  (forall t d, In (t, d) pub -> d = honest_tile T t) ->
  Forall (fun x => 0 <= x < stored_hash_index 0 nj) ix ->
  exists sv, tile_read_hashes node_hash (nj, T 0 nj) h ix (serve_tiles pub) = (TOk (map (true_hash T) ix), Some sv).
Proof.
  intros Hh Hg Hj Hnj HT Hcomplete Hhonest Hix.
  rewrite (tile_read_hashes_ext node_hash (nj, T 0 nj) h ix (serve_tiles pub) (honest_rt T)).
  - apply (read_hashes_complete node_hash T nj HT HT32 Hnj h Hh ix Hix).
  - cbn [fst]. intros p Ep. unfold honest_rt. apply serve_content; [exact Hhonest|].
    pose proof (make_plan_tiles_in_tree nj h ix p ltac:(lia) ltac:(lia) Ep) as Htiles.
    revert Htiles. apply Forall_impl. intros t Ht. apply Hcomplete.
    apply (new_tiles_sufficient h ns ltac:(lia) Hg j nj t Hj Ht).
Qed.

End Served.

(* ---------------------------------------------------------------- the publisher *)

Section Publisher.
Variable leaf_hash : str -> hash.
Variable node_hash : hash -> hash -> hash.
Hypothesis Hleaf32 : forall r, length (leaf_hash r) = 32%nat.
Hypothesis Hnode32 : forall a b, length (node_hash a b) = 32%nat.
Notation range_hash := (range_hash leaf_hash node_hash).
Notation store_of := (store_of leaf_hash node_hash).

(* what the publisher reads for tile t when the log holds the first b records *)
Definition tile_content (recs : list str) (b : Z) (t : tile) : str :=
  match read_tile_data t (reader_of (store_of (firstn (Z.to_nat b) recs))) with
  | TOk d => d
  | _ => []
  end.

(* one publication step: exactly NewTiles(h, a, b) *)
Definition publish_step (h : Z) (recs : list str) (a b : Z) : list (tile * str) :=
  match new_tiles h a b with
  | TOk ts => map (fun t => (t, tile_content recs b t)) ts
  | _ => []
  end.

Fixpoint publish_all (h : Z) (recs : list str) (ns : list Z) : list (tile * str) :=
  match ns with
  | a :: r => match r with
              | b :: _ => publish_step h recs a b ++ publish_all h recs r
              | [] => []
              end
  | [] => []
  end.

Lemma range_hash_length recs lo hi : length (range_hash recs lo hi) = 32%nat.
Proof.
  unfold ProofsStore.range_hash, mth. apply mth_fuel_length; [exact Hnode32|].
  apply Forall_forall. intros x Hx. apply in_map_iff in Hx. destruct Hx as [r [<- _]]. apply Hleaf32.
Qed.

Lemma zlen_firstn {A} (l : list A) m : 0 <= m <= zlen l -> zlen (firstn (Z.to_nat m) l) = m.
Proof. intros H. unfold zlen in *. rewrite firstn_length. lia. Qed.

(* the hash of a range of records does not depend on later records *)
Lemma range_hash_prefix recs m lo hi :
  0 <= lo <= hi -> hi <= m <= zlen recs ->
  range_hash (firstn (Z.to_nat m) recs) lo hi = range_hash recs lo hi.
Proof.
  intros H1 H2. unfold ProofsStore.range_hash. do 2 f_equal.
  pose proof (slice_app_l (firstn (Z.to_nat m) recs) (skipn (Z.to_nat m) recs) lo (hi - lo)
                ltac:(lia) ltac:(lia) ltac:(rewrite zlen_firstn; lia)) as E.
  rewrite firstn_skipn in E. symmetry. exact E.
Qed.

Lemma tile_content_honest h recs b t :
  1 <= h -> 0 <= b <= zlen recs -> zlen recs < 2 ^ 62 -> tree_tile h b t ->
  read_tile_data t (reader_of (store_of (firstn (Z.to_nat b) recs))) = TOk (honest_tile (range_hash recs) t) /\
  tile_content recs b t = honest_tile (range_hash recs) t.
Proof.
  intros Hh Hb Hlen Ht.
  set (pre := firstn (Z.to_nat b) recs).
  assert (Hzp : zlen pre = b) by (apply zlen_firstn; lia).
  destruct (store_of_inv leaf_hash node_hash pre ltac:(lia)) as [Hst _]. rewrite Hzp in Hst.
  pose proof (read_tile_data_honest (range_hash pre) b (store_of pre) h t Hh ltac:(lia) Hst Ht) as E.
  assert (Esame : honest_tile (range_hash pre) t = honest_tile (range_hash recs) t).
  { destruct Ht as [EH [HL [HNt [HW [Hle _]]]]]. unfold honest_tile. f_equal.
    apply map_ext_in. intros i Hi. apply in_seq in Hi. unfold hentry.
    assert (HLh : 0 <= tL t * tH t) by nia.
    pose proof (pow2_pos (tH t) ltac:(lia)) as Hph. pose proof (pow2_pos (tL t * tH t) HLh) as HpL.
    rewrite EH in *. rewrite (Z.mul_comm h (tL t)) in Hle.
    set (o := tN t * 2 ^ h + Z.of_nat i).
    assert (Hin : (o + 1) * 2 ^ (tL t * h) <= b).
    { assert (o + 1 <= b / 2 ^ (tL t * h)) by (unfold o; lia).
      pose proof (Z.mul_div_le b (2 ^ (tL t * h)) HpL). nia. }
    assert (Ho : 0 <= o) by (unfold o; nia).
    apply range_hash_prefix; nia. }
  unfold tile_content. fold pre. rewrite E, Esame. split; reflexivity.
Qed.

(* ReadTileData over the store built by appending the records, for a tile of that tree *)
Theorem read_tile_data_store_of h recs t :
  1 <= h -> zlen recs < 2 ^ 62 -> tree_tile h (zlen recs) t ->
  read_tile_data t (reader_of (store_of recs)) = TOk (honest_tile (range_hash recs) t).
Proof.
  intros Hh Hlen Ht. pose proof (zlen_nonneg recs) as H0.
  destruct (tile_content_honest h recs (zlen recs) t Hh ltac:(lia) Hlen Ht) as [E _].
  unfold zlen in E. rewrite Nat2Z.id, firstn_all in E. exact E.
Qed.

Lemma in_publish_step h recs a b t d :
  In (t, d) (publish_step h recs a b) <->
  exists ts, new_tiles h a b = TOk ts /\ In t ts /\ d = tile_content recs b t.
Proof.
  unfold publish_step. split.
  - intros H. destruct (new_tiles h a b) as [ts| |]; try (destruct H).
    apply in_map_iff in H. destruct H as [t' [[= -> <-] Hin]]. exists ts. auto.
  - intros [ts [E [Hin ->]]]. rewrite E. apply in_map_iff. exists t. auto.
Qed.

Lemma in_publish_all h recs : forall ns t d,
  In (t, d) (publish_all h recs ns) <->
  exists i a b, nth_error ns i = Some a /\ nth_error ns (S i) = Some b /\ In (t, d) (publish_step h recs a b).
Proof.
  induction ns as [|a r IH]; intros t d.
  - split; [intros []|]. intros [i [a [b [H _]]]]. destruct i; discriminate.
  - cbn [publish_all]. destruct r as [|b r'].
    + split; [intros []|]. intros [i [a' [b' [_ [H _]]]]]. destruct i as [|[|i]]; discriminate.
    + rewrite in_app_iff, IH. split.
      * intros [H|[i [a' [b' [H1 [H2 H3]]]]]].
        -- exists O, a, b. auto.
        -- exists (S i), a', b'. auto.
      * intros [i [a' [b' [H1 [H2 H3]]]]]. destruct i as [|i].
        -- cbn in H1, H2. injection H1 as <-. injection H2 as <-. left. exact H3.
        -- right. exists i, a', b'. auto.
Qed.

Lemma nth_error_firstn {A} (l : list A) m i : (i < m)%nat -> nth_error (firstn m l) i = nth_error l i.
Proof.
  revert l i. induction m as [|m IH]; intros l i H; [lia|].
  destruct l as [|x l]; [reflexivity|]. destruct i as [|i]; [reflexivity|]. cbn. apply IH. lia.
Qed.

Lemma nth_error_firstn_some {A} (l : list A) m i a : nth_error (firstn m l) i = Some a -> (i < m)%nat /\ nth_error l i = Some a.
Proof.
  intros H. assert (Hi : (i < length (firstn m l))%nat) by (apply nth_error_Some; congruence).
  rewrite firstn_length in Hi. assert (i < m)%nat by lia. split; [assumption|].
  rewrite <- H. symmetry. apply nth_error_firstn. assumption.
Qed.

(* new_tiles_sufficient, end to end: records recs, sizes ns signed one after the other; what the
   publisher has put out after m steps serves every reader of every size signed so far *)
Theorem publisher_lets_readers_succeed h recs ns (m j : nat) nj ix :
  1 <= h <= 30 -> zlen recs < 2 ^ 62 -> growth ns -> Forall (fun n => n <= zlen recs) ns ->
  (j < m)%nat -> nth_error ns j = Some nj -> 0 < nj ->
  Forall (fun x => 0 <= x < stored_hash_index 0 nj) ix ->
  exists sv,
    tile_read_hashes node_hash (nj, mth node_hash (map leaf_hash (firstn (Z.to_nat nj) recs))) h ix
                     (serve_tiles (publish_all h recs (firstn m ns)))
    = (TOk (map (true_hash (range_hash recs)) ix), Some sv).
Proof.
  intros Hh Hlen Hg Hle Hjm Hj Hnj Hix.
  assert (Hnjle : nj <= zlen recs).
  { rewrite Forall_forall in Hle. apply Hle. eapply nth_error_In. exact Hj. }
  assert (Eroot : mth node_hash (map leaf_hash (firstn (Z.to_nat nj) recs)) = range_hash recs 0 nj).
  { unfold ProofsStore.range_hash. rewrite Z.sub_0_r. reflexivity. }
  rewrite Eroot.
  apply (served_readers_succeed node_hash (range_hash recs) (range_hash_length recs) h ns j nj); try assumption.
  - assert (2 ^ 61 < 2 ^ 62) by (apply pow2_lt; lia). lia.
  - apply (T_splits_le node_hash (range_hash recs) (zlen recs)); [apply range_hash_splits|exact Hnjle].
  - (* complete: every tile published up to step j is held *)
    intros t [i [a [b [ts [Hi [Ea [Eb [Ets Hin]]]]]]]].
    exists (tile_content recs b t). apply in_publish_all. exists i, a, b.
    rewrite !nth_error_firstn by lia. split; [exact Ea|]. split; [exact Eb|].
    apply in_publish_step. exists ts. auto.
  - (* honest: what ReadTileData read at publication time is the true content *)
    intros t d Hin. apply in_publish_all in Hin. destruct Hin as [i [a [b [Ea [Eb Hin]]]]].
    apply nth_error_firstn_some in Ea, Eb. destruct Ea as [_ Ea]. destruct Eb as [_ Eb].
    apply in_publish_step in Hin. destruct Hin as [ts [Ets [Hin ->]]].
    pose proof (growth_nonneg ns Hg i a Ea) as Ha0. pose proof Hg as [_ [Hm _]].
    pose proof (Hm i a b Ea Eb) as Hab.
    assert (Hble : b <= zlen recs).
    { rewrite Forall_forall in Hle. apply Hle. eapply nth_error_In. exact Eb. }
    apply (tile_content_honest h recs b t ltac:(lia) ltac:(lia) Hlen).
    apply (new_tile_is_tree_tile h a b t ltac:(lia) ltac:(lia)).
    apply (new_tiles_in h a b ts t ltac:(lia) ltac:(lia) Ets). exact Hin.
Qed.

End Publisher.

(* SHA-256: the real log *)
Theorem publisher_lets_readers_succeed_sha256 h recs ns (m j : nat) nj ix :
  1 <= h <= 30 -> zlen recs < 2 ^ 62 -> growth ns -> Forall (fun n => n <= zlen recs) ns ->
  (j < m)%nat -> nth_error ns j = Some nj -> 0 < nj ->
  Forall (fun x => 0 <= x < stored_hash_index 0 nj) ix ->
  exists sv,
    tile_read_hashes node_hash_sha (nj, mth node_hash_sha (map record_hash (firstn (Z.to_nat nj) recs))) h ix
                     (serve_tiles (publish_all record_hash node_hash_sha h recs (firstn m ns)))
    = (TOk (map (true_hash (sha_range recs)) ix), Some sv).
Proof.
  apply publisher_lets_readers_succeed.
  - intros r. apply sha256_length.
  - intros a b. apply sha256_length.
Qed.
