(* Tlog/TileProofsPlan.v — invariants of the planning phases of tile_read_hashes
   (plan_stx, find_parent, walk_down, plan_indexes): tileOrder is consistent with tiles,
   phase-1 tiles are pairwise distinct and each is the tile of some tree-hash index,
   phase-2 tiles are full tiles obtained by tile_parent, positions recorded for the indexes
   hold tile_parent (tile_for_index h x) 0 N. *)
From Verif.Base Require Import Bytes.
From Verif.Tlog Require Import Index Tree Tile TileReader TileProofs TileProofsArith.

Definition ord_ok (ord : order) (tiles : list tile) : Prop :=
  forall t j, In (t, j) ord -> nth_error tiles j = Some t.

Definition ord_full (ord : order) (tiles : list tile) : Prop :=
  forall j t, nth_error tiles j = Some t -> lookup t ord = Some j.

Lemma lookup_in t ord j : lookup t ord = Some j -> In (t, j) ord.
Proof.
  induction ord as [|[t' j'] ord IH]; cbn [lookup]; [discriminate|].
  destruct (tile_eqb t t') eqn:E.
  - apply tile_eqb_eq in E. intros [= ->]. left. congruence.
  - intros H. right. apply IH. exact H.
Qed.

Lemma ord_ok_app ord tiles ext : ord_ok ord tiles -> ord_ok ord (tiles ++ ext).
Proof.
  intros H t j Hin. specialize (H t j Hin).
  rewrite nth_error_app1; [exact H|]. apply nth_error_Some. congruence.
Qed.

Lemma ord_ok_cons ord tiles t : ord_ok ord tiles -> ord_ok ((t, length tiles) :: ord) (tiles ++ [t]).
Proof.
  intros H t' j [E|Hin].
  - injection E as <- <-. rewrite nth_error_app2 by lia. rewrite Nat.sub_diag. reflexivity.
  - apply (ord_ok_app ord tiles [t] H). exact Hin.
Qed.

Lemma ord_full_cons ord tiles t :
  ord_full ord tiles -> lookup t ord = None -> ord_full ((t, length tiles) :: ord) (tiles ++ [t]).
Proof.
  intros H Hn j t' Hj. cbn [lookup].
  destruct (Nat.lt_ge_cases j (length tiles)) as [Hlt|Hge].
  - rewrite nth_error_app1 in Hj by exact Hlt. specialize (H j t' Hj).
    destruct (tile_eqb t' t) eqn:E; [|exact H].
    apply tile_eqb_eq in E. subst t'. congruence.
  - rewrite nth_error_app2 in Hj by exact Hge.
    destruct (j - length tiles)%nat as [|m] eqn:Em.
    + cbn in Hj. injection Hj as <-. rewrite tile_eqb_refl. f_equal. lia.
    + cbn in Hj. destruct m; discriminate.
Qed.

Lemma ord_full_unique ord tiles q q' t :
  ord_full ord tiles -> nth_error tiles q = Some t -> nth_error tiles q' = Some t -> q = q'.
Proof. intros H H1 H2. pose proof (H _ _ H1). pose proof (H _ _ H2). congruence. Qed.

(* x's tile in a tree of size N *)
Definition stx_tile (h N x : Z) (t : tile) : Prop :=
  exists t0 s e, tile_for_index h x = TOk (t0, s, e) /\ t = tile_parent t0 0 N.

Lemma plan_stx_spec h N : forall stx ord tiles ord' tiles' js,
  plan_stx h N stx ord tiles = TOk (ord', tiles', js) ->
  ord_ok ord tiles -> ord_full ord tiles ->
  ord_ok ord' tiles' /\ ord_full ord' tiles' /\
  (exists ext, tiles' = tiles ++ ext) /\
  Forall2 (fun x j => exists t, stx_tile h N x t /\ nth_error tiles' j = Some t) stx js /\
  (forall q, (length tiles <= q < length tiles')%nat -> In q js).
Proof.
  induction stx as [|x r IH]; intros ord tiles ord' tiles' js H Hok Hfull.
  - cbn in H. injection H as <- <- <-. split; [exact Hok|]. split; [exact Hfull|].
    split; [exists []; rewrite app_nil_r; reflexivity|]. split; [constructor|]. intros q Hq. lia.
  - cbn [plan_stx] in H. apply tbind_ok in H. destruct H as [[[t0 s] e] [Htfi H]]. cbn [fst snd] in H.
    set (t := tile_parent t0 0 N) in *.
    assert (Hst : stx_tile h N x t) by (exists t0, s, e; split; [exact Htfi|reflexivity]).
    destruct (lookup t ord) as [j|] eqn:El.
    + apply tbind_ok in H. destruct H as [[[o1 t1] j1] [Hrec H]]. cbn [fst snd] in H.
      injection H as <- <- <-.
      destruct (IH _ _ _ _ _ Hrec Hok Hfull) as [Hok' [Hfull' [[ext Hext] [HF Hq]]]].
      split; [exact Hok'|]. split; [exact Hfull'|]. split; [exists ext; exact Hext|]. split.
      * constructor; [|exact HF]. exists t. split; [exact Hst|].
        subst t1. apply lookup_in in El. apply (ord_ok_app _ _ ext Hok) in El. exact El.
      * intros q Hqr. right. apply Hq. exact Hqr.
    + apply tbind_ok in H. destruct H as [[[o1 t1] j1] [Hrec H]]. cbn [fst snd] in H.
      injection H as <- <- <-.
      destruct (IH _ _ _ _ _ Hrec (ord_ok_cons _ _ t Hok) (ord_full_cons _ _ t Hfull El))
        as [Hok' [Hfull' [[ext Hext] [HF Hq]]]].
      split; [exact Hok'|]. split; [exact Hfull'|].
      split; [exists (t :: ext); rewrite Hext, <- app_assoc; reflexivity|]. split.
      * constructor; [|exact HF]. exists t. split; [exact Hst|].
        rewrite Hext, <- app_assoc. rewrite nth_error_app2 by lia. rewrite Nat.sub_diag. reflexivity.
      * intros q Hqr. rewrite app_length in Hq. cbn [length] in Hq.
        destruct (Nat.eq_dec q (length tiles)) as [->|Hne]; [left; reflexivity|].
        right. apply Hq. lia.
Qed.

Lemma find_parent_spec : forall fuel t k0 N ord k j,
  find_parent fuel t k0 N ord = Some (k, j) ->
  lookup (tile_parent t (Z.of_nat k) N) ord = Some j.
Proof.
  induction fuel as [|f IH]; intros t k0 N ord k j H; [discriminate|].
  cbn [find_parent] in H.
  destruct (lookup (tile_parent t (Z.of_nat k0) N) ord) as [j0|] eqn:El.
  - injection H as <- <-. exact El.
  - apply IH in H. exact H.
Qed.

(* a tile added in phase 2: full, and a parent of x's tile *)
Definition chain_tile (N : Z) (t0 : tile) (t : tile) : Prop :=
  tW t = 2 ^ tH t /\ exists k, t = tile_parent t0 (Z.of_nat k) N.

Lemma walk_down_spec t0 N : forall k ord tiles ito ord' tiles' ito',
  walk_down t0 N k ord tiles ito = TOk (ord', tiles', ito') -> ord_ok ord tiles ->
  ord_ok ord' tiles' /\ (exists ext, tiles' = tiles ++ ext /\ Forall (chain_tile N t0) ext) /\
  (k <> O -> nth_error tiles' ito' = Some (tile_parent t0 0 N)) /\ (k = O -> ito' = ito).
Proof.
  induction k as [|k IH]; intros ord tiles ito ord' tiles' ito' H Hok.
  - cbn in H. injection H as <- <- <-. split; [exact Hok|].
    split; [exists []; rewrite app_nil_r; split; [reflexivity|constructor]|]. split; [congruence|reflexivity].
  - cbn [walk_down] in H. set (p := tile_parent t0 (Z.of_nat k) N) in *.
    destruct (Z.eqb_spec (tW p) (2 ^ tH p)) as [Hw|]; [|discriminate]. cbn [negb] in H.
    destruct (IH _ _ _ _ _ _ H (ord_ok_cons _ _ p Hok)) as [Hok' [[ext [Hext Hch]] [Hk1 Hk0]]].
    split; [exact Hok'|]. split.
    + exists (p :: ext). split; [rewrite Hext, <- app_assoc; reflexivity|].
      constructor; [|exact Hch]. split; [exact Hw|]. exists k. reflexivity.
    + split; [|congruence]. intros _. destruct k as [|k'].
      * rewrite (Hk0 eq_refl). rewrite Hext, <- app_assoc. rewrite nth_error_app2 by lia.
        rewrite Nat.sub_diag. reflexivity.
      * apply Hk1. congruence.
Qed.

(* position j holds x's tile *)
Definition index_at (h N : Z) (tiles : list tile) (x : Z) (j : nat) : Prop :=
  x < stored_hash_index 0 N /\
  exists t0 s e, tile_for_index h x = TOk (t0, s, e) /\ nth_error tiles j = Some (tile_parent t0 0 N).

Definition phase2_tile (h N : Z) (t : tile) : Prop :=
  exists x t0 s e, x < stored_hash_index 0 N /\ tile_for_index h x = TOk (t0, s, e) /\ chain_tile N t0 t.

Lemma index_at_app h N tiles ext x j : index_at h N tiles x j -> index_at h N (tiles ++ ext) x j.
Proof.
  intros [Hx [t0 [s [e [Ht Hn]]]]]. split; [exact Hx|]. exists t0, s, e. split; [exact Ht|].
  rewrite nth_error_app1; [exact Hn|]. apply nth_error_Some. congruence.
Qed.

Lemma plan_indexes_spec h N : forall ixs ord tiles ord' tiles' js,
  plan_indexes h N ixs ord tiles = TOk (ord', tiles', js) -> ord_ok ord tiles ->
  ord_ok ord' tiles' /\ (exists ext, tiles' = tiles ++ ext /\ Forall (phase2_tile h N) ext) /\
  Forall2 (index_at h N tiles') ixs js.
Proof.
  induction ixs as [|x r IH]; intros ord tiles ord' tiles' js H Hok.
  - cbn in H. injection H as <- <- <-. split; [exact Hok|].
    split; [exists []; rewrite app_nil_r; split; [reflexivity|constructor]|constructor].
  - cbn [plan_indexes] in H.
    destruct (Z.leb_spec (stored_hash_index 0 N) x) as [|Hx]; [discriminate|].
    apply tbind_ok in H. destruct H as [[[t0 s] e] [Htfi H]]. cbn [fst snd] in H.
    destruct (find_parent find_fuel t0 0 N ord) as [[k j]|] eqn:Ef; [|discriminate].
    apply tbind_ok in H. destruct H as [[[o1 t1] i1] [Hw H]]. cbn [fst snd] in H.
    apply tbind_ok in H. destruct H as [[[o2 t2] j2] [Hrec H]]. cbn [fst snd] in H.
    injection H as <- <- <-.
    destruct (walk_down_spec _ _ _ _ _ _ _ _ _ Hw Hok) as [Hok1 [[ext1 [Hext1 Hch]] [Hk1 Hk0]]].
    destruct (IH _ _ _ _ _ Hrec Hok1) as [Hok2 [[ext2 [Hext2 Hp2]] HF]].
    split; [exact Hok2|]. split.
    + exists (ext1 ++ ext2). split; [rewrite Hext2, Hext1, <- app_assoc; reflexivity|].
      apply Forall_app. split; [|exact Hp2].
      revert Hch. apply Forall_impl. intros t Ht. exists x, t0, s, e. auto.
    + constructor; [|exact HF].
      rewrite Hext2. apply index_at_app. split; [exact Hx|]. exists t0, s, e. split; [exact Htfi|].
      destruct k as [|k'].
      * rewrite (Hk0 eq_refl). apply find_parent_spec in Ef. apply lookup_in in Ef.
        rewrite Hext1. apply (ord_ok_app _ _ ext1 Hok) in Ef. exact Ef.
      * apply Hk1. congruence.
Qed.
