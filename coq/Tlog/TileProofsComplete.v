(* Tlog/TileProofsComplete.v — the planning phase of ReadHashes never fails on valid input:
   for 1 <= h, 0 < N <= 2^62 and positions 0 <= x < StoredHashIndex(0, N), make_plan returns a
   plan: the parent search ends within its fuel (Go's `for ; ; k++` terminates), every tile on
   the way down is full (no "bad math in tileHashReader"), nothing panics. *)
From Verif.Base Require Import Bytes.
From Verif.Tlog Require Import Index Tree Spec6962 ProofsIndex ProofsSpec ProofsTree.
From Verif.Tlog Require Import Tile TileReader TileSpec TileProofs TileProofsMerkle TileProofsArith TileProofsPlan TileProofsSound.

Lemma tile_for_index_ok h x :
  1 <= h -> 0 <= x < 2 ^ 63 -> exists t s e, tile_for_index h x = TOk (t, s, e).
Proof.
  intros Hh Hx. unfold tile_for_index. destruct (Z.leb_spec h 0); [lia|].
  destruct (index_split x Hx) as [l [o [Hs _]]]. rewrite Hs. cbn [lift_res tbind]. eauto.
Qed.

Lemma Forall2_in_l {A B} (P : A -> B -> Prop) l l' a :
  Forall2 P l l' -> In a l -> exists b, In b l' /\ P a b.
Proof.
  induction 1 as [|x y l l' Hxy F IH]; intros Hin; [destruct Hin|].
  destruct Hin as [->|Hin]; [exists y; split; [left; reflexivity|exact Hxy]|].
  destruct (IH Hin) as [b [Hb Hp]]. exists b. split; [right; exact Hb|exact Hp].
Qed.

(* ---------------------------------------------------------------- the parent chain in leaf coordinates *)

(* x's tile and its parents, described by the first leaf a = o*2^l of x's subtree *)
Lemma parent_chain_shape h N x t0 s e :
  tile_for_index h x = TOk (t0, s, e) -> 0 <= x < 2 ^ 63 -> 0 <= N ->
  exists l o, 0 <= l /\ 0 <= o /\ stored_hash_index l o = x /\ 1 <= h /\ tH t0 = h /\ 0 <= tL t0 /\
    tL t0 = l / h /\
    forall k, 0 <= k ->
      let Lk := tL t0 + k in
      let nk := (o * 2 ^ l) / 2 ^ ((Lk + 1) * h) in
      let mx := N / 2 ^ (Lk * h) in
      0 <= nk /\
      (mx <= nk * 2 ^ h -> tile_parent t0 k N = no_tile) /\
      (nk * 2 ^ h < mx -> tile_parent t0 k N = mkTile h Lk nk (Z.min (2 ^ h) (mx - nk * 2 ^ h))).
Proof.
  intros Htfi Hx HN.
  destruct (tile_for_index_spec _ _ _ _ _ Htfi Hx)
    as [l [o [j [n' [Hs [Hl [Ho [Hidx [Hh1 [HH0 [HL0 [Hj [Hlj [HN0 [Hn' [HW [Es [Ee [Hco [Hle [EL EN]]]]]]]]]]]]]]]]]]]]].
  exists l, o. repeat (split; [first [assumption | lia]|]).
  intros k Hk Lk nk mx.
  pose proof (tile_parent_spec t0 k N ltac:(lia) Hk HL0 HN0 HN) as Hps. cbv zeta in Hps. rewrite HH0 in Hps.
  fold Lk in Hps. fold mx in Hps.
  assert (HLh : 0 <= tL t0 * h) by (apply Z.mul_nonneg_nonneg; lia).
  assert (Hkh : 0 <= k * h) by (apply Z.mul_nonneg_nonneg; lia).
  pose proof (pow2_pos j ltac:(lia)). pose proof (pow2_pos h ltac:(lia)).
  pose proof (pow2_pos (tL t0 * h) HLh). pose proof (pow2_pos (k * h) Hkh).
  assert (Enk : tN t0 / 2 ^ (k * h) = nk).
  { unfold nk. rewrite EN.
    assert (E1 : 2 ^ l = 2 ^ j * 2 ^ (tL t0 * h)) by (rewrite Hlj, Z.add_comm; apply pow2_mul; lia).
    assert (E2 : 2 ^ ((Lk + 1) * h) = 2 ^ (tL t0 * h) * 2 ^ h * 2 ^ (k * h)).
    { unfold Lk. replace ((tL t0 + k + 1) * h) with (tL t0 * h + h + k * h) by ring.
      rewrite !pow2_mul by lia. reflexivity. }
    rewrite E1, E2. rewrite Z.mul_assoc.
    rewrite <- (Z.mul_assoc (2 ^ (tL t0 * h))). rewrite (Z.mul_comm (2 ^ (tL t0 * h))).
    rewrite Z.div_mul_cancel_r by lia. rewrite Z.div_div by lia. reflexivity. }
  rewrite Enk in Hps.
  split; [unfold nk; apply Z.div_pos; [nia|apply pow2_pos; unfold Lk; nia]|exact Hps].
Qed.

(* a parent whose group of leaves lies inside a complete block of the tree is a full tile *)
Lemma group_inside_block N h a Lk lv' lo' :
  1 <= h -> 0 <= Lk -> 0 <= a -> (2 ^ lv' | lo') -> 0 <= lo' -> lo' <= a < lo' + 2 ^ lv' -> lo' + 2 ^ lv' <= N ->
  (Lk + 1) * h <= lv' ->
  let nk := a / 2 ^ ((Lk + 1) * h) in
  (nk + 1) * 2 ^ h <= N / 2 ^ (Lk * h).
Proof.
  intros Hh HLk Ha [c Hc] Hlo0 Hin Htop HM nk.
  set (M := (Lk + 1) * h) in *.
  assert (HM0 : 0 <= M) by (unfold M; nia).
  assert (HLh : 0 <= Lk * h) by nia.
  pose proof (pow2_pos M HM0) as HpM. pose proof (pow2_pos (Lk * h) HLh) as HpL.
  pose proof (pow2_pos h ltac:(lia)) as Hph. pose proof (pow2_pos (lv' - M) ltac:(lia)) as Hpd.
  assert (E : 2 ^ lv' = 2 ^ (lv' - M) * 2 ^ M) by (apply pow2_split; lia).
  assert (EM : 2 ^ M = 2 ^ h * 2 ^ (Lk * h)).
  { unfold M. replace ((Lk + 1) * h) with (h + Lk * h) by ring. apply pow2_mul; lia. }
  assert (Hnk : nk < (c + 1) * 2 ^ (lv' - M)).
  { unfold nk. apply Z.div_lt_upper_bound; [lia|]. rewrite Hc, E in Hin. nia. }
  assert (Hle : (nk + 1) * 2 ^ M <= lo' + 2 ^ lv') by (rewrite Hc, E; nia).
  apply Z.div_le_lower_bound; [lia|]. rewrite EM in Hle. nia.
Qed.

Section Complete.
Variables (h N : Z) (bs : list (Z * Z)).
Hypothesis Hh : 1 <= h.
Hypothesis HN : 0 <= N <= 2 ^ 62.
Hypothesis HB : Blocks 0 N bs.

(* tileOrder knows the tile of every block of the tree-hash decomposition *)
Definition covers (ord : order) : Prop :=
  forall lv lo t0 s e, In (lv, lo) bs ->
    tile_for_index h (stored_hash_index lv (Z.shiftr lo lv)) = TOk (t0, s, e) ->
    lookup (tile_parent t0 0 N) ord <> None.

Lemma covers_cons ord p j : covers ord -> covers ((p, j) :: ord).
Proof.
  intros H lv lo t0 s e Hin Ht. specialize (H lv lo t0 s e Hin Ht). cbn [lookup].
  destruct (tile_eqb (tile_parent t0 0 N) p); [discriminate|exact H].
Qed.

(* the chain of parents of a valid position: full tiles up to a tile of the tree hash *)
Lemma chain_reaches_stx x t0 s e ord :
  covers ord -> 0 <= x < stored_hash_index 0 N -> tile_for_index h x = TOk (t0, s, e) ->
  exists K : nat, (K <= 63)%nat /\ lookup (tile_parent t0 (Z.of_nat K) N) ord <> None /\
    forall k' : nat, (k' < K)%nat ->
      tW (tile_parent t0 (Z.of_nat k') N) = 2 ^ tH (tile_parent t0 (Z.of_nat k') N).
Proof.
  intros Hcov Hx Htfi.
  pose proof (shi0_bound' N x HN ltac:(lia)) as Hx63.
  destruct (parent_chain_shape h N x t0 s e Htfi ltac:(lia) ltac:(lia))
    as [l [o [Hl [Ho [Hidx [_ [HH0 [HL0 [EL Hchain]]]]]]]]].
  assert (Hin : (o + 1) * 2 ^ l <= N) by (apply index_lt_count_inv; try lia; rewrite Hidx; unfold first_index; lia).
  pose proof (pow2_pos l Hl) as Hpl.
  (* the block of the tree-hash decomposition that contains the subtree (l, o) *)
  destruct (Blocks_cover 0 N bs l o HB Hl ltac:(nia) Hin) as [lv' [lo' [Hin' [Hll [Hlo' Hhi']]]]].
  destruct (Blocks_member _ _ _ _ _ HB Hin') as [Hlv' [Hlo0 [Htop [c' Hc']]]].
  pose proof (pow2_pos lv' Hlv') as Hplv'.
  assert (Hc0 : 0 <= c') by nia.
  assert (Hlv62 : lv' <= 62).
  { destruct (Z_le_gt_dec lv' 62) as [|Hgt]; [assumption|]. exfalso.
    assert (2 ^ 63 <= 2 ^ lv') by (apply pow2_le; lia). assert (2 ^ 62 < 2 ^ 63) by (apply pow2_lt; lia). lia. }
  set (L := tL t0) in *. set (L' := lv' / h).
  assert (HLL : L <= L') by (unfold L'; rewrite EL; apply Z.div_le_mono; lia).
  assert (HL'lv : L' * h <= lv' < (L' + 1) * h).
  { unfold L'. pose proof (Z.mod_pos_bound lv' h ltac:(lia)). rewrite Z.mod_eq in H by lia. nia. }
  assert (HL'62 : L' <= 62) by nia.
  exists (Z.to_nat (L' - L)). split; [lia|]. rewrite Z2Nat.id by lia.
  set (a := o * 2 ^ l) in *.
  assert (Ha : lo' <= a < lo' + 2 ^ lv') by (unfold a; lia).
  split.
  - (* the top of the chain is the tile of the covering block *)
    assert (Hshr : Z.shiftr lo' lv' = c') by (rewrite shr_div by lia; subst lo'; apply Z.div_mul; lia).
    destruct (no_overflow_index lv' c' Hlv' Hc0 ltac:(nia)) as [[Hx0' Hx63'] _].
    destruct (tile_for_index_ok h (stored_hash_index lv' c') Hh ltac:(lia)) as [t0' [s' [e' Htfi']]].
    pose proof (Hcov lv' lo' t0' s' e' Hin') as Hlk. rewrite Hshr in Hlk. specialize (Hlk Htfi').
    destruct (parent_chain_shape h N _ t0' s' e' Htfi' ltac:(lia) ltac:(lia))
      as [l2 [o2 [Hl2 [Ho2 [Hidx2 [_ [HH0' [HL0' [EL2 Hchain2]]]]]]]]].
    assert (Hsp : split_stored_hash_index (stored_hash_index lv' c') = Ok (lv', c')) by (apply split_index; lia).
    assert (Hsp2 : split_stored_hash_index (stored_hash_index l2 o2) = Ok (l2, o2)) by (apply split_index; lia).
    rewrite Hidx2, Hsp in Hsp2. injection Hsp2 as <- <-.
    specialize (Hchain (L' - L) ltac:(lia)). specialize (Hchain2 0 ltac:(lia)). cbv zeta in Hchain, Hchain2.
    replace (L + (L' - L)) with L' in Hchain by lia.
    rewrite Z.add_0_r in Hchain2. rewrite EL2 in Hchain2. fold L' in Hchain2.
    (* same tile number *)
    assert (En : a / 2 ^ ((L' + 1) * h) = c' * 2 ^ lv' / 2 ^ ((L' + 1) * h)).
    { apply (div_same_block (c' * 2 ^ lv') a lv' ((L' + 1) * h)); [lia|exists c'; reflexivity|lia]. }
    rewrite <- En in Hchain2.
    destruct Hchain as [_ [Hno Hyes]]. destruct Hchain2 as [_ [Hno2 Hyes2]].
    destruct (Z_le_gt_dec (N / 2 ^ (L' * h)) (a / 2 ^ ((L' + 1) * h) * 2 ^ h)) as [Hle|Hgt].
    + rewrite (Hno Hle). rewrite (Hno2 Hle) in Hlk. exact Hlk.
    + rewrite (Hyes ltac:(lia)). rewrite (Hyes2 ltac:(lia)) in Hlk. exact Hlk.
  - (* below it every tile is full *)
    intros k' Hk'. specialize (Hchain (Z.of_nat k') ltac:(lia)). cbv zeta in Hchain.
    destruct Hchain as [Hnk0 [_ Hyes]].
    assert (Hfull : (a / 2 ^ ((L + Z.of_nat k' + 1) * h) + 1) * 2 ^ h <= N / 2 ^ ((L + Z.of_nat k') * h)).
    { assert (Hkk : L + Z.of_nat k' + 1 <= L') by lia.
      assert (Ha0 : 0 <= a) by (unfold a; apply Z.mul_nonneg_nonneg; lia).
      assert (HMl : (L + Z.of_nat k' + 1) * h <= lv').
      { apply Z.le_trans with (L' * h); [apply Z.mul_le_mono_nonneg_r; lia|lia]. }
      apply (group_inside_block N h a (L + Z.of_nat k') lv' lo'); try lia.
      exists c'. exact Hc'. }
    pose proof (pow2_pos h ltac:(lia)).
    rewrite (Hyes ltac:(lia)). cbn [tW tH]. lia.
Qed.

Lemma find_parent_ok t N' ord : forall fuel k0 K,
  (k0 <= K)%nat -> (K < k0 + fuel)%nat -> lookup (tile_parent t (Z.of_nat K) N') ord <> None ->
  exists k j, find_parent fuel t k0 N' ord = Some (k, j) /\ (k <= K)%nat.
Proof.
  induction fuel as [|f IH]; intros k0 K H1 H2 Hl; [lia|].
  cbn [find_parent]. destruct (lookup (tile_parent t (Z.of_nat k0) N') ord) as [j|] eqn:E.
  - exists k0, j. split; [reflexivity|exact H1].
  - destruct (Nat.eq_dec k0 K) as [->|Hne]; [congruence|].
    apply IH; [lia|lia|exact Hl].
Qed.

Lemma walk_down_ok t0 : forall k ord tiles ito,
  (forall k' : nat, (k' < k)%nat ->
     tW (tile_parent t0 (Z.of_nat k') N) = 2 ^ tH (tile_parent t0 (Z.of_nat k') N)) ->
  covers ord ->
  exists ord' tiles' ito', walk_down t0 N k ord tiles ito = TOk (ord', tiles', ito') /\ covers ord'.
Proof.
  induction k as [|k IH]; intros ord tiles ito Hf Hc.
  - exists ord, tiles, ito. split; [reflexivity|exact Hc].
  - cbn [walk_down]. rewrite (Hf k ltac:(lia)), Z.eqb_refl. cbn [negb].
    apply IH; [intros k' Hk'; apply Hf; lia|apply covers_cons; exact Hc].
Qed.

Lemma plan_indexes_ok : forall ixs ord tiles,
  Forall (fun x => 0 <= x < stored_hash_index 0 N) ixs -> covers ord ->
  exists r, plan_indexes h N ixs ord tiles = TOk r.
Proof.
  induction ixs as [|x r IH]; intros ord tiles HF Hc.
  - eexists. reflexivity.
  - inversion HF as [|? ? Hx HF']; subst. cbn [plan_indexes].
    destruct (Z.leb_spec (stored_hash_index 0 N) x); [lia|].
    pose proof (shi0_bound' N x HN ltac:(lia)) as Hx63.
    destruct (tile_for_index_ok h x Hh ltac:(lia)) as [t0 [s [e Htfi]]].
    rewrite Htfi. cbn [tbind fst snd].
    destruct (chain_reaches_stx x t0 s e ord Hc Hx Htfi) as [K [HK [Hlk Hfullc]]].
    destruct (find_parent_ok t0 N ord find_fuel 0 K ltac:(lia) ltac:(unfold find_fuel; lia) Hlk) as [k [j [Ef HkK]]].
    rewrite Ef.
    destruct (walk_down_ok t0 k ord tiles j ltac:(intros k' Hk'; apply Hfullc; lia) Hc)
      as [ord' [tiles' [ito' [Ew Hc']]]].
    rewrite Ew. cbn [tbind fst snd].
    destruct (IH ord' tiles' HF' Hc') as [[[o2 t2] j2] E2]. rewrite E2. cbn [tbind]. eexists. reflexivity.
Qed.

End Complete.

(* planning never fails on valid input *)
Theorem make_plan_ok N h ix :
  1 <= h -> 0 <= N <= 2 ^ 62 -> Forall (fun x => 0 <= x < stored_hash_index 0 N) ix ->
  exists p, make_plan N h ix = TOk p.
Proof.
  intros Hh HN HF. unfold make_plan.
  destruct (sub_tree_ok 0 N ltac:(lia) ltac:(lia) (aligned_0 N ltac:(lia))) as [bs [Ebs HB]].
  unfold sub_tree_index. rewrite Ebs. cbn [bind lift_res tbind app].
  (* phase 1 *)
  assert (Hstx : forall stx ord tiles,
            (forall x, In x stx -> 0 <= x < 2 ^ 63) -> exists r, plan_stx h N stx ord tiles = TOk r).
  { induction stx as [|x r IH]; intros ord tiles Hb; [eexists; reflexivity|].
    cbn [plan_stx]. destruct (tile_for_index_ok h x Hh (Hb x (or_introl eq_refl))) as [t0 [s [e Ht]]].
    rewrite Ht. cbn [tbind fst snd].
    destruct (lookup (tile_parent t0 0 N) ord).
    - destruct (IH ord tiles ltac:(intros y Hy; apply Hb; right; exact Hy)) as [[[o1 t1] j1] E]. rewrite E.
      cbn [tbind]. eexists. reflexivity.
    - destruct (IH ((tile_parent t0 0 N, length tiles) :: ord) (tiles ++ [tile_parent t0 0 N])
                   ltac:(intros y Hy; apply Hb; right; exact Hy)) as [[[o1 t1] j1] E]. rewrite E.
      cbn [tbind]. eexists. reflexivity. }
  assert (Hbound : forall x, In x (sub_tree_indexes bs) -> 0 <= x < 2 ^ 63).
  { intros x Hx. unfold sub_tree_indexes in Hx. apply in_map_iff in Hx. destruct Hx as [[lv lo] [Ex Hin]].
    cbn [fst snd] in Ex. destruct (Blocks_member _ _ _ _ _ HB Hin) as [Hlv [Hlo0 [Htop [c Hc]]]].
    pose proof (pow2_pos lv Hlv).
    assert (Z.shiftr lo lv = c) by (rewrite shr_div by lia; subst lo; apply Z.div_mul; lia).
    subst x. rewrite H0. apply no_overflow_index; try lia; nia. }
  destruct (Hstx (sub_tree_indexes bs) [] [] Hbound) as [[[ord1 tiles1] sto] E1].
  rewrite E1. cbn [tbind fst snd].
  assert (Hok0 : ord_ok [] []) by (intros t j []).
  assert (Hfull0 : ord_full [] []) by (intros j t Hj; destruct j; discriminate).
  destruct (plan_stx_spec _ _ _ _ _ _ _ _ E1 Hok0 Hfull0) as [Hok1 [Hfull1 [_ [Hsto _]]]].
  assert (Hcov : covers h N bs ord1).
  { intros lv lo t0 s e Hin Ht.
    assert (Hinx : In (stored_hash_index lv (Z.shiftr lo lv)) (sub_tree_indexes bs)).
    { unfold sub_tree_indexes. apply in_map_iff. exists (lv, lo). split; [reflexivity|exact Hin]. }
    destruct (Forall2_in_l _ _ _ _ Hsto Hinx) as [j [_ [t [[t0' [s' [e' [Ht' Et]]]] Hnth]]]].
    rewrite Ht in Ht'. injection Ht' as <- <- <-. subst t.
    rewrite (Hfull1 _ _ Hnth). discriminate. }
  destruct (plan_indexes_ok h N bs Hh HN HB ix ord1 tiles1 HF Hcov) as [[[o2 t2] j2] E2].
  rewrite E2. cbn [tbind]. eexists. reflexivity.
Qed.
