(* Tlog/ProofsConsistency.v — tree (consistency) proofs: ProveTree on the store built by
   StoredHashes returns the RFC 6962 consistency proof PROOF(n, D[t]); the honest proof is
   accepted; whatever CheckTree accepts under the true hash of the larger tree is the true
   hash of the smaller tree, or else a concrete collision of the node hash is exhibited. *)
From Verif.Base Require Import Bytes.
From Verif.Tlog Require Import Index Tree Spec6962 ProofsIndex ProofsSpec ProofsTree ProofsStore ProofsRecord ProofsPath.

Section Consistency.
Variable leaf_hash : str -> hash.
Variable node_hash : hash -> hash -> hash.

Section Proofs.
Variable T : Z -> Z -> hash.

(* p is the sub-proof for the old size n within [lo, hi), deepest hash first *)
Inductive IsProof : Z -> Z -> Z -> list hash -> Prop :=
| IsProof_same0 hi : IsProof 0 hi hi []
| IsProof_same lo hi : lo <> 0 -> IsProof lo hi hi [T lo hi]
| IsProof_left lo hi n p :
    n < hi -> n <= lo + split_point (hi - lo) ->
    IsProof lo (lo + split_point (hi - lo)) n p ->
    IsProof lo hi n (p ++ [T (lo + split_point (hi - lo)) hi])
| IsProof_right lo hi n p :
    n < hi -> lo + split_point (hi - lo) < n ->
    IsProof (lo + split_point (hi - lo)) hi n p ->
    IsProof lo hi n (p ++ [T lo (lo + split_point (hi - lo))]).

Section Fixed.
Variable N : Z.
Variable st : list hash.
Hypothesis HN : N <= 2 ^ 62.
Hypothesis HT : T_splits node_hash T N.
Hypothesis Hst : store_holds T N st.

Lemma tree_proof_spec fuel : forall e lo hi n,
  0 <= lo < n -> n <= hi -> hi <= N -> aligned lo hi ->
  0 <= e -> hi - lo <= 2 ^ e -> e < Z.of_nat fuel ->
  exists idx hs p,
    (forall need, tree_proof_index fuel lo hi n need = Ok (need ++ idx)) /\
    reader_of st idx = Some hs /\
    (forall rest, tree_proof node_hash fuel lo hi n (hs ++ rest) = Ok (p, rest)) /\
    IsProof lo hi n p /\ (length p <= length idx)%nat.
Proof.
  induction fuel as [|fuel IH]; intros e lo hi n Hlo Hn Hhi Hal He Hsz Hf; [lia|].
  cbn [tree_proof_index tree_proof].
  destruct (Z.ltb_spec lo n), (Z.leb_spec n hi); try lia. cbn [andb negb].
  destruct (Z.eqb_spec n hi) as [E1|E1].
  - subst n. destruct (Z.eqb_spec lo 0) as [E0|E0].
    + subst lo. exists [], [], []. repeat split; try reflexivity; try constructor.
      intros need. rewrite app_nil_r. reflexivity.
    + destruct (sub_tree_both node_hash T N st HN HT Hst lo hi ltac:(lia) Hhi Hal)
        as [idx2 [hs2 [Hne [Hi2 [Hr2 Hh2]]]]].
      exists idx2, hs2, [T lo hi]. split; [exact Hi2|]. split; [exact Hr2|]. split; [|split].
      * intros rest. rewrite Hh2. reflexivity.
      * constructor. exact E0.
      * destruct idx2; [congruence|cbn [length]; lia].
  - destruct (maxpow2_spec (hi - lo) ltac:(lia)) as [l [E [Hl Hb]]]. rewrite E.
    pose proof (split_point_unique (hi - lo) l ltac:(lia) Hb) as Hsp.
    pose proof (pow2_pos l ltac:(lia)) as Hp.
    assert (Hle : l <= e - 1).
    { assert (l < e) by (apply pow2_lt_inv; lia). lia. }
    assert (Hk : 2 ^ l <= 2 ^ (e - 1)) by (apply pow2_le; lia).
    destruct (Z.leb_spec n (lo + 2 ^ l)) as [Hleft|Hright].
    + destruct (IH (e - 1) lo (lo + 2 ^ l) n) as [idx1 [hs1 [p1 [Hi1 [Hr1 [Hp1 [HP1 Hl1]]]]]]];
        try lia.
      { apply (aligned_left lo hi l); try assumption; lia. }
      destruct (sub_tree_both node_hash T N st HN HT Hst (lo + 2 ^ l) hi ltac:(lia) Hhi)
        as [idx2 [hs2 [Hne [Hi2 [Hr2 Hh2]]]]].
      { apply (aligned_right lo hi l); try assumption; lia. }
      exists (idx1 ++ idx2), (hs1 ++ hs2), (p1 ++ [T (lo + 2 ^ l) hi]).
      split; [|split; [|split; [|split]]].
      * intros need. rewrite Hi1. cbn [bind]. rewrite Hi2, app_assoc. reflexivity.
      * apply reader_of_app; assumption.
      * intros rest. rewrite <- app_assoc, Hp1. cbn [bind snd fst]. rewrite Hh2. reflexivity.
      * rewrite <- Hsp. apply IsProof_left; rewrite ?Hsp; try lia. exact HP1.
      * rewrite !app_length. cbn [length]. destruct idx2; [congruence|cbn [length]; lia].
    + destruct (sub_tree_both node_hash T N st HN HT Hst lo (lo + 2 ^ l) ltac:(lia) ltac:(lia))
        as [idx2 [hs2 [Hne [Hi2 [Hr2 Hh2]]]]].
      { apply (aligned_left lo hi l); try assumption; lia. }
      destruct (IH (e - 1) (lo + 2 ^ l) hi n) as [idx1 [hs1 [p1 [Hi1 [Hr1 [Hp1 [HP1 Hl1]]]]]]];
        try lia.
      { apply (aligned_right lo hi l); try assumption; lia. }
      exists (idx2 ++ idx1), (hs2 ++ hs1), (p1 ++ [T lo (lo + 2 ^ l)]).
      split; [|split; [|split; [|split]]].
      * intros need. rewrite Hi2. cbn [bind]. rewrite Hi1, app_assoc. reflexivity.
      * apply reader_of_app; assumption.
      * intros rest. rewrite <- app_assoc, Hh2. cbn [bind snd fst]. rewrite Hp1. reflexivity.
      * rewrite <- Hsp. apply IsProof_right; rewrite ?Hsp; try lia. exact HP1.
      * rewrite !app_length. cbn [length]. destruct idx2; [congruence|cbn [length]; lia].
Qed.

Lemma prove_tree_spec t n :
  1 <= n <= t -> t <= N ->
  exists p, prove_tree node_hash t n (reader_of st) = Ok p /\ IsProof 0 t n p.
Proof.
  intros Hn Ht. unfold prove_tree.
  destruct (Z.ltb_spec t 1), (Z.ltb_spec n 1), (Z.ltb_spec t n); try lia. cbn [orb].
  destruct (range_fuel_gt t ltac:(lia)) as [e [He [Hte Hf]]].
  destruct (tree_proof_spec (range_fuel t) e 0 t n ltac:(lia) ltac:(lia) Ht (aligned_0 t ltac:(lia)) He
              ltac:(lia) Hf) as [idx [hs [p [Hi [Hr [Hp [HP Hl]]]]]]].
  rewrite (Hi []). cbn [bind app]. exists p. split; [|exact HP].
  destruct idx as [|i idx].
  - destruct p; [reflexivity|cbn [length] in Hl; lia].
  - rewrite (read_hashes_reader_of _ _ _ Hr). cbn [bind].
    rewrite <- (app_nil_r hs), Hp. reflexivity.
Qed.

(* the split of the old tree inside a right step *)
Lemma old_split lo hi n :
  0 <= lo -> lo + 2 <= hi -> lo + split_point (hi - lo) < n -> n <= hi -> hi <= N ->
  T lo n = node_hash (T lo (lo + split_point (hi - lo))) (T (lo + split_point (hi - lo)) n).
Proof.
  intros Hlo Hsz Hk Hn Hhi.
  pose proof (split_point_bounds (hi - lo) ltac:(lia)) as Hb.
  assert (Hu : split_point (n - lo) = split_point (hi - lo)).
  { unfold split_point at 2. apply split_point_unique; [apply Z.log2_nonneg|].
    fold (split_point (hi - lo)). lia. }
  rewrite (HT lo n) by lia. rewrite Hu. reflexivity.
Qed.

(* completeness *)
Lemma run_tree_proof_complete lo hi n p :
  IsProof lo hi n p -> 0 <= lo -> lo < n -> n <= hi -> hi <= N ->
  run_tree_proof_rev node_hash (rev p) lo hi n (T 0 n) = Ok (T lo n, T lo hi).
Proof.
  induction 1 as [hi|lo hi Hne|lo hi n p Hnh Hle HP IH|lo hi n p Hnh Hgt HP IH];
    intros Hlo Hln Hn Hhi.
  - cbn [rev run_tree_proof_rev].
    destruct (Z.ltb_spec 0 hi), (Z.leb_spec hi hi); try lia. cbn [andb negb].
    rewrite Z.eqb_refl. cbn [Z.eqb]. reflexivity.
  - cbn [rev app run_tree_proof_rev].
    destruct (Z.ltb_spec lo hi), (Z.leb_spec hi hi); try lia. cbn [andb negb].
    rewrite Z.eqb_refl. destruct (Z.eqb_spec lo 0); [lia|]. reflexivity.
  - pose proof (split_point_bounds (hi - lo) ltac:(lia)) as Hk.
    rewrite rev_unit. cbn [run_tree_proof_rev].
    destruct (Z.ltb_spec lo n), (Z.leb_spec n hi); try lia. cbn [andb negb].
    destruct (Z.eqb_spec n hi); [lia|].
    pose proof (maxpow2_split_point (hi - lo) ltac:(lia)) as Hm.
    destruct (maxpow2 (hi - lo)) as [k l']. cbn [fst] in Hm. subst k.
    destruct (Z.leb_spec n (lo + split_point (hi - lo))); [|lia].
    rewrite IH by lia. cbn [bind fst snd]. rewrite (HT lo hi) by lia. reflexivity.
  - pose proof (split_point_bounds (hi - lo) ltac:(lia)) as Hk.
    rewrite rev_unit. cbn [run_tree_proof_rev].
    destruct (Z.ltb_spec lo n), (Z.leb_spec n hi); try lia. cbn [andb negb].
    destruct (Z.eqb_spec n hi); [lia|].
    pose proof (maxpow2_split_point (hi - lo) ltac:(lia)) as Hm.
    destruct (maxpow2 (hi - lo)) as [k l']. cbn [fst] in Hm. subst k.
    destruct (Z.leb_spec n (lo + split_point (hi - lo))); [lia|].
    rewrite IH by lia. cbn [bind fst snd].
    rewrite (HT lo hi) by lia. rewrite (old_split lo hi n) by lia. reflexivity.
Qed.

(* soundness against the range hash *)
Lemma run_tree_proof_sound rp : forall lo hi n old oh,
  0 <= lo -> lo < n -> n <= hi -> hi <= N ->
  run_tree_proof_rev node_hash rp lo hi n old = Ok (oh, T lo hi) ->
  oh = T lo n \/ collision node_hash.
Proof.
  induction rp as [|x rest IH]; intros lo hi n old oh Hlo Hln Hn Hhi; cbn [run_tree_proof_rev];
    destruct (Z.ltb_spec lo n), (Z.leb_spec n hi); try lia; cbn [andb negb].
  - destruct (Z.eqb_spec n hi); [|discriminate]. destruct (Z.eqb_spec lo 0); [|discriminate].
    intros [= -> Heq]. left. subst. reflexivity.
  - destruct (Z.eqb_spec n hi) as [->|Hnh].
    + destruct (Z.eqb_spec lo 0); [discriminate|]. destruct rest; [|discriminate].
      intros [= -> Heq]. left. exact Heq.
    + pose proof (split_point_bounds (hi - lo) ltac:(lia)) as Hk.
      pose proof (maxpow2_split_point (hi - lo) ltac:(lia)) as Hm.
      destruct (maxpow2 (hi - lo)) as [k l']. cbn [fst] in Hm. subst k.
      set (k := split_point (hi - lo)) in *.
      rewrite (HT lo hi) by lia. fold k.
      destruct (Z.leb_spec n (lo + k)).
      * destruct (run_tree_proof_rev node_hash rest lo (lo + k) n old) as [[oh' th']| |] eqn:E;
          cbn [bind fst snd]; try discriminate.
        intros [= -> Heq].
        destruct (hash_eq_dec th' (T lo (lo + k))) as [->|Hne].
        -- apply (IH lo (lo + k) n old oh); try lia. exact E.
        -- right. exists th', x, (T lo (lo + k)), (T (lo + k) hi). split; [congruence|exact Heq].
      * destruct (run_tree_proof_rev node_hash rest (lo + k) hi n old) as [[oh' th']| |] eqn:E;
          cbn [bind fst snd]; try discriminate.
        intros [= <- Heq].
        destruct (hash_eq_dec x (T lo (lo + k))) as [->|Hne];
          [destruct (hash_eq_dec th' (T (lo + k) hi)) as [->|Hne]|].
        -- destruct (IH (lo + k) hi n old oh' ltac:(lia) ltac:(lia) ltac:(lia) Hhi E) as [->|Hc];
             [|right; exact Hc].
           left. unfold k. rewrite (old_split lo hi n) by (fold k; lia). reflexivity.
        -- right. exists (T lo (lo + k)), th', (T lo (lo + k)), (T (lo + k) hi).
           split; [congruence|exact Heq].
        -- right. exists x, th', (T lo (lo + k)), (T (lo + k) hi). split; [congruence|exact Heq].
Qed.

End Fixed.
End Proofs.

(* ------------------------------------------------------------------ equations of SUBPROOF *)

Lemma subproof_fuel_irrel f1 : forall f2 m l b,
  (length l <= f1)%nat -> (length l <= f2)%nat -> 0 < m <= zlen l ->
  subproof_fuel node_hash f1 m l b = subproof_fuel node_hash f2 m l b.
Proof.
  induction f1 as [|f1 IH]; intros f2 m l b H1 H2 Hm.
  - unfold zlen in Hm. lia.
  - destruct f2 as [|f2]; [unfold zlen in Hm; lia|].
    cbn [subproof_fuel]. destruct (Z.eqb_spec m (zlen l)); [reflexivity|].
    pose proof (split_point_bounds (zlen l) ltac:(lia)) as Hk.
    set (k := split_point (zlen l)) in *.
    assert (Hk' : (1 <= Z.to_nat k < length l)%nat) by (unfold zlen in *; lia).
    destruct (Z.leb_spec m k); f_equal; apply IH;
      rewrite ?firstn_length, ?skipn_length; unfold zlen in *; try lia.
    + rewrite firstn_length. lia.
    + rewrite skipn_length. lia.
Qed.

Lemma subproof_same l b : subproof node_hash (zlen l) l b = if b then [] else [mth node_hash l].
Proof.
  unfold subproof. destruct (length l); cbn [subproof_fuel]; rewrite Z.eqb_refl; reflexivity.
Qed.

Lemma subproof_split m l b :
  0 < m < zlen l ->
  let k := split_point (zlen l) in
  subproof node_hash m l b =
  if m <=? k
  then subproof node_hash m (firstn (Z.to_nat k) l) b ++ [mth node_hash (skipn (Z.to_nat k) l)]
  else subproof node_hash (m - k) (skipn (Z.to_nat k) l) false ++ [mth node_hash (firstn (Z.to_nat k) l)].
Proof.
  intros Hm k. pose proof (split_point_bounds (zlen l) ltac:(lia)) as Hk. fold k in Hk.
  assert (Hk' : (1 <= Z.to_nat k < length l)%nat) by (unfold zlen in *; lia).
  unfold subproof. destruct (length l) as [|f] eqn:El; [unfold zlen in Hm; lia|].
  cbn [subproof_fuel]. destruct (Z.eqb_spec m (zlen l)); [lia|]. fold k.
  destruct (Z.leb_spec m k); f_equal; apply subproof_fuel_irrel;
    rewrite ?firstn_length, ?skipn_length; unfold zlen in *; try lia.
  - rewrite firstn_length. lia.
  - rewrite skipn_length. lia.
Qed.

Lemma IsProof_ext T T' lo hi n p :
  (forall a b, T a b = T' a b) -> IsProof T lo hi n p -> IsProof T' lo hi n p.
Proof.
  intros Hext. induction 1.
  - constructor.
  - rewrite Hext. constructor. assumption.
  - rewrite Hext. apply IsProof_left; assumption.
  - rewrite Hext. apply IsProof_right; assumption.
Qed.

Lemma IsProof_subproof L lo hi n p :
  IsProof (lrange node_hash L) lo hi n p -> 0 <= lo -> lo < n -> n <= hi -> hi <= zlen L ->
  p = subproof node_hash (n - lo) (slice L lo (hi - lo)) (lo =? 0).
Proof.
  induction 1 as [hi|lo hi Hne|lo hi n p Hnh Hle HP IH|lo hi n p Hnh Hgt HP IH];
    intros Hlo Hln Hn Hhi.
  - rewrite Z.sub_0_r. rewrite <- (slice_length L 0 hi) at 1 by lia. rewrite subproof_same. reflexivity.
  - rewrite <- (slice_length L lo (hi - lo)) at 1 by lia. rewrite subproof_same.
    destruct (Z.eqb_spec lo 0); [lia|]. reflexivity.
  - pose proof (split_point_bounds (hi - lo) ltac:(lia)) as Hk.
    set (S := slice L lo (hi - lo)).
    assert (HL : zlen S = hi - lo) by (apply slice_length; lia).
    rewrite (subproof_split (n - lo) S) by lia. cbv zeta. rewrite HL.
    set (k := split_point (hi - lo)) in *.
    destruct (Z.leb_spec (n - lo) k); [|lia].
    unfold S. rewrite slice_firstn, slice_skipn by lia.
    rewrite IH by lia. unfold lrange.
    replace (lo + k - lo) with k by lia. replace (hi - (lo + k)) with (hi - lo - k) by lia.
    reflexivity.
  - pose proof (split_point_bounds (hi - lo) ltac:(lia)) as Hk.
    set (S := slice L lo (hi - lo)).
    assert (HL : zlen S = hi - lo) by (apply slice_length; lia).
    rewrite (subproof_split (n - lo) S) by lia. cbv zeta. rewrite HL.
    set (k := split_point (hi - lo)) in *.
    destruct (Z.leb_spec (n - lo) k); [lia|].
    unfold S. rewrite slice_firstn, slice_skipn by lia.
    rewrite IH by lia. unfold lrange.
    destruct (Z.eqb_spec (lo + k) 0); [lia|].
    replace (lo + k - lo) with k by lia. replace (hi - (lo + k)) with (hi - lo - k) by lia.
    replace (n - (lo + k)) with (n - lo - k) by lia.
    reflexivity.
Qed.

Lemma subproof_IsProof L f : forall lo hi n,
  hi - lo <= Z.of_nat f -> 0 <= lo -> lo < n -> n <= hi -> hi <= zlen L ->
  IsProof (lrange node_hash L) lo hi n
          (subproof node_hash (n - lo) (slice L lo (hi - lo)) (lo =? 0)).
Proof.
  induction f as [|f IH]; intros lo hi n Hf Hlo Hln Hn Hhi; [lia|].
  destruct (Z.eq_dec n hi) as [E|E].
  - subst n. rewrite <- (slice_length L lo (hi - lo)) at 1 by lia. rewrite subproof_same.
    destruct (Z.eqb_spec lo 0) as [->|Hne].
    + constructor.
    + apply IsProof_same. exact Hne.
  - pose proof (split_point_bounds (hi - lo) ltac:(lia)) as Hk.
    set (S := slice L lo (hi - lo)).
    assert (HL : zlen S = hi - lo) by (apply slice_length; lia).
    rewrite (subproof_split (n - lo) S) by lia. cbv zeta. rewrite HL.
    set (k := split_point (hi - lo)) in *.
    unfold S. rewrite slice_firstn, slice_skipn by lia.
    destruct (Z.leb_spec (n - lo) k).
    + replace (mth node_hash (slice L (lo + k) (hi - lo - k))) with (lrange node_hash L (lo + k) hi)
        by (unfold lrange; f_equal; f_equal; lia).
      apply IsProof_left; fold k; try lia.
      replace k with (lo + k - lo) at 2 by lia. apply IH; lia.
    + replace (mth node_hash (slice L lo k)) with (lrange node_hash L lo (lo + k))
        by (unfold lrange; f_equal; f_equal; lia).
      apply IsProof_right; fold k; try lia.
      replace (n - lo - k) with (n - (lo + k)) by lia.
      replace (hi - lo - k) with (hi - (lo + k)) by lia.
      replace false with (lo + k =? 0) by (destruct (Z.eqb_spec (lo + k) 0); [lia|reflexivity]).
      apply IH; lia.
Qed.

(* ------------------------------------------------------------------ the theorems *)

Theorem prove_tree_is_PROOF recs t n :
  zlen recs < 2 ^ 62 -> 1 <= n <= t -> t <= zlen recs ->
  prove_tree node_hash t n (reader_of (store_of leaf_hash node_hash recs))
  = Ok (proof node_hash n (map leaf_hash (firstn (Z.to_nat t) recs))).
Proof.
  intros Hlen Hn Ht. destruct (store_of_inv leaf_hash node_hash recs Hlen) as [Hst _].
  destruct (prove_tree_spec (range_hash leaf_hash node_hash recs) (zlen recs) _
              ltac:(lia) (range_hash_splits leaf_hash node_hash recs) Hst t n Hn Ht) as [p [E HP]].
  rewrite E. f_equal.
  apply (IsProof_ext _ (lrange node_hash (map leaf_hash recs))) in HP;
    [|apply range_hash_lrange].
  rewrite (IsProof_subproof _ _ _ _ _ HP) by (rewrite ?zlen_map; lia).
  rewrite !Z.sub_0_r. unfold proof, slice. cbn [Z.to_nat skipn Z.eqb]. rewrite firstn_map. reflexivity.
Qed.

Theorem check_tree_complete L n :
  zlen L <= 2 ^ 62 -> 1 <= n <= zlen L ->
  check_tree node_hash (proof node_hash n L) (zlen L) (mth node_hash L) n
             (mth node_hash (firstn (Z.to_nat n) L)) = Ok tt.
Proof.
  intros HL Hn. unfold check_tree.
  destruct (Z.ltb_spec (zlen L) 1), (Z.ltb_spec n 1), (Z.ltb_spec (zlen L) n); try lia. cbn [orb].
  unfold run_tree_proof.
  pose proof (subproof_IsProof L (length L) 0 (zlen L) n ltac:(unfold zlen; lia) ltac:(lia) ltac:(lia)
                ltac:(lia) ltac:(lia)) as HP.
  rewrite !Z.sub_0_r, slice_all in HP. cbn [Z.eqb] in HP. fold (proof node_hash n L) in HP.
  assert (Hold : mth node_hash (firstn (Z.to_nat n) L) = lrange node_hash L 0 n).
  { unfold lrange. rewrite Z.sub_0_r. reflexivity. }
  rewrite Hold.
  rewrite (run_tree_proof_complete (lrange node_hash L) (zlen L) HL (lrange_splits node_hash L)
             0 (zlen L) n _ HP) by lia.
  cbn [bind fst snd]. rewrite lrange_all, !str_eqb_refl. reflexivity.
Qed.

Theorem check_tree_sound L p n h :
  zlen L <= 2 ^ 62 ->
  check_tree node_hash p (zlen L) (mth node_hash L) n h = Ok tt ->
  1 <= n <= zlen L /\ (h = mth node_hash (firstn (Z.to_nat n) L) \/ collision node_hash).
Proof.
  intros HL. unfold check_tree.
  destruct (Z.ltb_spec (zlen L) 1), (Z.ltb_spec n 1), (Z.ltb_spec (zlen L) n); cbn [orb];
    try discriminate.
  unfold run_tree_proof.
  destruct (run_tree_proof_rev node_hash (rev p) 0 (zlen L) n h) as [[oh th2]| |] eqn:E;
    cbn [bind fst snd]; try discriminate.
  destruct (str_eqb_spec th2 (mth node_hash L)) as [->|]; [|discriminate].
  destruct (str_eqb_spec oh h) as [->|]; [|discriminate].
  intros _. split; [lia|].
  assert (Hold : mth node_hash (firstn (Z.to_nat n) L) = lrange node_hash L 0 n).
  { unfold lrange. rewrite Z.sub_0_r. reflexivity. }
  rewrite Hold.
  apply (run_tree_proof_sound (lrange node_hash L) (zlen L) HL (lrange_splits node_hash L)
           (rev p) 0 (zlen L) n h h); try lia.
  rewrite lrange_all. exact E.
Qed.

End Consistency.
