(* Tlog/TileProofsArith.v — characterising lemmas for the tile arithmetic of Tlog/Tile.v:
   tile_hash = mtree on 32*2^j bytes, tile_for_index, hash_from_tile, tile_parent. *)
From Verif.Base Require Import Bytes.
From Verif.Tlog Require Import Index Tree Spec6962 ProofsIndex ProofsSpec ProofsTree Tile TileSpec TileProofs TileProofsMerkle.

Lemma tbind_ok {A B} (r : tres A) (f : A -> tres B) b :
  tbind r f = TOk b -> exists a, r = TOk a /\ f a = TOk b.
Proof. destruct r; cbn; intros H; try discriminate. exists a. auto. Qed.

Lemma shl_mul a n : 0 <= n -> Z.shiftl a n = a * 2 ^ n.
Proof. intros. apply Z.shiftl_mul_pow2. lia. Qed.

Lemma shr_div a n : 0 <= n -> Z.shiftr a n = a / 2 ^ n.
Proof. intros. apply Z.shiftr_div_pow2. lia. Qed.

Lemma pow2_split a b : 0 <= a <= b -> 2 ^ b = 2 ^ (b - a) * 2 ^ a.
Proof. intros. rewrite <- Z.pow_add_r by lia. f_equal. lia. Qed.

(* x in the aligned 2^m block starting at base: same coarser block number *)
Lemma div_same_block base x m M :
  0 <= m <= M -> (2 ^ m | base) -> base <= x < base + 2 ^ m -> x / 2 ^ M = base / 2 ^ M.
Proof.
  intros Hm [c Hc] Hx. pose proof (pow2_pos m ltac:(lia)) as Hp.
  pose proof (pow2_pos (M - m) ltac:(lia)) as Hq.
  rewrite (pow2_split m M) by lia. rewrite (Z.mul_comm (2 ^ (M - m))).
  rewrite <- !Z.div_div by lia. f_equal.
  subst base. rewrite Z.div_mul by lia.
  replace x with (c * 2 ^ m + (x - c * 2 ^ m)) by lia.
  rewrite Z.div_add_l by lia. rewrite Z.div_small by lia. lia.
Qed.

Section Arith.
Variable node_hash : hash -> hash -> hash.
Notation mtree := (mtree node_hash).
Notation tile_hash := (tile_hash node_hash).
Notation hash_from_tile := (hash_from_tile node_hash).

(* ---------------------------------------------------------------- tileHash *)

Lemma div2_double k : Nat.div2 (k + k) = k.
Proof. replace (k + k)%nat with (2 * k)%nat by lia. apply Nat.div2_double. Qed.

Lemma tile_hash_fuel_spec : forall (j : nat) (d : str) (fuel : nat),
  length d = (32 * 2 ^ j)%nat -> (j < fuel)%nat ->
  tile_hash_fuel node_hash fuel d = TOk (mtree j d).
Proof.
  induction j as [|j IH]; intros d fuel Hlen Hf; (destruct fuel as [|f]; [lia|]).
  - cbn [tile_hash_fuel]. destruct d as [|c d]; [discriminate|].
    rewrite Hlen. reflexivity.
  - cbn [tile_hash_fuel mtree]. destruct d as [|c d]; [pose proof (pow2_nat_pos (S j)); cbn [length] in Hlen; lia|].
    set (dd := c :: d) in *.
    pose proof (pow2_nat_pos j) as Hp.
    assert (Hl2 : length dd = (32 * 2 ^ j + 32 * 2 ^ j)%nat) by (rewrite Hlen; cbn [Nat.pow]; lia).
    destruct (Nat.eqb_spec (length dd) 32) as [E|_]; [lia|].
    rewrite Hl2, div2_double.
    rewrite (IH (firstn (32 * 2 ^ j) dd) f) by (try rewrite firstn_length; lia).
    rewrite (IH (skipn (32 * 2 ^ j) dd) f) by (try rewrite skipn_length; lia).
    reflexivity.
Qed.

Lemma tile_hash_spec (j : nat) (d : str) :
  length d = (32 * 2 ^ j)%nat -> tile_hash d = TOk (mtree j d).
Proof.
  intros Hlen. unfold Tile.tile_hash. apply tile_hash_fuel_spec; [exact Hlen|].
  assert (j <= Nat.log2 (length d))%nat; [|lia].
  apply Nat.log2_le_pow2; [rewrite Hlen; pose proof (pow2_nat_pos j); lia|].
  rewrite Hlen. lia.
Qed.

(* tileHash on a length that is 32 * 2^j: the only lengths HashFromTile produces *)

(* ---------------------------------------------------------------- tileForIndex *)

Lemma tile_for_index_spec h x t s e :
  tile_for_index h x = TOk (t, s, e) -> 0 <= x < 2 ^ 63 ->
  exists l o j n',
    split_stored_hash_index x = Ok (l, o) /\ 0 <= l /\ 0 <= o /\ stored_hash_index l o = x /\
    1 <= h /\ tH t = h /\ 0 <= tL t /\ 0 <= j < h /\ l = tL t * h + j /\ 0 <= tN t /\ 0 <= n' /\
    tW t = (n' + 1) * 2 ^ j /\ s = n' * 2 ^ j * 32 /\ e = (n' + 1) * 2 ^ j * 32 /\
    tN t * 2 ^ h + n' * 2 ^ j = o * 2 ^ j /\ (n' + 1) * 2 ^ j <= 2 ^ h /\
    tL t = l / h /\ tN t = (o * 2 ^ j) / 2 ^ h.
Proof.
  unfold tile_for_index. intros H Hx.
  destruct (Z.leb_spec h 0) as [|Hh]; [discriminate|].
  destruct (index_split x Hx) as [l [o [Hs [Hl [Ho Hidx]]]]].
  rewrite Hs in H. cbn [lift_res tbind fst snd] in H.
  rewrite Z.quot_div_nonneg in H by lia.
  set (L := l / h) in *.
  set (j := l - L * h) in *.
  assert (Hj : 0 <= j < h).
  { unfold j, L. pose proof (Z.mod_pos_bound l h ltac:(lia)). rewrite Z.mod_eq in H0 by lia. lia. }
  assert (HL : 0 <= L) by (apply Z.div_pos; lia).
  pose proof (pow2_pos j ltac:(lia)) as Hpj.
  pose proof (pow2_pos h ltac:(lia)) as Hph.
  pose proof (pow2_pos (h - j) ltac:(lia)) as Hphj.
  assert (Hsplit : 2 ^ h = 2 ^ (h - j) * 2 ^ j) by (apply pow2_split; lia).
  repeat first [rewrite shl_mul in H by lia | rewrite shr_div in H by lia].
  set (tn := o * 2 ^ j / 2 ^ h) in *.
  assert (Htn : tn = o / 2 ^ (h - j)).
  { unfold tn. rewrite Hsplit. apply Z.div_mul_cancel_r; lia. }
  assert (Htn0 : 0 <= tn) by (rewrite Htn; apply Z.div_pos; lia).
  assert (Hback : tn * 2 ^ h / 2 ^ j = tn * 2 ^ (h - j)).
  { rewrite Hsplit, Z.mul_assoc. apply Z.div_mul. lia. }
  rewrite Hback in H.
  set (n' := o - tn * 2 ^ (h - j)) in *.
  assert (Hn' : 0 <= n' < 2 ^ (h - j)).
  { unfold n'. rewrite Htn. pose proof (Z.mod_pos_bound o (2 ^ (h - j)) ltac:(lia)).
    rewrite Z.mod_eq in H0 by lia. lia. }
  injection H as <- <- <-.
  exists l, o, j, n'. cbn [tH tL tN tW]. unfold hash_size.
  assert (G1 : tn * 2 ^ h + n' * 2 ^ j = o * 2 ^ j) by (unfold n'; rewrite Hsplit; ring).
  assert (G2 : (n' + 1) * 2 ^ j <= 2 ^ h) by (rewrite Hsplit; nia).
  assert (G3 : l = L * h + j) by (unfold j; lia).
  repeat (split; [first [assumption | reflexivity | lia] |]). reflexivity.
Qed.

Lemma tile_for_index_neg h x : x < 0 -> tile_for_index h x = TPanic.
Proof.
  intros Hx. unfold tile_for_index. destruct (h <=? 0); [reflexivity|].
  unfold split_stored_hash_index.
  assert (Hq : Z.quot x 2 <= 0) by (apply Z.quot_le_upper_bound; lia || (pose proof (Z.quot_le_mono x 0 2); lia)).
  assert (Hi : stored_hash_index 0 (Z.quot x 2) = 0).
  { unfold stored_hash_index, level_up. cbn [Z.iter]. destruct (Z.quot x 2); try lia; reflexivity. }
  rewrite Hi. destruct (Z.ltb_spec x 0); [reflexivity|lia].
Qed.

(* ---------------------------------------------------------------- HashFromTile *)

Lemma hash_from_tile_spec t d x hh :
  hash_from_tile t d x = TOk hh -> x < 2 ^ 63 ->
  exists l o (j : nat) (n' : nat),
    split_stored_hash_index x = Ok (l, o) /\ 0 <= l /\ 0 <= o /\ stored_hash_index l o = x /\
    1 <= tH t <= 30 /\ 0 <= tL t < 64 /\ 1 <= tW t <= 2 ^ tH t /\ tW t * 32 <= len d /\ 0 <= tN t /\
    Z.of_nat j < tH t /\ l = tL t * tH t + Z.of_nat j /\
    (Z.of_nat n' + 1) * 2 ^ Z.of_nat j <= tW t /\
    tN t * 2 ^ tH t + Z.of_nat n' * 2 ^ Z.of_nat j = o * 2 ^ Z.of_nat j /\
    hh = mtree j (block d j n').
Proof.
  unfold Tile.hash_from_tile. intros H Hx.
  destruct (_ || _) eqn:Ev in H; [discriminate|].
  rewrite !orb_false_iff in Ev. destruct Ev as [[[[[E1 E2] E3] E4] E5] E6].
  apply Z.ltb_ge in E1, E2, E3, E5, E6. apply Z.leb_gt in E4.
  destruct (Z.ltb_spec (len d) (tW t * hash_size)) as [|Hlen]; [discriminate|]. unfold hash_size in Hlen.
  apply tbind_ok in H. destruct H as [[[t1 s] e] [Htfi H]]. cbn [fst snd] in H.
  destruct (Z_lt_le_dec x 0) as [Hneg|Hpos]; [rewrite tile_for_index_neg in Htfi by lia; discriminate|].
  destruct (tile_for_index_spec _ _ _ _ _ Htfi ltac:(lia))
    as [l [o [j [n' [Hs [Hl [Ho [Hidx [Hh [HH [HL [Hj [Hlj [HN [Hn' [HW [Hs' [He [Hco [Hle _]]]]]]]]]]]]]]]]]]]].
  destruct (_ || _) eqn:Ev in H; [discriminate|].
  rewrite !orb_false_iff, !negb_false_iff in Ev. destruct Ev as [[F1 F2] F3].
  apply Z.eqb_eq in F1, F2. apply Z.ltb_ge in F3.
  pose proof (pow2_pos j ltac:(lia)) as Hpj.
  destruct t1 as [h1 l1 n1 w1]. cbn [tH tL tN tW] in *. subst l1 n1.
  exists l, o, (Z.to_nat j), (Z.to_nat n'). rewrite !Z2Nat.id by lia.
  repeat (split; [first [assumption | lia] |]).
  set (jn := Z.to_nat j) in *.
  assert (Hp2 : Z.of_nat (2 ^ jn) = 2 ^ j) by (rewrite pow2_nat_Z; unfold jn; rewrite Z2Nat.id by lia; reflexivity).
  assert (Hes : Z.to_nat (e - s) = (32 * 2 ^ jn)%nat) by (subst e s; nia).
  assert (Hss : Z.to_nat s = (32 * 2 ^ jn * Z.to_nat n')%nat) by (subst s; nia).
  rewrite Hes, Hss in H. fold (block d jn (Z.to_nat n')) in H.
  rewrite (tile_hash_spec jn) in H.
  - injection H as <-. reflexivity.
  - unfold block. rewrite firstn_length, skipn_length. unfold len in Hlen. nia.
Qed.

(* ---------------------------------------------------------------- tileParent *)

Lemma tile_parent_spec t k N :
  1 <= tH t -> 0 <= k -> 0 <= tL t -> 0 <= tN t -> 0 <= N ->
  let H := tH t in
  let L := tL t + k in
  let n := tN t / 2 ^ (k * H) in
  let max := N / 2 ^ (L * H) in
  (max <= n * 2 ^ H -> tile_parent t k N = no_tile) /\
  (n * 2 ^ H < max -> tile_parent t k N = mkTile H L n (Z.min (2 ^ H) (max - n * 2 ^ H))).
Proof.
  intros HH Hk HL HN HNN H L n max. unfold tile_parent.
  fold H. fold L.
  assert (0 <= k * H) by nia. assert (0 <= L * H) by (unfold L; nia).
  rewrite !shr_div by lia. fold n. fold max.
  assert (0 <= n) by (apply Z.div_pos; [lia|apply pow2_pos; lia]).
  rewrite shl_mul by lia.
  split; intros Hc.
  - destruct (Z.leb_spec max (n * 2 ^ H + 2 ^ H)); [|pose proof (pow2_pos H ltac:(lia)); lia].
    destruct (Z.leb_spec max (n * 2 ^ H)); [reflexivity|lia].
  - destruct (Z.leb_spec max (n * 2 ^ H + 2 ^ H)).
    + destruct (Z.leb_spec max (n * 2 ^ H)); [lia|]. f_equal. lia.
    + f_equal. lia.
Qed.

End Arith.
