(* Tlog/ProofsCodec.v — round trips of the text encodings of Tlog/Codec.v. *)
From Verif.Base Require Import Bytes Utf8 Base64 Strconv Base64Proofs StrconvProofs.
From Verif.Gen Require Import GenConsts.
From Verif.Tlog Require Import Index Codec.

(* ------------------------------------------------------------------ generic list facts *)

Definition no10 (s : str) : Prop := Forall (fun c => c <> 10) s.

Lemma split_on_app_nl a r : no10 a -> split_on 10 (a ++ 10 :: r) = a :: split_on 10 r.
Proof.
  induction 1 as [|c a Hc Ha IH]; cbn [app split_on].
  - reflexivity.
  - destruct (Z.eqb_spec c 10); [contradiction|]. rewrite IH. reflexivity.
Qed.

Lemma count_byte_app c a b : count_byte c (a ++ b) = count_byte c a + count_byte c b.
Proof. unfold count_byte, len. rewrite filter_app, app_length. lia. Qed.

Lemma count_byte_no10 a : no10 a -> count_byte 10 a = 0.
Proof.
  induction 1 as [|c a Hc Ha IH]; [reflexivity|].
  unfold count_byte in *. cbn [filter]. destruct (Z.eqb_spec c 10); [contradiction|]. exact IH.
Qed.

Lemma count_byte_cons10 a : count_byte 10 (10 :: a) = 1 + count_byte 10 a.
Proof. unfold count_byte, len. cbn [filter Z.eqb Pos.eqb length]. lia. Qed.

Lemma has_prefix_app p s : has_prefix (p ++ s) p = true.
Proof. induction p as [|c p IH]; [destruct s; reflexivity|]. cbn [app has_prefix]. rewrite Z.eqb_refl, IH. reflexivity. Qed.

Lemma index_of_app_notin c a r : Forall (fun x => x <> c) a -> index_of c (a ++ c :: r) = Some (length a).
Proof.
  induction 1 as [|x a Hx Ha IH]; cbn [app index_of length].
  - rewrite Z.eqb_refl. reflexivity.
  - destruct (Z.eqb_spec x c); [contradiction|]. rewrite IH. reflexivity.
Qed.

Lemma skipn_S_app {A} (a : list A) c x : skipn (S (length a)) (a ++ c :: x) = x.
Proof. induction a as [|y a IH]; [reflexivity|exact IH]. Qed.

Lemma firstn_app_exact {A} (a b : list A) : firstn (length a) (a ++ b) = a.
Proof. induction a as [|y a IH]; [reflexivity|]. cbn [length app firstn]. rewrite IH. reflexivity. Qed.

Lemma firstn_S_app {A} (a : list A) c x : firstn (S (length a)) (a ++ c :: x) = a ++ [c].
Proof. induction a as [|y a IH]; [reflexivity|]. cbn [length app]. rewrite firstn_cons, IH. reflexivity. Qed.

Lemma skipn_SS_app {A} (a : list A) c d x : skipn (S (S (length a))) (a ++ c :: d :: x) = x.
Proof. induction a as [|y a IH]; [reflexivity|exact IH]. Qed.

Lemma len_app (a b : str) : len (a ++ b) = len a + len b.
Proof. unfold len. rewrite app_length. lia. Qed.

(* ------------------------------------------------------------------ shape of the pieces *)

Lemma digits_no10 ds : all_digits ds -> no10 ds.
Proof.
  intros H. eapply Forall_impl; [|exact H]. cbn. intros c Hc. apply is_digit_range in Hc. lia.
Qed.

Lemma format_int_no10 n : no10 (format_int n).
Proof.
  destruct (format_int_shape n) as [ds [E [Hd _]]]. rewrite E.
  apply Forall_app. split; [|apply digits_no10; exact Hd].
  destruct (n <? 0); repeat constructor. lia.
Qed.

Lemma fmt_pos_length f : forall n acc, (length (fmt_pos f n acc) <= f + length acc)%nat.
Proof.
  induction f as [|f IH]; intros n acc; cbn [fmt_pos]; [lia|].
  destruct (n <? 10); cbn [length]; [lia|].
  specialize (IH (n / 10) (48 + n mod 10 :: acc)). cbn [length] in IH. lia.
Qed.

Lemma format_int_len n : - 2 ^ 63 <= n < 2 ^ 63 -> len (format_int n) <= 66.
Proof.
  intros H. unfold format_int, format_uint, len.
  assert (Hlog : forall m, 0 <= m <= 2 ^ 63 -> Z.log2 m <= 63).
  { intros m Hm. destruct (Z.eq_dec m 0) as [->|]; [cbn; lia|].
    assert (Z.log2 m <= Z.log2 (2 ^ 63)) by (apply Z.log2_le_mono; lia).
    rewrite Z.log2_pow2 in * by lia. lia. }
  destruct (n <? 0) eqn:E.
  - apply Z.ltb_lt in E. pose proof (fmt_pos_length (S (Z.to_nat (Z.log2 (- n)))) (- n) []).
    pose proof (Hlog (- n) ltac:(lia)). pose proof (Z.log2_nonneg (- n)).
    cbn [length] in *. lia.
  - apply Z.ltb_ge in E. pose proof (fmt_pos_length (S (Z.to_nat (Z.log2 n))) n []).
    pose proof (Hlog n ltac:(lia)). pose proof (Z.log2_nonneg n).
    cbn [length] in *. lia.
Qed.

Lemma b64_no10 h : Forall byte h -> no10 (b64_encode h).
Proof.
  intros H. pose proof (b64_encode_alphabet h H) as Ha. unfold b64_encode.
  eapply Forall_impl; [|exact Ha]. cbn. intros c Hc ->. apply b64_char_not_crlf in Hc. discriminate.
Qed.

(* ------------------------------------------------------------------ hashes *)

Definition is_hash (h : str) : Prop := Forall byte h /\ len h = tlog_HashSize.

Theorem parse_hash_string h : is_hash h -> parse_hash (hash_string h) = Ok h.
Proof.
  intros [Hb Hl]. unfold parse_hash, hash_string, b64_decode, b64_encode.
  rewrite b64_decode_encode by exact Hb. rewrite Hl, Z.eqb_refl. reflexivity.
Qed.

(* ------------------------------------------------------------------ tree heads *)

Lemma tree_prefix_eq : tlog_treePrefix = B "go.sum database tree" ++ [10].
Proof. reflexivity. Qed.

Lemma tree_prefix_no10 : no10 (B "go.sum database tree").
Proof. repeat constructor; discriminate. Qed.

Theorem parse_format_tree t :
  0 <= tN t < 2 ^ 63 -> is_hash (tH t) -> parse_tree (format_tree t) = Ok t.
Proof.
  intros HN [Hb Hl]. destruct t as [n h]. cbn [tN tH] in *.
  unfold parse_tree, format_tree. cbn [tN tH].
  rewrite has_prefix_app. cbn [negb orb].
  pose proof (format_int_no10 n) as Hf. pose proof (b64_no10 h Hb) as He.
  change (b64_encode h) with (hash_string h) in He.
  (* three newlines *)
  assert (Hc : count_byte 10 (tlog_treePrefix ++ format_int n ++ [10] ++ hash_string h ++ [10]) = 3).
  { rewrite tree_prefix_eq. rewrite <- !app_assoc. cbn [app].
    rewrite count_byte_app, (count_byte_no10 _ tree_prefix_no10).
    rewrite count_byte_cons10, count_byte_app, (count_byte_no10 _ Hf).
    rewrite count_byte_cons10, count_byte_app, (count_byte_no10 _ He).
    reflexivity. }
  rewrite Hc. cbn [Z.ltb Z.compare Pos.compare Pos.compare_cont orb].
  (* length *)
  assert (Hlen : len (tlog_treePrefix ++ format_int n ++ [10] ++ hash_string h ++ [10]) <= 1000000).
  { rewrite !len_app. unfold hash_string, b64_encode. rewrite b64_encode_len, Hl.
    pose proof (format_int_len n ltac:(lia)). vm_compute (len tlog_treePrefix). vm_compute (len [10]).
    vm_compute ((tlog_HashSize + 2) / 3). lia. }
  destruct (Z.ltb_spec 1000000 (len (tlog_treePrefix ++ format_int n ++ [10] ++ hash_string h ++ [10]))); [lia|].
  (* the lines *)
  rewrite tree_prefix_eq. rewrite <- !app_assoc. cbn [app].
  rewrite (split_on_app_nl (B "go.sum database tree")) by apply tree_prefix_no10.
  rewrite (split_on_app_nl (format_int n)) by exact Hf.
  rewrite (split_on_app_nl (hash_string h)) by exact He.
  rewrite parse_format_int by lia.
  destruct (Z.ltb_spec n 0); [lia|]. rewrite str_eqb_refl. cbn [negb orb].
  unfold hash_string, b64_decode, b64_encode. rewrite b64_decode_encode by exact Hb.
  rewrite Hl, Z.eqb_refl. reflexivity.
Qed.

(* ------------------------------------------------------------------ record text *)

(* what Utf8.decode returns, as far as isValidRecordText depends on it *)
Lemma decode_facts b rest rn w :
  Utf8.decode (b :: rest) = (rn, w) ->
  (b < 128 /\ rn = b /\ w = 1%nat) \/
  (128 <= b /\ 128 <= rn /\ (1 <= w)%nat /\ (w - 1 <= length rest)%nat /\
   Forall (fun c => 128 <= c) (firstn (w - 1) rest)).
Proof.
  unfold Utf8.decode, cont, rune_error.
  destruct (Z.ltb_spec b 128) as [H1|H1]; [intros [= <- <-]; left; auto|].
  assert (Hbad : (65533, 1%nat) = (rn, w) ->
    (b < 128 /\ rn = b /\ w = 1%nat) \/
    (128 <= b /\ 128 <= rn /\ (1 <= w)%nat /\ (w - 1 <= length rest)%nat /\
     Forall (fun c => 128 <= c) (firstn (w - 1) rest))).
  { intros [= <- <-]. right. cbn [Nat.sub firstn]. repeat split; try lia. constructor. }
  destruct ((194 <=? b) && (b <=? 223)) eqn:E2.
  { apply andb_true_iff in E2. rewrite !Z.leb_le in E2.
    destruct rest as [|b1 rest]; [exact Hbad|].
    destruct ((128 <=? b1) && (b1 <=? 191)) eqn:C1; [|exact Hbad].
    apply andb_true_iff in C1. rewrite !Z.leb_le in C1.
    intros [= <- <-]. right. cbn [Nat.sub firstn length]. repeat split; try lia.
    repeat constructor; lia. }
  destruct ((224 <=? b) && (b <=? 239)) eqn:E3.
  { apply andb_true_iff in E3. rewrite !Z.leb_le in E3.
    destruct rest as [|b1 [|b2 rest]]; try exact Hbad.
    destruct (((if b =? 224 then 160 else 128) <=? b1) && (b1 <=? (if b =? 237 then 159 else 191))
              && ((128 <=? b2) && (b2 <=? 191))) eqn:C; [|exact Hbad].
    apply andb_true_iff in C. destruct C as [C C2]. apply andb_true_iff in C. destruct C as [Ca Cb].
    apply andb_true_iff in C2.
    assert (Hb1 : 128 <= b1 /\ 128 <= (b - 224) * 4096 + (b1 - 128) * 64 + (b2 - 128)).
    { destruct (Z.eqb_spec b 224), (Z.eqb_spec b 237); rewrite !Z.leb_le in *; lia. }
    clear Ca Cb. rewrite !Z.leb_le in *.
    intros [= <- <-]. right. cbn [Nat.sub firstn length]. repeat split; try lia.
    repeat constructor; lia. }
  destruct ((240 <=? b) && (b <=? 244)) eqn:E4.
  { apply andb_true_iff in E4. rewrite !Z.leb_le in E4.
    destruct rest as [|b1 [|b2 [|b3 rest]]]; try exact Hbad.
    destruct (((if b =? 240 then 144 else 128) <=? b1) && (b1 <=? (if b =? 244 then 143 else 191))
              && ((128 <=? b2) && (b2 <=? 191)) && ((128 <=? b3) && (b3 <=? 191))) eqn:C; [|exact Hbad].
    apply andb_true_iff in C. destruct C as [C C3]. apply andb_true_iff in C. destruct C as [C C2].
    apply andb_true_iff in C. destruct C as [Ca Cb].
    apply andb_true_iff in C2. apply andb_true_iff in C3.
    assert (Hb1 : 128 <= b1 /\ 128 <= (b - 240) * 262144 + (b1 - 128) * 4096 + (b2 - 128) * 64 + (b3 - 128)).
    { destruct (Z.eqb_spec b 240), (Z.eqb_spec b 244); rewrite !Z.leb_le in *; lia. }
    clear Ca Cb. rewrite !Z.leb_le in *.
    intros [= <- <-]. right. cbn [Nat.sub firstn length]. repeat split; try lia.
    repeat constructor; lia. }
  exact Hbad.
Qed.

(* no two adjacent newline bytes, counting a previous byte *)
Fixpoint nn_free (prev : Z) (s : str) : Prop :=
  match s with
  | [] => True
  | c :: r => ~ (prev = 10 /\ c = 10) /\ nn_free c r
  end.

Lemma last_cons (c : Z) r d : List.last (c :: r) d = List.last r c.
Proof.
  revert c d. induction r as [|a r IH]; intros c d; [reflexivity|].
  change (List.last (c :: a :: r) d) with (List.last (a :: r) d). rewrite !IH. reflexivity.
Qed.

Lemma valid_loop_bytes s : forall skip last prevb,
  (last = 10 <-> prevb = 10) -> (skip <> O -> last <> 10) ->
  (skip <= length s)%nat -> Forall (fun c => 128 <= c) (firstn skip s) ->
  valid_text_loop skip last s = true ->
  List.last s prevb = 10 /\ nn_free prevb s.
Proof.
  induction s as [|c r IH]; intros skip last prevb Hlp Hsk Hlen Hcont Hv.
  - cbn [valid_text_loop] in Hv. apply Z.eqb_eq in Hv. cbn [List.last nn_free].
    split; [apply Hlp; exact Hv|exact I].
  - cbn [valid_text_loop] in Hv. destruct skip as [|k].
    + destruct (Utf8.decode (c :: r)) as [rn w] eqn:D.
      destruct (((rn <? 32) && negb (rn =? 10)) || ((rn =? rune_error) && Nat.eqb w 1)
                || ((last =? 10) && (rn =? 10))) eqn:Chk; [discriminate|].
      apply orb_false_iff in Chk. destruct Chk as [Chk C3]. apply orb_false_iff in Chk.
      destruct Chk as [C1 C2].
      destruct (decode_facts c r rn w D) as [[Hc [-> ->]]|[Hc [Hrn [Hw [Hwl Hf]]]]].
      * cbn [Nat.pred] in Hv.
        destruct (IH O c c ltac:(tauto) ltac:(congruence) ltac:(lia) ltac:(constructor) Hv) as [Hl Hn].
        split.
        -- rewrite last_cons. exact Hl.
        -- cbn [nn_free]. split; [|exact Hn]. intros [Hp Hc10].
           apply Hlp in Hp. subst. cbn in C3. discriminate.
      * replace (Nat.pred w) with (w - 1)%nat in Hv by lia.
        assert (Hc10 : c <> 10) by lia. assert (Hr10 : rn <> 10) by lia.
        destruct (IH (w - 1)%nat rn c ltac:(tauto) ltac:(intros _; exact Hr10) Hwl Hf Hv) as [Hl Hn].
        split.
        -- rewrite last_cons. exact Hl.
        -- cbn [nn_free]. split; [|exact Hn]. intros [_ Hc']. contradiction.
    + cbn [firstn] in Hcont. inversion_clear Hcont as [|? ? Hc Hrest].
      cbn [length] in Hlen.
      assert (Hc10 : c <> 10) by lia.
      assert (Hl10 : last <> 10) by (apply Hsk; discriminate).
      destruct (IH k last c ltac:(tauto) ltac:(intros _; exact Hl10) ltac:(lia) Hrest Hv) as [Hl Hn].
      split.
      * rewrite last_cons. exact Hl.
      * cbn [nn_free]. split; [|exact Hn]. intros [_ Hc']. contradiction.
Qed.

(* valid record text ends in a newline and contains no empty line after its first line *)
Lemma valid_text_bytes text :
  is_valid_record_text text = true ->
  exists t, text = t ++ [10] /\ nn_free 0 text.
Proof.
  intros Hv. unfold is_valid_record_text in Hv.
  destruct (valid_loop_bytes text O 0 0 ltac:(split; discriminate) ltac:(congruence) ltac:(lia)
              ltac:(constructor) Hv) as [Hl Hn].
  destruct text as [|c r] using rev_ind; [cbn in Hl; discriminate|].
  rewrite last_last in Hl. subst. eauto.
Qed.

Lemma index_nn_spec t rest : forall p,
  nn_free p (t ++ [10]) -> index_nn (t ++ 10 :: 10 :: rest) = Some (length t).
Proof.
  induction t as [|c t IH]; intros p Hn.
  - reflexivity.
  - cbn [app nn_free] in Hn. destruct Hn as [_ Hn].
    cbn [app index_nn length]. rewrite (IH c Hn).
    destruct (Z.eqb_spec c 10) as [->|]; [|reflexivity].
    destruct t as [|d t]; cbn [app nn_free] in Hn |- *.
    + exfalso. apply (proj1 Hn). auto.
    + destruct (Z.eqb_spec d 10) as [->|]; [|reflexivity]. exfalso. apply (proj1 Hn). auto.
Qed.

(* format_record fails exactly on invalid record text *)
Theorem format_record_ok_iff id text :
  (exists msg, format_record id text = Ok msg) <-> is_valid_record_text text = true.
Proof.
  unfold format_record. destruct (is_valid_record_text text); split; intros H; eauto;
    try discriminate. destruct H as [? H]. discriminate.
Qed.

Theorem format_record_err id text :
  is_valid_record_text text = false -> format_record id text = Err EMalformed.
Proof. unfold format_record. intros ->. reflexivity. Qed.

Theorem parse_format_record id text rest msg :
  - 2 ^ 63 <= id < 2 ^ 63 ->
  format_record id text = Ok msg ->
  parse_record (msg ++ rest) = Ok (id, text, rest).
Proof.
  intros Hid. unfold format_record. destruct (is_valid_record_text text) eqn:Hv; [|discriminate].
  intros [= <-]. destruct (valid_text_bytes text Hv) as [t [Et Hn]].
  unfold parse_record.
  set (fi := format_int id).
  assert (E0 : (fi ++ 10 :: text ++ [10]) ++ rest = fi ++ 10 :: (text ++ 10 :: rest))
    by (rewrite <- !app_assoc; cbn [app]; rewrite <- app_assoc; reflexivity).
  rewrite E0. rewrite index_of_app_notin by apply format_int_no10.
  rewrite firstn_app_exact. unfold fi at 1. rewrite parse_format_int by exact Hid.
  rewrite skipn_S_app. cbv zeta.
  assert (E1 : text ++ 10 :: rest = t ++ 10 :: 10 :: rest)
    by (rewrite Et, <- app_assoc; reflexivity).
  rewrite E1. rewrite Et in Hn. rewrite (index_nn_spec t rest 0 Hn).
  rewrite firstn_S_app, skipn_SS_app, <- Et, Hv. reflexivity.
Qed.
