(* Tlog/TileReaderOld.v — HISTORICAL, DEFECTIVE version of TileHashReader.ReadHashes, kept only
   for the lemmas of TileProofsOld.v (read_hashes_sound_unfixed_refuted and the SHA-256 replay).
   This is the code as it was BEFORE the fix "sumdb/tlog: authenticate every non-tree-hash tile
   in TileHashReader.ReadHashes": the loop that authenticates tiles against their parents started at
       for i := len(stx); i < len(tiles); i++
   (the number of tree-hash INDEXES) instead of the number of deduplicated tree-hash TILES, so the
   tiles in between were never checked.  Nothing else differs from Tlog/TileReader.v; do not use
   this file for anything but those lemmas.  Model file: no proofs here.

   Exported: check_and_extract_old, tile_read_hashes_old (same types as the current versions). *)
From Verif.Base Require Import Bytes.
From Verif.Tlog Require Import Index Tree Tile TileReader.

Section Hash.
Variable node_hash : hash -> hash -> hash.

Definition check_and_extract_old (tree : Z * hash) (p : plan) (indexes : list Z) (data : list str)
  : tres (list hash) * option (list tile * list str) :=
  let N := fst tree in
  let tiles := p_tiles p in
  if negb (Nat.eqb (length data) (length tiles)) then (TErr TEBadResult, None)
  else if negb (check_lengths tiles data) then (TErr TEBadResult, None)
  else
    match auth_stx node_hash p data (snd tree) with
    | TPanic => (TPanic, None)
    | TErr e => (TErr e, None)
    | TOk _ =>
        (* THE DEFECT: length (p_stx p) where the fixed code has p_nstx p *)
        let rest := skipn (length (p_stx p)) (combine (seq 0 (length tiles)) tiles) in
        match auth_rest node_hash N (p_order p) tiles data rest with
        | TPanic => (TPanic, None)
        | TErr e => (TErr e, None)
        | TOk _ => (extract node_hash tiles data (combine indexes (p_index_order p)), Some (tiles, data))
        end
    end.

Definition tile_read_hashes_old (tree : Z * hash) (h : Z) (indexes : list Z) (read_tiles : tile_reader)
  : tres (list hash) * option (list tile * list str) :=
  if (h <? 1) || (62 <? h) then (TErr TEDomain, None)
  else
    match make_plan (fst tree) h indexes with
    | TPanic => (TPanic, None)
    | TErr e => (TErr e, None)
    | TOk p =>
        match read_tiles (p_tiles p) with
        | None => (TErr TEReader, None)
        | Some data => check_and_extract_old tree p indexes data
        end
    end.

End Hash.
