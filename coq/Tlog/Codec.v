(* Tlog/Codec.v — model of /repo/sumdb/tlog/note.go (FormatTree/ParseTree, FormatRecord/
   ParseRecord, isValidRecordText) and of the text forms of Hash in tlog.go (String,
   ParseHash, MarshalJSON, UnmarshalJSON).  Model file: no proofs here (see ProofsCodec.v).

   Exported names and types
     tree                 := Tree { tN : Z; tH : str }            tlog.Tree{N, Hash}
     hash_string          : str -> str                            Hash.String (base64)
     parse_hash           : str -> res str                        ParseHash; Err EMalformed
     hash_marshal_json    : str -> str
     hash_unmarshal_json  : str -> res str                        Err EMalformed ("cannot decode hash")
     format_tree          : tree -> str
     parse_tree           : str -> res tree                       Err EMalformed
     is_valid_record_text : str -> bool
     format_record        : Z -> str -> res str                   (id text); Err EMalformed
     parse_record         : str -> res (Z * str * str)            Ok (id, text, rest); Err EMalformed
   res / err_kind are those of Tlog/Index.v. *)
From Verif.Base Require Import Bytes Utf8 Base64 Strconv.
From Verif.Gen Require Import GenConsts.
From Verif.Tlog Require Import Index.

Record tree := Tree { tN : Z; tH : str }.

(* func (h Hash) String() string *)
Definition hash_string (h : str) : str := b64_encode h.

(* func ParseHash(s string) (Hash, error) *)
Definition parse_hash (s : str) : res str :=
  match b64_decode s with
  | Some d => if len d =? tlog_HashSize then Ok d else Err EMalformed
  | None => Err EMalformed
  end.

(* func (h Hash) MarshalJSON() ([]byte, error) *)
Definition hash_marshal_json (h : str) : str := 34 :: hash_string h ++ [34].

(* func (h *Hash) UnmarshalJSON(data []byte) error
   len(data) = 46, data[0] = '"', data[44] = '=', data[45] = '"', and
   base64.RawStdEncoding.Decode of the 43 bytes in between must yield 32 bytes.  The raw
   decoder skips '\r' and '\n' and rejects '='; with fewer than 43 alphabet characters it
   cannot produce 32 bytes, so the input is accepted iff all 43 are alphabet characters, and
   the value is that of the padded decoder on the 44 characters. *)
Definition hash_unmarshal_json (data : str) : res str :=
  match data with
  | q :: r =>
      let body := firstn 43 r in
      if (len data =? 46) && (q =? 34) && str_eqb (skipn 43 r) [61; 34]
         && forallb (fun c => match sextet c with Some _ => true | None => false end) body
      then match b64_decode (body ++ [61]) with
           | Some d => if len d =? tlog_HashSize then Ok d else Err EMalformed
           | None => Err EMalformed
           end
      else Err EMalformed
  | [] => Err EMalformed
  end.

(* func FormatTree(tree Tree) []byte: fmt.Sprintf("go.sum database tree\n%d\n%s\n", N, Hash) *)
Definition format_tree (t : tree) : str :=
  tlog_treePrefix ++ format_int (tN t) ++ [10] ++ hash_string (tH t) ++ [10].

Definition count_byte (c : Z) (s : str) : Z := len (filter (fun x => x =? c) s).

(* func ParseTree(text []byte) (tree Tree, err error) *)
Definition parse_tree (text : str) : res tree :=
  if negb (has_prefix text tlog_treePrefix) || (count_byte 10 text <? 3) || (1000000 <? len text)
  then Err EMalformed
  else
    match split_on 10 text with                 (* strings.SplitN(text, "\n", 4): lines[1], lines[2] *)
    | _ :: l1 :: l2 :: _ =>
        match parse_int64 l1 with
        | None => Err EMalformed
        | Some n =>
            if (n <? 0) || negb (str_eqb l1 (format_int n)) then Err EMalformed
            else
              match b64_decode l2 with
              | Some h => if len h =? tlog_HashSize then Ok (Tree n h) else Err EMalformed
              | None => Err EMalformed
              end
        end
    | _ => Panic                                (* unreachable: at least three newlines *)
    end.

(* func isValidRecordText(text []byte) bool
   [skip] counts the remaining bytes of the rune just decoded (i += size) *)
Fixpoint valid_text_loop (skip : nat) (last : Z) (s : str) : bool :=
  match s with
  | [] => last =? 10
  | _ :: rest =>
      match skip with
      | S k => valid_text_loop k last rest
      | O =>
          let (r, w) := Utf8.decode s in
          if ((r <? 32) && negb (r =? 10))
             || ((r =? rune_error) && Nat.eqb w 1)
             || ((last =? 10) && (r =? 10))
          then false
          else valid_text_loop (Nat.pred w) r rest
      end
  end.

Definition is_valid_record_text (text : str) : bool := valid_text_loop O 0 text.

(* func FormatRecord(id int64, text []byte) (msg []byte, err error) *)
Definition format_record (id : Z) (text : str) : res str :=
  if is_valid_record_text text then Ok (format_int id ++ [10] ++ text ++ [10])
  else Err EMalformed.

(* bytes.Index(msg, "\n\n") *)
Fixpoint index_nn (s : str) : option nat :=
  match s with
  | [] => None
  | c :: r =>
      if (c =? 10) && (match r with d :: _ => d =? 10 | [] => false end) then Some O
      else option_map S (index_nn r)
  end.

(* func ParseRecord(msg []byte) (id int64, text, rest []byte, err error) *)
Definition parse_record (msg : str) : res (Z * str * str) :=
  match index_of 10 msg with
  | None => Err EMalformed
  | Some i =>
      match parse_int64 (firstn i msg) with
      | None => Err EMalformed
      | Some id =>
          let msg' := skipn (S i) msg in
          match index_nn msg' with
          | None => Err EMalformed
          | Some j =>
              let text := firstn (S j) msg' in
              let rest := skipn (S (S j)) msg' in
              if is_valid_record_text text then Ok (id, text, rest) else Err EMalformed
          end
      end
  end.
