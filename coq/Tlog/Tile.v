(* Tlog/Tile.v — model of /repo/sumdb/tlog/tile.go up to (not including) TileHashReader,
   parametric in the node hash.  Model file: no proofs here (see TileProofs*.v).

   Exported names and types (hash := str and reader := list Z -> option (list hash) are Tlog/Tree.v's)
     terr   := TENotInTree      "indexes not in tree"
             | TEBadMath        "bad math in tileHashReader …" (internal-error branches of ReadHashes)
             | TEReader         the TileReader / HashReader returned an error
             | TEBadResult      "TileReader returned bad result slice …", ReadTileData's count mismatch
             | TEInconsistent   "downloaded inconsistent tile"
             | TEInvalidTile | TEShortData | TEWrongTile     the three errors of HashFromTile
             | TEBadPath        badPathError of ParseTilePath
             | TEIndex (k : err_kind)    an Err of Tlog/Index.v's functions (only EFuel can occur)
             | TEFuel           the model ran out of fuel (Go would loop for ever); excluded by theorems
             | TEDomain         outside the modelled domain of tile_read_hashes (height < 1 or > 62)
     tres A := TOk (a : A) | TErr (e : terr) | TPanic                 (TPanic = a Go panic)
     tbind  : tres A -> (A -> tres B) -> tres B ;   lift_res : res A -> tres A
     tile   := mkTile { tH; tL; tN; tW : Z }        tlog.Tile{H,L,N,W}; data tiles have tL = -1
     tile_eqb : tile -> tile -> bool                Go's == on Tile (map key equality)
     no_tile  : tile                                Tile{}
     hash_size : Z := 32
     pow2sh : Z -> Z                                Go's 1<<uint(x) on a 64-bit int for every x
     tile_for_index   : Z -> Z -> tres (tile * Z * Z)     tileForIndex(h, index) = (t, start, end);
                                                          TPanic for h <= 0 or a negative index
     tile_for_index_t : Z -> Z -> tres tile               TileForIndex
     tile_hash [node_hash]      : str -> tres hash        tileHash; TPanic on lengths not 32*2^k
     hash_from_tile [node_hash] : tile -> str -> Z -> tres hash        HashFromTile(t, data, index)
     new_tiles        : Z -> Z -> Z -> tres (list tile)   NewTiles(h, oldTreeSize, newTreeSize)
     read_tile_data   : tile -> reader -> tres str        ReadTileData(t, r)
     tile_path        : tile -> str                       Tile.Path (any Z fields; int64 wrap not modelled
                                                          except in parse_tile_path's accumulator)
     parse_tile_path  : str -> tres tile                  ParseTilePath
     tile_parent      : tile -> Z -> Z -> tile            tileParent(t, k, n)
     zrange : Z -> Z -> list Z                            [a, a+1, …, b-1]
   Integers are unbounded Z; shifts are Z.shiftl/Z.shiftr, which agree with Go's int64 shifts
   for non-negative operands while no intermediate value reaches 2^63 (theorems carry
   0 <= N < 2^62 and 1 <= h <= 30). *)
From Verif.Base Require Import Bytes Strconv.
From Verif.Tlog Require Import Index Tree.

Inductive terr :=
| TENotInTree | TEBadMath | TEReader | TEBadResult | TEInconsistent
| TEInvalidTile | TEShortData | TEWrongTile | TEBadPath
| TEIndex (k : err_kind) | TEFuel | TEDomain.

Inductive tres (A : Type) : Type :=
| TOk (a : A)
| TErr (e : terr)
| TPanic.
Arguments TOk {A} a.
Arguments TErr {A} e.
Arguments TPanic {A}.

Definition tbind {A B : Type} (r : tres A) (f : A -> tres B) : tres B :=
  match r with
  | TOk a => f a
  | TErr e => TErr e
  | TPanic => TPanic
  end.

Definition lift_res {A : Type} (r : res A) : tres A :=
  match r with
  | Ok a => TOk a
  | Err k => TErr (TEIndex k)
  | Panic => TPanic
  end.

Record tile := mkTile { tH : Z; tL : Z; tN : Z; tW : Z }.

Definition tile_eqb (a b : tile) : bool :=
  (tH a =? tH b) && (tL a =? tL b) && (tN a =? tN b) && (tW a =? tW b).

Definition no_tile : tile := mkTile 0 0 0 0.

Definition hash_size : Z := 32.

(* 1<<uint(x) on a 64-bit int: 0 when uint(x) >= 64 (x negative or >= 64), minInt64 at 63 *)
Definition pow2sh (x : Z) : Z :=
  if (x <? 0) || (64 <=? x) then 0
  else if x =? 63 then - 2 ^ 63
  else 2 ^ x.

Definition zrange (a b : Z) : list Z :=
  map (fun i => a + Z.of_nat i) (seq 0 (Z.to_nat (b - a))).

(* func tileForIndex(h int, index int64) (t Tile, start, end int) *)
Definition tile_for_index (h index : Z) : tres (tile * Z * Z) :=
  if h <=? 0 then TPanic            (* TileForIndex panics for h <= 0; level / 0 panics *)
  else
    tbind (lift_res (split_stored_hash_index index)) (fun ln =>
      let level := fst ln in
      let n := snd ln in
      let tl := Z.quot level h in
      let level' := level - tl * h in                           (* level within tile *)
      let tn := Z.shiftr (Z.shiftl n level') h in
      let n' := n - Z.shiftr (Z.shiftl tn h) level' in          (* n within tile at level *)
      let tw := Z.shiftl (n' + 1) level' in
      TOk (mkTile h tl tn tw,
           Z.shiftl n' level' * hash_size,
           Z.shiftl (n' + 1) level' * hash_size)).

(* func TileForIndex(h int, index int64) Tile *)
Definition tile_for_index_t (h index : Z) : tres tile :=
  tbind (tile_for_index h index) (fun r => TOk (fst (fst r))).

(* func tileParent(t Tile, k int, n int64) Tile *)
Definition tile_parent (t : tile) (k n : Z) : tile :=
  let l := tL t + k in
  let tn := Z.shiftr (tN t) (k * tH t) in
  let w := 2 ^ tH t in
  let max := Z.shiftr n (l * tH t) in
  if max <=? Z.shiftl tn (tH t) + w then
    if max <=? Z.shiftl tn (tH t) then no_tile
    else mkTile (tH t) l tn (max - Z.shiftl tn (tH t))
  else mkTile (tH t) l tn w.

Section Hash.
Variable node_hash : hash -> hash -> hash.

(* func tileHash(data []byte) Hash *)
Fixpoint tile_hash_fuel (fuel : nat) (data : str) : tres hash :=
  match fuel with
  | O => TErr TEFuel
  | S f =>
      match data with
      | [] => TPanic                                            (* panic("bad math in tileHash") *)
      | _ =>
          if Nat.eqb (length data) 32 then TOk data
          else
            let n := Nat.div2 (length data) in
            tbind (tile_hash_fuel f (firstn n data)) (fun a =>
            tbind (tile_hash_fuel f (skipn n data)) (fun b =>
            TOk (node_hash a b)))
      end
  end.

Definition tile_hash (data : str) : tres hash :=
  tile_hash_fuel (Nat.log2 (length data) + 3) data.

(* func HashFromTile(t Tile, data []byte, index int64) (Hash, error) *)
Definition hash_from_tile (t : tile) (data : str) (index : Z) : tres hash :=
  if (tH t <? 1) || (30 <? tH t) || (tL t <? 0) || (64 <=? tL t) || (tW t <? 1) || (2 ^ tH t <? tW t)
  then TErr TEInvalidTile
  else if len data <? tW t * hash_size then TErr TEShortData
  else
    tbind (tile_for_index (tH t) index) (fun r =>
      let t1 := fst (fst r) in
      let s := snd (fst r) in
      let e := snd r in
      if negb (tL t =? tL t1) || negb (tN t =? tN t1) || (tW t <? tW t1) then TErr TEWrongTile
      else tile_hash (firstn (Z.to_nat (e - s)) (skipn (Z.to_nat s) data))).

End Hash.

(* func NewTiles(h int, oldTreeSize, newTreeSize int64) []Tile
   the loop ends at the first level with newTreeSize>>(H*level) = 0; 65 levels are enough
   for sizes below 2^63 *)
Fixpoint new_tiles_loop (fuel : nat) (h level old new : Z) : tres (list tile) :=
  if 0 <? Z.shiftr new (h * level) then
    match fuel with
    | O => TErr TEFuel
    | S f =>
        let oldN := Z.shiftr old (h * level) in
        let newN := Z.shiftr new (h * level) in
        let here :=
          if oldN =? newN then []
          else
            let n := Z.shiftr newN h in
            let w := newN - Z.shiftl n h in
            map (fun n => mkTile h level n (2 ^ h)) (zrange (Z.shiftr oldN h) n)
            ++ (if 0 <? w then [mkTile h level n w] else []) in
        tbind (new_tiles_loop f h (level + 1) old new) (fun r => TOk (here ++ r))
    end
  else TOk [].

Definition new_tiles (h old new : Z) : tres (list tile) :=
  if h <=? 0 then TPanic else new_tiles_loop 65 h 0 old new.

(* func ReadTileData(t Tile, r HashReader) ([]byte, error) *)
Definition read_tile_data (t : tile) (read : reader) : tres str :=
  let size := if tW t =? 0 then pow2sh (tH t) else tW t in
  if size <? 0 then TPanic                                      (* make([]int64, size) *)
  else
    let start := Z.shiftl (tN t) (tH t) in
    let indexes := map (fun i => stored_hash_index (tH t * tL t) (start + i)) (zrange 0 size) in
    match read indexes with
    | None => TErr TEReader
    | Some hs =>
        if Nat.eqb (length hs) (length indexes) then TOk (concat hs) else TErr TEBadResult
    end.

(* fmt.Sprintf("%03d", k): width 3 including the sign *)
Definition pad_to (k : nat) (s : str) : str :=
  repeat 48 (k - length s) ++ s.

Definition fmt03 (k : Z) : str :=
  if k <? 0 then 45 :: pad_to 2 (format_uint (- k)) else pad_to 3 (format_uint k).

(* for n >= pathBase { n /= pathBase; nStr = fmt.Sprintf("x%03d/%s", n%pathBase, nStr) }
   Go's / and % truncate (Z.quot, Z.rem); they differ from div/mod only for negative n *)
Fixpoint path_n_loop (fuel : nat) (n : Z) (acc : str) : str :=
  match fuel with
  | O => acc
  | S f =>
      if 1000 <=? n then
        let n' := Z.quot n 1000 in
        path_n_loop f n' (120 :: fmt03 (Z.rem n' 1000) ++ 47 :: acc)
      else acc
  end.

(* func (t Tile) Path() string *)
Definition tile_path (t : tile) : str :=
  let n := tN t in
  let nstr := path_n_loop (S (Z.to_nat (Z.log2 n))) n (fmt03 (Z.rem n 1000)) in
  let pstr := if tW t =? pow2sh (tH t) then [] else B ".p/" ++ format_int (tW t) in
  let lstr := if tL t =? -1 then B "data" else format_int (tL t) in
  B "tile/" ++ format_int (tH t) ++ 47 :: lstr ++ 47 :: nstr ++ pstr.

Definition trim_x (s : str) : str :=
  match s with
  | 120 :: r => r
  | _ => s
  end.

Definition wrap64 (z : Z) : Z := (z + 2 ^ 63) mod 2 ^ 64 - 2 ^ 63.

(* for _, s := range f { nn, err := strconv.Atoi(strings.TrimPrefix(s, "x")); … n = n*pathBase + int64(nn) } *)
Fixpoint parse_n (f : list str) (n : Z) : option Z :=
  match f with
  | [] => Some n
  | s :: r =>
      match atoi (trim_x s) with
      | Some nn => if (nn <? 0) || (1000 <=? nn) then None else parse_n r (wrap64 (n * 1000 + nn))
      | None => None
      end
  end.

Definition strip_dot_p (s : str) : str := firstn (length s - 2) s.

(* func ParseTilePath(path string) (Tile, error) *)
Definition parse_tile_path (path : str) : tres tile :=
  let f := split_on 47 path in
  match f with
  | f0 :: f1 :: f2 :: _ :: _ =>
      if negb (str_eqb f0 (B "tile")) then TErr TEBadPath
      else
        let is_data := str_eqb f2 (B "data") in
        let f2' := if is_data then B "0" else f2 in
        (* f with f[2] replaced *)
        let f' := f0 :: f1 :: f2' :: skipn 3 f in
        match atoi f1, atoi f2' with
        | Some h, Some l =>
            if (h <? 1) || (l <? 0) || (30 <? h) then TErr TEBadPath
            else
              let nf := length f' in
              let dotp := nth (nf - 2) f' [] in
              let after_p : option (Z * list str) :=
                if has_suffix dotp (B ".p") then
                  match atoi (nth (nf - 1) f' []) with
                  | Some ww =>
                      if (ww <=? 0) || (2 ^ h <=? ww) then None
                      else Some (ww, firstn (nf - 2) f' ++ [strip_dot_p dotp])
                  | None => None
                  end
                else Some (2 ^ h, f') in
              match after_p with
              | None => TErr TEBadPath
              | Some (w, f'') =>
                  match parse_n (skipn 3 f'') 0 with
                  | None => TErr TEBadPath
                  | Some n =>
                      let t := mkTile h (if is_data then -1 else l) n w in
                      if str_eqb path (tile_path t) then TOk t else TErr TEBadPath
                  end
              end
        | _, _ => TErr TEBadPath
        end
  | _ => TErr TEBadPath
  end.
