(* Tlog/ProofsPath.v — the record-proof theorems in terms of the RFC 6962 functions of
   Spec6962.v: ProveRecord = PATH, CheckRecord accepts PATH, CheckRecord is sound for MTH. *)
From Verif.Base Require Import Bytes.
From Verif.Tlog Require Import Index Tree Spec6962 ProofsIndex ProofsSpec ProofsTree ProofsStore ProofsRecord.

Section PathSpec.
Variable leaf_hash : str -> hash.
Variable node_hash : hash -> hash -> hash.

(* ------------------------------------------------------------------ equations of PATH *)

Lemma path_fuel_irrel f1 : forall f2 m l, (length l <= f1)%nat -> (length l <= f2)%nat ->
  path_fuel node_hash f1 m l = path_fuel node_hash f2 m l.
Proof.
  induction f1 as [|f1 IH]; intros f2 m l H1 H2.
  - destruct l as [|a [|b r]]; cbn in H1; try lia; destruct f2; reflexivity.
  - destruct l as [|a [|b r]]; try (destruct f2; reflexivity).
    destruct f2 as [|f2]; [cbn in H2; lia|].
    cbn [path_fuel].
    set (l := a :: b :: r) in *.
    assert (Hlen : 2 <= zlen l) by (unfold zlen, l; cbn [length]; lia).
    pose proof (split_point_bounds (zlen l) Hlen) as Hk.
    set (k := split_point (zlen l)) in *.
    assert (Hk' : (1 <= Z.to_nat k < length l)%nat) by (unfold zlen in *; lia).
    destruct (m <? k); f_equal; apply IH; rewrite ?firstn_length, ?skipn_length; lia.
Qed.

Lemma path_one m x : path node_hash m [x] = [].
Proof. reflexivity. Qed.

Lemma path_split m l :
  2 <= zlen l ->
  let k := split_point (zlen l) in
  path node_hash m l =
  if m <? k then path node_hash m (firstn (Z.to_nat k) l) ++ [mth node_hash (skipn (Z.to_nat k) l)]
  else path node_hash (m - k) (skipn (Z.to_nat k) l) ++ [mth node_hash (firstn (Z.to_nat k) l)].
Proof.
  intros Hlen k. pose proof (split_point_bounds (zlen l) Hlen) as Hk. fold k in Hk.
  assert (Hk' : (1 <= Z.to_nat k < length l)%nat) by (unfold zlen in *; lia).
  unfold path. destruct l as [|a [|b r]]; try (unfold zlen in Hlen; cbn in Hlen; lia).
  set (l := a :: b :: r) in *.
  change (length l) with (S (length (b :: r))) at 1.
  change (path_fuel node_hash (S (length (b :: r))) m l) with
    (if m <? k
     then path_fuel node_hash (length (b :: r)) m (firstn (Z.to_nat k) l) ++ [mth node_hash (skipn (Z.to_nat k) l)]
     else path_fuel node_hash (length (b :: r)) (m - k) (skipn (Z.to_nat k) l) ++ [mth node_hash (firstn (Z.to_nat k) l)]).
  assert (length l = S (length (b :: r))) by reflexivity.
  destruct (m <? k); f_equal; apply path_fuel_irrel; rewrite ?firstn_length, ?skipn_length; lia.
Qed.

(* ------------------------------------------------------------------ range hash of a list of leaf hashes *)

Definition lrange (L : list hash) (lo hi : Z) : hash := mth node_hash (slice L lo (hi - lo)).

Lemma lrange_splits L : T_splits node_hash (lrange L) (zlen L).
Proof.
  intros lo hi Hlo Hhi Hn. unfold lrange.
  set (S := slice L lo (hi - lo)).
  assert (HL : zlen S = hi - lo) by (apply slice_length; lia).
  pose proof (split_point_bounds (hi - lo) ltac:(lia)) as Hk.
  rewrite (mth_split node_hash S) by lia. cbv zeta. rewrite HL.
  set (k := split_point (hi - lo)) in *.
  unfold S. rewrite slice_firstn, slice_skipn by lia.
  replace (lo + k - lo) with k by lia. replace (hi - (lo + k)) with (hi - lo - k) by lia.
  reflexivity.
Qed.

Lemma range_hash_lrange recs lo hi :
  range_hash leaf_hash node_hash recs lo hi = lrange (map leaf_hash recs) lo hi.
Proof. unfold range_hash, lrange. rewrite slice_map. reflexivity. Qed.

Lemma lrange_all L : lrange L 0 (zlen L) = mth node_hash L.
Proof. unfold lrange. rewrite Z.sub_0_r, slice_all. reflexivity. Qed.

Lemma slice_singleton (L : list hash) n d :
  0 <= n < zlen L -> slice L n 1 = [nth (Z.to_nat n) L d].
Proof.
  intros Hn. apply slice_one; [lia|]. apply nth_error_nth'. unfold zlen in Hn. lia.
Qed.

Lemma lrange_leaf L n d : 0 <= n < zlen L -> lrange L n (n + 1) = nth (Z.to_nat n) L d.
Proof.
  intros Hn. unfold lrange. replace (n + 1 - n) with 1 by lia.
  rewrite (slice_singleton L n d Hn). reflexivity.
Qed.

Lemma IsPath_ext T T' lo hi n p :
  (forall a b, T a b = T' a b) -> IsPath T lo hi n p -> IsPath T' lo hi n p.
Proof.
  intros Hext. induction 1.
  - constructor.
  - rewrite Hext. apply IsPath_left; assumption.
  - rewrite Hext. apply IsPath_right; assumption.
Qed.

(* the relational path is the RFC 6962 PATH function *)
Lemma IsPath_path L lo hi n p :
  IsPath (lrange L) lo hi n p -> 0 <= lo -> hi <= zlen L ->
  p = path node_hash (n - lo) (slice L lo (hi - lo)).
Proof.
  induction 1 as [n|lo hi n p Hsz Hlt HP IH|lo hi n p Hsz Hge HP IH]; intros Hlo Hhi.
  - replace (n + 1 - n) with 1 by lia.
    rewrite (slice_singleton L n [] ltac:(lia)). reflexivity.
  - pose proof (split_point_bounds (hi - lo) ltac:(lia)) as Hk.
    set (S := slice L lo (hi - lo)).
    assert (HL : zlen S = hi - lo) by (apply slice_length; lia).
    rewrite (path_split (n - lo) S) by lia. cbv zeta. rewrite HL.
    set (k := split_point (hi - lo)) in *.
    destruct (Z.ltb_spec (n - lo) k); [|lia].
    unfold S. rewrite slice_firstn, slice_skipn by lia.
    rewrite IH by lia. unfold lrange.
    replace (lo + k - lo) with k by lia. replace (hi - (lo + k)) with (hi - lo - k) by lia.
    reflexivity.
  - pose proof (split_point_bounds (hi - lo) ltac:(lia)) as Hk.
    set (S := slice L lo (hi - lo)).
    assert (HL : zlen S = hi - lo) by (apply slice_length; lia).
    rewrite (path_split (n - lo) S) by lia. cbv zeta. rewrite HL.
    set (k := split_point (hi - lo)) in *.
    destruct (Z.ltb_spec (n - lo) k); [lia|].
    unfold S. rewrite slice_firstn, slice_skipn by lia.
    rewrite IH by lia. unfold lrange.
    replace (lo + k - lo) with k by lia. replace (hi - (lo + k)) with (hi - lo - k) by lia.
    replace (n - (lo + k)) with (n - lo - k) by lia.
    reflexivity.
Qed.

Lemma path_IsPath L f : forall lo hi n,
  hi - lo <= Z.of_nat f -> 0 <= lo -> lo <= n < hi -> hi <= zlen L ->
  IsPath (lrange L) lo hi n (path node_hash (n - lo) (slice L lo (hi - lo))).
Proof.
  induction f as [|f IH]; intros lo hi n Hf Hlo Hn Hhi; [lia|].
  destruct (Z.eq_dec (lo + 1) hi) as [E|E].
  - assert (n = lo) by lia. subst n hi. replace (lo + 1 - lo) with 1 by lia.
    rewrite (slice_singleton L lo [] ltac:(lia)). replace (lo - lo) with 0 by lia.
    rewrite path_one. constructor.
  - pose proof (split_point_bounds (hi - lo) ltac:(lia)) as Hk.
    set (S := slice L lo (hi - lo)).
    assert (HL : zlen S = hi - lo) by (apply slice_length; lia).
    rewrite (path_split (n - lo) S) by lia. cbv zeta. rewrite HL.
    set (k := split_point (hi - lo)) in *.
    unfold S. rewrite slice_firstn, slice_skipn by lia.
    destruct (Z.ltb_spec (n - lo) k).
    + replace (mth node_hash (slice L (lo + k) (hi - lo - k))) with (lrange L (lo + k) hi)
        by (unfold lrange; f_equal; f_equal; lia).
      apply IsPath_left; fold k; try lia.
      replace k with (lo + k - lo) at 2 by lia. apply IH; lia.
    + replace (mth node_hash (slice L lo k)) with (lrange L lo (lo + k))
        by (unfold lrange; f_equal; f_equal; lia).
      apply IsPath_right; fold k; try lia.
      replace (n - lo - k) with (n - (lo + k)) by lia.
      replace (hi - lo - k) with (hi - (lo + k)) by lia. apply IH; lia.
Qed.

(* ------------------------------------------------------------------ the theorems *)

(* prove_record_is_PATH *)
Theorem prove_record_is_PATH recs t n :
  zlen recs < 2 ^ 62 -> 0 <= n < t -> t <= zlen recs ->
  prove_record node_hash t n (reader_of (store_of leaf_hash node_hash recs))
  = Ok (path node_hash n (map leaf_hash (firstn (Z.to_nat t) recs))).
Proof.
  intros Hlen Hn Ht. destruct (store_of_inv leaf_hash node_hash recs Hlen) as [Hst _].
  destruct (prove_record_spec node_hash (range_hash leaf_hash node_hash recs) (zlen recs) _
              ltac:(lia) (range_hash_splits leaf_hash node_hash recs) Hst t n Hn Ht) as [p [E HP]].
  rewrite E. f_equal.
  apply (IsPath_ext _ (lrange (map leaf_hash recs))) in HP; [|apply range_hash_lrange].
  rewrite (IsPath_path _ _ _ _ _ HP) by (rewrite ?zlen_map; lia).
  rewrite !Z.sub_0_r. unfold slice. cbn [Z.to_nat skipn]. rewrite firstn_map. reflexivity.
Qed.

(* completeness: CheckRecord accepts the RFC 6962 audit path *)
Theorem check_record_complete L n d :
  zlen L <= 2 ^ 62 -> 0 <= n < zlen L ->
  check_record node_hash (path node_hash n L) (zlen L) (mth node_hash L) n (nth (Z.to_nat n) L d) = Ok tt.
Proof.
  intros HL Hn. unfold check_record.
  destruct (Z.ltb_spec (zlen L) 0), (Z.ltb_spec n 0), (Z.leb_spec (zlen L) n); try lia. cbn [orb].
  unfold run_record_proof.
  pose proof (path_IsPath L (length L) 0 (zlen L) n ltac:(unfold zlen; lia) ltac:(lia) ltac:(lia) ltac:(lia)) as HP.
  rewrite !Z.sub_0_r, slice_all in HP.
  rewrite <- (lrange_leaf L n d Hn).
  rewrite (run_record_proof_complete node_hash (lrange L) (zlen L) HL (lrange_splits L) 0 (zlen L) n _ HP)
    by lia.
  cbn [bind]. rewrite lrange_all, str_eqb_refl. reflexivity.
Qed.

(* soundness for the true tree: an accepted leaf hash is the one in the list, unless the
   run exhibits two different inputs of the node hash with the same output *)
Theorem check_record_sound L p n h d :
  zlen L <= 2 ^ 62 ->
  check_record node_hash p (zlen L) (mth node_hash L) n h = Ok tt ->
  0 <= n < zlen L /\ (h = nth (Z.to_nat n) L d \/ collision node_hash).
Proof.
  intros HL. unfold check_record.
  destruct (Z.ltb_spec (zlen L) 0), (Z.ltb_spec n 0), (Z.leb_spec (zlen L) n); cbn [orb];
    try discriminate.
  unfold run_record_proof.
  destruct (run_record_proof_rev node_hash (rev p) 0 (zlen L) n h) as [th2| |] eqn:E; cbn [bind];
    try discriminate.
  destruct (str_eqb_spec th2 (mth node_hash L)) as [->|]; [|discriminate].
  intros _. split; [lia|].
  rewrite <- (lrange_leaf L n d ltac:(lia)).
  apply (run_record_proof_sound node_hash (lrange L) (zlen L) HL (lrange_splits L) (rev p) 0 (zlen L) n h);
    try lia.
  rewrite lrange_all. exact E.
Qed.

End PathSpec.
