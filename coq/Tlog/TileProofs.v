(* Tlog/TileProofs.v — basic facts about the tile model (Tlog/Tile.v). *)
From Verif.Base Require Import Bytes.
From Verif.Tlog Require Import Index Tree Tile.

Lemma tile_eqb_eq a b : tile_eqb a b = true <-> a = b.
Proof.
  destruct a as [h1 l1 n1 w1], b as [h2 l2 n2 w2]; unfold tile_eqb; cbn [tH tL tN tW].
  rewrite !andb_true_iff, !Z.eqb_eq. split.
  - intros [[[-> ->] ->] ->]. reflexivity.
  - intros [= -> -> -> ->]. auto.
Qed.

Lemma tile_eqb_refl a : tile_eqb a a = true.
Proof. apply tile_eqb_eq. reflexivity. Qed.

(* ParseTilePath only accepts the canonical encoding: the final `path != t.Path()` test *)
Lemma parse_tile_path_canonical s t : parse_tile_path s = TOk t -> tile_path t = s.
Proof.
  unfold parse_tile_path. intros H.
  destruct (split_on 47 s) as [|f0 [|f1 [|f2 [|f3 fr]]]]; try discriminate.
  destruct (negb (str_eqb f0 (B "tile"))); [discriminate|].
  destruct (Strconv.atoi f1) as [h|]; [|discriminate].
  destruct (Strconv.atoi (if str_eqb f2 (B "data") then B "0" else f2)) as [l|]; [|discriminate].
  destruct ((h <? 1) || (l <? 0) || (30 <? h)); [discriminate|].
  match type of H with
  | match ?o with _ => _ end = _ => destruct o as [[w f'']|]; [|discriminate]
  end.
  destruct (parse_n (skipn 3 f'') 0) as [n|]; [|discriminate].
  match type of H with
  | (if str_eqb s ?p then _ else _) = _ => destruct (str_eqb s p) eqn:E; [|discriminate]
  end.
  injection H as <-. apply str_eqb_eq in E. symmetry. exact E.
Qed.

Lemma wrap64_range z : - 2 ^ 63 <= wrap64 z < 2 ^ 63.
Proof.
  unfold wrap64. pose proof (Z.mod_pos_bound (z + 2 ^ 63) (2 ^ 64) ltac:(lia)).
  assert (2 ^ 64 = 2 * 2 ^ 63) by reflexivity. lia.
Qed.

Lemma parse_n_range : forall f n0 n,
  parse_n f n0 = Some n -> - 2 ^ 63 <= n0 < 2 ^ 63 -> - 2 ^ 63 <= n < 2 ^ 63.
Proof.
  induction f as [|s r IH]; intros n0 n H Hn0; cbn [parse_n] in H.
  - injection H as <-. exact Hn0.
  - destruct (Strconv.atoi (trim_x s)) as [nn|]; [|discriminate].
    destruct ((nn <? 0) || (1000 <=? nn)); [discriminate|].
    apply (IH _ _ H). apply wrap64_range.
Qed.

(* the coordinates ParseTilePath returns (all of valid_tile except 0 <= tN, see Props/C10.v) *)
Lemma parse_tile_path_shape s t :
  parse_tile_path s = TOk t ->
  1 <= tH t <= 30 /\ -1 <= tL t /\ 1 <= tW t <= 2 ^ tH t /\ - 2 ^ 63 <= tN t < 2 ^ 63.
Proof.
  unfold parse_tile_path. intros H.
  destruct (split_on 47 s) as [|f0 [|f1 [|f2 [|f3 fr]]]]; try discriminate.
  destruct (negb (str_eqb f0 (B "tile"))); [discriminate|].
  destruct (Strconv.atoi f1) as [h|]; [|discriminate].
  destruct (Strconv.atoi (if str_eqb f2 (B "data") then B "0" else f2)) as [l|]; [|discriminate].
  destruct ((h <? 1) || (l <? 0) || (30 <? h)) eqn:Ec; [discriminate|].
  rewrite !orb_false_iff in Ec. destruct Ec as [[E1 E2] E3].
  apply Z.ltb_ge in E1, E2, E3.
  pose proof (Z.pow_pos_nonneg 2 h ltac:(lia) ltac:(lia)) as Hp.
  match type of H with
  | match ?o with _ => _ end = _ => destruct o as [[w f'']|] eqn:Eo; [|discriminate]
  end.
  assert (Hw : 1 <= w <= 2 ^ h).
  { destruct (has_suffix _ _) in Eo.
    - destruct (Strconv.atoi _) as [ww|] in Eo; [|discriminate].
      destruct ((ww <=? 0) || (2 ^ h <=? ww)) eqn:Ew; [discriminate|].
      rewrite orb_false_iff in Ew. destruct Ew as [W1 W2]. apply Z.leb_gt in W1, W2.
      injection Eo as <- _. lia.
    - injection Eo as <- _. lia. }
  destruct (parse_n (skipn 3 f'') 0) as [n|] eqn:En; [|discriminate].
  apply parse_n_range in En; [|lia].
  match type of H with
  | (if ?c then _ else _) = _ => destruct c; [|discriminate]
  end.
  injection H as <-. cbn [tH tL tN tW].
  repeat split; try lia. destruct (str_eqb f2 (B "data")); lia.
Qed.
