(* Tlog/TileProofs.v — basic facts about the tile model (Tlog/Tile.v). *)
From Verif.Base Require Import Bytes.
From Verif.Tlog Require Import Index Tree Tile.

Lemma tile_eqb_eq a b : tile_eqb a b = true <-> a = b.
Proof.
  destruct a as [h1 l1 n1 w1], b as [h2 l2 n2 w2]; unfold tile_eqb; cbn [tH tL tN tW].
  rewrite !andb_true_iff, !Z.eqb_eq. split.
  - intros [[[-> ->] ->] ->]. reflexivity.
  - intros [= -> -> -> ->]. auto.
Qed.

Lemma tile_eqb_refl a : tile_eqb a a = true.
Proof. apply tile_eqb_eq. reflexivity. Qed.
