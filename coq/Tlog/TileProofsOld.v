(* Tlog/TileProofsOld.v — the soundness statement is FALSE of the historical version of
   ReadHashes (Tlog/TileReaderOld.v, loop start len(stx)); witness of DESIGN.md section 7 F1:
   h = 2, N = 7, indexes = [0], tile {H2 L0 N0 W4} with one flipped bit.
   1. unfixed_accepts_flipped_tile_sha256: with the real SHA-256 and the true tree head of a
      7-record log, the flipped tile is accepted, handed to SaveTiles, and the wrong hash is
      returned; the fixed model rejects the same input (TEInconsistent).  By vm_compute.
   2. read_hashes_sound_unfixed_refuted: the statement of read_hashes_sound, with
      tile_read_hashes_old in place of tile_read_hashes, is refuted.  The statement quantifies
      over every node hash, so one instance suffices; with the injective "hash" a # b := a ++ b
      the absence of a Merkle path (not NodeAt) is provable outright, which for SHA-256 it
      could only be modulo collisions. *)
From Verif.Base Require Import Bytes Sha256.
From Verif.Tlog Require Import Index Tree Spec6962 ProofsSpec Sha Tile TileReader TileReaderOld TileSpec.

(* ---------------------------------------------------------------- 1. the replay with SHA-256 *)

Definition leaf7 (i : Z) : hash := record_hash [i].
Definition n2 := node_hash_sha.
Definition h01 := n2 (leaf7 0) (leaf7 1).
Definition h23 := n2 (leaf7 2) (leaf7 3).
Definition h45 := n2 (leaf7 4) (leaf7 5).
Definition h03 := n2 h01 h23.
Definition root7 : hash := n2 h03 (n2 h45 (leaf7 6)).

Definition t_l1 := mkTile 2 1 0 1.      (* tile/2/1/000.p/1 : the hash of records 0..3 *)
Definition t_l0b := mkTile 2 0 1 3.     (* tile/2/0/001.p/3 : records 4..6 *)
Definition t_l0a := mkTile 2 0 0 4.     (* tile/2/0/000     : records 0..3 *)

Definition flip_first (d : str) : str :=
  match d with
  | [] => []
  | b :: r => Z.lxor b 1 :: r
  end.

Definition true_l0a : str := leaf7 0 ++ leaf7 1 ++ leaf7 2 ++ leaf7 3.

(* the tile server: true tiles, except that tile/2/0/000 has its first bit flipped *)
Definition serve (flip : bool) (ts : list tile) : option (list str) :=
  Some (map (fun t =>
    if tile_eqb t t_l1 then h03
    else if tile_eqb t t_l0b then leaf7 4 ++ leaf7 5 ++ leaf7 6
    else if tile_eqb t t_l0a then (if flip then flip_first true_l0a else true_l0a)
    else []) ts).

Lemma unfixed_accepts_flipped_tile_sha256 :
  (* honest tiles: both versions return the true hash of record 0 *)
  fst (tile_read_hashes node_hash_sha (7, root7) 2 [0] (serve false)) = TOk [leaf7 0] /\
  fst (tile_read_hashes_old node_hash_sha (7, root7) 2 [0] (serve false)) = TOk [leaf7 0] /\
  (* flipped tile: the old version accepts it, returns a wrong hash and saves the wrong tile *)
  tile_read_hashes_old node_hash_sha (7, root7) 2 [0] (serve true)
    = (TOk [flip_first (leaf7 0)],
       Some ([t_l1; t_l0b; t_l0a], [h03; leaf7 4 ++ leaf7 5 ++ leaf7 6; flip_first true_l0a])) /\
  flip_first (leaf7 0) <> leaf7 0 /\
  (* the fixed version rejects it and saves nothing *)
  tile_read_hashes node_hash_sha (7, root7) 2 [0] (serve true) = (TErr TEInconsistent, None).
Proof.
  vm_compute. repeat split; congruence.
Qed.

(* ---------------------------------------------------------------- 2. the refutation *)

Definition cat_hash (a b : hash) : hash := a ++ b.

Definition e32 (b : Z) : str := repeat b 32.

(* any 32-byte entry will do for the level-1 tile: the old code never compares tile/2/0/000 with it *)
Definition c_root : hash := cat_hash (e32 9) (cat_hash (cat_hash (e32 4) (e32 5)) (e32 6)).

Definition c_serve (ts : list tile) : option (list str) :=
  Some (map (fun t =>
    if tile_eqb t t_l1 then e32 9
    else if tile_eqb t t_l0b then e32 4 ++ e32 5 ++ e32 6
    else if tile_eqb t t_l0a then e32 7 ++ e32 1 ++ e32 2 ++ e32 3
    else []) ts).

Lemma split_point_7 : split_point 7 = 4. Proof. reflexivity. Qed.
Lemma split_point_4 : split_point 4 = 2. Proof. reflexivity. Qed.
Lemma split_point_2 : split_point 2 = 1. Proof. reflexivity. Qed.

(* under a # b = a ++ b, a node authenticated at leaf 0 of a 7-leaf tree is a prefix of the root *)
Lemma cat_node_at_prefix R x :
  NodeAt cat_hash R 7 0 0 x -> exists s, R = x ++ s.
Proof.
  intros [_ [_ H]].
  inversion H as [? ? ? ? ? E1 E2 | ? ? ? ? ? ? a b H2 ER Hle Hn | ? ? ? ? ? ? a b H2 ER Hle Hn]; subst.
  - cbn in E2. discriminate.
  - change (7 - 0) with 7 in *. rewrite split_point_7 in *. change (0 + 4) with 4 in *.
    inversion Hn as [? ? ? ? ? E1 E2 | ? ? ? ? ? ? a1 b1 H2' ER' Hle' Hn' | ? ? ? ? ? ? a1 b1 H2' ER' Hle' Hn']; subst.
    + cbn in E2. discriminate.
    + change (4 - 0) with 4 in *. rewrite split_point_4 in *. change (0 + 2) with 2 in *.
      inversion Hn' as [? ? ? ? ? E1 E2 | ? ? ? ? ? ? a2 b2 H2'' ER'' Hle'' Hn'' | ? ? ? ? ? ? a2 b2 H2'' ER'' Hle'' Hn'']; subst.
      * cbn in E2. discriminate.
      * change (2 - 0) with 2 in *. rewrite split_point_2 in *. change (0 + 1) with 1 in *.
        inversion Hn'' as [? ? ? ? ? E1 E2 | ? ? ? ? ? ? a3 b3 H2''' | ? ? ? ? ? ? a3 b3 H2''']; subst; try lia.
        exists (b2 ++ b1 ++ b). unfold cat_hash. rewrite <- !app_assoc. reflexivity.
      * change (2 - 0) with 2 in *. rewrite split_point_2 in *. cbn in Hle''. lia.
    + change (4 - 0) with 4 in *. rewrite split_point_4 in *. cbn in Hle'. lia.
  - change (7 - 0) with 7 in *. rewrite split_point_7 in *. cbn in Hle. lia.
Qed.

Theorem read_hashes_sound_unfixed_refuted :
  ~ (forall (node_hash : hash -> hash -> hash) N R h ix rt hs ts ds,
       0 <= N <= 2 ^ 62 ->
       tile_read_hashes_old node_hash (N, R) h ix rt = (TOk hs, Some (ts, ds)) ->
       Forall2 (fun i x => exists l o, split_stored_hash_index i = Ok (l, o) /\ NodeAt node_hash R N l o x) ix hs /\
       Forall2 (tile_ok node_hash R N) ts ds).
Proof.
  intros H.
  assert (Hrun : tile_read_hashes_old cat_hash (7, c_root) 2 [0] c_serve
                 = (TOk [e32 7], Some ([t_l1; t_l0b; t_l0a],
                                       [e32 9; e32 4 ++ e32 5 ++ e32 6; e32 7 ++ e32 1 ++ e32 2 ++ e32 3])))
    by (vm_compute; reflexivity).
  destruct (H cat_hash 7 c_root 2 [0] c_serve _ _ _ ltac:(lia) Hrun) as [Hh _].
  inversion Hh as [|i x l l' [l0 [o0 [Hs Hn]]] F]; subst.
  vm_compute in Hs. injection Hs as <- <-.
  destruct (cat_node_at_prefix _ _ Hn) as [s Es].
  vm_compute in Es. discriminate.
Qed.
