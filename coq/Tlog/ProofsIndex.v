(* Tlog/ProofsIndex.v — proofs about the index arithmetic of Tlog/Index.v:
   closed forms of StoredHashIndex / StoredHashCount, SplitStoredHashIndex is its inverse
   (both directions, never panics, fuel suffices), no int64 overflow under the guard. *)
From Verif.Base Require Import Bytes.
From Verif.Tlog Require Import Index.

(* ------------------------------------------------------------------ spec-level functions *)

Fixpoint popcount_pos (p : positive) : Z :=
  match p with
  | xH => 1
  | xO q => popcount_pos q
  | xI q => 1 + popcount_pos q
  end.

(* number of 1 bits of a non-negative number *)
Definition popcount (n : Z) : Z :=
  match n with
  | Zpos p => popcount_pos p
  | _ => 0
  end.

(* number of trailing zero bits of a positive number *)
Definition tz (x : Z) : Z :=
  match x with
  | Zpos p => tz_pos p
  | _ => 0
  end.

(* ------------------------------------------------------------------ pow2 helpers *)

Lemma pow2_pos l : 0 <= l -> 0 < 2 ^ l.
Proof. intros; apply Z.pow_pos_nonneg; lia. Qed.

Lemma pow2_succ l : 0 <= l -> 2 ^ (l + 1) = 2 * 2 ^ l.
Proof. intros; rewrite Z.pow_add_r by lia. change (2 ^ 1) with 2. lia. Qed.

Lemma pow2_le a b : 0 <= a <= b -> 2 ^ a <= 2 ^ b.
Proof. intros; apply Z.pow_le_mono_r; lia. Qed.

Lemma pow2_lt a b : 0 <= a < b -> 2 ^ a < 2 ^ b.
Proof. intros; apply Z.pow_lt_mono_r; lia. Qed.

(* ------------------------------------------------------------------ popcount, tz *)

Lemma popcount_pos_pos p : 0 < popcount_pos p.
Proof. induction p; cbn [popcount_pos]; lia. Qed.

Lemma popcount_nonneg n : 0 <= popcount n.
Proof. destruct n; cbn [popcount]; try lia. pose proof (popcount_pos_pos p); lia. Qed.

Lemma tz_pos_nonneg p : 0 <= tz_pos p.
Proof. induction p; cbn [tz_pos]; lia. Qed.

Lemma tz_nonneg x : 0 <= tz x.
Proof. destruct x; cbn [tz]; try lia. apply tz_pos_nonneg. Qed.

Lemma popcount_pos_le_size p : popcount_pos p <= Zpos (Pos.size p).
Proof. induction p; cbn [popcount_pos Pos.size]; lia. Qed.

Lemma popcount_le_log2 n : 0 < n -> popcount n <= Z.log2 n + 1.
Proof.
  destruct n as [|p|p]; try lia. intros _. cbn [popcount].
  destruct p as [q|q|]; cbn [Z.log2 popcount_pos]; try pose proof (popcount_pos_le_size q); lia.
Qed.

Lemma popcount_le n : 0 <= n -> popcount n <= n.
Proof.
  destruct n as [|p|p]; cbn [popcount]; try lia. intros _.
  induction p; cbn [popcount_pos]; lia.
Qed.

Lemma popcount_pos_succ p :
  popcount_pos (Pos.succ p) + tz_pos (Pos.succ p) = popcount_pos p + 1.
Proof. induction p; cbn [Pos.succ popcount_pos tz_pos]; lia. Qed.

Lemma popcount_succ n : 0 <= n -> popcount (n + 1) + tz (n + 1) = popcount n + 1.
Proof.
  destruct n as [|p|p]; try lia; intros _.
  - reflexivity.
  - replace (Zpos p + 1) with (Zpos (Pos.succ p)) by lia. cbn [popcount tz].
    apply popcount_pos_succ.
Qed.

Lemma tz_double x : 0 < x -> tz (2 * x) = 1 + tz x.
Proof. destruct x; try lia. intros _. reflexivity. Qed.

Lemma tz_odd x : 0 <= x -> tz (2 * x + 1) = 0.
Proof. destruct x; try lia; intros _; reflexivity. Qed.

Lemma tz_divides x : 0 < x -> forall l, 0 <= l <= tz x -> (2 ^ l | x).
Proof.
  destruct x as [|p|p]; try lia. intros _. cbn [tz].
  induction p as [p IH|p IH|]; cbn [tz_pos]; intros l Hl.
  - assert (l = 0) by lia. subst. apply Z.divide_1_l.
  - destruct (Z.eq_dec l 0) as [->|Hn]; [apply Z.divide_1_l|].
    replace l with ((l - 1) + 1) by lia. rewrite pow2_succ by lia.
    change (Zpos p~0) with (2 * Zpos p). apply Z.mul_divide_mono_l. apply IH. lia.
  - assert (l = 0) by lia. subst. apply Z.divide_1_l.
Qed.

Lemma trailing_zeros64_tz x : 0 < x < 2 ^ 64 -> trailing_zeros64 x = tz x.
Proof.
  intros H. unfold trailing_zeros64, two64. rewrite Z.mod_small by lia.
  destruct x; try lia. reflexivity.
Qed.

Lemma to_pos_tz p : to_pos p = tz_pos (Pos.succ p).
Proof. induction p; cbn [to_pos Pos.succ tz_pos]; lia. Qed.

Lemma trailing_ones64_tz x : 0 <= x < 2 ^ 64 -> trailing_ones64 x = tz (x + 1).
Proof.
  intros H. unfold trailing_ones64, two64. rewrite Z.mod_small by lia.
  destruct x as [|p|p]; try lia.
  - reflexivity.
  - replace (Zpos p + 1) with (Zpos (Pos.succ p)) by lia. cbn [tz]. apply to_pos_tz.
Qed.

(* ------------------------------------------------------------------ the two loops of StoredHashIndex *)

Lemma sum_shifts_pos_eq p : sum_shifts_pos p = 2 * Zpos p - popcount_pos p.
Proof. induction p; cbn [sum_shifts_pos popcount_pos]; lia. Qed.

Lemma sum_shifts_eq n : 0 <= n -> sum_shifts n = 2 * n - popcount n.
Proof.
  destruct n; try lia; intros _; cbn [sum_shifts popcount]; [lia|apply sum_shifts_pos_eq].
Qed.

Lemma sum_shifts_succ n : 0 <= n -> sum_shifts (n + 1) = sum_shifts n + 1 + tz (n + 1).
Proof.
  intros H. rewrite !sum_shifts_eq by lia. pose proof (popcount_succ n H). lia.
Qed.

Lemma level_up_0 n : level_up 0 n = n.
Proof. reflexivity. Qed.

Lemma level_up_succ l n : 0 <= l -> level_up (l + 1) n = 2 * level_up l n + 1.
Proof.
  intros H. unfold level_up. rewrite !iter_nat_of_Z by lia.
  replace (Z.abs_nat (l + 1)) with (S (Z.abs_nat l)) by lia. reflexivity.
Qed.

Lemma level_up_neg l n : l <= 0 -> level_up l n = n.
Proof. destruct l; try lia; reflexivity. Qed.

Lemma level_up_closed l n : 0 <= l -> level_up l n = (n + 1) * 2 ^ l - 1.
Proof.
  intros H. pattern l. apply natlike_ind; [|intros x Hx IH|exact H].
  - rewrite level_up_0. change (2 ^ 0) with 1. lia.
  - unfold Z.succ. rewrite level_up_succ, IH, pow2_succ by lia. lia.
Qed.

Lemma level_up_nonneg l n : 0 <= n -> 0 <= level_up l n.
Proof.
  intros Hn. destruct (Z_le_gt_dec 0 l) as [H|H].
  - rewrite level_up_closed by lia. pose proof (pow2_pos l H). nia.
  - rewrite level_up_neg by lia. lia.
Qed.

Lemma tz_level_up l n : 0 <= l -> 0 <= n -> tz (level_up l n + 1) = l + tz (n + 1).
Proof.
  intros H Hn. pattern l. apply natlike_ind; [|intros x Hx IH|exact H].
  - rewrite level_up_0. lia.
  - unfold Z.succ. rewrite level_up_succ by lia.
    replace (2 * level_up x n + 1 + 1) with (2 * (level_up x n + 1)) by lia.
    rewrite tz_double by (pose proof (level_up_nonneg x n Hn); lia). lia.
Qed.

(* ------------------------------------------------------------------ StoredHashIndex *)

(* position of the first hash written with record n *)
Definition first_index (n : Z) : Z := stored_hash_index 0 n.

Lemma first_index_eq n : 0 <= n -> first_index n = 2 * n - popcount n.
Proof. intros H. unfold first_index, stored_hash_index. rewrite level_up_0, sum_shifts_eq by lia. lia. Qed.

Lemma first_index_succ n : 0 <= n -> first_index (n + 1) = first_index n + 1 + tz (n + 1).
Proof.
  intros H. unfold first_index, stored_hash_index. rewrite !level_up_0.
  rewrite sum_shifts_succ by lia. lia.
Qed.

Lemma first_index_0 : first_index 0 = 0.
Proof. reflexivity. Qed.

Lemma first_index_lt_succ n : 0 <= n -> first_index n < first_index (n + 1).
Proof. intros H. rewrite first_index_succ by lia. pose proof (tz_nonneg (n + 1)). lia. Qed.

Lemma first_index_mono a b : 0 <= a <= b -> first_index a <= first_index b.
Proof.
  intros [Ha Hab]. replace b with (a + (b - a)) by lia.
  assert (Hd : 0 <= b - a) by lia. revert Hd. generalize (b - a) as d.
  intros d Hd. pattern d. apply natlike_ind; [| |exact Hd].
  - rewrite Z.add_0_r. lia.
  - intros x Hx IH. pose proof (first_index_lt_succ (a + x)).
    replace (a + Z.succ x) with (a + x + 1) by lia. lia.
Qed.

Lemma first_index_lt_inv a b : 0 <= a -> 0 <= b -> first_index a < first_index b -> a < b.
Proof.
  intros Ha Hb H. destruct (Z_lt_ge_dec a b) as [|Hge]; [assumption|].
  pose proof (first_index_mono b a). lia.
Qed.

Lemma first_index_ge n : 0 <= n -> n <= first_index n.
Proof. intros H. rewrite first_index_eq by lia. pose proof (popcount_le n H). lia. Qed.

Lemma first_index_le_double n : 0 <= n -> first_index n <= 2 * n.
Proof. intros H. rewrite first_index_eq by lia. pose proof (popcount_nonneg n). lia. Qed.

Lemma stored_hash_index_first l n :
  stored_hash_index l n = first_index (level_up l n) + l.
Proof. unfold first_index, stored_hash_index. rewrite level_up_0. lia. Qed.

(* index_formula *)
Lemma index_formula l n :
  0 <= l -> 0 <= n ->
  let m := (n + 1) * 2 ^ l - 1 in
  stored_hash_index l n = 2 * m - popcount m + l.
Proof.
  intros Hl Hn m. rewrite stored_hash_index_first, level_up_closed by lia.
  rewrite first_index_eq; [reflexivity|]. pose proof (pow2_pos l Hl). nia.
Qed.

Lemma stored_hash_index_nonneg l n : 0 <= l -> 0 <= n -> 0 <= stored_hash_index l n.
Proof.
  intros Hl Hn. rewrite stored_hash_index_first.
  pose proof (level_up_nonneg l n Hn). pose proof (first_index_ge _ H). lia.
Qed.

(* the hash (l, n) lies among those written with record level_up l n *)
Lemma stored_hash_index_window l n :
  0 <= l -> 0 <= n ->
  first_index (level_up l n) <= stored_hash_index l n < first_index (level_up l n + 1).
Proof.
  intros Hl Hn. rewrite stored_hash_index_first.
  pose proof (level_up_nonneg l n Hn). rewrite first_index_succ by lia.
  rewrite tz_level_up by lia. pose proof (tz_nonneg (n + 1)). lia.
Qed.

Lemma shiftr_level_up l n : 0 <= l -> 0 <= n -> Z.shiftr (level_up l n) l = n.
Proof.
  intros Hl Hn. rewrite Z.shiftr_div_pow2, level_up_closed by lia.
  pose proof (pow2_pos l Hl).
  replace ((n + 1) * 2 ^ l - 1) with (n * 2 ^ l + (2 ^ l - 1)) by lia.
  rewrite Z.div_add_l by lia. rewrite Z.div_small by lia. lia.
Qed.

Lemma level_up_shiftr l m :
  0 <= m -> 0 <= l <= tz (m + 1) -> level_up l (Z.shiftr m l) = m /\ 0 <= Z.shiftr m l.
Proof.
  intros Hm Hl. destruct (tz_divides (m + 1) ltac:(lia) l Hl) as [c Hc].
  pose proof (pow2_pos l (proj1 Hl)) as Hp.
  assert (Hc1 : 1 <= c) by nia.
  assert (Hs : Z.shiftr m l = c - 1).
  { rewrite Z.shiftr_div_pow2 by lia.
    replace m with ((c - 1) * 2 ^ l + (2 ^ l - 1)) by lia.
    rewrite Z.div_add_l by lia. rewrite Z.div_small by lia. lia. }
  rewrite Hs. split; [|lia]. rewrite level_up_closed by lia. lia.
Qed.

(* ------------------------------------------------------------------ SplitStoredHashIndex *)

Lemma split_loop_spec i :
  0 <= i < 2 ^ 63 ->
  forall fuel n ns,
    0 <= n <= ns -> ns - n < Z.of_nat fuel ->
    first_index ns <= i < first_index (ns + 1) ->
    split_loop fuel i n (first_index n) = Some (ns, first_index ns).
Proof.
  intros Hi. induction fuel as [|fuel IH]; intros n ns Hn Hf Hns; [lia|].
  cbn [split_loop].
  assert (Hns63 : ns < 2 ^ 63) by (pose proof (first_index_ge ns); lia).
  assert (H64 : 2 ^ 63 < 2 ^ 64) by (apply pow2_lt; lia).
  rewrite trailing_zeros64_tz by lia.
  rewrite <- first_index_succ by lia.
  destruct (Z.ltb_spec i (first_index (n + 1))) as [Hlt|Hge].
  - assert (ns < n + 1).
    { apply first_index_lt_inv; lia. }
    assert (ns = n) by lia. subst. reflexivity.
  - assert (ns <> n) by (intros ->; lia).
    apply IH; lia.
Qed.

Lemma exists_record_of_index i :
  0 <= i -> exists ns, 0 <= ns /\ first_index ns <= i < first_index (ns + 1).
Proof.
  intros Hi. pattern i. apply natlike_ind; [| |exact Hi].
  - exists 0. rewrite first_index_succ, first_index_0 by lia. cbn. lia.
  - intros x Hx [ns [Hns H]].
    destruct (Z_lt_ge_dec (Z.succ x) (first_index (ns + 1))) as [Hlt|Hge].
    + exists ns. lia.
    + exists (ns + 1). pose proof (first_index_lt_succ (ns + 1)). lia.
Qed.

Lemma split_fuel_enough i ns :
  0 <= i -> 0 <= ns -> first_index ns <= i ->
  ns - Z.quot i 2 < Z.of_nat (split_fuel i).
Proof.
  intros Hi Hns H. unfold split_fuel.
  rewrite Z.quot_div_nonneg by lia.
  pose proof (Z.log2_nonneg i).
  rewrite Nat2Z.inj_add, Z2Nat.id by lia.
  destruct (Z.eq_dec ns 0) as [->|Hn0].
  - pose proof (Z.div_pos i 2). lia.
  - rewrite first_index_eq in H by lia.
    pose proof (popcount_le_log2 ns ltac:(lia)).
    pose proof (first_index_ge ns Hns). rewrite first_index_eq in * by lia.
    assert (Z.log2 ns <= Z.log2 i) by (apply Z.log2_le_mono; lia).
    pose proof (Z.div_mod i 2 ltac:(lia)). pose proof (Z.mod_pos_bound i 2 ltac:(lia)).
    lia.
Qed.

Lemma split_of_record i ns :
  0 <= i < 2 ^ 63 -> 0 <= ns -> first_index ns <= i < first_index (ns + 1) ->
  split_stored_hash_index i = Ok (i - first_index ns, Z.shiftr ns (i - first_index ns)).
Proof.
  intros Hi Hns H. unfold split_stored_hash_index.
  assert (Hq : 0 <= Z.quot i 2) by (apply Z.quot_pos; lia).
  assert (Hq2 : 2 * Z.quot i 2 <= i).
  { rewrite Z.quot_div_nonneg by lia. pose proof (Z.div_mod i 2 ltac:(lia)).
    pose proof (Z.mod_pos_bound i 2 ltac:(lia)). lia. }
  fold (first_index (Z.quot i 2)).
  pose proof (first_index_le_double _ Hq).
  destruct (Z.ltb_spec i (first_index (Z.quot i 2))); [lia|].
  assert (Z.quot i 2 <= ns).
  { destruct (Z_le_gt_dec (Z.quot i 2) ns); [assumption|].
    pose proof (first_index_mono (ns + 1) (Z.quot i 2)). lia. }
  rewrite (split_loop_spec i Hi _ _ ns); [reflexivity|lia| |lia].
  apply split_fuel_enough; lia.
Qed.

(* SplitStoredHashIndex(StoredHashIndex(l, n)) = (l, n) *)
Lemma split_index l n :
  0 <= l -> 0 <= n -> stored_hash_index l n < 2 ^ 63 ->
  split_stored_hash_index (stored_hash_index l n) = Ok (l, n).
Proof.
  intros Hl Hn Hb.
  pose proof (stored_hash_index_window l n Hl Hn) as Hw.
  pose proof (stored_hash_index_nonneg l n Hl Hn).
  rewrite (split_of_record _ (level_up l n)); [| lia | apply level_up_nonneg; lia | exact Hw].
  rewrite stored_hash_index_first.
  replace (first_index (level_up l n) + l - first_index (level_up l n)) with l by lia.
  rewrite shiftr_level_up by lia. reflexivity.
Qed.

(* StoredHashIndex(SplitStoredHashIndex(i)) = i, without panic or fuel exhaustion *)
Lemma index_split i :
  0 <= i < 2 ^ 63 ->
  exists l n, split_stored_hash_index i = Ok (l, n) /\ 0 <= l /\ 0 <= n /\
              stored_hash_index l n = i.
Proof.
  intros Hi. destruct (exists_record_of_index i ltac:(lia)) as [ns [Hns H]].
  exists (i - first_index ns), (Z.shiftr ns (i - first_index ns)).
  split; [apply split_of_record; assumption|].
  rewrite first_index_succ in H by lia.
  destruct (level_up_shiftr (i - first_index ns) ns Hns ltac:(lia)) as [Hup Hnn].
  split; [lia|]. split; [assumption|].
  rewrite stored_hash_index_first, Hup. lia.
Qed.

Lemma split_no_panic i : 0 <= i < 2 ^ 63 -> split_stored_hash_index i <> Panic /\ split_stored_hash_index i <> Err EFuel.
Proof.
  intros Hi. destruct (index_split i Hi) as [l [n [H _]]]. rewrite H. split; discriminate.
Qed.

(* ------------------------------------------------------------------ StoredHashCount *)

Lemma stored_hash_count_first n : 0 <= n < 2 ^ 63 -> stored_hash_count n = first_index n.
Proof.
  intros Hn. unfold stored_hash_count.
  destruct (Z.eqb_spec n 0) as [->|Hn0]; [reflexivity|].
  assert (H64 : 2 ^ 63 < 2 ^ 64) by (apply pow2_lt; lia).
  rewrite trailing_ones64_tz by lia. fold (first_index (n - 1)).
  replace n with (n - 1 + 1) at 3 by lia. rewrite first_index_succ by lia.
  replace (n - 1 + 1) with n by lia. lia.
Qed.

Lemma stored_hash_count_spec n : 0 <= n < 2 ^ 63 -> stored_hash_count n = 2 * n - popcount n.
Proof. intros Hn. rewrite stored_hash_count_first, first_index_eq by lia. reflexivity. Qed.

(* a subtree (l, o) complete within n records is stored below the count, and conversely *)
Lemma index_lt_count l o n :
  0 <= l -> 0 <= o -> (o + 1) * 2 ^ l <= n -> stored_hash_index l o < first_index n.
Proof.
  intros Hl Ho H. pose proof (stored_hash_index_window l o Hl Ho) as Hw.
  pose proof (level_up_nonneg l o Ho).
  pose proof (first_index_mono (level_up l o + 1) n).
  rewrite level_up_closed in * by lia. lia.
Qed.

Lemma index_lt_count_inv l o n :
  0 <= l -> 0 <= o -> 0 <= n -> stored_hash_index l o < first_index n -> (o + 1) * 2 ^ l <= n.
Proof.
  intros Hl Ho Hn H. pose proof (stored_hash_index_window l o Hl Ho) as Hw.
  pose proof (level_up_nonneg l o Ho).
  assert (level_up l o < n) by (apply first_index_lt_inv; lia).
  rewrite level_up_closed in * by lia. lia.
Qed.

(* ------------------------------------------------------------------ no overflow *)

(* every intermediate value of StoredHashIndex(l, n) (the values of n in the first loop are
   level_up j n for j <= l, the partial sums of the second loop are bounded by the result)
   stays below 2^63 when the subtree (l, n) lies within 2^62 records *)
Lemma no_overflow_index l n :
  0 <= l -> 0 <= n -> (n + 1) * 2 ^ l <= 2 ^ 62 ->
  0 <= stored_hash_index l n < 2 ^ 63 /\
  (forall j, 0 <= j <= l -> 0 <= level_up j n < 2 ^ 62).
Proof.
  intros Hl Hn H. split.
  - split; [apply stored_hash_index_nonneg; lia|].
    rewrite index_formula by lia. cbv zeta.
    set (m := (n + 1) * 2 ^ l - 1).
    assert (Hm : 0 <= m) by (pose proof (pow2_pos l Hl); nia).
    (* the low l bits of m are ones: popcount m >= l *)
    assert (Hpop : l <= popcount m).
    { pose proof (popcount_succ m Hm) as Hs.
      assert (Ht : tz (m + 1) = l + tz (n + 1)).
      { unfold m. rewrite <- level_up_closed by lia. apply tz_level_up; lia. }
      pose proof (tz_nonneg (n + 1)). pose proof (popcount_nonneg (m + 1)).
      assert (0 < popcount (m + 1)).
      { destruct (m + 1) eqn:E; try lia. cbn [popcount]. apply popcount_pos_pos. }
      lia. }
    change (2 ^ 63) with (2 * 2 ^ 62). lia.
  - intros j Hj. split; [apply level_up_nonneg; lia|].
    rewrite level_up_closed by lia.
    assert (2 ^ j <= 2 ^ l) by (apply pow2_le; lia). pose proof (pow2_pos j ltac:(lia)). nia.
Qed.

Lemma no_overflow_index_log2 l n :
  0 <= n -> 0 <= l <= 61 - Z.log2 (n + 1) -> 0 <= stored_hash_index l n < 2 ^ 63.
Proof.
  intros Hn Hl. apply no_overflow_index; try lia.
  pose proof (Z.log2_spec (n + 1) ltac:(lia)) as [_ Hs].
  pose proof (Z.log2_nonneg (n + 1)).
  assert (2 ^ Z.succ (Z.log2 (n + 1)) * 2 ^ l <= 2 ^ 62).
  { rewrite <- Z.pow_add_r by lia. apply pow2_le. lia. }
  pose proof (pow2_pos l ltac:(lia)). nia.
Qed.

(* the bound of DESIGN.md (l <= 62 - log2 (n+1)) is off by one: *)
Lemma no_overflow_index_design_bound_refuted :
  exists l n, 0 <= n < 2 ^ 62 /\ 0 <= l <= 62 - Z.log2 (n + 1) /\ 2 ^ 63 <= stored_hash_index l n.
Proof. exists 61, 2. vm_compute. intuition discriminate. Qed.
