(* Reparse, part 15: [SynGood], an invariant of the edit operations that implies the comment
   part of [Printable] (Reparse9.v) once Cleanup has run.
     - every line of the heap: its Before comments are "//" comments without line feed (no
       blank-line markers), it has at most one end-of-line comment, which is such a comment and
       ASCII, and no After comments;
     - every block / comment block of the statement list: the same for its own comments; the
       comments before ")" may contain blank-line markers (never two in a row); a block header is
       one token, and it is a known block verb unless nothing stands before ")" (then the block
       was made by addLine, and Cleanup collapses it when one line is left).
   Part 1: the primitives of read.go (sset, salloc, addLine, Cleanup, removeDups, SortBlocks)
   and the string surgery of setIndirect / AddRetract. *)
From Coq Require Import Permutation.
From Verif.Base Require Import Bytes.
From Verif.Modfile Require Import Syntax Lex Parse Print ProofsLex RoundLexPure3 RoundTree Reparse1 Reparse2.
From Verif.Modfile Require Import EditModel EditOps EditSpec EditProofsTyped EditProofsHeap EditProofsCoherent
  EditProofsCleanup EditProofsAddLine EditProofsBlocks EditProofs2Settable EditProofs2Inv.

Arguments hget : simpl never.
Arguments hset : simpl never.

(* ---------------------------------------------------------------- strings *)

Definition nolf (s : str) : Prop := ~ In 10 s.

Lemma count_lf_nolf s : nolf s <-> count_lf s = 0.
Proof.
  unfold nolf, count_lf. induction s as [|c s IH]; cbn [filter In length]; [tauto|].
  destruct (c =? 10) eqn:E; cbn [length].
  - apply Z.eqb_eq in E. split; [intros H; exfalso; apply H; left; exact E|lia].
  - apply Z.eqb_neq in E. split; intros H.
    + apply IH. intros Hin. apply H. right. exact Hin.
    + intros [H1|H1]; [congruence|]. apply IH in H. exact (H H1).
Qed.

Lemma ctext_iff x : ctext x <-> has_prefix x [47; 47] = true /\ nolf x.
Proof. unfold RoundLexPure3.comment_text. rewrite count_lf_nolf. tauto. Qed.

Lemma incl_trim_left s : incl (EditModel.trim_left s) s.
Proof.
  induction s as [|c s IH]; cbn [EditModel.trim_left]; [intros x Hx; exact Hx|].
  destruct (is_space_ascii c); [intros x Hx; right; apply IH; exact Hx|intros x Hx; exact Hx].
Qed.

Lemma incl_trim_space s : incl (EditModel.trim_space s) s.
Proof.
  unfold EditModel.trim_space. intros x Hx. apply in_rev in Hx. apply incl_trim_left in Hx. apply in_rev in Hx.
  apply incl_trim_left in Hx. exact Hx.
Qed.

Lemma incl_skipn {A} k (s : list A) : incl (skipn k s) s.
Proof. revert s. induction k as [|k IH]; intros s x Hx; [exact Hx|]. destruct s; [exact Hx|]. right. apply IH. exact Hx. Qed.

Lemma incl_trim_prefix s p : incl (EditModel.trim_prefix s p) s.
Proof. unfold EditModel.trim_prefix. destruct (has_prefix s p); [apply incl_skipn|intros x Hx; exact Hx]. Qed.

Lemma incl_comment_text c : incl (EditModel.comment_text c) c.
Proof. unfold EditModel.comment_text. intros x Hx. apply incl_trim_space in Hx. apply incl_trim_prefix in Hx. exact Hx. Qed.

Lemma nolf_incl a b : incl a b -> nolf b -> nolf a.
Proof. intros Hi Hb Hin. apply Hb, Hi, Hin. Qed.

Lemma ascii_incl a b : incl a b -> ascii b -> ascii a.
Proof. intros Hi Hb. unfold ascii in *. rewrite Forall_forall in *. intros x Hx. apply Hb, Hi, Hx. Qed.

Lemma nolf_app a b : nolf a -> nolf b -> nolf (a ++ b).
Proof. intros Ha Hb Hin. apply in_app_iff in Hin as [H|H]; [exact (Ha H)|exact (Hb H)]. Qed.

Lemma ascii_app a b : ascii a -> ascii b -> ascii (a ++ b).
Proof. intros Ha Hb. apply Forall_app. split; assumption. Qed.

Lemma ctext_slashes t : nolf t -> ctext (slash_slash ++ t).
Proof.
  intros H. change slash_slash with [47; 47]. apply ctext_iff. split; [destruct t; reflexivity|]. apply nolf_app; [|exact H].
  intros [E|[E|[]]]; discriminate.
Qed.

Lemma split_on_nolf sep : forall s t, In t (split_on sep s) -> ~ In sep t.
Proof.
  induction s as [|c s IH]; intros t Ht; cbn [split_on] in Ht.
  - destruct Ht as [<-|[]]. intros [].
  - destruct (c =? sep) eqn:E.
    + destruct Ht as [<-|Ht]; [intros []|apply IH; exact Ht].
    + destruct (split_on sep s) as [|p rest] eqn:Es.
      * destruct Ht as [<-|[]]. intros [H|[]]. apply Z.eqb_neq in E. congruence.
      * destruct Ht as [<-|Ht].
        -- intros [H|H]; [apply Z.eqb_neq in E; congruence|]. apply (IH p); [left; reflexivity|exact H].
        -- apply IH. right. exact Ht.
Qed.

(* ---------------------------------------------------------------- the invariant *)

Definition lcoms_ok (c : coms) : Prop :=
  Forall ctext (c_before c) /\ sfx_ok (c_suffix c) /\ Forall ascii (c_suffix c) /\ c_after c = [].

Lemma sfx_nil : sfx_ok [].
Proof. split; [constructor|cbn; lia]. Qed.

Lemma lcoms_no : lcoms_ok no_coms.
Proof. split; [constructor|]. split; [apply sfx_nil|]. split; [constructor|reflexivity]. Qed.

Section Good.
Variable known : str -> bool.

Definition block_good (b : hblock) : Prop :=
  Forall ctext (c_before (hb_com b)) /\ c_suffix (hb_com b) = [] /\ c_after (hb_com b) = [] /\
  c_before (hb_lp b) = [] /\ sfx_ok (c_suffix (hb_lp b)) /\ c_after (hb_lp b) = [] /\
  Forall bcom_ok (c_before (hb_rp b)) /\ no_adj_blank (c_before (hb_rp b)) /\
  sfx_ok (c_suffix (hb_rp b)) /\ c_after (hb_rp b) = [] /\
  exists verb, hb_tok b = [verb] /\ (known verb = true \/ c_before (hb_rp b) = []).

Definition stmt_good (st : stmt) : Prop :=
  match st with
  | SLine _ => True
  | SBlock b => block_good b
  | SComment c => c_before c <> [] /\ Forall ctext (c_before c) /\ c_suffix c = [] /\ c_after c = []
  end.

Definition HeapGood (s : syntax) : Prop := forall i, lcoms_ok (hl_com (sget s i)).

Record SynGood (s : syntax) : Prop := {
  sg_heap : HeapGood s;
  sg_fcom : fcom s = no_coms;
  sg_stmts : Forall stmt_good (stmts s)
}.

Lemma block_good_lines b ls : block_good (block_with_lines b ls) <-> block_good b.
Proof. reflexivity. Qed.

Lemma new_block_good bid verb ls : block_good (mkHB bid no_coms no_coms [verb] ls no_coms).
Proof.
  unfold block_good. cbn [hb_com hb_lp hb_rp hb_tok no_coms c_before c_suffix c_after].
  repeat (split; [solve [constructor | reflexivity | apply sfx_nil | exact I]|]).
  exists verb. split; [reflexivity|right; reflexivity].
Qed.

(* ---------------------------------------------------------------- heap primitives *)

Lemma hg_heap s s' : heap s' = heap s -> HeapGood s -> HeapGood s'.
Proof. intros E H i. unfold sget. rewrite E. apply H. Qed.

Lemma hg_sset s i l : HeapGood s -> lcoms_ok (hl_com l) -> HeapGood (sset s i l).
Proof. intros H Hl j. destruct (sget_sset_cases s i l j) as [-> | ->]; [exact Hl|apply H]. Qed.

Lemma sg_sset s i l : SynGood s -> lcoms_ok (hl_com l) -> SynGood (sset s i l).
Proof. intros [A B C] Hl. split; [apply hg_sset; assumption|exact B|exact C]. Qed.

Lemma lcoms_removed c : lcoms_ok c -> lcoms_ok (set_suffix c []).
Proof. intros (A & _ & _ & D). split; [exact A|]. split; [apply sfx_nil|]. split; [constructor|exact D]. Qed.

Lemma sg_mark_removed s i : SynGood s -> SynGood (mark_removed s i).
Proof. intros H. apply sg_sset; [exact H|]. cbn [hl_com]. apply lcoms_removed. apply H. Qed.

Lemma sg_update_line s i v a : SynGood s -> SynGood (update_line s i v a).
Proof. intros H. apply sg_sset; [exact H|]. apply H. Qed.

Lemma sg_fold_mark_removed T : forall s, SynGood s -> SynGood (fold_left mark_removed T s).
Proof. induction T as [|i T IH]; intros s H; cbn; [exact H|apply IH, sg_mark_removed, H]. Qed.

Lemma hg_salloc s l : HeapGood s -> lcoms_ok (hl_com l) -> HeapGood (fst (salloc s l)).
Proof.
  intros H Hl j. unfold sget; cbn [salloc fst heap].
  destruct (Nat.lt_trichotomy j (length (heap s))) as [Hj|[->|Hj]].
  - rewrite hget_app_old by exact Hj. apply H.
  - rewrite hget_app_new. exact Hl.
  - unfold hget. rewrite nth_overflow by (rewrite app_length; cbn; lia). apply lcoms_no.
Qed.

Lemma sg_salloc s l : SynGood s -> lcoms_ok (hl_com l) -> SynGood (fst (salloc s l)).
Proof. intros [A B C] Hl. split; [apply hg_salloc; assumption|exact B|exact C]. Qed.

Lemma sg_stmts_only s st : SynGood s -> Forall stmt_good st -> SynGood (with_stmts s st).
Proof. intros [A B C] H. split; [exact A|exact B|exact H]. Qed.

(* ---------------------------------------------------------------- addLine *)

Lemma add_line_loop_stmts s h verb args : forall todo done,
  Forall stmt_good (rev done ++ todo) ->
  Forall stmt_good (stmts (fst (add_line_loop s h verb args done todo))) /\
  fcom (fst (add_line_loop s h verb args done todo)) = fcom s.
Proof.
  induction todo as [|st rest IH]; intros done H; cbn [add_line_loop].
  - cbn. split; [|reflexivity]. rewrite app_nil_r in H. apply Forall_app. split; [exact H|constructor; [exact I|constructor]].
  - apply Forall_app in H as (Hd & Ht). inversion Ht as [|? ? Hst Hrest]; subst.
    destruct (add_line_at s h verb st) as [[| j | b | b k]|] eqn:Hat.
    + cbn. split; [|reflexivity]. apply Forall_app. split; [exact Hd|]. constructor; [exact Hst|]. constructor; [exact I|exact Hrest].
    + apply add_line_at_convert in Hat. destruct Hat as (-> & _ & Hh).
      cbn. split; [|reflexivity]. apply Forall_app. split; [exact Hd|]. constructor; [|exact Hrest].
      cbn [stmt_good]. unfold hd_is in Hh. change (hget (heap s) j) with (sget s j).
      destruct (hl_tok (sget s j)) as [|x r]; [discriminate|]. cbn [firstn]. apply new_block_good.
    + apply add_line_at_append in Hat. destruct Hat as (-> & _).
      cbn. split; [|reflexivity]. apply Forall_app. split; [exact Hd|]. constructor; [exact Hst|exact Hrest].
    + apply add_line_at_afterin in Hat. destruct Hat as (-> & _).
      cbn. split; [|reflexivity]. apply Forall_app. split; [exact Hd|]. constructor; [exact Hst|exact Hrest].
    + apply (IH (st :: done)). cbn [rev]. rewrite <- app_assoc. apply Forall_app. split; [exact Hd|exact Ht].
Qed.

Lemma sg_add_line s h verb args : SynGood s -> SynGood (fst (add_line s h verb args)).
Proof.
  intros [A B C]. split.
  - intros j. destruct (add_line_heap s h verb args) as (_ & Hlen & Hold & inb & Hnew).
    destruct (Nat.lt_trichotomy j (heap_len s)) as [Hj|[->|Hj]].
    + destruct (Hold j Hj) as [->|(_ & ->)]; apply A.
    + rewrite Hnew. apply lcoms_no.
    + rewrite sget_overflow by lia. apply lcoms_no.
  - unfold add_line.
    destruct (match h with Some x => Some x | None => find_hint s verb (rev (stmts s)) end) as [x|].
    + rewrite (proj2 (add_line_loop_stmts s x verb args (stmts s) [] C)). exact B.
    + exact B.
  - unfold add_line.
    destruct (match h with Some x => Some x | None => find_hint s verb (rev (stmts s)) end) as [x|].
    + exact (proj1 (add_line_loop_stmts s x verb args (stmts s) [] C)).
    + cbn. apply Forall_app. split; [exact C|constructor; [exact I|constructor]].
Qed.

(* ---------------------------------------------------------------- Cleanup *)

Lemma lcoms_collapse (b : hblock) l : block_good b -> lcoms_ok (hl_com l) ->
  lcoms_ok (mkComs (c_before (hb_com b) ++ c_before (hl_com l)) (c_suffix (hl_com l) ++ c_suffix (hb_com b))
                   (c_after (hl_com l) ++ c_after (hb_com b))).
Proof.
  intros (Hb & Hs & Ha & _) (Lb & Ls & Las & La). unfold lcoms_ok. cbn [c_before c_suffix c_after].
  rewrite Hs, Ha, La, app_nil_r. split; [apply Forall_app; split; assumption|]. auto.
Qed.

Lemma cleanup_good todo : forall h, Forall stmt_good todo -> (forall i, lcoms_ok (hl_com (hget h i))) ->
  (forall i, lcoms_ok (hl_com (hget (fst (syn_cleanup_loop h todo)) i))) /\
  Forall stmt_good (snd (syn_cleanup_loop h todo)).
Proof.
  induction todo as [|st rest IH]; intros h Hs Hh; cbn [syn_cleanup_loop].
  - split; [exact Hh|constructor].
  - inversion Hs as [|? ? Hst Hrest]; subst. destruct st as [i|b|c].
    + destruct (line_live h i).
      * destruct (IH h Hrest Hh) as (A & B). destruct (syn_cleanup_loop h rest) as [h' out]. cbn [fst snd] in *.
        split; [exact A|constructor; [exact I|exact B]].
      * apply IH; assumption.
    + destruct (filter (line_live h) (hb_lines b)) as [|j [|j2 more]].
      * apply IH; assumption.
      * destruct (nilb (c_before (hb_rp b))).
        -- set (l' := mkHL _ _ false).
           assert (Hh' : forall i, lcoms_ok (hl_com (hget (hset h j l') i))).
           { intros i. destruct (Nat.eq_dec j i) as [->|Hn]; [|rewrite hget_hset_other by exact Hn; apply Hh].
             destruct (Nat.lt_ge_cases i (length h)) as [Hk|Hk].
             - rewrite hget_hset_same by exact Hk. unfold l'. cbn [hl_com]. apply lcoms_collapse; [exact Hst|apply Hh].
             - unfold hget. rewrite nth_overflow by (rewrite hset_length; exact Hk). apply lcoms_no. }
           destruct (IH (hset h j l') Hrest Hh') as (A & B). destruct (syn_cleanup_loop (hset h j l') rest) as [h' out].
           cbn [fst snd] in *. split; [exact A|constructor; [exact I|exact B]].
        -- destruct (IH h Hrest Hh) as (A & B). destruct (syn_cleanup_loop h rest) as [h' out]. cbn [fst snd] in *.
           split; [exact A|constructor; [exact Hst|exact B]].
      * destruct (IH h Hrest Hh) as (A & B). destruct (syn_cleanup_loop h rest) as [h' out]. cbn [fst snd] in *.
        split; [exact A|constructor; [exact Hst|exact B]].
    + destruct (IH h Hrest Hh) as (A & B). destruct (syn_cleanup_loop h rest) as [h' out]. cbn [fst snd] in *.
      split; [exact A|constructor; [exact Hst|exact B]].
Qed.

Lemma sg_syn_cleanup s : SynGood s -> SynGood (syn_cleanup s).
Proof.
  intros [A B C]. unfold syn_cleanup. destruct (cleanup_good (stmts s) (heap s) C A) as (H1 & H2).
  destruct (syn_cleanup_loop (heap s) (stmts s)) as [h st]. cbn [fst snd] in *. split; [exact H1|exact B|exact H2].
Qed.

(* ---------------------------------------------------------------- removeDups / SortBlocks *)

Lemma sg_remove_killed s K : SynGood s -> SynGood (remove_killed s K).
Proof.
  intros [A B C]. split; [exact A|exact B|]. cbn [remove_killed stmts with_stmts].
  induction C as [|st r Hst Hr IH]; cbn [flat_map]; [constructor|]. apply Forall_app. split; [|exact IH].
  destruct st as [i|b|c].
  - destruct (killed K (Some i)); [constructor|constructor; [exact I|constructor]].
  - destruct (nilb _); [constructor|constructor; [exact Hst|constructor]].
  - constructor; [exact Hst|constructor].
Qed.

Lemma sort_stmt_good h lo L : Forall stmt_good L -> Forall stmt_good (map (sort_stmt h lo) L).
Proof. intros H. induction H as [|st r Hst Hr IH]; cbn [map]; constructor; [|exact IH]. destruct st; exact Hst. Qed.

Lemma sg_sort_blocks f : SynGood (fsyn f) -> SynGood (fsyn (sort_blocks f)).
Proof.
  intros H. rewrite sort_blocks_as_sort_stmt. cbn [fsyn with_syn].
  assert (H1 : SynGood (fsyn (remove_dups f true)))
    by (unfold remove_dups; cbn [fsyn with_tool with_replace with_exclude with_syn]; apply sg_remove_killed; exact H).
  apply sg_stmts_only; [exact H1|]. apply sort_stmt_good. apply H1.
Qed.

Lemma sg_w_sort_blocks f : SynGood (fsyn f) -> SynGood (fsyn (w_sort_blocks f)).
Proof.
  intros H. rewrite w_sort_blocks_as_sort_stmt. cbn [fsyn with_syn].
  assert (H1 : SynGood (fsyn (remove_dups f false)))
    by (unfold remove_dups; cbn [fsyn with_tool with_replace with_exclude with_syn]; apply sg_remove_killed; exact H).
  apply sg_stmts_only; [exact H1|]. apply sort_stmt_good. apply H1.
Qed.

End Good.
