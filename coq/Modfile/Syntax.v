(* Syntax tree of go.mod / go.work files: the data types of modfile/read.go
   (Position, Comment, Comments, Line, LineBlock, CommentBlock, LParen, RParen,
   FileSyntax).  Data types only; no functions, no proofs.  This file is the interface
   between the syntax layer (Lex.v, Parse.v, Print.v), the directive layer
   (Directives.v) and the edit operations (Edit*.v), and is kept stable.

   Representation
   --------------
   * Tokens and comment texts are byte strings ([str = list Z], one Z per byte), exactly
     the Go strings [Line.Token[i]] and [Comment.Token] (a comment token starts with
     "//" and has its trailing LF / CRLF removed; the blank-line marker of read.go, the
     zero value [Comment{}], is [blank_comment]: empty token, zero position).
   * Positions stay in the tree ([position] = Go's [Position]: 1-based line, 1-based
     column counted in runes, 0-based byte offset).  Nodes created by edit operations
     carry Go's zero value [zero_pos].  The printer ignores positions.
   * Go's embedded [Comments] struct is the field [*_comments] of every node.
   * Go distinguishes [*LParen] and [*RParen]; both are the record [paren] here (the
     field of [line_block] says which one it is).
   * The interface type [Expr], as far as it can occur in [FileSyntax.Stmt], is the
     inductive [expr] with the three cases [*Line], [*LineBlock], [*CommentBlock].
     Lines of a block are plain [line] records in [b_line] (Go: []*Line).
   * Go's pointers are not represented: a node is identified by its place in the tree
     (index in [f_stmt], and index in [b_line] for a line of a block).
   * A line removed by [markRemoved] has [Token == nil] in Go; here [l_token = []] (the
     parser never produces a line without tokens, so [] is unambiguous). *)
From Verif.Base Require Import Bytes.

(* read.go Position *)
Record position := mkPos {
  p_line : Z;        (* Line: line in input, starting at 1 *)
  p_col  : Z;        (* LineRune: rune in line, starting at 1 *)
  p_byte : Z         (* Byte: byte in input, starting at 0 *)
}.

Definition zero_pos : position := mkPos 0 0 0.

(* read.go Comment *)
Record comment := mkComment {
  c_start  : position;
  c_token  : str;    (* without trailing newline *)
  c_suffix : bool    (* an end of line (not whole line) comment *)
}.

(* the zero value Comment{} that parseLineBlock inserts for a blank line *)
Definition blank_comment : comment := mkComment zero_pos [] false.

(* read.go Comments *)
Record comments := mkComments {
  cm_before : list comment;   (* whole-line comments before this expression *)
  cm_suffix : list comment;   (* end-of-line comments after this expression *)
  cm_after  : list comment    (* top-level expressions only: whole-line comments following *)
}.

Definition no_comments : comments := mkComments [] [] [].

(* read.go Line *)
Record line := mkLine {
  l_comments : comments;
  l_start    : position;
  l_token    : list str;
  l_inblock  : bool;
  l_end      : position
}.

(* read.go LParen and RParen *)
Record paren := mkParen {
  pr_comments : comments;
  pr_pos      : position
}.

(* read.go LineBlock *)
Record line_block := mkBlock {
  b_comments : comments;
  b_start    : position;
  b_lparen   : paren;
  b_token    : list str;
  b_line     : list line;
  b_rparen   : paren
}.

(* read.go CommentBlock *)
Record comment_block := mkCommentBlock {
  cb_comments : comments;
  cb_start    : position
}.

(* the dynamic types that occur in FileSyntax.Stmt *)
Inductive expr :=
| ELine (l : line)
| EBlock (b : line_block)
| ECommentBlock (c : comment_block).

(* read.go FileSyntax *)
Record file_syntax := mkFile {
  f_name     : str;        (* file path *)
  f_comments : comments;
  f_stmt     : list expr
}.
