(* Round trip, part 5: parse on arbitrary input is [group] on the rows of the token stream
   ([parse_group]).  Needs in addition that the parser only accepts when the lexer reached
   the end of the input. *)
From Verif.Base Require Import Bytes Utf8.
From Verif.Modfile Require Import Syntax Lex Parse ProofsLex RoundRows RoundAssign RoundParse RoundParse5
  RoundLexPure RoundLexPure2 RoundLexPure3 RoundLexPure4.

(* ---------------------------------------------------------------- the parser stops at the EOF token only *)

Definition noeof (ts : list token) : Prop := Forall (fun t => is_eof (t_kind t) = false) ts.

(* rest is a non-empty suffix of ts *)
Definition sfx (ts rest : list token) : Prop := rest <> [] /\ exists pre, ts = pre ++ rest.

Lemma sfx_refl ts : ts <> [] -> sfx ts ts.
Proof. intros H. split; [exact H|exists []; reflexivity]. Qed.

Lemma sfx_trans a b c : sfx a b -> sfx b c -> sfx a c.
Proof. intros (_ & p & ->) (H & q & ->). split; [exact H|]. exists (p ++ q). rewrite app_assoc. reflexivity. Qed.

Lemma sfx_noeof ts rest : sfx ts rest -> noeof ts -> noeof rest.
Proof. intros (_ & pre & ->) H. apply Forall_app in H. apply H. Qed.

Definition rsfx {A} (ts : list token) (r : pres A) : Prop :=
  match r with ROk _ rest => sfx ts rest | _ => True end.

Lemma advance_sfx lend ts : noeof ts -> rsfx ts (advance lend ts).
Proof.
  intros Hn. unfold advance. destruct ts as [|t [|u r]].
  - destruct lend; exact I.
  - inversion Hn as [|? ? Ht _]; subst. rewrite Ht. destruct lend; exact I.
  - cbn. split; [discriminate|]. exists [t]. reflexivity.
Qed.

Lemma bind_sfx {A B} ts (r : pres A) (k : A -> list token -> pres B) :
  rsfx ts r -> (forall a rest, sfx ts rest -> rsfx rest (k a rest)) -> rsfx ts (bind r k).
Proof.
  destruct r as [a rest| | |]; cbn; auto. intros H Hk. specialize (Hk a rest H).
  destruct (k a rest); cbn in *; auto. eapply sfx_trans; eauto.
Qed.

Lemma line_loop_sfx lend : forall f start endp tokens_r ts, noeof ts ->
  rsfx ts (line_loop f lend start endp tokens_r ts).
Proof.
  induction f as [|f IH]; intros start endp tokens_r ts Hn; cbn [line_loop]; [exact I|].
  apply bind_sfx; [apply advance_sfx; exact Hn|]. intros tok rest Hs.
  destruct (is_eol (t_kind tok)); [cbn; apply sfx_refl; apply Hs|].
  apply IH. eapply sfx_noeof; eauto.
Qed.

Lemma parse_line_sfx lend f ts : noeof ts -> rsfx ts (parse_line f lend ts).
Proof.
  intros Hn. unfold parse_line. apply bind_sfx; [apply advance_sfx; exact Hn|]. intros tok rest Hs.
  destruct (is_eol (t_kind tok)); [exact I|]. apply line_loop_sfx. eapply sfx_noeof; eauto.
Qed.

Lemma block_loop_sfx lend : forall f start btoks lparen coms_r lines_r ts, noeof ts ->
  rsfx ts (block_loop f lend start btoks lparen coms_r lines_r ts).
Proof.
  induction f as [|f IH]; intros start btoks lparen coms_r lines_r ts Hn; cbn [block_loop]; [exact I|].
  assert (Hline : rsfx ts (bind (parse_line f lend ts)
            (fun l ts1 => block_loop f lend start btoks lparen [] (line_set_before l (frev coms_r) :: lines_r) ts1))).
  { apply bind_sfx; [apply parse_line_sfx; exact Hn|]. intros l rest Hs. apply IH. eapply sfx_noeof; eauto. }
  destruct (peek ts) as [| | | | |c]; auto.
  - exact I.
  - apply bind_sfx; [apply advance_sfx; exact Hn|]. intros tok rest Hs. apply IH. eapply sfx_noeof; eauto.
  - apply bind_sfx; [apply advance_sfx; exact Hn|]. intros tok rest Hs. apply IH. eapply sfx_noeof; eauto.
  - destruct (c =? 10).
    { apply bind_sfx; [apply advance_sfx; exact Hn|]. intros tok rest Hs. apply IH. eapply sfx_noeof; eauto. }
    destruct (c =? 41); [|exact Hline].
    apply bind_sfx; [apply advance_sfx; exact Hn|]. intros tok rest Hs.
    destruct (negb (is_eol (peek rest))); [exact I|].
    apply bind_sfx; [apply advance_sfx; eapply sfx_noeof; eauto|]. intros tok2 rest2 Hs2. cbn. apply sfx_refl. apply Hs2.
Qed.

Lemma stmt_loop_sfx lend : forall f start endp tokens_r ts, noeof ts ->
  rsfx ts (stmt_loop f lend start endp tokens_r ts).
Proof.
  induction f as [|f IH]; intros start endp tokens_r ts Hn; cbn [stmt_loop]; [exact I|].
  apply bind_sfx; [apply advance_sfx; exact Hn|]. intros tok ts1 Hs.
  pose proof (sfx_noeof _ _ Hs Hn) as Hn1.
  destruct (is_eol (t_kind tok)); [cbn; apply sfx_refl; apply Hs|].
  destruct (is_kpunct (t_kind tok) 40); [|apply IH; exact Hn1].
  destruct (is_eol (peek ts1)).
  { apply bind_sfx; [apply block_loop_sfx; exact Hn1|]. intros b ts2 Hs2. cbn. apply sfx_refl. apply Hs2. }
  destruct (is_kpunct (peek ts1) 41); [|apply IH; exact Hn1].
  apply bind_sfx; [apply advance_sfx; exact Hn1|]. intros rp ts2 Hs2.
  pose proof (sfx_noeof _ _ Hs2 Hn1) as Hn2.
  destruct (is_eol (peek ts2)); [|apply IH; exact Hn2].
  apply bind_sfx; [apply advance_sfx; exact Hn2|]. intros e ts3 Hs3. cbn. apply sfx_refl. apply Hs3.
Qed.

Lemma parse_stmt_sfx lend f ts : noeof ts -> rsfx ts (parse_stmt f lend ts).
Proof.
  intros Hn. unfold parse_stmt. apply bind_sfx; [apply advance_sfx; exact Hn|]. intros tok rest Hs.
  apply stmt_loop_sfx. eapply sfx_noeof; eauto.
Qed.

Lemma file_loop_noeof lend : forall f cb stmts_r ts, noeof ts -> ts <> [] ->
  match file_loop f lend cb stmts_r ts with ROk _ _ => False | _ => True end.
Proof.
  induction f as [|f IH]; intros cb stmts_r ts Hn Hne; cbn [file_loop]; [exact I|].
  assert (Hgen : forall {A} (r : pres A) (k : A -> list token -> pres (list expr)),
            rsfx ts r -> (forall a rest, sfx ts rest -> match k a rest with ROk _ _ => False | _ => True end) ->
            match bind r k with ROk _ _ => False | _ => True end).
  { intros A r k Hr Hk. destruct r as [a rest| | |]; cbn [bind]; try exact I. apply Hk. exact Hr. }
  assert (Hstmt : match bind (parse_stmt f lend ts)
            (fun s ts1 =>
              let stmts1 := s :: stmts_r in
              match cb with
              | None => file_loop f lend None stmts1 ts1
              | Some (_, b) =>
                  match stmts1 with
                  | [] => RPanic
                  | lst :: r => file_loop f lend None (expr_set_comments lst (set_before (expr_comments lst) (frev b)) :: r) ts1
                  end
              end) with ROk _ _ => False | _ => True end).
  { apply Hgen; [apply parse_stmt_sfx; exact Hn|]. intros s rest Hs. cbn zeta.
    destruct cb as [[p b]|]; apply IH; try (eapply sfx_noeof; eauto); apply Hs. }
  destruct ts as [|t r]; [congruence|]. cbn [peek].
  inversion Hn as [|? ? Ht _]; subst.
  destruct (t_kind t) as [| | | | |c] eqn:Ek; cbn in Ht; try discriminate; try exact Hstmt.
  - apply Hgen; [apply advance_sfx; exact Hn|]. intros tok rest Hs. apply IH; [eapply sfx_noeof; eauto|apply Hs].
  - cbn [is_kpunct]. destruct (c =? 10); [|exact Hstmt].
    apply Hgen; [apply advance_sfx; exact Hn|]. intros tok rest Hs. apply IH; [eapply sfx_noeof; eauto|apply Hs].
Qed.

Lemma lex_all_noeof : forall f st acc, noeof acc ->
  snd (lex_all f st acc) <> LEnd -> noeof (fst (lex_all f st acc)).
Proof.
  induction f as [|f IH]; intros st acc Ha; cbn [lex_all].
  - cbn. intros _. rewrite frev_rev. apply Forall_rev. exact Ha.
  - destruct (read_token f st) as [t st'|p e| |]; cbn [fst snd]; try (intros _; rewrite frev_rev; apply Forall_rev; exact Ha).
    destruct (is_eof (t_kind t)) eqn:Ek; [cbn; congruence|].
    apply IH. constructor; assumption.
Qed.

Lemma parse_lex_end data s : parse data = POk s -> snd (lex data) = LEnd.
Proof.
  unfold parse, parse_named. destruct (lex data) as [ts lend] eqn:El. cbn [snd].
  destruct lend as [|p e| |]; [reflexivity| | |]; intros H; exfalso.
  all: assert (Hn : noeof ts) by
    (pose proof (lex_all_noeof (lex_fuel data) (init_state data) [] (Forall_nil _)) as Hx;
     unfold lex in El; rewrite El in Hx; cbn in Hx; apply Hx; discriminate).
  all: unfold parse_tokens in H; destruct ts as [|t0 ts0]; [cbn in H; discriminate|].
  all: match type of H with context [file_loop ?f ?l ?c ?s ?t] =>
         pose proof (file_loop_noeof l f c s t Hn ltac:(discriminate)) as Hx;
         destruct (file_loop f l c s t); try contradiction; discriminate end.
Qed.

(* ---------------------------------------------------------------- parse = group *)

Theorem parse_group data s : parse data = POk s ->
  exists ts a, lex data = (ts, LEnd) /\ rs false ts /\ Forall tok_wf ts /\
    group_file (arows [] ts) = Some a /\ zfile s = efile a.
Proof.
  intros H. pose proof (parse_lex_end data s H) as He.
  unfold parse, parse_named in H. destruct (lex data) as [ts lend] eqn:El. cbn [snd] in He. subst lend.
  destruct (lex_stream data ts El) as (Hrs & Ho & Hw).
  pose proof (parse_tokens_group [] ts Hrs Ho) as Hg. rewrite H in Hg. destruct Hg as (a & Hg & Hz).
  exists ts, a. auto.
Qed.

(* the converse: a stream that groups is accepted *)
Theorem group_parse data ts a : lex data = (ts, LEnd) -> group_file (arows [] ts) = Some a ->
  exists s, parse data = POk s /\ zfile s = efile a.
Proof.
  intros El Hg. destruct (lex_stream data ts El) as (Hrs & Ho & Hw).
  pose proof (parse_tokens_group [] ts Hrs Ho) as H.
  unfold parse, parse_named. rewrite El.
  destruct (parse_tokens [] ts LEnd) as [s| | |]; try contradiction.
  - destruct H as (a' & Hg' & Hz). rewrite Hg in Hg'. injection Hg' as <-. exists s. auto.
  - rewrite Hg in H. discriminate.
Qed.
