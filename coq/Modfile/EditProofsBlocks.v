(* C15: SortBlocks (removeDups + sorting) preserves coherence. *)
From Coq Require Import Permutation.
From Verif.Base Require Import Bytes.
From Verif.Modfile Require Import EditModel EditOps EditSpec EditProofsTyped EditProofsHeap EditProofsCoherent
  EditProofsCleanup EditProofsAddLine EditProofsAdd EditProofsUpsert EditProofsSort EditProofsSeq EditProofsExact.

(* ---------------------------------------------------------------- sorting the lines of blocks *)
Definition sort_stmt (h : list hline) (less_of : hblock -> list str -> list str -> bool) (st : stmt) : stmt :=
  match st with
  | SBlock b => SBlock (sort_block h (less_of b) b)
  | _ => st
  end.

Lemma stmt_lines_sort h less_of st : Permutation (stmt_lines (sort_stmt h less_of st)) (stmt_lines st).
Proof.
  destruct st as [i|b|c]; cbn [sort_stmt]; try reflexivity.
  cbn [stmt_lines sort_block block_with_lines hb_lines hb_tok]. apply Permutation_map.
  symmetry. apply stable_sort_perm.
Qed.

Lemma stmts_lines_sort h less_of L : Permutation (stmts_lines (map (sort_stmt h less_of) L)) (stmts_lines L).
Proof.
  induction L as [|st r IH]; cbn [map]; [reflexivity|].
  rewrite !stmts_lines_cons. apply Permutation_app; [apply stmt_lines_sort | exact IH].
Qed.

Lemma block_ok_sort h less_of st : block_ok st -> block_ok (sort_stmt h less_of st).
Proof. destruct st; cbn; auto. Qed.

Lemma coherentS_sort s es less_of :
  CoherentS s es ->
  CoherentS (with_stmts s (map (sort_stmt (heap s) less_of) (stmts s))) es.
Proof.
  intros [[H1 H2 H3] [He Hp]].
  pose proof (stmts_lines_sort (heap s) less_of (stmts s)) as P.
  split; [|split].
  - split.
    + rewrite tree_lines_stmts. cbn [stmts with_stmts].
      eapply Permutation_NoDup; [symmetry; apply Permutation_map; exact P | exact H1].
    + rewrite tree_lines_stmts. cbn [stmts with_stmts].
      eapply Permutation_Forall; [symmetry; exact P|]. exact H2.
    + cbn [stmts with_stmts]. apply Forall_forall. intros x Hx. apply in_map_iff in Hx.
      destruct Hx as [st [<- Hin]]. apply block_ok_sort. rewrite Forall_forall in H3. apply H3. exact Hin.
  - exact He.
  - etransitivity; [|exact Hp]. unfold tree_view. rewrite !tree_lines_stmts. cbn [stmts with_stmts].
    apply Permutation_flat_map. exact P.
Qed.

(* ---------------------------------------------------------------- removeDups: the tree *)
Definition keepb (K : list (option lid)) (i : lid) : bool := negb (killed K (Some i)).

Lemma killed_some K i : killed K (Some i) = existsb (Nat.eqb i) (somes K).
Proof.
  unfold killed. induction K as [|o r IH]; cbn; [reflexivity|].
  destruct o as [j|]; cbn; rewrite IH; reflexivity.
Qed.

Lemma stmts_lines_remove_killed s K :
  stmts_lines (stmts (remove_killed s K)) = filter (fun x => keepb K (fst x)) (stmts_lines (stmts s)).
Proof.
  unfold remove_killed. cbn [stmts with_stmts]. induction (stmts s) as [|st r IH]; cbn [flat_map]; [reflexivity|].
  unfold stmts_lines in *. rewrite flat_map_app, IH. cbn [flat_map]. rewrite filter_app. f_equal.
  destruct st as [i|b|c]; cbn [stmt_lines].
  - unfold keepb. cbn [filter fst]. destruct (killed K (Some i)); reflexivity.
  - set (ls := filter (fun i => negb (killed K (Some i))) (hb_lines b)).
    assert (E : filter (fun x : lid * option str => keepb K (fst x)) (map (fun i => (i, Some (hd [] (hb_tok b)))) (hb_lines b))
                = map (fun i => (i, Some (hd [] (hb_tok b)))) ls).
    { unfold ls, keepb. induction (hb_lines b) as [|i l IHl]; cbn; [reflexivity|].
      destruct (killed K (Some i)); cbn; rewrite IHl; reflexivity. }
    rewrite E. destruct ls as [|j ls'] eqn:Els; cbn [nilb flat_map stmt_lines app]; [reflexivity|].
    cbn [block_with_lines hb_lines hb_tok]. rewrite app_nil_r. reflexivity.
  - reflexivity.
Qed.

Lemma flat_view_filter h (p : lid -> bool) l :
  flat_map (lview h) (filter (fun x => p (fst x)) l) = filter (fun y => p (vid y)) (flat_map (lview h) l).
Proof.
  induction l as [|x r IH]; cbn [filter flat_map]; [reflexivity|].
  rewrite filter_app, <- IH.
  assert (E : filter (fun y => p (vid y)) (lview h x) = if p (fst x) then lview h x else []).
  { unfold lview. destruct (hl_tok (hget h (fst x))) as [|t ts]; [destruct (p (fst x)); reflexivity|].
    destruct (snd x); cbn [filter vid fst]; destruct (p (fst x)); reflexivity. }
  rewrite E. destruct (p (fst x)); reflexivity.
Qed.

Lemma rm_as_filter K l : rm (somes K) l = filter (fun y => keepb K (vid y)) l.
Proof. unfold rm, keepb. apply filter_ext. intros y. rewrite killed_some. reflexivity. Qed.

Lemma remove_killed_ok s K :
  SyntaxOk s ->
  SyntaxOk (remove_killed s K) /\ tree_view (remove_killed s K) = rm (somes K) (tree_view s).
Proof.
  intros [H1 H2 H3]. pose proof (stmts_lines_remove_killed s K) as E. split.
  - split.
    + rewrite tree_lines_stmts, E. rewrite tree_lines_stmts in H1.
      clear - H1. induction (stmts_lines (stmts s)) as [|x r IH]; cbn; [constructor|].
      inversion H1; subst. destruct (keepb K (fst x)); cbn; [|auto]. constructor; [|auto].
      intros Hin. apply H2. apply in_map_iff in Hin. destruct Hin as [y [Hy Hin]]. apply filter_In in Hin.
      apply in_map_iff. exists y. tauto.
    + rewrite tree_lines_stmts, E. rewrite tree_lines_stmts in H2.
      apply Forall_forall. intros x Hx. apply filter_In in Hx. rewrite Forall_forall in H2. apply (H2 x). tauto.
    + unfold remove_killed. cbn [stmts with_stmts]. apply Forall_forall. intros st Hst.
      apply in_flat_map in Hst. destruct Hst as [st0 [Hin0 Hst]]. rewrite Forall_forall in H3. specialize (H3 st0 Hin0).
      destruct st0 as [i|b|c]; cbn in Hst.
      * destruct (killed K (Some i)); [destruct Hst | destruct Hst as [<-|[]]; exact I].
      * destruct (nilb _); [destruct Hst | destruct Hst as [<-|[]]; exact H3].
      * destruct Hst as [<-|[]]. exact I.
  - unfold tree_view. rewrite !tree_lines_stmts, E.
    change (line_view (remove_killed s K)) with (lview (heap s)). change (line_view s) with (lview (heap s)).
    rewrite rm_as_filter. apply flat_view_filter.
Qed.

(* ---------------------------------------------------------------- removeDups: the typed lists *)
Lemma view_filter_killed {E} (g : E -> ent) (kx K : list (option lid)) l :
  (forall e i, In e l -> en_syn (g e) = Some i -> (In (Some i) kx <-> In i (somes K))) ->
  flat_map ent_view (map g (filter (fun x => negb (killed kx (en_syn (g x)))) l))
  = rm (somes K) (flat_map ent_view (map g l)).
Proof.
  induction l as [|e r IH]; intros H; cbn [filter map flat_map]; [reflexivity|].
  rewrite rm_app, <- IH by (intros e0 i Hin; apply H; right; exact Hin).
  destruct (en_syn (g e)) as [i|] eqn:Hs.
  - assert (Hvid : forall x, In x (ent_view (g e)) -> vid x = i).
    { intros x Hx. apply ent_view_vid in Hx. destruct Hx as [Hx _]. congruence. }
    destruct (killed kx (Some i)) eqn:Hk; cbn [negb].
    + apply killed_In in Hk. apply (H e i (or_introl eq_refl) Hs) in Hk.
      rewrite rm_all; [reflexivity|]. intros x Hx. rewrite (Hvid x Hx). exact Hk.
    + cbn [map flat_map]. rewrite rm_disjoint; [reflexivity|].
      intros x Hx Hin. rewrite (Hvid x Hx) in Hin.
      apply (H e i (or_introl eq_refl) Hs) in Hin. apply killed_In in Hin. congruence.
  - assert (Hv : ent_view (g e) = []) by (unfold ent_view; rewrite Hs; reflexivity).
    destruct (negb (killed kx None)); cbn [map flat_map]; rewrite Hv; reflexivity.
Qed.

Lemma forall_ok_filter' {E} (g : E -> ent) (p : E -> bool) l :
  Forall ent_ok (map g l) -> Forall ent_ok (map g (filter p l)).
Proof.
  intros H. apply Forall_forall. intros x Hx. apply in_map_iff in Hx. destruct Hx as [e [<- He]].
  apply filter_In in He. rewrite Forall_forall in H. apply H. apply in_map. tauto.
Qed.

Lemma in_somes_syn {E} (g : E -> ent) l i :
  Forall ent_ok (map g l) -> In (Some i) (map (fun e => en_syn (g e)) l) -> In i (ids (flat_map ent_view (map g l))).
Proof. intros Hok Hin. rewrite (ids_view_somes g l Hok). apply in_somes. exact Hin. Qed.

Lemma remove_dups_coherent f mod_ : Coherent f -> Coherent (remove_dups f mod_).
Proof.
  intros Hc. pose proof (typed_ids_nodup f Hc) as Hnd. pose proof Hc as [Hsyn Hent Hperm].
  unfold EntriesOk in Hent. unfold typed_view in Hnd, Hperm.
  (* split the entries around exclude / replace / retract / tool *)
  rewrite entries_exclude in Hent, Hnd, Hperm. unfold post_exclude, post_replace, post_retract, post_tool in Hent, Hnd, Hperm.
  pose proof Hent as Hent0.
  apply Forall_app in Hent. destruct Hent as [Hpre Hent]. apply Forall_app in Hent. destruct Hent as [Hex Hent].
  apply Forall_app in Hent. destruct Hent as [Hrp Hent]. apply Forall_app in Hent. destruct Hent as [Hrt Hent].
  apply Forall_app in Hent. destruct Hent as [Htl Hus].
  set (PRE := flat_map ent_view (pre_exclude f)) in *.
  set (EX := flat_map ent_view (map ent_exclude (f_exclude f))) in *.
  set (RP := flat_map ent_view (map ent_replace (f_replace f))) in *.
  set (RT := flat_map ent_view (map ent_retract (f_retract f))) in *.
  set (TL := flat_map ent_view (map ent_tool (f_tool f))) in *.
  set (US := flat_map ent_view (map ent_use (f_use f))) in *.
  rewrite !flat_map_app in Hnd, Hperm. fold PRE EX RP RT TL US in Hnd, Hperm.
  unfold ids in Hnd. rewrite !map_app in Hnd.
  (* the kill sets *)
  set (k1 := if mod_ then dups same_exclude ex_syn [] (f_exclude f) [] else []).
  set (k2 := dups same_replace_old rp_syn [] (rev (f_replace f)) k1).
  set (k3 := if mod_ then dups same_tool tl_syn [] (f_tool f) k2 else k2).
  assert (Hk1 : forall i, In (Some i) k1 -> In i (map vid EX)).
  { intros i Hi. unfold k1 in Hi. destruct mod_; [|destruct Hi]. apply dups_in in Hi. destruct Hi as [[]|Hi].
    apply (in_somes_syn ent_exclude _ _ Hex). exact Hi. }
  assert (Hk2 : forall i, In (Some i) k2 -> In i (map vid EX) \/ In i (map vid RP)).
  { intros i Hi. unfold k2 in Hi. apply dups_in in Hi. destruct Hi as [Hi|Hi]; [left; auto|]. right.
    apply (in_somes_syn ent_replace _ _ Hrp). rewrite map_rev in Hi. apply in_rev in Hi. exact Hi. }
  assert (Hk3 : forall i, In (Some i) k3 -> In i (map vid EX) \/ In i (map vid RP) \/ In i (map vid TL)).
  { intros i Hi. unfold k3 in Hi. destruct mod_.
    - apply dups_in in Hi. destruct Hi as [Hi|Hi]; [destruct (Hk2 i Hi); tauto|]. right. right.
      apply (in_somes_syn ent_tool _ _ Htl). exact Hi.
    - destruct (Hk2 i Hi); tauto. }
  assert (Hk12 : forall o, In o k1 -> In o k2) by (intros o Ho; unfold k2; apply dups_incl; exact Ho).
  assert (Hk23 : forall o, In o k2 -> In o k3) by (intros o Ho; unfold k3; destruct mod_; [apply dups_incl|]; exact Ho).
  (* disjointness of the segments *)
  pose proof (NoDup_app_r _ _ Hnd) as Hnd1.               (* EX RP RT TL US *)
  pose proof (NoDup_app_r _ _ Hnd1) as Hnd2.              (* RP RT TL US *)
  pose proof (NoDup_app_r _ _ Hnd2) as Hnd3.              (* RT TL US *)
  pose proof (NoDup_app_r _ _ Hnd3) as Hnd4.              (* TL US *)
  assert (Dex_rp : forall i, In i (map vid EX) -> In i (map vid RP) -> False).
  { intros i A B. eapply (NoDup_app_disj _ _ i Hnd1); [exact A | apply in_app_iff; left; exact B]. }
  assert (Dex_tl : forall i, In i (map vid EX) -> In i (map vid TL) -> False).
  { intros i A B. eapply (NoDup_app_disj _ _ i Hnd1); [exact A | do 2 (apply in_app_iff; right); apply in_app_iff; left; exact B]. }
  assert (Drp_tl : forall i, In i (map vid RP) -> In i (map vid TL) -> False).
  { intros i A B. eapply (NoDup_app_disj _ _ i Hnd2); [exact A | apply in_app_iff; right; apply in_app_iff; left; exact B]. }
  assert (HK3 : forall i, In i (somes k3) -> In i (map vid EX) \/ In i (map vid RP) \/ In i (map vid TL)).
  { intros i Hi. apply in_somes in Hi. auto. }
  destruct (remove_killed_ok (fsyn f) k3 Hsyn) as [Hsyn' Htv].
  apply coherent_S. unfold remove_dups. fold k1 k2 k3.
  cbn [fsyn with_tool with_replace with_exclude with_syn].
  split; [exact Hsyn' | split].
  - (* entries stay well-formed *)
    rewrite entries_exclude. unfold post_exclude, post_replace, post_retract, post_tool.
    cbn [f_exclude f_replace f_retract f_tool f_use with_tool with_replace with_exclude with_syn].
    change (pre_exclude (with_tool _ _)) with (pre_exclude f).
    apply Forall_app; split; [exact Hpre|].
    apply Forall_app; split; [destruct mod_; [apply forall_ok_filter'|]; exact Hex|].
    apply Forall_app; split; [apply forall_ok_filter'; exact Hrp|].
    apply Forall_app; split; [exact Hrt|].
    apply Forall_app; split; [destruct mod_; [apply forall_ok_filter'|]; exact Htl | exact Hus].
  - rewrite Htv. etransitivity; [apply rm_perm; exact Hperm|].
    rewrite entries_exclude. unfold post_exclude, post_replace, post_retract, post_tool.
    cbn [f_exclude f_replace f_retract f_tool f_use with_tool with_replace with_exclude with_syn].
    change (pre_exclude (with_tool _ _)) with (pre_exclude f).
    rewrite !flat_map_app, !rm_app. fold PRE RT US.
    assert (Epre : rm (somes k3) PRE = PRE).
    { apply rm_disjoint. intros x Hx Hin. apply HK3 in Hin.
      assert (Hx' : In (vid x) (map vid PRE)) by (apply in_map; exact Hx).
      destruct Hin as [A|[A|A]]; eapply (NoDup_app_disj _ _ (vid x) Hnd); try exact Hx'.
      - apply in_app_iff. left. exact A.
      - apply in_app_iff. right. apply in_app_iff. left. exact A.
      - do 3 (apply in_app_iff; right). apply in_app_iff. left. exact A. }
    assert (Ert : rm (somes k3) RT = RT).
    { apply rm_disjoint. intros x Hx Hin. apply HK3 in Hin.
      assert (Hx' : In (vid x) (map vid RT)) by (apply in_map; exact Hx).
      destruct Hin as [A|[A|A]].
      - eapply (NoDup_app_disj _ _ (vid x) Hnd1); [exact A | apply in_app_iff; right; apply in_app_iff; left; exact Hx'].
      - eapply (NoDup_app_disj _ _ (vid x) Hnd2); [exact A | apply in_app_iff; left; exact Hx'].
      - eapply (NoDup_app_disj _ _ (vid x) Hnd3); [exact Hx' | apply in_app_iff; left; exact A]. }
    assert (Eus : rm (somes k3) US = US).
    { apply rm_disjoint. intros x Hx Hin. apply HK3 in Hin.
      assert (Hx' : In (vid x) (map vid US)) by (apply in_map; exact Hx).
      destruct Hin as [A|[A|A]].
      - eapply (NoDup_app_disj _ _ (vid x) Hnd1); [exact A | repeat (apply in_app_iff; right); exact Hx'].
      - eapply (NoDup_app_disj _ _ (vid x) Hnd2); [exact A | repeat (apply in_app_iff; right); exact Hx'].
      - eapply (NoDup_app_disj _ _ (vid x) Hnd4); [exact A | exact Hx']. }
    rewrite Epre, Ert, Eus.
    assert (Eex : flat_map ent_view (map ent_exclude (if mod_ then filter (fun x => negb (killed k1 (ex_syn x))) (f_exclude f) else f_exclude f))
                  = rm (somes k3) EX).
    { destruct mod_.
      - apply (view_filter_killed ent_exclude k1 k3). intros e i Hin Hs. split.
        + intros Hi. apply in_somes. apply Hk23, Hk12. exact Hi.
        + intros Hi. apply in_somes in Hi.
          assert (Hi_ex : In i (map vid EX)).
          { apply (in_somes_syn ent_exclude _ _ Hex). apply in_map_iff. exists e. auto. }
          unfold k3 in Hi. apply dups_in in Hi. destruct Hi as [Hi|Hi].
          * unfold k2 in Hi. apply dups_in in Hi. destruct Hi as [Hi|Hi]; [exact Hi|].
            exfalso. apply (Dex_rp i Hi_ex). apply (in_somes_syn ent_replace _ _ Hrp).
            rewrite map_rev in Hi. apply in_rev in Hi. exact Hi.
          * exfalso. apply (Dex_tl i Hi_ex). apply (in_somes_syn ent_tool _ _ Htl). exact Hi.
      - symmetry. apply rm_disjoint. intros x Hx Hin. apply in_somes in Hin. unfold k3, k2, k1 in Hin.
        apply dups_in in Hin. destruct Hin as [[]|Hin].
        apply (Dex_rp (vid x)); [apply in_map; exact Hx|].
        apply (in_somes_syn ent_replace _ _ Hrp). rewrite map_rev in Hin. apply in_rev in Hin. exact Hin. }
    assert (Erp : flat_map ent_view (map ent_replace (filter (fun x => negb (killed k2 (rp_syn x))) (f_replace f)))
                  = rm (somes k3) RP).
    { apply (view_filter_killed ent_replace k2 k3). intros e i Hin Hs. split.
      - intros Hi. apply in_somes. apply Hk23. exact Hi.
      - intros Hi. apply in_somes in Hi.
        assert (Hi_rp : In i (map vid RP)).
        { apply (in_somes_syn ent_replace _ _ Hrp). apply in_map_iff. exists e. auto. }
        unfold k3 in Hi. destruct mod_; [|exact Hi]. apply dups_in in Hi. destruct Hi as [Hi|Hi]; [exact Hi|].
        exfalso. apply (Drp_tl i Hi_rp). apply (in_somes_syn ent_tool _ _ Htl). exact Hi. }
    assert (Etl : flat_map ent_view (map ent_tool (if mod_ then filter (fun x => negb (killed k3 (tl_syn x))) (f_tool f) else f_tool f))
                  = rm (somes k3) TL).
    { destruct mod_.
      - apply (view_filter_killed ent_tool k3 k3). intros e i Hin Hs. split; intros Hi; [apply in_somes | apply in_somes in Hi]; exact Hi.
      - symmetry. apply rm_disjoint. intros x Hx Hin. apply in_somes in Hin. unfold k3 in Hin.
        destruct (Hk2 _ Hin) as [A|A]; [apply (Dex_tl (vid x) A) | apply (Drp_tl (vid x) A)]; apply in_map; exact Hx. }
    rewrite Eex, Erp, Etl. reflexivity.
Qed.

(* ---------------------------------------------------------------- SortBlocks, AddTool *)
Lemma sort_blocks_as_sort_stmt f :
  sort_blocks f = with_syn (remove_dups f true)
                    (with_stmts (fsyn (remove_dups f true))
                       (map (sort_stmt (heap (fsyn (remove_dups f true))) (block_less f)) (stmts (fsyn (remove_dups f true))))).
Proof. reflexivity. Qed.

Lemma w_sort_blocks_as_sort_stmt f :
  w_sort_blocks f = with_syn (remove_dups f false)
                      (with_stmts (fsyn (remove_dups f false))
                         (map (sort_stmt (heap (fsyn (remove_dups f false))) (fun _ => toks_less)) (stmts (fsyn (remove_dups f false))))).
Proof. reflexivity. Qed.

Lemma with_syn_entries f s : entries (with_syn f s) = entries f.
Proof. reflexivity. Qed.

Theorem sort_blocks_coherent f : Coherent f -> Coherent (sort_blocks f).
Proof.
  intros Hc. apply (remove_dups_coherent f true) in Hc. rewrite sort_blocks_as_sort_stmt.
  apply coherent_S in Hc. apply coherent_S. rewrite with_syn_entries. cbn [fsyn with_syn].
  apply coherentS_sort. exact Hc.
Qed.

Theorem w_sort_blocks_coherent f : Coherent f -> Coherent (w_sort_blocks f).
Proof.
  intros Hc. apply (remove_dups_coherent f false) in Hc. rewrite w_sort_blocks_as_sort_stmt.
  apply coherent_S in Hc. apply coherent_S. rewrite with_syn_entries. cbn [fsyn with_syn].
  apply coherentS_sort. exact Hc.
Qed.

Theorem add_tool_coherent f (p : str) :
  p <> [] -> must_quote p = false -> Coherent f -> Coherent (add_tool f p).
Proof.
  intros Hp Hq Hc. unfold add_tool. destruct (existsb _ _); [exact Hc|].
  destruct (add_line (fsyn f) None v_tool [p]) as [s n] eqn:Ea.
  pose proof (add_line_heap (fsyn f) None v_tool [p]) as [Hn _]. rewrite Ea in Hn. cbn in Hn.
  apply sort_blocks_coherent.
  assert (Hpl : nonempty p = true) by (apply nonempty_true; exact Hp).
  eapply (coherent_add f _ _ _ (map ent_tool (f_tool f)) (ent_tool (mkTool p (Some n))) None v_tool [p] Hc (entries_tool f)).
  - rewrite entries_tool. cbn. rewrite map_app. reflexivity.
  - cbn [fsyn with_tool with_syn]. rewrite Ea. reflexivity.
  - discriminate.
  - unfold ent_view; cbn [ent_tool en_syn en_live en_verb en_args tl_path tl_syn]. rewrite Hpl, Hn.
    unfold auto_quote. rewrite Hq. rewrite norm_args_plain by reflexivity. reflexivity.
  - unfold ent_ok; cbn. rewrite Hpl. discriminate.
Qed.

(* ---------------------------------------------------------------- SetUse *)
Lemma coherentS_kill_one s A B (e e' : ent) i :
  CoherentS s (A ++ e :: B) -> en_syn e = Some i -> ent_view e' = [] -> ent_ok e' ->
  CoherentS (mark_removed s i) (A ++ e' :: B).
Proof.
  intros Hc Hs Hv Hok.
  assert (Hoke : ent_ok e).
  { destruct Hc as [_ [He _]]. apply Forall_app in He. destruct He as [_ He]. inversion He; assumption. }
  change (A ++ e :: B) with (A ++ [e] ++ B) in Hc. change (A ++ e' :: B) with (A ++ [e'] ++ B).
  apply (coherentS_kill_gen s A B [e] [e'] [i] Hc).
  - constructor; [exact Hok | constructor].
  - cbn [flat_map]. rewrite Hv, !app_nil_r. symmetry. apply rm_all.
    intros x Hx. apply ent_view_vid in Hx. destruct Hx as [Hx _]. left. congruence.
  - intros j [<-|[]]. destruct (ent_view_some e i Hoke Hs) as [x [Hx Hvx]]. cbn [flat_map]. rewrite Hx, app_nil_r. left. exact Hvx.
Qed.

Lemma set_use_loop_S B : forall l A s N s' l' N',
  CoherentS s (A ++ map ent_use l ++ B) ->
  set_use_loop s N l = Some (s', l', N') ->
  CoherentS s' (A ++ map ent_use l' ++ B).
Proof.
  induction l as [|u rest IH]; intros A s N s' l' N' Hc H; cbn in H.
  - injection H as <- <- _. exact Hc.
  - destruct (amap_get (us_path u) N) as [mp|].
    + destruct (set_use_loop s _ rest) as [[[s1 l1] N1]|] eqn:Hr; [|discriminate]. injection H as <- <- _.
      cbn [map]. change (ent_use (mkUse (us_path u) mp (us_syn u))) with (ent_use u).
      cbn [map] in Hc.
      assert (E : forall X, A ++ ent_use u :: X = (A ++ [ent_use u]) ++ X) by (intros X; rewrite <- app_assoc; reflexivity).
      cbn [app] in Hc |- *. rewrite E. rewrite E in Hc. eapply IH; eauto.
    + destruct (us_syn u) as [i|] eqn:Hs; [|discriminate].
      destruct (set_use_loop _ _ rest) as [[[s1 l1] N1]|] eqn:Hr; [|discriminate]. injection H as <- <- _.
      cbn [map] in Hc |- *.
      cbn [app] in Hc.
      pose proof (coherentS_kill_one s A (map ent_use rest ++ B) (ent_use u) (ent_use zero_use) i Hc Hs eq_refl eq_refl) as Hc1.
      assert (E : forall X, A ++ ent_use zero_use :: X = (A ++ [ent_use zero_use]) ++ X) by (intros X; rewrite <- app_assoc; reflexivity).
      cbn [app] in Hc1 |- *. rewrite E. rewrite E in Hc1. eapply IH; eauto.
Qed.

Lemma fold_add_new_use_coherent (N : list (str * str)) : forall f,
  (forall k, In k (map fst N) -> k <> []) -> Coherent f ->
  Coherent (fold_left (fun g kv => add_new_use g (fst kv) (snd kv)) N f).
Proof.
  induction N as [|[p m] r IH]; intros f Hne Hc; cbn [fold_left]; [exact Hc|].
  apply IH; [intros k Hk; apply Hne; right; exact Hk|].
  apply add_new_use_coherent; [apply Hne; left; reflexivity | exact Hc].
Qed.

Theorem set_use_coherent f (l : list (str * str)) f' :
  distinct_paths (map fst l) = true -> Coherent f -> set_use f l = Some f' -> Coherent f'.
Proof.
  intros Hd Hc H. unfold set_use in H.
  set (N := fold_left (fun m (q : str * str) => amap_set (fst q) (snd q) m) l []) in H.
  destruct (set_use_loop (fsyn f) N (f_use f)) as [[[s us] N']|] eqn:Hl; [|discriminate]. injection H as <-.
  apply w_sort_blocks_coherent. apply fold_add_new_use_coherent.
  - (* the remaining keys are requested paths, hence non-empty *)
    apply EditProofsExact.distinct_paths_spec in Hd. destruct Hd as [Hnd Hne].
    assert (HP : Permutation N l).
    { unfold N. rewrite EditProofsExact.fold_amap_set_perm; [rewrite app_nil_r; reflexivity | cbn; rewrite app_nil_r; exact Hnd]. }
    destruct (EditProofsExact.set_use_loop_perm _ _ _ _ _ _ Hl) as [_ [_ P3]].
    + eapply Permutation_NoDup; [symmetry; apply (EditProofsExact.keys_perm _ _ HP) | exact Hnd].
    + intros k Hk. rewrite Forall_forall in Hne. apply Hne. eapply Permutation_in; [apply (EditProofsExact.keys_perm _ _ HP) | exact Hk].
    + exact P3.
  - apply coherent_S. rewrite entries_use. cbn [fsyn with_use with_syn f_use].
    apply coherent_S in Hc. rewrite entries_use in Hc.
    eapply set_use_loop_S; eauto.
Qed.

(* ---------------------------------------------------------------- WorkFile AddGoStmt / AddToolchainStmt *)
Lemma insert_top_line s i verb args :
  SyntaxOk s -> args <> [] ->
  let s' := insert_stmt_at (fst (salloc s (mkHL no_coms (verb :: args) false))) i (SLine (heap_len s)) in
  SyntaxOk s' /\ Permutation (tree_view s') ((heap_len s, verb, norm_args verb args dead_line) :: tree_view s).
Proof.
  intros [H1 H2 H3] Ha s'.
  set (l := mkHL no_coms (verb :: args) false).
  assert (Hst : stmts s' = firstn i (stmts s) ++ SLine (heap_len s) :: skipn i (stmts s)) by reflexivity.
  assert (Hh : heap s' = heap s ++ [l]) by reflexivity.
  assert (Hlines : Permutation (stmts_lines (stmts s')) (@pair lid (option str) (length (heap s)) None :: stmts_lines (stmts s))).
  { rewrite Hst. unfold stmts_lines. rewrite flat_map_app. cbn [flat_map stmt_lines app].
    rewrite <- (firstn_skipn i (stmts s)) at 3. rewrite flat_map_app. symmetry. apply Permutation_middle. }
  split.
  - split.
    + rewrite tree_lines_stmts. eapply Permutation_NoDup; [symmetry; apply Permutation_map; exact Hlines|].
      cbn [map fst]. constructor; [|exact H1]. intros Hin. apply in_map_iff in Hin. destruct Hin as [x [Hx Hin]].
      rewrite Forall_forall in H2. destruct (H2 x Hin) as [Hl _]. rewrite Hx in Hl. unfold heap_len in Hl. lia.
    + rewrite tree_lines_stmts. eapply Permutation_Forall; [symmetry; exact Hlines|].
      constructor.
      * unfold line_placed, sget. rewrite Hh. apply (placed_new_top s verb args Ha).
      * eapply Forall_impl; [|exact H2]. intros x Hx. unfold line_placed, sget. rewrite Hh.
        apply (placed_app_new s l x). exact Hx.
    + rewrite Hst. apply Forall_app. split.
      { apply Forall_forall. intros x Hx. rewrite Forall_forall in H3. apply H3.
        rewrite <- (firstn_skipn i (stmts s)). apply in_app_iff. left. exact Hx. }
      constructor; [exact I|]. apply Forall_forall. intros x Hx. rewrite Forall_forall in H3. apply H3.
      rewrite <- (firstn_skipn i (stmts s)). apply in_app_iff. right. exact Hx.
  - unfold tree_view. rewrite !tree_lines_stmts.
    change (line_view s') with (lview (heap s')). change (line_view s) with (lview (heap s)). rewrite Hh.
    etransitivity; [apply Permutation_flat_map; exact Hlines|]. cbn [flat_map]. unfold heap_len, l.
    rewrite (lview_new_top s verb args). cbn [app]. apply perm_skip.
    rewrite (flat_lview_frame (heap s)); [reflexivity|].
    intros x Hx. rewrite Forall_forall in H2. destruct (H2 x Hx) as [Hl _]. apply hget_app_old. exact Hl.
Qed.

Lemma coherent_insert_top (f f' : file) A B es (e : ent) i verb args :
  Coherent f ->
  entries f = A ++ es ++ B ->
  entries f' = A ++ (es ++ [e]) ++ B ->
  fsyn f' = insert_stmt_at (fst (salloc (fsyn f) (mkHL no_coms (verb :: args) false))) i (SLine (heap_len (fsyn f))) ->
  args <> [] ->
  ent_view e = [(heap_len (fsyn f), verb, norm_args verb args dead_line)] ->
  ent_ok e ->
  Coherent f'.
Proof.
  intros [Hs He Hp] E1 E2 Hsyn Ha Hv Hok.
  destruct (insert_top_line (fsyn f) i verb args Hs Ha) as [Hs' Hp'].
  split.
  - rewrite Hsyn. exact Hs'.
  - unfold EntriesOk in *. rewrite E1 in He. rewrite E2.
    apply Forall_app in He. destruct He as [HA He]. apply Forall_app in He. destruct He as [HM HB].
    repeat (apply Forall_app; split); try assumption. constructor; [exact Hok | constructor].
  - rewrite Hsyn. etransitivity; [exact Hp'|].
    unfold typed_view in *. rewrite E1 in Hp. rewrite E2. rewrite !flat_map_app in *. cbn [flat_map]. rewrite Hv, app_nil_r.
    etransitivity; [apply perm_skip; exact Hp|].
    rewrite <- !app_assoc. etransitivity; [apply Permutation_middle|]. apply Permutation_app_head.
    cbn [app]. apply Permutation_middle.
Qed.

Theorem w_add_go_stmt_coherent f (v : str) f' : Coherent f -> w_add_go_stmt f v = ROk f' -> Coherent f'.
Proof.
  intros Hc H. unfold w_add_go_stmt in H. destruct (go_version_ok v); cbn [negb] in H; [|discriminate].
  destruct (f_go f) as [g|] eqn:Hg.
  - destruct (go_syn g) as [i|] eqn:Hs; [|discriminate]. injection H as <-.
    eapply (coherent_update f _ _ _ (ent_go g) (ent_go (mkGo v (Some i))) i v_go [v] Hc).
    + rewrite entries_go, Hg. reflexivity.
    + rewrite entries_go. reflexivity.
    + exact Hs.
    + reflexivity.
    + reflexivity.
    + reflexivity.
    + reflexivity.
    + reflexivity.
    + reflexivity.
    + discriminate.
    + reflexivity.
  - cbn [salloc] in H. injection H as <-.
    eapply (coherent_insert_top f _ _ _ [] (ent_go (mkGo v (Some (length (heap (fsyn f)))))) _ v_go [v] Hc).
    + rewrite entries_go, Hg. reflexivity.
    + rewrite entries_go. reflexivity.
    + reflexivity.
    + discriminate.
    + reflexivity.
    + unfold ent_ok; cbn. discriminate.
Qed.

Theorem w_add_toolchain_stmt_coherent f (v : str) f' : Coherent f -> w_add_toolchain_stmt f v = ROk f' -> Coherent f'.
Proof.
  intros Hc H. unfold w_add_toolchain_stmt in H. destruct (toolchain_ok v); cbn [negb] in H; [|discriminate].
  destruct (f_toolchain f) as [g|] eqn:Hg.
  - destruct (go_syn g) as [i|] eqn:Hs; [|discriminate]. injection H as <-.
    eapply (coherent_update f _ _ _ (ent_toolchain g) (ent_toolchain (mkGo v (Some i))) i v_toolchain [v] Hc).
    + rewrite entries_toolchain, Hg. reflexivity.
    + rewrite entries_toolchain. reflexivity.
    + exact Hs.
    + reflexivity.
    + reflexivity.
    + reflexivity.
    + reflexivity.
    + reflexivity.
    + reflexivity.
    + discriminate.
    + reflexivity.
  - cbn [salloc] in H. injection H as <-.
    eapply (coherent_insert_top f _ _ _ [] (ent_toolchain (mkGo v (Some (length (heap (fsyn f)))))) _ v_toolchain [v] Hc).
    + rewrite entries_toolchain, Hg. reflexivity.
    + rewrite entries_toolchain. reflexivity.
    + reflexivity.
    + discriminate.
    + reflexivity.
    + unfold ent_ok; cbn. discriminate.
Qed.

(* ---------------------------------------------------------------- everything but SetRequire / SetRequireSeparateIndirect *)
Definition coh_op2 (o : op) : bool :=
  match o with SetRequire _ | SetRequireSeparateIndirect _ => false | _ => true end.

Theorem coherent_invariant_but_set_require o f f' :
  coh_op2 o = true -> valid_args o = true -> Coherent f ->
  apply o f = ROk f' \/ apply o f = RErr f' -> Coherent f'.
Proof.
  intros Hco Hv Hc H.
  destruct (coh_op o) eqn:E; [eapply coherent_invariant_partial; eauto|].
  destruct o; try discriminate E; try discriminate Hco; cbn [apply] in H; cbn in Hv.
  - (* AddTool *)
    destruct H as [H|H]; [|discriminate]. injection H as <-.
    apply Bool.andb_true_iff in Hv. destruct Hv as [Hv1 Hv2].
    apply add_tool_coherent; [apply nonempty_true; exact Hv1 | apply negb_true_false; exact Hv2 | exact Hc].
  - (* SortBlocks *)
    destruct H as [H|H]; [|discriminate]. injection H as <-. apply sort_blocks_coherent. exact Hc.
  - (* WAddGoStmt *)
    destruct H as [H|H]; [eapply w_add_go_stmt_coherent; eauto|].
    unfold w_add_go_stmt in H. destruct (go_version_ok v); cbn in H.
    + destruct (f_go f) as [g|]; [destruct (go_syn g); discriminate | discriminate].
    + injection H as <-. exact Hc.
  - (* WAddToolchainStmt *)
    destruct H as [H|H]; [eapply w_add_toolchain_stmt_coherent; eauto|].
    unfold w_add_toolchain_stmt in H. destruct (toolchain_ok name); cbn in H.
    + destruct (f_toolchain f) as [g|]; [destruct (go_syn g); discriminate | discriminate].
    + injection H as <-. exact Hc.
  - (* WSetUse *)
    destruct H as [H|H]; [apply lift_some in H | exfalso; exact (lift_not_err _ _ H)].
    eapply set_use_coherent; eauto.
  - (* WSortBlocks *)
    destruct H as [H|H]; [|discriminate]. injection H as <-. apply w_sort_blocks_coherent. exact Hc.
Qed.

Theorem run_coherent_but_set_require ops : forall f k er errs f',
  Coherent f ->
  Forall (fun o => coh_op2 o = true /\ valid_args o = true) ops ->
  run_from k er ops f = RunOk errs f' -> Coherent f'.
Proof.
  induction ops as [|o r IH]; intros f k er errs f' Hc Hall H; cbn in H.
  - injection H as _ <-. exact Hc.
  - inversion Hall as [|? ? [Hco Hv] Hr]; subst.
    destruct (apply o f) as [f1|f1|] eqn:Ha; [| |discriminate];
      (eapply (IH f1); [eapply coherent_invariant_but_set_require; eauto | exact Hr | exact H]).
Qed.

(* AddTool refines its documented step *)
Lemma add_tool_refines f (p : str) :
  p <> [] -> must_quote p = false -> Coherent f ->
  kstep (AddTool p) (abs f) = (abs (add_tool f p), false).
Proof.
  intros Hp Hq Hc. cbn [kstep]. unfold add_tool.
  assert (Hex : existsb (str_eqb p) (k_tool (abs f)) = existsb (fun t => str_eqb (tl_path t) p) (f_tool f)).
  { unfold abs; cbn [k_tool]. induction (f_tool f) as [|t r IH]; cbn [filter map existsb]; [reflexivity|].
    destruct (nonempty (tl_path t)) eqn:El; cbn [map existsb].
    - rewrite IH, (str_eqb_sym p (tl_path t)). reflexivity.
    - rewrite IH. destruct (str_eqb (tl_path t) p) eqn:Ee; [|reflexivity].
      apply str_eqb_eq in Ee. rewrite Ee in El. apply nonempty_true in Hp. congruence. }
  rewrite Hex. destruct (existsb _ (f_tool f)); [reflexivity|].
  destruct (add_line (fsyn f) None v_tool [p]) as [s n] eqn:Ea.
  set (g := with_tool (with_syn f s) (f_tool f ++ [mkTool p (Some n)])).
  assert (Hcg : Coherent g).
  { pose proof (add_line_heap (fsyn f) None v_tool [p]) as [Hn _]. rewrite Ea in Hn. cbn in Hn.
    assert (Hpl : nonempty p = true) by (apply nonempty_true; exact Hp).
    eapply (coherent_add f g _ _ (map ent_tool (f_tool f)) (ent_tool (mkTool p (Some n))) None v_tool [p] Hc (entries_tool f)).
    - unfold g. rewrite entries_tool. cbn. rewrite map_app. reflexivity.
    - unfold g. cbn [fsyn with_tool with_syn]. rewrite Ea. reflexivity.
    - discriminate.
    - unfold ent_view; cbn [ent_tool en_syn en_live en_verb en_args tl_path tl_syn]. rewrite Hpl, Hn.
      unfold auto_quote. rewrite Hq. rewrite norm_args_plain by reflexivity. reflexivity.
    - unfold ent_ok; cbn. rewrite Hpl. discriminate. }
  rewrite (sort_blocks_abs g (coherent_dedupwf g Hcg)). f_equal. f_equal.
  unfold g, abs; cbn. rewrite filter_app, map_app. cbn.
  assert (nonempty p = true) as -> by (apply nonempty_true; exact Hp). reflexivity.
Qed.

Definition ref_op (o : op) : bool :=
  match o with SetRequire _ | SetRequireSeparateIndirect _ | WSetUse _ => false | _ => true end.

Theorem apply_refines_coherent o f :
  ref_op o = true -> valid_args o = true -> Coherent f -> res_refines o f (apply o f).
Proof.
  intros Hr Hv Hc. destruct (simple_op o) eqn:E; [apply apply_refines_simple; assumption|].
  destruct o; try discriminate E; try discriminate Hr; cbn [apply]; unfold res_refines.
  - cbn in Hv. apply Bool.andb_true_iff in Hv. destruct Hv as [Hv1 Hv2].
    apply add_tool_refines; [apply nonempty_true; exact Hv1 | apply negb_true_false; exact Hv2 | exact Hc].
  - cbn [kstep]. rewrite (sort_blocks_refines_coherent f Hc). reflexivity.
  - cbn [kstep]. rewrite (w_sort_blocks_refines_coherent f Hc). reflexivity.
Qed.

(* C08: every sequence without the bulk setters refines the keyed model, C15: and keeps the
   file coherent *)
Theorem run_refines_but_bulk ops : forall f k er errs f',
  Coherent f ->
  Forall (fun o => ref_op o = true /\ valid_args o = true) ops ->
  run_from k er ops f = RunOk errs f' ->
  Coherent f' /\ krun ops (abs f) er = (abs f', errs).
Proof.
  induction ops as [|o r IH]; intros f k er errs f' Hc Hall H; cbn in H.
  - injection H as <- <-. split; [exact Hc | reflexivity].
  - inversion Hall as [|? ? [Hro Hv] Hr]; subst.
    assert (Hco : coh_op2 o = true) by (destruct o; cbn in *; congruence).
    pose proof (apply_refines_coherent o f Hro Hv Hc) as Href. unfold res_refines in Href.
    cbn [krun].
    destruct (apply o f) as [f1|f1|] eqn:Ha; [| |discriminate].
    + rewrite Href. apply (IH f1 (S k)); [|exact Hr | exact H].
      eapply coherent_invariant_but_set_require; eauto.
    + destruct Href as [-> Hk]. destruct (kstep o (abs f)) as [k1 e1] eqn:Ek. cbn in Hk. subst e1.
      assert (k1 = abs f).
      { destruct o; cbn in Ek; try discriminate Hro;
          repeat match type of Ek with
                 | (if ?c then _ else _) = _ => destruct c
                 | (let (_, _) := ?c in _) = _ => destruct c
                 end; try (injection Ek as <-; reflexivity); try discriminate. }
      subst k1. apply (IH f (S k)); [exact Hc | exact Hr | exact H].
Qed.

Theorem run_ops_refines_but_bulk ops f errs f' :
  Coherent f ->
  Forall (fun o => ref_op o = true /\ valid_args o = true) ops ->
  run_ops ops f = RunOk errs f' ->
  Coherent f' /\ krun ops (abs f) [] = (abs f', errs).
Proof. exact (run_refines_but_bulk ops f O [] errs f'). Qed.

Theorem run_ops_coherent_but_set_require ops f errs f' :
  Coherent f ->
  Forall (fun o => coh_op2 o = true /\ valid_args o = true) ops ->
  run_ops ops f = RunOk errs f' -> Coherent f'.
Proof. exact (run_coherent_but_set_require ops f O [] errs f'). Qed.
