(* No token of a line contains a line feed: identifiers stop at white space, and since
   /repo a2ca708 a quoted string cannot contain a newline even after a backslash.
   (Before that commit the string "a\<LF>b" was one token, which broke the comment
   assignment and the Format round trip: finding K7, repaired.) *)
From Verif.Base Require Import Bytes Utf8.
From Verif.Modfile Require Import Syntax Lex ProofsLex.

Definition nolf (s : str) : Prop := count_lf s = 0.

(* [c] are the bytes consumed between the states st0 and st *)
Definition consumed (st0 st : lstate) (c : str) : Prop := ls_rem st0 = c ++ ls_rem st.

Lemma consumed_refl st : consumed st st [].
Proof. reflexivity. Qed.

Lemma read_rune_consumed data st0 st c r st' :
  linv data st -> consumed st0 st c -> read_rune st = Some (r, st') -> r <> 10 -> nolf c ->
  exists c', consumed st0 st' c' /\ nolf c'.
Proof.
  intros Hi Hc Hr Hne Hn. destruct (read_rune_spec _ _ _ _ Hi Hr) as (_ & _ & w & Hd & Hrem & Hnn & _).
  exists (c ++ firstn w (ls_rem st)). split.
  - unfold consumed in *. rewrite Hc, Hrem, <- app_assoc, firstn_skipn. reflexivity.
  - unfold nolf in *. rewrite count_lf_app, Hn, (decode_lf _ _ _ Hnn Hd).
    destruct (Z.eqb_spec r 10); [contradiction|reflexivity].
Qed.

Lemma end_token_text data k st0 st c :
  linv data st0 -> linv data st -> consumed st0 st c ->
  t_text (end_token k st0 st) = if is_comment_kind k then strip_eol c else c.
Proof.
  intros H0 H1 Hc. unfold end_token. cbn [t_text].
  rewrite (linv_byte _ _ H0), (linv_byte _ _ H1). unfold rem_len. unfold consumed in Hc. rewrite Hc.
  rewrite app_length.
  replace (Z.to_nat _) with (length c) by lia.
  rewrite firstn_app, firstn_all, Nat.sub_diag. cbn [firstn]. rewrite app_nil_r. reflexivity.
Qed.

Definition tok_nolf (res : tok_result) : Prop :=
  match res with TTok t _ => nolf (t_text t) | _ => True end.

Lemma peek_read st r st' : read_rune st = Some (r, st') -> peek_rune st = r.
Proof.
  unfold read_rune, peek_rune. destruct (ls_rem st) as [|a t]; [discriminate|].
  destruct (Utf8.decode (a :: t)) as [r0 w]. intros [= <- _]. reflexivity.
Qed.

Lemma string_body_nolf data q st0 : linv data st0 -> forall f st c,
  linv data st -> consumed st0 st c -> nolf c -> tok_nolf (string_body f q st0 st).
Proof.
  intros H0. induction f as [|f IH]; intros st c Hi Hc Hn; cbn [string_body]; [exact I|].
  destruct (eof st); [exact I|].
  destruct (peek_rune st =? 10) eqn:E10; [exact I|].
  destruct (read_rune st) as [[r st1]|] eqn:Hr; [|exact I].
  assert (Hr10 : r <> 10) by (rewrite (peek_read _ _ _ Hr) in E10; apply Z.eqb_neq; exact E10).
  destruct (read_rune_consumed _ _ _ _ _ _ Hi Hc Hr Hr10 Hn) as (c1 & Hc1 & Hn1).
  destruct (read_rune_spec _ _ _ _ Hi Hr) as (Hi1 & _).
  destruct (r =? q).
  { cbn [tok_nolf]. rewrite (end_token_text data KString st0 st1 c1 H0 Hi1 Hc1). exact Hn1. }
  destruct ((r =? 92) && negb (q =? 96)); [|eapply IH; eauto].
  destruct (eof st1); [exact I|].
  destruct (peek_rune st1 =? 10) eqn:E10'; [exact I|].
  destruct (read_rune st1) as [[r2 st2]|] eqn:Hr2; [|exact I].
  assert (Hr10' : r2 <> 10) by (rewrite (peek_read _ _ _ Hr2) in E10'; apply Z.eqb_neq; exact E10').
  destruct (read_rune_consumed _ _ _ _ _ _ Hi1 Hc1 Hr2 Hr10' Hn1) as (c2 & Hc2 & Hn2).
  destruct (read_rune_spec _ _ _ _ Hi1 Hr2) as (Hi2 & _).
  eapply IH; eauto.
Qed.

Lemma is_ident_10 : is_ident 10 = false.
Proof. vm_compute. reflexivity. Qed.

Lemma ident_body_nolf data st0 : linv data st0 -> forall f st c,
  linv data st -> consumed st0 st c -> nolf c -> tok_nolf (ident_body f st0 st).
Proof.
  intros H0. induction f as [|f IH]; intros st c Hi Hc Hn; cbn [ident_body]; [exact I|].
  assert (Hdone : tok_nolf (TTok (end_token KIdent st0 st) st)).
  { cbn [tok_nolf]. rewrite (end_token_text data KIdent st0 st c H0 Hi Hc). exact Hn. }
  destruct (is_ident (peek_rune st)) eqn:Eid; [|exact Hdone].
  destruct (peek_prefix st [47; 47]); [exact Hdone|].
  destruct (peek_prefix st [47; 42]); [exact I|].
  destruct (read_rune st) as [[r st1]|] eqn:Hr; [|exact I].
  assert (Hr10 : r <> 10).
  { rewrite (peek_read _ _ _ Hr) in Eid. intros ->. rewrite is_ident_10 in Eid. discriminate. }
  destruct (read_rune_consumed _ _ _ _ _ _ Hi Hc Hr Hr10 Hn) as (c1 & Hc1 & Hn1).
  destruct (read_rune_spec _ _ _ _ Hi Hr) as (Hi1 & _).
  eapply IH; eauto.
Qed.

(* the tokens that can occur in Line.Token / LineBlock.Token: everything but the newline
   token and comments *)
Definition line_token_kind (k : tkind) : bool :=
  match k with
  | KIdent | KString => true
  | KPunct c => negb (c =? 10)
  | _ => false
  end.

Lemma read_main_nolf data f st : linv data st ->
  match read_main f st with
  | TTok t _ => line_token_kind (t_kind t) = true -> nolf (t_text t)
  | _ => True
  end.
Proof.
  intros Hi. unfold read_main.
  destruct (eof st); [cbn; discriminate|].
  destruct (read_rune st) as [[r st1]|] eqn:Hr.
  2:{ destruct (is_punct (peek_rune st)); [exact I|]. destruct (_ || _); [exact I|].
      destruct (negb _); [exact I|].
      pose proof (ident_body_nolf data st (proj1 (conj Hi I)) f st [] Hi (consumed_refl st) eq_refl) as H.
      destruct (ident_body f st st); cbn in *; auto. }
  rewrite (peek_read _ _ _ Hr).
  destruct (read_rune_spec _ _ _ _ Hi Hr) as (Hi1 & _ & w & Hd & Hrem & Hnn & _).
  destruct (is_punct r) eqn:Ep.
  { cbn [end_token t_kind line_token_kind]. intros Hk. apply negb_true_iff, Z.eqb_neq in Hk.
    change (t_text (mkTok (KPunct r) (ls_pos st) (ls_pos st1) (if is_comment_kind (KPunct r) then strip_eol (firstn (Z.to_nat (p_byte (ls_pos st1) - p_byte (ls_pos st))) (ls_rem st)) else firstn (Z.to_nat (p_byte (ls_pos st1) - p_byte (ls_pos st))) (ls_rem st)))) with (t_text (end_token (KPunct r) st st1)).
    destruct (read_rune_consumed data st st [] r st1 Hi (consumed_refl st) Hr Hk eq_refl) as (c1 & Hc1 & Hn1).
    rewrite (end_token_text data (KPunct r) st st1 c1 Hi Hi1 Hc1). exact Hn1. }
  destruct ((r =? 34) || (r =? 96)) eqn:Eq.
  { assert (Hr10 : r <> 10) by lia.
    destruct (read_rune_consumed data st st [] r st1 Hi (consumed_refl st) Hr Hr10 eq_refl) as (c1 & Hc1 & Hn1).
    pose proof (string_body_nolf data r st Hi f st1 c1 Hi1 Hc1 Hn1) as H.
    destruct (string_body f r st st1); cbn in *; auto. }
  destruct (negb (is_ident r)); [exact I|].
  pose proof (ident_body_nolf data st Hi f st [] Hi (consumed_refl st) eq_refl) as H.
  destruct (ident_body f st st); cbn in *; auto.
Qed.

Lemma read_token_nolf data : forall f st, linv data st ->
  match read_token f st with
  | TTok t _ => line_token_kind (t_kind t) = true -> nolf (t_text t)
  | _ => True
  end.
Proof.
  induction f as [|f IH]; intros st Hi; cbn [read_token]; [exact I|].
  destruct (eof st); [apply (read_main_nolf data); exact Hi|].
  destruct (_ || _).
  { destruct (read_rune st) as [[r st1]|] eqn:Hr; [|exact I].
    apply IH. exact (proj1 (read_rune_spec _ _ _ _ Hi Hr)). }
  destruct (peek_prefix st [47; 47]).
  { unfold read_comment.
    destruct (read_rune st) as [[r1 st1]|]; [|exact I].
    destruct (read_rune st1) as [[r2 st2]|]; [|exact I].
    destruct (comment_body f st2) as [[st3|]|]; try exact I.
    cbn. destruct (has_non_space _); discriminate. }
  destruct (peek_prefix st [47; 42]); [exact I|].
  apply (read_main_nolf data). exact Hi.
Qed.

Definition tok_line_nolf (t : token) : Prop := line_token_kind (t_kind t) = true -> nolf (t_text t).

Lemma lex_all_nolf data : forall f st acc, linv data st -> (rem_len st + 3 <= f)%nat ->
  Forall tok_line_nolf acc -> Forall tok_line_nolf (fst (lex_all f st acc)).
Proof.
  induction f as [|f IH]; intros st acc Hi Hf Hacc; [lia|]. cbn [lex_all].
  pose proof (read_token_nolf data f st Hi) as Hn.
  pose proof (read_token_good data f st Hi ltac:(lia)) as Hg.
  destruct (read_token f st) as [t st'|p e| |]; cbn [fst]; try (rewrite frev_rev; apply Forall_rev; exact Hacc).
  destruct (is_eof (t_kind t)) eqn:Ek.
  - cbn [fst]. rewrite frev_rev. apply Forall_rev. constructor; [exact Hn|exact Hacc].
  - cbn in Hg. destruct Hg as (Hi' & _ & _ & _ & Hlt). specialize (Hlt Ek).
    apply IH; [exact Hi'|lia|constructor; [exact Hn|exact Hacc]].
Qed.

(* lex_tokens_no_lf: no identifier, string or punctuation token delivered by the lexer
   contains a line feed (the only token with a line feed is the newline token itself) *)
Theorem lex_tokens_no_lf data :
  Forall (fun t => line_token_kind (t_kind t) = true -> ~ In 10 (t_text t)) (fst (lex data)).
Proof.
  assert (H : Forall tok_line_nolf (fst (lex data))).
  { unfold lex. apply (lex_all_nolf data); [apply linv_init| |constructor].
    unfold rem_len, lex_fuel, init_state. cbn. lia. }
  eapply Forall_impl; [|exact H]. intros t Ht Hk Hin. specialize (Ht Hk).
  unfold nolf, count_lf in Ht.
  assert (Hf : In 10 (filter (fun c => c =? 10) (t_text t))) by (apply filter_In; split; [exact Hin|reflexivity]).
  destruct (filter _ (t_text t)); [contradiction|cbn in Ht; lia].
Qed.
