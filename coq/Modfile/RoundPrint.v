(* Round trip, part 9a: the printer on a well-formed lean tree writes exactly the printed
   lines [file_pls]: format (efile a) = render (file_pls a). *)
From Verif.Base Require Import Bytes Utf8.
From Verif.Modfile Require Import Syntax Lex Parse Print ProofsLex RoundRows RoundParse
  RoundLexPure RoundLexPure3 RoundLexPure4 RoundLexB2 RoundTrim RoundTree RoundTree2 RoundTree3.

(* ---------------------------------------------------------------- the bytes of the printed lines *)

Fixpoint toks_bytes (sep : bool) (ts : list str) : str :=
  match ts with
  | [] => []
  | t :: r =>
      (if (if is_close t then false else sep) then [32] else []) ++ t ++ toks_bytes (negb (is_open t)) r
  end.

Definition sfx_bytes (sfx : list str) : str := flat_map (fun c => 32 :: c) sfx.

Definition render_row (m : nat) (r : arow) : str :=
  match r with
  | RBlank => [10]
  | RCom c => repeat 9 m ++ c ++ [10]
  | RToks toks sfx => repeat 9 m ++ toks_bytes false toks ++ sfx_bytes sfx ++ [10]
  end.

Definition render_pl (p : pl) : str :=
  match p with
  | PLRow m r => render_row m r
  | PLHdr bt sfx => toks_bytes false bt ++ [32; 40] ++ sfx_bytes sfx ++ [10]
  end.

Definition render (pls : list pl) : str := flat_map render_pl pls.

(* ---------------------------------------------------------------- printer states *)

Definition vis (b : Z) : Prop := b <> 9 /\ b <> 32 /\ b <> 10.

(* the text so far ends a line that is not blank *)
Definition tline1 (t : str) : Prop := exists t' b, t = t' ++ [b; 10] /\ vis b.
(* the text so far is empty or ends with a line feed *)
Definition tnl (t : str) : Prop := t = [] \/ exists t', t = t' ++ [10].

Lemma tline1_tnl t : tline1 t -> tnl t.
Proof. intros (t' & b & -> & _). right. exists (t' ++ [b]). rewrite <- app_assoc. reflexivity. Qed.

(* at the beginning of a line, the tabs of the margin written *)
Definition St (p : pstate) (t : str) (m : nat) : Prop :=
  ps_out p = repeat 9 m ++ rev t /\ ps_comment p = [] /\ ps_margin p = m.

(* in a line: [content] written behind m0 tabs, the end-of-line comments sfx pending *)
Definition Mid (p : pstate) (t : str) (m0 : nat) (content : str) (sfx : list str) (mg : nat) : Prop :=
  ps_out p = rev content ++ repeat 9 m0 ++ rev t /\ ps_comment p = map ec sfx /\ ps_margin p = mg.

Definition vis_end (x : str) : Prop := exists pre b, x = pre ++ [b] /\ vis b.

Lemma end_ok_vis x : end_ok x -> vis_end x.
Proof. intros (pre & b & -> & A & B & C & _). exists pre, b. split; [reflexivity|]. repeat split; assumption. Qed.

Lemma drop_blanks_tabs m o : drop_blanks (repeat 9 m ++ o) = drop_blanks o.
Proof. induction m as [|m IH]; [reflexivity|]. cbn [repeat app drop_blanks]. exact IH. Qed.

Lemma drop_blanks_vis b o : vis b -> drop_blanks (b :: o) = b :: o.
Proof.
  intros (A & B & _). cbn [drop_blanks]. apply Z.eqb_neq in A, B. rewrite A, B. reflexivity.
Qed.

Lemma drop_blanks_tnl t : tnl t -> drop_blanks (rev t) = rev t.
Proof.
  intros [->|(t' & ->)]; [reflexivity|]. rewrite rev_app_distr. cbn [rev app]. reflexivity.
Qed.

Lemma rev_append_rev' (a b : str) : rev_append a b = rev a ++ b.
Proof. apply rev_append_rev. Qed.

Lemma emit_out s p : ps_out (emit s p) = rev s ++ ps_out p.
Proof. unfold emit. cbn [ps_out]. apply rev_append_rev. Qed.

Lemma rev_repeat (x : Z) m : rev (repeat x m) = repeat x m.
Proof.
  induction m as [|k IH]; [reflexivity|]. cbn [repeat rev]. rewrite IH.
  clear. induction k as [|k IH]; [reflexivity|]. cbn [repeat app]. rewrite IH. reflexivity.
Qed.

(* ---------------------------------------------------------------- newline *)

Lemma newline_mid p t m0 content sfx mg :
  Mid p t m0 content sfx mg -> vis_end content -> sfx_ok sfx ->
  St (newline p) (t ++ repeat 9 m0 ++ content ++ sfx_bytes (tcoms sfx) ++ [10]) mg.
Proof.
  intros (Ho & Hc & Hm) (pre & b & Econ & Hb) (Hsf & Hlen). unfold newline, St.
  destruct sfx as [|c [|c2 sfx]]; [| |cbn in Hlen; lia].
  - (* no comment *)
    rewrite Hc. cbn [map]. unfold trim. rewrite Ho, Econ, rev_app_distr. cbn [rev app].
    rewrite (drop_blanks_vis b _ Hb). cbn [ps_out ps_comment ps_margin].
    destruct Hb as (_ & _ & Hb10).
    assert (Hem : forall o, match b :: o with [] => mkP (b :: o) (ps_comment p) (ps_margin p) | 10 :: 10 :: _ => mkP (b :: o) (ps_comment p) (ps_margin p)
                             | _ => emit [10] (mkP (b :: o) (ps_comment p) (ps_margin p)) end = emit [10] (mkP (b :: o) (ps_comment p) (ps_margin p))).
    { intros o. destruct (Z.eq_dec b 10); [congruence|]. destruct b as [|pb|nb]; try reflexivity.
      repeat (destruct pb as [pb|pb|]; try reflexivity). congruence. }
    rewrite Hem. unfold emit_tabs, emit. cbn [ps_out ps_comment ps_margin rev_append tcoms map sfx_bytes flat_map app].
    rewrite Hc, Hm. split; [|split; reflexivity].
    rewrite !rev_app_distr, rev_repeat. cbn [rev app]. rewrite <- !app_assoc. reflexivity.
  - (* one comment *)
    rewrite Hc. cbn [map flush_comments ec c_token]. pose proof (Forall_inv Hsf) as Hct.
    destruct (trim_space_comment c Hct) as (_ & He & _). destruct (end_ok_vis _ He) as (pre' & b' & Ey & Hb').
    unfold trim. cbn [ps_out ps_comment ps_margin]. rewrite !emit_out. rewrite Ey, rev_app_distr. cbn [rev app].
    rewrite (drop_blanks_vis b' _ Hb'). destruct Hb' as (_ & _ & Hb10).
    assert (Hem : forall o q, match b' :: o with [] => q | 10 :: 10 :: _ => q | _ => emit [10] q end = emit [10] q).
    { intros o q. destruct (Z.eq_dec b' 10); [congruence|]. destruct b' as [|pb|nb]; try reflexivity.
      repeat (destruct pb as [pb|pb|]; try reflexivity). congruence. }
    rewrite Hem. unfold emit_tabs, emit. cbn [ps_out ps_comment ps_margin rev_append].
    rewrite Hm. split; [|split; reflexivity].
    cbn [tcoms map sfx_bytes flat_map app]. rewrite app_nil_r. rewrite Ho.
    rewrite !rev_app_distr, rev_repeat. cbn [rev app]. rewrite Ey. rewrite !rev_app_distr. cbn [rev app].
    rewrite <- !app_assoc. reflexivity.
Qed.

Lemma newline_blank p t m : St p t m -> tline1 t -> St (newline p) (t ++ [10]) m.
Proof.
  intros (Ho & Hc & Hm) (t' & b & -> & Hb). unfold newline, St. rewrite Hc. unfold trim. rewrite Ho.
  rewrite drop_blanks_tabs. rewrite !rev_app_distr. cbn [rev app drop_blanks ps_out ps_comment ps_margin].
  change (10 =? 9) with false. change (10 =? 32) with false. cbn [orb].
  destruct Hb as (_ & _ & Hb10).
  assert (Hem : forall o q, match 10 :: b :: o with [] => q | 10 :: 10 :: _ => q | _ => emit [10] q end = emit [10] q).
  { intros o q. destruct (Z.eq_dec b 10); [congruence|]. destruct b as [|pb|nb]; try reflexivity.
    repeat (destruct pb as [pb|pb|]; try reflexivity). congruence. }
  rewrite Hem. unfold emit_tabs, emit. cbn [ps_out ps_comment ps_margin rev_append]. rewrite Hc, Hm.
  split; [|split; reflexivity]. rewrite <- ?app_assoc. reflexivity.
  Unshelve. all: exact [].
Qed.

(* ---------------------------------------------------------------- tokens *)

Lemma tokens_loop_out : forall ts sep p,
  ps_out (tokens_loop sep ts p) = rev (toks_bytes sep ts) ++ ps_out p /\
  ps_comment (tokens_loop sep ts p) = ps_comment p /\ ps_margin (tokens_loop sep ts p) = ps_margin p.
Proof.
  induction ts as [|t r IH]; intros sep p; [cbn; auto|]. cbn [tokens_loop toks_bytes].
  destruct (IH (negb (is_open t)) (emit t (if (if is_close t then false else sep) then emit [32] p else p))) as (A & B & C).
  rewrite A, B, C. destruct (if is_close t then false else sep).
  - rewrite !emit_out. cbn [ps_comment ps_margin emit]. split; [|auto]. rewrite !rev_app_distr, <- !app_assoc. reflexivity.
  - rewrite emit_out. cbn [ps_comment ps_margin emit app]. split; [|auto]. rewrite !rev_app_distr, <- !app_assoc. reflexivity.
Qed.

(* the last byte of a token line *)
Lemma toks_bytes_end : forall ts sep, ts <> [] -> Forall ltext ts -> vis_end (toks_bytes sep ts).
Proof.
  induction ts as [|t r IH]; intros sep Hne Hl; [congruence|]. inversion Hl as [|? ? (k & Hk & Hx) Hl']; subst.
  cbn [toks_bytes]. destruct r as [|u r'].
  - cbn [toks_bytes]. rewrite app_nil_r. destruct (end_ok_vis _ (lexed_end_ok k t Hk Hx)) as (pre & b & -> & Hb).
    exists ((if (if is_close (pre ++ [b]) then false else sep) then [32] else []) ++ pre), b.
    rewrite <- app_assoc. auto.
  - destruct (IH (negb (is_open t)) ltac:(discriminate) Hl') as (pre & b & E & Hb). rewrite E.
    exists ((if (if is_close t then false else sep) then [32] else []) ++ t ++ pre), b. rewrite <- !app_assoc. auto.
Qed.
