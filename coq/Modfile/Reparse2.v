(* Reparse, part 2: the syntax tree of the edit model as a lean tree of the round-trip
   development (RoundRows.v), and the two well-formedness conditions under which it is a
   tree the printer/parser round trip applies to:
     [ComsOk s]  (comments only): every comment text is a "//" comment without line feed
                 (or, before a line of a block / before ")", the blank-line marker), at most
                 one end-of-line comment per node, and the comment slots that no parser
                 output uses (After, LParen.Before, FileSyntax.Comments) are empty;
     [ToksOk s]  (tokens only): every token is the text of one token of the lexer, a
                 top-level line does not look like the opening of a block, a line of a block
                 does not start with ")". *)
From Verif.Base Require Import Bytes.
From Verif.Modfile Require Import Syntax Lex Parse Print RoundRows RoundLexPure3 RoundTree RoundTree3
  RoundPrint RoundPrint3 RoundMain2 RoundMain3 RoundDir5 EditModel.

(* [comment_text] of the lexer: starts with "//", contains no line feed (EditModel.comment_text
   is the text of a comment without the slashes, a different thing) *)
Notation ctext := RoundLexPure3.comment_text.

(* ---------------------------------------------------------------- the lean tree *)

Definition lean_line (l : hline) : aline :=
  mkAL (c_before (hl_com l)) (hl_tok l) (c_suffix (hl_com l)).

Definition lean_stmt (h : list hline) (st : stmt) : astmt :=
  match st with
  | EditModel.SLine i => ALine (lean_line (hget h i))
  | SBlock b => ABlock (mkAB (c_before (hb_com b)) (hb_tok b) (c_suffix (hb_lp b))
                             (map (fun i => lean_line (hget h i)) (hb_lines b))
                             (c_before (hb_rp b)) (c_suffix (hb_rp b)) (c_suffix (hb_com b)))
  | SComment c => ACB (c_before c)
  end.

Definition lean (s : syntax) : list astmt := map (lean_stmt (heap s)) (stmts s).

(* ---------------------------------------------------------------- comments *)

Definition bline_coms_ok (first : bool) (l : hline) : Prop :=
  bcoms_ok first (c_before (hl_com l)) /\ sfx_ok (c_suffix (hl_com l)) /\ c_after (hl_com l) = [].

Fixpoint blines_coms_ok (first : bool) (ls : list hline) : Prop :=
  match ls with
  | [] => True
  | l :: r => bline_coms_ok first l /\ blines_coms_ok false r
  end.

Definition stmt_coms_ok (h : list hline) (st : stmt) : Prop :=
  match st with
  | EditModel.SLine i =>
      let c := hl_com (hget h i) in
      Forall ctext (c_before c) /\ sfx_ok (c_suffix c) /\ c_after c = []
  | SBlock b =>
      Forall ctext (c_before (hb_com b)) /\ c_suffix (hb_com b) = [] /\ c_after (hb_com b) = [] /\
      c_before (hb_lp b) = [] /\ sfx_ok (c_suffix (hb_lp b)) /\ c_after (hb_lp b) = [] /\
      blines_coms_ok true (map (hget h) (hb_lines b)) /\
      bcoms_ok (is_nil (hb_lines b)) (c_before (hb_rp b)) /\ sfx_ok (c_suffix (hb_rp b)) /\ c_after (hb_rp b) = []
  | SComment c => c_before c <> [] /\ Forall ctext (c_before c) /\ c_suffix c = [] /\ c_after c = []
  end.

Definition ComsOk (s : syntax) : Prop := fcom s = no_coms /\ Forall (stmt_coms_ok (heap s)) (stmts s).

(* ---------------------------------------------------------------- tokens *)

Definition bline_toks_ok (l : hline) : Prop :=
  (exists t0 more, hl_tok l = t0 :: more /\ is_rp t0 = false) /\ Forall ltext (hl_tok l).

Definition stmt_toks_ok (h : list hline) (st : stmt) : Prop :=
  match st with
  | EditModel.SLine i =>
      let t := hl_tok (hget h i) in
      (exists t0 more, t = t0 :: more /\ scan [t0] more = RoundRows.SLine t) /\ Forall ltext t
  | SBlock b => Forall ltext (hb_tok b) /\ hdr_ok (hb_tok b) /\ Forall bline_toks_ok (map (hget h) (hb_lines b))
  | SComment _ => True
  end.

Definition ToksOk (s : syntax) : Prop := Forall (stmt_toks_ok (heap s)) (stmts s).

(* ---------------------------------------------------------------- the embedding *)

Lemma zc_to_comment b t : zc (to_comment b t) = ec t.
Proof. reflexivity. Qed.

Lemma map_zc_to b l : map zc (map (to_comment b) l) = map ec l.
Proof. rewrite map_map. apply map_ext. intros t. reflexivity. Qed.

Lemma zline_to_line l : c_after (hl_com l) = [] -> zline (to_line l) = eline (hl_inb l) (lean_line l).
Proof.
  intros Ha. unfold zline, to_line, eline, lean_line, zcs, to_comments.
  cbn [l_comments l_token l_inblock cm_before cm_suffix cm_after al_before al_toks al_suffix].
  rewrite !map_zc_to, Ha. reflexivity.
Qed.

(* the InBlock flag is not part of what is printed or interpreted; the embedding of the
   round-trip development fixes it by position, the edit model stores it *)
Definition inb_ok (h : list hline) (st : stmt) : Prop :=
  match st with
  | EditModel.SLine i => hl_inb (hget h i) = false
  | SBlock b => Forall (fun i => hl_inb (hget h i) = true) (hb_lines b)
  | SComment _ => True
  end.

Lemma blines_after : forall ls first, blines_coms_ok first ls -> Forall (fun l => c_after (hl_com l) = []) ls.
Proof.
  induction ls as [|l ls IH]; intros first H; [constructor|]. destruct H as ((_ & _ & A) & R).
  constructor; [exact A|exact (IH false R)].
Qed.

Lemma zexpr_to_expr h st : stmt_coms_ok h st -> inb_ok h st -> zexpr (to_expr h st) = estmt (lean_stmt h st).
Proof.
  destruct st as [i|b|c]; cbn [stmt_coms_ok inb_ok to_expr lean_stmt zexpr estmt].
  - intros (_ & _ & Ha) Hi. rewrite (zline_to_line _ Ha), Hi. reflexivity.
  - intros (_ & Hs & Ha & Hlb & _ & Hla & Hls & _ & _ & Hra) Hi. f_equal.
    unfold zblock, eblock, zparen, zcs, to_comments.
    cbn [b_comments b_lparen b_rparen b_token b_line pr_comments cm_before cm_suffix cm_after
         ab_before ab_toks ab_lsfx ab_lines ab_rbefore ab_rsfx ab_sfx].
    rewrite !map_zc_to, Ha, Hlb, Hla, Hra. cbn [map]. f_equal.
    apply blines_after in Hls. rewrite !map_map. apply map_ext_in. intros i Hin.
    rewrite Forall_forall in Hi. rewrite Forall_forall in Hls.
    rewrite zline_to_line by (apply Hls; apply in_map; exact Hin). rewrite (Hi i Hin). reflexivity.
  - intros (_ & _ & Hs & Ha) _. unfold zcs, to_comments. cbn [cb_comments cm_before cm_suffix cm_after].
    rewrite !map_zc_to, Hs, Ha. reflexivity.
Qed.

Lemma zfile_to_syntax name s : ComsOk s -> Forall (inb_ok (heap s)) (stmts s) ->
  zfile (to_syntax name s) = mkFile name no_comments (map estmt (lean s)).
Proof.
  intros (Hf & Hc) Hi. unfold zfile, to_syntax, lean. cbn [f_name f_comments f_stmt]. rewrite Hf. f_equal.
  rewrite !map_map. apply map_ext_in. intros st Hin.
  rewrite Forall_forall in Hc. rewrite Forall_forall in Hi. apply zexpr_to_expr; auto.
Qed.

(* ---------------------------------------------------------------- well-formedness of the lean tree *)

Lemma blines_lean_ok h : forall ls first,
  blines_coms_ok first (map (hget h) ls) -> Forall bline_toks_ok (map (hget h) ls) ->
  alines_ok first (map (fun i => lean_line (hget h i)) ls).
Proof.
  induction ls as [|i ls IH]; intros first Hc Ht; cbn [map alines_ok]; [exact I|].
  cbn [map blines_coms_ok] in Hc. destruct Hc as ((Hb & Hs & _) & Hr). inversion Ht as [|? ? (Ht0 & Hlt) Htr]; subst.
  split; [|apply IH; assumption]. unfold aline_ok, lean_line. cbn [al_before al_toks al_suffix]. auto.
Qed.

Lemma lean_stmt_ok h st : stmt_coms_ok h st -> stmt_toks_ok h st -> astmt_ok (lean_stmt h st) /\ sfx_inv (lean_stmt h st).
Proof.
  destruct st as [i|b|c]; cbn [stmt_coms_ok stmt_toks_ok lean_stmt astmt_ok sfx_inv].
  - intros (Hb & Hs & _) (Ht & Hl). unfold lean_line. cbn [al_before al_toks al_suffix]. auto.
  - intros (Hb & Hs & _ & _ & Hls & _ & Hlines & Hrb & Hrs & _) (Hlt & Hh & Hbl). split; [|left; exact Hs].
    unfold ablock_ok. cbn [ab_before ab_toks ab_lsfx ab_lines ab_rbefore ab_rsfx ab_sfx].
    split; [exact Hb|]. split; [exact Hlt|]. split; [exact Hh|]. split; [exact Hls|].
    split; [apply blines_lean_ok; assumption|]. split.
    + destruct (hb_lines b); exact Hrb.
    + rewrite Hs, app_nil_r. exact Hrs.
  - intros (Hn & Hc & _) _. auto.
Qed.

Lemma lean_ok s : ComsOk s -> ToksOk s -> Forall astmt_ok (lean s) /\ Forall sfx_inv (lean s).
Proof.
  intros (_ & Hc) Ht. unfold lean. unfold ToksOk in Ht.
  induction (stmts s) as [|st r IH]; cbn [map]; [split; constructor|].
  inversion Hc; subst. inversion Ht; subst. destruct IH as (A & B); auto.
  destruct (lean_stmt_ok (heap s) st) as (C & D); auto.
Qed.

(* ---------------------------------------------------------------- print and reparse *)

Lemma format_name n c st : format (mkFile n c st) = format (mkFile [] c st).
Proof. reflexivity. Qed.

(* the formatted edit tree is accepted by the parser, and the result is the normal form of
   its lean tree *)
Theorem edit_tree_reparses name s : ComsOk s -> ToksOk s -> Forall (inb_ok (heap s)) (stmts s) ->
  exists s2, parse (format (to_syntax name s)) = POk s2 /\ zfile s2 = efile (map norm (lean s)).
Proof.
  intros Hc Ht Hi. destruct (lean_ok s Hc Ht) as (Hok & _).
  assert (Hf : format (to_syntax name s) = render (file_pls (lean s))).
  { rewrite <- format_zfile, (zfile_to_syntax name s Hc Hi), format_name. apply (format_efile (lean s) Hok). }
  destruct (reparse (lean s) Hok) as (s2 & Hp & Hz & _). exists s2. rewrite Hf. auto.
Qed.
