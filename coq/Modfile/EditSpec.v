(* Specifications for the edit model (no proofs):

   1. the keyed-collection model of C08: [kstate], [kstep] written from the doc comments of
      the operations (first entry for a key updated, the others removed; AddExclude/AddTool
      no-ops when present; DropX removes all matching; the de-duplication priorities of
      removeDups), and the abstraction [abs] of a file's typed lists;
   2. the coherence invariant of C15: the typed entries and the live lines of the syntax
      tree are two views of the same multiset of directives ([Coherent]), with executable
      mirrors ([coherentb]) that the correspondence run evaluates on every case;
   3. [valid_args]: what the properties quantify over. *)
From Coq Require Import Permutation.
From Verif.Base Require Import Bytes.
From Verif.Modfile Require Import EditModel EditOps.

(* ================================================================ 1. keyed model *)

Record kstate := mkK {
  k_module : option str;
  k_go : option str;
  k_toolchain : option str;
  k_godebug : list (str * str);                 (* key, value *)
  k_require : list (str * str * bool);          (* path, version, indirect *)
  k_exclude : list (str * str);                 (* path, version *)
  k_replace : list (str * str * str * str);     (* old path, old version, new path, new version *)
  k_retract : list (str * str * str);           (* low, high, rationale *)
  k_tool : list str;
  k_use : list (str * str)                      (* directory, module path *)
}.

(* "sets the first X for key ..., removing all other X for key" *)
Fixpoint upsert_first {A} (m : A -> bool) (upd : A -> A) (l : list A) : list A :=
  match l with
  | [] => []
  | x :: r => if m x then upd x :: filter (fun y => negb (m y)) r else x :: upsert_first m upd r
  end.
Definition upsert {A} (m : A -> bool) (upd : A -> A) (new : A) (l : list A) : list A :=
  if existsb m l then upsert_first m upd l else l ++ [new].
Definition drop {A} (m : A -> bool) (l : list A) : list A := filter (fun y => negb (m y)) l.

(* keep the first element of every key class *)
Fixpoint keep_first {A} (same : A -> A -> bool) (seen : list A) (l : list A) : list A :=
  match l with
  | [] => []
  | x :: r => if existsb (same x) seen then keep_first same seen r
              else x :: keep_first same (x :: seen) r
  end.
Definition keep_last {A} (same : A -> A -> bool) (l : list A) : list A :=
  rev (keep_first same [] (rev l)).

Definition pair_eqb (a b : str * str) : bool := str_eqb (fst a) (fst b) && str_eqb (snd a) (snd b).
Definition rep_old_eqb (a b : str * str * str * str) : bool :=
  match a, b with (o1, v1, _, _), (o2, v2, _, _) => str_eqb o1 o2 && str_eqb v1 v2 end.

(* the documented de-duplication (removeDups): earlier exclude and tool directives take
   priority, later replace directives take priority; go.work files only have replace *)
Definition kdedup (mod_ : bool) (k : kstate) : kstate :=
  mkK (k_module k) (k_go k) (k_toolchain k) (k_godebug k) (k_require k)
      (if mod_ then keep_first pair_eqb [] (k_exclude k) else k_exclude k)
      (keep_last rep_old_eqb (k_replace k))
      (k_retract k)
      (if mod_ then keep_first str_eqb [] (k_tool k) else k_tool k)
      (k_use k).

Definition req_path (q : str * str * bool) : str := fst (fst q).

(* Set*: the first existing entry of every requested key is kept (with the requested
   values), everything else is removed, missing keys are added (in key order) *)
Definition set_keyed {A} (key : A -> str) (want : list (str * A)) (l : list A) : list A :=
  let kept := keep_first (fun a b => str_eqb (key a) (key b)) []
                (filter (fun a => match amap_get (key a) want with Some _ => true | None => false end) l) in
  flat_map (fun a => match amap_get (key a) want with Some a' => [a'] | None => [] end) kept
  ++ flat_map (fun kv => if existsb (fun a => str_eqb (key a) (fst kv)) l then [] else [snd kv]) want.

Definition want_reqs (l : list req) : list (str * (str * str * bool)) :=
  fold_left (fun m (q : req) => amap_set (req_path q) q m) l [].
Definition want_uses (l : list (str * str)) : list (str * (str * str)) :=
  fold_left (fun m (q : str * str) => amap_set (fst q) q m) l [].

Definition kset_module k x := mkK x (k_go k) (k_toolchain k) (k_godebug k) (k_require k) (k_exclude k) (k_replace k) (k_retract k) (k_tool k) (k_use k).
Definition kset_go k x := mkK (k_module k) x (k_toolchain k) (k_godebug k) (k_require k) (k_exclude k) (k_replace k) (k_retract k) (k_tool k) (k_use k).
Definition kset_toolchain k x := mkK (k_module k) (k_go k) x (k_godebug k) (k_require k) (k_exclude k) (k_replace k) (k_retract k) (k_tool k) (k_use k).
Definition kset_godebug k x := mkK (k_module k) (k_go k) (k_toolchain k) x (k_require k) (k_exclude k) (k_replace k) (k_retract k) (k_tool k) (k_use k).
Definition kset_require k x := mkK (k_module k) (k_go k) (k_toolchain k) (k_godebug k) x (k_exclude k) (k_replace k) (k_retract k) (k_tool k) (k_use k).
Definition kset_exclude k x := mkK (k_module k) (k_go k) (k_toolchain k) (k_godebug k) (k_require k) x (k_replace k) (k_retract k) (k_tool k) (k_use k).
Definition kset_replace k x := mkK (k_module k) (k_go k) (k_toolchain k) (k_godebug k) (k_require k) (k_exclude k) x (k_retract k) (k_tool k) (k_use k).
Definition kset_retract k x := mkK (k_module k) (k_go k) (k_toolchain k) (k_godebug k) (k_require k) (k_exclude k) (k_replace k) x (k_tool k) (k_use k).
Definition kset_tool k x := mkK (k_module k) (k_go k) (k_toolchain k) (k_godebug k) (k_require k) (k_exclude k) (k_replace k) (k_retract k) x (k_use k).
Definition kset_use k x := mkK (k_module k) (k_go k) (k_toolchain k) (k_godebug k) (k_require k) (k_exclude k) (k_replace k) (k_retract k) (k_tool k) x.

(* one documented step: the new state and whether the operation reports an error *)
Definition kstep (o : op) (k : kstate) : kstate * bool :=
  match o with
  | AddModuleStmt p => (kset_module k (Some p), false)
  | AddGoStmt v | WAddGoStmt v => if go_version_ok v then (kset_go k (Some v), false) else (k, true)
  | DropGoStmt | WDropGoStmt => (kset_go k None, false)
  | AddToolchainStmt n | WAddToolchainStmt n =>
      if toolchain_ok n then (kset_toolchain k (Some n), false) else (k, true)
  | DropToolchainStmt | WDropToolchainStmt => (kset_toolchain k None, false)
  | AddGodebug key v | WAddGodebug key v =>
      (kset_godebug k (upsert (fun g => str_eqb (fst g) key) (fun g => (fst g, v)) (key, v) (k_godebug k)), false)
  | DropGodebug key | WDropGodebug key =>
      (kset_godebug k (drop (fun g => str_eqb (fst g) key) (k_godebug k)), false)
  | AddRequire p v =>
      (kset_require k (upsert (fun q => str_eqb (req_path q) p) (fun q => (req_path q, v, snd q)) (p, v, false) (k_require k)), false)
  | AddNewRequire p v ind => (kset_require k (k_require k ++ [(p, v, ind)]), false)
  | SetRequire l | SetRequireSeparateIndirect l =>
      (kdedup true (kset_require k (set_keyed req_path (want_reqs l) (k_require k))), false)
  | DropRequire p => (kset_require k (drop (fun q => str_eqb (req_path q) p) (k_require k)), false)
  | AddExclude p v =>
      if negb (check_canonical_version p v) then (k, true)
      else if existsb (pair_eqb (p, v)) (k_exclude k) then (k, false)
      else (kset_exclude k (k_exclude k ++ [(p, v)]), false)
  | DropExclude p v => (kset_exclude k (drop (pair_eqb (p, v)) (k_exclude k)), false)
  | AddReplace op ov np nv | WAddReplace op ov np nv =>
      (kset_replace k (upsert (fun r => match r with (o', v', _, _) => str_eqb o' op && (nilb ov || str_eqb v' ov) end)
                              (fun _ => (op, ov, np, nv)) (op, ov, np, nv) (k_replace k)), false)
  | DropReplace op ov | WDropReplace op ov =>
      (kset_replace k (drop (fun r => rep_old_eqb r (op, ov, [], [])) (k_replace k)), false)
  | AddRetract lo hi rat =>
      let path := match k_module k with Some p => p | None => [] end in
      if check_canonical_version path hi && check_canonical_version path lo
      then (kset_retract k (k_retract k ++ [(lo, hi, rat)]), false) else (k, true)
  | DropRetract lo hi =>
      (kset_retract k (drop (fun r => match r with (l, h, _) => str_eqb l lo && str_eqb h hi end) (k_retract k)), false)
  | AddTool p =>
      if existsb (str_eqb p) (k_tool k) then (k, false)
      else (kdedup true (kset_tool k (k_tool k ++ [p])), false)
  | DropTool p => (kset_tool k (drop (str_eqb p) (k_tool k)), false)
  | AddComment _ | Cleanup | WCleanup => (k, false)
  | SortBlocks => (kdedup true k, false)
  | WSortBlocks => (kdedup false k, false)
  | WAddUse p m =>
      (kset_use k (upsert (fun u => str_eqb (fst u) p) (fun u => (fst u, m)) (p, m) (k_use k)), false)
  | WAddNewUse p m => (kset_use k (k_use k ++ [(p, m)]), false)
  | WSetUse l => (kdedup false (kset_use k (set_keyed fst (want_uses l) (k_use k))), false)
  | WDropUse p => (kset_use k (drop (fun u => str_eqb (fst u) p) (k_use k)), false)
  end.

Fixpoint krun (ops : list op) (k : kstate) (errs_rev : list bool) : kstate * list bool :=
  match ops with
  | [] => (k, rev errs_rev)
  | o :: r => let (k', e) := kstep o k in krun r k' (e :: errs_rev)
  end.

(* abstraction of the typed lists: cleared entries are invisible *)
Definition abs (f : file) : kstate :=
  mkK (option_map mo_path (f_module f))
      (option_map go_vers (f_go f))
      (option_map go_vers (f_toolchain f))
      (map (fun g => (gd_key g, gd_val g)) (filter (fun g => nonempty (gd_key g)) (f_godebug f)))
      (map (fun r => (rq_path r, rq_vers r, rq_ind r)) (filter (fun r => nonempty (rq_path r)) (f_require f)))
      (map (fun x => (ex_path x, ex_vers x)) (filter (fun x => nonempty (ex_path x)) (f_exclude f)))
      (map (fun r => (rp_op r, rp_ov r, rp_np r, rp_nv r)) (filter (fun r => nonempty (rp_op r)) (f_replace f)))
      (map (fun r => (rt_lo r, rt_hi r, rt_rat r)) (filter (fun r => nonempty (rt_lo r) || nonempty (rt_hi r)) (f_retract f)))
      (map tl_path (filter (fun t => nonempty (tl_path t)) (f_tool f)))
      (map (fun u => (us_path u, us_mod u)) (filter (fun u => nonempty (us_path u)) (f_use f))).

(* ================================================================ 2. coherence *)

(* a directive as seen from either side: the line, the verb, the (normalised) arguments *)
Definition dview := (lid * str * list str)%type.

(* what a line says, normalised: retract lines by their interval (v and [v, v] denote the
   same interval), require lines with their "// indirect" marking as an extra token *)
Definition flag (b : bool) : str := if b then [49] else [48].
Definition norm_args (verb : str) (args : list str) (l : hline) : list str :=
  if str_eqb verb v_retract then let (a, b) := retract_interval args in [a; b]
  else if str_eqb verb v_require then args ++ [flag (is_indirect l)]
  else args.

(* the lines of the tree with the verb of the enclosing block, if any *)
Definition tree_lines (s : syntax) : list (lid * option str) :=
  flat_map (fun st =>
    match st with
    | SLine i => [(i, None)]
    | SBlock b => map (fun i => (i, Some (hd [] (hb_tok b)))) (hb_lines b)
    | SComment _ => []
    end) (stmts s).

Definition line_view (s : syntax) (x : lid * option str) : list dview :=
  let l := sget s (fst x) in
  match hl_tok l with
  | [] => []
  | t :: ts =>
      match snd x with
      | None => [(fst x, t, norm_args t ts l)]
      | Some v => [(fst x, v, norm_args v (t :: ts) l)]
      end
  end.

Definition tree_view (s : syntax) : list dview := flat_map (line_view s) (tree_lines s).

(* a typed entry seen uniformly: its line, whether it is live (not cleared), and the verb
   and normalised arguments its line must show *)
Record ent := mkEnt { en_syn : option lid; en_live : bool; en_verb : str; en_args : list str }.

Definition ent_module (m : e_module) : ent := mkEnt (mo_syn m) true v_module [auto_quote (mo_path m)].
Definition ent_go (g : e_go) : ent := mkEnt (go_syn g) true v_go [go_vers g].
Definition ent_toolchain (g : e_go) : ent := mkEnt (go_syn g) true v_toolchain [go_vers g].
Definition ent_godebug (g : e_godebug) : ent :=
  mkEnt (gd_syn g) (nonempty (gd_key g)) v_godebug [gd_key g ++ [61] ++ gd_val g].
Definition ent_require (r : e_require) : ent :=
  mkEnt (rq_syn r) (nonempty (rq_path r)) v_require [auto_quote (rq_path r); rq_vers r; flag (rq_ind r)].
Definition ent_exclude (x : e_exclude) : ent :=
  mkEnt (ex_syn x) (nonempty (ex_path x)) v_exclude [auto_quote (ex_path x); ex_vers x].
Definition ent_replace (r : e_replace) : ent :=
  mkEnt (rp_syn r) (nonempty (rp_op r)) v_replace (replace_tokens (rp_op r) (rp_ov r) (rp_np r) (rp_nv r)).
Definition ent_retract (r : e_retract) : ent :=
  mkEnt (rt_syn r) (nonempty (rt_lo r) || nonempty (rt_hi r)) v_retract
        [auto_quote (rt_lo r); auto_quote (rt_hi r)].
Definition ent_tool (t : e_tool) : ent := mkEnt (tl_syn t) (nonempty (tl_path t)) v_tool [auto_quote (tl_path t)].
Definition ent_use (u : e_use) : ent := mkEnt (us_syn u) (nonempty (us_path u)) v_use [auto_quote (us_path u)].

Definition opt_list {A} (o : option A) : list A := match o with Some x => [x] | None => [] end.

(* all typed entries of a file *)
Definition entries (f : file) : list ent :=
  map ent_module (opt_list (f_module f)) ++ map ent_go (opt_list (f_go f))
  ++ map ent_toolchain (opt_list (f_toolchain f))
  ++ map ent_godebug (f_godebug f) ++ map ent_require (f_require f) ++ map ent_exclude (f_exclude f)
  ++ map ent_replace (f_replace f) ++ map ent_retract (f_retract f) ++ map ent_tool (f_tool f)
  ++ map ent_use (f_use f).

Definition ent_view (e : ent) : list dview :=
  match en_syn e with
  | Some i => if en_live e then [(i, en_verb e, en_args e)] else []
  | None => []
  end.

Definition typed_view (f : file) : list dview := flat_map ent_view (entries f).

(* shape of the syntax tree: every line occurs once, ids are allocated, the InBlock flag
   says where the line sits, block headers have one token *)
Definition line_placed (s : syntax) (x : lid * option str) : Prop :=
  (fst x < length (heap s))%nat /\
  hl_inb (sget s (fst x)) = match snd x with None => false | Some _ => true end /\
  (* a top-level line is removed (no token) or has a verb and at least one argument *)
  match snd x with None => length (hl_tok (sget s (fst x))) <> 1%nat | Some _ => True end.

(* a block header is one token; a LineBlock never carries end-of-line comments of its own
   (the parser attaches a comment after ")" to the RParen, new blocks have none) *)
Definition block_ok (st : stmt) : Prop :=
  match st with SBlock b => length (hb_tok b) = 1%nat /\ c_suffix (hb_com b) = [] | _ => True end.

Record SyntaxOk (s : syntax) : Prop := {
  so_nodup : NoDup (map fst (tree_lines s));
  so_placed : Forall (line_placed s) (tree_lines s);
  so_blocks : Forall block_ok (stmts s)
}.

(* a live entry has a line, a cleared entry (zero value) has none *)
Definition ent_ok (e : ent) : Prop := if en_live e then en_syn e <> None else en_syn e = None.
Definition EntriesOk (f : file) : Prop := Forall ent_ok (entries f).

(* C15: the typed lists and the live lines of the tree are the same directives *)
Record Coherent (f : file) : Prop := {
  co_syntax : SyntaxOk (fsyn f);
  co_entries : EntriesOk f;
  co_views : Permutation (tree_view (fsyn f)) (typed_view f)
}.

(* ---- executable mirrors, evaluated by the correspondence run on every case *)

Fixpoint nodupb (l : list nat) : bool :=
  match l with
  | [] => true
  | x :: r => negb (existsb (Nat.eqb x) r) && nodupb r
  end.

Fixpoint strs_eqb (a b : list str) : bool :=
  match a, b with
  | [], [] => true
  | x :: a', y :: b' => str_eqb x y && strs_eqb a' b'
  | _, _ => false
  end.

Definition dview_eqb (a b : dview) : bool :=
  match a, b with
  | (i, v, t), (j, w, u) => Nat.eqb i j && str_eqb v w && strs_eqb t u
  end.

Definition syntax_okb (s : syntax) : bool :=
  nodupb (map fst (tree_lines s))
  && forallb (fun x => (fst x <? length (heap s))%nat
                       && Bool.eqb (hl_inb (sget s (fst x))) (match snd x with None => false | Some _ => true end)
                       && match snd x with None => negb (Nat.eqb (length (hl_tok (sget s (fst x)))) 1) | Some _ => true end)
             (tree_lines s)
  && forallb (fun st => match st with SBlock b => Nat.eqb (length (hb_tok b)) 1 && nilb (c_suffix (hb_com b)) | _ => true end) (stmts s).

Definition ent_okb (e : ent) : bool :=
  match en_syn e with Some _ => en_live e | None => negb (en_live e) end.
Definition entries_okb (f : file) : bool := forallb ent_okb (entries f).

(* with distinct line ids on both sides, equal as multisets = mutual inclusion *)
Definition views_okb (f : file) : bool :=
  let tv := tree_view (fsyn f) in
  let yv := typed_view f in
  nodupb (map (fun x => fst (fst x)) yv)
  && forallb (fun x => existsb (dview_eqb x) yv) tv
  && forallb (fun x => existsb (dview_eqb x) tv) yv.

Definition coherentb (f : file) : bool :=
  syntax_okb (fsyn f) && entries_okb f && views_okb f.

(* ================================================================ 3. valid arguments *)

Definition distinct_paths (l : list str) : bool :=
  forallb nonempty l && (fix nd (l : list str) : bool :=
                           match l with [] => true | x :: r => negb (existsb (str_eqb x) r) && nd r end) l.

(* what C08/C15/C16 quantify over, as far as the invariants need it: keys are non-empty,
   requested lists have distinct paths, AddTool's path needs no quoting (AddTool writes
   the path unquoted) *)
Definition valid_args (o : op) : bool :=
  match o with
  | AddGodebug k _ | WAddGodebug k _ | DropGodebug k | WDropGodebug k => nonempty k
  | AddRequire p _ | AddNewRequire p _ _ | DropRequire p => nonempty p
  | SetRequire l | SetRequireSeparateIndirect l => distinct_paths (map req_path l)
  | AddExclude p _ | DropExclude p _ => nonempty p
  | AddReplace o' _ _ _ | WAddReplace o' _ _ _ | DropReplace o' _ | WDropReplace o' _ => nonempty o'
  | DropRetract lo hi => nonempty lo || nonempty hi
  | AddTool p => nonempty p && negb (must_quote p)
  | DropTool p => nonempty p
  | WAddUse p _ | WAddNewUse p _ | WDropUse p => nonempty p
  | WSetUse l => distinct_paths (map fst l)
  | _ => true
  end.
