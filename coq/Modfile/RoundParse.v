(* Round trip, part 3a: token streams as the lexer delivers them ([rs]: row structure and
   token texts, [ordered]: positions), and the parser's row-level loops (parseLine and the
   loop of parseStmt) on one row. *)
From Verif.Base Require Import Bytes.
From Verif.Modfile Require Import Syntax Lex Parse ProofsLex RoundRows RoundAssign.

Definition bpos (t : token) : Z := p_byte (t_pos t).
Definition bend (t : token) : Z := p_byte (t_end t).
Definition lpos (t : token) : Z := p_line (t_pos t).
Definition lnend (t : token) : Z := p_line (t_end t).

(* kind and text of a token fit together *)
Definition tok_lex (t : token) : Prop :=
  match t_kind t with
  | KPunct c => t_text t = [c]
  | KIdent | KString => is_lp (t_text t) = false /\ is_rp (t_text t) = false
  | _ => True
  end.

(* the row structure of a stream: it ends with the EOF token, an end-of-line comment
   follows a token of its line ([dirty]), a whole-line comment does not *)
Fixpoint rs (dirty : bool) (ts : list token) : Prop :=
  match ts with
  | [] => False
  | t :: r =>
      tok_lex t /\
      match t_kind t with
      | KEOF => r = []
      | KEOLComment => dirty = true /\ rs false r
      | KComment => dirty = false /\ rs false r
      | KPunct c => if c =? 10 then rs false r else rs true r
      | _ => rs true r
      end
  end.

(* positions: bytes and lines grow along the stream; a token of a line stays on its line,
   a line feed ends it *)
Fixpoint ordered (ts : list token) : Prop :=
  match ts with
  | [] => True
  | t :: r =>
      bpos t <= bend t /\ (is_eof (t_kind t) = false -> bpos t < bend t) /\
      lpos t <= lnend t /\
      (is_ltok (t_kind t) = true -> lnend t = lpos t) /\
      (is_kpunct (t_kind t) 10 = true -> lnend t = lpos t + 1) /\
      (is_comment_kind (t_kind t) = true ->
         lnend t = lpos t + 1 \/ Forall (fun t' => is_eof (t_kind t') = true) r) /\
      Forall (fun t' => bend t <= bpos t' /\ lnend t <= lpos t') r /\
      match r with t' :: _ => lpos t' = lnend t | [] => True end /\
      ordered r
  end.

(* byte and line of the next token *)
Definition nb (ts : list token) : Z := match ts with t :: _ => bpos t | [] => 0 end.
Definition nl (ts : list token) : Z := match ts with t :: _ => lpos t | [] => 0 end.

(* in.comments, the latest first *)
Definition cstep (acc : list comment) (t : token) : list comment :=
  match t_kind t with
  | KEOLComment => mkComment (t_pos t) (t_text t) true :: acc
  | _ => acc
  end.
Definition comsr (acc : list comment) (ts : list token) : list comment := fold_left cstep ts acc.

Lemma comments_of_comsr ts : comments_of ts = frev (comsr [] ts).
Proof. reflexivity. Qed.

(* the tokens that remain after the end-of-line token e *)
Definition after (e : token) (rest0 : list token) : list token :=
  if is_eof (t_kind e) then [e] else rest0.

Definition tail_ok (e : token) (rest0 : list token) : Prop :=
  if is_eof (t_kind e) then rest0 = [] else rest0 <> [].

(* the end-of-line comment of a row, as suffix list *)
Definition sfx_of (e : token) : list str :=
  match t_kind e with KEOLComment => [t_text e] | _ => [] end.
Definition csfx_of (e : token) : list comment :=
  match t_kind e with KEOLComment => [mkComment (t_pos e) (t_text e) true] | _ => [] end.

Definition ltokP (t : token) : Prop := is_ltok (t_kind t) = true.

(* ---------------------------------------------------------------- basic facts *)

Lemma ltok_not_eol k : is_ltok k = true -> is_eol k = false.
Proof. destruct k; cbn; try discriminate; auto. intros H. apply negb_true_iff in H. exact H. Qed.

Lemma ltok_not_eof k : is_ltok k = true -> is_eof k = false.
Proof. destruct k; cbn; try discriminate; auto. Qed.

Lemma ltok_not_comment k : is_ltok k = true -> is_comment_kind k = false.
Proof. destruct k; cbn; try discriminate; auto. Qed.

Lemma advance_more t u r : advance LEnd (t :: u :: r) = ROk t (u :: r).
Proof. reflexivity. Qed.

Lemma advance_app t lt e rest0 : advance LEnd (t :: lt ++ e :: rest0) = ROk t (lt ++ e :: rest0).
Proof. destruct lt; reflexivity. Qed.

Lemma advance_eol e rest0 : tail_ok e rest0 -> advance LEnd (e :: rest0) = ROk e (after e rest0).
Proof.
  unfold tail_ok, after, advance. destruct (is_eof (t_kind e)) eqn:E.
  - intros ->. reflexivity.
  - destruct rest0; [congruence|reflexivity].
Qed.

Lemma rs_tail_ok d lt e rest0 : Forall ltokP lt -> is_eol (t_kind e) = true -> rs d (lt ++ e :: rest0) ->
  tail_ok e rest0 /\ Forall tok_lex lt /\ tok_lex e /\
  (is_eof (t_kind e) = false -> rs false rest0).
Proof.
  intros Hlt He. revert d. induction Hlt as [|t lt Ht Hlt IH]; intros d Hrs.
  - cbn [app] in Hrs. destruct Hrs as (Hx & Hrs). unfold tail_ok.
    split; [|split; [constructor|split; [exact Hx|]]].
    + destruct (t_kind e) as [| | | | |c] eqn:Ek; cbn in *; try discriminate.
      * exact Hrs.
      * destruct Hrs as (_ & Hrs). destruct rest0; [destruct Hrs|discriminate].
      * rewrite He in Hrs. destruct rest0; [destruct Hrs|discriminate].
    + intros Hne. destruct (t_kind e) as [| | | | |c] eqn:Ek; cbn in *; try discriminate.
      * apply Hrs.
      * rewrite He in Hrs. exact Hrs.
  - cbn [app] in Hrs. destruct Hrs as (Hx & Hrs). unfold ltokP in Ht.
    assert (Hr : rs true (lt ++ e :: rest0)).
    { destruct (t_kind t) as [| | | | |c]; cbn in Ht; try discriminate; auto.
      apply negb_true_iff in Ht. rewrite Ht in Hrs. exact Hrs. }
    destruct (IH true Hr) as (A & B & C & E). split; [exact A|]. split; [constructor; assumption|].
    split; [exact C|exact E].
Qed.

(* the kind tests of the parser are text tests *)
Lemma kp_lp t : tok_lex t -> ltokP t -> is_kpunct (t_kind t) 40 = is_lp (t_text t).
Proof.
  unfold tok_lex, ltokP. destruct (t_kind t) as [| | | | |c]; cbn; try discriminate.
  - intros (H & _) _. symmetry. exact H.
  - intros (H & _) _. symmetry. exact H.
  - intros -> _. unfold is_lp. cbn. rewrite andb_true_r. reflexivity.
Qed.

Lemma kp_rp t : tok_lex t -> ltokP t -> is_kpunct (t_kind t) 41 = is_rp (t_text t).
Proof.
  unfold tok_lex, ltokP. destruct (t_kind t) as [| | | | |c]; cbn; try discriminate.
  - intros (_ & H) _. symmetry. exact H.
  - intros (_ & H) _. symmetry. exact H.
  - intros -> _. unfold is_rp. cbn. rewrite andb_true_r. reflexivity.
Qed.

Lemma eol_not_kp k c : is_eol k = true -> c <> 10 -> is_kpunct k c = false.
Proof.
  destruct k as [| | | | |d]; cbn; auto; try discriminate. intros H Hc. apply Z.eqb_eq in H. subst d.
  apply Z.eqb_neq. congruence.
Qed.

(* ---------------------------------------------------------------- arows on one row *)

Lemma arows_ltoks lt : Forall ltokP lt -> forall acc_r r,
  arows acc_r (lt ++ r) = arows (rev (map t_text lt) ++ acc_r) r.
Proof.
  induction 1 as [|t lt Ht Hlt IH]; intros acc_r r; [reflexivity|].
  cbn [app arows map rev]. rewrite <- app_assoc. cbn [app]. unfold ltokP in Ht.
  destruct (t_kind t) as [| | | | |c]; cbn in Ht; try discriminate; try apply IH.
  apply negb_true_iff in Ht. rewrite Ht. apply IH.
Qed.

(* a row with at least one token *)
Lemma arows_row toks_r e rest0 : toks_r <> [] -> is_eol (t_kind e) = true -> tail_ok e rest0 ->
  arows toks_r (e :: rest0) = RToks (rev toks_r) (sfx_of e) :: arows [] (after e rest0).
Proof.
  intros Hne He Ht. unfold tail_ok, after, sfx_of in *. cbn [arows].
  destruct (t_kind e) as [| | | | |c] eqn:Ek; cbn in He; try discriminate; cbn [is_eof] in *.
  - subst rest0. cbn [arows]. rewrite Ek. destruct toks_r; [congruence|reflexivity].
  - reflexivity.
  - rewrite He. destruct toks_r; [congruence|reflexivity].
Qed.

(* ---------------------------------------------------------------- parseLine on a row *)

Definition last_end (endp : position) (lt : list token) : position :=
  fold_left (fun _ t => t_end t) lt endp.

Lemma line_loop_row : forall lt f start endp tokens_r e rest0,
  Forall ltokP lt -> is_eol (t_kind e) = true -> tail_ok e rest0 -> (length lt + 1 <= f)%nat ->
  line_loop f LEnd start endp tokens_r (lt ++ e :: rest0) =
  ROk (mkLine no_comments start (rev tokens_r ++ map t_text lt) true (last_end endp lt)) (after e rest0).
Proof.
  induction lt as [|t lt IH]; intros f start endp tokens_r e rest0 Hlt He Ht Hf.
  - destruct f as [|f]; [cbn in Hf; lia|]. cbn [app line_loop]. rewrite (advance_eol _ _ Ht). cbn [bind].
    rewrite He, frev_rev, app_nil_r. reflexivity.
  - destruct f as [|f]; [cbn in Hf; lia|]. inversion Hlt as [|? ? Htk Hlt']; subst.
    cbn [app line_loop]. rewrite advance_app. cbn [bind]. rewrite (ltok_not_eol _ Htk).
    rewrite IH; auto; [|cbn in Hf; lia]. cbn [rev map last_end fold_left]. rewrite <- app_assoc. reflexivity.
Qed.

Lemma parse_line_row t lt f e rest0 :
  ltokP t -> Forall ltokP lt -> is_eol (t_kind e) = true -> tail_ok e rest0 -> (length lt + 1 <= f)%nat ->
  parse_line f LEnd (t :: lt ++ e :: rest0) =
  ROk (mkLine no_comments (t_pos t) (map t_text (t :: lt)) true (last_end (t_end t) lt)) (after e rest0).
Proof.
  intros Ht Hlt He Hta Hf. unfold parse_line. rewrite advance_app. cbn [bind].
  rewrite (ltok_not_eol _ Ht). rewrite line_loop_row; auto.
Qed.

(* ---------------------------------------------------------------- the loop of parseStmt on a row *)

(* what stmt_loop returns on the row lt ++ [e], by the shape of the row *)
Definition stmt_res (f : nat) (start endp : position) (tokens_r : list str) (lt : list token)
           (e : token) (rest0 : list token) (res : pres expr) : Prop :=
  match scan tokens_r (map t_text lt) with
  | SLine tk =>
      exists endp', (endp' = endp \/ In endp' (map t_end lt)) /\
        res = ROk (ELine (mkLine no_comments start tk false endp')) (after e rest0)
  | SEmpty bt =>
      exists pre tl tr, lt = pre ++ [tl; tr] /\
        res = ROk (EBlock (mkBlock no_comments start (mkParen no_comments (t_pos tl)) bt []
                                   (mkParen no_comments (t_pos tr)))) (after e rest0)
  | SOpen bt =>
      exists pre tl f', lt = pre ++ [tl] /\ (f <= f' + length lt)%nat /\
        res = bind (block_loop f' LEnd start bt tl [] [] (e :: rest0)) (fun b ts2 => ROk (EBlock b) ts2)
  end.

Lemma stmt_loop_row : forall n lt, (length lt <= n)%nat ->
  forall f start endp tokens_r e rest0,
  Forall ltokP lt -> Forall tok_lex lt -> is_eol (t_kind e) = true -> tail_ok e rest0 ->
  (length lt + 1 <= f)%nat ->
  stmt_res f start endp tokens_r lt e rest0 (stmt_loop f LEnd start endp tokens_r (lt ++ e :: rest0)).
Proof.
  induction n as [|n IH]; intros lt Hn f start endp tokens_r e rest0 Hlt Hlx He Hta Hf.
  { destruct lt; [|cbn in Hn; lia]. destruct f as [|f]; [cbn in Hf; lia|].
    unfold stmt_res. cbn [map scan app stmt_loop]. rewrite (advance_eol _ _ Hta). cbn [bind]. rewrite He.
    exists endp. split; [auto|]. rewrite frev_rev. reflexivity. }
  destruct lt as [|t lt].
  { destruct f as [|f]; [cbn in Hf; lia|].
    unfold stmt_res. cbn [map scan app stmt_loop]. rewrite (advance_eol _ _ Hta). cbn [bind]. rewrite He.
    exists endp. split; [auto|]. rewrite frev_rev. reflexivity. }
  destruct f as [|f]; [cbn in Hf; lia|].
  inversion Hlt as [|? ? Ht Hlt']; subst. inversion Hlx as [|? ? Hx Hlx']; subst.
  cbn [app stmt_loop]. rewrite advance_app. cbn [bind]. rewrite (ltok_not_eol _ Ht).
  rewrite (kp_lp _ Hx Ht). unfold stmt_res. cbn [map scan].
  destruct (is_lp (t_text t)) eqn:Elp.
  2:{ (* an ordinary token *)
      pose proof (IH lt ltac:(cbn in Hn; lia) f start (t_end t) (t_text t :: tokens_r) e rest0 Hlt' Hlx' He Hta
                     ltac:(cbn in Hf; lia)) as H.
      unfold stmt_res in H. destruct (scan (t_text t :: tokens_r) (map t_text lt)) as [tk|bt|bt].
      - destruct H as (endp' & Hin & ->). exists endp'. split; [|reflexivity].
        destruct Hin as [->|Hin]; [right; left; reflexivity|right; right; exact Hin].
      - destruct H as (pre & tl & f' & -> & Hf' & ->). exists (t :: pre), tl, f'.
        split; [reflexivity|]. split; [cbn [length] in *; lia|reflexivity].
      - destruct H as (pre & tl & tr & -> & ->). exists (t :: pre), tl, tr. split; reflexivity. }
  (* the token "(" *)
  destruct lt as [|u lt].
  { (* last token of the row: a block opens *)
    cbn [app peek map]. rewrite He. exists [], t, f. split; [reflexivity|]. split; [cbn; lia|rewrite frev_rev; reflexivity]. }
  inversion Hlt' as [|? ? Hu Hlt'']; subst. inversion Hlx' as [|? ? Hxu Hlx'']; subst.
  cbn [app peek map]. rewrite (ltok_not_eol _ Hu). rewrite (kp_rp _ Hxu Hu).
  destruct (is_rp (t_text u)) eqn:Erp.
  2:{ (* "(" in the middle of the line *)
      pose proof (IH (u :: lt) ltac:(cbn in Hn |- *; lia) f start endp (t_text t :: tokens_r) e rest0 Hlt' Hlx' He Hta
                     ltac:(cbn in Hf |- *; lia)) as H.
      unfold stmt_res in H. cbn [map app] in H.
      destruct (scan (t_text t :: tokens_r) (t_text u :: map t_text lt)) as [tk|bt|bt].
      - destruct H as (endp' & Hin & ->). exists endp'. split; [|reflexivity].
        destruct Hin as [->|Hin]; [left; reflexivity|right; right; exact Hin].
      - destruct H as (pre & tl & f' & E & Hf' & ->). exists (t :: pre), tl, f'.
        split; [cbn [app]; rewrite <- E; reflexivity|]. split; [cbn [length] in *; lia|reflexivity].
      - destruct H as (pre & tl & tr & E & ->). exists (t :: pre), tl, tr. split; [cbn [app]; rewrite <- E|]; reflexivity. }
  (* "( )" *)
  change (u :: lt ++ e :: rest0) with ((u :: lt) ++ e :: rest0). cbn [app]. rewrite advance_app. cbn [bind].
  destruct lt as [|v lt].
  { (* "( )" ends the row: an empty block *)
    cbn [app peek map]. rewrite He. rewrite (advance_eol _ _ Hta). cbn [bind].
    exists [], t, u. split; [reflexivity|]. rewrite frev_rev. reflexivity. }
  inversion Hlt'' as [|? ? Hv Hlt3]; subst.
  cbn [app peek map]. rewrite (ltok_not_eol _ Hv).
  pose proof (IH (v :: lt) ltac:(cbn in Hn |- *; lia) f start endp (t_text u :: t_text t :: tokens_r) e rest0 Hlt'' Hlx'' He Hta
                 ltac:(cbn in Hf |- *; lia)) as H.
  unfold stmt_res in H. cbn [map app] in H.
  destruct (scan (t_text u :: t_text t :: tokens_r) (t_text v :: map t_text lt)) as [tk|bt|bt].
  - destruct H as (endp' & Hin & ->). exists endp'. split; [|reflexivity].
    destruct Hin as [->|Hin]; [left; reflexivity|right; right; right; exact Hin].
  - destruct H as (pre & tl & f' & E & Hf' & ->). exists (t :: u :: pre), tl, f'.
    split; [cbn [app]; rewrite <- E; reflexivity|]. split; [cbn [length] in *; lia|reflexivity].
  - destruct H as (pre & tl & tr & E & ->). exists (t :: u :: pre), tl, tr. split; [cbn [app]; rewrite <- E|]; reflexivity.
Qed.
