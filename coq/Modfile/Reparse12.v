(* Reparse, part 12: (a) the comment-derived texts (Module.Deprecated, Retract.Rationale) under
   the hypothesis that excludes finding K6; (b) typed_equals_reparse and result_parses_strictly for
   sequences of operations, by composition with C15's invariant and C08's refinement theorem. *)
From Coq Require Import Permutation.
From Verif.Base Require Import Bytes.
From Verif.Modfile Require Import Syntax Lex Parse Print Directives RoundDir2 RoundDir3 RoundWork
  Reparse1 Reparse2 Reparse3 Reparse5 Reparse7 Reparse8 Reparse9 Reparse10 Reparse11
  EditModel EditOps EditSpec EditProofs2Blocks EditProofs2Inv EditProofs2Refine.

(* ---------------------------------------------------------------- (a) texts *)

(* the typed text of every module / retract entry is what the directive layer reads from the
   comments of its line (its own Before and Suffix comments, or those of the enclosing block
   when it has none).  Finding K6 is the failure of this clause. *)
Definition TextOk (f : file) : Prop :=
  forall x it, In x (tree_ctx (fsyn f)) -> In (fst x, it) (typed_items f) -> ctx_item (fsyn f) x it = it.

Lemma zip_text s f : (forall x it, In x (tree_ctx s) -> In (fst x, it) (typed_items f) -> ctx_item s x it = it) ->
  forall ctxs tis, incl ctxs (tree_ctx s) -> incl tis (typed_items f) -> map fst tis = map fst ctxs ->
  zip_items s ctxs tis = map snd tis.
Proof.
  intros H. unfold zip_items. induction ctxs as [|c ctxs IH]; intros [|t tis] Hc Ht Hf; try discriminate; [reflexivity|].
  cbn [combine map] in *. injection Hf as Hf1 Hf2. f_equal.
  - cbn [fst snd]. apply H; [apply Hc; left; reflexivity|]. rewrite <- Hf1. destruct t. apply Ht. left. reflexivity.
  - apply IH; [intros y Hy; apply Hc; right; exact Hy|intros y Hy; apply Ht; right; exact Hy|exact Hf2].
Qed.

Theorem typed_equals_reparse_text name f :
  Coherent f -> Printable known_mod_block (fsyn f) -> tis_ok (typed_items f) -> TextOk f ->
  exists f', parse_to_file true None (format (to_syntax name (fsyn f))) = DOk f' /\
    option_map (fun m => (mv_path (md_mod m), md_deprecated m)) (fd_module f') =
      option_map (fun m => (mo_path m, mo_depr m)) (f_module f) /\
    Permutation (map (fun r => (rt_low r, rt_high r, rt_rationale r)) (fd_retract f')) (k_retract (abs f)).
Proof.
  intros Hc Hp Hok Ht. destruct (reparse_core name f Hc Hp Hok) as (f' & tis & Hparse & Hv & Hperm & Hfst).
  exists f'. split; [exact Hparse|].
  pose proof (entries_live f (co_entries f Hc)) as Hl.
  rewrite (zip_text (fsyn f) f Ht) in Hv.
  2:{ intros y Hy. exact Hy. }
  2:{ intros y Hy. eapply Permutation_in; [symmetry; exact Hperm|exact Hy]. }
  2:{ exact Hfst. }
  assert (P : forall {B} (g : item -> list B), Permutation (flat_map g (map snd tis)) (flat_map g (map snd (typed_items f)))).
  { intros B g. apply Permutation_flat_map, Permutation_map. symmetry. exact Hperm. }
  unfold vals, vals_of in Hv. injection Hv as V1 _ _ _ _ _ _ V8 _. split.
  - pose proof (P _ it_module) as H. rewrite (typed_module f Hl) in H.
    assert (E : flat_map it_module (map snd tis) = map (fun m => (mo_path m, @nil Z, mo_depr m)) (opt_list (f_module f))).
    { destruct (f_module f); cbn [opt_list map] in *; [symmetry in H; apply Permutation_length_1_inv in H|symmetry in H; apply Permutation_nil in H]; exact H. }
    rewrite E in V1. destruct (fd_module f'), (f_module f); cbn in *; congruence.
  - rewrite V8, <- (typed_retract f Hl). apply P.
Qed.

(* ---------------------------------------------------------------- (b) sequences *)

Definition Pmod (it : item) : Prop := item_ok it /\ mod_item it.
Definition Pwork (it : item) : Prop := item_ok it /\ work_item it.

Lemma Pmod_text it : Pmod (untext it) -> Pmod it.
Proof. destruct it; exact (fun H => H). Qed.
Lemma Pwork_text it : Pwork (untext it) -> Pwork it.
Proof. destruct it; exact (fun H => H). Qed.

(* the directive values of a strictly parsed go.mod file are, as multisets, the keyed
   collections k (texts aside) *)
Definition same_directives (f' : Directives.file) (k : kstate) : Prop :=
  option_map (fun m => mv_path (md_mod m)) (fd_module f') = k_module k /\
  option_map go_version (fd_go f') = k_go k /\
  option_map tc_name (fd_toolchain f') = k_toolchain k /\
  Permutation (map (fun g => (Directives.gd_key g, gd_value g)) (fd_godebug f')) (k_godebug k) /\
  Permutation (map (fun r => (mv_path (rq_mod r), mv_version (rq_mod r), rq_indirect r)) (fd_require f')) (k_require k) /\
  Permutation (map (fun r => (mv_path (ex_mod r), mv_version (ex_mod r))) (fd_exclude f')) (k_exclude k) /\
  Permutation (map rep_vals (fd_replace f')) (k_replace k) /\
  Permutation (map (fun r => (rt_low r, rt_high r)) (fd_retract f')) (map (fun x => (fst (fst x), snd (fst x))) (k_retract k)) /\
  Permutation (map Directives.tl_path (fd_tool f')) (k_tool k).

Definition same_directives_work (f' : work_file) (k : kstate) : Prop :=
  option_map go_version (wf_go f') = k_go k /\
  option_map tc_name (wf_toolchain f') = k_toolchain k /\
  Permutation (map (fun g => (Directives.gd_key g, gd_value g)) (wf_godebug f')) (k_godebug k) /\
  Permutation (map Directives.us_path (wf_use f')) (map fst (k_use k)) /\
  Permutation (map rep_vals (wf_replace f')) (k_replace k).

Theorem reparse_run_mod name ops f errs f' :
  Coherent f -> BlockIdsOk (fsyn f) -> HeapSettable (fsyn f) ->
  Forall (fun o => valid_args o = true) ops -> Forall (strict_args Pmod) ops -> KOk Pmod (abs f) ->
  run_ops ops f = RunOk errs f' -> Printable known_mod_block (fsyn f') ->
  exists parsed, parse_to_file true None (format (to_syntax name (fsyn f'))) = DOk parsed /\
    same_directives parsed (abs f') /\ krun ops (abs f) [] = (abs f', errs).
Proof.
  intros Hc Hb Hs Hv Hst Hk Hrun Hp.
  destruct (run_ops_refines_all ops f errs f' Hc Hb Hs Hv Hrun) as ((Hc' & _ & _) & Hkr).
  assert (Hk' : KOk Pmod (abs f')).
  { pose proof (krun_ok Pmod ops (abs f) [] Hst Hk) as H. rewrite Hkr in H. exact H. }
  pose proof (kok_typed Pmod Pmod_text f' Hk') as Hti.
  destruct (typed_equals_reparse_mod name f' Hc' Hp Hti) as (parsed & Hparse & Hd).
  exists parsed. split; [exact Hparse|]. split; [exact Hd|exact Hkr].
Qed.

Theorem reparse_run_work name ops f errs f' :
  Coherent f -> BlockIdsOk (fsyn f) -> HeapSettable (fsyn f) ->
  Forall (fun o => valid_args o = true) ops -> Forall (strict_args Pwork) ops -> KOk Pwork (abs f) ->
  run_ops ops f = RunOk errs f' -> PrintableW (fsyn f') ->
  exists parsed, parse_work None (format (to_syntax name (fsyn f'))) = DOk parsed /\
    same_directives_work parsed (abs f') /\ krun ops (abs f) [] = (abs f', errs).
Proof.
  intros Hc Hb Hs Hv Hst Hk Hrun Hp.
  destruct (run_ops_refines_all ops f errs f' Hc Hb Hs Hv Hrun) as ((Hc' & _ & _) & Hkr).
  assert (Hk' : KOk Pwork (abs f')).
  { pose proof (krun_ok Pwork ops (abs f) [] Hst Hk) as H. rewrite Hkr in H. exact H. }
  pose proof (kok_typed Pwork Pwork_text f' Hk') as Hti.
  destruct (typed_equals_reparse_work name f' Hc' Hp Hti) as (parsed & Hparse & Hd).
  exists parsed. split; [exact Hparse|]. split; [exact Hd|exact Hkr].
Qed.
