(* modfile.ModulePath (read.go): the line scanner that extracts the module path without
   parsing the file.  Definitions only. *)
From Verif.Base Require Import Bytes Strconv.
From Verif.Modfile Require Import Syntax Lex Print Directives.

Definition module_word : str := B "module".

(* line[:i] for i the index of the first "//" *)
Fixpoint before_slashslash (s : str) : str :=
  match s with
  | [] => []
  | c :: r => if has_prefix s [47; 47] then [] else c :: before_slashslash r
  end.

(* the body of the loop for one line: None = continue with the next line *)
Definition module_path_line (line0 : str) : option str :=
  let line2 := trim_space (before_slashslash line0) in
  if negb (has_prefix line2 module_word) then None
  else
    let line3 := skipn (length module_word) line2 in
    let line4 := trim_space line3 in
    if Nat.eqb (length line4) (length line3) || Nat.eqb (length line4) 0 then None
    else
      match line4 with
      | c :: _ =>
          if (c =? 34) || (c =? 96) then
            match unquote line4 with
            | None => Some []          (* malformed quoted string or multiline module path *)
            | Some p => Some p
            end
          else Some line4
      | [] => None
      end.

Fixpoint first_module_line (lines : list str) : str :=
  match lines with
  | [] => []                            (* missing module path *)
  | l :: r => match module_path_line l with
              | Some p => p
              | None => first_module_line r
              end
  end.

(* modfile.ModulePath: the lines are the pieces between LF bytes *)
Definition module_path (data : str) : str := first_module_line (split_on 10 data).
