(* Round trip, part 6d: lexing the printed lines: [lex_render]. *)
From Verif.Base Require Import Bytes Utf8.
From Verif.Modfile Require Import Syntax Lex Parse Print ProofsLex ProofsLexNoLF RoundRows RoundParse
  RoundLexPure RoundLexPure2 RoundLexPure3 RoundLexPure4 RoundLexB1 RoundLexB2 RoundLexB3
  RoundTrim RoundTree RoundTree2 RoundTree3 RoundPrint.

(* a byte behind a token that ends it, whatever its kind *)
Definition stopper (s : str) : Prop :=
  match s with
  | b :: _ => b = 32 \/ b = 10 \/ b = 44 \/ b = 41 \/ b = 93 \/ b = 125
  | [] => False
  end.

Lemma stopper_stop k s : stopper s -> stop_ok k s.
Proof.
  destruct s as [|b t]; [intros []|]. intros H. cbn [stopper] in H.
  assert (Ha : ascii_head (b :: t)) by (cbn; lia).
  destruct k; cbn [stop_ok]; try exact Ha. split; [exact Ha|]. split.
  - unfold ppeek. rewrite decode_ascii_head by lia. cbn [fst].
    destruct H as [->|[->|[->|[->|[->| ->]]]]]; reflexivity.
  - lia.
Qed.

Definition sp_all (sp : str) : Prop := Forall (fun c => is_sp c = true) sp.

Lemma plex_tok k x r2 sp f d : is_ltok k = true -> lexed k x -> stop_ok k r2 -> sp_all sp ->
  (length (sp ++ x ++ r2) + 3 <= f)%nat ->
  plex f d (sp ++ x ++ r2) = omap (cons (k, x)) (plex (f - 1) true r2) /\ x <> [].
Proof.
  intros Hk Hx Hs Hsp Hf. destruct (relex_tok k x r2 Hk Hx Hs) as (Hne & Hr). split; [|exact Hne].
  destruct f as [|f']; [lia|]. cbn [plex]. rewrite (Hr sp f' d Hsp ltac:(lia)).
  rewrite (ltok_not_eof _ Hk). replace (S f' - 1)%nat with f' by lia.
  assert (Hnd : next_dirty k d = true).
  { destruct k; cbn in Hk |- *; try discriminate; auto. }
  rewrite Hnd. reflexivity.
Qed.

Lemma plex_punct c r2 sp f d : is_punct c = true -> c <> 10 -> sp_all sp -> (length sp + 4 <= f)%nat ->
  plex f d (sp ++ [c] ++ r2) = omap (cons (KPunct c, [c])) (plex (f - 1) true r2).
Proof.
  intros Hp Hc Hsp Hf. destruct f as [|f']; [lia|]. cbn [plex]. rewrite (relex_punct c r2 sp f' d Hp Hc Hsp ltac:(lia)).
  cbn [is_eof next_dirty]. apply Z.eqb_neq in Hc. rewrite Hc. replace (S f' - 1)%nat with f' by lia. reflexivity.
Qed.

Lemma is_open_cases t : is_open t = true -> exists c, t = [c] /\ is_punct c = true /\ c <> 10.
Proof.
  unfold is_open. intros H. repeat (apply orb_true_iff in H as [H|H]); apply str_eqb_eq in H; subst t;
    eexists; (split; [reflexivity|split; [reflexivity|lia]]).
Qed.

Lemma is_close_stopper t s : is_close t = true -> stopper (t ++ s).
Proof.
  unfold is_close. intros H. repeat (apply orb_true_iff in H as [H|H]); apply str_eqb_eq in H; subst t; cbn; lia.
Qed.

Definition kinds_ok (ks : list tkind) : Prop := Forall (fun k => is_ltok k = true) ks.

(* the tokens of a line *)
Lemma plex_toks : forall toks sep sp0 rest f d,
  toks <> [] -> Forall ltext toks -> stopper rest -> sp_all sp0 ->
  (length (sp0 ++ toks_bytes sep toks ++ rest) + 3 <= f)%nat ->
  exists ks, length ks = length toks /\ kinds_ok ks /\ (length toks <= length (toks_bytes sep toks))%nat /\
    plex f d (sp0 ++ toks_bytes sep toks ++ rest) = omap (app (combine ks toks)) (plex (f - length toks) true rest).
Proof.
  induction toks as [|t r IH]; intros sep sp0 rest f d Hne Hl Hst Hsp0 Hf; [congruence|].
  inversion Hl as [|? ? (k & Hk & Hx) Hl']; subst. cbn [toks_bytes] in *.
  set (sep1 := if is_close t then false else sep) in *.
  set (s1 := if sep1 then [32] else []) in *.
  assert (Hs1 : sp_all (sp0 ++ s1)).
  { apply Forall_app. split; [exact Hsp0|]. unfold s1. destruct sep1; [constructor; [reflexivity|constructor]|constructor]. }
  set (r2 := toks_bytes (negb (is_open t)) r ++ rest) in *.
  assert (Etext : sp0 ++ (s1 ++ t ++ toks_bytes (negb (is_open t)) r) ++ rest = (sp0 ++ s1) ++ t ++ r2).
  { unfold r2. rewrite <- !app_assoc. reflexivity. }
  rewrite Etext in *.
  (* the token t *)
  assert (Htok : plex f d ((sp0 ++ s1) ++ t ++ r2) = omap (cons (k, t)) (plex (f - 1) true r2) /\ t <> []).
  { destruct (is_open t) eqn:Eo.
    - destruct (is_open_cases t Eo) as (c & -> & Hp & Hc).
      pose proof (lexed_kind_punct k [c] c Hk Hx eq_refl Hp) as ->.
      split; [|discriminate]. apply plex_punct; auto. rewrite !app_length in Hf. cbn [length] in Hf. rewrite app_length. lia.
    - apply plex_tok; auto. apply stopper_stop. unfold r2. cbn [negb].
      destruct r as [|u r']; [cbn [toks_bytes app]; exact Hst|]. cbn [toks_bytes].
      destruct (is_close u) eqn:Ec.
      + cbn [app]. rewrite <- !app_assoc. apply is_close_stopper. exact Ec.
      + cbn [app]. left. reflexivity. }
  destruct Htok as (Htok & Htne). rewrite Htok.
  assert (Hlen_t : (1 <= length t)%nat) by (destruct t; [congruence|cbn; lia]).
  destruct r as [|u r'].
  - exists [k]. split; [reflexivity|]. split; [constructor; [exact Hk|constructor]|]. split.
    + cbn [toks_bytes length]. rewrite !app_length. lia.
    + unfold r2. cbn [toks_bytes app length combine]. destruct (plex (f - 1) true rest); reflexivity.
  - destruct (IH (negb (is_open t)) [] rest (f - 1)%nat true ltac:(discriminate) Hl' Hst (Forall_nil _)) as (ks & Hlk & Hks & Hlb & Hp).
    { cbn [app]. fold r2. rewrite !app_length in Hf. lia. }
    cbn [app] in Hp. fold r2 in Hp. rewrite Hp.
    exists (k :: ks). split; [cbn [length]; rewrite Hlk; reflexivity|]. split; [constructor; assumption|]. split.
    + cbn [length] in *. rewrite !app_length. lia.
    + assert (Ef : (f - length (t :: u :: r') = f - 1 - length (u :: r'))%nat) by (cbn [length]; lia).
      rewrite Ef. destruct (plex (f - 1 - length (u :: r')) true rest); reflexivity.
Qed.

(* ---------------------------------------------------------------- printed lines *)

Definition tcom_ok (y : str) : Prop := comment_text y /\ end_ok y.
Definition tsfx_ok (sfx : list str) : Prop := Forall tcom_ok sfx /\ (length sfx <= 1)%nat.

Definition pl_ok (p : pl) : Prop :=
  match p with
  | PLRow _ (RToks toks sfx) => toks <> [] /\ Forall ltext toks /\ tsfx_ok sfx
  | PLRow _ (RCom y) => tcom_ok y
  | PLRow _ RBlank => True
  | PLHdr bt sfx => Forall ltext bt /\ tsfx_ok sfx
  end.

Lemma sp_tabs m : sp_all (repeat 9 m).
Proof. induction m; constructor; [reflexivity|assumption]. Qed.

(* the end of a line of tokens: the end-of-line comment, the line feed *)
Lemma plex_eol sfx rest f : tsfx_ok sfx -> (length (sfx_bytes sfx ++ 10%Z :: rest) + 3 <= f)%nat ->
  exists e, plex f true (sfx_bytes sfx ++ 10 :: rest) = omap (cons e) (plex (f - 1) false rest) /\
    stopper (sfx_bytes sfx ++ 10 :: rest) /\
    (forall acc l, acc <> [] -> prows acc (e :: l) = RToks (rev acc) sfx :: prows [] l).
Proof.
  intros (Hs & Hlen) Hf. destruct sfx as [|y [|y2 sfx]]; [| |cbn in Hlen; lia].
  - exists (KPunct 10, [10]). cbn [sfx_bytes flat_map app] in *. split; [|split; [cbn; lia|]].
    + cbn [length] in Hf. destruct f as [|f']; [lia|]. cbn [plex]. pose proof (relex_lf rest [] f' true (Forall_nil _) ltac:(cbn [length]; lia)) as Hr. cbn [app] in Hr. rewrite Hr.
      cbn [is_eof next_dirty]. replace (S f' - 1)%nat with f' by lia. reflexivity.
    + intros acc l Hacc. cbn [prows]. destruct acc; [congruence|reflexivity].
  - destruct (Forall_inv Hs) as (Hct & He). exists (KEOLComment, y). cbn [sfx_bytes flat_map app] in *. rewrite app_nil_r in *.
    split; [|split; [cbn; lia|]].
    + destruct f as [|f']; [lia|]. cbn [plex].
      pose proof (relex_comment y rest Hct He [32] f' true ltac:(constructor; [reflexivity|constructor])) as Hr.
      cbn [app] in Hr. rewrite Hr by (cbn [length] in *; lia).
      cbn [is_eof next_dirty]. replace (S f' - 1)%nat with f' by lia. reflexivity.
    + intros acc l Hacc. reflexivity.
Qed.

Lemma combine_snd (ks : list tkind) (toks : list str) : length ks = length toks -> map snd (combine ks toks) = toks.
Proof. revert toks. induction ks as [|k ks IH]; intros [|t toks] H; cbn in *; try lia; [reflexivity|]. f_equal. apply IH. lia. Qed.

Lemma combine_kinds (ks : list tkind) (toks : list str) : kinds_ok ks -> Forall (fun kx => is_ltok (fst kx) = true) (combine ks toks).
Proof.
  intros H. revert toks. induction H as [|k ks Hk Hks IH]; intros [|t toks]; cbn; constructor; auto.
Qed.

Lemma ltext_nonnil x : ltext x -> x <> [].
Proof. intros (k & Hk & Hx). destruct (lexed_end_ok k x Hk Hx) as (pre & b & -> & _). destruct pre; discriminate. Qed.

Lemma toks_bytes_len : forall toks sep, Forall ltext toks -> (length toks <= length (toks_bytes sep toks))%nat.
Proof.
  induction toks as [|t r IH]; intros sep H; [cbn; lia|]. inversion H as [|? ? Ht Hr]; subst.
  cbn [toks_bytes length]. rewrite !app_length. pose proof (IH (negb (is_open t)) Hr). pose proof (ltext_nonnil _ Ht).
  destruct t; [congruence|cbn [length]; lia].
Qed.

Lemma prows_lp acc r : prows acc ((KPunct 40, [40]) :: r) = prows ([40] :: acc) r.
Proof. reflexivity. Qed.

Lemma plex_pl p rest f : pl_ok p -> (length (render_pl p ++ rest) + 3 <= f)%nat ->
  exists toks n, plex f false (render_pl p ++ rest) = omap (app toks) (plex (f - n) false rest) /\
    (n <= length (render_pl p))%nat /\ (forall l, prows [] (toks ++ l) = pl_row p :: prows [] l).
Proof.
  intros Hok Hf. destruct p as [m [toks sfx|y|]|bt sfx]; cbn [pl_ok render_pl render_row pl_row] in *.
  - (* a line of tokens *)
    destruct Hok as (Hne & Hl & Hsx). rewrite <- !app_assoc in *.
    pose proof (toks_bytes_len toks false Hl) as Hlb0.
    assert (Hf' : (length (repeat 9%Z m) + length (toks_bytes false toks) + length (sfx_bytes sfx ++ 10%Z :: rest) + 3 <= f)%nat).
    { cbn [app] in Hf. rewrite !app_length in Hf. rewrite !app_length. cbn [length] in *. lia. }
    destruct (plex_eol sfx rest (f - length toks)%nat Hsx ltac:(lia)) as (e & He & Hstop & Hrow).
    destruct (plex_toks toks false (repeat 9 m) (sfx_bytes sfx ++ 10 :: rest) f false Hne Hl Hstop (sp_tabs m) ltac:(cbn [app] in Hf; exact Hf))
      as (ks & Hlk & Hks & Hlb & Hp).
    cbn [app]. rewrite Hp, He.
    exists (combine ks toks ++ [e]), (length toks + 1)%nat. split; [|split].
    + replace (f - (length toks + 1))%nat with (f - length toks - 1)%nat by lia.
      destruct (plex (f - length toks - 1) false rest); cbn [omap]; [rewrite <- app_assoc; reflexivity|reflexivity].
    + rewrite !app_length. cbn [length]. lia.
    + intros l. rewrite <- app_assoc. rewrite (prows_ltoks _ [] _ (combine_kinds ks toks Hks)). cbn [app].
      rewrite (combine_snd _ _ Hlk), app_nil_r. rewrite Hrow; [rewrite rev_involutive; reflexivity|].
      destruct toks; [congruence|]. cbn [rev]. destruct (rev toks); discriminate.
  - (* a comment *)
    destruct Hok as (Hct & He). rewrite <- !app_assoc in *. cbn [app] in *.
    exists [(KComment, y)], 1%nat. split; [|split].
    + destruct f as [|f']; [lia|]. cbn [plex]. rewrite (relex_comment y rest Hct He (repeat 9 m) f' false (sp_tabs m)) by lia.
      cbn [is_eof next_dirty]. replace (S f' - 1)%nat with f' by lia. destruct (plex f' false rest); reflexivity.
    + rewrite !app_length. cbn [length]. lia.
    + intros l. reflexivity.
  - (* a blank line *)
    cbn [app] in *. exists [(KPunct 10, [10])], 1%nat. split; [|split].
    + destruct f as [|f']; [lia|]. cbn [plex]. pose proof (relex_lf rest [] f' false (Forall_nil _) ltac:(cbn [length] in *; lia)) as Hr. cbn [app] in Hr. rewrite Hr.
      cbn [is_eof next_dirty]. change (negb (10 =? 10)) with false. replace (S f' - 1)%nat with f' by lia. destruct (plex f' false rest); reflexivity.
    + cbn. lia.
    + intros l. reflexivity.
  - (* the header of a block *)
    destruct Hok as (Hl & Hsx). rewrite <- !app_assoc in *. cbn [app] in *.
    assert (Hopen : forall g d, (5 <= g)%nat ->
              plex g d (32 :: 40 :: sfx_bytes sfx ++ 10 :: rest) =
              omap (cons (KPunct 40, [40])) (plex (g - 1) true (sfx_bytes sfx ++ 10 :: rest))).
    { intros g d Hg. assert (Hsp : sp_all [32]) by (apply Forall_cons; [reflexivity|apply Forall_nil]).
      apply (plex_punct 40 (sfx_bytes sfx ++ 10 :: rest) [32] g d eq_refl ltac:(lia) Hsp). cbn [length]. lia. }
    destruct bt as [|t0 bt'].
    + (* no tokens (does not occur) *)
      cbn [toks_bytes app] in *.
      destruct (plex_eol sfx rest (f - 1)%nat Hsx ltac:(cbn [length] in Hf; lia)) as (e & He & Hstop & Hrow).
      rewrite Hopen by (cbn [length] in Hf; lia). rewrite He.
      exists [(KPunct 40, [40]); e], 2%nat. split; [|split].
      * replace (f - 2)%nat with (f - 1 - 1)%nat by lia. destruct (plex (f - 1 - 1) false rest); reflexivity.
      * cbn [length]. lia.
      * intros l. cbn [app]. rewrite prows_lp, Hrow by discriminate. reflexivity.
    + set (bt := t0 :: bt') in *.
      assert (Hlb : (length bt <= length (toks_bytes false bt))%nat).
      { destruct (plex_toks bt false [] [10] (length (toks_bytes false bt ++ [10]) + 3) false ltac:(discriminate) Hl ltac:(cbn; lia) (Forall_nil _) ltac:(cbn; lia)) as (_ & _ & _ & H & _). exact H. }
      pose proof Hf as Hf0. rewrite !app_length in Hf. cbn [length] in Hf. rewrite !app_length in Hf. cbn [length] in Hf.
      destruct (plex_toks bt false [] (32 :: 40 :: sfx_bytes sfx ++ 10 :: rest) f false ltac:(discriminate) Hl ltac:(cbn; lia) (Forall_nil _))
        as (ks & Hlk & Hks & _ & Hp).
      { cbn [app]. exact Hf0. }
      cbn [app] in Hp. rewrite Hp.
      destruct (plex_eol sfx rest (f - length bt - 1)%nat Hsx ltac:(rewrite app_length; cbn [length]; lia)) as (e & He & Hstop & Hrow).
      rewrite Hopen by lia. rewrite He.
      exists (combine ks bt ++ [(KPunct 40, [40]); e]), (length bt + 2)%nat. split; [|split].
      * replace (f - (length bt + 2))%nat with (f - length bt - 1 - 1)%nat by lia.
        destruct (plex (f - length bt - 1 - 1) false rest); cbn [omap]; [rewrite <- app_assoc; reflexivity|reflexivity].
      * rewrite !app_length. cbn [length]. lia.
      * intros l. rewrite <- app_assoc. rewrite (prows_ltoks _ [] _ (combine_kinds ks bt Hks)). cbn [app].
        rewrite prows_lp. rewrite (combine_snd _ _ Hlk), app_nil_r. rewrite Hrow by discriminate.
        cbn [rev]. rewrite rev_involutive. reflexivity.
Qed.

Lemma plex_render : forall pls f, Forall pl_ok pls -> (length (render pls) + 3 <= f)%nat ->
  exists toks, plex f false (render pls) = Some toks /\ prows [] toks = map pl_row pls.
Proof.
  induction pls as [|p pls IH]; intros f Hok Hf.
  - exists [(KEOF, [])]. cbn [render flat_map length] in *. destruct f as [|[|f']]; try lia. split; reflexivity.
  - inversion Hok as [|? ? Hp Hpls]; subst. cbn [render flat_map] in *. fold (render pls) in *.
    destruct (plex_pl p (render pls) f Hp Hf) as (toks & n & E & Hn & Hrow).
    rewrite app_length in Hf.
    destruct (IH (f - n)%nat Hpls ltac:(lia)) as (toks' & E' & Hr').
    rewrite E, E'. exists (toks ++ toks'). split; [reflexivity|]. rewrite Hrow, Hr'. reflexivity.
Qed.

Theorem lex_render pls : Forall pl_ok pls ->
  exists ts, lex (render pls) = (ts, LEnd) /\ arows [] ts = map pl_row pls.
Proof.
  intros Hok. destruct (plex_render pls (lex_fuel (render pls)) Hok ltac:(unfold lex_fuel; lia)) as (toks & E & Hr).
  destruct (lex_plex _ _ E) as (ts & El & Em). exists ts. split; [exact El|]. rewrite arows_prows, Em. exact Hr.
Qed.
