(* Round trip, part 7b: what the directive layer reads from a comment does not change when
   the comment is trimmed first (as the printer does):
     TrimSpace (TrimPrefix (TrimSpace c) "//") = TrimSpace (TrimPrefix c "//")   [trim_skip2]
     Fields (TrimPrefix (TrimSpace c) "//") = Fields (TrimPrefix c "//")          [fields_skip2] *)
From Verif.Base Require Import Bytes Utf8.
From Verif.Gen Require Import GenChars GenUnicode.
From Verif.Modfile Require Import Syntax Lex Parse Print Directives ProofsLex RoundRows
  RoundLexPure RoundLexPure2 RoundLexPure3 RoundLexPure4 RoundLexB1 RoundLexB2 RoundTrim.

(* ---------------------------------------------------------------- decode in front of a non-continuation byte *)

Definition nc_head (s : str) : Prop := match s with [] => True | b :: _ => cont b = false end.

Lemma rng_nc c lo hi : cont c = false -> 128 <= lo -> hi <= 191 -> ((lo <=? c) && (c <=? hi)) = false.
Proof.
  unfold cont. intros H Hlo Hhi. destruct (Z.leb_spec lo c); [|reflexivity]. destruct (Z.leb_spec c hi); [|reflexivity].
  exfalso. destruct (Z.leb_spec 128 c); [|lia]. destruct (Z.leb_spec c 191); [discriminate|lia].
Qed.

Ltac hyp_norm2 H Hw :=
  repeat match type of H with
  | (if ?c then _ else _) = _ =>
      let E := fresh "E" in destruct c eqn:E; [injection H as <- <-; cbn [length] in Hw; lia|]
  end.

Ltac goal_nc H b0 r2 Ha :=
  let c2 := fresh "c2" in let d2 := fresh "d2" in let e2 := fresh "e2" in
  destruct r2 as [|c2 [|d2 [|e2 r2]]]; cbn [app]; try exact H;
  cbn in Ha;
  rewrite ?Ha, ?andb_false_r; cbn [andb]; try exact H;
  (rewrite (rng_nc c2) by (try exact Ha; try destruct (b0 =? 224); try destruct (b0 =? 237); try destruct (b0 =? 240); try destruct (b0 =? 244); lia));
  cbn [andb]; exact H.

Lemma decode_transport_nc x r1 r2 r w :
  x <> [] -> Utf8.decode (x ++ r1) = (r, w) -> (w <= length x)%nat -> nc_head r2 ->
  Utf8.decode (x ++ r2) = (r, w).
Proof.
  destruct x as [|b0 x]; [congruence|]. intros _. cbn [app]. unfold Utf8.decode.
  destruct (b0 <? 128); [auto|].
  destruct ((194 <=? b0) && (b0 <=? 223)).
  { destruct x as [|b1 x]; cbn [app length]; [|auto]. intros H Hw Ha.
    destruct r1 as [|c1 r1]; cbn [app] in H; hyp_norm2 H Hw; goal_nc H b0 r2 Ha. }
  destruct ((224 <=? b0) && (b0 <=? 239)).
  { destruct x as [|b1 [|b2 x]]; cbn [app length]; [| |auto]; intros H Hw Ha.
    - destruct r1 as [|c1 [|d1 r1]]; cbn [app] in H; hyp_norm2 H Hw; goal_nc H b0 r2 Ha.
    - destruct r1 as [|c1 r1]; cbn [app] in H; hyp_norm2 H Hw; goal_nc H b0 r2 Ha. }
  destruct ((240 <=? b0) && (b0 <=? 244)); [|auto].
  destruct x as [|b1 [|b2 [|b3 x]]]; cbn [app length]; [| | |auto]; intros H Hw Ha.
  - destruct r1 as [|c1 [|d1 [|e1 r1]]]; cbn [app] in H; hyp_norm2 H Hw; goal_nc H b0 r2 Ha.
  - destruct r1 as [|c1 [|d1 r1]]; cbn [app] in H; hyp_norm2 H Hw; goal_nc H b0 r2 Ha.
  - destruct r1 as [|c1 r1]; cbn [app] in H; hyp_norm2 H Hw; goal_nc H b0 r2 Ha.
Qed.

Lemma decode_ctx s tl : s <> [] -> nc_head tl -> Utf8.decode (s ++ tl) = Utf8.decode s.
Proof.
  intros Hs Hn. destruct (Utf8.decode s) as [r w] eqn:Hd.
  pose proof (decode_width _ _ _ Hs Hd) as Hw.
  apply (decode_transport_nc s [] tl r w Hs); [rewrite app_nil_r; exact Hd|lia|exact Hn].
Qed.

(* ---------------------------------------------------------------- encodings of white-space runes *)

Definition senc (enc : str) : Prop :=
  enc <> [] /\ exists r, Utf8.decode enc = (r, length enc) /\ unicode_IsSpace r = true.

Lemma space_not_error : unicode_IsSpace Utf8.rune_error = false.
Proof. reflexivity. Qed.

(* a complete encoding decodes the same whatever follows, and starts with a byte that is
   no continuation byte *)
Lemma senc_complete enc : senc enc ->
  nc_head enc /\ forall rest, Utf8.decode (enc ++ rest) = Utf8.decode enc.
Proof.
  intros (Hne & r & Hd & Hsp).
  assert (Herr : r <> Utf8.rune_error) by (intros ->; rewrite space_not_error in Hsp; discriminate).
  destruct enc as [|b0 t]; [congruence|]. cbn [nc_head]. unfold Utf8.decode in *. cbn [app].
  destruct (Z.ltb_spec b0 128) as [Hb|Hb].
  { injection Hd as _ Hl. destruct t; [|discriminate]. split; [apply ascii_not_cont; exact Hb|reflexivity]. }
  destruct ((194 <=? b0) && (b0 <=? 223)) eqn:E2.
  { assert (Hnc : cont b0 = false) by (unfold cont; apply andb_true_iff in E2 as (A & _); apply Z.leb_le in A;
      destruct (Z.leb_spec b0 191); [lia|apply andb_false_r]).
    destruct t as [|b1 t]; [congruence|].
    destruct (cont b1) eqn:C1; [|congruence].
    injection Hd as _ Hl. destruct t; [|discriminate]. split; [exact Hnc|]. intros rest. cbn [app]. rewrite C1. reflexivity. }
  destruct ((224 <=? b0) && (b0 <=? 239)) eqn:E3.
  { assert (Hnc : cont b0 = false) by (unfold cont; apply andb_true_iff in E3 as (A & _); apply Z.leb_le in A;
      destruct (Z.leb_spec b0 191); [lia|apply andb_false_r]).
    destruct t as [|b1 [|b2 t]]; try (congruence).
    match type of Hd with (if ?c then _ else _) = _ => destruct c eqn:C end; [|congruence].
    injection Hd as _ Hl. destruct t; [|discriminate]. split; [exact Hnc|]. intros rest. cbn [app]. rewrite C. reflexivity. }
  destruct ((240 <=? b0) && (b0 <=? 244)) eqn:E4.
  { assert (Hnc : cont b0 = false) by (unfold cont; apply andb_true_iff in E4 as (A & _); apply Z.leb_le in A;
      destruct (Z.leb_spec b0 191); [lia|apply andb_false_r]).
    destruct t as [|b1 [|b2 [|b3 t]]]; try (congruence).
    match type of Hd with (if ?c then _ else _) = _ => destruct c eqn:C end; [|congruence].
    injection Hd as _ Hl. destruct t; [|discriminate]. split; [exact Hnc|]. intros rest. cbn [app]. rewrite C. reflexivity. }
  congruence.
Qed.

(* a proper suffix of a complete encoding starts with a continuation byte *)
Lemma senc_suffix enc j : senc enc -> (0 < j < length enc)%nat ->
  exists c t, skipn (length enc - j) enc = c :: t /\ cont c = true.
Proof.
  intros (Hne & r & Hd & Hsp) Hj.
  assert (Herr : r <> Utf8.rune_error) by (intros ->; rewrite space_not_error in Hsp; discriminate).
  destruct enc as [|b0 t]; [congruence|]. unfold Utf8.decode in Hd.
  destruct (b0 <? 128). { injection Hd as _ Hl. destruct t; [cbn in Hj; lia|discriminate]. }
  destruct ((194 <=? b0) && (b0 <=? 223)).
  { destruct t as [|b1 t]; [congruence|].
    destruct (cont b1) eqn:C1; [|congruence].
    injection Hd as _ Hl. destruct t; [|discriminate]. cbn [length] in Hj.
    assert (j = 1)%nat by lia. subst j. cbn. eauto. }
  destruct ((224 <=? b0) && (b0 <=? 239)).
  { destruct t as [|b1 [|b2 t]]; try (congruence).
    match type of Hd with (if ?c then _ else _) = _ => destruct c eqn:C end; [|congruence].
    injection Hd as _ Hl. destruct t; [|discriminate]. cbn [length] in Hj.
    apply andb_true_iff in C as (C12 & C2). apply andb_true_iff in C12 as (Ca & Cb).
    assert (Cb1 : cont b1 = true).
    { unfold cont. apply Z.leb_le in Ca, Cb. apply andb_true_iff. split; apply Z.leb_le; destruct (b0 =? 224), (b0 =? 237); lia. }
    assert (j = 1 \/ j = 2)%nat as [->| ->] by lia; cbn; eauto. }
  destruct ((240 <=? b0) && (b0 <=? 244)).
  { destruct t as [|b1 [|b2 [|b3 t]]]; try (congruence).
    match type of Hd with (if ?c then _ else _) = _ => destruct c eqn:C end; [|congruence].
    injection Hd as _ Hl. destruct t; [|discriminate]. cbn [length] in Hj.
    apply andb_true_iff in C as (C123 & C3). apply andb_true_iff in C123 as (C12 & C2). apply andb_true_iff in C12 as (Ca & Cb).
    assert (Cb1 : cont b1 = true).
    { unfold cont. apply Z.leb_le in Ca, Cb. apply andb_true_iff. split; apply Z.leb_le; destruct (b0 =? 240), (b0 =? 244); lia. }
    assert (j = 1 \/ j = 2 \/ j = 3)%nat as [->|[->| ->]] by lia; cbn; eauto. }
  congruence.
Qed.

Lemma decode_cont_head c t : cont c = true -> Utf8.decode (c :: t) = (Utf8.rune_error, 1%nat).
Proof.
  unfold cont. intros H. apply andb_true_iff in H as (A & B). apply Z.leb_le in A, B. unfold Utf8.decode.
  destruct (Z.ltb_spec c 128); [lia|].
  assert (E2 : ((194 <=? c) && (c <=? 223)) = false) by (destruct (Z.leb_spec 194 c); [lia|reflexivity]).
  assert (E3 : ((224 <=? c) && (c <=? 239)) = false) by (destruct (Z.leb_spec 224 c); [lia|reflexivity]).
  assert (E4 : ((240 <=? c) && (c <=? 244)) = false) by (destruct (Z.leb_spec 240 c); [lia|reflexivity]).
  rewrite E2, E3, E4. reflexivity.
Qed.

Lemma decode_w4 s r w : Utf8.decode s = (r, w) -> (w <= 4)%nat.
Proof.
  unfold Utf8.decode. intros H.
  repeat match type of H with
         | (if ?c then _ else _) = _ => destruct c
         | match ?l with _ => _ end = _ => destruct l
         end; inversion H; lia.
Qed.

(* the right trim removes exactly one complete white-space encoding at the end *)
Lemma lsw_senc x enc : senc enc -> last_space_width (rev (x ++ enc)) = length enc.
Proof.
  intros Hs. pose proof Hs as (Hne & r & Hd & Hsp).
  assert (Herr : (r =? Utf8.rune_error) = false).
  { apply Z.eqb_neq. intros ->. rewrite space_not_error in Hsp. discriminate. }
  assert (Hlen : (1 <= length enc <= 4)%nat).
  { pose proof (decode_width _ _ _ Hne Hd). pose proof (decode_w4 _ _ _ Hd). lia. }
  (* what tryk sees: the last j bytes *)
  assert (Hlast : forall j, (j <= length enc)%nat -> rev (firstn j (rev (x ++ enc))) = skipn (length enc - j) enc).
  { intros j Hj. rewrite rev_app_distr, firstn_app, rev_length. replace (j - length enc)%nat with O by lia.
    cbn [firstn]. rewrite app_nil_r. rewrite firstn_rev, rev_involutive. reflexivity. }
  assert (Hfalse : forall j, (0 < j < length enc)%nat -> tryk (rev (x ++ enc)) j = false).
  { intros j Hj. unfold tryk. rewrite (Hlast j ltac:(lia)).
    destruct (senc_suffix enc j Hs Hj) as (c & t & E & Hc). rewrite E, (decode_cont_head c t Hc).
    destruct j as [|[|j]]; [lia| |].
    - cbn. rewrite !andb_false_r. reflexivity.
    - cbn [Nat.eqb]. rewrite andb_false_r. reflexivity. }
  assert (Htrue : tryk (rev (x ++ enc)) (length enc) = true).
  { unfold tryk. rewrite (Hlast _ (le_n _)), Nat.sub_diag. cbn [skipn]. rewrite Hd, !Nat.eqb_refl, Hsp, Herr. reflexivity. }
  rewrite lsw_unfold.
  destruct (length enc) as [|[|[|[|[|n]]]]] eqn:El; try lia.
  - rewrite Htrue. reflexivity.
  - rewrite (Hfalse 1%nat) by lia. rewrite Htrue. reflexivity.
  - rewrite (Hfalse 1%nat), (Hfalse 2%nat) by lia. rewrite Htrue. reflexivity.
  - rewrite (Hfalse 1%nat), (Hfalse 2%nat), (Hfalse 3%nat) by lia. rewrite Htrue. reflexivity.
Qed.

Lemma cne2 {A} (b : A) t : b :: t <> [].
Proof. discriminate. Qed.

(* ---------------------------------------------------------------- a tail of white space *)

Definition stail (tl : str) : Prop := exists encs, Forall senc encs /\ tl = concat encs.

Lemma stail_nc tl : stail tl -> nc_head tl.
Proof.
  intros (encs & H & ->). destruct H as [|enc encs He _]; [exact I|]. cbn [concat].
  destruct (senc_complete enc He) as (Hn & _). destruct He as (Hne & _). destruct enc; [congruence|exact Hn].
Qed.

Lemma senc_len enc : senc enc -> (1 <= length enc)%nat.
Proof. intros (Hne & _). destruct enc; [congruence|cbn; lia]. Qed.

Lemma concat_len encs : Forall senc encs -> (length encs <= length (concat encs))%nat.
Proof.
  induction 1 as [|enc encs He Hes IH]; [cbn; lia|]. cbn [concat length]. rewrite app_length. pose proof (senc_len enc He). lia.
Qed.

(* the right trim of a comment, with the structure of what it cuts off *)
Lemma trim_right_comment2 : forall f body, (length body <= f)%nat ->
  exists y tl, trim_right_rev f (rev (47 :: 47 :: body)) = rev (47 :: 47 :: y) /\ body = y ++ tl /\
               last_space_width (rev (47 :: 47 :: y)) = O /\ stail tl.
Proof.
  induction f as [|f IH]; intros body Hf.
  - destruct body; [|cbn in Hf; lia]. exists [], []. cbn. split; [reflexivity|]. split; [reflexivity|].
    split; [vm_compute; reflexivity|exists []; split; [constructor|reflexivity]].
  - cbn [trim_right_rev]. destruct (last_space_width (rev (47 :: 47 :: body))) as [|k'] eqn:Ek.
    { exists body, []. split; [reflexivity|]. split; [symmetry; apply app_nil_r|]. split; [exact Ek|exists []; split; [constructor|reflexivity]]. }
    destruct (last_space_width_spec _ _ Ek ltac:(discriminate)) as (enc & r & Ers & Hl & Hd & Hsp).
    set (k := S k') in *.
    assert (Hne : enc <> []) by (destruct enc; [cbn in Hl; lia|discriminate]).
    rewrite <- Hl in Hd. pose proof (space_enc_no47 enc r Hne Hd Hsp) as H47.
    assert (Hse : senc enc) by (split; [exact Hne|eauto]).
    assert (Ep : 47 :: 47 :: body = rev (skipn k (rev (47 :: 47 :: body))) ++ enc).
    { rewrite <- (rev_involutive (47 :: 47 :: body)) at 1. rewrite Ers at 1. rewrite rev_app_distr, rev_involutive. reflexivity. }
    set (p' := rev (skipn k (rev (47 :: 47 :: body)))) in *.
    assert (Hp' : exists y, p' = 47 :: 47 :: y).
    { destruct p' as [|a [|b y]].
      - cbn in Ep. destruct enc as [|e enc]; [congruence|]. injection Ep as <- _. inversion H47; congruence.
      - cbn in Ep. injection Ep as <- Ep. destruct enc as [|e enc]; [congruence|]. injection Ep as <- _. inversion H47; congruence.
      - cbn in Ep. injection Ep as <- <- _. eauto. }
    destruct Hp' as (y0 & Ey0).
    assert (Eb : body = y0 ++ enc) by (rewrite Ey0 in Ep; cbn in Ep; injection Ep as Ep; exact Ep).
    assert (Esk : skipn k (rev (47 :: 47 :: body)) = rev (47 :: 47 :: y0)).
    { rewrite <- Ey0. unfold p'. rewrite rev_involutive. reflexivity. }
    rewrite Esk.
    destruct (IH y0) as (y & tl & E1 & E2 & E3 & (encs & Hencs & Etl)).
    { rewrite Eb, app_length in Hf. pose proof (senc_len enc Hse). lia. }
    exists y, (tl ++ enc). split; [exact E1|]. split; [rewrite Eb, E2, app_assoc; reflexivity|]. split; [exact E3|].
    exists (encs ++ [enc]). split; [apply Forall_app; split; [exact Hencs|constructor; [exact Hse|constructor]]|].
    rewrite concat_app, Etl. cbn [concat]. rewrite app_nil_r. reflexivity.
Qed.

(* TrimSpace of a comment, with the structure of what it cuts off *)
Lemma trim_space_comment2 body : exists y tl, trim_space (47 :: 47 :: body) = 47 :: 47 :: y /\ body = y ++ tl /\ stail tl.
Proof.
  destruct (trim_right_comment2 (length (47 :: 47 :: body)) body ltac:(cbn; lia)) as (y & tl & E1 & E2 & _ & Hst).
  exists y, tl. split; [|auto]. unfold trim_space. cbv zeta.
  assert (Htl : trim_left (length (47 :: 47 :: body)) (47 :: 47 :: body) = 47 :: 47 :: body).
  { cbn [length trim_left]. rewrite decode_ascii_head by lia. reflexivity. }
  rewrite !Htl, !frev_rev, E1, rev_involutive. reflexivity.
Qed.

(* ---------------------------------------------------------------- strings.Fields *)

Definition fflush (cur : str) (acc : list str) : list str :=
  match cur with [] => acc | _ => frev cur :: acc end.

(* the state of the Fields loop after s *)
Fixpoint fst_loop (f : nat) (s cur : str) (acc : list str) : str * list str :=
  match f with
  | O => (cur, acc)
  | S f' =>
      match s with
      | [] => (cur, acc)
      | _ => let (r, w) := Utf8.decode s in
             if unicode_IsSpace r then fst_loop f' (skipn w s) [] (fflush cur acc)
             else fst_loop f' (skipn w s) (rev_append (firstn w s) cur) acc
      end
  end.

Lemma fields_loop_step f b t cur acc : fields_loop (S f) (b :: t) cur acc =
  let (r, w) := Utf8.decode (b :: t) in
  if unicode_IsSpace r then fields_loop f (skipn w (b :: t)) [] (fflush cur acc)
  else fields_loop f (skipn w (b :: t)) (rev_append (firstn w (b :: t)) cur) acc.
Proof. reflexivity. Qed.

Lemma fst_loop_step f b t cur acc : fst_loop (S f) (b :: t) cur acc =
  let (r, w) := Utf8.decode (b :: t) in
  if unicode_IsSpace r then fst_loop f (skipn w (b :: t)) [] (fflush cur acc)
  else fst_loop f (skipn w (b :: t)) (rev_append (firstn w (b :: t)) cur) acc.
Proof. reflexivity. Qed.

Lemma trim_left_step f b t : trim_left (S f) (b :: t) =
  let (r, w) := Utf8.decode (b :: t) in if unicode_IsSpace r then trim_left f (skipn w (b :: t)) else b :: t.
Proof. reflexivity. Qed.

Lemma fields_loop_end : forall n s cur acc, (length s <= n)%nat ->
  fields_loop (S n) s cur acc = frev (fflush (fst (fst_loop n s cur acc)) (snd (fst_loop n s cur acc))).
Proof.
  induction n as [|n IH]; intros s cur acc Hn.
  - destruct s; [|cbn in Hn; lia]. reflexivity.
  - destruct s as [|b t]; [reflexivity|].
    destruct (Utf8.decode (b :: t)) as [r w] eqn:Hd. pose proof (decode_width _ _ _ (cne2 _ _) Hd) as Hw.
    rewrite fields_loop_step, fst_loop_step, Hd.
    destruct (unicode_IsSpace r); apply IH; rewrite skipn_length; cbn [length] in *; lia.
Qed.

Lemma fields_spaces : forall encs f cur acc, Forall senc encs -> (length encs < f)%nat ->
  fields_loop f (concat encs) cur acc = frev (fflush cur acc).
Proof.
  induction encs as [|enc encs IH]; intros f cur acc H Hf.
  - destruct f; [cbn in Hf; lia|]. reflexivity.
  - inversion H as [|? ? He Hes]; subst. destruct f as [|f]; [cbn in Hf; lia|]. cbn [concat].
    destruct (senc_complete enc He) as (_ & Hc). pose proof He as (Hne & r & Hd & Hsp).
    destruct (enc ++ concat encs) as [|z zs] eqn:Ez; [destruct enc; [congruence|discriminate]|].
    rewrite fields_loop_step. rewrite <- Ez.
    rewrite Hc, Hd, Hsp. rewrite skipn_app, skipn_all, Nat.sub_diag. cbn [skipn app].
    rewrite (IH f [] (fflush cur acc) Hes ltac:(cbn [length] in Hf; lia)). reflexivity.
Qed.

Lemma fields_loop_tail encs : Forall senc encs -> forall n s cur acc f, (length s <= n)%nat ->
  (n + length encs < f)%nat ->
  fields_loop f (s ++ concat encs) cur acc =
  frev (fflush (fst (fst_loop n s cur acc)) (snd (fst_loop n s cur acc))).
Proof.
  intros Henc. assert (Hnc : nc_head (concat encs)) by (apply stail_nc; exists encs; auto).
  induction n as [|n IH]; intros s cur acc f Hl Hf.
  - destruct s; [|cbn in Hl; lia]. cbn [app fst_loop fst snd]. apply fields_spaces; [exact Henc|lia].
  - destruct s as [|b t]; [cbn [app fst_loop fst snd]; apply fields_spaces; [exact Henc|lia]|].
    destruct f as [|f]; [lia|]. cbn [app]. rewrite fields_loop_step, fst_loop_step.
    change (b :: t ++ concat encs) with ((b :: t) ++ concat encs).
    rewrite (decode_ctx (b :: t) _ (cne2 _ _) Hnc).
    destruct (Utf8.decode (b :: t)) as [r w] eqn:Hd. pose proof (decode_width _ _ _ (cne2 _ _) Hd) as Hw.
    rewrite skipn_app, firstn_app. replace (w - length (b :: t))%nat with O by lia. cbn [skipn firstn]. rewrite app_nil_r.
    destruct (unicode_IsSpace r); apply IH; try (rewrite skipn_length; cbn [length] in *; lia); lia.
Qed.

Theorem fields_tail y tl : stail tl -> fields (y ++ tl) = fields y.
Proof.
  intros (encs & Henc & ->). unfold fields.
  rewrite (fields_loop_tail encs Henc (length y) y [] [] _ (le_n _)).
  - rewrite (fields_loop_end (length y) y [] [] (le_n _)). reflexivity.
  - rewrite app_length. pose proof (concat_len encs Henc). lia.
Qed.

(* ---------------------------------------------------------------- strings.TrimSpace *)

Lemma trim_left_spaces : forall encs f, Forall senc encs -> (length encs <= f)%nat -> trim_left f (concat encs) = [].
Proof.
  induction encs as [|enc encs IH]; intros f H Hf; [destruct f; reflexivity|].
  inversion H as [|? ? He Hes]; subst. destruct f as [|f]; [cbn in Hf; lia|]. cbn [concat].
  destruct (senc_complete enc He) as (_ & Hc). pose proof He as (Hne & r & Hd & Hsp).
  destruct (enc ++ concat encs) as [|z zs] eqn:Ez; [reflexivity|]. rewrite trim_left_step. rewrite <- Ez.
  rewrite Hc, Hd, Hsp. rewrite skipn_app, skipn_all, Nat.sub_diag. cbn [skipn app].
  apply IH; [exact Hes|cbn [length] in Hf; lia].
Qed.

Lemma trim_left_tail encs : Forall senc encs -> forall n s f, (length s <= n)%nat -> (n + length encs <= f)%nat ->
  trim_left f (s ++ concat encs) = if snil (trim_left n s) then [] else trim_left n s ++ concat encs.
Proof.
  intros Henc. assert (Hnc : nc_head (concat encs)) by (apply stail_nc; exists encs; auto).
  induction n as [|n IH]; intros s f Hl Hf.
  - destruct s; [|cbn in Hl; lia]. cbn [app trim_left snil]. apply trim_left_spaces; [exact Henc|lia].
  - destruct s as [|b t]; [cbn [app trim_left snil]; apply trim_left_spaces; [exact Henc|lia]|].
    destruct f as [|f]; [lia|]. cbn [app]. rewrite !trim_left_step.
    change (b :: t ++ concat encs) with ((b :: t) ++ concat encs).
    rewrite (decode_ctx (b :: t) _ (cne2 _ _) Hnc).
    destruct (Utf8.decode (b :: t)) as [r w] eqn:Hd. pose proof (decode_width _ _ _ (cne2 _ _) Hd) as Hw.
    destruct (unicode_IsSpace r); [|reflexivity].
    rewrite skipn_app. replace (w - length (b :: t))%nat with O by lia. cbn [skipn].
    apply IH; [rewrite skipn_length; cbn [length] in *; lia|lia].
Qed.

(* the right trim does not depend on its fuel *)
Lemma trim_right_fuel : forall f rs, (length rs <= f)%nat -> trim_right_rev f rs = trim_right_rev (length rs) rs.
Proof.
  induction f as [f IH] using lt_wf_ind. intros rs Hf.
  destruct rs as [|b rs']; [destruct f; reflexivity|]. destruct f as [|f]; [cbn in Hf; lia|]. cbn [length trim_right_rev].
  destruct (last_space_width (b :: rs')) as [|k] eqn:Ek; [reflexivity|].
  destruct (last_space_width_spec _ _ Ek ltac:(discriminate)) as (enc & r & Ers & Hl & _).
  assert (Hlen : (length (skipn (S k) (b :: rs')) <= length rs')%nat) by (rewrite skipn_length; cbn [length]; lia).
  cbn [length] in Hf. set (rs2 := skipn (S k) (b :: rs')) in *.
  rewrite (IH f ltac:(lia) rs2 ltac:(lia)).
  rewrite (IH (length rs') ltac:(lia) rs2 Hlen). reflexivity.
Qed.

Lemma trim_right_tail : forall encs x f, Forall senc encs -> (length (x ++ concat encs) <= f)%nat ->
  trim_right_rev f (rev (x ++ concat encs)) = trim_right_rev (length x) (rev x).
Proof.
  induction encs as [|enc encs IH] using rev_ind; intros x f H Hf.
  - cbn [concat] in *. rewrite app_nil_r in *. rewrite trim_right_fuel by (rewrite rev_length; exact Hf). rewrite rev_length. reflexivity.
  - apply Forall_app in H as (Hes & He). apply Forall_inv in He.
    rewrite concat_app in *. cbn [concat] in *. rewrite app_nil_r in *. rewrite app_assoc in *.
    pose proof (lsw_senc (x ++ concat encs) enc He) as Hw. pose proof (senc_len enc He) as Hl.
    destruct f as [|f]; [rewrite app_length in Hf; lia|]. cbn [trim_right_rev]. rewrite Hw.
    destruct (length enc) as [|k] eqn:Ek; [lia|].
    rewrite rev_app_distr, skipn_app. rewrite (skipn_all2 (rev enc)) by (rewrite rev_length; lia).
    rewrite rev_length, Ek, Nat.sub_diag. cbn [skipn app].
    apply IH; [exact Hes|]. rewrite app_length in Hf. lia.
Qed.

Theorem trim_space_tail y tl : stail tl -> trim_space (y ++ tl) = trim_space y.
Proof.
  intros (encs & Henc & ->). unfold trim_space. cbv zeta.
  rewrite (trim_left_tail encs Henc (length y) y _ (le_n _)) by (rewrite app_length; pose proof (concat_len encs Henc); lia).
  destruct (trim_left (length y) y) as [|b l] eqn:El.
  - reflexivity.
  - cbn [snil]. rewrite !frev_rev. rewrite trim_right_tail by (exact Henc || lia). reflexivity.
Qed.

(* ---------------------------------------------------------------- the two facts about comments *)

Theorem trim_skip2 c : comment_text c -> trim_space (skipn 2 (trim_space c)) = trim_space (skipn 2 c).
Proof.
  intros (Hss & _). apply has_prefix_true in Hss as (body & ->). cbn [app].
  destruct (trim_space_comment2 body) as (y & tl & E1 & E2 & Hst). rewrite E1. cbn [skipn]. rewrite E2.
  symmetry. apply trim_space_tail. exact Hst.
Qed.

Theorem fields_skip2 c : comment_text c -> fields (skipn 2 (trim_space c)) = fields (skipn 2 c).
Proof.
  intros (Hss & _). apply has_prefix_true in Hss as (body & ->). cbn [app].
  destruct (trim_space_comment2 body) as (y & tl & E1 & E2 & Hst). rewrite E1. cbn [skipn]. rewrite E2.
  symmetry. apply fields_tail. exact Hst.
Qed.
