(* Wire dispatcher of the go.mod / go.work syntax and directive models.
     Syntax     S data      ok [tree; format tree] | errs [[pos; class]..] | panic | fuel
   Tree encoding (the Go harness produces the same from *FileSyntax):
     pos       L[I line; I col; I byte]
     comment   L[pos; S token; I suffix]
     comments  L[L before; L suffix; L after]
     line      L[S"line"; comments; start; L tokens; I inblock; end]
     block     L[S"block"; comments; start; L[comments; pos] (lparen); L tokens; L lines; L[comments; pos] (rparen)]
     cblock    L[S"cblock"; comments; start]
     file      L[comments; L stmts] *)
From Verif.Base Require Import Bytes Wire.
From Verif.Modfile Require Import Syntax Lex Parse Print.

Definition enc_pos (p : position) : val := VL [VI (p_line p); VI (p_col p); VI (p_byte p)].
Definition enc_comment (c : comment) : val := VL [enc_pos (c_start c); VS (c_token c); VB (c_suffix c)].
Definition enc_comments (c : comments) : val :=
  VL [VL (map enc_comment (cm_before c)); VL (map enc_comment (cm_suffix c)); VL (map enc_comment (cm_after c))].
Definition enc_line (l : line) : val :=
  VL [VS (B "line"); enc_comments (l_comments l); enc_pos (l_start l); VL (map VS (l_token l));
      VB (l_inblock l); enc_pos (l_end l)].
Definition enc_paren (p : paren) : val := VL [enc_comments (pr_comments p); enc_pos (pr_pos p)].
Definition enc_expr (x : expr) : val :=
  match x with
  | ELine l => enc_line l
  | EBlock b => VL [VS (B "block"); enc_comments (b_comments b); enc_pos (b_start b); enc_paren (b_lparen b);
                    VL (map VS (b_token b)); VL (map enc_line (b_line b)); enc_paren (b_rparen b)]
  | ECommentBlock c => VL [VS (B "cblock"); enc_comments (cb_comments c); enc_pos (cb_start c)]
  end.
Definition enc_file (f : file_syntax) : val := VL [enc_comments (f_comments f); VL (map enc_expr (f_stmt f))].

Definition enc_errs (l : list (position * err_class)) : val :=
  VL [VS (B "errs"); VL (map (fun pe => VL [enc_pos (fst pe); VI (err_code (snd pe))]) l)].

Definition VFuel : val := VL [VS (B "fuel")].

Definition run_syntax (data : str) : val :=
  match parse data with
  | POk s => VOk (VL [enc_file s; VS (format s)])
  | PErrs l => enc_errs l
  | PPanic => VPanic
  | POutOfFuel => VFuel
  end.

Definition dispatch_syntax (f : str) (a : val) : option val :=
  if str_eqb f (B "Syntax") then
    Some (match a with VS data => run_syntax data | _ => VBadCase end)
  else None.

Definition dispatch (f : str) (a : val) : val :=
  match dispatch_syntax f a with
  | Some v => v
  | None => VBadCase
  end.
