(* Wire dispatcher of the go.mod / go.work syntax and directive models.
     Syntax     S data      ok [tree; format tree] | errs [[pos; class]..] | panic | fuel
   Tree encoding (the Go harness produces the same from *FileSyntax):
     pos       L[I line; I col; I byte]
     comment   L[pos; S token; I suffix]
     comments  L[L before; L suffix; L after]
     line      L[S"line"; comments; start; L tokens; I inblock; end]
     block     L[S"block"; comments; start; L[comments; pos] (lparen); L tokens; L lines; L[comments; pos] (rparen)]
     cblock    L[S"cblock"; comments; start]
     file      L[comments; L stmts]
     Parse / ParseLax / ParseWork   L[S data; I fixmode]   (fixmode 0: fix = nil, 1: [canon_fixer])
                ok file | derrs [pos..] | errs [[pos; class]..] | panic | fuel
     FormatParsed L[S data; I fixmode; I kind]  (kind 0 Parse, 1 ParseLax, 2 ParseWork)
                ok (S bytes of Format(f.Syntax)) | the error values above
     AutoQuote  S s         L[I MustQuote(s); S AutoQuote(s)]
     ModulePath S data      S path
   File encoding: see [enc_filed] / [enc_work]; a *Line pointer is L[I stmt; I (line+1 or 0)]. *)
From Verif.Base Require Import Bytes Wire.
From Verif.Semver Require Import Model.
From Verif.Modfile Require Import Syntax Lex Parse Print Directives ModulePath.

Definition enc_pos (p : position) : val := VL [VI (p_line p); VI (p_col p); VI (p_byte p)].
Definition enc_comment (c : comment) : val := VL [enc_pos (c_start c); VS (c_token c); VB (c_suffix c)].
Definition enc_comments (c : comments) : val :=
  VL [VL (map enc_comment (cm_before c)); VL (map enc_comment (cm_suffix c)); VL (map enc_comment (cm_after c))].
Definition enc_line (l : line) : val :=
  VL [VS (B "line"); enc_comments (l_comments l); enc_pos (l_start l); VL (map VS (l_token l));
      VB (l_inblock l); enc_pos (l_end l)].
Definition enc_paren (p : paren) : val := VL [enc_comments (pr_comments p); enc_pos (pr_pos p)].
Definition enc_expr (x : expr) : val :=
  match x with
  | ELine l => enc_line l
  | EBlock b => VL [VS (B "block"); enc_comments (b_comments b); enc_pos (b_start b); enc_paren (b_lparen b);
                    VL (map VS (b_token b)); VL (map enc_line (b_line b)); enc_paren (b_rparen b)]
  | ECommentBlock c => VL [VS (B "cblock"); enc_comments (cb_comments c); enc_pos (cb_start c)]
  end.
Definition enc_file (f : file_syntax) : val := VL [enc_comments (f_comments f); VL (map enc_expr (f_stmt f))].

Definition enc_errs (l : list (position * err_class)) : val :=
  VL [VS (B "errs"); VL (map (fun pe => VL [enc_pos (fst pe); VI (err_code (snd pe))]) l)].

Definition VFuel : val := VL [VS (B "fuel")].

Definition run_syntax (data : str) : val :=
  match parse data with
  | POk s => VOk (VL [enc_file s; VS (format s)])
  | PErrs l => enc_errs l
  | PPanic => VPanic
  | POutOfFuel => VFuel
  end.

Definition dispatch_syntax (f : str) (a : val) : option val :=
  if str_eqb f (B "Syntax") then
    Some (match a with VS data => run_syntax data | _ => VBadCase end)
  else None.


(* ---------------------------------------------------------------- directive layer *)

(* the deterministic fixer implemented on both sides: reject an empty path, otherwise
   canonicalise with semver.Canonical and reject invalid versions *)
Definition canon_fixer (path v : str) : option str :=
  if Parse.is_nil path then None
  else let c := canonical v in if Parse.is_nil c then None else Some c.

Definition fixer_of (mode : Z) : fixer := if mode =? 0 then None else Some canon_fixer.

Definition enc_ref (r : line_ref) : val :=
  VL [VI (Z.of_nat (fst r)); VI (match snd r with Some j => Z.of_nat j + 1 | None => 0 end)].
Definition enc_opt {A} (e : A -> val) (o : option A) : val :=
  match o with Some a => e a | None => VL [] end.
Definition enc_go (g : go_d) : val := VL [VS (go_version g); enc_ref (go_syntax g)].
Definition enc_toolchain (t : toolchain_d) : val := VL [VS (tc_name t); enc_ref (tc_syntax t)].
Definition enc_godebug (g : godebug_d) : val := VL [VS (gd_key g); VS (gd_value g); enc_ref (gd_syntax g)].
Definition enc_replace (r : replace_d) : val :=
  VL [VS (mv_path (rp_old r)); VS (mv_version (rp_old r)); VS (mv_path (rp_new r)); VS (mv_version (rp_new r));
      enc_ref (rp_syntax r)].

Definition enc_filed (f : file) : val :=
  VL [enc_opt (fun m => VL [VS (mv_path (md_mod m)); VS (mv_version (md_mod m)); VS (md_deprecated m); enc_ref (md_syntax m)])
              (fd_module f);
      enc_opt enc_go (fd_go f);
      enc_opt enc_toolchain (fd_toolchain f);
      VL (map enc_godebug (fd_godebug f));
      VL (map (fun r => VL [VS (mv_path (rq_mod r)); VS (mv_version (rq_mod r)); VB (rq_indirect r); enc_ref (rq_syntax r)])
              (fd_require f));
      VL (map (fun r => VL [VS (mv_path (ex_mod r)); VS (mv_version (ex_mod r)); enc_ref (ex_syntax r)]) (fd_exclude f));
      VL (map enc_replace (fd_replace f));
      VL (map (fun r => VL [VS (rt_low r); VS (rt_high r); VS (rt_rationale r); enc_ref (rt_syntax r)]) (fd_retract f));
      VL (map (fun t => VL [VS (tl_path t); enc_ref (tl_syntax t)]) (fd_tool f));
      enc_file (fd_syntax f)].

Definition enc_work (f : work_file) : val :=
  VL [enc_opt enc_go (wf_go f);
      enc_opt enc_toolchain (wf_toolchain f);
      VL (map enc_godebug (wf_godebug f));
      VL (map (fun u => VL [VS (us_path u); VS (us_module_path u); enc_ref (us_syntax u)]) (wf_use f));
      VL (map enc_replace (wf_replace f));
      enc_file (wf_syntax f)].

Definition enc_dresult {F} (e : F -> val) (r : dresult F) : val :=
  match r with
  | DOk f => VOk (e f)
  | DErrs l => VL [VS (B "derrs"); VL (map enc_pos l)]
  | DSyntax l => enc_errs l
  | DPanic => VPanic
  | DFuel => VFuel
  end.

Definition dispatch_directives (f : str) (a : val) : option val :=
  if str_eqb f (B "Parse") then
    Some (match a with VL [VS data; VI m] => enc_dresult enc_filed (parse_to_file true (fixer_of m) data) | _ => VBadCase end)
  else if str_eqb f (B "ParseLax") then
    Some (match a with VL [VS data; VI m] => enc_dresult enc_filed (parse_to_file false (fixer_of m) data) | _ => VBadCase end)
  else if str_eqb f (B "ParseWork") then
    Some (match a with VL [VS data; VI m] => enc_dresult enc_work (parse_work (fixer_of m) data) | _ => VBadCase end)
  else if str_eqb f (B "FormatParsed") then
    Some (match a with
          | VL [VS data; VI m; VI k] =>
              if k =? 2 then enc_dresult (fun w => VS (format (wf_syntax w))) (parse_work (fixer_of m) data)
              else enc_dresult (fun x => VS (format (fd_syntax x))) (parse_to_file (k =? 0) (fixer_of m) data)
          | _ => VBadCase
          end)
  else if str_eqb f (B "AutoQuote") then
    Some (match a with VS t => VL [VB (must_quote t); VS (auto_quote t)] | _ => VBadCase end)
  else if str_eqb f (B "ModulePath") then
    Some (match a with VS data => VS (module_path data) | _ => VBadCase end)
  else None.

Definition dispatch (f : str) (a : val) : val :=
  match dispatch_syntax f a with
  | Some v => v
  | None => match dispatch_directives f a with
            | Some v => v
            | None => VBadCase
            end
  end.
