(* Reparse, part 9: typed_equals_reparse for go.mod, at the level of one state of the edit
   model: if the file is coherent (C15), its tree is printable and its typed entries are
   valid items, then Format of its tree is accepted by the strict parser and the directives
   read back are, as multisets, the typed lists [abs f]. *)
From Coq Require Import Permutation.
From Verif.Base Require Import Bytes.
From Verif.Modfile Require Import Syntax Lex Parse Print Directives RoundRows RoundTree RoundDir1 RoundDir3 RoundDir5
  Reparse1 Reparse2 Reparse3 Reparse4 Reparse5 Reparse6 Reparse7 Reparse8 EditModel EditOps EditSpec.

(* ---------------------------------------------------------------- tokens, InBlock flags *)

Lemma expr_items_toks h st its : expr_items (to_expr h st) its -> stmt_toks_ok h st.
Proof.
  destruct st as [i|b|c]; cbn [to_expr stmt_toks_ok]; [| |auto].
  - intros H. inversion H as [l verb args it Ht (Hr & _)| |]; subst. cbn [to_line l_token] in Ht.
    destruct (renders_toks verb args it Hr) as (Tv & Ta & _). rewrite Ht. split.
    + exists verb, args. split; [reflexivity|]. apply (scan_nolp args [verb]). apply good_nolp. exact Ta.
    + apply good_ltext. constructor; assumption.
  - fold (to_block h b). intros H. inversion H as [|b' verb its' Ht Hk H2|]; subst. cbn [to_block b_token b_line] in *.
    rewrite Ht. split; [|split].
    + apply good_ltext. constructor; [apply known_verb_tok; left; exact Hk|constructor].
    + apply hdr_one.
    + clear H. revert its H2. induction (hb_lines b) as [|i ls IH]; intros its H2; cbn [map] in *; [constructor|].
      inversion H2 as [|? it ? its' (Hr & _) Hrest]; subst. constructor; [|eapply IH; exact Hrest].
      cbn [to_line l_token] in Hr. destruct (renders_toks verb _ it Hr) as (_ & Ta & Hn).
      split; [|apply good_ltext; exact Ta].
      destruct (hl_tok (hget h i)) as [|t0 more]; [congruence|]. exists t0, more. split; [reflexivity|].
      exact (proj2 (proj2 (Forall_inv Ta))).
Qed.

Lemma Forall2_toks h : forall sts itss, Forall2 expr_items (map (to_expr h) sts) itss -> Forall (stmt_toks_ok h) sts.
Proof.
  induction sts as [|st sts IH]; intros itss H; [constructor|]. cbn [map] in H.
  inversion H; subst. constructor; [eapply expr_items_toks; eassumption|eapply IH; eassumption].
Qed.

Lemma placed_inb s : Forall (line_placed s) (tree_lines s) -> Forall (inb_ok (heap s)) (stmts s).
Proof.
  rewrite tree_lines_stmt. induction (stmts s) as [|st sts IH]; intros H; [constructor|].
  cbn [flat_map] in H. apply Forall_app in H as (H1 & H2). constructor; [|apply IH; exact H2].
  destruct st as [i|b|c]; cbn [stmt_lines inb_ok] in *; [| |exact I].
  - apply Forall_inv in H1. destruct H1 as (_ & A & _). exact A.
  - rewrite Forall_map in H1. eapply Forall_impl; [|exact H1]. intros i (_ & A & _). exact A.
Qed.

(* ---------------------------------------------------------------- the hypotheses on the tree *)

(* [known]: the block verbs of the file kind (known_mod_block / known_work_block) *)
Record Printable (known : str -> bool) (s : syntax) : Prop := {
  pr_coms : ComsOk s;
  pr_ready : Forall (stmt_ready s known) (stmts s)
}.

(* singles *)
Lemma length_le1_opt {A} (o : option A) : (length (opt_list o) <= 1)%nat.
Proof. destruct o; cbn; lia. Qed.

Lemma singles_of f its : LiveSyn f -> Permutation (map untext its) (map untext (map snd (typed_items f))) -> singles its.
Proof.
  intros Hl Hp.
  assert (H : forall {B} (g : item -> list B), (forall it, g (untext it) = g it) ->
                length (flat_map g its) = length (flat_map g (map snd (typed_items f)))).
  { intros B g Hg. rewrite <- (flat_map_untext g its Hg), <- (flat_map_untext g (map snd (typed_items f)) Hg).
    apply Permutation_length. apply Permutation_flat_map. exact Hp. }
  assert (Hm : length (flat_map it_module its) = length (flat_map it_modp its))
    by (rewrite <- modp_of_module, map_length; reflexivity).
  unfold singles. rewrite Hm.
  rewrite (H _ it_modp), (H _ it_go), (H _ it_tc) by (intros []; reflexivity).
  rewrite (typed_modp f Hl), (typed_go f Hl), (typed_tc f Hl). repeat split; apply length_le1_opt.
Qed.

(* ---------------------------------------------------------------- the composition *)

Lemma tree_view_stmt s : tree_view s = flat_map (line_view s) (flat_map stmt_lines (stmts s)).
Proof. reflexivity. Qed.

Lemma reparse_core name f :
  Coherent f -> Printable known_mod_block (fsyn f) -> tis_ok (typed_items f) ->
  exists f' tis,
    parse_to_file true None (format (to_syntax name (fsyn f))) = DOk f' /\
    vals f' = vals_of (zip_items (fsyn f) (tree_ctx (fsyn f)) tis) /\
    Permutation (typed_items f) tis /\ map fst tis = map fst (tree_ctx (fsyn f)).
Proof.
  intros [Hsyn Hent Hviews] [Hcoms Hready] Hok. set (s := fsyn f) in *.
  rewrite typed_view_items in Hviews. apply Permutation_map_inv in Hviews as (tis & Etv & Hperm).
  assert (Hok' : tis_ok tis) by (unfold tis_ok; rewrite <- Hperm; exact Hok).
  rewrite tree_view_stmt in Etv.
  destruct (walk s (stmts s) tis Hready Etv Hok') as (itss & A & B & C).
  assert (Hlen : length (tree_ctx s) = length tis).
  { apply (f_equal (@length lid)) in C. rewrite !map_length in C. symmetry. exact C. }
  assert (Hsing : singles (concat itss)).
  { apply (singles_of f _ (entries_live f Hent)). rewrite B. fold (tree_ctx s). rewrite (untext_zip s _ _ Hlen).
    apply Permutation_map, Permutation_map. symmetry. exact Hperm. }
  pose proof (Forall2_toks (heap s) (stmts s) itss A) as Htoks.
  pose proof (placed_inb s (so_placed s Hsyn)) as Hinb.
  destruct (lean_ok s Hcoms Htoks) as (Hlok & Hlsi).
  pose proof (zfile_to_syntax name s Hcoms Hinb) as Hz.
  destruct (items_reparse (to_syntax name s) (lean s) itss) as (f' & Hp & Hv); auto.
  - apply (f_equal f_stmt) in Hz. exact Hz.
  - apply (f_equal f_comments) in Hz. exact Hz.
  - exists f', tis. split; [exact Hp|]. split; [rewrite Hv, B; reflexivity|]. split; [exact Hperm|exact C].
Qed.

Lemma perm_opt {A} (l : list A) o : Permutation l (opt_list o) -> l = opt_list o.
Proof.
  destruct o as [a|]; cbn; intros H.
  - symmetry in H. apply Permutation_length_1_inv in H. exact H.
  - symmetry in H. apply Permutation_nil in H. exact H.
Qed.

Lemma hd_error_map {A B} (g : A -> B) l : hd_error (map g l) = option_map g (hd_error l).
Proof. destruct l; reflexivity. Qed.

Lemma hd_opt_list {A} (o : option A) : hd_error (opt_list o) = o.
Proof. destruct o; reflexivity. Qed.

(* the projections of the tree items that do not see the texts are those of the typed items *)
Lemma proj_perm {B} (g : item -> list B) f s ctxs tis :
  (forall it, g (untext it) = g it) -> length ctxs = length tis -> Permutation (typed_items f) tis ->
  Permutation (flat_map g (zip_items s ctxs tis)) (flat_map g (map snd (typed_items f))).
Proof.
  intros Hg Hlen Hperm. rewrite <- (flat_map_untext g _ Hg), (untext_zip s _ _ Hlen), (flat_map_untext g _ Hg).
  apply Permutation_flat_map, Permutation_map. symmetry. exact Hperm.
Qed.

(* typed_equals_reparse, go.mod, one state; the text values (Deprecated, Rationale) aside *)
Theorem typed_equals_reparse_mod name f :
  Coherent f -> Printable known_mod_block (fsyn f) -> tis_ok (typed_items f) ->
  exists f', parse_to_file true None (format (to_syntax name (fsyn f))) = DOk f' /\
    option_map (fun m => mv_path (md_mod m)) (fd_module f') = k_module (abs f) /\
    option_map go_version (fd_go f') = k_go (abs f) /\
    option_map tc_name (fd_toolchain f') = k_toolchain (abs f) /\
    Permutation (map (fun g => (Directives.gd_key g, gd_value g)) (fd_godebug f')) (k_godebug (abs f)) /\
    Permutation (map (fun r => (mv_path (rq_mod r), mv_version (rq_mod r), rq_indirect r)) (fd_require f')) (k_require (abs f)) /\
    Permutation (map (fun r => (mv_path (ex_mod r), mv_version (ex_mod r))) (fd_exclude f')) (k_exclude (abs f)) /\
    Permutation (map RoundDir2.rep_vals (fd_replace f')) (k_replace (abs f)) /\
    Permutation (map (fun r => (rt_low r, rt_high r)) (fd_retract f'))
                (map (fun x => (fst (fst x), snd (fst x))) (k_retract (abs f))) /\
    Permutation (map Directives.tl_path (fd_tool f')) (k_tool (abs f)).
Proof.
  intros Hc Hp Hok. destruct (reparse_core name f Hc Hp Hok) as (f' & tis & Hparse & Hv & Hperm & Hfst).
  exists f'. split; [exact Hparse|].
  pose proof (entries_live f (co_entries f Hc)) as Hl.
  assert (Hlen : length (tree_ctx (fsyn f)) = length tis).
  { apply (f_equal (@length lid)) in Hfst. rewrite !map_length in Hfst. symmetry. exact Hfst. }
  set (its := zip_items (fsyn f) (tree_ctx (fsyn f)) tis) in *.
  assert (P : forall {B} (g : item -> list B), (forall it, g (untext it) = g it) ->
                Permutation (flat_map g its) (flat_map g (map snd (typed_items f)))).
  { intros B g Hg. apply proj_perm; assumption. }
  unfold vals, vals_of in Hv. injection Hv as V1 V2 V3 V4 V5 V6 V7 V8 V9.
  split; [|split; [|split; [|split; [|split; [|split; [|split; [|split]]]]]]].
  - pose proof (P _ it_modp ltac:(intros []; reflexivity)) as H. rewrite (typed_modp f Hl) in H. apply perm_opt in H.
    apply (f_equal (option_map (fun x : str * str * str => fst (fst x)))) in V1.
    rewrite <- hd_error_map, modp_of_module, H, hd_opt_list in V1. rewrite <- V1. destruct (fd_module f'); reflexivity.
  - pose proof (P _ it_go ltac:(intros []; reflexivity)) as H. rewrite (typed_go f Hl) in H. apply perm_opt in H.
    rewrite V2, H. apply hd_opt_list.
  - pose proof (P _ it_tc ltac:(intros []; reflexivity)) as H. rewrite (typed_tc f Hl) in H. apply perm_opt in H.
    rewrite V3, H. apply hd_opt_list.
  - rewrite V4, <- (typed_godebug f Hl). apply P. intros []; reflexivity.
  - rewrite V5, <- (typed_require f Hl). apply P. intros []; reflexivity.
  - rewrite V6, <- (typed_exclude f Hl). apply P. intros []; reflexivity.
  - rewrite V7, <- (typed_replace f Hl). apply P. intros []; reflexivity.
  - rewrite <- (typed_retr f Hl).
    replace (map (fun r => (rt_low r, rt_high r)) (fd_retract f')) with (flat_map it_retr its).
    + apply P. intros []; reflexivity.
    + rewrite <- retr_of_retract, <- V8, map_map. reflexivity.
  - rewrite V9, <- (typed_tool f Hl). apply P. intros []; reflexivity.
Qed.
