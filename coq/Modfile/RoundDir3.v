(* Round trip, part 12d: File.add and WorkFile.add on the tokens they wrote back: the same
   values, no error, the tokens unchanged ([add_sim], [add_work_sim]). *)
From Verif.Base Require Import Bytes Utf8 Strconv QuoteProofs.
From Verif.Semver Require Import Spec Model.
From Verif.Module Require Import Path.
From Verif.Modfile Require Import Syntax Lex Parse Print Directives ProofsLex RoundRows
  RoundLexPure4 RoundTree RoundQuote RoundSemver RoundDir1 RoundDir2.

(* the values of a File, without the Syntax pointers *)
Definition vals (f : file) :=
  (option_map (fun m => (mv_path (md_mod m), mv_version (md_mod m), md_deprecated m)) (fd_module f),
   option_map go_version (fd_go f),
   option_map tc_name (fd_toolchain f),
   map (fun g => (gd_key g, gd_value g)) (fd_godebug f),
   map (fun r => (mv_path (rq_mod r), mv_version (rq_mod r), rq_indirect r)) (fd_require f),
   map (fun r => (mv_path (ex_mod r), mv_version (ex_mod r))) (fd_exclude f),
   map rep_vals (fd_replace f),
   map (fun r => (rt_low r, rt_high r, rt_rationale r)) (fd_retract f),
   map tl_path (fd_tool f)).

(* the well-formedness the property demands of the values *)
Definition wf_file (f : file) : Prop :=
  match fd_module f with Some m => path_ok (mv_path (md_mod m)) | None => True end /\
  Forall (fun r => path_ok (mv_path (rq_mod r)) /\ is_valid (mv_version (rq_mod r)) = true) (fd_require f) /\
  Forall (fun r => path_ok (mv_path (ex_mod r)) /\ is_valid (mv_version (ex_mod r)) = true) (fd_exclude f) /\
  Forall wf_rep (fd_replace f) /\
  Forall (fun r => is_valid (rt_low r) = true /\ is_valid (rt_high r) = true) (fd_retract f) /\
  Forall (fun t => path_ok (tl_path t)) (fd_tool f).

(* what File.add reads from the comments of a line *)
Definition ctx_eq (blk1 : option line_block) (l1 : line) (blk2 : option line_block) (l2 : line) : Prop :=
  is_indirect l1 = is_indirect l2 /\ directive_comment blk1 l1 = directive_comment blk2 l2.

Lemma Forall_last {A} (P : A -> Prop) l x : Forall P (l ++ [x]) -> P x.
Proof. intros H. apply Forall_app in H as (_ & H). exact (Forall_inv H). Qed.

Lemma opt_none_iff {A B} (g : A -> B) (a b : option A) : option_map g a = option_map g b -> (a = None <-> b = None).
Proof. destruct a, b; cbn; intros H; split; congruence. Qed.

Ltac split_vals Hv :=
  unfold vals in Hv;
  let H1 := fresh "Vmod" in let H2 := fresh "Vgo" in let H3 := fresh "Vtc" in let H4 := fresh "Vgd" in
  let H5 := fresh "Vrq" in let H6 := fresh "Vex" in let H7 := fresh "Vrp" in let H8 := fresh "Vrt" in let H9 := fresh "Vtl" in
  injection Hv as H1 H2 H3 H4 H5 H6 H7 H8 H9.

Ltac vals_goal :=
  unfold vals;
  cbn [with_module with_go with_toolchain with_godebug with_require with_exclude with_replace with_retract with_tool
       fd_module fd_go fd_toolchain fd_godebug fd_require fd_exclude fd_replace fd_retract fd_tool
       option_map md_mod md_deprecated mv_path mv_version go_version tc_name];
  rewrite ?map_app; cbn [map gd_key gd_value rq_mod rq_indirect ex_mod rt_low rt_high rt_rationale tl_path mv_path mv_version];
  repeat match goal with H : _ = _ |- _ => rewrite H; clear H end; reflexivity.

Section Add.
Variable fx : fixer.
Hypothesis Hfx : fixer_ok fx.

Lemma add_sim f1 f2 blk1 blk2 l1 l2 ref1 ref2 verb args :
  st_err (add true fx f1 blk1 l1 ref1 verb args) = false ->
  vals f1 = vals f2 -> ctx_eq blk1 l1 blk2 l2 ->
  wf_file (st_file (add true fx f1 blk1 l1 ref1 verb args)) ->
  let args' := st_args (add true fx f1 blk1 l1 ref1 verb args) in
  st_err (add true fx f2 blk2 l2 ref2 verb args') = false /\
  st_args (add true fx f2 blk2 l2 ref2 verb args') = args' /\
  vals (st_file (add true fx f2 blk2 l2 ref2 verb args')) = vals (st_file (add true fx f1 blk1 l1 ref1 verb args)) /\
  Forall2 tsub args args'.
Proof.
  destruct Hfx as (Hi & Hnp). intros He Hv (Cind & Cdc) Hwf. cbv zeta.
  pose proof Hv as Hv'. split_vals Hv'.
  unfold add in *. cbn [negb andb] in *.
  destruct (is_verb verb "go") eqn:Vg.
  { (* go *)
    unfold add_go in *. pose proof (opt_none_iff _ _ _ Vgo) as Hpres.
    destruct (fd_go f1) as [g1|] eqn:Eg1; [discriminate|]. destruct (fd_go f2) as [g2|] eqn:Eg2; [destruct Hpres as (Hp & _); discriminate (Hp eq_refl)|].
    destruct args as [|a [|a' r]]; try discriminate.
    destruct (go_version_re a) eqn:Er; cbn [negb] in *; [|discriminate].
    cbn [ok_step st_err st_args st_file]. rewrite Er. cbn [ok_step st_err st_args st_file].
    split; [reflexivity|]. split; [reflexivity|]. split; [vals_goal|apply tsub_all_refl]. }
  destruct (is_verb verb "toolchain") eqn:Vt.
  { unfold add_toolchain in *. pose proof (opt_none_iff _ _ _ Vtc) as Hpres.
    destruct (fd_toolchain f1) as [g1|] eqn:Eg1; [discriminate|]. destruct (fd_toolchain f2) as [g2|] eqn:Eg2; [destruct Hpres as (Hp & _); discriminate (Hp eq_refl)|].
    destruct args as [|a [|a' r]]; try discriminate.
    destruct (toolchain_re a) eqn:Er; [|discriminate].
    cbn [ok_step st_err st_args st_file]. rewrite Er. cbn [ok_step st_err st_args st_file].
    split; [reflexivity|]. split; [reflexivity|]. split; [vals_goal|apply tsub_all_refl]. }
  destruct (is_verb verb "module") eqn:Vm.
  { pose proof (opt_none_iff _ _ _ Vmod) as Hpres.
    destruct (fd_module f1) as [g1|] eqn:Eg1; [discriminate|]. destruct (fd_module f2) as [g2|] eqn:Eg2; [destruct Hpres as (Hp & _); discriminate (Hp eq_refl)|].
    destruct args as [|a [|a' r]]; try discriminate.
    destruct (parse_string a) as [[s tok]|] eqn:Ep; [|discriminate].
    cbn [ok_step st_err st_args st_file] in *.
    destruct Hwf as (Hm & _). cbn [with_module fd_module md_mod mv_path] in Hm.
    destruct (parse_string_fix _ _ _ Ep Hm) as (R & _). rewrite R. cbn [ok_step st_err st_args st_file].
    split; [reflexivity|]. split; [reflexivity|]. split.
    - unfold parse_deprecation. rewrite Cdc. vals_goal.
    - constructor; [eapply tsub_string; eauto|constructor]. }
  destruct (is_verb verb "godebug") eqn:Vd.
  { unfold add_godebug in *.
    destruct args as [|a [|a' r]]; try discriminate.
    destruct (contains_any a [34; 96; 39; 44]) eqn:Ec; [discriminate|].
    destruct (cut_eq a) as [[k v]|] eqn:Eq; [|discriminate].
    cbn [ok_step st_err st_args st_file]. rewrite Ec, Eq. cbn [ok_step st_err st_args st_file].
    split; [reflexivity|]. split; [reflexivity|]. split; [vals_goal|apply tsub_all_refl]. }
  destruct (is_verb verb "require" || is_verb verb "exclude") eqn:Vr.
  { destruct args as [|a0 [|a1 [|a2 r]]]; try discriminate.
    destruct (parse_string a0) as [[s tok0]|] eqn:Ep0; [|discriminate].
    destruct (parse_version fx s a1) as [tok1 v] eqn:Ev. destruct v as [v|]; [|discriminate].
    destruct (module_path_major s) as [pm|] eqn:Epm; [|discriminate].
    destruct (negb (check_path_major v pm)) eqn:Ecp; [discriminate|].
    assert (Hsv : path_ok s /\ is_valid v = true).
    { destruct (is_verb verb "require"); cbn [ok_step st_file] in Hwf; destruct Hwf as (_ & Hrq & Hex & _);
        cbn [with_require with_exclude fd_require fd_exclude] in *; [apply Forall_last in Hrq; exact Hrq|apply Forall_last in Hex; exact Hex]. }
    destruct Hsv as (Hs & Hvv).
    pose proof (parse_version_some _ _ _ _ _ Ev) as ->.
    destruct (parse_string_fix _ _ _ Ep0 Hs) as (R0 & _). destruct (parse_version_fix _ _ _ _ _ Ev Hvv Hi) as (R1 & _).
    assert (Hargs : st_args (if is_verb verb "require"
                             then ok_step (with_require f1 (fd_require f1 ++ [mkRequireD (mkMV s v) (is_indirect l1) ref1])) [tok0; v]
                             else ok_step (with_exclude f1 (fd_exclude f1 ++ [mkExcludeD (mkMV s v) ref1])) [tok0; v]) = [tok0; v])
      by (destruct (is_verb verb "require"); reflexivity).
    rewrite Hargs. rewrite R0, R1, Epm, Ecp.
    destruct (is_verb verb "require"); cbn [ok_step st_err st_args st_file];
      (split; [reflexivity|]; split; [reflexivity|]; split;
        [try rewrite Cind; vals_goal|constructor; [eapply tsub_string; eauto|constructor; [eapply tsub_version; eauto; split; assumption|constructor]]]). }
  destruct (is_verb verb "replace") eqn:Vp.
  { destruct (parse_replace fx verb ref1 args) as [args1 r1] eqn:Epr. destruct r1 as [r1|]; [|discriminate].
    cbn [ok_step st_err st_args st_file] in *.
    assert (Hw : wf_rep r1).
    { destruct Hwf as (_ & _ & _ & Hrp & _). cbn [with_replace fd_replace] in Hrp. apply Forall_last in Hrp. exact Hrp. }
    destruct (pr_fix fx verb ref1 ref2 args args1 r1 Epr Hw (conj Hi Hnp)) as (r2 & E2 & Er & Hts).
    rewrite E2. cbn [ok_step st_err st_args st_file].
    split; [reflexivity|]. split; [reflexivity|]. split; [|exact Hts].
    unfold vals. cbn [with_replace fd_module fd_go fd_toolchain fd_godebug fd_require fd_exclude fd_replace fd_retract fd_tool].
    rewrite !map_app. cbn [map]. rewrite Er, Vmod, Vgo, Vtc, Vgd, Vrq, Vex, Vrp, Vrt, Vtl. reflexivity. }
  destruct (is_verb verb "retract") eqn:Vrt'.
  { destruct (parse_version_interval dont_fix [] args) as [args1 res] eqn:Epi.
    destruct res as [[[lo hi] rest]|]; [|discriminate].
    destruct (negb (Parse.is_nil rest) && true) eqn:Erest; [discriminate|].
    cbn [ok_step st_err st_args st_file] in *.
    assert (Hw : is_valid lo = true /\ is_valid hi = true).
    { destruct Hwf as (_ & _ & _ & _ & Hrt & _). cbn [with_retract fd_retract] in Hrt. apply Forall_last in Hrt. exact Hrt. }
    destruct Hw as (Hlo & Hhi).
    destruct (pvi_fix dont_fix [] args args1 lo hi rest Epi Hlo Hhi dont_fix_idem (vers_noparen_df [])) as (R & Hts).
    rewrite R, Erest. cbn [ok_step st_err st_args st_file].
    split; [reflexivity|]. split; [reflexivity|]. split; [rewrite Cdc; vals_goal|exact Hts]. }
  destruct (is_verb verb "tool") eqn:Vtl'.
  { destruct args as [|a [|a' r]]; try discriminate.
    destruct (parse_string a) as [[s tok]|] eqn:Ep; [|discriminate].
    cbn [ok_step st_err st_args st_file] in *.
    assert (Hs : path_ok s).
    { destruct Hwf as (_ & _ & _ & _ & _ & Htl). cbn [with_tool fd_tool] in Htl. apply Forall_last in Htl. exact Htl. }
    destruct (parse_string_fix _ _ _ Ep Hs) as (R & _). rewrite R. cbn [ok_step st_err st_args st_file].
    split; [reflexivity|]. split; [reflexivity|]. split; [vals_goal|constructor; [eapply tsub_string; eauto|constructor]]. }
  discriminate.
Qed.
End Add.
