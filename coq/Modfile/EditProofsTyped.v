(* Proofs about the typed lists of the edit model (no heap reasoning):
   placeholders are gone after Cleanup; every operation refines the keyed model. *)
From Coq Require Import Permutation.
From Verif.Base Require Import Bytes.
From Verif.Modfile Require Import EditModel EditOps EditSpec.

Lemma nonempty_true (s : str) : nonempty s = true <-> s <> [].
Proof. destruct s; cbn; split; intros; congruence. Qed.

Lemma Forall_filter {A} (p : A -> bool) (l : list A) : Forall (fun x => p x = true) (filter p l).
Proof. apply Forall_forall. intros x Hx. apply filter_In in Hx. tauto. Qed.

(* ---------------------------------------------------------------- C15: no placeholders *)

Definition no_placeholders (f : file) : Prop :=
  Forall (fun g => gd_key g <> []) (f_godebug f) /\
  Forall (fun r => rq_path r <> []) (f_require f) /\
  Forall (fun x => ex_path x <> []) (f_exclude f) /\
  Forall (fun r => rp_op r <> []) (f_replace f) /\
  Forall (fun r => rt_lo r <> [] \/ rt_hi r <> []) (f_retract f) /\
  Forall (fun t => tl_path t <> []) (f_tool f).

Definition w_no_placeholders (f : file) : Prop :=
  Forall (fun g => gd_key g <> []) (f_godebug f) /\
  Forall (fun u => us_path u <> []) (f_use f) /\
  Forall (fun r => rp_op r <> []) (f_replace f).

Lemma no_placeholders_after_cleanup f : no_placeholders (cleanup f).
Proof.
  unfold no_placeholders, cleanup; cbn.
  repeat split; (eapply Forall_impl; [| apply Forall_filter]); cbn; intros a Ha;
    try (apply nonempty_true; exact Ha).
  apply Bool.orb_true_iff in Ha. destruct Ha as [Ha|Ha]; apply nonempty_true in Ha; tauto.
Qed.

Lemma w_no_placeholders_after_cleanup f : w_no_placeholders (w_cleanup f).
Proof.
  unfold w_no_placeholders, w_cleanup; cbn.
  repeat split; (eapply Forall_impl; [| apply Forall_filter]); cbn; intros a Ha;
    apply nonempty_true; exact Ha.
Qed.

(* ---------------------------------------------------------------- generic loops *)

Section Loops.
  Context {E K : Type} (m : E -> bool) (syn : E -> option lid) (zero : E)
          (live : E -> bool) (proj : E -> K) (mk : K -> bool).
  Hypothesis live_zero : live zero = false.
  Hypothesis m_proj : forall e, live e = true -> m e = mk (proj e).

  Lemma drop_loop_abs s l s' l' :
    drop_loop m syn zero s l = Some (s', l') ->
    map proj (filter live l') = drop mk (map proj (filter live l)).
  Proof.
    unfold drop. revert s s' l'. induction l as [|e r IH]; intros s s' l' H; cbn in H.
    - injection H as _ <-. reflexivity.
    - destruct (m e) eqn:Hm.
      + destruct (syn e) as [i|]; [|discriminate].
        destruct (drop_loop m syn zero (mark_removed s i) r) as [[s1 r1]|] eqn:Hr; [|discriminate].
        injection H as _ <-. cbn. rewrite live_zero.
        rewrite (IH _ _ _ Hr). destruct (live e) eqn:Hl; [|reflexivity].
        cbn. rewrite <- (m_proj e Hl), Hm. reflexivity.
      + destruct (drop_loop m syn zero s r) as [[s1 r1]|] eqn:Hr; [|discriminate].
        injection H as _ <-. cbn. destruct (live e) eqn:Hl.
        * cbn. rewrite <- (m_proj e Hl), Hm. cbn.
          f_equal. exact (IH _ _ _ Hr).
        * exact (IH _ _ _ Hr).
  Qed.

  Context (upd : E -> E) (kupd : K -> K).
  Hypothesis m_live : forall e, m e = true -> live e = true.
  Hypothesis upd_live : forall e, live e = true -> live (upd e) = true.
  Hypothesis upd_proj : forall e, proj (upd e) = kupd (proj e).

  Lemma upsert_loop_abs verb args need s l s' l' need' :
    upsert_loop m syn zero upd verb args need s l = Some (s', l', need') ->
    map proj (filter live l') =
      (if need then upsert_first mk kupd (map proj (filter live l)) else drop mk (map proj (filter live l)))
    /\ need' = (need && negb (existsb mk (map proj (filter live l))))%bool.
  Proof.
    unfold drop. revert need s s' l' need'. induction l as [|e r IH]; intros need s s' l' need' H; cbn in H.
    - injection H as _ <- <-. cbn. destruct need; split; reflexivity.
    - destruct (m e) eqn:Hm.
      + pose proof (m_live e Hm) as Hl.
        destruct (syn e) as [i|]; [|discriminate].
        destruct need.
        * destruct (upsert_loop m syn zero upd verb args false (update_line s i verb args) r)
            as [[[s1 r1] n1]|] eqn:Hr; [|discriminate].
          injection H as _ <- <-. destruct (IH _ _ _ _ _ Hr) as [IH1 IH2].
          cbn. rewrite Hl, (upd_live e Hl). cbn. rewrite <- (m_proj e Hl), Hm. cbn.
          rewrite upd_proj, IH1. split; [reflexivity|]. exact IH2.
        * destruct (upsert_loop m syn zero upd verb args false (mark_removed s i) r)
            as [[[s1 r1] n1]|] eqn:Hr; [|discriminate].
          injection H as _ <- <-. destruct (IH _ _ _ _ _ Hr) as [IH1 IH2].
          cbn. rewrite Hl, live_zero. cbn. rewrite <- (m_proj e Hl), Hm. cbn.
          split; [exact IH1 | exact IH2].
      + destruct (upsert_loop m syn zero upd verb args need s r) as [[[s1 r1] n1]|] eqn:Hr; [|discriminate].
        injection H as _ <- <-. destruct (IH _ _ _ _ _ Hr) as [IH1 IH2].
        cbn. destruct (live e) eqn:Hl.
        * cbn. rewrite <- (m_proj e Hl), Hm. cbn. destruct need.
          -- rewrite IH1. split; [reflexivity | exact IH2].
          -- rewrite IH1. split; [reflexivity | exact IH2].
        * split; [exact IH1 | exact IH2].
  Qed.
End Loops.

