(* Proofs about the typed lists of the edit model (no heap reasoning):
   placeholders are gone after Cleanup; every operation refines the keyed model. *)
From Coq Require Import Permutation.
From Verif.Base Require Import Bytes.
From Verif.Modfile Require Import EditModel EditOps EditSpec.

Lemma nonempty_true (s : str) : nonempty s = true <-> s <> [].
Proof. destruct s; cbn; split; intros; congruence. Qed.

Lemma Forall_filter {A} (p : A -> bool) (l : list A) : Forall (fun x => p x = true) (filter p l).
Proof. apply Forall_forall. intros x Hx. apply filter_In in Hx. tauto. Qed.

(* ---------------------------------------------------------------- C15: no placeholders *)

Definition no_placeholders (f : file) : Prop :=
  Forall (fun g => gd_key g <> []) (f_godebug f) /\
  Forall (fun r => rq_path r <> []) (f_require f) /\
  Forall (fun x => ex_path x <> []) (f_exclude f) /\
  Forall (fun r => rp_op r <> []) (f_replace f) /\
  Forall (fun r => rt_lo r <> [] \/ rt_hi r <> []) (f_retract f) /\
  Forall (fun t => tl_path t <> []) (f_tool f).

Definition w_no_placeholders (f : file) : Prop :=
  Forall (fun g => gd_key g <> []) (f_godebug f) /\
  Forall (fun u => us_path u <> []) (f_use f) /\
  Forall (fun r => rp_op r <> []) (f_replace f).

Lemma no_placeholders_after_cleanup f : no_placeholders (cleanup f).
Proof.
  unfold no_placeholders, cleanup; cbn.
  repeat split; (eapply Forall_impl; [| apply Forall_filter]); cbn; intros a Ha;
    try (apply nonempty_true; exact Ha).
  apply Bool.orb_true_iff in Ha. destruct Ha as [Ha|Ha]; apply nonempty_true in Ha; tauto.
Qed.

Lemma w_no_placeholders_after_cleanup f : w_no_placeholders (w_cleanup f).
Proof.
  unfold w_no_placeholders, w_cleanup; cbn.
  repeat split; (eapply Forall_impl; [| apply Forall_filter]); cbn; intros a Ha;
    apply nonempty_true; exact Ha.
Qed.

(* ---------------------------------------------------------------- generic loops *)

Section Loops.
  Context {E K : Type} (m : E -> bool) (syn : E -> option lid) (zero : E)
          (live : E -> bool) (proj : E -> K) (mk : K -> bool).
  Hypothesis live_zero : live zero = false.
  Hypothesis m_proj : forall e, live e = true -> m e = mk (proj e).

  Lemma drop_loop_abs s l s' l' :
    drop_loop m syn zero s l = Some (s', l') ->
    map proj (filter live l') = drop mk (map proj (filter live l)).
  Proof.
    unfold drop. revert s s' l'. induction l as [|e r IH]; intros s s' l' H; cbn in H.
    - injection H as _ <-. reflexivity.
    - destruct (m e) eqn:Hm.
      + destruct (syn e) as [i|]; [|discriminate].
        destruct (drop_loop m syn zero (mark_removed s i) r) as [[s1 r1]|] eqn:Hr; [|discriminate].
        injection H as _ <-. cbn. rewrite live_zero.
        rewrite (IH _ _ _ Hr). destruct (live e) eqn:Hl; [|reflexivity].
        cbn. rewrite <- (m_proj e Hl), Hm. reflexivity.
      + destruct (drop_loop m syn zero s r) as [[s1 r1]|] eqn:Hr; [|discriminate].
        injection H as _ <-. cbn. destruct (live e) eqn:Hl.
        * cbn. rewrite <- (m_proj e Hl), Hm. cbn.
          f_equal. exact (IH _ _ _ Hr).
        * exact (IH _ _ _ Hr).
  Qed.

  Context (upd : E -> E) (kupd : K -> K).
  Hypothesis m_live : forall e, m e = true -> live e = true.
  Hypothesis upd_live : forall e, live e = true -> live (upd e) = true.
  Hypothesis upd_proj : forall e, proj (upd e) = kupd (proj e).

  Lemma upsert_loop_abs verb args need s l s' l' need' :
    upsert_loop m syn zero upd verb args need s l = Some (s', l', need') ->
    map proj (filter live l') =
      (if need then upsert_first mk kupd (map proj (filter live l)) else drop mk (map proj (filter live l)))
    /\ need' = (need && negb (existsb mk (map proj (filter live l))))%bool.
  Proof.
    unfold drop. revert need s s' l' need'. induction l as [|e r IH]; intros need s s' l' need' H; cbn in H.
    - injection H as _ <- <-. cbn. destruct need; split; reflexivity.
    - destruct (m e) eqn:Hm.
      + pose proof (m_live e Hm) as Hl.
        destruct (syn e) as [i|]; [|discriminate].
        destruct need.
        * destruct (upsert_loop m syn zero upd verb args false (update_line s i verb args) r)
            as [[[s1 r1] n1]|] eqn:Hr; [|discriminate].
          injection H as _ <- <-. destruct (IH _ _ _ _ _ Hr) as [IH1 IH2].
          cbn. rewrite Hl, (upd_live e Hl). cbn. rewrite <- (m_proj e Hl), Hm. cbn.
          rewrite upd_proj, IH1. split; [reflexivity|]. exact IH2.
        * destruct (upsert_loop m syn zero upd verb args false (mark_removed s i) r)
            as [[[s1 r1] n1]|] eqn:Hr; [|discriminate].
          injection H as _ <- <-. destruct (IH _ _ _ _ _ Hr) as [IH1 IH2].
          cbn. rewrite Hl, live_zero. cbn. rewrite <- (m_proj e Hl), Hm. cbn.
          split; [exact IH1 | exact IH2].
      + destruct (upsert_loop m syn zero upd verb args need s r) as [[[s1 r1] n1]|] eqn:Hr; [|discriminate].
        injection H as _ <- <-. destruct (IH _ _ _ _ _ Hr) as [IH1 IH2].
        cbn. destruct (live e) eqn:Hl.
        * cbn. rewrite <- (m_proj e Hl), Hm. cbn. destruct need.
          -- rewrite IH1. split; [reflexivity | exact IH2].
          -- rewrite IH1. split; [reflexivity | exact IH2].
        * split; [exact IH1 | exact IH2].
  Qed.
End Loops.


(* ---------------------------------------------------------------- per-operation refinement *)

Lemma str_eqb_nonempty a k : k <> [] -> str_eqb a k = true -> nonempty a = true.
Proof. intros Hk H. apply str_eqb_eq in H. subst a. apply nonempty_true. exact Hk. Qed.

Lemma negb_true_false b : negb b = true -> b = false.
Proof. destruct b; cbn; congruence. Qed.

Lemma upsert_first_noex {A} (m : A -> bool) upd l : existsb m l = false -> upsert_first m upd l = l.
Proof.
  induction l as [|x r IH]; cbn; [reflexivity|].
  destruct (m x); cbn; [discriminate|]. intros H. f_equal. exact (IH H).
Qed.

Lemma add_godebug_abs f key v f' :
  key <> [] -> add_godebug f key v = Some f' -> abs f' = fst (kstep (AddGodebug key v) (abs f)).
Proof.
  intros Hk H. unfold add_godebug in H.
  destruct (upsert_loop _ _ _ _ _ _ _ _ _) as [[[s l] need]|] eqn:Hu; [|discriminate].
  apply (upsert_loop_abs (fun g => str_eqb (gd_key g) key) gd_syn zero_godebug
            (fun g => nonempty (gd_key g)) (fun g => (gd_key g, gd_val g))
            (fun g => str_eqb (fst g) key) eq_refl (fun e _ => eq_refl)
            (fun g => mkGodebug (gd_key g) v (gd_syn g)) (fun g => (fst g, v))) in Hu;
    [| intros e He; eapply str_eqb_nonempty; eauto | intros e He; exact He | reflexivity].
  destruct Hu as [Hl Hn]. cbn in Hn. destruct need.
  - destruct (add_line s None v_godebug _) as [s2 n]. injection H as <-.
    unfold abs; cbn. rewrite filter_app, map_app, Hl. cbn.
    assert (nonempty key = true) as -> by (apply nonempty_true; exact Hk). cbn.
    unfold upsert. symmetry in Hn. apply negb_true_false in Hn. cbn in Hn. rewrite Hn.
    unfold kset_godebug; cbn. rewrite (upsert_first_noex _ _ _ Hn). reflexivity.
  - injection H as <-. unfold abs; cbn. rewrite Hl.
    unfold upsert. destruct (existsb _ _) eqn:He; [reflexivity | discriminate].
Qed.

Lemma drop_godebug_abs f key f' :
  drop_godebug f key = Some f' -> abs f' = fst (kstep (DropGodebug key) (abs f)).
Proof.
  intros H. unfold drop_godebug in H.
  destruct (drop_loop _ _ _ _ _) as [[s l]|] eqn:Hd; [|discriminate].
  injection H as <-.
  apply (drop_loop_abs (fun g => str_eqb (gd_key g) key) gd_syn zero_godebug
           (fun g => nonempty (gd_key g)) (fun g => (gd_key g, gd_val g))
           (fun g => str_eqb (fst g) key) eq_refl (fun e _ => eq_refl)) in Hd.
  unfold abs; cbn. rewrite Hd. reflexivity.
Qed.

Lemma add_new_require_abs f p v ind :
  p <> [] -> abs (add_new_require f p v ind) = fst (kstep (AddNewRequire p v ind) (abs f)).
Proof.
  intros Hp. unfold add_new_require. destruct (add_line _ _ _ _) as [s1 n].
  unfold abs; cbn. rewrite filter_app, map_app. cbn.
  assert (nonempty p = true) as -> by (apply nonempty_true; exact Hp). reflexivity.
Qed.

Lemma add_require_abs f p v f' :
  p <> [] -> add_require f p v = Some f' -> abs f' = fst (kstep (AddRequire p v) (abs f)).
Proof.
  intros Hk H. unfold add_require in H.
  destruct (upsert_loop _ _ _ _ _ _ _ _ _) as [[[s l] need]|] eqn:Hu; [|discriminate].
  apply (upsert_loop_abs (fun r => str_eqb (rq_path r) p) rq_syn zero_require
            (fun r => nonempty (rq_path r)) (fun r => (rq_path r, rq_vers r, rq_ind r))
            (fun q => str_eqb (req_path q) p) eq_refl (fun e _ => eq_refl)
            (fun r => mkRequire (rq_path r) v (rq_ind r) (rq_syn r))
            (fun q => (req_path q, v, snd q))) in Hu;
    [| intros e He; eapply str_eqb_nonempty; eauto | intros e He; exact He | reflexivity].
  destruct Hu as [Hl Hn]. cbn in Hn. destruct need.
  - injection H as <-. rewrite add_new_require_abs by exact Hk.
    unfold abs; cbn. rewrite Hl.
    unfold upsert. symmetry in Hn. apply negb_true_false in Hn. cbn in Hn. rewrite Hn.
    unfold kset_require; cbn. rewrite (upsert_first_noex _ _ _ Hn). reflexivity.
  - injection H as <-. unfold abs; cbn. rewrite Hl.
    unfold upsert. destruct (existsb _ _) eqn:He; [reflexivity | discriminate].
Qed.

Lemma drop_require_abs f p f' :
  drop_require f p = Some f' -> abs f' = fst (kstep (DropRequire p) (abs f)).
Proof.
  intros H. unfold drop_require in H.
  destruct (drop_loop _ _ _ _ _) as [[s l]|] eqn:Hd; [|discriminate].
  injection H as <-.
  apply (drop_loop_abs (fun r => str_eqb (rq_path r) p) rq_syn zero_require
           (fun r => nonempty (rq_path r)) (fun r => (rq_path r, rq_vers r, rq_ind r))
           (fun q => str_eqb (req_path q) p) eq_refl (fun e _ => eq_refl)) in Hd.
  unfold abs; cbn. rewrite Hd. reflexivity.
Qed.

Lemma str_eqb_sym a b : str_eqb a b = str_eqb b a.
Proof.
  destruct (str_eqb_spec a b) as [->|Hn]; [symmetry; apply str_eqb_refl|].
  destruct (str_eqb_spec b a) as [->|_]; congruence.
Qed.

Lemma drop_exclude_abs f p v f' :
  drop_exclude f p v = Some f' -> abs f' = fst (kstep (DropExclude p v) (abs f)).
Proof.
  intros H. unfold drop_exclude in H.
  destruct (drop_loop _ _ _ _ _) as [[s l]|] eqn:Hd; [|discriminate].
  injection H as <-.
  apply (drop_loop_abs (fun x => str_eqb (ex_path x) p && str_eqb (ex_vers x) v) ex_syn zero_exclude
           (fun x => nonempty (ex_path x)) (fun x => (ex_path x, ex_vers x))
           (pair_eqb (p, v)) eq_refl) in Hd.
  - unfold abs; cbn. rewrite Hd. reflexivity.
  - intros e _. unfold pair_eqb; cbn. rewrite (str_eqb_sym p), (str_eqb_sym v). reflexivity.
Qed.

Lemma exclude_scan_abs (p v : str) l h :
  p <> [] ->
  (exclude_scan p v l h = None <->
   existsb (pair_eqb (p, v)) (map (fun x => (ex_path x, ex_vers x)) (filter (fun x => nonempty (ex_path x)) l)) = true).
Proof.
  intros Hp. revert h. induction l as [|x r IH]; intros h; cbn.
  - split; discriminate.
  - destruct (str_eqb (ex_path x) p) eqn:E1; cbn.
    + assert (nonempty (ex_path x) = true) as -> by (eapply str_eqb_nonempty; eauto). cbn.
      unfold pair_eqb at 1; cbn. rewrite (str_eqb_sym p), E1. cbn.
      rewrite (str_eqb_sym v). destruct (str_eqb (ex_vers x) v); cbn; [tauto|]. apply IH.
    + destruct (nonempty (ex_path x)); cbn; [|apply IH].
      unfold pair_eqb at 1; cbn. rewrite (str_eqb_sym p), E1. cbn. apply IH.
Qed.

Lemma add_exclude_abs f (p v : str) :
  p <> [] ->
  match add_exclude f p v with
  | ROk f' => kstep (AddExclude p v) (abs f) = (abs f', false)
  | RErr f' => f' = f /\ snd (kstep (AddExclude p v) (abs f)) = true
  | RPanic => False
  end.
Proof.
  intros Hp. pose proof (exclude_scan_abs p v (f_exclude f) None Hp) as Hsc.
  unfold add_exclude. cbn [kstep].
  destruct (check_canonical_version p v); cbn; [|split; reflexivity].
  destruct (exclude_scan p v (f_exclude f) None) as [h|] eqn:Hs.
  - destruct (add_line _ _ _ _) as [s n].
    unfold abs; cbn.
    destruct (existsb (pair_eqb (p, v)) _) eqn:He.
    + destruct Hsc as [_ Hx]. specialize (Hx eq_refl). discriminate.
    + rewrite filter_app, map_app. cbn.
      assert (nonempty p = true) as -> by (apply nonempty_true; exact Hp).
      reflexivity.
  - destruct Hsc as [Hsc _]. specialize (Hsc eq_refl). unfold abs; cbn. rewrite Hsc. reflexivity.
Qed.

(* replace *)
Definition rep_match (op ov : str) (r : str * str * str * str) : bool :=
  match r with (o', v', _, _) => str_eqb o' op && (nilb ov || str_eqb v' ov) end.

Lemma add_replace_loop_abs (op ov np nv : str) need h s l s' l' need' h' :
  op <> [] ->
  add_replace_loop op ov np nv need h s l = Some (s', l', need', h') ->
  map (fun r => (rp_op r, rp_ov r, rp_np r, rp_nv r)) (filter (fun r => nonempty (rp_op r)) l') =
    (if need then upsert_first (rep_match op ov) (fun _ => (op, ov, np, nv))
                    (map (fun r => (rp_op r, rp_ov r, rp_np r, rp_nv r)) (filter (fun r => nonempty (rp_op r)) l))
     else drop (rep_match op ov)
                    (map (fun r => (rp_op r, rp_ov r, rp_np r, rp_nv r)) (filter (fun r => nonempty (rp_op r)) l)))
  /\ need' = (need && negb (existsb (rep_match op ov)
               (map (fun r => (rp_op r, rp_ov r, rp_np r, rp_nv r)) (filter (fun r => nonempty (rp_op r)) l))))%bool.
Proof.
  intros Hop. assert (Hne : nonempty op = true) by (apply nonempty_true; exact Hop).
  unfold drop. revert need h s s' l' need' h'.
  induction l as [|r rest IH]; intros need h s s' l' need' h' H; cbn in H.
  - injection H as _ <- <- _. cbn. destruct need; split; reflexivity.
  - destruct (str_eqb (rp_op r) op && (nilb ov || str_eqb (rp_ov r) ov))%bool eqn:Hm.
    + assert (Hl : nonempty (rp_op r) = true).
      { apply Bool.andb_true_iff in Hm. destruct Hm as [Hm _]. eapply str_eqb_nonempty; eauto. }
      destruct (rp_syn r) as [i|]; [|discriminate].
      destruct need.
      * destruct (add_replace_loop op ov np nv false h _ rest) as [[[[s1 l1] n1] h1]|] eqn:Hr; [|discriminate].
        injection H as _ <- <- _. destruct (IH _ _ _ _ _ _ _ Hr) as [IH1 IH2].
        cbn. rewrite Hl, Hne. cbn. rewrite Hm. cbn. rewrite IH1. split; [reflexivity | exact IH2].
      * destruct (add_replace_loop op ov np nv false _ _ rest) as [[[[s1 l1] n1] h1]|] eqn:Hr; [|discriminate].
        injection H as _ <- <- _. destruct (IH _ _ _ _ _ _ _ Hr) as [IH1 IH2].
        cbn. rewrite Hl. cbn. rewrite Hm. cbn. split; [exact IH1 | exact IH2].
    + destruct (add_replace_loop op ov np nv need _ s rest) as [[[[s1 l1] n1] h1]|] eqn:Hr; [|discriminate].
      injection H as _ <- <- _. destruct (IH _ _ _ _ _ _ _ Hr) as [IH1 IH2].
      cbn. destruct (nonempty (rp_op r)) eqn:Hl.
      * cbn. rewrite Hm. cbn. destruct need; rewrite IH1; (split; [reflexivity | exact IH2]).
      * split; [exact IH1 | exact IH2].
Qed.

Lemma add_replace_abs f (op ov np nv : str) f' :
  op <> [] -> add_replace f op ov np nv = Some f' ->
  abs f' = fst (kstep (AddReplace op ov np nv) (abs f)).
Proof.
  intros Hk H. unfold add_replace in H.
  destruct (add_replace_loop _ _ _ _ _ _ _ _) as [[[[s l] need] h]|] eqn:Hu; [|discriminate].
  apply add_replace_loop_abs in Hu; [|exact Hk].
  destruct Hu as [Hl Hn]. cbn in Hn. destruct need.
  - destruct (add_line s _ v_replace _) as [s2 n]. injection H as <-.
    unfold abs; cbn. rewrite filter_app, map_app, Hl. cbn.
    assert (nonempty op = true) as -> by (apply nonempty_true; exact Hk). cbn.
    unfold upsert. symmetry in Hn. apply negb_true_false in Hn.
    fold (rep_match op ov). rewrite Hn.
    unfold kset_replace; cbn. rewrite (upsert_first_noex _ _ _ Hn). reflexivity.
  - injection H as <-. unfold abs; cbn. rewrite Hl.
    unfold upsert. fold (rep_match op ov). destruct (existsb _ _) eqn:He; [reflexivity | discriminate].
Qed.

Lemma drop_replace_abs f (op ov : str) f' :
  drop_replace f op ov = Some f' -> abs f' = fst (kstep (DropReplace op ov) (abs f)).
Proof.
  intros H. unfold drop_replace in H.
  destruct (drop_loop _ _ _ _ _) as [[s l]|] eqn:Hd; [|discriminate].
  injection H as <-.
  apply (drop_loop_abs (fun r => str_eqb (rp_op r) op && str_eqb (rp_ov r) ov) rp_syn zero_replace
           (fun r => nonempty (rp_op r)) (fun r => (rp_op r, rp_ov r, rp_np r, rp_nv r))
           (fun r => rep_old_eqb r (op, ov, [], [])) eq_refl (fun e _ => eq_refl)) in Hd.
  unfold abs; cbn. rewrite Hd. reflexivity.
Qed.

(* retract *)
Lemma add_retract_abs f (lo hi rat : str) :
  match add_retract f lo hi rat with
  | ROk f' => kstep (AddRetract lo hi rat) (abs f) = (abs f', false)
  | RErr f' => f' = f /\ snd (kstep (AddRetract lo hi rat) (abs f)) = true
  | RPanic => False
  end.
Proof.
  unfold add_retract. cbn [kstep].
  assert (Hp : match k_module (abs f) with Some p => p | None => [] end
               = match f_module f with Some m => mo_path m | None => [] end).
  { unfold abs; cbn. destruct (f_module f); reflexivity. }
  rewrite Hp. clear Hp.
  destruct (check_canonical_version _ hi) eqn:Hhi; cbn; [|split; reflexivity].
  destruct (check_canonical_version _ lo) eqn:Hlo; cbn; [|split; reflexivity].
  destruct (add_line _ _ _ _) as [s n].
  unfold abs; cbn. rewrite filter_app, map_app. cbn.
  assert (nonempty lo || nonempty hi = true)%bool as ->.
  { unfold check_canonical_version in Hhi. destruct hi; [discriminate|]. cbn. apply Bool.orb_true_r. }
  reflexivity.
Qed.

Lemma drop_retract_abs f (lo hi : str) f' :
  drop_retract f lo hi = Some f' -> abs f' = fst (kstep (DropRetract lo hi) (abs f)).
Proof.
  intros H. unfold drop_retract in H.
  destruct (drop_loop _ _ _ _ _) as [[s l]|] eqn:Hd; [|discriminate].
  injection H as <-.
  apply (drop_loop_abs (fun r => str_eqb (rt_lo r) lo && str_eqb (rt_hi r) hi) rt_syn zero_retract
           (fun r => nonempty (rt_lo r) || nonempty (rt_hi r)) (fun r => (rt_lo r, rt_hi r, rt_rat r))
           (fun r => match r with (l, h, _) => str_eqb l lo && str_eqb h hi end) eq_refl (fun e _ => eq_refl)) in Hd.
  unfold abs; cbn. rewrite Hd. reflexivity.
Qed.

Lemma drop_tool_abs f (p : str) f' :
  drop_tool f p = Some f' -> abs f' = fst (kstep (DropTool p) (abs f)).
Proof.
  intros H. unfold drop_tool in H.
  destruct (drop_loop _ _ _ _ _) as [[s l]|] eqn:Hd; [|discriminate].
  injection H as <-.
  apply (drop_loop_abs (fun t => str_eqb (tl_path t) p) tl_syn zero_tool
           (fun t => nonempty (tl_path t)) tl_path (str_eqb p) eq_refl) in Hd.
  - unfold abs; cbn. rewrite Hd. reflexivity.
  - intros e _. apply str_eqb_sym.
Qed.

(* use *)
Lemma add_new_use_abs f (p m : str) :
  p <> [] -> abs (add_new_use f p m) = fst (kstep (WAddNewUse p m) (abs f)).
Proof.
  intros Hp. unfold add_new_use. destruct (add_line _ _ _ _) as [s1 n].
  unfold abs; cbn. rewrite filter_app, map_app. cbn.
  assert (nonempty p = true) as -> by (apply nonempty_true; exact Hp). reflexivity.
Qed.

Lemma add_use_abs f (p m : str) f' :
  p <> [] -> add_use f p m = Some f' -> abs f' = fst (kstep (WAddUse p m) (abs f)).
Proof.
  intros Hk H. unfold add_use in H.
  destruct (upsert_loop _ _ _ _ _ _ _ _ _) as [[[s l] need]|] eqn:Hu; [|discriminate].
  apply (upsert_loop_abs (fun u => str_eqb (us_path u) p) us_syn zero_use
            (fun u => nonempty (us_path u)) (fun u => (us_path u, us_mod u))
            (fun u => str_eqb (fst u) p) eq_refl (fun e _ => eq_refl)
            (fun u => mkUse (us_path u) m (us_syn u))
            (fun u => (fst u, m))) in Hu;
    [| intros e He; eapply str_eqb_nonempty; eauto | intros e He; exact He | reflexivity].
  destruct Hu as [Hl Hn]. cbn in Hn. destruct need.
  - injection H as <-. rewrite add_new_use_abs by exact Hk.
    unfold abs; cbn. rewrite Hl.
    unfold upsert. symmetry in Hn. apply negb_true_false in Hn. cbn in Hn. rewrite Hn.
    unfold kset_use; cbn. rewrite (upsert_first_noex _ _ _ Hn). reflexivity.
  - injection H as <-. unfold abs; cbn. rewrite Hl.
    unfold upsert. destruct (existsb _ _) eqn:He; [reflexivity | discriminate].
Qed.

Lemma drop_use_abs f (p : str) f' :
  drop_use f p = Some f' -> abs f' = fst (kstep (WDropUse p) (abs f)).
Proof.
  intros H. unfold drop_use in H.
  destruct (drop_loop _ _ _ _ _) as [[s l]|] eqn:Hd; [|discriminate].
  injection H as <-.
  apply (drop_loop_abs (fun u => str_eqb (us_path u) p) us_syn zero_use
           (fun u => nonempty (us_path u)) (fun u => (us_path u, us_mod u))
           (fun u => str_eqb (fst u) p) eq_refl (fun e _ => eq_refl)) in Hd.
  unfold abs; cbn. rewrite Hd. reflexivity.
Qed.

(* cleanup *)
Lemma filter_idem {A} (p : A -> bool) l : filter p (filter p l) = filter p l.
Proof.
  induction l as [|x r IH]; cbn; [reflexivity|].
  destruct (p x) eqn:E; cbn; rewrite ?E, IH; reflexivity.
Qed.

Lemma cleanup_abs f : abs (cleanup f) = abs f.
Proof. unfold abs, cleanup; cbn. rewrite !filter_idem. reflexivity. Qed.

Lemma w_cleanup_abs f : abs (w_cleanup f) = abs f.
Proof. unfold abs, w_cleanup; cbn. rewrite !filter_idem. reflexivity. Qed.

(* module / go / toolchain / comment *)
Lemma add_module_stmt_abs f (p : str) f' :
  add_module_stmt f p = Some f' -> abs f' = fst (kstep (AddModuleStmt p) (abs f)).
Proof.
  unfold add_module_stmt. destruct (f_module f) as [m|] eqn:Hm.
  - destruct (mo_syn m); [|discriminate]. intros [= <-]. unfold abs; cbn. reflexivity.
  - destruct (add_line _ _ _ _) as [s n]. intros [= <-]. unfold abs; cbn. reflexivity.
Qed.

Definition res_refines (o : op) (f : file) (r : res) : Prop :=
  match r with
  | ROk f' => kstep o (abs f) = (abs f', false)
  | RErr f' => f' = f /\ snd (kstep o (abs f)) = true
  | RPanic => True
  end.

Lemma add_go_stmt_abs f (v : str) : res_refines (AddGoStmt v) f (add_go_stmt f v).
Proof.
  unfold res_refines, add_go_stmt. cbn [kstep]. destruct (go_version_ok v); cbn; [|split; reflexivity].
  destruct (f_go f) as [g|].
  - destruct (go_syn g); [|exact I]. unfold abs; cbn. reflexivity.
  - destruct (add_line _ _ _ _) as [s n]. unfold abs; cbn. reflexivity.
Qed.

Lemma w_add_go_stmt_abs f (v : str) : res_refines (WAddGoStmt v) f (w_add_go_stmt f v).
Proof.
  unfold res_refines, w_add_go_stmt. cbn [kstep]. destruct (go_version_ok v); cbn; [|split; reflexivity].
  destruct (f_go f) as [g|].
  - destruct (go_syn g); [|exact I]. unfold abs; cbn. reflexivity.
  - unfold abs; cbn. reflexivity.
Qed.

Lemma drop_go_stmt_abs o f : o = DropGoStmt \/ o = WDropGoStmt -> res_refines o f (drop_go_stmt f).
Proof.
  intros [-> | ->]; unfold res_refines, drop_go_stmt; cbn [kstep];
    (destruct (f_go f) as [g|] eqn:Hg; [destruct (go_syn g); [|exact I] |]; unfold abs; cbn; rewrite ?Hg; reflexivity).
Qed.

Lemma add_toolchain_stmt_abs f (v : str) : res_refines (AddToolchainStmt v) f (add_toolchain_stmt f v).
Proof.
  unfold res_refines, add_toolchain_stmt. cbn [kstep]. destruct (toolchain_ok v); cbn; [|split; reflexivity].
  destruct (f_toolchain f) as [g|].
  - destruct (go_syn g); [|exact I]. unfold abs; cbn. reflexivity.
  - destruct (add_line _ _ _ _) as [s n]. unfold abs; cbn. reflexivity.
Qed.

Lemma w_add_toolchain_stmt_abs f (v : str) : res_refines (WAddToolchainStmt v) f (w_add_toolchain_stmt f v).
Proof.
  unfold res_refines, w_add_toolchain_stmt. cbn [kstep]. destruct (toolchain_ok v); cbn; [|split; reflexivity].
  destruct (f_toolchain f) as [g|].
  - destruct (go_syn g); [|exact I]. unfold abs; cbn. reflexivity.
  - unfold abs; cbn. reflexivity.
Qed.

Lemma drop_toolchain_stmt_abs o f :
  o = DropToolchainStmt \/ o = WDropToolchainStmt -> res_refines o f (drop_toolchain_stmt f).
Proof.
  intros [-> | ->]; unfold res_refines, drop_toolchain_stmt; cbn [kstep];
    (destruct (f_toolchain f) as [g|] eqn:Hg; [destruct (go_syn g); [|exact I] |]; unfold abs; cbn; rewrite ?Hg; reflexivity).
Qed.

Lemma lift_refines o f r :
  snd (kstep o (abs f)) = false ->
  (forall f', r = Some f' -> abs f' = fst (kstep o (abs f))) ->
  res_refines o f (lift r).
Proof.
  intros Hs H. destruct r as [f'|]; cbn; [|exact I].
  rewrite (H f' eq_refl). destruct (kstep o (abs f)) as [k e]. cbn in *. subst e. reflexivity.
Qed.

Definition simple_op (o : op) : bool :=
  match o with
  | SetRequire _ | SetRequireSeparateIndirect _ | AddTool _ | SortBlocks | WSetUse _ | WSortBlocks => false
  | _ => true
  end.

Theorem apply_refines_simple o f :
  simple_op o = true -> valid_args o = true -> res_refines o f (apply o f).
Proof.
  intros Hs Hv. destruct o; try discriminate Hs; cbn [apply]; cbn in Hv;
    try (apply lift_refines; [reflexivity|]).
  - intros f'. apply add_module_stmt_abs.
  - apply add_go_stmt_abs.
  - apply drop_go_stmt_abs; auto.
  - apply add_toolchain_stmt_abs.
  - apply drop_toolchain_stmt_abs; auto.
  - intros f'. apply add_godebug_abs. apply nonempty_true; exact Hv.
  - intros f'. apply drop_godebug_abs.
  - intros f'. apply add_require_abs. apply nonempty_true; exact Hv.
  - cbn. rewrite add_new_require_abs by (apply nonempty_true; exact Hv). reflexivity.
  - intros f'. apply drop_require_abs.
  - pose proof (add_exclude_abs f path vers) as H. apply nonempty_true in Hv. specialize (H Hv).
    unfold res_refines. destruct (add_exclude f path vers); tauto.
  - intros f'. apply drop_exclude_abs.
  - intros f'. apply add_replace_abs. apply nonempty_true; exact Hv.
  - intros f'. apply drop_replace_abs.
  - pose proof (add_retract_abs f lo hi rationale) as H.
    unfold res_refines. destruct (add_retract f lo hi rationale); tauto.
  - intros f'. apply drop_retract_abs.
  - intros f'. apply drop_tool_abs.
  - cbn. unfold add_comment, abs; cbn. reflexivity.
  - cbn. rewrite cleanup_abs. reflexivity.
  - apply w_add_go_stmt_abs.
  - apply drop_go_stmt_abs; auto.
  - apply w_add_toolchain_stmt_abs.
  - apply drop_toolchain_stmt_abs; auto.
  - intros f'. apply add_godebug_abs. apply nonempty_true; exact Hv.
  - intros f'. apply drop_godebug_abs.
  - intros f'. apply add_use_abs. apply nonempty_true; exact Hv.
  - cbn. rewrite add_new_use_abs by (apply nonempty_true; exact Hv). reflexivity.
  - intros f'. apply drop_use_abs.
  - intros f'. apply add_replace_abs. apply nonempty_true; exact Hv.
  - intros f'. apply drop_replace_abs.
  - cbn. rewrite w_cleanup_abs. reflexivity.
Qed.

(* ---------------------------------------------------------------- removeDups *)

Definition somes (l : list (option lid)) : list lid :=
  flat_map (fun o => match o with Some i => [i] | None => [] end) l.

Lemma somes_app a b : somes (a ++ b) = somes a ++ somes b.
Proof. unfold somes. apply flat_map_app. Qed.

Lemma in_somes i l : In i (somes l) <-> In (Some i) l.
Proof.
  unfold somes. rewrite in_flat_map. split.
  - intros [o [Ho Hi]]. destruct o; cbn in Hi; [destruct Hi as [->|[]]; exact Ho | destruct Hi].
  - intros H. exists (Some i). split; [exact H | left; reflexivity].
Qed.

Lemma opt_lid_eqb_eq a b : opt_lid_eqb a b = true <-> a = b.
Proof.
  destruct a, b; cbn; split; try congruence; try discriminate.
  - intros H. apply Nat.eqb_eq in H. congruence.
  - intros [= ->]. apply Nat.eqb_refl.
Qed.

Lemma killed_In K o : killed K o = true <-> In o K.
Proof.
  unfold killed. rewrite existsb_exists. split.
  - intros [x [Hx He]]. apply opt_lid_eqb_eq in He. subst. exact Hx.
  - intros H. exists o. split; [exact H | apply opt_lid_eqb_eq; reflexivity].
Qed.

Section Dedup.
  Context {E K : Type} (same : E -> E -> bool) (syn : E -> option lid)
          (live : E -> bool) (proj : E -> K) (ksame : K -> K -> bool).
  Hypothesis same_live : forall x y, live x = true -> live y = true -> same x y = ksame (proj x) (proj y).
  Hypothesis same_dead : forall x y, live x = true -> live y = false -> same x y = false.

  Lemma dups_in o seen l kill : In o (dups same syn seen l kill) -> In o kill \/ In o (map syn l).
  Proof.
    revert seen kill. induction l as [|x r IH]; intros seen kill H; cbn in *; [tauto|].
    destruct (existsb (same x) seen); apply IH in H; cbn in H; tauto.
  Qed.

  Lemma dups_incl o seen l kill : In o kill -> In o (dups same syn seen l kill).
  Proof.
    revert seen kill. induction l as [|x r IH]; intros seen kill H; cbn; [exact H|].
    destruct (existsb (same x) seen); apply IH; cbn; tauto.
  Qed.

  Lemma existsb_same x seen :
    live x = true ->
    existsb (same x) seen = existsb (ksame (proj x)) (map proj (filter live seen)).
  Proof.
    intros Hx. induction seen as [|y r IH]; cbn; [reflexivity|].
    destruct (live y) eqn:Hy; cbn.
    - rewrite (same_live x y Hx Hy), IH. reflexivity.
    - rewrite (same_dead x y Hx Hy), IH. reflexivity.
  Qed.

  Lemma dedup_abs l : forall seen K0,
    NoDup (somes (map syn l)) ->
    (forall x, In x l -> live x = true -> syn x <> None) ->
    (forall i, In (Some i) K0 -> ~ In (Some i) (map syn l)) ->
    map proj (filter live (filter (fun x => negb (killed (dups same syn seen l K0) (syn x))) l))
    = keep_first ksame (map proj (filter live seen)) (map proj (filter live l)).
  Proof.
    induction l as [|x r IH]; intros seen K0 Hnd Hlive HK0; [reflexivity|].
    cbn [map somes flat_map] in Hnd.
    assert (Hnd_r : NoDup (somes (map syn r))).
    { destruct (syn x); cbn in Hnd; [inversion Hnd; assumption | exact Hnd]. }
    assert (Hx_r : forall i, syn x = Some i -> ~ In (Some i) (map syn r)).
    { intros i Hi Hin. rewrite Hi in Hnd. cbn in Hnd. inversion Hnd as [|? ? Hni _]; subst.
      apply Hni. apply in_somes. exact Hin. }
    assert (Hlive_r : forall y, In y r -> live y = true -> syn y <> None).
    { intros y Hy. apply Hlive. right. exact Hy. }
    cbn [dups].
    destruct (live x) eqn:Hlx.
    - destruct (syn x) as [i|] eqn:Hsx; [|exfalso; eapply Hlive; [left; reflexivity | exact Hlx | exact Hsx]].
      assert (Hrhs : map proj (filter live (x :: r)) = proj x :: map proj (filter live r)).
      { cbn [filter]. rewrite Hlx. reflexivity. }
      rewrite Hrhs. cbn [keep_first].
      rewrite <- (existsb_same x seen Hlx).
      destruct (existsb (same x) seen) eqn:Hd.
      + assert (Hk : killed (dups same syn seen r (Some i :: K0)) (Some i) = true).
        { apply killed_In. apply dups_incl. left. reflexivity. }
        cbn [filter]. rewrite Hsx, Hk. cbn [negb].
        apply IH; [exact Hnd_r | exact Hlive_r |].
        intros j [Hj|Hj]; [injection Hj as <-; apply Hx_r; reflexivity |].
        intros Hin. apply (HK0 j Hj). right. exact Hin.
      + assert (Hk : killed (dups same syn (x :: seen) r K0) (Some i) = false).
        { destruct (killed _ _) eqn:Hk; [|reflexivity]. apply killed_In in Hk. apply dups_in in Hk.
          destruct Hk as [Hk|Hk]; [exfalso; apply (HK0 i Hk); left; exact Hsx | exfalso; eapply Hx_r; eauto]. }
        cbn [filter]. rewrite Hsx, Hk. cbn [negb filter]. rewrite Hlx. cbn [map]. f_equal.
        rewrite (IH (x :: seen) K0 Hnd_r Hlive_r).
        * cbn [filter]. rewrite Hlx. reflexivity.
        * intros j Hj Hin. apply (HK0 j Hj). right. exact Hin.
    - (* a cleared entry is invisible whatever happens to it *)
      assert (Hdrop : forall Kf, map proj (filter live (filter (fun y => negb (killed Kf (syn y))) (x :: r)))
                               = map proj (filter live (filter (fun y => negb (killed Kf (syn y))) r))).
      { intros Kf. cbn [filter]. destruct (negb _); [cbn [filter]; rewrite Hlx|]; reflexivity. }
      rewrite Hdrop.
      assert (Hrhs : map proj (filter live (x :: r)) = map proj (filter live r)).
      { cbn [filter]. rewrite Hlx. reflexivity. }
      rewrite Hrhs.
      destruct (existsb (same x) seen).
      + apply IH; [exact Hnd_r | exact Hlive_r |].
        intros j [Hj|Hj]; [apply Hx_r; exact Hj |].
        intros Hin. apply (HK0 j Hj). right. exact Hin.
      + rewrite (IH (x :: seen) K0 Hnd_r Hlive_r).
        * cbn [filter]. rewrite Hlx. reflexivity.
        * intros j Hj Hin. apply (HK0 j Hj). right. exact Hin.
  Qed.
End Dedup.

Lemma filter_rev' {A} (p : A -> bool) l : filter p (rev l) = rev (filter p l).
Proof.
  induction l as [|x r IH]; cbn; [reflexivity|].
  rewrite filter_app, IH. cbn. destruct (p x); cbn; [reflexivity | apply app_nil_r].
Qed.

Lemma NoDup_app_l {A} (a b : list A) : NoDup (a ++ b) -> NoDup a.
Proof. induction a as [|x a IH]; cbn; intros H; [constructor|]. inversion H; subst. constructor; [rewrite in_app_iff in *; tauto | auto]. Qed.
Lemma NoDup_app_r {A} (a b : list A) : NoDup (a ++ b) -> NoDup b.
Proof. induction a as [|x a IH]; cbn; intros H; [exact H|]. inversion H; subst. auto. Qed.
Lemma NoDup_app_disj {A} (a b : list A) x : NoDup (a ++ b) -> In x a -> In x b -> False.
Proof.
  induction a as [|y a IH]; cbn; intros H Ha Hb; [destruct Ha|].
  inversion H; subst. destruct Ha as [->|Ha]; [apply H2; apply in_app_iff; tauto | eauto].
Qed.

Lemma rev_inj {A} (a b : list A) : rev a = rev b -> a = b.
Proof. intros H. rewrite <- (rev_involutive a), <- (rev_involutive b), H. reflexivity. Qed.

Lemma somes_rev l : somes (rev l) = rev (somes l).
Proof.
  induction l as [|o r IH]; cbn; [reflexivity|].
  rewrite somes_app, IH. cbn. destruct o; cbn; [|rewrite app_nil_r; reflexivity].
  reflexivity.
Qed.

(* the hypotheses removeDups needs: live entries have a line, lines are not shared *)
Record DedupWf (f : file) : Prop := {
  dw_ex : forall x, In x (f_exclude f) -> nonempty (ex_path x) = true -> ex_syn x <> None;
  dw_rp : forall x, In x (f_replace f) -> nonempty (rp_op x) = true -> rp_syn x <> None;
  dw_tl : forall x, In x (f_tool f) -> nonempty (tl_path x) = true -> tl_syn x <> None;
  dw_nodup : NoDup (somes (map ex_syn (f_exclude f)) ++ somes (map rp_syn (f_replace f)) ++ somes (map tl_syn (f_tool f)))
}.

Lemma remove_dups_abs f mod_ : DedupWf f -> abs (remove_dups f mod_) = kdedup mod_ (abs f).
Proof.
  intros [Hex Hrp Htl Hnd].
  pose proof (NoDup_app_l _ _ Hnd) as Hnd_ex.
  pose proof (NoDup_app_r _ _ Hnd) as Hnd_rt.
  pose proof (NoDup_app_l _ _ Hnd_rt) as Hnd_rp.
  pose proof (NoDup_app_r _ _ Hnd_rt) as Hnd_tl.
  set (k1 := if mod_ then dups same_exclude ex_syn [] (f_exclude f) [] else []).
  set (k2 := dups same_replace_old rp_syn [] (rev (f_replace f)) k1).
  assert (Hk1 : forall i, In (Some i) k1 -> In i (somes (map ex_syn (f_exclude f)))).
  { intros i Hi. unfold k1 in Hi. destruct mod_; [|destruct Hi].
    apply dups_in in Hi. destruct Hi as [[]|Hi]. apply in_somes. exact Hi. }
  assert (Hk2 : forall i, In (Some i) k2 ->
            In i (somes (map ex_syn (f_exclude f))) \/ In i (somes (map rp_syn (f_replace f)))).
  { intros i Hi. unfold k2 in Hi. apply dups_in in Hi. destruct Hi as [Hi|Hi]; [left; auto|].
    right. apply in_somes. rewrite map_rev in Hi. apply in_rev in Hi. exact Hi. }
  (* exclude *)
  assert (Hexcl : map (fun x => (ex_path x, ex_vers x))
                    (filter (fun x => nonempty (ex_path x))
                       (filter (fun x => negb (killed (dups same_exclude ex_syn [] (f_exclude f) []) (ex_syn x))) (f_exclude f)))
                  = keep_first pair_eqb [] (k_exclude (abs f))).
  { apply (dedup_abs same_exclude ex_syn (fun x => nonempty (ex_path x)) (fun x => (ex_path x, ex_vers x)) pair_eqb).
    - intros x y _ _. reflexivity.
    - intros x y Hx Hy. unfold same_exclude. destruct (ex_path y); [|discriminate].
      destruct (ex_path x); [discriminate | reflexivity].
    - exact Hnd_ex.
    - exact Hex.
    - intros i []. }
  (* replace *)
  assert (Hrepl : map (fun r => (rp_op r, rp_ov r, rp_np r, rp_nv r))
                    (filter (fun r => nonempty (rp_op r))
                       (filter (fun x => negb (killed k2 (rp_syn x))) (f_replace f)))
                  = keep_last rep_old_eqb (k_replace (abs f))).
  { unfold keep_last. apply rev_inj. rewrite rev_involutive.
    rewrite <- map_rev, <- !filter_rev'.
    unfold abs; cbn [k_replace]. rewrite <- map_rev, <- filter_rev'.
    apply (dedup_abs same_replace_old rp_syn (fun r => nonempty (rp_op r))
             (fun r => (rp_op r, rp_ov r, rp_np r, rp_nv r)) rep_old_eqb).
    - intros x y _ _. reflexivity.
    - intros x y Hx Hy. unfold same_replace_old. destruct (rp_op y); [|discriminate].
      destruct (rp_op x); [discriminate | reflexivity].
    - rewrite map_rev, somes_rev. apply NoDup_rev. exact Hnd_rp.
    - intros x Hx. apply Hrp. apply in_rev. exact Hx.
    - intros i Hi Hin. apply Hk1 in Hi. rewrite map_rev in Hin. apply in_rev in Hin.
      apply in_somes in Hin. eapply (NoDup_app_disj _ _ i Hnd); [exact Hi | apply in_app_iff; left; exact Hin]. }
  (* tool *)
  assert (Htool : map tl_path
                    (filter (fun t => nonempty (tl_path t))
                       (filter (fun x => negb (killed (dups same_tool tl_syn [] (f_tool f) k2) (tl_syn x))) (f_tool f)))
                  = keep_first str_eqb [] (k_tool (abs f))).
  { apply (dedup_abs same_tool tl_syn (fun t => nonempty (tl_path t)) tl_path str_eqb).
    - intros x y _ _. reflexivity.
    - intros x y Hx Hy. unfold same_tool. destruct (tl_path y); [|discriminate].
      destruct (tl_path x); [discriminate | reflexivity].
    - exact Hnd_tl.
    - exact Htl.
    - intros i Hi Hin. apply in_somes in Hin. apply Hk2 in Hi. destruct Hi as [Hi|Hi].
      + eapply (NoDup_app_disj _ _ i Hnd); [exact Hi | apply in_app_iff; right; exact Hin].
      + eapply (NoDup_app_disj _ _ i Hnd_rt); [exact Hi | exact Hin]. }
  unfold remove_dups. fold k1. fold k2.
  destruct mod_.
  - unfold abs at 1; cbn. unfold k1 in *. rewrite Hexcl, Hrepl, Htool. reflexivity.
  - unfold abs at 1; cbn. rewrite Hrepl. reflexivity.
Qed.

Lemma sort_blocks_abs f : DedupWf f -> abs (sort_blocks f) = kdedup true (abs f).
Proof. intros H. rewrite <- (remove_dups_abs f true H). reflexivity. Qed.

Lemma w_sort_blocks_abs f : DedupWf f -> abs (w_sort_blocks f) = kdedup false (abs f).
Proof. intros H. rewrite <- (remove_dups_abs f false H). reflexivity. Qed.

(* a later operation sees what an earlier one did *)
Lemma later_op_sees_earlier f (lo hi rat : str) f1 f2 :
  add_retract f lo hi rat = ROk f1 -> drop_retract f1 lo hi = Some f2 ->
  ~ In (lo, hi, rat) (k_retract (abs f2)).
Proof.
  intros H1 H2. rewrite (drop_retract_abs _ _ _ _ H2). cbn.
  unfold drop. intros Hin. apply filter_In in Hin. destruct Hin as [_ Hin].
  rewrite !str_eqb_refl in Hin. discriminate.
Qed.
