(* Reparse, part 17: after Cleanup a coherent state whose tree is [SynGood] is [Printable].
   (a) what Cleanup establishes ([stmt_cleaned]): every line of the tree is live, no block is
       empty, a block of one line has comments before its ")";
   (b) a block whose header is not a block verb of the file kind would hold a go or toolchain
       directive; a coherent state has at most one of each, the block was made by addLine (nothing
       before ")"), so Cleanup has collapsed it;
   (c) Printable. *)
From Coq Require Import Permutation.
From Verif.Base Require Import Bytes.
From Verif.Modfile Require Import Syntax Lex Parse Print Directives RoundLexPure3 RoundTree
  Reparse1 Reparse2 Reparse3 Reparse5 Reparse7 Reparse8 Reparse9 Reparse10 Reparse15.
From Verif.Modfile Require Import EditModel EditOps EditSpec EditProofsTyped EditProofsHeap EditProofsCoherent EditProofsCleanup.

Arguments hget : simpl never.
Arguments hset : simpl never.

(* ---------------------------------------------------------------- (a) Cleanup *)

Definition stmt_cleaned (h : list hline) (st : stmt) : Prop :=
  match st with
  | SLine i => EditModel.line_live h i = true
  | SBlock b => Forall (fun i => EditModel.line_live h i = true) (hb_lines b) /\ hb_lines b <> [] /\
                (forall j, hb_lines b = [j] -> c_before (hb_rp b) <> [])
  | SComment _ => True
  end.

Lemma filter_live_all h ls : Forall (fun i => EditModel.line_live h i = true) (filter (EditModel.line_live h) ls).
Proof. apply Forall_forall. intros i Hi. apply filter_In in Hi. apply Hi. Qed.

Lemma cleanup_cleaned todo : forall h,
  (forall i, EditModel.line_live h i = true -> EditModel.line_live (fst (syn_cleanup_loop h todo)) i = true) /\
  Forall (stmt_cleaned (fst (syn_cleanup_loop h todo))) (snd (syn_cleanup_loop h todo)).
Proof.
  induction todo as [|st rest IH]; intros h; cbn [syn_cleanup_loop].
  - split; [auto|constructor].
  - destruct st as [i|b|c].
    + destruct (EditModel.line_live h i) eqn:El.
      * destruct (IH h) as (A & B). destruct (syn_cleanup_loop h rest) as [h' out]. cbn [fst snd] in *.
        split; [exact A|constructor; [apply A; exact El|exact B]].
      * apply IH.
    + pose proof (filter_live_all h (hb_lines b)) as Hlive.
      destruct (filter (EditModel.line_live h) (hb_lines b)) as [|j [|j2 more]] eqn:Ef.
      * apply IH.
      * destruct (nilb (c_before (hb_rp b))) eqn:En.
        -- set (l' := mkHL _ _ false).
           assert (Hj : EditModel.line_live h j = true) by exact (Forall_inv Hlive).
           assert (Hmono : forall i, EditModel.line_live h i = true -> EditModel.line_live (hset h j l') i = true).
           { intros i Hi. unfold EditModel.line_live in *. destruct (Nat.eq_dec j i) as [->|Hn]; [|rewrite hget_hset_other by exact Hn; exact Hi].
             destruct (Nat.lt_ge_cases i (length h)) as [Hk|Hk].
             - rewrite hget_hset_same by exact Hk. unfold l'. cbn [hl_tok].
               destruct (hl_tok (hget h i)); [discriminate|]. destruct (hb_tok b); reflexivity.
             - unfold hget in Hi. rewrite nth_overflow in Hi by exact Hk. discriminate. }
           destruct (IH (hset h j l')) as (A & B). destruct (syn_cleanup_loop (hset h j l') rest) as [h' out]. cbn [fst snd] in *.
           split; [intros i Hi; apply A, Hmono, Hi|]. constructor; [|exact B]. cbn [stmt_cleaned]. apply A, Hmono, Hj.
        -- destruct (IH h) as (A & B). destruct (syn_cleanup_loop h rest) as [h' out]. cbn [fst snd] in *.
           split; [exact A|constructor; [|exact B]]. cbn [stmt_cleaned block_with_lines hb_lines hb_rp].
           split; [eapply Forall_impl; [|exact Hlive]; intros i Hi; apply A; exact Hi|]. split; [discriminate|].
           intros _ _ E. rewrite E in En. discriminate.
      * destruct (IH h) as (A & B). destruct (syn_cleanup_loop h rest) as [h' out]. cbn [fst snd] in *.
        split; [exact A|constructor; [|exact B]]. cbn [stmt_cleaned block_with_lines hb_lines hb_rp].
        split; [eapply Forall_impl; [|exact Hlive]; intros i Hi; apply A; exact Hi|]. split; [discriminate|]. intros ? [=].
    + destruct (IH h) as (A & B). destruct (syn_cleanup_loop h rest) as [h' out]. cbn [fst snd] in *.
      split; [exact A|constructor; [exact I|exact B]].
Qed.

Definition Cleaned (s : syntax) : Prop := Forall (stmt_cleaned (heap s)) (stmts s).

Theorem syn_cleanup_cleaned s : Cleaned (syn_cleanup s).
Proof.
  unfold Cleaned, syn_cleanup. destruct (cleanup_cleaned (stmts s) (heap s)) as (_ & B).
  destruct (syn_cleanup_loop (heap s) (stmts s)) as [h st]. exact B.
Qed.

(* ---------------------------------------------------------------- (b) unknown block verbs *)

Definition is_go (it : item) : bool := match it with ItGo _ => true | _ => false end.
Definition is_tc (it : item) : bool := match it with ItToolchain _ => true | _ => false end.

Lemma two_in_flat_map {A B} (g : A -> list B) (l : list A) x y :
  In x l -> In y l -> x <> y -> g x <> [] -> g y <> [] -> (2 <= length (flat_map g l))%nat.
Proof.
  induction l as [|a l IH]; intros Hx Hy Hn Gx Gy; [destruct Hx|]. cbn [flat_map]. rewrite app_length.
  assert (Hone : forall z, In z l -> g z <> [] -> (1 <= length (flat_map g l))%nat).
  { intros z Hz Gz. clear -Hz Gz. induction l as [|b l IH]; [destruct Hz|]. cbn [flat_map]. rewrite app_length.
    destruct Hz as [->|Hz]; [destruct (g z); [congruence|cbn; lia]|specialize (IH Hz); lia]. }
  destruct Hx as [->|Hx], Hy as [->|Hy].
  - congruence.
  - specialize (Hone y Hy Gy). destruct (g x); [congruence|cbn; lia].
  - specialize (Hone x Hx Gx). destruct (g y); [congruence|cbn; lia].
  - specialize (IH Hx Hy Hn Gx Gy). lia.
Qed.

Lemma unknown_verb_mod it : mod_item it -> known_mod_block (verb_of it) = false -> is_go it = true \/ is_tc it = true.
Proof. destruct it; cbn [mod_item verb_of is_go is_tc]; intros Hm Hk; try contradiction; auto; vm_compute in Hk; discriminate. Qed.

Lemma unknown_verb_work it : work_item it -> known_work_block (verb_of it) = false -> is_go it = true \/ is_tc it = true.
Proof. destruct it; cbn [work_item verb_of is_go is_tc]; intros Hm Hk; try contradiction; auto; vm_compute in Hk; discriminate. Qed.

Lemma nodup_block_lines : forall sts b, NoDup (map fst (flat_map Reparse7.stmt_lines sts)) -> In (SBlock b) sts -> NoDup (hb_lines b).
Proof.
  induction sts as [|st sts IH]; intros b Hn Hin; [destruct Hin|]. cbn [flat_map] in Hn. rewrite map_app in Hn.
  destruct Hin as [->|Hin].
  - apply NoDup_app_l in Hn. cbn [Reparse7.stmt_lines] in Hn. rewrite map_map in Hn. cbn [fst] in Hn. rewrite map_id in Hn. exact Hn.
  - apply NoDup_app_r in Hn. apply IH; assumption.
Qed.

Section Unknown.
Variable f : file.
Variable known : str -> bool.
Variable kind : item -> Prop.
Hypothesis unknown_verb : forall it, kind it -> known (verb_of it) = false -> is_go it = true \/ is_tc it = true.
Hypothesis Hc : Coherent f.
Hypothesis Hkind : Forall (fun x => kind (snd x)) (typed_items f).

Lemma live_view s i v : EditModel.line_live (heap s) i = true -> exists a, line_view s (i, Some v) = [(i, v, a)].
Proof.
  unfold EditModel.line_live, line_view. cbn [fst snd]. change (hget (heap s) i) with (sget s i).
  destruct (hl_tok (sget s i)) as [|t ts]; [discriminate|]. intros _. eexists. reflexivity.
Qed.

Lemma block_line_typed b verb i : In (SBlock b) (stmts (fsyn f)) -> hb_tok b = [verb] -> In i (hb_lines b) ->
  EditModel.line_live (heap (fsyn f)) i = true -> exists it, In (i, it) (typed_items f) /\ verb_of it = verb.
Proof.
  intros Hb Ht Hi Hl. destruct (live_view (fsyn f) i verb Hl) as (a & Ea).
  assert (Hin : In (i, verb, a) (tree_view (fsyn f))).
  { rewrite tree_view_stmt. apply in_flat_map. exists (i, Some verb). split; [|rewrite Ea; left; reflexivity].
    apply in_flat_map. exists (SBlock b). split; [exact Hb|]. cbn [Reparse7.stmt_lines]. rewrite Ht. cbn [hd].
    apply in_map_iff. exists i. auto. }
  apply (Permutation_in _ (co_views f Hc)) in Hin. rewrite typed_view_items in Hin.
  apply in_map_iff in Hin as ([j it] & E & Hti). unfold item_view in E. cbn [fst snd] in E. injection E as -> Hv _.
  exists it. auto.
Qed.

Theorem block_known b verb : In (SBlock b) (stmts (fsyn f)) -> hb_tok b = [verb] ->
  Forall (fun i => EditModel.line_live (heap (fsyn f)) i = true) (hb_lines b) -> (2 <= length (hb_lines b))%nat ->
  known verb = true.
Proof.
  intros Hb Ht Hlive Hlen. destruct (known verb) eqn:Ek; [reflexivity|exfalso].
  destruct (hb_lines b) as [|i1 [|i2 more]] eqn:El; try (cbn in Hlen; lia).
  assert (Hnd : NoDup (i1 :: i2 :: more)).
  { rewrite <- El. apply (nodup_block_lines (stmts (fsyn f))); [|exact Hb]. rewrite <- tree_lines_stmt. apply (so_nodup _ (co_syntax f Hc)). }
  assert (Hne : i1 <> i2) by (inversion Hnd as [|? ? Hni _]; subst; intros ->; apply Hni; left; reflexivity).
  inversion Hlive as [|? ? L1 Hlive']; subst. inversion Hlive' as [|? ? L2 _]; subst.
  destruct (block_line_typed b verb i1 Hb Ht ltac:(rewrite El; left; reflexivity) L1) as (it1 & T1 & V1).
  destruct (block_line_typed b verb i2 Hb Ht ltac:(rewrite El; right; left; reflexivity) L2) as (it2 & T2 & V2).
  rewrite Forall_forall in Hkind. pose proof (Hkind _ T1) as K1. pose proof (Hkind _ T2) as K2. cbn [snd] in K1, K2.
  pose proof (entries_live f (co_entries f Hc)) as Hl.
  assert (Hd : (i1, it1) <> (i2, it2)) by congruence.
  destruct (unknown_verb it1 K1 ltac:(rewrite V1; exact Ek)) as [G1|G1].
  - assert (G2 : is_go it2 = true).
    { destruct (unknown_verb it2 K2 ltac:(rewrite V2; exact Ek)) as [G2|G2]; [exact G2|].
      destruct it1; try discriminate. destruct it2; try discriminate. cbn in V1, V2. rewrite <- V2 in V1. discriminate. }
    pose proof (two_in_flat_map (fun x => it_go (snd x)) (typed_items f) _ _ T1 T2 Hd) as H.
    cbn [snd] in H. specialize (H ltac:(destruct it1; discriminate) ltac:(destruct it2; discriminate)).
    assert (E : flat_map (fun x => it_go (snd x)) (typed_items f) = flat_map it_go (map snd (typed_items f))).
    { clear. induction (typed_items f) as [|x l IH]; [reflexivity|]. cbn. rewrite IH. reflexivity. }
    rewrite E, (typed_go f Hl) in H. pose proof (length_le1_opt (k_go (abs f))). lia.
  - assert (G2 : is_tc it2 = true).
    { destruct (unknown_verb it2 K2 ltac:(rewrite V2; exact Ek)) as [G2|G2]; [|exact G2].
      destruct it1; try discriminate. destruct it2; try discriminate. cbn in V1, V2. rewrite <- V2 in V1. discriminate. }
    pose proof (two_in_flat_map (fun x => it_tc (snd x)) (typed_items f) _ _ T1 T2 Hd) as H.
    cbn [snd] in H. specialize (H ltac:(destruct it1; discriminate) ltac:(destruct it2; discriminate)).
    assert (E : flat_map (fun x => it_tc (snd x)) (typed_items f) = flat_map it_tc (map snd (typed_items f))).
    { clear. induction (typed_items f) as [|x l IH]; [reflexivity|]. cbn. rewrite IH. reflexivity. }
    rewrite E, (typed_tc f Hl) in H. pose proof (length_le1_opt (k_toolchain (abs f))). lia.
Qed.

(* every block of a cleaned good tree has a known verb *)
Theorem blocks_known : SynGood known (fsyn f) -> Cleaned (fsyn f) ->
  forall b, In (SBlock b) (stmts (fsyn f)) -> exists verb, hb_tok b = [verb] /\ known verb = true.
Proof.
  intros Hg Hcl b Hb. pose proof (sg_stmts known _ Hg) as Hs. rewrite Forall_forall in Hs. specialize (Hs _ Hb).
  cbn [stmt_good] in Hs. destruct Hs as (_ & _ & _ & _ & _ & _ & _ & _ & _ & _ & verb & Ht & [Hk|Hrp]).
  - exists verb. auto.
  - exists verb. split; [exact Ht|]. unfold Cleaned in Hcl. rewrite Forall_forall in Hcl. specialize (Hcl _ Hb).
    cbn [stmt_cleaned] in Hcl. destruct Hcl as (Hlive & Hne & Hone).
    apply (block_known b verb Hb Ht Hlive).
    destruct (hb_lines b) as [|i1 [|i2 more]]; [congruence|exfalso; apply (Hone i1 eq_refl); exact Hrp|cbn; lia].
Qed.
End Unknown.

(* ---------------------------------------------------------------- (c) Printable *)

Lemma ctext_bcoms first cs : Forall ctext cs -> bcoms_ok first cs.
Proof.
  intros H. split; [eapply Forall_impl; [|exact H]; intros c Hc; right; exact Hc|]. split.
  - induction H as [|c cs Hc Hcs IH]; [exact I|]. cbn [no_adj_blank]. split; [|exact IH].
    destruct cs; [exact I|]. intros ->. destruct Hc as (Hp & _). discriminate.
  - intros _. destruct cs as [|c cs]; [exact I|]. cbn. intros ->. destruct (Forall_inv H) as (Hp & _). discriminate.
Qed.

Lemma good_coms known s : SynGood known s -> Cleaned s -> ComsOk s.
Proof.
  intros [Hh Hf Hs] Hcl. split; [exact Hf|]. unfold Cleaned in Hcl.
  rewrite Forall_forall in *. intros st Hst. specialize (Hs st Hst). specialize (Hcl st Hst).
  destruct st as [i|b|c]; cbn [stmt_coms_ok stmt_good stmt_cleaned] in *.
  - destruct (Hh i) as (A & B & _ & D). auto.
  - destruct Hs as (A1 & A2 & A3 & A4 & A5 & A6 & A7 & A8 & A9 & A10 & _). destruct Hcl as (_ & Hne & _).
    repeat (split; [assumption|]). split; [|split; [|split; assumption]].
    + clear -Hh. generalize true. induction (hb_lines b) as [|i ls IH]; intros first; cbn [map blines_coms_ok]; [exact I|].
      split; [|apply IH]. change (hget (heap s) i) with (sget s i). destruct (Hh i) as (A & B & _ & D).
      split; [apply ctext_bcoms; exact A|]. auto.
    + destruct (hb_lines b); [congruence|]. cbn [is_nil]. split; [exact A7|]. split; [exact A8|discriminate].
  - exact Hs.
Qed.

Lemma good_ascii known s i : SynGood known s -> Forall ascii (c_suffix (hl_com (sget s i))).
Proof. intros [Hh _ _]. destruct (Hh i) as (_ & _ & C & _). exact C. Qed.

Lemma live_nonnil h i : EditModel.line_live h i = true -> hl_tok (hget h i) <> [].
Proof. unfold EditModel.line_live. destruct (hl_tok (hget h i)); [discriminate|discriminate]. Qed.

Theorem printable_mod f : Coherent f -> Forall (fun x => mod_item (snd x)) (typed_items f) ->
  SynGood known_mod_block (fsyn f) -> Cleaned (fsyn f) -> Printable known_mod_block (fsyn f).
Proof.
  intros Hc Hk Hg Hcl. split; [eapply good_coms; eassumption|].
  pose proof (blocks_known f known_mod_block mod_item unknown_verb_mod Hc Hk Hg Hcl) as Hb.
  unfold Cleaned in Hcl. rewrite Forall_forall in *. intros st Hst. specialize (Hcl st Hst).
  destruct st as [i|b|c]; cbn [stmt_ready stmt_cleaned] in *; [| |exact I].
  - split; [apply live_nonnil; exact Hcl|eapply good_ascii; exact Hg].
  - split; [apply Hb; exact Hst|]. destruct Hcl as (Hl & _). eapply Forall_impl; [|exact Hl].
    intros i Hi. split; [apply live_nonnil; exact Hi|eapply good_ascii; exact Hg].
Qed.

Theorem printable_work f : Coherent f -> Forall (fun x => work_item (snd x)) (typed_items f) ->
  SynGood known_work_block (fsyn f) -> Cleaned (fsyn f) -> PrintableW (fsyn f).
Proof.
  intros Hc Hk Hg Hcl. split; [eapply good_coms; eassumption|].
  pose proof (blocks_known f known_work_block work_item unknown_verb_work Hc Hk Hg Hcl) as Hb.
  unfold Cleaned in Hcl. rewrite Forall_forall in *. intros st Hst. specialize (Hcl st Hst).
  destruct st as [i|b|c]; cbn [stmt_readyW stmt_cleaned] in *; [| |exact I].
  - apply live_nonnil; exact Hcl.
  - split; [apply Hb; exact Hst|]. destruct Hcl as (Hl & _). eapply Forall_impl; [|exact Hl].
    intros i Hi. apply live_nonnil; exact Hi.
Qed.
