(* The parser of modfile/read.go (parse, parseFile, parseStmt, parseLineBlock, parseLine)
   and the comment assignment (order, assignComments).  Definitions only.

   The parser state is the list of tokens not yet consumed; its head is in.token (the
   look-ahead), the lexer position in.pos is the end position of that head.  [advance]
   is in.lex(): it returns the head and "reads the next token", which fails with the
   lexer's error if the token list ends there without an EOF token.  At the EOF token
   the list is not shortened (readToken at end of input delivers EOF again). *)
From Verif.Base Require Import Bytes.
From Verif.Modfile Require Import Syntax Lex.

Inductive parse_result :=
| POk (f : file_syntax)
| PErrs (errs : list (position * err_class))
| PPanic
| POutOfFuel.

(* results of the parser's sub-functions: a value and the remaining tokens *)
Inductive pres (A : Type) :=
| ROk (a : A) (rest : list token)
| RErr (p : position) (e : err_class)
| RPanic
| RFuel.
Arguments ROk {A} a rest.
Arguments RErr {A} p e.
Arguments RPanic {A}.
Arguments RFuel {A}.

Definition fail_of {A} (lend : lex_end) : pres A :=
  match lend with
  | LErr p e => RErr p e
  | LFuel => RFuel
  | LPanic => RPanic
  | LEnd => RPanic      (* the list ended without EOF token although the lexer reached EOF *)
  end.

(* in.lex() *)
Definition advance (lend : lex_end) (ts : list token) : pres token :=
  match ts with
  | [] => fail_of lend
  | [t] => if is_eof (t_kind t) then ROk t [t] else fail_of lend
  | t :: rest => ROk t rest
  end.

(* in.peek(); on the empty list (not reachable) EOF *)
Definition peek (ts : list token) : tkind :=
  match ts with [] => KEOF | t :: _ => t_kind t end.

(* in.pos while the parser runs: the lexer has just delivered the look-ahead *)
Definition cur_pos (ts : list token) : position :=
  match ts with [] => zero_pos | t :: _ => t_end t end.

Definition bind {A B} (r : pres A) (k : A -> list token -> pres B) : pres B :=
  match r with
  | ROk a rest => k a rest
  | RErr p e => RErr p e
  | RPanic => RPanic
  | RFuel => RFuel
  end.

Definition is_kpunct (k : tkind) (c : Z) : bool :=
  match k with KPunct d => d =? c | _ => false end.

(* parseLine; the loop collects tokens up to the end of line *)
Fixpoint line_loop (f : nat) (lend : lex_end) (start endp : position) (tokens : list str)
         (ts : list token) : pres line :=
  match f with
  | O => RFuel
  | S f' =>
      bind (advance lend ts) (fun tok ts1 =>
        if is_eol (t_kind tok) then
          ROk (mkLine no_comments start tokens true endp) ts1
        else line_loop f' lend start (t_end tok) (tokens ++ [t_text tok]) ts1)
  end.

Definition parse_line (f : nat) (lend : lex_end) (ts : list token) : pres line :=
  bind (advance lend ts) (fun tok ts1 =>
    if is_eol (t_kind tok) then RPanic     (* "internal parse error: parseLine at end of line" *)
    else line_loop f lend (t_pos tok) (t_end tok) [t_text tok] ts1).

Definition set_before (c : comments) (b : list comment) : comments :=
  mkComments b (cm_suffix c) (cm_after c).
Definition set_suffix (c : comments) (s : list comment) : comments :=
  mkComments (cm_before c) s (cm_after c).
Definition set_after (c : comments) (a : list comment) : comments :=
  mkComments (cm_before c) (cm_suffix c) a.

Definition line_set_before (l : line) (b : list comment) : line :=
  mkLine (set_before (l_comments l) b) (l_start l) (l_token l) (l_inblock l) (l_end l).

Definition last_token_nonempty (cs : list comment) : bool :=
  match rev cs with
  | c :: _ => negb (match c_token c with [] => true | _ => false end)
  | [] => false
  end.

Definition is_nil {A} (l : list A) : bool := match l with [] => true | _ => false end.

(* the loop of parseLineBlock *)
Fixpoint block_loop (f : nat) (lend : lex_end) (start : position) (btoks : list str)
         (lparen : token) (coms : list comment) (lines : list line) (ts : list token)
  : pres line_block :=
  match f with
  | O => RFuel
  | S f' =>
      match peek ts with
      | KEOLComment =>
          bind (advance lend ts) (fun _ ts1 => block_loop f' lend start btoks lparen coms lines ts1)
      | KComment =>
          bind (advance lend ts) (fun tok ts1 =>
            block_loop f' lend start btoks lparen
                       (coms ++ [mkComment (t_pos tok) (t_text tok) false]) lines ts1)
      | KEOF => RErr (cur_pos ts) EUnterminatedBlock
      | KPunct c =>
          if c =? 10 then
            bind (advance lend ts) (fun _ ts1 =>
              let coms' :=
                if (is_nil coms && negb (is_nil lines)) || (negb (is_nil coms) && last_token_nonempty coms)
                then coms ++ [blank_comment] else coms in
              block_loop f' lend start btoks lparen coms' lines ts1)
          else if c =? 41 then
            bind (advance lend ts) (fun rparen ts1 =>
              if negb (is_eol (peek ts1)) then RErr (cur_pos ts1) EExpectedNewline
              else bind (advance lend ts1) (fun _ ts2 =>
                ROk (mkBlock no_comments start (mkParen no_comments (t_pos lparen)) btoks lines
                             (mkParen (set_before no_comments coms) (t_pos rparen))) ts2))
          else
            bind (parse_line f' lend ts) (fun l ts1 =>
              block_loop f' lend start btoks lparen [] (lines ++ [line_set_before l coms]) ts1)
      | _ =>
          bind (parse_line f' lend ts) (fun l ts1 =>
            block_loop f' lend start btoks lparen [] (lines ++ [line_set_before l coms]) ts1)
      end
  end.

(* the loop of parseStmt *)
Fixpoint stmt_loop (f : nat) (lend : lex_end) (start endp : position) (tokens : list str)
         (ts : list token) : pres expr :=
  match f with
  | O => RFuel
  | S f' =>
      bind (advance lend ts) (fun tok ts1 =>
        if is_eol (t_kind tok) then
          ROk (ELine (mkLine no_comments start tokens false endp)) ts1
        else if is_kpunct (t_kind tok) 40 then
          let next := peek ts1 in
          if is_eol next then
            bind (block_loop f' lend start tokens tok [] [] ts1) (fun b ts2 => ROk (EBlock b) ts2)
          else if is_kpunct next 41 then
            bind (advance lend ts1) (fun rparen ts2 =>
              if is_eol (peek ts2) then
                bind (advance lend ts2) (fun _ ts3 =>
                  ROk (EBlock (mkBlock no_comments start (mkParen no_comments (t_pos tok)) tokens []
                                       (mkParen no_comments (t_pos rparen)))) ts3)
              else stmt_loop f' lend start endp (tokens ++ [t_text tok; t_text rparen]) ts2)
          else stmt_loop f' lend start endp (tokens ++ [t_text tok]) ts1
        else stmt_loop f' lend start (t_end tok) (tokens ++ [t_text tok]) ts1)
  end.

Definition parse_stmt (f : nat) (lend : lex_end) (ts : list token) : pres expr :=
  bind (advance lend ts) (fun tok ts1 =>
    stmt_loop f lend (t_pos tok) (t_end tok) [t_text tok] ts1).

Definition expr_comments (x : expr) : comments :=
  match x with
  | ELine l => l_comments l
  | EBlock b => b_comments b
  | ECommentBlock c => cb_comments c
  end.

Definition expr_set_comments (x : expr) (c : comments) : expr :=
  match x with
  | ELine l => ELine (mkLine c (l_start l) (l_token l) (l_inblock l) (l_end l))
  | EBlock b => EBlock (mkBlock c (b_start b) (b_lparen b) (b_token b) (b_line b) (b_rparen b))
  | ECommentBlock cb => ECommentBlock (mkCommentBlock c (cb_start cb))
  end.

Definition cb_add_before (cb : comment_block) (c : comment) : comment_block :=
  mkCommentBlock (set_before (cb_comments cb) (cm_before (cb_comments cb) ++ [c])) (cb_start cb).

Definition push_cb (cb : option comment_block) (stmts : list expr) : list expr :=
  match cb with Some c => stmts ++ [ECommentBlock c] | None => stmts end.

(* parseFile; [stmts] is in.file.Stmt *)
Fixpoint file_loop (f : nat) (lend : lex_end) (cb : option comment_block) (stmts : list expr)
         (ts : list token) : pres (list expr) :=
  match f with
  | O => RFuel
  | S f' =>
      match peek ts with
      | KEOF => ROk (push_cb cb stmts) ts
      | KComment =>
          bind (advance lend ts) (fun tok ts1 =>
            let cb0 := match cb with Some c => c | None => mkCommentBlock no_comments (t_pos tok) end in
            file_loop f' lend (Some (cb_add_before cb0 (mkComment (t_pos tok) (t_text tok) false))) stmts ts1)
      | k =>
          if is_kpunct k 10 then
            bind (advance lend ts) (fun _ ts1 => file_loop f' lend None (push_cb cb stmts) ts1)
          else
            bind (parse_stmt f' lend ts) (fun s ts1 =>
              let stmts1 := stmts ++ [s] in
              match cb with
              | None => file_loop f' lend None stmts1 ts1
              | Some c =>
                  (* in.file.Stmt[len(in.file.Stmt)-1].Comment().Before = cb.Before *)
                  match rev stmts1 with
                  | [] => RPanic
                  | lst :: r =>
                      file_loop f' lend None
                        (rev r ++ [expr_set_comments lst (set_before (expr_comments lst) (cm_before (cb_comments c)))])
                        ts1
                  end
              end)
      end
  end.

(* ---------------------------------------------------------------- comment assignment *)

(* Position.add(")") *)
Definition pos_add_paren (p : position) : position :=
  mkPos (p_line p) (p_col p + 1) (p_byte p + 1).

Definition expr_span (x : expr) : position * position :=
  match x with
  | ELine l => (l_start l, l_end l)
  | EBlock b => (b_start b, pos_add_paren (pr_pos (b_rparen b)))
  | ECommentBlock c => (cb_start c, cb_start c)
  end.

Definition paren_span (p : paren) : position * position := (pr_pos p, pos_add_paren (pr_pos p)).

Definition file_span (stmts : list expr) : position * position :=
  match stmts with
  | [] => (zero_pos, zero_pos)
  | s :: _ => (fst (expr_span s), snd (expr_span (last stmts s)))
  end.

Fixpoint span_by {A} (p : A -> bool) (l : list A) : list A * list A :=
  match l with
  | [] => ([], [])
  | x :: r => if p x then let (a, b) := span_by p r in (x :: a, b) else ([], l)
  end.

(* Whole-line comments (first loop of assignComments, over in.pre): the node starting at
   [start] takes every pending comment that starts at or before it. *)
Definition take_before (start : position) (c : comments) (pending : list comment)
  : comments * list comment :=
  let (tk, rest) := span_by (fun x => p_byte (c_start x) <=? p_byte start) pending in
  (set_before c (cm_before c ++ tk), rest).

Definition line_set_comments (l : line) (c : comments) : line :=
  mkLine c (l_start l) (l_token l) (l_inblock l) (l_end l).

Definition pre_line (l : line) (pending : list comment) : line * list comment :=
  let (c, p) := take_before (l_start l) (l_comments l) pending in (line_set_comments l c, p).

Fixpoint pre_lines (ls : list line) (pending : list comment) : list line * list comment :=
  match ls with
  | [] => ([], pending)
  | l :: r => let (l', p1) := pre_line l pending in
              let (r', p2) := pre_lines r p1 in (l' :: r', p2)
  end.

Definition pre_paren (x : paren) (pending : list comment) : paren * list comment :=
  let (c, p) := take_before (pr_pos x) (pr_comments x) pending in (mkParen c (pr_pos x), p).

(* preorder: the block, its LParen, its lines, its RParen *)
Definition pre_expr (x : expr) (pending : list comment) : expr * list comment :=
  match x with
  | ELine l => let (l', p) := pre_line l pending in (ELine l', p)
  | ECommentBlock cb =>
      let (c, p) := take_before (cb_start cb) (cb_comments cb) pending in
      (ECommentBlock (mkCommentBlock c (cb_start cb)), p)
  | EBlock b =>
      let (c, p0) := take_before (b_start b) (b_comments b) pending in
      let (lp, p1) := pre_paren (b_lparen b) p0 in
      let (ls, p2) := pre_lines (b_line b) p1 in
      let (rp, p3) := pre_paren (b_rparen b) p2 in
      (EBlock (mkBlock c (b_start b) lp (b_token b) ls rp), p3)
  end.

Fixpoint pre_stmts (l : list expr) (pending : list comment) : list expr * list comment :=
  match l with
  | [] => ([], pending)
  | x :: r => let (x', p1) := pre_expr x pending in
              let (r', p2) := pre_stmts r p1 in (x' :: r', p2)
  end.

(* Suffix comments (second loop, over in.post backwards).  [sr] is the list of pending
   suffix comments reversed (last comment first).  A node that starts and ends on the
   same line takes every pending comment that starts at or after its end; the third loop
   (reverseComments) is applied here as well. *)
Definition take_suffix (sp : position * position) (c : comments) (sr : list comment)
  : comments * list comment :=
  if p_line (fst sp) =? p_line (snd sp) then
    let (tk, rest) := span_by (fun x => p_byte (snd sp) <=? p_byte (c_start x)) sr in
    (set_suffix c (rev (cm_suffix c ++ tk)), rest)
  else (set_suffix c (rev (cm_suffix c)), sr).

Definition post_line (l : line) (sr : list comment) : line * list comment :=
  let (c, s) := take_suffix (l_start l, l_end l) (l_comments l) sr in (line_set_comments l c, s).

(* the last line first *)
Fixpoint post_lines (ls : list line) (sr : list comment) : list line * list comment :=
  match ls with
  | [] => ([], sr)
  | l :: r => let (r', s1) := post_lines r sr in
              let (l', s2) := post_line l s1 in (l' :: r', s2)
  end.

Definition post_paren (x : paren) (sr : list comment) : paren * list comment :=
  let (c, s) := take_suffix (paren_span x) (pr_comments x) sr in (mkParen c (pr_pos x), s).

(* postorder backwards: the block, its RParen, its lines backwards, its LParen *)
Definition post_expr (x : expr) (sr : list comment) : expr * list comment :=
  match x with
  | ELine l => let (l', s) := post_line l sr in (ELine l', s)
  | ECommentBlock cb =>
      let (c, s) := take_suffix (cb_start cb, cb_start cb) (cb_comments cb) sr in
      (ECommentBlock (mkCommentBlock c (cb_start cb)), s)
  | EBlock b =>
      let (c, s0) := take_suffix (expr_span x) (b_comments b) sr in
      let (rp, s1) := post_paren (b_rparen b) s0 in
      let (ls, s2) := post_lines (b_line b) s1 in
      let (lp, s3) := post_paren (b_lparen b) s2 in
      (EBlock (mkBlock c (b_start b) lp (b_token b) ls rp), s3)
  end.

Fixpoint post_stmts (l : list expr) (sr : list comment) : list expr * list comment :=
  match l with
  | [] => ([], sr)
  | x :: r => let (r', s1) := post_stmts r sr in
              let (x', s2) := post_expr x s1 in (x' :: r', s2)
  end.

(* assignComments; [coms] is in.comments *)
Definition assign_comments (name : str) (stmts : list expr) (coms : list comment) : file_syntax :=
  let linec := filter (fun c => negb (c_suffix c)) coms in
  let suffix := filter c_suffix coms in
  let (fc, p0) := take_before (fst (file_span stmts)) no_comments linec in
  let (stmts1, p1) := pre_stmts stmts p0 in
  let fc1 := set_after fc (cm_after fc ++ p1) in
  let (stmts2, s1) := post_stmts stmts1 (rev suffix) in
  let fc2 := set_suffix fc1 (rev (cm_suffix fc1)) in
  mkFile name (set_before fc2 (cm_before fc2 ++ rev s1)) stmts2.

(* in.comments: every _EOLCOMMENT token, in order *)
Definition comments_of (ts : list token) : list comment :=
  flat_map (fun t => match t_kind t with
                     | KEOLComment => [mkComment (t_pos t) (t_text t) true]
                     | _ => []
                     end) ts.

Definition parse_fuel (ts : list token) : nat := (length ts + 2)%nat.

(* read.go parse, on the lexed token stream *)
Definition parse_tokens (name : str) (ts : list token) (lend : lex_end) : parse_result :=
  let r := match ts with
           | [] => fail_of lend      (* the priming in.readToken() failed *)
           | _ => file_loop (parse_fuel ts) lend None [] ts
           end in
  match r with
  | ROk stmts _ => POk (assign_comments name stmts (comments_of ts))
  | RErr p e => PErrs [(p, e)]
  | RPanic => PPanic
  | RFuel => POutOfFuel
  end.

Definition parse_named (name data : str) : parse_result :=
  let (ts, lend) := lex data in parse_tokens name ts lend.

Definition parse (data : str) : parse_result := parse_named [] data.
