(* The parser of modfile/read.go (parse, parseFile, parseStmt, parseLineBlock, parseLine)
   and the comment assignment (order, assignComments).  Definitions only.

   The parser state is the list of tokens not yet consumed; its head is in.token (the
   look-ahead), the lexer position in.pos is the end position of that head.  [advance]
   is in.lex(): it returns the head and "reads the next token", which fails with the
   lexer's error if the token list ends there without an EOF token.  At the EOF token
   the list is not shortened (readToken at end of input delivers EOF again). *)
From Verif.Base Require Import Bytes.
From Verif.Modfile Require Import Syntax Lex.

Inductive parse_result :=
| POk (f : file_syntax)
| PErrs (errs : list (position * err_class))
| PPanic
| POutOfFuel.

(* results of the parser's sub-functions: a value and the remaining tokens *)
Inductive pres (A : Type) :=
| ROk (a : A) (rest : list token)
| RErr (p : position) (e : err_class)
| RPanic
| RFuel.
Arguments ROk {A} a rest.
Arguments RErr {A} p e.
Arguments RPanic {A}.
Arguments RFuel {A}.

Definition fail_of {A} (lend : lex_end) : pres A :=
  match lend with
  | LErr p e => RErr p e
  | LFuel => RFuel
  | LPanic => RPanic
  | LEnd => RPanic      (* the list ended without EOF token although the lexer reached EOF *)
  end.

(* in.lex() *)
Definition advance (lend : lex_end) (ts : list token) : pres token :=
  match ts with
  | [] => fail_of lend
  | [t] => if is_eof (t_kind t) then ROk t [t] else fail_of lend
  | t :: rest => ROk t rest
  end.

(* in.peek(); on the empty list (not reachable) EOF *)
Definition peek (ts : list token) : tkind :=
  match ts with [] => KEOF | t :: _ => t_kind t end.

(* in.pos while the parser runs: the lexer has just delivered the look-ahead *)
Definition cur_pos (ts : list token) : position :=
  match ts with [] => zero_pos | t :: _ => t_end t end.

Definition bind {A B} (r : pres A) (k : A -> list token -> pres B) : pres B :=
  match r with
  | ROk a rest => k a rest
  | RErr p e => RErr p e
  | RPanic => RPanic
  | RFuel => RFuel
  end.

Definition is_kpunct (k : tkind) (c : Z) : bool :=
  match k with KPunct d => d =? c | _ => false end.

(* The loops below accumulate tokens, lines, comments and statements in reversed lists
   ([..._r], last element first) and reverse once at the end ([frev]). *)

(* parseLine; the loop collects tokens up to the end of line *)
Fixpoint line_loop (f : nat) (lend : lex_end) (start endp : position) (tokens_r : list str)
         (ts : list token) : pres line :=
  match f with
  | O => RFuel
  | S f' =>
      bind (advance lend ts) (fun tok ts1 =>
        if is_eol (t_kind tok) then
          ROk (mkLine no_comments start (frev tokens_r) true endp) ts1
        else line_loop f' lend start (t_end tok) (t_text tok :: tokens_r) ts1)
  end.

Definition parse_line (f : nat) (lend : lex_end) (ts : list token) : pres line :=
  bind (advance lend ts) (fun tok ts1 =>
    if is_eol (t_kind tok) then RPanic     (* "internal parse error: parseLine at end of line" *)
    else line_loop f lend (t_pos tok) (t_end tok) [t_text tok] ts1).

Definition set_before (c : comments) (b : list comment) : comments :=
  mkComments b (cm_suffix c) (cm_after c).
Definition set_suffix (c : comments) (s : list comment) : comments :=
  mkComments (cm_before c) s (cm_after c).
Definition set_after (c : comments) (a : list comment) : comments :=
  mkComments (cm_before c) (cm_suffix c) a.

Definition line_set_before (l : line) (b : list comment) : line :=
  mkLine (set_before (l_comments l) b) (l_start l) (l_token l) (l_inblock l) (l_end l).

Definition is_nil {A} (l : list A) : bool := match l with [] => true | _ => false end.

(* comments[len(comments)-1].Token != "" on the reversed list *)
Definition last_token_nonempty (coms_r : list comment) : bool :=
  match coms_r with
  | c :: _ => negb (is_nil (c_token c))
  | [] => false
  end.

(* the loop of parseLineBlock *)
Fixpoint block_loop (f : nat) (lend : lex_end) (start : position) (btoks : list str)
         (lparen : token) (coms_r : list comment) (lines_r : list line) (ts : list token)
  : pres line_block :=
  match f with
  | O => RFuel
  | S f' =>
      match peek ts with
      | KEOLComment =>
          bind (advance lend ts) (fun _ ts1 => block_loop f' lend start btoks lparen coms_r lines_r ts1)
      | KComment =>
          bind (advance lend ts) (fun tok ts1 =>
            block_loop f' lend start btoks lparen
                       (mkComment (t_pos tok) (t_text tok) false :: coms_r) lines_r ts1)
      | KEOF => RErr (cur_pos ts) EUnterminatedBlock
      | KPunct c =>
          if c =? 10 then
            bind (advance lend ts) (fun _ ts1 =>
              let coms' :=
                if (is_nil coms_r && negb (is_nil lines_r)) || (negb (is_nil coms_r) && last_token_nonempty coms_r)
                then blank_comment :: coms_r else coms_r in
              block_loop f' lend start btoks lparen coms' lines_r ts1)
          else if c =? 41 then
            bind (advance lend ts) (fun rparen ts1 =>
              if negb (is_eol (peek ts1)) then RErr (cur_pos ts1) EExpectedNewline
              else bind (advance lend ts1) (fun _ ts2 =>
                ROk (mkBlock no_comments start (mkParen no_comments (t_pos lparen)) btoks (frev lines_r)
                             (mkParen (set_before no_comments (frev coms_r)) (t_pos rparen))) ts2))
          else
            bind (parse_line f' lend ts) (fun l ts1 =>
              block_loop f' lend start btoks lparen [] (line_set_before l (frev coms_r) :: lines_r) ts1)
      | _ =>
          bind (parse_line f' lend ts) (fun l ts1 =>
            block_loop f' lend start btoks lparen [] (line_set_before l (frev coms_r) :: lines_r) ts1)
      end
  end.

(* the loop of parseStmt *)
Fixpoint stmt_loop (f : nat) (lend : lex_end) (start endp : position) (tokens_r : list str)
         (ts : list token) : pres expr :=
  match f with
  | O => RFuel
  | S f' =>
      bind (advance lend ts) (fun tok ts1 =>
        if is_eol (t_kind tok) then
          ROk (ELine (mkLine no_comments start (frev tokens_r) false endp)) ts1
        else if is_kpunct (t_kind tok) 40 then
          let next := peek ts1 in
          if is_eol next then
            bind (block_loop f' lend start (frev tokens_r) tok [] [] ts1) (fun b ts2 => ROk (EBlock b) ts2)
          else if is_kpunct next 41 then
            bind (advance lend ts1) (fun rparen ts2 =>
              if is_eol (peek ts2) then
                bind (advance lend ts2) (fun _ ts3 =>
                  ROk (EBlock (mkBlock no_comments start (mkParen no_comments (t_pos tok)) (frev tokens_r) []
                                       (mkParen no_comments (t_pos rparen)))) ts3)
              else stmt_loop f' lend start endp (t_text rparen :: t_text tok :: tokens_r) ts2)
          else stmt_loop f' lend start endp (t_text tok :: tokens_r) ts1
        else stmt_loop f' lend start (t_end tok) (t_text tok :: tokens_r) ts1)
  end.

Definition parse_stmt (f : nat) (lend : lex_end) (ts : list token) : pres expr :=
  bind (advance lend ts) (fun tok ts1 =>
    stmt_loop f lend (t_pos tok) (t_end tok) [t_text tok] ts1).

Definition expr_comments (x : expr) : comments :=
  match x with
  | ELine l => l_comments l
  | EBlock b => b_comments b
  | ECommentBlock c => cb_comments c
  end.

Definition expr_set_comments (x : expr) (c : comments) : expr :=
  match x with
  | ELine l => ELine (mkLine c (l_start l) (l_token l) (l_inblock l) (l_end l))
  | EBlock b => EBlock (mkBlock c (b_start b) (b_lparen b) (b_token b) (b_line b) (b_rparen b))
  | ECommentBlock cb => ECommentBlock (mkCommentBlock c (cb_start cb))
  end.

(* the pending comment block cb of parseFile: its Start and its Before list, reversed *)
Definition pending_cb := option (position * list comment).

Definition cb_of (start : position) (before_r : list comment) : comment_block :=
  mkCommentBlock (set_before no_comments (frev before_r)) start.

Definition push_cb (cb : pending_cb) (stmts_r : list expr) : list expr :=
  match cb with Some (p, b) => ECommentBlock (cb_of p b) :: stmts_r | None => stmts_r end.

(* parseFile; [stmts_r] is in.file.Stmt reversed *)
Fixpoint file_loop (f : nat) (lend : lex_end) (cb : pending_cb) (stmts_r : list expr)
         (ts : list token) : pres (list expr) :=
  match f with
  | O => RFuel
  | S f' =>
      match peek ts with
      | KEOF => ROk (frev (push_cb cb stmts_r)) ts
      | KComment =>
          bind (advance lend ts) (fun tok ts1 =>
            let c := mkComment (t_pos tok) (t_text tok) false in
            let cb' := match cb with Some (p, b) => (p, c :: b) | None => (t_pos tok, [c]) end in
            file_loop f' lend (Some cb') stmts_r ts1)
      | k =>
          if is_kpunct k 10 then
            bind (advance lend ts) (fun _ ts1 => file_loop f' lend None (push_cb cb stmts_r) ts1)
          else
            bind (parse_stmt f' lend ts) (fun s ts1 =>
              let stmts1 := s :: stmts_r in
              match cb with
              | None => file_loop f' lend None stmts1 ts1
              | Some (_, b) =>
                  (* in.file.Stmt[len(in.file.Stmt)-1].Comment().Before = cb.Before *)
                  match stmts1 with
                  | [] => RPanic
                  | lst :: r =>
                      file_loop f' lend None
                        (expr_set_comments lst (set_before (expr_comments lst) (frev b)) :: r) ts1
                  end
              end)
      end
  end.

(* ---------------------------------------------------------------- comment assignment *)

(* Position.add(")") *)
Definition pos_add_paren (p : position) : position :=
  mkPos (p_line p) (p_col p + 1) (p_byte p + 1).

Definition expr_span (x : expr) : position * position :=
  match x with
  | ELine l => (l_start l, l_end l)
  | EBlock b => (b_start b, pos_add_paren (pr_pos (b_rparen b)))
  | ECommentBlock c => (cb_start c, cb_start c)
  end.

Definition paren_span (p : paren) : position * position := (pr_pos p, pos_add_paren (pr_pos p)).

Definition file_span (stmts : list expr) : position * position :=
  match stmts with
  | [] => (zero_pos, zero_pos)
  | s :: _ => (fst (expr_span s), snd (expr_span (last stmts s)))
  end.

Fixpoint span_by {A} (p : A -> bool) (l : list A) : list A * list A :=
  match l with
  | [] => ([], [])
  | x :: r => if p x then let (a, b) := span_by p r in (x :: a, b) else ([], l)
  end.

(* Whole-line comments (first loop of assignComments, over in.pre): the node starting at
   [start] takes every pending comment that starts at or before it. *)
Definition take_before (start : position) (c : comments) (pending : list comment)
  : comments * list comment :=
  let (tk, rest) := span_by (fun x => p_byte (c_start x) <=? p_byte start) pending in
  (set_before c (cm_before c ++ tk), rest).

Definition line_set_comments (l : line) (c : comments) : line :=
  mkLine c (l_start l) (l_token l) (l_inblock l) (l_end l).

Definition pre_line (l : line) (pending : list comment) : line * list comment :=
  let (c, p) := take_before (l_start l) (l_comments l) pending in (line_set_comments l c, p).

Fixpoint pre_lines (ls : list line) (pending : list comment) (acc : list line)
  : list line * list comment :=
  match ls with
  | [] => (frev acc, pending)
  | l :: r => let (l', p1) := pre_line l pending in pre_lines r p1 (l' :: acc)
  end.

Definition pre_paren (x : paren) (pending : list comment) : paren * list comment :=
  let (c, p) := take_before (pr_pos x) (pr_comments x) pending in (mkParen c (pr_pos x), p).

(* preorder: the block, its LParen, its lines, its RParen *)
Definition pre_expr (x : expr) (pending : list comment) : expr * list comment :=
  match x with
  | ELine l => let (l', p) := pre_line l pending in (ELine l', p)
  | ECommentBlock cb =>
      let (c, p) := take_before (cb_start cb) (cb_comments cb) pending in
      (ECommentBlock (mkCommentBlock c (cb_start cb)), p)
  | EBlock b =>
      let (c, p0) := take_before (b_start b) (b_comments b) pending in
      let (lp, p1) := pre_paren (b_lparen b) p0 in
      let (ls, p2) := pre_lines (b_line b) p1 [] in
      let (rp, p3) := pre_paren (b_rparen b) p2 in
      (EBlock (mkBlock c (b_start b) lp (b_token b) ls rp), p3)
  end.

Fixpoint pre_stmts (l : list expr) (pending : list comment) (acc : list expr)
  : list expr * list comment :=
  match l with
  | [] => (frev acc, pending)
  | x :: r => let (x', p1) := pre_expr x pending in pre_stmts r p1 (x' :: acc)
  end.

(* Suffix comments (second loop, over in.post backwards).  [sr] is the list of pending
   suffix comments reversed (last comment first).  A node that starts and ends on the
   same line takes every pending comment that starts at or after its end; the third loop
   (reverseComments) is applied here as well. *)
Definition take_suffix (sp : position * position) (c : comments) (sr : list comment)
  : comments * list comment :=
  if p_line (fst sp) =? p_line (snd sp) then
    let (tk, rest) := span_by (fun x => p_byte (snd sp) <=? p_byte (c_start x)) sr in
    (set_suffix c (frev (cm_suffix c ++ tk)), rest)
  else (set_suffix c (frev (cm_suffix c)), sr).

Definition post_line (l : line) (sr : list comment) : line * list comment :=
  let (c, s) := take_suffix (l_start l, l_end l) (l_comments l) sr in (line_set_comments l c, s).

(* the last line first: [ls_r] is the list of lines reversed *)
Fixpoint post_lines (ls_r : list line) (sr : list comment) (acc : list line)
  : list line * list comment :=
  match ls_r with
  | [] => (acc, sr)
  | l :: r => let (l', s1) := post_line l sr in post_lines r s1 (l' :: acc)
  end.

Definition post_paren (x : paren) (sr : list comment) : paren * list comment :=
  let (c, s) := take_suffix (paren_span x) (pr_comments x) sr in (mkParen c (pr_pos x), s).

(* postorder backwards: the block, its RParen, its lines backwards, its LParen *)
Definition post_expr (x : expr) (sr : list comment) : expr * list comment :=
  match x with
  | ELine l => let (l', s) := post_line l sr in (ELine l', s)
  | ECommentBlock cb =>
      let (c, s) := take_suffix (cb_start cb, cb_start cb) (cb_comments cb) sr in
      (ECommentBlock (mkCommentBlock c (cb_start cb)), s)
  | EBlock b =>
      let (c, s0) := take_suffix (expr_span x) (b_comments b) sr in
      let (rp, s1) := post_paren (b_rparen b) s0 in
      let (ls, s2) := post_lines (frev (b_line b)) s1 [] in
      let (lp, s3) := post_paren (b_lparen b) s2 in
      (EBlock (mkBlock c (b_start b) lp (b_token b) ls rp), s3)
  end.

Fixpoint post_stmts (l_r : list expr) (sr : list comment) (acc : list expr)
  : list expr * list comment :=
  match l_r with
  | [] => (acc, sr)
  | x :: r => let (x', s1) := post_expr x sr in post_stmts r s1 (x' :: acc)
  end.

Fixpoint filter_r {A} (p : A -> bool) (l acc : list A) : list A :=
  match l with
  | [] => acc
  | x :: r => filter_r p r (if p x then x :: acc else acc)
  end.

(* assignComments; [coms] is in.comments *)
Definition assign_comments (name : str) (stmts : list expr) (coms : list comment) : file_syntax :=
  let linec := frev (filter_r (fun c => negb (c_suffix c)) coms []) in
  let suffix := frev (filter_r c_suffix coms []) in
  let (fc, p0) := take_before (fst (file_span stmts)) no_comments linec in
  let (stmts1, p1) := pre_stmts stmts p0 [] in
  let fc1 := set_after fc (cm_after fc ++ p1) in
  let (stmts2, s1) := post_stmts (frev stmts1) (frev suffix) [] in
  let fc2 := set_suffix fc1 (frev (cm_suffix fc1)) in
  mkFile name (set_before fc2 (cm_before fc2 ++ frev s1)) stmts2.

(* in.comments: every _EOLCOMMENT token, in order *)
Definition comments_of (ts : list token) : list comment :=
  frev (fold_left (fun acc t => match t_kind t with
                                | KEOLComment => mkComment (t_pos t) (t_text t) true :: acc
                                | _ => acc
                                end) ts []).

Definition parse_fuel (ts : list token) : nat := (length ts + 2)%nat.

(* read.go parse, on the lexed token stream *)
Definition parse_tokens (name : str) (ts : list token) (lend : lex_end) : parse_result :=
  let r := match ts with
           | [] => fail_of lend      (* the priming in.readToken() failed *)
           | _ => file_loop (parse_fuel ts) lend None [] ts
           end in
  match r with
  | ROk stmts _ => POk (assign_comments name stmts (comments_of ts))
  | RErr p e => PErrs [(p, e)]
  | RPanic => PPanic
  | RFuel => POutOfFuel
  end.

Definition parse_named (name data : str) : parse_result :=
  let (ts, lend) := lex data in parse_tokens name ts lend.

Definition parse (data : str) : parse_result := parse_named [] data.
