(* strict_implies_lax_same_core for an arbitrary version fixer: the strict and the lax run
   of parseToFile rebuild the lines of the retract directives identically, so fixRetract
   (which re-reads them) computes the same intervals and errors in both. *)
From Verif.Base Require Import Bytes Utf8 Strconv.
From Verif.Semver Require Import Model.
From Verif.Module Require Import Path.
From Verif.Modfile Require Import Syntax Lex Parse Print Directives ProofsLex ProofsParse ProofsDirectives LaxRetract.

(* ---------------------------------------------------------------- Forall2 helpers *)

Lemma Forall2_rev {A B} (R : A -> B -> Prop) l l' : Forall2 R l l' -> Forall2 R (rev l) (rev l').
Proof.
  induction 1 as [|a b l l' Hab H IH]; cbn; [constructor|].
  apply Forall2_app; [exact IH|constructor; [exact Hab|constructor]].
Qed.

Lemma Forall2_frev {A B} (R : A -> B -> Prop) l l' : Forall2 R l l' -> Forall2 R (frev l) (frev l').
Proof. rewrite !frev_rev. apply Forall2_rev. Qed.

Lemma Forall2_impl_in {A B} (P Q : A -> B -> Prop) l l' :
  Forall2 P l l' -> (forall a b, In a l -> In b l' -> P a b -> Q a b) -> Forall2 Q l l'.
Proof.
  induction 1 as [|a b l l' Hab H IH]; intros Himp; constructor.
  - apply Himp; [left; reflexivity|left; reflexivity|exact Hab].
  - apply IH. intros a0 b0 Ha Hb. apply Himp; right; assumption.
Qed.

Lemma Forall2_diag {A} (P : A -> A -> Prop) l : Forall (fun a => P a a) l -> Forall2 P l l.
Proof. induction 1; constructor; auto. Qed.

(* ---------------------------------------------------------------- two runs of fixRetract *)

(* corresponding Retract values: equal up to a relation [Q] between their Syntax pointers *)
Definition rvals (Q : line_ref -> line_ref -> Prop) (a b : retract_d) : Prop :=
  rt_low a = rt_low b /\ rt_high a = rt_high b /\ rt_rationale a = rt_rationale b /\
  Q (rt_syntax a) (rt_syntax b).

Lemma frl_agree fx path Q : forall rsA rsB,
  Forall2 (rvals Q) rsA rsB ->
  forall synA synB accA accB errs panic,
  Forall2 (fun a b => get_line synA (rt_syntax a) = get_line synB (rt_syntax b)) rsA rsB ->
  NoDup (map rt_syntax rsA) -> NoDup (map rt_syntax rsB) ->
  Forall2 (rvals Q) accA accB ->
  match fix_retract_loop fx path rsA synA accA errs panic,
        fix_retract_loop fx path rsB synB accB errs panic with
  | (ra, _, ea, pa), (rb, _, eb, pb) => Forall2 (rvals Q) ra rb /\ ea = eb /\ pa = pb
  end.
Proof.
  induction 1 as [|a b rsA rsB Hab Hrs IH]; intros synA synB accA accB errs panic Hl HnA HnB Hacc;
    cbn [fix_retract_loop].
  - split; [apply Forall2_frev; exact Hacc|auto].
  - inversion Hl as [|? ? ? ? Hl0 Hl']; subst. inversion HnA as [|? ? HninA HnA']; subst.
    inversion HnB as [|? ? HninB HnB']; subst.
    rewrite Hl0.
    assert (Hstop : Forall2 (rvals Q) (frev accA ++ a :: rsA) (frev accB ++ b :: rsB)).
    { apply Forall2_app; [apply Forall2_frev; exact Hacc|constructor; assumption]. }
    destruct (get_line synB (rt_syntax b)) as [l|] eqn:Eb; [|auto].
    destruct (l_token l) as [|t0 targs]; [auto|].
    set (skip := str_eqb t0 (B "retract")).
    destruct (parse_version_interval fx path (if skip then targs else t0 :: targs)) as [args' res].
    set (l' := line_set_token l (if skip then t0 :: args' else args')).
    assert (Hl2 : Forall2 (fun a0 b0 => get_line (set_line synA (rt_syntax a) l') (rt_syntax a0)
                                        = get_line (set_line synB (rt_syntax b) l') (rt_syntax b0)) rsA rsB).
    { eapply Forall2_impl_in; [exact Hl'|]. intros a0 b0 Ha Hb E.
      rewrite !get_line_set_line_other; [exact E| |].
      - intros E2. apply HninB. rewrite E2. apply in_map. exact Hb.
      - intros E2. apply HninA. rewrite E2. apply in_map. exact Ha. }
    destruct Hab as (_ & _ & Hrat & Hq).
    destruct res as [[[low high] rest]|]; apply IH; auto; constructor; auto; repeat split; auto.
Qed.

Lemma frl_errs_mono fx path : forall rs syn acc errs panic,
  errs <> [] -> snd (fst (fix_retract_loop fx path rs syn acc errs panic)) <> [].
Proof.
  induction rs as [|r rs IH]; intros syn acc errs panic H; cbn [fix_retract_loop]; [exact H|].
  destruct (get_line syn (rt_syntax r)) as [l|]; [|exact H].
  destruct (l_token l) as [|t0 targs]; [exact H|].
  destruct (parse_version_interval _ _ _) as [args' [[[low high] rest]|]]; apply IH; [exact H|discriminate].
Qed.

Lemma fix_retract_errs_mono fx f errs panic : errs <> [] -> snd (fst (fix_retract fx f errs panic)) <> [].
Proof.
  intros H. unfold fix_retract. destruct fx as [g|]; [|exact H].
  destruct (fd_retract f) as [|r rs]; [exact H|].
  destruct (Parse.is_nil _).
  - destruct (get_line _ _); [discriminate|exact H].
  - pose proof (frl_errs_mono (Some g) (match fd_module f with Some m => mv_path (md_mod m) | None => [] end)
                  (r :: rs) (fd_syntax f) [] errs panic H) as Hm.
    destruct (fix_retract_loop _ _ _ _ _ _ _) as [[[rs' syn'] errs'] panic']. exact Hm.
Qed.

(* ---------------------------------------------------------------- the strict and the lax run *)

(* the entries of f.Retract after a statement: the old ones, and entries for the statement *)
Lemma block_lines_retracts_in strict fx blk verb i : forall ls j f errs acc r,
  In r (fd_retract (fst (fst (block_lines (fun f l ref args => add strict fx f blk l ref verb args) i j ls f errs acc)))) ->
  In r (fd_retract f) \/ fst (rt_syntax r) = i.
Proof.
  induction ls as [|l ls IH]; intros j f errs acc r; cbn [block_lines]; [cbn; auto|].
  intros Hin. apply IH in Hin as [Hin|Hin]; [|auto].
  destruct (add_retracts strict fx f blk l (i, Some j) verb (l_token l)) as [E|(low & high & E & _)];
    rewrite E in Hin; [auto|].
  apply in_app_iff in Hin as [Hin|[<-|[]]]; auto.
Qed.

Lemma step_retracts_in strict fx i x (st : loop_state file) r :
  In r (fd_retract (lp_file (step_of strict fx i x st))) ->
  In r (fd_retract (lp_file st)) \/ fst (rt_syntax r) = i.
Proof.
  unfold step_of, stmt_step. destruct x as [l|b|c]; cbn [lp_file]; auto.
  - destruct (l_token l) as [|verb args]; cbn [lp_file]; auto.
    destruct (add_retracts strict fx (lp_file st) None l (i, None) verb args) as [E|(low & high & E & _)];
      rewrite E; auto.
    intros Hin. apply in_app_iff in Hin as [Hin|[<-|[]]]; auto.
  - destruct (b_token b) as [|verb [|v2 r0]]; cbn [lp_file]; auto.
    destruct (known_mod_block verb); cbn [lp_file]; auto.
    pose proof (block_lines_retracts_in strict fx (Some b) verb i (b_line b) O (lp_file st) (lp_errs_r st) [] r) as H.
    destruct (block_lines _ i O (b_line b) (lp_file st) (lp_errs_r st) []) as [[f' e'] ls']. exact H.
Qed.

Lemma core_retract f f' : core f = core f' -> fd_retract f = fd_retract f'.
Proof. unfold core. congruence. Qed.

(* the statement pushed by the strict and by the lax run: the same one, unless the
   statement is one the lax parser ignores (and then f.Retract did not change) *)
Lemma step_pushed fx i x S L : sim S L -> lp_errs_r S = [] ->
  lp_errs_r (step_of true fx i x S) = [] ->
  exists xS xL,
    lp_stmts_r (step_of true fx i x S) = xS :: lp_stmts_r S /\
    lp_stmts_r (step_of false fx i x L) = xL :: lp_stmts_r L /\
    (xS = xL \/ fd_retract (lp_file (step_of true fx i x S)) = fd_retract (lp_file S)).
Proof.
  intros (Hcore & HeL & Hp) HeS Hno. unfold step_of, stmt_step in *.
  destruct x as [l|b|c]; cbn [lp_file lp_errs_r lp_panic lp_stmts_r] in *.
  - destruct (l_token l) as [|verb args]; cbn [lp_file lp_errs_r lp_panic lp_stmts_r] in *.
    { eexists _, _. split; [reflexivity|]. split; [reflexivity|]. left; reflexivity. }
    eexists _, _. split; [reflexivity|]. split; [reflexivity|].
    rewrite HeS in Hno. apply add_err_nil in Hno as [Hno _].
    destruct (is_core verb) eqn:Hc.
    + destruct (add_core_verb fx (lp_file S) (lp_file L) None l (i, None) verb args Hc Hcore Hno) as (_ & _ & Hargs).
      left. rewrite Hargs. reflexivity.
    + destruct (add_noncore_verb fx (lp_file S) (lp_file L) None l (i, None) verb args Hc) as (_ & Hcore').
      right. apply core_retract. exact Hcore'.
  - destruct (b_token b) as [|verb [|v2 r]]; cbn [lp_file lp_errs_r lp_panic lp_stmts_r] in *;
      try (eexists _, _; split; [reflexivity|]; split; [reflexivity|]; left; reflexivity).
    destruct (known_mod_block verb) eqn:Hk;
      [|eexists _, _; split; [reflexivity|]; split; [reflexivity|]; left; reflexivity].
    rewrite HeS in Hno. rewrite HeS, HeL.
    destruct (is_core verb) eqn:Hc.
    + pose proof (block_lines_core fx (Some b) verb i Hc (b_line b) O (lp_file S) (lp_file L) [] []
                    Hcore eq_refl) as Hb.
      destruct (block_lines (fun f l ref args => add true fx f (Some b) l ref verb args) i O
                  (b_line b) (lp_file S) [] []) as [[f1 e1] ls1].
      destruct (block_lines (fun f l ref args => add false fx f (Some b) l ref verb args) i O
                  (b_line b) (lp_file L) [] []) as [[f2 e2] ls2].
      cbn [lp_file lp_errs_r lp_panic lp_stmts_r fst snd] in *. destruct (Hb Hno) as (_ & _ & C). subst ls2.
      eexists _, _. split; [reflexivity|]. split; [reflexivity|]. left; reflexivity.
    + pose proof (block_lines_noncore fx (Some b) verb i Hc (b_line b) O (lp_file S) (lp_file L) [] [] []
                    Hcore) as (A & _ & _).
      destruct (block_lines (fun f l ref args => add true fx f (Some b) l ref verb args) i O
                  (b_line b) (lp_file S) [] []) as [[f1 e1] ls1].
      destruct (block_lines (fun f l ref args => add false fx f (Some b) l ref verb args) i O
                  (b_line b) (lp_file L) [] []) as [[f2 e2] ls2].
      cbn [lp_file lp_errs_r lp_panic lp_stmts_r fst snd] in *.
      eexists _, _. split; [reflexivity|]. split; [reflexivity|]. right.
      apply core_retract. rewrite A. symmetry. exact Hcore.
  - eexists _, _. split; [reflexivity|]. split; [reflexivity|]. left; reflexivity.
Qed.

(* the simulation of ProofsDirectives.v, and: the lines of the retract directives are the same
   in the two rebuilt trees *)
Definition sim2 (S L : loop_state file) : Prop :=
  sim S L /\ length (lp_stmts_r S) = length (lp_stmts_r L) /\ rinv S /\
  Forall (fun r => get_line_r (lp_stmts_r S) (rt_syntax r) = get_line_r (lp_stmts_r L) (rt_syntax r))
         (fd_retract (lp_file S)).

Lemma stmt_step_sim2 fx x S L : sim2 S L -> lp_errs_r S = [] ->
  lp_errs_r (step_of true fx (length (lp_stmts_r S)) x S) = [] ->
  sim2 (step_of true fx (length (lp_stmts_r S)) x S) (step_of false fx (length (lp_stmts_r S)) x L).
Proof.
  intros (Hsim & Hlen & Hinv & Hlines) HeS Hno.
  split; [apply stmt_step_sim; auto|].
  split; [rewrite !stmt_step_length; congruence|].
  split; [apply stmt_step_rinv; exact Hinv|].
  destruct (step_pushed fx (length (lp_stmts_r S)) x S L Hsim HeS Hno) as (xS & xL & ES & EL & Hcase).
  rewrite ES, EL. rewrite Forall_forall in *. intros r Hin.
  destruct Hcase as [<-|Hsame].
  - apply glr_cons_same; [exact Hlen|]. intros Hlt.
    apply step_retracts_in in Hin as [Hin|Hin]; [apply Hlines; exact Hin|lia].
  - rewrite Hsame in Hin. destruct Hinv as (_ & Hall). rewrite Forall_forall in Hall.
    destruct (Hall r Hin) as (Hlt & _). rewrite !glr_old by lia. apply Hlines. exact Hin.
Qed.

Lemma stmts_loop_sim2 fx : forall xs S L, sim2 S L -> lp_errs_r S = [] ->
  lp_errs_r (stmts_loop (step_of true fx) (length (lp_stmts_r S)) xs S) = [] ->
  sim2 (stmts_loop (step_of true fx) (length (lp_stmts_r S)) xs S)
       (stmts_loop (step_of false fx) (length (lp_stmts_r S)) xs L).
Proof.
  induction xs as [|x xs IH]; intros S L Hs HeS Hno; cbn [stmts_loop] in *; [exact Hs|].
  assert (H1 : lp_errs_r (step_of true fx (length (lp_stmts_r S)) x S) = []).
  { destruct (lp_errs_r (step_of true fx (length (lp_stmts_r S)) x S)) eqn:E; [reflexivity|].
    exfalso. revert Hno. apply stmts_loop_errs_mono. rewrite E. discriminate. }
  pose proof (stmt_step_sim2 fx x S L Hs HeS H1) as Hs'.
  pose proof (stmt_step_length true fx (length (lp_stmts_r S)) x S) as Hl.
  rewrite <- Hl in *. apply IH; auto.
Qed.

Lemma rvals_eq_list ra rb : Forall2 (rvals eq) ra rb -> ra = rb.
Proof.
  induction 1 as [|a b ra rb (H1 & H2 & H3 & H4) _ IH]; [reflexivity|].
  f_equal; [|exact IH]. destruct a, b; cbn in *; congruence.
Qed.

(* strict_implies_lax_same_core, any fixer *)
Theorem strict_implies_lax_same_core syn fx f :
  file_of_syntax true fx syn = DOk f ->
  exists f', file_of_syntax false fx syn = DOk f' /\ core f = core f'.
Proof.
  unfold file_of_syntax. fold (step_of true fx). fold (step_of false fx).
  set (S0 := mkLS (empty_file syn) [] [] false).
  set (S := stmts_loop (step_of true fx) 0 (f_stmt syn) S0).
  set (L := stmts_loop (step_of false fx) 0 (f_stmt syn) S0).
  set (f1S := with_syntax (lp_file S) (mkFile (f_name syn) (f_comments syn) (frev (lp_stmts_r S)))).
  set (f1L := with_syntax (lp_file L) (mkFile (f_name syn) (f_comments syn) (frev (lp_stmts_r L)))).
  destruct (fix_retract fx f1S (lp_errs_r S) (lp_panic S)) as [[f2 errs2] panic2] eqn:EfS.
  destruct panic2; [discriminate|]. destruct errs2; [|discriminate]. intros [= <-].
  assert (HeS : lp_errs_r S = []).
  { pose proof (fix_retract_errs_mono fx f1S (lp_errs_r S) (lp_panic S)) as Hm.
    rewrite EfS in Hm. cbn in Hm.
    destruct (lp_errs_r S) eqn:E; [reflexivity|]. exfalso. apply Hm; [discriminate|reflexivity]. }
  assert (Hsim : sim2 S L).
  { apply (stmts_loop_sim2 fx (f_stmt syn) S0 S0); [|reflexivity|exact HeS].
    split; [split; [reflexivity|split; reflexivity]|]. split; [reflexivity|].
    split; [split; constructor|constructor]. }
  destruct Hsim as ((Hcore & HeL & Hp) & Hlen & (Hnd & Hall) & Hlines).
  assert (Hinv' : rinv L).
  { apply (stmts_loop_rinv false fx (f_stmt syn) S0). split; constructor. }
  destruct Hinv' as (HndL & _).
  pose proof Hcore as Hcore0. unfold core in Hcore. injection Hcore as Em Eg Er Et.
  rewrite HeS in EfS. rewrite HeL, <- Hp.
  unfold fix_retract in *. destruct fx as [g|].
  { (* a fixer *)
    subst f1S f1L. cbn [fd_module fd_retract fd_syntax with_syntax] in *. rewrite <- Em, <- Et.
    destruct (fd_retract (lp_file S)) as [|r rs] eqn:ErS.
    { injection EfS as <- Epn. rewrite Epn. eexists. split; [reflexivity|].
      unfold core. cbn. rewrite ErS. congruence. }
    assert (Hgl : forall r0, In r0 (r :: rs) ->
              get_line (mkFile (f_name syn) (f_comments syn) (frev (lp_stmts_r S))) (rt_syntax r0) =
              get_line (mkFile (f_name syn) (f_comments syn) (frev (lp_stmts_r L))) (rt_syntax r0)).
    { intros r0 Hin. rewrite !get_line_get_line_s. cbn [f_stmt]. rewrite !frev_rev.
      rewrite Forall_forall in Hlines. apply Hlines. exact Hin. }
    destruct (Parse.is_nil _).
    - rewrite <- (Hgl r (or_introl eq_refl)).
      destruct (get_line _ (rt_syntax r)); discriminate.
    - pose proof (frl_agree (Some g) (match fd_module (lp_file S) with Some m => mv_path (md_mod m) | None => [] end)
                    eq (r :: rs) (r :: rs)) as Hag.
      specialize (Hag ltac:(apply Forall2_diag; apply Forall_forall; intros; repeat split; reflexivity)).
      specialize (Hag (mkFile (f_name syn) (f_comments syn) (frev (lp_stmts_r S)))
                      (mkFile (f_name syn) (f_comments syn) (frev (lp_stmts_r L))) [] [] [] (lp_panic S)).
      specialize (Hag ltac:(apply Forall2_diag; apply Forall_forall; exact Hgl) Hnd).
      rewrite <- Et in HndL. specialize (Hag HndL (Forall2_nil _)).
      destruct (fix_retract_loop _ _ (r :: rs) (mkFile _ _ (frev (lp_stmts_r S))) [] [] (lp_panic S))
        as [[[rsA synA] errsA] panicA].
      destruct (fix_retract_loop _ _ (r :: rs) (mkFile _ _ (frev (lp_stmts_r L))) [] [] (lp_panic S))
        as [[[rsB synB] errsB] panicB].
      destruct Hag as (Hr & <- & <-). apply rvals_eq_list in Hr. subst rsB.
      injection EfS as Ef Ee Epn. subst f2 errsA panicA. eexists. split; [reflexivity|].
      unfold core. cbn. congruence. }
  injection EfS as <- Epn. rewrite Epn. eexists. split; [reflexivity|].
  unfold core in *. cbn. exact Hcore0.
Qed.

Theorem strict_implies_lax_same_core_data fx data f :
  parse_to_file true fx data = DOk f ->
  exists f', parse_to_file false fx data = DOk f' /\ core f = core f'.
Proof.
  unfold parse_to_file, lift_parse. destruct (parse data); try discriminate.
  apply strict_implies_lax_same_core.
Qed.
