(* C15: SetRequireSeparateIndirect preserves coherence (block discovery, insertBlock /
   ensureBlock, the rewriting loop with moveReq, the new requirements, SortBlocks). *)
From Coq Require Import Permutation.
From Verif.Base Require Import Bytes.
From Verif.Modfile Require Import EditModel EditOps EditSpec EditProofsTyped EditProofsHeap EditProofsCoherent
  EditProofsCleanup EditProofsAddLine EditProofsAdd EditProofsUpsert EditProofsSort EditProofsSeq EditProofsExact
  EditProofsBlocks EditProofsSetRequire EditProofs2Blocks EditProofs2Settable.

Arguments hget : simpl never.
Arguments hset : simpl never.

(* ---------------------------------------------------------------- what coherence says about one require line *)
Lemma live_line_lt s es e j :
  CoherentS s es -> In e es -> en_syn e = Some j -> en_live e = true ->
  (j < heap_len s)%nat /\ hl_tok (sget s j) <> [].
Proof.
  intros [Hsy [_ Hp]] Hin Hs Hl.
  assert (Hv : In (j, en_verb e, en_args e) (tree_view s)).
  { eapply Permutation_in; [symmetry; exact Hp|]. apply in_flat_map. exists e. split; [exact Hin|].
    unfold ent_view. rewrite Hs, Hl. left. reflexivity. }
  destruct (in_tree_view_inv _ _ _ _ Hv) as [w [Hw [Hlive _]]].
  destruct Hsy as [_ H2 _]. rewrite Forall_forall in H2. destruct (H2 _ Hw) as [Hlt _]. split; [exact Hlt | exact Hlive].
Qed.

Lemma require_view_line s i a :
  SyntaxOk s -> In (i, v_require, a) (tree_view s) ->
  let l := sget s i in
  let t := if negb (hl_inb l) && hd_is (hl_tok l) v_require then tl (hl_tok l) else hl_tok l in
  t <> [] /\ a = norm_args v_require t l.
Proof.
  intros [_ H2 _] Hin l t. unfold tree_view in Hin. apply in_flat_map in Hin. destruct Hin as [[j w] [Hjw Hv]].
  rewrite Forall_forall in H2. destruct (H2 _ Hjw) as [_ [Hinb Htok]]. cbn [fst snd] in *.
  unfold line_view in Hv. cbn [fst snd] in Hv.
  destruct (hl_tok (sget s j)) as [|t0 ts] eqn:Et; [destruct Hv|].
  destruct w as [bv|]; destruct Hv as [Hv|[]]; injection Hv as Hj Hb Ha; subst j.
  - subst bv. unfold t, l. rewrite Hinb. cbn [negb andb]. rewrite Et. split; [discriminate | symmetry; exact Ha].
  - subst t0. unfold t, l. rewrite Hinb, Et. cbn [negb andb hd_is]. rewrite str_eqb_refl. cbn [tl].
    split; [| symmetry; exact Ha]. intros ->. cbn in Htok. lia.
Qed.

(* ---------------------------------------------------------------- moveReq *)
Lemma move_req_stmts s i bid : stmts (fst (move_req s i bid)) = map (app1 bid (snd (move_req s i bid))) (stmts s).
Proof. reflexivity. Qed.

Lemma move_req_snd s i bid : snd (move_req s i bid) = heap_len s.
Proof. unfold move_req, heap_len; cbn. apply hset_length. Qed.

Lemma move_req_sget s i bid j : j <> i -> (j < heap_len s)%nat -> sget (fst (move_req s i bid)) j = sget s j.
Proof.
  intros Hn Hl. unfold move_req, sget; cbn. rewrite hget_app_old by (rewrite hset_length; exact Hl).
  apply hget_hset_other. congruence.
Qed.

Lemma coherentS_move s A B (e e' : ent) i bid :
  CoherentS s (A ++ e :: B) -> NoDup (block_ids (stmts s)) -> has_req_block (stmts s) bid ->
  en_syn e = Some i -> en_live e = true -> en_verb e = v_require ->
  en_syn e' = Some (heap_len s) -> en_live e' = true -> en_verb e' = v_require -> en_args e' = en_args e ->
  CoherentS (fst (move_req s i bid)) (A ++ e' :: B).
Proof.
  intros Hc Hnd Hblk Hs Hl Hv Hs' Hl' Hv' Ha'.
  pose proof (typedS_ids_nodup _ _ Hc) as Hndv. destruct Hc as [Hsy [Hent Hperm]].
  assert (Hview_e : ent_view e = [(i, v_require, en_args e)]) by (unfold ent_view; rewrite Hs, Hl, Hv; reflexivity).
  assert (Hview_e' : ent_view e' = [(heap_len s, v_require, en_args e)]) by (unfold ent_view; rewrite Hs', Hl', Hv', Ha'; reflexivity).
  assert (Hin : In (i, v_require, en_args e) (tree_view s)).
  { eapply Permutation_in; [symmetry; exact Hperm|]. rewrite flat_map_app. apply in_app_iff. right.
    cbn [flat_map]. rewrite Hview_e. left. reflexivity. }
  destruct (require_view_line s i _ Hsy Hin) as [Ht_ne Hargs].
  set (l := sget s i) in *.
  set (t := if negb (hl_inb l) && hd_is (hl_tok l) v_require then tl (hl_tok l) else hl_tok l) in *.
  set (s1 := sset s i (set_tok l [])).
  destruct (tree_view_kill s i (set_tok l []) eq_refl eq_refl Hsy) as [Hsy1 Htv1]. fold s1 in Hsy1, Htv1.
  set (lnew := mkHL (hl_com l) t true).
  assert (Hmv : fst (move_req s i bid) = append_to_block (fst (salloc s1 lnew)) bid (length (heap s1))) by reflexivity.
  assert (Hlen : length (heap s1) = heap_len s) by (unfold s1, heap_len; cbn; apply hset_length).
  destruct (append_new_ok s1 bid lnew t Hsy1 Hnd Hblk eq_refl Ht_ne eq_refl) as [Hsy2 Htv2].
  rewrite flat_map_app in Hndv. cbn [flat_map] in Hndv. rewrite Hview_e in Hndv. unfold ids in Hndv.
  rewrite !map_app in Hndv. cbn [map vid fst app] in Hndv.
  rewrite Hmv. split; [exact Hsy2 | split].
  - apply Forall_app in Hent. destruct Hent as [HA HB]. inversion HB; subst.
    apply Forall_app. split; [exact HA|]. constructor; [|assumption]. unfold ent_ok. rewrite Hl', Hs'. discriminate.
  - etransitivity; [exact Htv2|]. rewrite Htv1, Hlen.
    replace (norm_args v_require t lnew) with (en_args e) by (rewrite Hargs; apply norm_args_coms; reflexivity).
    rewrite flat_map_app. cbn [flat_map]. rewrite Hview_e'. cbn [app].
    etransitivity; [apply perm_skip, rm_perm; exact Hperm|].
    rewrite flat_map_app. cbn [flat_map]. rewrite Hview_e, !rm_app.
    rewrite (rm_disjoint [i] (flat_map ent_view A)), (rm_disjoint [i] (flat_map ent_view B)).
    + unfold rm at 1. cbn [filter vid fst existsb]. rewrite Nat.eqb_refl. cbn [orb negb app].
      apply Permutation_middle.
    + intros x Hx [Hi|[]]. apply NoDup_remove_2 in Hndv. apply Hndv. apply in_app_iff. right.
      rewrite Hi. apply in_map. exact Hx.
    + intros x Hx [Hi|[]]. apply NoDup_remove_2 in Hndv. apply Hndv. apply in_app_iff. left.
      rewrite Hi. apply in_map. exact Hx.
Qed.

(* a new require line in a block *)
Lemma coherentS_add_in_block s A B es (e : ent) bid lnew args :
  CoherentS s (A ++ es ++ B) -> NoDup (block_ids (stmts s)) -> has_req_block (stmts s) bid ->
  hl_tok lnew = args -> args <> [] -> hl_inb lnew = true ->
  ent_view e = [(heap_len s, v_require, norm_args v_require args lnew)] -> ent_ok e ->
  CoherentS (append_to_block (fst (salloc s lnew)) bid (heap_len s)) (A ++ (es ++ [e]) ++ B).
Proof.
  intros [Hs [He Hp]] Hnd Hblk Ht Ha Hb Hv Hok.
  destruct (append_new_ok s bid lnew args Hs Hnd Hblk Ht Ha Hb) as [Hs' Hp'].
  split; [exact Hs' | split].
  - apply Forall_app in He. destruct He as [HA He]. apply Forall_app in He. destruct He as [HM HB].
    repeat (apply Forall_app; split); try assumption. constructor; [exact Hok | constructor].
  - etransitivity; [exact Hp'|].
    rewrite !flat_map_app in *. cbn [flat_map]. rewrite Hv, app_nil_r.
    etransitivity; [apply perm_skip; exact Hp|].
    rewrite <- !app_assoc. etransitivity; [apply Permutation_middle|]. apply Permutation_app_head.
    cbn [app]. apply Permutation_middle.
Qed.

(* ---------------------------------------------------------------- the rewriting loop *)
Lemma sri_loop_S need one_flat l2b dbid ibid B : forall l A s have s' l' have',
  CoherentS s (A ++ map ent_require l ++ B) ->
  NoDup (block_ids (stmts s)) -> has_req_block (stmts s) dbid -> has_req_block (stmts s) ibid ->
  (forall r i, In r l -> rq_syn r = Some i -> nonempty (rq_path r) = true -> settable (sget s i)) ->
  (forall k, In k (keys need) -> k <> []) ->
  sri_loop s need have one_flat l2b dbid ibid l = Some (s', l', have') ->
  CoherentS s' (A ++ map ent_require l' ++ B) /\ block_ids (stmts s') = block_ids (stmts s) /\ nbid s' = nbid s
  /\ has_req_block (stmts s') dbid /\ has_req_block (stmts s') ibid.
Proof.
  induction l as [|r rest IH]; intros A s have s' l' have' Hc Hnd Hdb Hib Hset Hne H; cbn [sri_loop] in H.
  - injection H as <- <- _. auto.
  - destruct (rq_syn r) as [i|] eqn:Hs; [|discriminate].
    cbn [map app] in Hc.
    assert (E : forall x X, A ++ x :: X = (A ++ [x]) ++ X) by (intros x X; rewrite <- app_assoc; reflexivity).
    (* the entry is removed *)
    assert (Hrm : forall s3 l3 h3,
              sri_loop (mark_removed s i) need have one_flat l2b dbid ibid rest = Some (s3, l3, h3) ->
              CoherentS s3 (A ++ map ent_require (zero_require :: l3) ++ B) /\ block_ids (stmts s3) = block_ids (stmts s)
              /\ nbid s3 = nbid s /\ has_req_block (stmts s3) dbid /\ has_req_block (stmts s3) ibid).
    { intros s3 l3 h3 Hr. cbn [map app].
      pose proof (coherentS_kill_one s A (map ent_require rest ++ B) (ent_require r) (ent_require zero_require) i Hc Hs eq_refl eq_refl) as Hc1.
      rewrite E. rewrite E in Hc1. eapply (IH _ (mark_removed s i)); [exact Hc1 | exact Hnd | exact Hdb | exact Hib | | exact Hne | exact Hr].
      intros r2 j Hin2 Hs2 Hl2.
      destruct (Nat.eq_dec i j) as [<-|Hn]; [|rewrite mark_removed_other by exact Hn; apply (Hset r2 j); [right|..]; assumption].
      exfalso.
      destruct (nonempty (rq_path r)) eqn:Hlive.
      - eapply (live_syn_unique s A (ent_require r) (map ent_require rest ++ B) i Hc Hs Hlive (ent_require r2));
          [apply in_app_iff; left; apply in_map; exact Hin2 | exact Hs2 | exact Hl2].
      - destruct Hc as [_ [He _]]. apply Forall_app in He. destruct He as [_ He]. inversion He as [|? ? Hok _]; subst.
        unfold ent_ok in Hok. cbn in Hok. rewrite Hlive, Hs in Hok. discriminate. }
    destruct (amap_get (rq_path r) need) as [[v ind]|] eqn:Hg.
    + destruct (existsb (str_eqb (rq_path r)) have) eqn:Hh.
      * destruct (sri_loop _ _ _ _ _ _ _ rest) as [[[s3 l3] h3]|] eqn:Hr; [|discriminate].
        injection H as <- <- _. eapply Hrm; eauto.
      * (* the entry is kept: its line is rewritten, then possibly moved *)
        assert (Hlive : nonempty (rq_path r) = true).
        { apply nonempty_true. apply Hne. apply in_keys_get. eauto. }
        set (l0 := sget s i) in *. set (lnew := set_indirect_line (set_version_line l0 v) ind) in *.
        set (s1 := sset s i lnew) in *.
        pose proof (require_line_tokens s _ r i Hc (in_elt _ _ _) Hs Hlive) as Htok. fold l0 in Htok.
        destruct (set_version_line_tokens l0 _ _ v Htok) as [Htok1 Hinb1].
        destruct (set_indirect_line_tok (set_version_line l0 v) ind) as [Htok2 Hinb2].
        assert (Hne2 : [auto_quote (rq_path r); v] <> []) by discriminate.
        assert (Hinb' : hl_inb lnew = hl_inb (sget s i)) by (unfold lnew; rewrite Hinb2, Hinb1; reflexivity).
        assert (Htok' : hl_tok lnew = (if hl_inb (sget s i) then [auto_quote (rq_path r); v] else v_require :: [auto_quote (rq_path r); v])).
        { unfold lnew. rewrite Htok2, Htok1. reflexivity. }
        assert (Hargs : en_args (ent_require (mkRequire (rq_path r) v ind (Some i)))
                        = norm_args v_require [auto_quote (rq_path r); v] lnew).
        { pose proof (Hset r i (or_introl eq_refl) Hs Hlive v ind) as Hi. fold l0 in Hi. fold lnew in Hi.
          cbn [ent_require en_args rq_path rq_vers rq_ind]. unfold norm_args. cbn. rewrite Hi. reflexivity. }
        pose proof (coherentS_rewrite s A (map ent_require rest ++ B) (ent_require r)
                      (ent_require (mkRequire (rq_path r) v ind (Some i))) i v_require [auto_quote (rq_path r); v] lnew
                      Hc Hs Hlive eq_refl eq_refl Hlive eq_refl Hne2 Hinb' Htok' Hargs) as Hc1.
        fold s1 in Hc1.
        assert (Hi_lt : (i < heap_len s)%nat).
        { destruct (live_line_lt s _ (ent_require r) i Hc (in_elt _ _ _) Hs Hlive) as [Hlt _]. exact Hlt. }
        assert (Hset1 : forall r2 j, In r2 rest -> rq_syn r2 = Some j -> nonempty (rq_path r2) = true ->
                                     j <> i /\ (j < heap_len s)%nat /\ settable (sget s j)).
        { intros r2 j Hin2 Hs2 Hl2. split; [|split].
          - intros ->. eapply (live_syn_unique s A (ent_require r) (map ent_require rest ++ B) i Hc Hs Hlive (ent_require r2));
              [apply in_app_iff; left; apply in_map; exact Hin2 | exact Hs2 | exact Hl2].
          - destruct (live_line_lt s _ (ent_require r2) j Hc) as [Hlt _]; [| exact Hs2 | exact Hl2 | exact Hlt].
            apply in_app_iff. right. right. apply in_app_iff. left. apply in_map. exact Hin2.
          - apply (Hset r2 j); [right; exact Hin2 | exact Hs2 | exact Hl2]. }
        set (target := if ind then if one_flat || opt_nat_eqb (l2b_get i l2b) dbid then Some ibid else None
                       else if one_flat || opt_nat_eqb (l2b_get i l2b) ibid then Some dbid else None) in H.
        assert (Htarget : forall bid, target = Some bid -> has_req_block (stmts s) bid).
        { intros bid. unfold target. destruct ind; destruct (_ || _)%bool; intros [= <-]; assumption. }
        destruct target as [bid|].
        -- pose proof (move_req_snd s1 i bid) as Hn.
           pose proof (move_req_stmts s1 i bid) as Hst.
           pose proof (coherentS_move s1 A (map ent_require rest ++ B)
                         (ent_require (mkRequire (rq_path r) v ind (Some i)))
                         (ent_require (mkRequire (rq_path r) v ind (Some (heap_len s1)))) i bid
                         Hc1 Hnd (Htarget bid eq_refl) eq_refl Hlive eq_refl eq_refl Hlive eq_refl eq_refl) as Hc2.
           assert (Hsg : forall j, j <> i -> (j < heap_len s)%nat -> sget (fst (move_req s1 i bid)) j = sget s j).
           { intros j Hj Hl. rewrite move_req_sget; [| exact Hj | unfold s1; rewrite sset_len; exact Hl].
             unfold s1. apply sget_sset_other. congruence. }
           assert (Hnb : nbid (fst (move_req s1 i bid)) = nbid s) by reflexivity.
           destruct (move_req s1 i bid) as [s2 n] eqn:Emv. cbn [fst snd] in *.
           destruct (sri_loop s2 _ _ _ _ _ _ rest) as [[[s3 l3] h3]|] eqn:Hr; [|discriminate].
           injection H as <- <- _. cbn [map app]. subst n.
           rewrite E. rewrite E in Hc2.
           assert (Hb2 : block_ids (stmts s2) = block_ids (stmts s)).
           { rewrite Hst. apply app1_bids. }
           destruct (IH _ s2 (rq_path r :: have) s3 l3 h3 Hc2) as [R1 [R2 [R3 [R4 R5]]]]; try exact Hne; try exact Hr.
           ++ rewrite Hb2. exact Hnd.
           ++ rewrite Hst. apply app1_has_req. exact Hdb.
           ++ rewrite Hst. apply app1_has_req. exact Hib.
           ++ intros r2 j Hin2 Hs2 Hl2. destruct (Hset1 r2 j Hin2 Hs2 Hl2) as [Hj [Hlt Hst2]].
              rewrite Hsg by assumption. exact Hst2.
           ++ split; [exact R1|]. split; [rewrite R2; exact Hb2|]. split; [rewrite R3; exact Hnb|]. split; assumption.
        -- destruct (sri_loop s1 _ _ _ _ _ _ rest) as [[[s3 l3] h3]|] eqn:Hr; [|discriminate].
           injection H as <- <- _. cbn [map app].
           rewrite E. rewrite E in Hc1.
           destruct (IH _ s1 (rq_path r :: have) s3 l3 h3 Hc1) as [R1 [R2 [R3 [R4 R5]]]]; try exact Hne; try exact Hr; try assumption.
           ++ intros r2 j Hin2 Hs2 Hl2. destruct (Hset1 r2 j Hin2 Hs2 Hl2) as [Hj [Hlt Hst2]].
              unfold s1. rewrite sget_sset_other by congruence. exact Hst2.
           ++ split; [exact R1|]. split; [exact R2|]. split; [exact R3|]. split; assumption.
    + destruct (sri_loop _ _ _ _ _ _ _ rest) as [[[s3 l3] h3]|] eqn:Hr; [|discriminate].
      injection H as <- <- _. eapply Hrm; eauto.
Qed.

(* ---------------------------------------------------------------- the new requirements *)
Lemma sri_add_new_S dbid ibid have B : forall need A s rs s' rs',
  CoherentS s (A ++ map ent_require rs ++ B) ->
  NoDup (block_ids (stmts s)) -> has_req_block (stmts s) dbid -> has_req_block (stmts s) ibid ->
  (forall k, In k (keys need) -> k <> []) ->
  fold_left (sri_add_new dbid ibid have) need (s, rs) = (s', rs') ->
  CoherentS s' (A ++ map ent_require rs' ++ B) /\ block_ids (stmts s') = block_ids (stmts s)
  /\ nbid s' = nbid s.
Proof.
  induction need as [|[path [v ind]] rest IH]; intros A s rs s' rs' Hc Hnd Hdb Hib Hne H; cbn [fold_left] in H.
  - injection H as <- <-. auto.
  - remember (sri_add_new dbid ibid have (s, rs) (path, (v, ind))) as acc eqn:Eacc.
    unfold sri_add_new in Eacc.
    destruct (existsb (str_eqb path) have).
    + subst acc. eapply IH; eauto. intros k Hk. apply Hne. right. exact Hk.
    + assert (Hp : nonempty path = true) by (apply nonempty_true; apply Hne; left; reflexivity).
      set (l0 := mkHL no_coms [auto_quote path; v] false) in *.
      set (l1 := if ind then set_indirect_line l0 true else l0) in *.
      set (lnew := set_inb l1 true) in *.
      assert (Htok : hl_tok lnew = [auto_quote path; v]).
      { unfold lnew, l1. destruct ind; [|reflexivity]. cbn [set_inb hl_tok].
        destruct (set_indirect_line_tok l0 true) as [-> _]. reflexivity. }
      assert (Hind : is_indirect lnew = ind).
      { unfold lnew, l1. destruct ind; [|reflexivity].
        change (is_indirect (set_inb (set_indirect_line l0 true) true)) with (is_indirect (set_indirect_line l0 true)).
        apply set_indirect_line_fresh. reflexivity. }
      cbn [salloc] in Eacc.
      set (bid := if ind then ibid else dbid) in *.
      assert (Hbid : has_req_block (stmts s) bid) by (unfold bid; destruct ind; assumption).
      pose proof (coherentS_add_in_block s A B (map ent_require rs) (ent_require (mkRequire path v ind (Some (heap_len s))))
                    bid lnew [auto_quote path; v] Hc Hnd Hbid Htok) as Hadd.
      match type of Eacc with _ = (?a, ?b) => set (s2 := a) in *; set (rs2 := b) in * end.
      assert (Hc2 : CoherentS s2 (A ++ map ent_require rs2 ++ B)).
      { unfold rs2. rewrite map_app. cbn [map]. apply Hadd; [discriminate | reflexivity | |].
        - unfold ent_view; cbn [ent_require en_syn en_live en_verb en_args rq_path rq_vers rq_ind rq_syn]. rewrite Hp.
          unfold norm_args. cbn. rewrite Hind. reflexivity.
        - unfold ent_ok; cbn. rewrite Hp. discriminate. }
      assert (Hb2 : block_ids (stmts s2) = block_ids (stmts s)) by (unfold s2; rewrite append_to_block_stmts; apply app1_bids).
      subst acc.
      destruct (IH A s2 rs2 s' rs' Hc2) as [R1 [R2 R3]]; try exact H.
      * rewrite Hb2. exact Hnd.
      * unfold s2. rewrite append_to_block_stmts. apply app1_has_req. exact Hdb.
      * unfold s2. rewrite append_to_block_stmts. apply app1_has_req. exact Hib.
      * intros k Hk. apply Hne. right. exact Hk.
      * split; [exact R1|]. split; [rewrite R2; exact Hb2 | rewrite R3; reflexivity].
Qed.

(* ---------------------------------------------------------------- block discovery *)
Definition idx_ok (s : syntax) (z : Z) : Prop := z < 0 \/ req_at s z.

Lemma skipn_cons_nth {A} (L : list A) : forall k x r, skipn k L = x :: r -> nth_error L k = Some x /\ skipn (S k) L = r.
Proof.
  induction L as [|a L IH]; intros [|k] x r H; cbn in *; try discriminate.
  - injection H as -> ->. auto.
  - apply IH. exact H.
Qed.

Lemma sri_scan_ok s : forall todo i a,
  0 <= i -> skipn (Z.to_nat i) (stmts s) = todo ->
  idx_ok s (sc_direct a) -> idx_ok s (sc_indirect a) -> idx_ok s (sc_require a) ->
  idx_ok s (sc_direct (sri_scan_loop s i todo a)) /\ idx_ok s (sc_indirect (sri_scan_loop s i todo a))
  /\ idx_ok s (sc_require (sri_scan_loop s i todo a)).
Proof.
  induction todo as [|st rest IH]; intros i a Hi Hsk Hd Hin Hr; cbn [sri_scan_loop]; [auto|].
  destruct (skipn_cons_nth _ _ _ _ Hsk) as [Hnth Hsk'].
  assert (Hi1 : 0 <= i + 1) by lia.
  assert (Hsk1 : skipn (Z.to_nat (i + 1)) (stmts s) = rest) by (rewrite Z2Nat.inj_add by lia; rewrite Nat.add_1_r; exact Hsk').
  destruct st as [j|b|c].
  - destruct (hd_is (hl_tok (sget s j)) v_require) eqn:Eh; cbn [negb]; [|apply IH; assumption].
    assert (Hat : idx_ok s i).
    { right. split; [exact Hi|]. exists (SLine j). split; [exact Hnth | exact Eh]. }
    destruct (has_comments (hl_com (sget s j))); [|destruct (is_indirect (sget s j))]; apply IH; cbn; assumption.
  - destruct (hd_is (hb_tok b) v_require) eqn:Eh; cbn [negb]; [|apply IH; assumption].
    assert (Hat : idx_ok s i).
    { right. split; [exact Hi|]. exists (SBlock b). split; [exact Hnth | exact Eh]. }
    destruct (block_flags s (hb_lines b) _ _) as [ad ai].
    apply IH; cbn; try assumption; [destruct ad | destruct ai]; assumption.
  - apply IH; assumption.
Qed.

Lemma nth_error_skipn' {A} (L : list A) : forall k m, nth_error (skipn k L) m = nth_error L (k + m).
Proof. induction L as [|a L IH]; intros [|k] m; cbn; try reflexivity; [destruct m; reflexivity | apply IH]. Qed.

Lemma req_at_insert s i z :
  req_at s z -> (Z.to_nat i <= Z.to_nat z)%nat -> req_at (fst (insert_block s i)) (z + 1).
Proof.
  intros [Hz [st [Hn Hr]]] Hle. split; [lia|]. exists st. split; [|destruct st; exact Hr].
  rewrite insert_block_stmts. rewrite Z2Nat.inj_add by lia. rewrite Nat.add_1_r.
  assert (Hlen : length (firstn (Z.to_nat i) (stmts s)) = Z.to_nat i).
  { apply firstn_length_le. assert (Hs : nth_error (stmts s) (Z.to_nat z) <> None) by congruence.
    apply nth_error_Some in Hs. lia. }
  rewrite nth_error_app2 by (rewrite Hlen; lia). rewrite Hlen.
  replace (S (Z.to_nat z) - Z.to_nat i)%nat with (S (Z.to_nat z - Z.to_nat i)) by lia. cbn [nth_error].
  rewrite nth_error_skipn'. replace (Z.to_nat i + (Z.to_nat z - Z.to_nat i))%nat with (Z.to_nat z) by lia. exact Hn.
Qed.

(* ---------------------------------------------------------------- the operation *)
Lemma coherentS_same_view s s1 es :
  CoherentS s es -> SyntaxOk s1 -> tree_view s1 = tree_view s -> CoherentS s1 es.
Proof. intros [_ [He Hp]] Hs Hv. split; [exact Hs | split; [exact He | rewrite Hv; exact Hp]]. Qed.

Lemma need_of_requests (l : list req) :
  NoDup (map req_path l) -> Forall (fun p => p <> []) (map req_path l) ->
  let need := fold_left (fun m (q : req) => let '(p, v, ind) := q in amap_set p (v, ind) m) l [] in
  Permutation need (map toKV l) /\ NoDup (keys need) /\ (forall k, In k (keys need) -> k <> []).
Proof.
  intros Hnd Hne need.
  assert (HP : Permutation need (map toKV l)).
  { unfold need.
    assert (E : forall acc, fold_left (fun m (q : req) => let '(p, v, ind) := q in amap_set p (v, ind) m) l acc
                = fold_left (fun m (q : str * (str * bool)) => amap_set (fst q) (snd q) m) (map toKV l) acc).
    { clear. induction l as [|[[p v] ind] r IH]; intros acc; cbn; [reflexivity|]. apply IH. }
    rewrite E, fold_amap_set_perm; [rewrite app_nil_r; reflexivity|].
    cbn. rewrite app_nil_r, map_map. exact Hnd. }
  assert (HkN : Permutation (keys need) (map req_path l)).
  { rewrite (keys_perm _ _ HP). unfold keys. rewrite map_map. reflexivity. }
  split; [exact HP|]. split.
  - eapply Permutation_NoDup; [symmetry; exact HkN | exact Hnd].
  - intros k Hk. rewrite Forall_forall in Hne. apply Hne. eapply Permutation_in; eauto.
Qed.

(* the intermediate states of SetRequireSeparateIndirect, named *)
Definition sri_need (l : list req) : list (str * (str * bool)) :=
  fold_left (fun m (q : req) => let '(p, v, ind) := q in amap_set p (v, ind) m) l [].
Definition sri_scan_of (s0 : syntax) : sri_scan := sri_scan_loop s0 0 (stmts s0) (mkScan (-1) (-1) (-1) O []).
Definition one_flat_uncommented (s0 : syntax) : bool :=
  Nat.eqb (sc_count (sri_scan_of s0)) 1
  && match nth_error (stmts s0) (Z.to_nat (sc_require (sri_scan_of s0))) with
     | Some st => negb (has_comments (stmt_coms s0 st))
     | None => false
     end.

Definition sri_steps (f : file) (l : list req) (f' : file)
           (s1 : syntax) (dbid : nat) (di ii : Z) (s2 : syntax) (ibid : nat)
           (s3 : syntax) (rs : list e_require) (have : list str) (s4 : syntax) (rs' : list e_require) : Prop :=
  let s0 := fsyn f in
  let sc := sri_scan_of s0 in
  (if sc_direct sc <? 0 then
     let '(di, ii) := if 0 <=? sc_indirect sc then (sc_indirect sc, sc_indirect sc + 1)
                      else if 0 <=? sc_require sc then (sc_require sc + 1, sc_indirect sc)
                      else (Z.of_nat (length (stmts s0)), sc_indirect sc) in
     let (s1, bid) := insert_block s0 di in Some (s1, bid, di, ii)
   else do (s1, bid) <- ensure_block s0 (sc_direct sc); Some (s1, bid, sc_direct sc, sc_indirect sc))
  = Some (s1, dbid, di, ii) /\
  (if ii <? 0 then Some (insert_block s1 (di + 1)) else ensure_block s1 ii) = Some (s2, ibid) /\
  sri_loop s2 (sri_need l) [] (one_flat_uncommented s0) (sc_l2b sc) dbid ibid (f_require f) = Some (s3, rs, have) /\
  fold_left (sri_add_new dbid ibid have) (sri_need l) (s3, rs) = (s4, rs') /\
  f' = sort_blocks (with_require (with_syn f s4) rs').

Lemma sri_steps_exist f l f' :
  set_require_separate_indirect f l = Some f' ->
  exists s1 dbid di ii s2 ibid s3 rs have s4 rs', sri_steps f l f' s1 dbid di ii s2 ibid s3 rs have s4 rs'.
Proof.
  intros H. unfold set_require_separate_indirect in H.
  fold (sri_need l) in H. fold (sri_scan_of (fsyn f)) in H. fold (one_flat_uncommented (fsyn f)) in H.
  match type of H with context [if sc_direct ?sc <? 0 then ?A else ?B] =>
    destruct (if sc_direct sc <? 0 then A else B) as [[[[s1 dbid] di] ii]|] eqn:E1 end; [|discriminate].
  destruct (if ii <? 0 then Some (insert_block s1 (di + 1)) else ensure_block s1 ii) as [[s2 ibid]|] eqn:E2; [|discriminate].
  destruct (sri_loop s2 _ _ _ _ dbid ibid (f_require f)) as [[[s3 rs] have]|] eqn:E3; [|discriminate].
  destruct (fold_left (sri_add_new dbid ibid have) (sri_need l) (s3, rs)) as [s4 rs'] eqn:E4.
  injection H as <-.
  exists s1, dbid, di, ii, s2, ibid, s3, rs, have, s4, rs'. unfold sri_steps. auto.
Qed.

(* the state just before the final SortBlocks *)
Theorem sri_pre_sort_explicit f l f' s1 dbid di ii s2 ibid s3 rs have s4 rs' :
  distinct_paths (map req_path l) = true -> Coherent f -> BlockIdsOk (fsyn f) -> RequireSettable f ->
  sri_steps f l f' s1 dbid di ii s2 ibid s3 rs have s4 rs' ->
  Coherent (with_require (with_syn f s4) rs') /\ BlockIdsOk s4 /\
  BlockIdsOk s2 /\ has_req_block (stmts s2) dbid /\ has_req_block (stmts s2) ibid /\
  (Coherent (with_require (with_syn f s3) rs) /\ has_req_block (stmts s3) dbid /\ has_req_block (stmts s3) ibid
   /\ NoDup (block_ids (stmts s3))).
Proof.
  intros Hd Hc Hbi Hset [E1 [E2 [E3 [E4 _]]]]. apply distinct_paths_spec in Hd. destruct Hd as [Hnd Hne].
  destruct (need_of_requests l Hnd Hne) as [_ [Hnd' Hne']]. fold (sri_need l) in Hnd', Hne'.
  set (need := sri_need l) in *.
  set (s0 := fsyn f) in *.
  set (sc := sri_scan_of s0) in *.
  destruct (sri_scan_ok s0 (stmts s0) 0 (mkScan (-1) (-1) (-1) O []) (Z.le_refl 0) eq_refl) as [Sd [Si Sr]];
    try (left; cbn; lia). fold (sri_scan_of s0) in Sd, Si, Sr. fold sc in Sd, Si, Sr.
  apply coherent_S in Hc. fold s0 in Hc. set (es := entries f) in *.
  pose proof Hc as [Hsy0 _].
  (* the direct block *)
  assert (K1 : CoherentS s1 es /\ BlockIdsOk s1 /\ has_req_block (stmts s1) dbid /\ idx_ok s1 ii
               /\ heap_len s1 = heap_len s0 /\ (forall j, hl_com (sget s1 j) = hl_com (sget s0 j))).
  { destruct (sc_direct sc <? 0) eqn:Ed.
    - destruct (0 <=? sc_indirect sc) eqn:Ei.
      + destruct (insert_block s0 (sc_indirect sc)) as [sx bx] eqn:Eb. injection E1 as <- <- <- <-.
        destruct (insert_block_ok s0 (sc_indirect sc) Hsy0 Hbi) as [A1 [A2 [A3 [A4 [A5 [A6 A7]]]]]].
        rewrite Eb in *. cbn [fst snd] in *. subst bx.
        split; [eapply coherentS_same_view; eauto|]. split; [exact A3|]. split; [exact A6|]. split; [|split].
        * right. destruct Si as [Si|Si]; [apply Z.leb_le in Ei; lia|].
          pose proof (req_at_insert s0 (sc_indirect sc) (sc_indirect sc) Si (Nat.le_refl _)) as R. rewrite Eb in R. exact R.
        * unfold heap_len. rewrite A4. reflexivity.
        * intros j. unfold sget. rewrite A4. reflexivity.
      + assert (Hx : exists d, insert_block s0 d = (s1, dbid) /\ ii = sc_indirect sc).
        { destruct (0 <=? sc_require sc); cbv beta iota in E1;
            match type of E1 with context [insert_block s0 ?d] => exists d; destruct (insert_block s0 d) as [sx bx] end;
            injection E1 as <- <- _ <-; auto. }
        destruct Hx as [d [Eb ->]].
        destruct (insert_block_ok s0 d Hsy0 Hbi) as [A1 [A2 [A3 [A4 [A5 [A6 A7]]]]]].
        rewrite Eb in *. cbn [fst snd] in *. rewrite <- A5 in A6.
        split; [eapply coherentS_same_view; eauto|]. split; [exact A3|]. split; [exact A6|]. split; [|split].
        * left. apply Z.leb_gt in Ei. exact Ei.
        * unfold heap_len. rewrite A4. reflexivity.
        * intros j. unfold sget. rewrite A4. reflexivity.
    - destruct (ensure_block s0 (sc_direct sc)) as [[sx bx]|] eqn:Eb; [|discriminate]. injection E1 as <- <- _ <-.
      assert (Hat : req_at s0 (sc_direct sc)) by (destruct Sd as [Sd|Sd]; [apply Z.ltb_ge in Ed; lia | exact Sd]).
      destruct (ensure_block_ok s0 _ _ _ Hsy0 Hbi Hat Eb) as [A1 [A2 [A3 [A4 [A5 [A6 [A7 A8]]]]]]].
      split; [eapply coherentS_same_view; eauto|]. split; [exact A3|]. split; [exact A4|]. split; [|split; assumption].
      destruct Si as [Si|Si]; [left; exact Si | right; apply A6; exact Si]. }
  destruct K1 as [Hc1 [Hbi1 [Hdb1 [Hii [Hlen1 Hcom1]]]]]. pose proof Hc1 as [Hsy1 _].
  (* the indirect block *)
  assert (K2 : CoherentS s2 es /\ BlockIdsOk s2 /\ has_req_block (stmts s2) dbid /\ has_req_block (stmts s2) ibid
               /\ (forall j, hl_com (sget s2 j) = hl_com (sget s0 j))).
  { destruct (ii <? 0) eqn:Ei.
    - destruct (insert_block s1 (di + 1)) as [sx bx] eqn:Eb. injection E2 as <- <-.
      destruct (insert_block_ok s1 (di + 1) Hsy1 Hbi1) as [A1 [A2 [A3 [A4 [A5 [A6 A7]]]]]].
      rewrite Eb in *. cbn [fst snd] in *. subst bx.
      split; [eapply coherentS_same_view; eauto|]. split; [exact A3|]. split; [apply A7; exact Hdb1|]. split; [exact A6|].
      intros j. unfold sget. rewrite A4. apply Hcom1.
    - assert (Hat : req_at s1 ii) by (destruct Hii as [Hii|Hii]; [apply Z.ltb_ge in Ei; lia | exact Hii]).
      destruct (ensure_block_ok s1 _ _ _ Hsy1 Hbi1 Hat E2) as [A1 [A2 [A3 [A4 [A5 [A6 [A7 A8]]]]]]].
      split; [eapply coherentS_same_view; eauto|]. split; [exact A3|]. split; [apply A5; exact Hdb1|]. split; [exact A4|].
      intros j. rewrite A8. apply Hcom1. }
  destruct K2 as [Hc2 [Hbi2 [Hdb2 [Hib2 Hcom2]]]].
  (* the loop over the existing requirements *)
  unfold es in Hc2. rewrite entries_require in Hc2.
  destruct (sri_loop_S need (one_flat_uncommented s0) (sc_l2b sc) dbid ibid (post_require f) (f_require f) (pre_require f) s2 [] s3 rs have Hc2
              (bi_nodup _ Hbi2) Hdb2 Hib2) as [Hc3 [Hb3 [Hn3 [Hdb3 Hib3]]]]; [ | exact Hne' | exact E3 |].
  { intros r i Hin Hs Hl. eapply settable_com; [symmetry; apply Hcom2|]. apply (Hset r i Hin Hs Hl). }
  (* the new requirements *)
  destruct (sri_add_new_S dbid ibid have (post_require f) need (pre_require f) s3 rs s4 rs' Hc3) as [Hc4 [Hb4 Hn4]];
    [rewrite Hb3; exact (bi_nodup _ Hbi2) | exact Hdb3 | exact Hib3 | exact Hne' | exact E4 |].
  split; [|split; [|split; [exact Hbi2 | split; [exact Hdb2 | split; [exact Hib2|]]]]].
  3: { split; [apply coherent_S; rewrite entries_require; exact Hc3 | split; [exact Hdb3 | split; [exact Hib3|]]].
       rewrite Hb3. exact (bi_nodup _ Hbi2). }
  - apply coherent_S. rewrite entries_require. exact Hc4.
  - destruct Hbi2 as [B1 B2]. split.
    + rewrite Hb4, Hb3. exact B1.
    + rewrite Hb4, Hb3, Hn4, Hn3. exact B2.
Qed.

Theorem set_require_separate_indirect_pre_sort f l f' :
  distinct_paths (map req_path l) = true -> Coherent f -> BlockIdsOk (fsyn f) -> RequireSettable f ->
  set_require_separate_indirect f l = Some f' ->
  exists g, f' = sort_blocks g /\ Coherent g /\ BlockIdsOk (fsyn g).
Proof.
  intros Hd Hc Hbi Hset H.
  destruct (sri_steps_exist f l f' H) as [s1 [dbid [di [ii [s2 [ibid [s3 [rs [have [s4 [rs' St]]]]]]]]]]].
  destruct (sri_pre_sort_explicit _ _ _ _ _ _ _ _ _ _ _ _ _ _ Hd Hc Hbi Hset St) as [A [Bq _]].
  exists (with_require (with_syn f s4) rs'). split; [apply St | split; [exact A | exact Bq]].
Qed.

Theorem set_require_separate_indirect_coherent f l f' :
  distinct_paths (map req_path l) = true -> Coherent f -> BlockIdsOk (fsyn f) -> RequireSettable f ->
  set_require_separate_indirect f l = Some f' -> Coherent f'.
Proof.
  intros Hd Hc Hbi Hset H.
  destruct (set_require_separate_indirect_pre_sort f l f' Hd Hc Hbi Hset H) as [g [-> [Hg _]]].
  apply sort_blocks_coherent. exact Hg.
Qed.
