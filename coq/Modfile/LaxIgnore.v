(* lax_ignores_unknown: ParseLax (any fixer) gives the same module, go, require and retract
   values and the same errors when statements it does not look at are removed from the
   syntax tree.  The statements ParseLax (parseToFile with strict = false, File.add) does
   not look at are [ignorable]:
     - a Line whose first token is not go, module, retract or require;
     - a LineBlock with more than one token before "(", or whose single token is not
       module, retract or require (a block "go ( ... )" is not interpreted either);
     - a CommentBlock.
   Removing statements shifts the Syntax pointers (statement indices), so the outcome is
   compared through [core_vals], the values without the pointers. *)
From Verif.Base Require Import Bytes Utf8 Strconv.
From Verif.Semver Require Import Model.
From Verif.Module Require Import Path.
From Verif.Modfile Require Import Syntax Lex Parse Print Directives ProofsLex ProofsParse ProofsDirectives LaxRetract LaxStrict.

Definition ignorable (x : expr) : bool :=
  match x with
  | ELine l => match l_token l with [] => false | verb :: _ => negb (is_core verb) end
  | EBlock b => match b_token b with
                | [] => false
                | [verb] => negb (known_mod_block verb && is_core verb)
                | _ => true
                end
  | ECommentBlock _ => true
  end.

(* module path, version and deprecation; go version; requirements; retractions *)
Definition core_vals (f : file) :=
  (option_map (fun m => (md_mod m, md_deprecated m)) (fd_module f),
   option_map go_version (fd_go f),
   map (fun r => (rq_mod r, rq_indirect r)) (fd_require f),
   map (fun r => (rt_low r, rt_high r, rt_rationale r)) (fd_retract f)).

Definition same_outcome (a b : dresult file) : Prop :=
  match a, b with
  | DOk f, DOk f' => core_vals f = core_vals f'
  | DErrs e, DErrs e' => e = e'
  | DPanic, DPanic => True
  | _, _ => False
  end.

Definition drop_stmts (keep : expr -> bool) (syn : file_syntax) : file_syntax :=
  mkFile (f_name syn) (f_comments syn) (filter keep (f_stmt syn)).

Lemma Forall2_impl {A C} (P Q : A -> C -> Prop) l l' :
  (forall a b, P a b -> Q a b) -> Forall2 P l l' -> Forall2 Q l l'.
Proof. intros H. induction 1; constructor; auto. Qed.

(* ---------------------------------------------------------------- one call of add *)

Lemma core_vals_inv fA fB : core_vals fA = core_vals fB ->
  option_map (fun m => (md_mod m, md_deprecated m)) (fd_module fA)
    = option_map (fun m => (md_mod m, md_deprecated m)) (fd_module fB) /\
  option_map go_version (fd_go fA) = option_map go_version (fd_go fB) /\
  map (fun r => (rq_mod r, rq_indirect r)) (fd_require fA) = map (fun r => (rq_mod r, rq_indirect r)) (fd_require fB) /\
  map (fun r => (rt_low r, rt_high r, rt_rationale r)) (fd_retract fA)
    = map (fun r => (rt_low r, rt_high r, rt_rationale r)) (fd_retract fB).
Proof. unfold core_vals. intros [= A B0 C D]. auto. Qed.

Ltac fin Hv :=
  cbn; split; [reflexivity|split; [reflexivity|split;
    [first [exact Hv | unfold core_vals in *; cbn in *; rewrite ?map_app; cbn; congruence]
    |first [left; split; reflexivity | right; eauto]]]].

(* the lax parser on two File structures with the same values, for the same line *)
Lemma add_lax_vals fx fA fB blk l refA refB verb args :
  core_vals fA = core_vals fB ->
  let sA := add false fx fA blk l refA verb args in
  let sB := add false fx fB blk l refB verb args in
  st_err sA = st_err sB /\ st_args sA = st_args sB /\ core_vals (st_file sA) = core_vals (st_file sB) /\
  ((fd_retract (st_file sA) = fd_retract fA /\ fd_retract (st_file sB) = fd_retract fB) \/
   exists low high rat,
     fd_retract (st_file sA) = fd_retract fA ++ [mkRetractD low high rat refA] /\
     fd_retract (st_file sB) = fd_retract fB ++ [mkRetractD low high rat refB]).
Proof.
  intros Hv. pose proof (core_vals_inv _ _ Hv) as (Em & Eg & Er & Et). cbv zeta.
  unfold add. destruct (is_core verb) eqn:Hc; unfold is_core in Hc; rewrite Hc; cbn [negb andb].
  2:{ fin Hv. }
  verb_cases verb; try (vm_compute in Hc; discriminate).
  - (* go *) cbn [negb]. unfold add_go.
    destruct (fd_go fA) as [gA|], (fd_go fB) as [gB|]; try discriminate; [fin Hv|].
    destruct args as [|a [|b args]]; try (fin Hv).
    destruct (go_version_re a); [fin Hv|].
    destruct (lax_go_version a); fin Hv.
  - (* module *)
    destruct (fd_module fA) as [mA|], (fd_module fB) as [mB|]; try discriminate; [fin Hv|].
    destruct args as [|a [|b args]]; try (fin Hv).
    destruct (parse_string a) as [[s tok]|]; fin Hv.
  - (* require *) cbn [orb].
    destruct args as [|a0 [|a1 [|a2 args]]]; try (fin Hv).
    destruct (parse_string a0) as [[s tok0]|]; [|fin Hv].
    destruct (parse_version fx s a1) as [tok1 [v|]]; [|fin Hv].
    destruct (module_path_major s); [|fin Hv].
    destruct (negb (check_path_major v s0)); [fin Hv|].
    change (is_verb (B "require") "require") with true. cbn iota. fin Hv.
  - (* retract *)
    destruct (parse_version_interval dont_fix [] args) as [args' [[[low high] rest]|]]; [|fin Hv].
    cbn [negb andb]. rewrite andb_false_r. fin Hv.
Qed.

(* a Line the lax parser ignores *)
Lemma add_lax_noncore fx f blk l ref verb args : is_core verb = false ->
  add false fx f blk l ref verb args = ok_step f args.
Proof. intros Hc. unfold add. unfold is_core in Hc. rewrite Hc. reflexivity. Qed.

Lemma block_lines_lax_noncore fx blk verb i : is_core verb = false ->
  forall ls j f errs acc,
  exists ls', block_lines (fun f l ref args => add false fx f blk l ref verb args) i j ls f errs acc = (f, errs, ls').
Proof.
  intros Hc. induction ls as [|l ls IH]; intros j f errs acc; cbn [block_lines]; [eauto|].
  rewrite add_lax_noncore by exact Hc. cbn [st_file st_args st_err ok_step add_err]. apply IH.
Qed.

(* ---------------------------------------------------------------- the two runs *)

(* run A reads all statements, run B the kept ones *)
Definition rel3 (A B : loop_state file) : Prop :=
  core_vals (lp_file A) = core_vals (lp_file B) /\ lp_errs_r A = lp_errs_r B /\ lp_panic A = lp_panic B /\
  rinv A /\ rinv B /\
  Forall2 (fun a b => get_line_r (lp_stmts_r A) (rt_syntax a) = get_line_r (lp_stmts_r B) (rt_syntax b))
          (fd_retract (lp_file A)) (fd_retract (lp_file B)).

(* an ignorable statement changes nothing but the rebuilt tree *)
Lemma step_ignorable fx i x (A : loop_state file) : ignorable x = true ->
  exists x', step_of false fx i x A = mkLS (lp_file A) (x' :: lp_stmts_r A) (lp_errs_r A) (lp_panic A).
Proof.
  unfold step_of, stmt_step, ignorable. destruct x as [l|b|c].
  - destruct (l_token l) as [|verb args]; [discriminate|]. intros Hc. apply negb_true_iff in Hc.
    rewrite add_lax_noncore by exact Hc. cbn. eauto.
  - destruct (b_token b) as [|verb [|v2 r]]; [discriminate| |eauto].
    intros Hc. apply negb_true_iff in Hc. destruct (known_mod_block verb); [|eauto].
    cbn [andb] in Hc.
    destruct (block_lines_lax_noncore fx (Some b) verb i Hc (b_line b) O (lp_file A) (lp_errs_r A) []) as (ls' & E).
    rewrite E. eauto.
  - eauto.
Qed.

Lemma rel3_drop fx x A B : rel3 A B -> ignorable x = true ->
  rel3 (step_of false fx (length (lp_stmts_r A)) x A) B.
Proof.
  intros (Hv & He & Hp & HiA & HiB & Hl) Hig.
  pose proof (stmt_step_rinv false fx A x HiA) as HiA'.
  destruct (step_ignorable fx (length (lp_stmts_r A)) x A Hig) as (x' & E). rewrite E in *.
  split; [exact Hv|]. split; [exact He|]. split; [exact Hp|]. split; [exact HiA'|]. split; [exact HiB|].
  cbn [lp_file lp_stmts_r]. eapply Forall2_impl_in; [exact Hl|]. intros a b Ha _ Eab.
  destruct HiA as (_ & Hall). rewrite Forall_forall in Hall. destruct (Hall a Ha) as (Hlt & _).
  rewrite glr_old by exact Hlt. exact Eab.
Qed.

Lemma Forall2_glr_cons xA xB sA sB rsA rsB :
  Forall (ref_ok sA) rsA -> Forall (ref_ok sB) rsB ->
  Forall2 (fun a b => get_line_r sA (rt_syntax a) = get_line_r sB (rt_syntax b)) rsA rsB ->
  Forall2 (fun a b => get_line_r (xA :: sA) (rt_syntax a) = get_line_r (xB :: sB) (rt_syntax b)) rsA rsB.
Proof.
  intros HA HB H. eapply Forall2_impl_in; [exact H|]. intros a b Ha Hb E.
  rewrite Forall_forall in HA, HB. destruct (HA a Ha) as (HltA & _). destruct (HB b Hb) as (HltB & _).
  rewrite !glr_old by assumption. exact E.
Qed.

(* the lines of a block the lax parser interprets *)
Lemma block_lines_lax2 fx blk verb iA iB : forall ls j fA fB errs acc,
  core_vals fA = core_vals fB ->
  let rA := block_lines (fun f l ref args => add false fx f blk l ref verb args) iA j ls fA errs acc in
  let rB := block_lines (fun f l ref args => add false fx f blk l ref verb args) iB j ls fB errs acc in
  core_vals (fst (fst rA)) = core_vals (fst (fst rB)) /\ snd (fst rA) = snd (fst rB) /\ snd rA = snd rB /\
  exists nA nB, fd_retract (fst (fst rA)) = fd_retract fA ++ nA /\ fd_retract (fst (fst rB)) = fd_retract fB ++ nB /\
                Forall2 (fun a b => exists j', rt_syntax a = (iA, Some j') /\ rt_syntax b = (iB, Some j')) nA nB.
Proof.
  induction ls as [|l ls IH]; intros j fA fB errs acc Hv; cbn [block_lines].
  - cbn. repeat split; auto. exists [], []. rewrite !app_nil_r. repeat split; auto.
  - cbv zeta in IH.
    destruct (add_lax_vals fx fA fB blk l (iA, Some j) (iB, Some j) verb (l_token l) Hv) as (E1 & E2 & E3 & E4).
    cbv zeta in E1, E2, E3, E4. unfold add_err. rewrite E1, E2.
    specialize (IH (S j) _ _ (if st_err (add false fx fB blk l (iB, Some j) verb (l_token l))
                              then l_start l :: errs else errs)
                  (line_set_token l (st_args (add false fx fB blk l (iB, Some j) verb (l_token l))) :: acc) E3).
    destruct IH as (I1 & I2 & I3 & nA & nB & I4 & I5 & I6).
    split; [exact I1|]. split; [exact I2|]. split; [exact I3|].
    destruct E4 as [(EA & EB)|(low & high & rat & EA & EB)].
    + exists nA, nB. rewrite I4, I5, EA, EB. auto.
    + exists (mkRetractD low high rat (iA, Some j) :: nA), (mkRetractD low high rat (iB, Some j) :: nB).
      rewrite I4, I5, EA, EB, <- !app_assoc. cbn [app]. split; [reflexivity|]. split; [reflexivity|].
      constructor; [|exact I6]. exists j. auto.
Qed.

Lemma rel3_keep fx x A B : rel3 A B ->
  rel3 (step_of false fx (length (lp_stmts_r A)) x A) (step_of false fx (length (lp_stmts_r B)) x B).
Proof.
  intros (Hv & He & Hp & HiA & HiB & Hl).
  pose proof (stmt_step_rinv false fx A x HiA) as HiA'.
  pose proof (stmt_step_rinv false fx B x HiB) as HiB'.
  unfold rel3. split; [|split; [|split; [|split; [exact HiA'|split; [exact HiB'|]]]]]; clear HiA' HiB';
    destruct HiA as (_ & HallA); destruct HiB as (_ & HallB); unfold step_of, stmt_step.
  1-3: destruct x as [l|b|c]; cbn [lp_file lp_errs_r lp_panic]; auto.
  1,3,5: destruct (l_token l) as [|verb args]; cbn [lp_file lp_errs_r lp_panic]; auto;
         destruct (add_lax_vals fx (lp_file A) (lp_file B) None l (length (lp_stmts_r A), None)
                     (length (lp_stmts_r B), None) verb args Hv) as (E1 & E2 & E3 & E4);
         cbv zeta in E1, E2, E3, E4; auto; unfold add_err; rewrite E1, He; reflexivity.
  1-3: destruct (b_token b) as [|verb [|v2 r]]; cbn [lp_file lp_errs_r lp_panic]; auto;
       destruct (known_mod_block verb); cbn [lp_file lp_errs_r lp_panic]; auto;
       pose proof (block_lines_lax2 fx (Some b) verb (length (lp_stmts_r A)) (length (lp_stmts_r B))
                     (b_line b) O (lp_file A) (lp_file B) (lp_errs_r A) [] Hv) as Hb;
       cbv zeta in Hb; rewrite <- He;
       destruct (block_lines _ (length (lp_stmts_r A)) O (b_line b) (lp_file A) (lp_errs_r A) []) as [[f1 e1] ls1];
       destruct (block_lines _ (length (lp_stmts_r B)) O (b_line b) (lp_file B) (lp_errs_r A) []) as [[f2 e2] ls2];
       cbn [fst snd lp_file lp_errs_r lp_panic] in *; destruct Hb as (H1 & H2 & H3 & _); auto.
  (* the retract lines *)
  destruct x as [l|b|c]; cbn [lp_file lp_stmts_r].
  - destruct (l_token l) as [|verb args]; cbn [lp_file lp_stmts_r].
    { apply Forall2_glr_cons; auto. }
    destruct (add_lax_vals fx (lp_file A) (lp_file B) None l (length (lp_stmts_r A), None)
                (length (lp_stmts_r B), None) verb args Hv) as (E1 & E2 & E3 & E4).
    cbv zeta in E1, E2, E3, E4. rewrite E2.
    destruct E4 as [(EA & EB)|(low & high & rat & EA & EB)]; rewrite EA, EB.
    + apply Forall2_glr_cons; auto.
    + apply Forall2_app; [apply Forall2_glr_cons; auto|]. constructor; [|constructor].
      cbn [rt_syntax]. rewrite !glr_new. reflexivity.
  - destruct (b_token b) as [|verb [|v2 r]]; cbn [lp_file lp_stmts_r]; try (apply Forall2_glr_cons; auto).
    destruct (known_mod_block verb); cbn [lp_file lp_stmts_r]; [|apply Forall2_glr_cons; auto].
    pose proof (block_lines_lax2 fx (Some b) verb (length (lp_stmts_r A)) (length (lp_stmts_r B))
                  (b_line b) O (lp_file A) (lp_file B) (lp_errs_r A) [] Hv) as Hb.
    cbv zeta in Hb. rewrite <- He.
    destruct (block_lines _ (length (lp_stmts_r A)) O (b_line b) (lp_file A) (lp_errs_r A) []) as [[f1 e1] ls1].
    destruct (block_lines _ (length (lp_stmts_r B)) O (b_line b) (lp_file B) (lp_errs_r A) []) as [[f2 e2] ls2].
    cbn [fst snd lp_file lp_stmts_r] in *. destruct Hb as (_ & _ & -> & nA & nB & -> & -> & Hn).
    apply Forall2_app; [apply Forall2_glr_cons; auto|].
    eapply Forall2_impl; [|exact Hn]. intros a b0 (j' & -> & ->). rewrite !glr_new. reflexivity.
  - apply Forall2_glr_cons; auto.
Qed.

Lemma stmts_loop_rel3 fx keep : (forall x, keep x = false -> ignorable x = true) ->
  forall xs A B, rel3 A B ->
  rel3 (stmts_loop (step_of false fx) (length (lp_stmts_r A)) xs A)
       (stmts_loop (step_of false fx) (length (lp_stmts_r B)) (filter keep xs) B).
Proof.
  intros Hk. induction xs as [|x xs IH]; intros A B H; cbn [stmts_loop filter]; [exact H|].
  pose proof (stmt_step_length false fx (length (lp_stmts_r A)) x A) as HlA.
  destruct (keep x) eqn:Ek.
  - cbn [stmts_loop]. pose proof (stmt_step_length false fx (length (lp_stmts_r B)) x B) as HlB.
    rewrite <- HlA, <- HlB. apply IH. apply rel3_keep. exact H.
  - rewrite <- HlA. apply IH. apply rel3_drop; [exact H|]. apply Hk. exact Ek.
Qed.

(* ---------------------------------------------------------------- fixRetract, and the theorem *)

Lemma map_eq_Forall2 {A C} (g : A -> C) : forall l l', map g l = map g l' -> Forall2 (fun a b => g a = g b) l l'.
Proof.
  induction l as [|a l IH]; intros [|b l'] H; cbn in H; try discriminate; constructor.
  - congruence.
  - apply IH. congruence.
Qed.

Lemma Forall2_map_eq {A C} (g : A -> C) l l' : Forall2 (fun a b => g a = g b) l l' -> map g l = map g l'.
Proof. induction 1; cbn; congruence. Qed.

Lemma Forall2_and {A C} (P Q : A -> C -> Prop) l l' :
  Forall2 P l l' -> Forall2 Q l l' -> Forall2 (fun a b => P a b /\ Q a b) l l'.
Proof.
  induction 1 as [|a b l l' Hab H IH]; intros HQ; inversion HQ; subst; constructor; auto.
Qed.

Definition anyref : line_ref -> line_ref -> Prop := fun _ _ => True.

Theorem lax_ignores_unknown fx keep syn :
  (forall x, keep x = false -> ignorable x = true) ->
  same_outcome (file_of_syntax false fx syn) (file_of_syntax false fx (drop_stmts keep syn)).
Proof.
  intros Hk. unfold file_of_syntax, drop_stmts. cbn [f_stmt f_name f_comments]. fold (step_of false fx).
  set (A0 := mkLS (empty_file syn) [] [] false).
  set (B0 := mkLS (empty_file (mkFile (f_name syn) (f_comments syn) (filter keep (f_stmt syn)))) [] [] false).
  pose proof (stmts_loop_rel3 fx keep Hk (f_stmt syn) A0 B0) as Hrel.
  cbn [lp_stmts_r A0 B0 length] in Hrel.
  set (A := stmts_loop (step_of false fx) 0 (f_stmt syn) A0) in *.
  set (Bs := stmts_loop (step_of false fx) 0 (filter keep (f_stmt syn)) B0) in *.
  destruct Hrel as (Hv & He & Hp & (HndA & HallA) & (HndB & HallB) & Hl).
  { split; [reflexivity|]. split; [reflexivity|]. split; [reflexivity|].
    split; [split; constructor|]. split; [split; constructor|]. constructor. }
  pose proof (core_vals_inv _ _ Hv) as (Em & Eg & Er & Et).
  unfold fix_retract. destruct fx as [g|].
  2:{ rewrite <- Hp, <- He. destruct (lp_panic A); [exact I|]. destruct (lp_errs_r A); [|reflexivity].
      cbn. unfold core_vals in *. cbn. exact Hv. }
  cbn [fd_module fd_retract fd_syntax with_syntax].
  assert (Epath : match fd_module (lp_file A) with Some m => mv_path (md_mod m) | None => [] end
                  = match fd_module (lp_file Bs) with Some m => mv_path (md_mod m) | None => [] end).
  { destruct (fd_module (lp_file A)), (fd_module (lp_file Bs)); cbn in Em; try discriminate; congruence. }
  rewrite <- Epath, <- Hp, <- He.
  set (synA := mkFile (f_name syn) (f_comments syn) (frev (lp_stmts_r A))).
  set (synB := mkFile (f_name syn) (f_comments syn) (frev (lp_stmts_r Bs))).
  assert (Hgl : Forall2 (fun a b => get_line synA (rt_syntax a) = get_line synB (rt_syntax b))
                        (fd_retract (lp_file A)) (fd_retract (lp_file Bs))).
  { eapply Forall2_impl; [|exact Hl]. intros a b E. rewrite !get_line_get_line_s. subst synA synB. cbn [f_stmt].
    rewrite !frev_rev. exact E. }
  assert (Hvals : Forall2 (rvals anyref) (fd_retract (lp_file A)) (fd_retract (lp_file Bs))).
  { eapply Forall2_impl; [|exact (map_eq_Forall2 _ _ _ Et)]. cbn beta. intros a b [= E1 E2 E3]. repeat split; auto. }
  destruct (fd_retract (lp_file A)) as [|rA rsA] eqn:ErA; destruct (fd_retract (lp_file Bs)) as [|rB rsB] eqn:ErB;
    try (inversion Hvals; fail).
  { destruct (lp_panic A); [exact I|]. destruct (lp_errs_r A); [|reflexivity].
    cbn. unfold core_vals in *. cbn. rewrite ErA, ErB. cbn in *. congruence. }
  destruct (Parse.is_nil _).
  - inversion Hgl as [|? ? ? ? E0 _]; subst. rewrite E0.
    destruct (get_line synB (rt_syntax rB)); [|exact I].
    destruct (lp_panic A); [exact I|]. reflexivity.
  - pose proof (frl_agree (Some g) (match fd_module (lp_file A) with Some m => mv_path (md_mod m) | None => [] end)
                  anyref (rA :: rsA) (rB :: rsB) Hvals synA synB [] [] (lp_errs_r A) (lp_panic A) Hgl HndA HndB
                  (Forall2_nil _)) as Hag.
    destruct (fix_retract_loop _ _ (rA :: rsA) synA [] (lp_errs_r A) (lp_panic A)) as [[[rsA' synA'] errsA] panicA].
    destruct (fix_retract_loop _ _ (rB :: rsB) synB [] (lp_errs_r A) (lp_panic A)) as [[[rsB' synB'] errsB] panicB].
    destruct Hag as (Hr & <- & <-).
    destruct panicA; [exact I|]. destruct errsA; [|reflexivity].
    cbn. unfold core_vals in *. cbn. f_equal; [congruence|].
    apply Forall2_map_eq. eapply Forall2_impl; [|exact Hr]. intros a b (E1 & E2 & E3 & _). congruence.
Qed.

(* on the text: ParseLax of a file and of its tree without ignorable statements *)
Theorem lax_ignores_unknown_data fx keep data syn :
  (forall x, keep x = false -> ignorable x = true) ->
  parse data = POk syn ->
  same_outcome (parse_to_file false fx data) (file_of_syntax false fx (drop_stmts keep syn)).
Proof.
  intros Hk Hp. unfold parse_to_file, lift_parse. rewrite Hp. apply lax_ignores_unknown. exact Hk.
Qed.
