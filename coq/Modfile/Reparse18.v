(* Reparse, part 18: typed_equals_reparse and result_parses_strictly end to end: from a starting
   state that satisfies the invariants, after any sequence of operations with valid arguments
   followed by Cleanup, the formatted file is accepted by the strict parser and its directives
   are, as multisets, the typed lists, which are the prediction of the keyed model. *)
From Coq Require Import Permutation.
From Verif.Base Require Import Bytes.
From Verif.Modfile Require Import Syntax Lex Parse Print Directives RoundLexPure3 RoundDir2 RoundDir3 RoundWork
  Reparse2 Reparse3 Reparse5 Reparse7 Reparse8 Reparse9 Reparse10 Reparse11 Reparse12 Reparse15 Reparse16 Reparse17.
From Verif.Modfile Require Import EditModel EditOps EditSpec EditProofs2Blocks EditProofs2Inv EditProofs2Refine.

Lemma run_last_cleanup last : (last = Cleanup \/ last = WCleanup) ->
  forall ops f k er errs f', run_from k er (ops ++ [last]) f = RunOk errs f' -> exists f1, fsyn f' = syn_cleanup (fsyn f1).
Proof.
  intros Hl. induction ops as [|o ops IH]; intros f k er errs f' H; cbn [app run_from] in H.
  - destruct Hl as [-> | ->]; cbn [apply] in H; injection H as _ <-; exists f; reflexivity.
  - destruct (apply o f) as [f1|f1|]; [| |discriminate]; eapply IH; exact H.
Qed.

Lemma forall_snoc {A} (P : A -> Prop) l x : Forall P l -> P x -> Forall P (l ++ [x]).
Proof. intros H Hx. apply Forall_app. split; [exact H|constructor; [exact Hx|constructor]]. Qed.

Section EndToEnd.
Variables (name : str) (ops : list op) (f : file) (errs : list bool) (f' : file).
Hypothesis Hc : Coherent f.
Hypothesis Hb : BlockIdsOk (fsyn f).
Hypothesis Hs : HeapSettable (fsyn f).
Hypothesis Hv : Forall (fun o => valid_args o = true) ops.
Hypothesis Hca : Forall comment_arg_ok ops.

(* go.mod *)
Theorem reparse_end_to_end_mod :
  SynGood known_mod_block (fsyn f) -> KOk Pmod (abs f) -> Forall (strict_args Pmod) ops ->
  run_ops (ops ++ [Cleanup]) f = RunOk errs f' ->
  Printable known_mod_block (fsyn f') /\
  exists parsed, parse_to_file true None (format (to_syntax name (fsyn f'))) = DOk parsed /\
    same_directives parsed (abs f') /\ krun (ops ++ [Cleanup]) (abs f) [] = (abs f', errs).
Proof.
  intros Hg Hk Hst Hrun.
  assert (Hv' : Forall (fun o => valid_args o = true) (ops ++ [Cleanup])) by (apply forall_snoc; [exact Hv|reflexivity]).
  assert (Hst' : Forall (strict_args Pmod) (ops ++ [Cleanup])) by (apply forall_snoc; [exact Hst|exact I]).
  assert (Hca' : Forall comment_arg_ok (ops ++ [Cleanup])) by (apply forall_snoc; [exact Hca|exact I]).
  destruct (run_ops_refines_all _ f errs f' Hc Hb Hs Hv' Hrun) as ((Hc' & _ & _) & Hkr).
  assert (Hk' : KOk Pmod (abs f')).
  { pose proof (krun_ok Pmod _ (abs f) [] Hst' Hk) as H. rewrite Hkr in H. exact H. }
  pose proof (kok_typed Pmod Pmod_text f' Hk') as Hti.
  pose proof (syn_good_run known_mod_block _ f O [] errs f' Hca' Hg Hrun) as Hg'.
  destruct (run_last_cleanup Cleanup (or_introl eq_refl) ops f O [] errs f' Hrun) as (f1 & E).
  assert (Hcl : Cleaned (fsyn f')) by (rewrite E; apply syn_cleanup_cleaned).
  assert (Hp : Printable known_mod_block (fsyn f')).
  { apply printable_mod; auto. eapply Forall_impl; [|exact Hti]. intros x (_ & H). exact H. }
  split; [exact Hp|].
  destruct (typed_equals_reparse_mod name f' Hc' Hp Hti) as (parsed & Hparse & Hd).
  exists parsed. split; [exact Hparse|]. split; [exact Hd|exact Hkr].
Qed.

(* go.work *)
Theorem reparse_end_to_end_work :
  SynGood known_work_block (fsyn f) -> KOk Pwork (abs f) -> Forall (strict_args Pwork) ops ->
  run_ops (ops ++ [WCleanup]) f = RunOk errs f' ->
  PrintableW (fsyn f') /\
  exists parsed, parse_work None (format (to_syntax name (fsyn f'))) = DOk parsed /\
    same_directives_work parsed (abs f') /\ krun (ops ++ [WCleanup]) (abs f) [] = (abs f', errs).
Proof.
  intros Hg Hk Hst Hrun.
  assert (Hv' : Forall (fun o => valid_args o = true) (ops ++ [WCleanup])) by (apply forall_snoc; [exact Hv|reflexivity]).
  assert (Hst' : Forall (strict_args Pwork) (ops ++ [WCleanup])) by (apply forall_snoc; [exact Hst|exact I]).
  assert (Hca' : Forall comment_arg_ok (ops ++ [WCleanup])) by (apply forall_snoc; [exact Hca|exact I]).
  destruct (run_ops_refines_all _ f errs f' Hc Hb Hs Hv' Hrun) as ((Hc' & _ & _) & Hkr).
  assert (Hk' : KOk Pwork (abs f')).
  { pose proof (krun_ok Pwork _ (abs f) [] Hst' Hk) as H. rewrite Hkr in H. exact H. }
  pose proof (kok_typed Pwork Pwork_text f' Hk') as Hti.
  pose proof (syn_good_run known_work_block _ f O [] errs f' Hca' Hg Hrun) as Hg'.
  destruct (run_last_cleanup WCleanup (or_intror eq_refl) ops f O [] errs f' Hrun) as (f1 & E).
  assert (Hcl : Cleaned (fsyn f')) by (rewrite E; apply syn_cleanup_cleaned).
  assert (Hp : PrintableW (fsyn f')).
  { apply printable_work; auto. eapply Forall_impl; [|exact Hti]. intros x (_ & H). exact H. }
  split; [exact Hp|].
  destruct (typed_equals_reparse_work name f' Hc' Hp Hti) as (parsed & Hparse & Hd).
  exists parsed. split; [exact Hparse|]. split; [exact Hd|exact Hkr].
Qed.
End EndToEnd.

(* result_parses_strictly (C08): the directives of the strict re-parse are the prediction of the
   keyed model *)
Theorem result_parses_strictly_mod name ops f errs f' :
  Coherent f -> BlockIdsOk (fsyn f) -> HeapSettable (fsyn f) -> SynGood known_mod_block (fsyn f) -> KOk Pmod (abs f) ->
  Forall (fun o => valid_args o = true) ops -> Forall comment_arg_ok ops -> Forall (strict_args Pmod) ops ->
  run_ops (ops ++ [Cleanup]) f = RunOk errs f' ->
  exists parsed, parse_to_file true None (format (to_syntax name (fsyn f'))) = DOk parsed /\
    same_directives parsed (fst (krun (ops ++ [Cleanup]) (abs f) [])) /\
    snd (krun (ops ++ [Cleanup]) (abs f) []) = errs.
Proof.
  intros Hc Hb Hs Hg Hk Hv Hca Hst Hrun.
  destruct (reparse_end_to_end_mod name ops f errs f' Hc Hb Hs Hv Hca Hg Hk Hst Hrun) as (_ & parsed & Hp & Hd & Hkr).
  exists parsed. rewrite Hkr. auto.
Qed.

Theorem result_parses_strictly_work name ops f errs f' :
  Coherent f -> BlockIdsOk (fsyn f) -> HeapSettable (fsyn f) -> SynGood known_work_block (fsyn f) -> KOk Pwork (abs f) ->
  Forall (fun o => valid_args o = true) ops -> Forall comment_arg_ok ops -> Forall (strict_args Pwork) ops ->
  run_ops (ops ++ [WCleanup]) f = RunOk errs f' ->
  exists parsed, parse_work None (format (to_syntax name (fsyn f'))) = DOk parsed /\
    same_directives_work parsed (fst (krun (ops ++ [WCleanup]) (abs f) [])) /\
    snd (krun (ops ++ [WCleanup]) (abs f) []) = errs.
Proof.
  intros Hc Hb Hs Hg Hk Hv Hca Hst Hrun.
  destruct (reparse_end_to_end_work name ops f errs f' Hc Hb Hs Hv Hca Hg Hk Hst Hrun) as (_ & parsed & Hp & Hd & Hkr).
  exists parsed. rewrite Hkr. auto.
Qed.

(* typed_equals_reparse (C15), in the order of hypotheses used in Props/C15.v *)
Theorem typed_equals_reparse name ops f errs f' :
  Coherent f -> BlockIdsOk (fsyn f) -> HeapSettable (fsyn f) -> SynGood known_mod_block (fsyn f) -> KOk Pmod (abs f) ->
  Forall (fun o => valid_args o = true) ops -> Forall comment_arg_ok ops -> Forall (strict_args Pmod) ops ->
  run_ops (ops ++ [Cleanup]) f = RunOk errs f' ->
  exists parsed, parse_to_file true None (format (to_syntax name (fsyn f'))) = DOk parsed /\ same_directives parsed (abs f').
Proof.
  intros Hc Hb Hs Hg Hk Hv Hca Hst Hrun.
  destruct (reparse_end_to_end_mod name ops f errs f' Hc Hb Hs Hv Hca Hg Hk Hst Hrun) as (_ & parsed & Hp & Hd & _).
  exists parsed. auto.
Qed.

Theorem typed_equals_reparse_w name ops f errs f' :
  Coherent f -> BlockIdsOk (fsyn f) -> HeapSettable (fsyn f) -> SynGood known_work_block (fsyn f) -> KOk Pwork (abs f) ->
  Forall (fun o => valid_args o = true) ops -> Forall comment_arg_ok ops -> Forall (strict_args Pwork) ops ->
  run_ops (ops ++ [WCleanup]) f = RunOk errs f' ->
  exists parsed, parse_work None (format (to_syntax name (fsyn f'))) = DOk parsed /\ same_directives_work parsed (abs f').
Proof.
  intros Hc Hb Hs Hg Hk Hv Hca Hst Hrun.
  destruct (reparse_end_to_end_work name ops f errs f' Hc Hb Hs Hv Hca Hg Hk Hst Hrun) as (_ & parsed & Hp & Hd & _).
  exists parsed. auto.
Qed.

(* with the texts: the final state must satisfy TextOk (what finding K6 violates) *)
Theorem typed_equals_reparse_with_text name ops f errs f' :
  Coherent f -> BlockIdsOk (fsyn f) -> HeapSettable (fsyn f) -> SynGood known_mod_block (fsyn f) -> KOk Pmod (abs f) ->
  Forall (fun o => valid_args o = true) ops -> Forall comment_arg_ok ops -> Forall (strict_args Pmod) ops ->
  run_ops (ops ++ [Cleanup]) f = RunOk errs f' -> TextOk f' ->
  exists parsed, parse_to_file true None (format (to_syntax name (fsyn f'))) = DOk parsed /\
    option_map (fun m => (mv_path (md_mod m), md_deprecated m)) (fd_module parsed) =
      option_map (fun m => (mo_path m, mo_depr m)) (f_module f') /\
    Permutation (map (fun r => (rt_low r, rt_high r, rt_rationale r)) (fd_retract parsed)) (k_retract (abs f')).
Proof.
  intros Hc Hb Hs Hg Hk Hv Hca Hst Hrun Ht.
  destruct (reparse_end_to_end_mod name ops f errs f' Hc Hb Hs Hv Hca Hg Hk Hst Hrun) as (Hp & _).
  assert (Hv' : Forall (fun o => valid_args o = true) (ops ++ [Cleanup])) by (apply forall_snoc; [exact Hv|reflexivity]).
  assert (Hst' : Forall (strict_args Pmod) (ops ++ [Cleanup])) by (apply forall_snoc; [exact Hst|exact I]).
  destruct (run_ops_refines_all _ f errs f' Hc Hb Hs Hv' Hrun) as ((Hc' & _ & _) & Hkr).
  assert (Hk' : KOk Pmod (abs f')).
  { pose proof (krun_ok Pmod _ (abs f) [] Hst' Hk) as H. rewrite Hkr in H. exact H. }
  pose proof (kok_typed Pmod Pmod_text f' Hk') as Hti.
  exact (typed_equals_reparse_text name f' Hc' Hp Hti Ht).
Qed.
