(* modulepath_agrees (positive direction): if the strict parser accepts the file, its module
   directive is a single Line naming a valid import path, and ModulePath's line scanner
   skips every physical line before the line of that directive, then ModulePath returns
   the parser's module path. *)
From Verif.Base Require Import Bytes Utf8 Strconv.
From Verif.Gen Require Import GenUnicode GenChars.
From Verif.Semver Require Import Model.
From Verif.Module Require Import Path PathProofs PathProofsLists.
From Verif.Modfile Require Import Syntax Lex Parse Print Directives ModulePath ProofsLex ProofsLexNoLF ProofsParse
  ProofsDirectives LaxRetract ModulePathProofsLex ModulePathProofsParse ModulePathProofsStr ModulePathProofsQuote.

(* ---------------------------------------------------------------- the module Line in the tree *)

Definition mod_tok (l : line) (m : module_d) : Prop :=
  (exists a tok, l_token l = [B "module"; a] /\ parse_string a = Some (mv_path (md_mod m), tok)) \/
  mv_path (md_mod m) = [].

(* a call of add leaves f.Module alone or sets it from a "module" line *)
Lemma add_module_shape strict fx f blk l ref verb args :
  fd_module (st_file (add strict fx f blk l ref verb args)) = fd_module f \/
  (verb = B "module" /\
   exists m, fd_module (st_file (add strict fx f blk l ref verb args)) = Some m /\ md_syntax m = ref /\
     ((exists a tok, args = [a] /\ parse_string a = Some (mv_path (md_mod m), tok)) \/ mv_path (md_mod m) = [])).
Proof.
  unfold add.
  destruct (negb strict && negb _); [left; reflexivity|].
  destruct (is_verb verb "go").
  { left. unfold add_go. destruct (fd_go f); [reflexivity|].
    destruct args as [|a [|b args]]; try reflexivity.
    destruct (go_version_re a); [reflexivity|]. destruct (negb strict); [|reflexivity].
    destruct (lax_go_version a); reflexivity. }
  destruct (is_verb verb "toolchain").
  { left. unfold add_toolchain. destruct (fd_toolchain f); [reflexivity|].
    destruct args as [|a [|b args]]; try reflexivity. destruct (toolchain_re a); reflexivity. }
  destruct (is_verb verb "module") eqn:Vm.
  { apply is_verb_eq in Vm. destruct (fd_module f) eqn:Ef; [left; cbn; rewrite Ef; reflexivity|]. right. split; [exact Vm|].
    destruct args as [|a [|b args]]; try (eexists; split; [reflexivity|split; [reflexivity|right; reflexivity]]).
    destruct (parse_string a) as [[s tok]|] eqn:Ep.
    - eexists. split; [reflexivity|]. split; [reflexivity|]. left. exists a, tok. split; [reflexivity|exact Ep].
    - eexists. split; [reflexivity|split; [reflexivity|right; reflexivity]]. }
  destruct (is_verb verb "godebug").
  { left. unfold add_godebug. destruct args as [|a [|b args]]; try reflexivity.
    destruct (contains_any a _); [reflexivity|]. destruct (cut_eq a) as [[k v]|]; reflexivity. }
  destruct (is_verb verb "require" || is_verb verb "exclude").
  { left. destruct args as [|a0 [|a1 [|a2 args]]]; try reflexivity.
    destruct (parse_string a0) as [[s tok0]|]; [|reflexivity].
    destruct (parse_version fx s a1) as [tok1 [v|]]; [|reflexivity].
    destruct (module_path_major s); [|reflexivity].
    destruct (negb (check_path_major v s0)); [reflexivity|].
    destruct (is_verb verb "require"); reflexivity. }
  destruct (is_verb verb "replace").
  { left. destruct (parse_replace fx verb ref args) as [args' [r|]]; reflexivity. }
  destruct (is_verb verb "retract").
  { left. destruct (parse_version_interval dont_fix [] args) as [args' [[[low high] rest]|]].
    - destruct (negb (Parse.is_nil rest) && strict); reflexivity.
    - destruct strict; reflexivity. }
  destruct (is_verb verb "tool").
  { left. destruct args as [|a [|b args]]; try reflexivity. destruct (parse_string a) as [[s tok]|]; reflexivity. }
  left. reflexivity.
Qed.

Definition minv (done : list expr) (st : loop_state file) : Prop :=
  forall m, fd_module (lp_file st) = Some m -> snd (md_syntax m) = None ->
  exists l, nth_expr (fst (md_syntax m)) done = Some (ELine l) /\ mod_tok l m.

Lemma nth_expr_app_some : forall k a b v, nth_expr k a = Some v -> nth_expr k (a ++ b) = Some v.
Proof. induction k as [|k IH]; intros [|x a] b v H; cbn in *; try discriminate; auto. Qed.

Lemma block_lines_module strict fx blk verb i : forall ls j f errs acc,
  let f' := fst (fst (block_lines (fun f l ref args => add strict fx f blk l ref verb args) i j ls f errs acc)) in
  fd_module f' = fd_module f \/ exists m, fd_module f' = Some m /\ snd (md_syntax m) <> None.
Proof.
  induction ls as [|l ls IH]; intros j f errs acc; cbn [block_lines]; [left; reflexivity|].
  cbv zeta in *.
  specialize (IH (S j) (st_file (add strict fx f blk l (i, Some j) verb (l_token l)))
                (add_err (add strict fx f blk l (i, Some j) verb (l_token l)) (l_start l) errs)
                (line_set_token l (st_args (add strict fx f blk l (i, Some j) verb (l_token l))) :: acc)).
  destruct (add_module_shape strict fx f blk l (i, Some j) verb (l_token l)) as [E|(_ & m & E & Er & _)].
  - rewrite E in IH. exact IH.
  - destruct IH as [IH|IH]; [|right; exact IH]. right. exists m. rewrite IH. split; [exact E|].
    rewrite Er. discriminate.
Qed.

Lemma stmt_step_minv strict fx done x st : minv done st ->
  minv (done ++ [x]) (step_of strict fx (length done) x st).
Proof.
  intros Hm.
  assert (Hkeep : forall st', fd_module (lp_file st') = fd_module (lp_file st) -> minv (done ++ [x]) st').
  { intros st' E m Hmm Hs. rewrite E in Hmm. destruct (Hm m Hmm Hs) as (l & Hn & Ht).
    exists l. split; [apply nth_expr_app_some; exact Hn|exact Ht]. }
  unfold step_of, stmt_step. destruct x as [l|b|c]; try (apply Hkeep; reflexivity).
  - destruct (l_token l) as [|verb args] eqn:Et; [apply Hkeep; reflexivity|].
    destruct (add_module_shape strict fx (lp_file st) None l (length done, None) verb args)
      as [E|(Ev & m & E & Er & Hargs)].
    + apply Hkeep. exact E.
    + intros m' Hmm _. cbn [lp_file] in Hmm. rewrite E in Hmm. injection Hmm as <-.
      exists l. rewrite Er. cbn [fst]. split; [apply nth_expr_app_r|].
      destruct Hargs as [(a & tok & -> & Hp)|Hp]; [left|right; exact Hp].
      exists a, tok. rewrite Et, Ev. auto.
  - destruct (b_token b) as [|verb [|v2 r]]; try (apply Hkeep; reflexivity).
    destruct (known_mod_block verb); [|apply Hkeep; reflexivity].
    pose proof (block_lines_module strict fx (Some b) verb (length done) (b_line b) O (lp_file st) (lp_errs_r st) []) as Hb.
    cbv zeta in Hb.
    destruct (block_lines _ (length done) O (b_line b) (lp_file st) (lp_errs_r st) []) as [[f' e'] ls'].
    cbn [fst] in Hb. destruct Hb as [E|(m & E & Hs)].
    + apply Hkeep. exact E.
    + intros m' Hmm Hs'. cbn [lp_file] in Hmm. rewrite E in Hmm. injection Hmm as <-. contradiction.
Qed.

Lemma stmts_loop_minv strict fx : forall xs done st, minv done st ->
  minv (done ++ xs) (stmts_loop (step_of strict fx) (length done) xs st).
Proof.
  induction xs as [|x xs IH]; intros done st H; cbn [stmts_loop]; [rewrite app_nil_r; exact H|].
  replace (done ++ x :: xs) with ((done ++ [x]) ++ xs) by (rewrite <- app_assoc; reflexivity).
  replace (S (length done)) with (length (done ++ [x])) by (rewrite app_length; cbn; lia).
  apply IH. apply stmt_step_minv. exact H.
Qed.

Lemma fix_retract_module fx f errs panic : fd_module (fst (fst (fix_retract fx f errs panic))) = fd_module f.
Proof.
  unfold fix_retract. destruct fx as [g|]; [|reflexivity].
  destruct (fd_retract f) as [|r rs]; [reflexivity|].
  destruct (Parse.is_nil _).
  - destruct (get_line _ _); reflexivity.
  - destruct (fix_retract_loop _ _ _ _ _ _ _) as [[[rs' syn'] errs'] panic']. reflexivity.
Qed.

(* the Line of the module directive in the tree *)
Lemma module_line_of_file strict fx syn f m :
  file_of_syntax strict fx syn = DOk f -> fd_module f = Some m -> snd (md_syntax m) = None ->
  exists l, nth_expr (fst (md_syntax m)) (f_stmt syn) = Some (ELine l) /\ mod_tok l m.
Proof.
  unfold file_of_syntax. fold (step_of strict fx).
  set (S0 := mkLS (empty_file syn) [] [] false).
  pose proof (stmts_loop_minv strict fx (f_stmt syn) [] S0) as Hm. cbn [app length] in Hm.
  set (st := stmts_loop (step_of strict fx) 0 (f_stmt syn) S0) in *.
  set (f1 := with_syntax (lp_file st) _).
  pose proof (fix_retract_module fx f1 (lp_errs_r st) (lp_panic st)) as Hf.
  destruct (fix_retract fx f1 (lp_errs_r st) (lp_panic st)) as [[f2 errs2] panic2]. cbn [fst] in Hf.
  destruct panic2; [discriminate|]. destruct errs2; [|discriminate]. intros [= <-] Hmm Hs.
  rewrite Hf in Hmm. apply Hm; auto. intros m0 H0. discriminate.
Qed.

(* ---------------------------------------------------------------- the argument token *)

Lemma last_In {A} (a : list A) d : a <> [] -> In (last a d) a.
Proof.
  induction a as [|x a IH]; [congruence|]. intros _. destruct a as [|y a]; [left; reflexivity|].
  right. apply IH. discriminate.
Qed.

Definition mp_value (a : str) : option str :=
  match a with
  | c :: _ => if (c =? 34) || (c =? 96)
              then match unquote a with None => Some [] | Some p => Some p end
              else Some a
  | [] => None
  end.

(* what strict parsing and the validity of the path say about the token *)
Lemma tok_facts a path tok : parse_string a = Some (path, tok) -> check_import_path path = None ->
  a <> [] /\ ascii_ns (hd 0 a) /\ ascii_ns (last a 0) /\ is_ident (hd 0 a) = true /\ hd 0 a <> 47 /\
  contains_dslash (a ++ [47]) = false /\ mp_value a = Some path.
Proof.
  intros Hp Hv. destruct (import_path_head path Hv) as (Hne & Hh & Hl & Hd).
  unfold parse_string in Hp. destruct (has_prefix a [34]) eqn:Eq.
  - destruct (unquote a) as [u|] eqn:Eu; [|discriminate]. injection Hp as -> _.
    destruct (unquote_dq_facts a path Eq Eu) as (Hcd & Hlast & Hhd).
    assert (Hcda : contains_dslash a = false).
    { destruct (contains_dslash a); [rewrite Hcd in Hd by reflexivity; discriminate|reflexivity]. }
    assert (Ha : a <> []) by (intros ->; discriminate).
    assert (H34 : ascii_ns 34) by (split; [lia|vm_compute; reflexivity]).
    split; [exact Ha|]. rewrite Hhd, Hlast. split; [exact H34|]. split; [exact H34|].
    split; [vm_compute; reflexivity|]. split; [lia|]. split.
    + rewrite dslash_app, Hcda, Hlast. reflexivity.
    + destruct a as [|c a']; [congruence|]. cbn [hd] in Hhd. subst c. unfold mp_value.
      change ((34 =? 34) || (34 =? 96)) with true. cbn iota. rewrite Eu. reflexivity.
  - destruct (contains_any a [34; 39; 96]); [discriminate|]. injection Hp as -> _.
    pose proof (import_path_bytes path Hv) as Hb. rewrite Forall_forall in Hb.
    assert (Hhin : In (hd 0 path) path) by (destruct path; [congruence|left; reflexivity]).
    destruct (pc_facts _ (Hb _ Hhin)) as (H1 & H2 & H3 & H4 & _).
    destruct (pc_facts _ (Hb _ (last_In path 0 Hne))) as (L1 & _).
    split; [exact Hne|]. split; [exact H1|]. split; [exact L1|]. split; [exact H2|]. split; [exact Hh|].
    split.
    + rewrite dslash_app, Hd. cbn [contains_dslash hd orb]. rewrite (proj2 (Z.eqb_neq _ _) Hl). reflexivity.
    + destruct path as [|c p']; [congruence|]. cbn [hd] in H3, H4. unfold mp_value.
      rewrite (proj2 (Z.eqb_neq _ _) H3), (proj2 (Z.eqb_neq _ _) H4). reflexivity.
Qed.

(* ---------------------------------------------------------------- the physical line *)

Definition mword : str := [109; 111; 100; 117; 108; 101].

Lemma mword_eq : module_word = mword.
Proof. reflexivity. Qed.

Lemma ws_no47 g : ws_only g -> no47 g.
Proof. apply Forall_impl. intros c [->|[->| ->]]; lia. Qed.

Lemma ws_nolf g : ws_only g -> nolf_b g.
Proof. apply Forall_impl. intros c [->|[->| ->]]; lia. Qed.

Lemma mword_no47 : no47 mword.
Proof. repeat constructor; lia. Qed.

(* ModulePath's loop body on the line "ws module ws+ a ws [//...]" *)
Lemma module_path_line_ok g0 g1 g2 a h path :
  ws_only g0 -> ws_only g1 -> ws_only g2 -> g1 <> [] ->
  a <> [] -> ascii_ns (hd 0 a) -> ascii_ns (last a 0) -> contains_dslash (a ++ [47]) = false ->
  mp_value a = Some path ->
  h = [] \/ (exists h', h = 47 :: 47 :: h') ->
  module_path_line ((g0 ++ mword ++ g1 ++ a ++ g2) ++ h) = Some path.
Proof.
  intros H0 H1 H2 Hg1 Ha Hhd Hlast Hcd Hval Hh.
  set (X := g0 ++ mword ++ g1 ++ a ++ g2).
  assert (HcdX : contains_dslash (X ++ [47]) = false).
  { unfold X. rewrite <- !app_assoc.
    rewrite (dslash_app_no47 g0) by (apply ws_no47; exact H0).
    rewrite (dslash_app_no47 mword) by exact mword_no47.
    rewrite (dslash_app_no47 g1) by (apply ws_no47; exact H1).
    destruct g2 as [|w g2']; [exact Hcd|].
    inversion H2 as [|? ? Hw Hg2']; subst.
    cbn [app]. apply dslash_app_ws; [exact Hcd|destruct Hw as [->|[->| ->]]; lia|apply ws_no47; exact Hg2']. }
  assert (Hbss : before_slashslash (X ++ h) = X).
  { destruct Hh as [->|(h' & ->)].
    - rewrite app_nil_r. apply bss_clean. eapply dslash_snoc_false; eauto.
    - apply bss_cut. exact HcdX. }
  unfold module_path_line. rewrite Hbss.
  assert (Hbody : mword ++ g1 ++ a <> []) by discriminate.
  assert (Hlb : last (mword ++ g1 ++ a) 0 = last a 0).
  { rewrite app_assoc. apply last_app_ne. exact Ha. }
  assert (Ht2 : trim_space X = mword ++ g1 ++ a).
  { unfold X. replace (g0 ++ mword ++ g1 ++ a ++ g2) with (g0 ++ (mword ++ g1 ++ a) ++ g2)
      by (rewrite <- !app_assoc; reflexivity).
    apply trim_space_tok; auto.
    - cbn. split; [lia|vm_compute; reflexivity].
    - rewrite Hlb. exact Hlast. }
  rewrite Ht2, mword_eq.
  assert (Hpre : has_prefix (mword ++ g1 ++ a) mword = true) by (apply has_prefix_true; eauto).
  rewrite Hpre. cbn [negb].
  change (skipn (length mword) (mword ++ g1 ++ a)) with (g1 ++ a).
  assert (Ht4 : trim_space (g1 ++ a) = a).
  { rewrite <- (app_nil_r a) at 1. apply trim_space_tok; auto. constructor. }
  rewrite Ht4.
  assert (Hlen : Nat.eqb (length a) (length (g1 ++ a)) = false).
  { apply Nat.eqb_neq. rewrite app_length. destruct g1; [congruence|cbn; lia]. }
  assert (Hlen0 : Nat.eqb (length a) 0 = false) by (destruct a; [congruence|reflexivity]).
  rewrite Hlen, Hlen0. cbn [orb]. exact Hval.
Qed.

Lemma hd_split_ss r : exists h', hd [] (split_on 10 (47 :: 47 :: r)) = 47 :: 47 :: h'.
Proof.
  cbn [split_on]. change (47 =? 10) with false. cbn iota.
  pose proof (split_on_nonempty 10 r). destruct (split_on 10 r) as [|h0 t0]; [congruence|]. cbn. eauto.
Qed.

Lemma count_lf_ws g : ws_only g -> count_lf g = 0.
Proof.
  intros H. unfold count_lf. induction H as [|c g Hc _ IH]; [reflexivity|]. cbn [filter].
  destruct Hc as [->|[->| ->]]; cbn; exact IH.
Qed.

Lemma app_self_nil {A} (p d : list A) : d = p ++ d -> p = [].
Proof.
  intros H. assert (length d = length p + length d)%nat by (rewrite H at 1; apply app_length).
  destruct p; [reflexivity|cbn in *; lia].
Qed.

Lemma nth_expr_In : forall k l x, nth_expr k l = Some x -> In x l.
Proof. induction k as [|k IH]; intros [|y l] x H; cbn in *; try discriminate; [injection H as <-; auto|eauto]. Qed.

(* ---------------------------------------------------------------- the theorem *)

Theorem modulepath_agrees fx data syn f m l :
  parse data = POk syn ->
  parse_to_file true fx data = DOk f ->
  fd_module f = Some m ->
  snd (md_syntax m) = None ->
  get_line syn (md_syntax m) = Some l ->
  check_import_path (mv_path (md_mod m)) = None ->
  (forall k, Z.of_nat k < p_line (l_start l) - 1 -> module_path_line (nth k (split_on 10 data) []) = None) ->
  module_path data = mv_path (md_mod m).
Proof.
  intros Hparse Hfile Hmod Hsingle Hget Hvalid Hearlier.
  set (path := mv_path (md_mod m)) in *.
  unfold parse_to_file, lift_parse in Hfile. rewrite Hparse in Hfile.
  (* the Line in the tree *)
  destruct (module_line_of_file true fx syn f m Hfile Hmod Hsingle) as (l0 & Hn & Htok).
  assert (l0 = l).
  { unfold get_line in Hget. rewrite Hn, Hsingle in Hget. congruence. }
  subst l0.
  destruct (import_path_head path Hvalid) as (Hpne & _).
  destruct Htok as [(a & tok & Htoks & Hps)|Hnil]; [|contradiction].
  destruct (tok_facts a path tok Hps Hvalid) as (Ha & Hhd & Hlast & Hid & H47 & Hcd & Hval).
  (* the tokens *)
  pose proof (parse_lines_seg data syn Hparse) as Hseg. rewrite Forall_forall in Hseg.
  specialize (Hseg _ (nth_expr_In _ _ _ Hn)). cbn [line_seg] in Hseg.
  destruct Hseg as (c0 & t0 & tl & e & post & ETS & Emap & Estart & Heol & Hnoneol & Hbol).
  rewrite Htoks in Emap. destruct tl as [|t1 [|t2 tl]]; try discriminate.
  cbn [map] in Emap. injection Emap as Et0 Et1. subst a.
  pose proof (Forall_inv Hnoneol) as Hne1. unfold noneol in Hne1.
  (* the input *)
  pose proof (lex_lexed data) as Hlex. rewrite ETS in Hlex.
  destruct (lexed_split data c0 _ data Hlex) as (rest2 & Hl2 & Hnil0 & Hlast0).
  cbn [app] in Hl2.
  destruct (lexed_cons_inv _ _ _ _ Hl2) as (pre0 & g0 & raw0 & restA & Er2 & Ed0 & Hg0 & Hraw0 & Hp0 & HlA).
  destruct (lexed_cons_inv _ _ _ _ HlA) as (preA & g1 & raw1 & restB & ErA & EdA & Hg1 & Hraw1 & HpA & HlB).
  destruct (lexed_cons_inv _ _ _ _ HlB) as (preB & g2 & rawe & restC & ErB & EdB & Hg2 & Hrawe & HpB & HlC).
  clear Hl2 HlA HlB. subst restB. subst restA.
  (* token a *)
  assert (Hraw1' : raw1 = t_text t1).
  { unfold raw_ok in Hraw1. destruct (t_kind t1) as [| | | | |c1] eqn:Ek1; try discriminate.
    - exact (proj1 Hraw1).
    - exact (proj1 Hraw1).
    - exfalso. destruct Hraw1 as (_ & Hp & _). apply has_prefix_true in Hp as (r & Er). cbn [app] in Er.
      rewrite Er in H47. apply H47. reflexivity.
    - destruct Hraw1 as (-> & E). exact (eq_sym E). }
  subst raw1.
  (* token module *)
  assert (Hraw0' : raw0 = mword /\ ident_stop (g1 ++ t_text t1 ++ g2 ++ rawe ++ restC)).
  { unfold raw_ok in Hraw0. rewrite Et0 in Hraw0. destruct (t_kind t0) as [| | | | |c1]; try discriminate.
    - destruct Hraw0 as (_ & _ & E). discriminate.
    - destruct Hraw0 as (_ & Hp & _). discriminate.
    - destruct Hraw0 as (-> & Hs). split; [reflexivity|exact Hs].
    - destruct Hraw0 as (-> & q & r & E & [->| ->]); discriminate.
    - destruct Hraw0 as (_ & Hp & _). discriminate.
    - destruct Hraw0 as (_ & E). discriminate. }
  destruct Hraw0' as (-> & Hstop).
  (* white space after "module" *)
  assert (Hg1ne : g1 <> []).
  { intros ->. cbn [app] in Hstop. destruct (t_text t1) as [|c1 a']; [congruence|]. cbn [hd] in *.
    destruct Hhd as ((Hc0 & Hc1) & _).
    destruct Hstop as [Hs|Hs].
    - cbn [app] in Hs. rewrite decode_ascii_head in Hs by lia. cbn [fst] in Hs. congruence.
    - cbn [app] in Hs. cbn [has_prefix] in Hs. apply andb_true_iff in Hs as [Hs _]. apply Z.eqb_eq in Hs. congruence. }
  (* the end-of-line token *)
  assert (Htail : rawe ++ restC = [] \/ (exists r, rawe ++ restC = 10 :: r) \/ (exists r, rawe ++ restC = 47 :: 47 :: r)).
  { unfold raw_ok in Hrawe. destruct (t_kind e) as [| | | | |c1]; try discriminate.
    - destruct Hrawe as (-> & -> & _). left. reflexivity.
    - destruct Hrawe as (Hp & _). apply has_prefix_true in Hp as (r & ->). right. right. cbn [app]. eauto.
    - cbn in Heol. apply Z.eqb_eq in Heol. subst c1. destruct Hrawe as (-> & _). right. left. cbn [app]. eauto. }
  (* no line feed in a *)
  assert (Hanolf : nolf_b (t_text t1)).
  { pose proof (lex_tokens_no_lf data) as Hn1. rewrite Forall_forall in Hn1.
    assert (Hin : In t1 (fst (lex data))).
    { rewrite ETS. apply in_or_app. right. cbn. auto. }
    specialize (Hn1 t1 Hin).
    assert (Hk : line_token_kind (t_kind t1) = true).
    { unfold raw_ok in Hraw1. destruct (t_kind t1) as [| | | | |c1]; try discriminate; try reflexivity.
      - exfalso. destruct Hraw1 as (_ & Hp & _). apply has_prefix_true in Hp as (r & Er). cbn [app] in Er.
        rewrite Er in H47. apply H47. reflexivity.
      - cbn in Hne1 |- *. rewrite Hne1. reflexivity. }
    specialize (Hn1 Hk). apply Forall_forall. intros c Hc ->. contradiction. }
  set (X := g0 ++ mword ++ g1 ++ t_text t1 ++ g2).
  set (tail := rawe ++ restC).
  assert (Edata : data = pre0 ++ X ++ tail).
  { rewrite Ed0. unfold X, tail. rewrite <- !app_assoc. reflexivity. }
  assert (HnolfX : nolf_b X).
  { unfold X, nolf_b. rewrite !Forall_app. repeat split; try (apply ws_nolf; assumption); auto.
    unfold mword. repeat constructor; lia. }
  (* the first physical line of X ++ tail *)
  assert (Hline : exists t, split_on 10 (X ++ tail) = t /\ module_path_line (hd [] t) = Some path /\ t <> []).
  { eexists. split; [reflexivity|]. rewrite split_on_nolf by exact HnolfX. cbn [hd]. split; [|discriminate].
    apply module_path_line_ok; auto.
    fold tail in Htail. destruct Htail as [->|[(r & ->)|(r & ->)]].
    - left. reflexivity.
    - left. cbn [split_on]. rewrite Z.eqb_refl. reflexivity.
    - right. apply hd_split_ss. }
  destruct Hline as (t & Et & Hmp & Htne).
  assert (Hfirst : first_module_line (split_on 10 (X ++ tail)) = path).
  { rewrite Et. destruct t as [|l1 t']; [congruence|]. cbn [hd] in Hmp. cbn [first_module_line]. rewrite Hmp. reflexivity. }
  (* the lines before *)
  assert (Hpline : p_line (l_start l) = 1 + count_lf pre0).
  { pose proof (lex_good data) as (Hall & _). rewrite Forall_forall in Hall.
    assert (Hin : In t0 (fst (lex data))) by (rewrite ETS; apply in_or_app; right; left; reflexivity).
    destruct (tk_pos _ _ (Hall t0 Hin)) as (rest & Hat & _).
    pose proof (at_pos_line _ _ _ Hat) as Hpl. rewrite Estart in Hpl, Hp0. rewrite Hpl, Hp0.
    rewrite Nat2Z.id. rewrite Ed0, app_assoc, firstn_app, firstn_all, Nat.sub_diag. cbn [firstn].
    rewrite app_nil_r, count_lf_app, (count_lf_ws g0 Hg0). lia. }
  assert (Hpre : pre0 = [] \/ exists p', pre0 = p' ++ [10]).
  { assert (Erest2 : data = pre0 ++ rest2) by (rewrite Er2; exact Ed0).
    assert (Hrne : rest2 <> []) by (rewrite Er2; destruct g0; discriminate).
    destruct Hbol as [->|(pp & tq & -> & Ht)].
    - left. specialize (Hnil0 eq_refl). rewrite Hnil0 in Erest2. eapply app_self_nil; eauto.
    - right. destruct (Hlast0 pp tq eq_refl) as (pre & g & raw & Ed & Hraw).
      assert (Epre : pre0 = pre ++ g ++ raw).
      { rewrite Erest2 in Ed.
        replace (pre ++ g ++ raw ++ rest2) with ((pre ++ g ++ raw) ++ rest2) in Ed
          by (rewrite <- !app_assoc; reflexivity).
        apply app_inv_tail in Ed. exact Ed. }
      unfold raw_ok in Hraw. destruct Ht as [Ht|Ht].
      + destruct (t_kind tq) as [| | | | |c1]; try discriminate.
        * destruct Hraw as (_ & E & _). congruence.
        * destruct Hraw as (_ & _ & [(mm & ->)|E]); [|congruence].
          exists (pre ++ g ++ mm). rewrite Epre, <- !app_assoc. reflexivity.
        * cbn in Ht. apply Z.eqb_eq in Ht. subst c1. destruct Hraw as (-> & _).
          exists (pre ++ g). rewrite Epre, <- !app_assoc. reflexivity.
      + rewrite Ht in Hraw. destruct Hraw as (_ & _ & [(mm & ->)|E]); [|congruence].
        exists (pre ++ g ++ mm). rewrite Epre, <- !app_assoc. reflexivity. }
  unfold module_path. rewrite Edata.
  destruct Hpre as [->|(p' & ->)].
  - cbn [app]. exact Hfirst.
  - rewrite <- app_assoc. cbn [app]. rewrite split_on_app_sep.
    rewrite first_module_line_skip; [exact Hfirst|].
    apply Forall_forall. intros ln Hin. apply In_nth with (d := []) in Hin as (k & Hk & <-).
    rewrite split_on_length_lf in Hk.
    specialize (Hearlier k). rewrite Hpline, count_lf_app in Hearlier.
    assert (Hc1 : count_lf [10] = 1) by reflexivity. rewrite Hc1 in Hearlier.
    assert (Hnn : 0 <= count_lf p') by (unfold count_lf; lia).
    rewrite Edata in Hearlier. rewrite <- app_assoc in Hearlier. cbn [app] in Hearlier.
    rewrite split_on_app_sep in Hearlier. rewrite app_nth1 in Hearlier by (rewrite split_on_length_lf; exact Hk).
    apply Hearlier. lia.
Qed.
