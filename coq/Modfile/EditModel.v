(* Executable model of the EDIT layer of golang.org/x/mod/modfile, part 1: the state (a heap
   of lines, the statement list, the typed entries) and the FileSyntax helpers of read.go
   (addLine, updateLine, markRemoved, Cleanup) plus the string helpers the operations use
   (AutoQuote, isIndirect, the two regular expressions, checkCanonicalVersion, the three
   line comparators).  Definitions only; proofs live in EditProofs*.v.

   Pointer identity.  In Go the typed entries (Require, Exclude, ...) and the syntax tree
   share *Line pointers, and operations mutate lines through either.  Here a line lives
   in a heap (a list; the id of a line is its index; lines are never freed), statements
   and blocks refer to lines by lid, typed entries carry [option lid] ([None] = nil, the
   state of an entry cleared by *r = Require{}).  Blocks are stored in the statement list
   and carry an id of their own (SetRequireSeparateIndirect compares *LineBlock pointers).

   Conventions.  A removed line has [hl_tok = []] (Go: Token == nil; no reachable state
   has a non-nil empty Token).  Positions are dropped (the printer ignores them; new nodes
   carry zero positions in Go).  A comment is its Token text.  strings.TrimSpace /
   strings.Fields are modelled for ASCII white space only (assumption: comment texts
   contain no non-ASCII white space).  Dereferencing a nil *Line is [None] at this level
   and RPanic at the level of operations. *)
From Verif.Base Require Import Bytes Utf8 Strconv.
From Verif.Gen Require Import GenUnicode.
From Verif.Semver Require Import Model.
From Verif.Module Require Import Path.
From Verif.Modfile Require Import Syntax.

Definition semver_compare : str -> str -> Z := Verif.Semver.Model.compare.
Definition semver_canonical_version : str -> str := Verif.Semver.Model.canonical_version.

(* ---------------------------------------------------------------- string helpers *)

Definition is_space_ascii (c : Z) : bool :=
  (c =? 32) || ((9 <=? c) && (c <=? 13)).

Fixpoint trim_left (s : str) : str :=
  match s with
  | c :: r => if is_space_ascii c then trim_left r else s
  | [] => []
  end.
Definition trim_space (s : str) : str := rev (trim_left (rev (trim_left s))).

Definition trim_prefix (s p : str) : str :=
  if has_prefix s p then skipn (length p) s else s.

Definition slash_slash : str := B "//".

(* strings.Fields (ASCII) *)
Fixpoint fields_aux (s : str) (cur : str) : list str :=
  match s with
  | [] => match cur with [] => [] | _ => [rev cur] end
  | c :: r =>
      if is_space_ascii c
      then match cur with [] => fields_aux r [] | _ => rev cur :: fields_aux r [] end
      else fields_aux r (c :: cur)
  end.
Definition fields (s : str) : list str := fields_aux s [].

(* strings.Index: position of the first occurrence of sub *)
Fixpoint index_sub (s sub : str) : option nat :=
  if has_prefix s sub then Some O
  else match s with
       | [] => None
       | _ :: r => option_map S (index_sub r sub)
       end.
Definition contains_sub (s sub : str) : bool :=
  match index_sub s sub with Some _ => true | None => false end.

(* strings.Split(s, "\n") *)
Definition split_lines (s : str) : list str := split_on 10 s.

(* rule.go MustQuote / AutoQuote *)
Definition must_quote (s : str) : bool :=
  existsb (fun r =>
    if (r =? 32) || (r =? 34) || (r =? 39) || (r =? 96) then true
    else if (r =? 40) || (r =? 41) || (r =? 91) || (r =? 93) || (r =? 123) || (r =? 125) || (r =? 44)
         then (1 <? len s)
         else negb (unicode_IsPrint r)) (runes s)
  || match s with [] => true | _ => false end
  || contains_sub s (B "//") || contains_sub s (B "/*").

Definition auto_quote (s : str) : str := if must_quote s then quote s else s.

(* GoVersionRE: NUM1 "." NUM [ "." NUM ] [ LOWER+ DIGIT+ ] end-of-text, where
   NUM1 = nonzero digit then digits, NUM = "0" or NUM1 (see rule.go for the expression) *)
Definition take_num (s : str) : option str :=         (* NUM; returns the rest *)
  match s with
  | c :: r => if c =? 48 then Some r
              else if is_digit c then Some (snd (span is_digit r)) else None
  | [] => None
  end.
Definition take_num1 (s : str) : option str :=        (* NUM1 *)
  match s with
  | c :: r => if (49 <=? c) && (c <=? 57) then Some (snd (span is_digit r)) else None
  | [] => None
  end.
Definition go_suffix_ok (s : str) : bool :=           (* optional LOWER+ DIGIT+, then end *)
  match s with
  | [] => true
  | _ => let (a, r) := span is_lower s in
         let (d, e) := span is_digit r in
         match a, d, e with _ :: _, _ :: _, [] => true | _, _, _ => false end
  end.
Definition go_version_ok (s : str) : bool :=
  match take_num1 s with
  | Some (46 :: r2) =>
      match take_num r2 with
      | Some r3 =>
          match r3 with
          | 46 :: r4 => match take_num r4 with
                        | Some r5 => go_suffix_ok r5
                        | None => false     (* a dot must be followed by NUM; no suffix starts with a dot *)
                        end
          | _ => go_suffix_ok r3
          end
      | None => false
      end
  | _ => false
  end.

(* ToolchainRE: exactly "default", or "go1" followed by end-of-text or "." *)
Definition toolchain_ok (s : str) : bool :=
  str_eqb s (B "default")
  || (has_prefix s (B "go1") && match skipn 3 s with [] => true | c :: _ => c =? 46 end).

(* rule.go checkCanonicalVersion: true = returns nil *)
Definition check_canonical_version (path vers : str) : bool :=
  match vers with
  | [] => false
  | _ =>
      if negb (str_eqb vers (semver_canonical_version vers)) then false
      else match split_path_version path with
           | (_, pm, true) => check_path_major vers pm
           | (_, _, false) => true
           end
  end.

(* go/version Lang and Compare (through internal/gover), as used by SortBlocks to decide
   whether the file's go version is at least 1.21 *)
Record gover := mkGover { gv_major : str; gv_minor : str; gv_patch : str; gv_kind : str; gv_pre : str }.
Definition gover_zero : gover := mkGover [] [] [] [] [].

Definition cut_int (x : str) : option (str * str) :=
  let (d, r) := span is_digit x in
  match d with
  | [] => None
  | c :: d' => if (c =? 48) && negb (match d' with [] => true | _ => false end) then None else Some (d, r)
  end.

Definition gover_cmp_int (x y : str) : Z :=
  if str_eqb x y then 0
  else if (length x <? length y)%nat then -1
  else if (length y <? length x)%nat then 1
  else if str_ltb x y then -1 else 1.

Definition gover_parse (x : str) : gover :=
  match cut_int x with
  | None => gover_zero
  | Some (major, x1) =>
      match x1 with
      | [] => mkGover major [48] [48] [] []
      | c :: x2 =>
          if negb (c =? 46) then gover_zero
          else match cut_int x2 with
               | None => gover_zero
               | Some (minor, x3) =>
                   match x3 with
                   | [] => mkGover major minor (if gover_cmp_int minor (B "21") <? 0 then [48] else []) [] []
                   | c3 :: x4 =>
                       if c3 =? 46 then
                         match cut_int x4 with
                         | Some (patch, []) => mkGover major minor patch [] []
                         | _ => gover_zero
                         end
                       else
                         let (kind, x5) := span (fun b => negb (is_digit b)) x3 in
                         if negb (forallb is_lower kind) then gover_zero
                         else match kind with
                              | [] => gover_zero
                              | _ => match x5 with
                                     | [] => mkGover major minor [] kind []
                                     | _ => match cut_int x5 with
                                            | Some (pre, []) => mkGover major minor [] kind pre
                                            | _ => gover_zero
                                            end
                                     end
                              end
                   end
               end
      end
  end.

Definition gover_compare (x y : str) : Z :=
  let vx := gover_parse x in
  let vy := gover_parse y in
  let c1 := gover_cmp_int (gv_major vx) (gv_major vy) in
  if negb (c1 =? 0) then c1 else
  let c2 := gover_cmp_int (gv_minor vx) (gv_minor vy) in
  if negb (c2 =? 0) then c2 else
  let c3 := gover_cmp_int (gv_patch vx) (gv_patch vy) in
  if negb (c3 =? 0) then c3 else
  match str_cmp (gv_kind vx) (gv_kind vy) with
  | Lt => -1
  | Gt => 1
  | Eq => gover_cmp_int (gv_pre vx) (gv_pre vy)
  end.

Definition gover_lang (x : str) : str :=
  let v := gover_parse x in
  match gv_minor v with
  | [] => gv_major v
  | _ => if str_eqb (gv_major v) [49] && str_eqb (gv_minor v) [48] then gv_major v
         else gv_major v ++ [46] ++ gv_minor v
  end.

Definition strip_go (v : str) : str :=
  let v' := fst (span (fun c => negb (c =? 45)) v) in
  if has_prefix v' (B "go") then skipn 2 v' else [].

Definition version_lang (x : str) : str :=
  match gover_lang (strip_go x) with
  | [] => []
  | v => B "go" ++ v
  end.

Definition version_compare (x y : str) : Z := gover_compare (strip_go x) (strip_go y).

(* SortBlocks: useSemanticSortForExclude for a file whose go directive is gov *)
Definition use_semantic_sort (gov : str) : bool :=
  0 <=? version_compare (version_lang (B "go" ++ gov)) (B "go1.21").

(* ---------------------------------------------------------------- the state *)

Definition lid := nat.

(* Go's Comments, each comment reduced to its Token *)
Record coms := mkComs { c_before : list str; c_suffix : list str; c_after : list str }.
Definition no_coms : coms := mkComs [] [] [].

Record hline := mkHL { hl_com : coms; hl_tok : list str; hl_inb : bool }.
Definition dead_line : hline := mkHL no_coms [] false.

Record hblock := mkHB {
  hb_id : nat;              (* identity of the *LineBlock *)
  hb_com : coms;
  hb_lp : coms;             (* LParen.Comments *)
  hb_tok : list str;
  hb_lines : list lid;
  hb_rp : coms              (* RParen.Comments *)
}.

Inductive stmt :=
| SLine (i : lid)
| SBlock (b : hblock)
| SComment (c : coms).

Record syntax := mkSyn {
  heap : list hline;
  nbid : nat;               (* next fresh block id *)
  fcom : coms;              (* FileSyntax.Comments *)
  stmts : list stmt
}.

Definition hget (h : list hline) (i : lid) : hline := nth i h dead_line.
Fixpoint hset (h : list hline) (i : lid) (l : hline) : list hline :=
  match h, i with
  | [], _ => []
  | _ :: r, O => l :: r
  | x :: r, S k => x :: hset r k l
  end.

Definition sget (s : syntax) (i : lid) : hline := hget (heap s) i.
Definition sset (s : syntax) (i : lid) (l : hline) : syntax :=
  mkSyn (hset (heap s) i l) (nbid s) (fcom s) (stmts s).
Definition salloc (s : syntax) (l : hline) : syntax * lid :=
  (mkSyn (heap s ++ [l]) (nbid s) (fcom s) (stmts s), length (heap s)).
Definition with_stmts (s : syntax) (st : list stmt) : syntax :=
  mkSyn (heap s) (nbid s) (fcom s) st.
Definition fresh_bid (s : syntax) : syntax * nat :=
  (mkSyn (heap s) (S (nbid s)) (fcom s) (stmts s), nbid s).

Definition set_tok (l : hline) (t : list str) : hline := mkHL (hl_com l) t (hl_inb l).
Definition set_com (l : hline) (c : coms) : hline := mkHL c (hl_tok l) (hl_inb l).
Definition set_inb (l : hline) (b : bool) : hline := mkHL (hl_com l) (hl_tok l) b.
Definition set_suffix (c : coms) (s : list str) : coms := mkComs (c_before c) s (c_after c).
Definition set_before (c : coms) (s : list str) : coms := mkComs s (c_suffix c) (c_after c).
Definition block_with_lines (b : hblock) (ls : list lid) : hblock :=
  mkHB (hb_id b) (hb_com b) (hb_lp b) (hb_tok b) ls (hb_rp b).

Definition nilb {A} (l : list A) : bool := match l with [] => true | _ => false end.
Definition hd_is (t : list str) (v : str) : bool :=
  match t with x :: _ => str_eqb x v | [] => false end.

(* typed entries *)
Record e_module := mkModule { mo_path : str; mo_vers : str; mo_depr : str; mo_syn : option lid }.
Record e_go := mkGo { go_vers : str; go_syn : option lid }.          (* also Toolchain{Name} *)
Record e_godebug := mkGodebug { gd_key : str; gd_val : str; gd_syn : option lid }.
Record e_require := mkRequire { rq_path : str; rq_vers : str; rq_ind : bool; rq_syn : option lid }.
Record e_exclude := mkExclude { ex_path : str; ex_vers : str; ex_syn : option lid }.
Record e_replace := mkReplace { rp_op : str; rp_ov : str; rp_np : str; rp_nv : str; rp_syn : option lid }.
Record e_retract := mkRetract { rt_lo : str; rt_hi : str; rt_rat : str; rt_syn : option lid }.
Record e_tool := mkTool { tl_path : str; tl_syn : option lid }.
Record e_use := mkUse { us_path : str; us_mod : str; us_syn : option lid }.

(* one record for modfile.File and modfile.WorkFile (a WorkFile uses Go, Toolchain,
   Godebug, Use, Replace; the other lists stay empty) *)
Record file := mkEFile {
  fsyn : syntax;
  f_module : option e_module;
  f_go : option e_go;
  f_toolchain : option e_go;
  f_godebug : list e_godebug;
  f_require : list e_require;
  f_exclude : list e_exclude;
  f_replace : list e_replace;
  f_retract : list e_retract;
  f_tool : list e_tool;
  f_use : list e_use
}.

Definition with_syn (f : file) (s : syntax) : file :=
  mkEFile s (f_module f) (f_go f) (f_toolchain f) (f_godebug f) (f_require f) (f_exclude f)
         (f_replace f) (f_retract f) (f_tool f) (f_use f).
Definition with_module (f : file) (x : option e_module) : file :=
  mkEFile (fsyn f) x (f_go f) (f_toolchain f) (f_godebug f) (f_require f) (f_exclude f)
         (f_replace f) (f_retract f) (f_tool f) (f_use f).
Definition with_go (f : file) (x : option e_go) : file :=
  mkEFile (fsyn f) (f_module f) x (f_toolchain f) (f_godebug f) (f_require f) (f_exclude f)
         (f_replace f) (f_retract f) (f_tool f) (f_use f).
Definition with_toolchain (f : file) (x : option e_go) : file :=
  mkEFile (fsyn f) (f_module f) (f_go f) x (f_godebug f) (f_require f) (f_exclude f)
         (f_replace f) (f_retract f) (f_tool f) (f_use f).
Definition with_godebug (f : file) (x : list e_godebug) : file :=
  mkEFile (fsyn f) (f_module f) (f_go f) (f_toolchain f) x (f_require f) (f_exclude f)
         (f_replace f) (f_retract f) (f_tool f) (f_use f).
Definition with_require (f : file) (x : list e_require) : file :=
  mkEFile (fsyn f) (f_module f) (f_go f) (f_toolchain f) (f_godebug f) x (f_exclude f)
         (f_replace f) (f_retract f) (f_tool f) (f_use f).
Definition with_exclude (f : file) (x : list e_exclude) : file :=
  mkEFile (fsyn f) (f_module f) (f_go f) (f_toolchain f) (f_godebug f) (f_require f) x
         (f_replace f) (f_retract f) (f_tool f) (f_use f).
Definition with_replace (f : file) (x : list e_replace) : file :=
  mkEFile (fsyn f) (f_module f) (f_go f) (f_toolchain f) (f_godebug f) (f_require f) (f_exclude f)
         x (f_retract f) (f_tool f) (f_use f).
Definition with_retract (f : file) (x : list e_retract) : file :=
  mkEFile (fsyn f) (f_module f) (f_go f) (f_toolchain f) (f_godebug f) (f_require f) (f_exclude f)
         (f_replace f) x (f_tool f) (f_use f).
Definition with_tool (f : file) (x : list e_tool) : file :=
  mkEFile (fsyn f) (f_module f) (f_go f) (f_toolchain f) (f_godebug f) (f_require f) (f_exclude f)
         (f_replace f) (f_retract f) x (f_use f).
Definition with_use (f : file) (x : list e_use) : file :=
  mkEFile (fsyn f) (f_module f) (f_go f) (f_toolchain f) (f_godebug f) (f_require f) (f_exclude f)
         (f_replace f) (f_retract f) (f_tool f) x.

(* ---------------------------------------------------------------- read.go helpers *)

(* the hint argument of addLine: a *Line, a *LineBlock, or a nil *Line stored in the
   Expr interface (AddExclude / addReplace declare `var hint *Line`, so the interface
   value is never == nil and the "last statement of this type" search is skipped) *)
Inductive hint := HLine (i : lid) | HBlock (bid : nat) | HTypedNil.

(* the search of addLine for hint == nil: last statement whose first token is verb *)
Fixpoint find_hint (s : syntax) (verb : str) (rev_stmts : list stmt) : option hint :=
  match rev_stmts with
  | [] => None
  | SLine i :: r => if hd_is (hl_tok (sget s i)) verb then Some (HLine i) else find_hint s verb r
  | SBlock b :: r => if hd_is (hb_tok b) verb then Some (HBlock (hb_id b)) else find_hint s verb r
  | SComment _ :: r => find_hint s verb r
  end.

(* position of the first occurrence of i in l *)
Fixpoint pos_of (i : lid) (l : list lid) : option nat :=
  match l with
  | [] => None
  | j :: r => if Nat.eqb i j then Some O else option_map S (pos_of i r)
  end.

Fixpoint insert_after {A} (k : nat) (x : A) (l : list A) : list A :=
  match l, k with
  | [], _ => [x]
  | y :: r, O => y :: x :: r
  | y :: r, S k' => y :: insert_after k' x r
  end.

Inductive place :=
| PNewAfter                         (* newLineAfter(i) *)
| PConvert (j : lid)                 (* line j becomes a block, new line appended *)
| PAppend (b : hblock)              (* append to block b *)
| PAfterIn (b : hblock) (k : nat).  (* insert after position k inside block b *)

(* what the statement loop of addLine decides at statement st for hint h; None = no match *)
Definition add_line_at (s : syntax) (h : hint) (verb : str) (st : stmt) : option place :=
  match st with
  | SLine j =>
      match h with
      | HLine i => if Nat.eqb i j
                   then if hd_is (hl_tok (sget s j)) verb then Some (PConvert j) else Some PNewAfter
                   else None
      | _ => None
      end
  | SBlock b =>
      match h with
      | HBlock bid => if Nat.eqb bid (hb_id b)
                      then if hd_is (hb_tok b) verb then Some (PAppend b) else Some PNewAfter
                      else None
      | HLine i => match pos_of i (hb_lines b) with
                   | Some k => if hd_is (hb_tok b) verb then Some (PAfterIn b k) else Some PNewAfter
                   | None => None
                   end
      | HTypedNil => None
      end
  | SComment _ => None
  end.

(* FileSyntax.addLine(hint, verb, args...): returns the new syntax and the id of the new line *)
Fixpoint add_line_loop (s : syntax) (h : hint) (verb : str) (args : list str)
         (done_rev : list stmt) (todo : list stmt) : syntax * lid :=
  match todo with
  | [] =>
      (* no statement matched: new Line at the end of the file *)
      let (s1, n) := salloc s (mkHL no_coms (verb :: args) false) in
      (with_stmts s1 (rev done_rev ++ [SLine n]), n)
  | st :: rest =>
      match add_line_at s h verb st with
      | None => add_line_loop s h verb args (st :: done_rev) rest
      | Some PNewAfter =>
          let (s1, n) := salloc s (mkHL no_coms (verb :: args) false) in
          (with_stmts s1 (rev done_rev ++ st :: SLine n :: rest), n)
      | Some (PConvert j) =>
          let l := sget s j in
          let s1 := sset s j (mkHL (hl_com l) (tl (hl_tok l)) true) in
          let (s2, n) := salloc s1 (mkHL no_coms args true) in
          let (s3, bid) := fresh_bid s2 in
          let b := mkHB bid no_coms no_coms (firstn 1 (hl_tok l)) [j; n] no_coms in
          (with_stmts s3 (rev done_rev ++ SBlock b :: rest), n)
      | Some (PAppend b) =>
          let (s1, n) := salloc s (mkHL no_coms args true) in
          (with_stmts s1 (rev done_rev ++ SBlock (block_with_lines b (hb_lines b ++ [n])) :: rest), n)
      | Some (PAfterIn b k) =>
          let (s1, n) := salloc s (mkHL no_coms args true) in
          (with_stmts s1 (rev done_rev ++ SBlock (block_with_lines b (insert_after k n (hb_lines b))) :: rest), n)
      end
  end.

Definition add_line (s : syntax) (h : option hint) (verb : str) (args : list str) : syntax * lid :=
  let h' := match h with
            | Some x => Some x
            | None => find_hint s verb (rev (stmts s))
            end in
  match h' with
  | Some x => add_line_loop s x verb args [] (stmts s)
  | None =>
      let (s1, n) := salloc s (mkHL no_coms (verb :: args) false) in
      (with_stmts s1 (stmts s ++ [SLine n]), n)
  end.

(* FileSyntax.updateLine(line, verb, args...) *)
Definition update_line (s : syntax) (i : lid) (verb : str) (args : list str) : syntax :=
  let l := sget s i in
  sset s i (set_tok l (if hl_inb l then args else verb :: args)).

(* Line.markRemoved *)
Definition mark_removed (s : syntax) (i : lid) : syntax :=
  let l := sget s i in
  sset s i (mkHL (set_suffix (hl_com l) []) [] (hl_inb l)).

Definition line_live (h : list hline) (i : lid) : bool := negb (nilb (hl_tok (hget h i))).

(* FileSyntax.Cleanup: returns the heap after the block collapses and the kept statements *)
Fixpoint syn_cleanup_loop (h : list hline) (todo : list stmt) : list hline * list stmt :=
  match todo with
  | [] => (h, [])
  | SLine i :: rest =>
      if line_live h i
      then let (h', out) := syn_cleanup_loop h rest in (h', SLine i :: out)
      else syn_cleanup_loop h rest
  | SBlock b :: rest =>
      let live := filter (line_live h) (hb_lines b) in
      match live with
      | [] => syn_cleanup_loop h rest
      | [j] =>
          if nilb (c_before (hb_rp b)) then
            (* collapse the block into its only line, keeping the line's identity *)
            let l := hget h j in
            let c := mkComs (c_before (hb_com b) ++ c_before (hl_com l))
                            (c_suffix (hl_com l) ++ c_suffix (hb_com b))
                            (c_after (hl_com l) ++ c_after (hb_com b)) in
            let h1 := hset h j (mkHL c (hb_tok b ++ hl_tok l) false) in
            let (h', out) := syn_cleanup_loop h1 rest in (h', SLine j :: out)
          else
            let (h', out) := syn_cleanup_loop h rest in (h', SBlock (block_with_lines b live) :: out)
      | _ =>
          let (h', out) := syn_cleanup_loop h rest in (h', SBlock (block_with_lines b live) :: out)
      end
  | SComment c :: rest =>
      let (h', out) := syn_cleanup_loop h rest in (h', SComment c :: out)
  end.

Definition syn_cleanup (s : syntax) : syntax :=
  let (h, st) := syn_cleanup_loop (heap s) (stmts s) in
  mkSyn h (nbid s) (fcom s) st.

(* ---------------------------------------------------------------- "// indirect" *)

Definition comment_text (c : str) : str := trim_space (trim_prefix c slash_slash).

(* rule.go isIndirect *)
Definition is_indirect (l : hline) : bool :=
  match c_suffix (hl_com l) with
  | [] => false
  | c :: _ =>
      match fields (trim_prefix c slash_slash) with
      | [x] => str_eqb x (B "indirect")
      | x :: _ :: _ => str_eqb x (B "indirect;")
      | [] => false
      end
  end.

(* the comment surgery of Require.setIndirect on the line *)
Definition set_indirect_line (l : hline) (indirect : bool) : hline :=
  if Bool.eqb (is_indirect l) indirect then l
  else
    let cs := hl_com l in
    if indirect then
      match c_suffix cs with
      | [] => set_com l (set_suffix cs [B "// indirect"])
      | c :: rest =>
          let text := comment_text c in
          match text with
          | [] => set_com l (set_suffix cs (B "// indirect" :: rest))
          | _ => set_com l (set_suffix cs ((B "// indirect; " ++ text) :: rest))
          end
      end
    else
      match c_suffix cs with
      | [] => l      (* unreachable: is_indirect l = true needs a suffix comment *)
      | c :: rest =>
          if str_eqb (comment_text c) (B "indirect") then set_com l (set_suffix cs [])
          else
            let cut := match index_sub c (B "indirect;") with
                       | Some i => skipn (i + 9) c
                       | None => skipn 8 c     (* Go: i = -1 *)
                       end in
            set_com l (set_suffix cs ((slash_slash ++ cut) :: rest))
      end.

(* the line part of Require.setVersion *)
Fixpoint set_nth {A} (k : nat) (x : A) (l : list A) : list A :=
  match l, k with
  | [], _ => []
  | _ :: r, O => x :: r
  | y :: r, S k' => y :: set_nth k' x r
  end.

Definition set_version_line (l : hline) (v : str) : hline :=
  match hl_tok l with
  | [] => l
  | _ =>
      if hl_inb l then
        let cs := match c_before (hl_com l) with
                  | [[]] => set_before (hl_com l) []
                  | _ => hl_com l
                  end in
        mkHL cs (if (2 <=? length (hl_tok l))%nat then set_nth 1 v (hl_tok l) else hl_tok l) true
      else
        mkHL (hl_com l) (if (3 <=? length (hl_tok l))%nat then set_nth 2 v (hl_tok l) else hl_tok l) false
  end.

(* ---------------------------------------------------------------- comparators *)

(* rule.go lineLess on token lists *)
Fixpoint toks_less (a b : list str) : bool :=
  match a, b with
  | x :: a', y :: b' => if str_eqb x y then toks_less a' b' else str_ltb x y
  | [], _ :: _ => true
  | _, [] => false
  end.

Definition exclude_less (a b : list str) : bool :=
  match a, b with
  | [pa; va], [pb; vb] =>
      if str_eqb pa pb then semver_compare va vb <? 0 else str_ltb pa pb
  | _, _ => toks_less a b
  end.

Definition retract_interval (t : list str) : str * str :=
  match t with
  | [v] => (v, v)
  | [l; lo; c; hi; r] =>
      if str_eqb l (B "[") && str_eqb c (B ",") && str_eqb r (B "]") then (lo, hi) else ([], [])
  | _ => ([], [])
  end.

Definition retract_less (a b : list str) : bool :=
  let (la, ha) := retract_interval a in
  let (lb, hb) := retract_interval b in
  let c := semver_compare la lb in
  if negb (c =? 0) then 0 <? c else 0 <? semver_compare ha hb.

(* sort.SliceStable, modelled by stable insertion *)
Fixpoint insert_by {A} (less : A -> A -> bool) (x : A) (l : list A) : list A :=
  match l with
  | [] => [x]
  | y :: r => if less y x then y :: insert_by less x r else x :: l
  end.
Definition stable_sort {A} (less : A -> A -> bool) (l : list A) : list A :=
  fold_right (insert_by less) [] l.

(* ---------------------------------------------------------------- view as a Syntax.v tree *)

Definition to_comment (suffix : bool) (t : str) : comment := mkComment zero_pos t suffix.
Definition to_comments (c : coms) : comments :=
  mkComments (map (to_comment false) (c_before c)) (map (to_comment true) (c_suffix c))
             (map (to_comment false) (c_after c)).
Definition to_line (l : hline) : line :=
  mkLine (to_comments (hl_com l)) zero_pos (hl_tok l) (hl_inb l) zero_pos.
Definition to_expr (h : list hline) (st : stmt) : expr :=
  match st with
  | SLine i => ELine (to_line (hget h i))
  | SBlock b => EBlock (mkBlock (to_comments (hb_com b)) zero_pos (mkParen (to_comments (hb_lp b)) zero_pos)
                                (hb_tok b) (map (fun i => to_line (hget h i)) (hb_lines b))
                                (mkParen (to_comments (hb_rp b)) zero_pos))
  | SComment c => ECommentBlock (mkCommentBlock (to_comments c) zero_pos)
  end.
Definition to_syntax (name : str) (s : syntax) : file_syntax :=
  mkFile name (to_comments (fcom s)) (map (to_expr (heap s)) (stmts s)).
