(* Round trip, part 12m: the statement loop of parseToFile with File.add and the same loop
   with addX, statement by statement. *)
From Verif.Base Require Import Bytes Utf8 Strconv QuoteProofs.
From Verif.Semver Require Import Spec Model.
From Verif.Module Require Import Path.
From Verif.Modfile Require Import Syntax Lex Parse Print Directives ProofsLex ProofsDirectives LaxRetract RoundRows
  RoundTree RoundDir1 RoundDir2 RoundDir3 RoundDir4 RoundDir5 RoundDir8 RoundDir9 RoundDir10.

Section Step.
Variable g : str -> str -> option str.
Variable p : str.
Notation fx := (Some g).

Notation radd := (fun f blk l ref verb args => add true fx f blk l ref verb args).
Definition rstep := step_of true fx.
Definition xstep := stmt_step (addX g p) known_mod_block true.

Definition OK (st : loop_state file) : Prop := lp_errs_r st = [] /\ lp_panic st = false.

Definition nonempty_toks (l : line) : Prop := l_token l <> [].

(* ---------------------------------------------------------------- blocks of other directives *)

Lemma block_same b verb i : is_verb verb "retract" = false -> forall ls j f fX errs acc, nr fX = nr f ->
  let r := block_lines (fun f l ref args => add true fx f (Some b) l ref verb args) i j ls f errs acc in
  let rX := block_lines (fun f l ref args => addX g p f (Some b) l ref verb args) i j ls fX errs acc in
  snd (fst rX) = snd (fst r) /\ snd rX = snd r /\ nr (fst (fst rX)) = nr (fst (fst r)) /\
  fd_retract (fst (fst r)) = fd_retract f /\ fd_retract (fst (fst rX)) = fd_retract fX.
Proof.
  intros Vr. induction ls as [|l ls IH]; intros j f fX errs acc Hnr; cbv zeta; cbn [block_lines].
  - cbn [fst snd]. auto.
  - destruct (add_X_other g p f fX (Some b) l (i, Some j) verb (l_token l) Vr Hnr) as (E1 & E2 & E3 & E4 & E5).
    unfold add_err. rewrite E1, E2.
    specialize (IH (S j) _ _ (if st_err (add true fx f (Some b) l (i, Some j) verb (l_token l)) then l_start l :: errs else errs)
                   (line_set_token l (st_args (add true fx f (Some b) l (i, Some j) verb (l_token l))) :: acc) E3).
    cbv zeta in IH. destruct IH as (A & B & C & D & E). rewrite D, E, E4, E5. auto.
Qed.

(* ---------------------------------------------------------------- retract blocks *)

Lemma block_rel b i : forall ls j f fX, nr fX = nr f ->
  let r := block_lines (fun f l ref args => add true fx f (Some b) l ref retract_s args) i j ls f [] [] in
  let rX := block_lines (fun f l ref args => addX g p f (Some b) l ref retract_s args) i j ls fX [] [] in
  (snd (fst rX) = [] -> snd (fst r) = [] /\ flat_map (fix_err g p) (snd r) = []) /\
  (snd (fst r) = [] ->
     nr (fst (fst r)) = nr f /\ Forall nonempty_toks (snd r) /\ length (snd r) = length ls /\
     exists es, fd_retract (fst (fst r)) = fd_retract f ++ es /\
       map rt_syntax es = map (fun j' => (i, Some j')) (seq j (length ls)) /\
       (flat_map (fix_err g p) (snd r) = [] ->
          snd (fst rX) = [] /\ nr (fst (fst rX)) = nr fX /\
          fd_retract (fst (fst rX)) = fd_retract fX ++ fix_ents g p es (snd r) /\
          snd rX = map (fix_line g p) (snd r))).
Proof.
  assert (Vr : is_verb retract_s "retract" = true) by reflexivity.
  induction ls as [|l ls IH]; intros j f fX Hnr; cbv zeta; cbn [block_lines].
  - cbn [fst snd flat_map length seq map]. split; [auto|]. intros _. split; [reflexivity|]. split; [constructor|]. split; [reflexivity|].
    exists []. rewrite !app_nil_r. auto 10.
  - set (s := add true fx f (Some b) l (i, Some j) retract_s (l_token l)).
    set (sX := addX g p fX (Some b) l (i, Some j) retract_s (l_token l)).
    destruct (add_X_retract g p f fX (Some b) l (i, Some j) retract_s (l_token l) Vr Hnr) as (HA & HB).
    cbv zeta in HA, HB. fold s sX in HA, HB. cbn [rtoks] in HB.
    set (l' := line_set_token l (st_args s)) in *.
    pose proof (add_retract_nr fx f (Some b) l (i, Some j) retract_s (l_token l) Vr) as Hn1. fold s in Hn1.
    pose proof (addX_retract_nr g p fX (Some b) l (i, Some j) retract_s (l_token l) Vr) as Hn2. fold sX in Hn2.
    assert (Hnr' : nr (st_file sX) = nr (st_file s)) by congruence.
    specialize (IH (S j) (st_file s) (st_file sX) Hnr'). cbv zeta in IH.
    rewrite (block_lines_acc _ i ls (S j) (st_file s) _ [l']).
    rewrite (block_lines_acc _ i ls (S j) (st_file sX) _ [line_set_token l (st_args sX)]).
    cbn [fst snd]. rewrite !frev_rev. cbn [rev app flat_map].
    destruct (st_err s) eqn:Es.
    { (* File.add reports an error *)
      assert (EsX : st_err sX = true) by (destruct (st_err sX); [reflexivity|discriminate (HA eq_refl)]).
      unfold add_err. rewrite Es, EsX. split.
      - intros H. exfalso. revert H. apply block_lines_errs_mono. discriminate.
      - intros H. exfalso. revert H. apply block_lines_errs_mono. discriminate. }
    specialize (HB eq_refl). destruct HB as (_ & Hne & e & Ee & Eref & HX1 & HX2).
    unfold add_err. rewrite Es.
    destruct IH as (IH1 & IH2).
    destruct (fix_err g p l') as [|ep er] eqn:Efe.
    + (* the line is fixed *)
      destruct (HX2 eq_refl) as (EsX & _ & ErX & EtX).
      rewrite EsX. cbn [app]. split; [exact IH1|].
      intros He. destruct (IH2 He) as (N1 & N2 & N3 & es & Ees & Erefs & IH3).
      split; [congruence|]. split; [constructor; [exact Hne|exact N2]|]. split; [cbn [length]; congruence|].
      exists (e :: es). split; [rewrite Ees, Ee, <- app_assoc; reflexivity|].
      split; [cbn [length seq map]; rewrite Eref, Erefs; reflexivity|].
      intros Hf. destruct (IH3 Hf) as (X1 & X2 & X3 & X4).
      split; [exact X1|]. split; [congruence|].
      split; [rewrite X3, ErX, <- app_assoc; reflexivity|].
      cbn [map]. rewrite X4. f_equal. unfold fix_line in *. cbn [line_set_token l_token] in EtX. rewrite EtX. reflexivity.
    + (* fixRetract reports an error for the line *)
      assert (EsX : st_err sX = true) by (apply HX1; discriminate).
      rewrite EsX. split.
      { intros H. exfalso. revert H. apply block_lines_errs_mono. discriminate. }
      intros He. destruct (IH2 He) as (N1 & N2 & N3 & es & Ees & Erefs & _).
      split; [congruence|]. split; [constructor; [exact Hne|exact N2]|]. split; [cbn [length]; congruence|].
      exists (e :: es). split; [rewrite Ees, Ee, <- app_assoc; reflexivity|].
      split; [cbn [length seq map]; rewrite Eref, Erefs; reflexivity|].
      intros Hf. discriminate Hf.
Qed.

(* ---------------------------------------------------------------- one statement *)

Lemma step_rel i x st sx : OK st -> OK sx -> nr (lp_file sx) = nr (lp_file st) ->
  exists y, lp_stmts_r (rstep i x st) = y :: lp_stmts_r st /\
   (OK (xstep i x sx) -> OK (rstep i x st) /\ flat_map (fix_err g p) (rlines_stmt y) = []) /\
   (OK (rstep i x st) -> Forall nonempty_toks (rlines_stmt y) /\
      exists es, fd_retract (lp_file (rstep i x st)) = fd_retract (lp_file st) ++ es /\
        map rt_syntax es = refs_stmt i y /\
        (flat_map (fix_err g p) (rlines_stmt y) = [] ->
           OK (xstep i x sx) /\ nr (lp_file (xstep i x sx)) = nr (lp_file (rstep i x st)) /\
           fd_retract (lp_file (xstep i x sx)) = fd_retract (lp_file sx) ++ fix_ents g p es (rlines_stmt y) /\
           lp_stmts_r (xstep i x sx) = fix_stmt g p y :: lp_stmts_r sx)).
Proof.
  intros (He & Hp) (HeX & HpX) Hnr. unfold rstep, xstep, step_of, stmt_step, OK.
  destruct x as [l|b|cb].
  - (* a line *)
    destruct (l_token l) as [|verb args] eqn:Et.
    { eexists. split; [reflexivity|]. cbn [lp_errs_r lp_panic]. split; [intros (_ & H); discriminate|intros (_ & H); discriminate]. }
    cbn [lp_file lp_stmts_r lp_errs_r lp_panic]. eexists. split; [reflexivity|].
    rewrite He, HeX, Hp, HpX.
    destruct (is_verb verb "retract") eqn:Vr.
    + destruct (add_X_retract g p (lp_file st) (lp_file sx) None l (i, None) verb args Vr Hnr) as (HA & HB).
      cbv zeta in HA, HB. cbn [rtoks] in HB.
      set (s := add true fx (lp_file st) None l (i, None) verb args) in *.
      set (sX := addX g p (lp_file sx) None l (i, None) verb args) in *.
      pose proof (add_retract_nr fx (lp_file st) None l (i, None) verb args Vr) as Hn1. fold s in Hn1.
      assert (Hrl : is_rline (line_set_token l (verb :: st_args s)) = true) by exact Vr.
      cbn [rlines_stmt refs_stmt fix_stmt]. rewrite Hrl. cbn [flat_map]. rewrite app_nil_r.
      unfold add_err. split.
      * intros (H1 & _). destruct (st_err sX) eqn:EsX; [discriminate|].
        specialize (HA eq_refl). rewrite HA. split; [auto|].
        destruct (HB HA) as (_ & _ & e & _ & _ & HX1 & _).
        destruct (fix_err g p (line_set_token l (verb :: st_args s))); [reflexivity|].
        exfalso. assert (Hft : false = true) by (apply HX1; discriminate). discriminate Hft.
      * intros (H1 & _). destruct (st_err s) eqn:Es; [discriminate|].
        destruct (HB eq_refl) as (_ & Hne & e & Ee & Eref & _ & HX2).
        split; [constructor; [exact Hne|constructor]|].
        exists [e]. split; [exact Ee|]. split; [cbn [map]; rewrite Eref; reflexivity|].
        intros Hf. destruct (HX2 Hf) as (EsX & N & ErX & EtX). rewrite EsX.
        split; [auto|]. split; [congruence|]. split; [exact ErX|].
        f_equal. f_equal. unfold fix_line. cbn [line_set_token l_token] in *. rewrite EtX. reflexivity.
    + destruct (add_X_other g p (lp_file st) (lp_file sx) None l (i, None) verb args Vr Hnr) as (E1 & E2 & E3 & E4 & E5).
      assert (Hrl : is_rline (line_set_token l (verb :: st_args (add true fx (lp_file st) None l (i, None) verb args))) = false) by exact Vr.
      cbn [rlines_stmt refs_stmt fix_stmt]. rewrite Hrl. cbn [flat_map]. unfold add_err. rewrite E1, E2.
      split; [intros H; split; [exact H|reflexivity]|].
      intros H. split; [constructor|]. exists []. rewrite app_nil_r. split; [exact E4|]. split; [reflexivity|].
      intros _. split; [exact H|]. split; [exact E3|]. split; [cbn [fix_ents]; rewrite app_nil_r; exact E5|reflexivity].
  - (* a block *)
    destruct (b_token b) as [|verb [|v2 r]] eqn:Et.
    { eexists. split; [reflexivity|]. cbn [lp_errs_r lp_panic]. split; [intros (_ & H); discriminate|intros (_ & H); discriminate]. }
    2:{ eexists. split; [reflexivity|]. cbn [lp_errs_r lp_panic]. split; [intros (H & _); discriminate|intros (H & _); discriminate]. }
    destruct (known_mod_block verb) eqn:Ek.
    2:{ eexists. split; [reflexivity|]. cbn [lp_errs_r lp_panic]. split; [intros (H & _); discriminate|intros (H & _); discriminate]. }
    rewrite He, HeX.
    destruct (is_verb verb "retract") eqn:Vr.
    + pose proof Vr as Vr'. apply is_verb_eq in Vr'. fold retract_s in Vr'. subst verb.
      pose proof (block_rel b i (b_line b) O (lp_file st) (lp_file sx) Hnr) as (HA & HB).
      cbv zeta in HA, HB.
      destruct (block_lines (fun f l ref args => add true fx f (Some b) l ref retract_s args) i 0 (b_line b) (lp_file st) [] [])
        as [[f' e'] ls'] eqn:Er.
      destruct (block_lines (fun f l ref args => addX g p f (Some b) l ref retract_s args) i 0 (b_line b) (lp_file sx) [] [])
        as [[fX' eX'] lsX'] eqn:ErX.
      cbn [fst snd] in HA, HB. cbn [lp_file lp_stmts_r lp_errs_r lp_panic].
      eexists. split; [reflexivity|].
      assert (Hrb : is_rblock (mkBlock (b_comments b) (b_start b) (b_lparen b) [retract_s] ls' (b_rparen b)) = true)
        by reflexivity.
      cbn [rlines_stmt refs_stmt fix_stmt]. rewrite Hrb. cbn [b_line].
      split.
      * intros (H1 & _). destruct (HA H1) as (A1 & A2). auto.
      * intros (H1 & _). destruct (HB H1) as (N1 & N2 & N3 & es & Ees & Erefs & HX).
        split; [exact N2|]. exists es. split; [exact Ees|]. split; [rewrite Erefs, N3; reflexivity|].
        intros Hf. destruct (HX Hf) as (X1 & X2 & X3 & X4).
        split; [auto|]. split; [congruence|]. split; [exact X3|]. rewrite X4. reflexivity.
    + pose proof (block_same b verb i Vr (b_line b) O (lp_file st) (lp_file sx) [] [] Hnr) as Hs. cbv zeta in Hs.
      destruct (block_lines (fun f l ref args => add true fx f (Some b) l ref verb args) i 0 (b_line b) (lp_file st) [] [])
        as [[f' e'] ls'] eqn:Er.
      destruct (block_lines (fun f l ref args => addX g p f (Some b) l ref verb args) i 0 (b_line b) (lp_file sx) [] [])
        as [[fX' eX'] lsX'] eqn:ErX.
      cbn [fst snd] in Hs. destruct Hs as (S1 & S2 & S3 & S4 & S5). subst eX' lsX'.
      cbn [lp_file lp_stmts_r lp_errs_r lp_panic].
      eexists. split; [reflexivity|].
      assert (Hrb : is_rblock (mkBlock (b_comments b) (b_start b) (b_lparen b) [verb] ls' (b_rparen b)) = false)
        by exact Vr.
      cbn [rlines_stmt refs_stmt fix_stmt]. rewrite Hrb. cbn [flat_map].
      split; [intros (H & _); split; [split; assumption|reflexivity]|].
      intros (H & _). split; [constructor|]. exists []. rewrite app_nil_r. split; [exact S4|]. split; [reflexivity|].
      intros _. split; [split; assumption|]. split; [exact S3|]. split; [cbn [fix_ents]; rewrite app_nil_r; exact S5|reflexivity].
  - (* a comment block *)
    cbn [lp_file lp_stmts_r lp_errs_r lp_panic]. eexists. split; [reflexivity|].
    cbn [rlines_stmt refs_stmt fix_stmt flat_map].
    split; [intros H; split; [split; assumption|reflexivity]|].
    intros H. split; [constructor|]. exists []. rewrite app_nil_r. split; [reflexivity|]. split; [reflexivity|].
    intros _. split; [split; assumption|]. split; [exact Hnr|]. split; [cbn [fix_ents]; rewrite app_nil_r; reflexivity|reflexivity].
Qed.
End Step.
