(* Reparse, part 19: executable mirrors of the hypotheses on the STARTING state of the end-to-end
   theorems ([syn_goodb], [kokb]) with soundness, and a non-vacuity example. *)
From Coq Require Import Permutation.
From Verif.Base Require Import Bytes.
From Verif.Modfile Require Import Syntax Lex Parse Print Directives RoundLexPure3 RoundTree
  Reparse1 Reparse2 Reparse3 Reparse5 Reparse8 Reparse11 Reparse12 Reparse13 Reparse14 Reparse15 Reparse16 Reparse18.
From Verif.Modfile Require Import EditModel EditOps EditSpec EditProofsHeap EditProofs2Blocks EditProofs2Inv EditProofs2Check.

Definition lcoms_okb (c : coms) : bool :=
  forallb ctextb (c_before c) && sfx_okb (c_suffix c) && forallb asciib (c_suffix c) && is_nil (c_after c).

Lemma lcoms_okb_ok c : lcoms_okb c = true -> lcoms_ok c.
Proof.
  unfold lcoms_okb. intros H. andbs H. split; [eapply forallb_Forall; [apply ctextb_ok|exact H]|].
  split; [apply sfx_okb_ok; assumption|]. split; [eapply forallb_Forall; [apply asciib_ok|assumption]|apply is_nil_true; assumption].
Qed.

Definition block_goodb (known : str -> bool) (b : hblock) : bool :=
  forallb ctextb (c_before (hb_com b)) && is_nil (c_suffix (hb_com b)) && is_nil (c_after (hb_com b)) &&
  is_nil (c_before (hb_lp b)) && sfx_okb (c_suffix (hb_lp b)) && is_nil (c_after (hb_lp b)) &&
  forallb bcom_okb (c_before (hb_rp b)) && no_adj_blankb (c_before (hb_rp b)) &&
  sfx_okb (c_suffix (hb_rp b)) && is_nil (c_after (hb_rp b)) &&
  match hb_tok b with [verb] => known verb || is_nil (c_before (hb_rp b)) | _ => false end.

Definition stmt_goodb (known : str -> bool) (st : stmt) : bool :=
  match st with
  | SLine _ => true
  | SBlock b => block_goodb known b
  | SComment c => negb (is_nil (c_before c)) && forallb ctextb (c_before c) && is_nil (c_suffix c) && is_nil (c_after c)
  end.

Definition syn_goodb (known : str -> bool) (s : syntax) : bool :=
  forallb (fun l => lcoms_okb (hl_com l)) (heap s) &&
  is_nil (c_before (fcom s)) && is_nil (c_suffix (fcom s)) && is_nil (c_after (fcom s)) &&
  forallb (stmt_goodb known) (stmts s).

Theorem syn_goodb_ok known s : syn_goodb known s = true -> SynGood known s.
Proof.
  unfold syn_goodb. intros H. apply andb_true_iff in H as (H & Hst). apply andb_true_iff in H as (H & Hc3).
  apply andb_true_iff in H as (H & Hc2). apply andb_true_iff in H as (H & Hc1). split.
  - intros i. destruct (Nat.lt_ge_cases i (heap_len s)) as [Hl|Hl].
    + rewrite forallb_forall in H. apply lcoms_okb_ok. apply H. apply nth_In. exact Hl.
    + rewrite sget_overflow by exact Hl. apply lcoms_no.
  - destruct (fcom s) as [a b c]. cbn in *. apply is_nil_true in Hc1, Hc2, Hc3. subst. reflexivity.
  - eapply forallb_Forall; [|exact Hst]. clear Hst. intros st Hst. destruct st as [i|b|c]; cbn [stmt_goodb stmt_good] in *; [exact I| |].
    + unfold block_goodb in Hst.
      apply andb_true_iff in Hst as (Hst & K11). apply andb_true_iff in Hst as (Hst & K10). apply andb_true_iff in Hst as (Hst & K9).
      apply andb_true_iff in Hst as (Hst & K8). apply andb_true_iff in Hst as (Hst & K7). apply andb_true_iff in Hst as (Hst & K6).
      apply andb_true_iff in Hst as (Hst & K5). apply andb_true_iff in Hst as (Hst & K4). apply andb_true_iff in Hst as (Hst & K3).
      apply andb_true_iff in Hst as (K1 & K2). unfold block_good.
      split; [eapply forallb_Forall; [apply ctextb_ok|exact K1]|].
      split; [apply is_nil_true; exact K2|]. split; [apply is_nil_true; exact K3|]. split; [apply is_nil_true; exact K4|].
      split; [apply sfx_okb_ok; exact K5|]. split; [apply is_nil_true; exact K6|].
      split; [eapply forallb_Forall; [apply bcom_okb_ok|exact K7]|]. split; [apply no_adj_blankb_ok; exact K8|].
      split; [apply sfx_okb_ok; exact K9|]. split; [apply is_nil_true; exact K10|].
      destruct (hb_tok b) as [|verb [|? ?]]; try discriminate. exists verb. split; [reflexivity|].
      apply orb_true_iff in K11 as [E|E]; [left; exact E|right; apply is_nil_true; exact E].
    + apply andb_true_iff in Hst as (Hst & K4). apply andb_true_iff in Hst as (Hst & K3). apply andb_true_iff in Hst as (K1 & K2).
      split; [destruct (c_before c); [discriminate|discriminate]|].
      split; [eapply forallb_Forall; [apply ctextb_ok|exact K2]|]. split; apply is_nil_true; assumption.
Qed.

(* KOk *)
Definition kokb (ok : item -> bool) (k : kstate) : bool :=
  forallb (fun p => ok (ItModule p [])) (opt_list (k_module k)) &&
  forallb (fun v => ok (ItGo v)) (opt_list (k_go k)) &&
  forallb (fun v => ok (ItToolchain v)) (opt_list (k_toolchain k)) &&
  forallb (fun g => ok (ItGodebug (fst g) (snd g))) (k_godebug k) &&
  forallb (fun r => ok (ItRequire (fst (fst r)) (snd (fst r)) (snd r))) (k_require k) &&
  forallb (fun x => ok (ItExclude (fst x) (snd x))) (k_exclude k) &&
  forallb (fun r => match r with (a, b, c, d) => ok (ItReplace a b c d) end) (k_replace k) &&
  forallb (fun r => ok (ItRetract (fst (fst r)) (snd (fst r)) [])) (k_retract k) &&
  forallb (fun p => ok (ItTool p)) (k_tool k) &&
  forallb (fun u => ok (ItUse (fst u))) (k_use k).

Theorem kokb_ok (ok : item -> bool) (P : item -> Prop) k : (forall it, ok it = true -> P it) -> kokb ok k = true -> KOk P k.
Proof.
  intros Hok H. unfold kokb in H. andbs H.
  constructor; (eapply forallb_Forall; [|eassumption]); cbn beta; intros x Hx; try (apply Hok; exact Hx).
  destruct x as [[[a b] c] d]. apply Hok. exact Hx.
Qed.

Definition pmodb (it : item) : bool := item_okb it && mod_itemb it.
Definition pworkb (it : item) : bool := item_okb it && work_itemb it.

Lemma pmodb_ok it : pmodb it = true -> Pmod it.
Proof. unfold pmodb. intros H. andbs H. split; [apply item_okb_ok; exact H|]. destruct it; try exact I. discriminate. Qed.

Lemma pworkb_ok it : pworkb it = true -> Pwork it.
Proof. unfold pworkb. intros H. andbs H. split; [apply item_okb_ok; exact H|]. destruct it; try exact I; discriminate. Qed.

(* the starting state of finding K6 (a) satisfies every hypothesis of the end-to-end theorem, and
   so do the arguments of its operation *)
Example end_to_end_nonvacuous :
  Coherent k6a_file /\ BlockIdsOk (fsyn k6a_file) /\ HeapSettable (fsyn k6a_file) /\
  SynGood known_mod_block (fsyn k6a_file) /\ KOk Pmod (abs k6a_file) /\
  Forall (fun o => valid_args o = true) [AddRetract (B "v1.9.0") (B "v1.9.0") []] /\
  Forall comment_arg_ok [AddRetract (B "v1.9.0") (B "v1.9.0") []] /\
  Forall (strict_args Pmod) [AddRetract (B "v1.9.0") (B "v1.9.0") []] /\
  exists errs, run_ops ([AddRetract (B "v1.9.0") (B "v1.9.0") []] ++ [Cleanup]) k6a_file = RunOk errs k6a_final.
Proof.
  split; [apply coherentb_sound; vm_compute; reflexivity|].
  split; [apply block_ids_okb_sound; vm_compute; reflexivity|].
  split; [apply heap_settableb_sound; vm_compute; reflexivity|].
  split; [apply syn_goodb_ok; vm_compute; reflexivity|].
  split; [apply (kokb_ok pmodb); [apply pmodb_ok|vm_compute; reflexivity]|].
  split; [repeat constructor|]. split; [repeat constructor|].
  split; [constructor; [|constructor]; apply pmodb_ok; vm_compute; reflexivity|].
  eexists. vm_compute. reflexivity.
Qed.

(* go 1.21
   use ./a                    (go.work) *)
Definition work_example : file :=
  mkEFile (mkSyn [mkHL no_coms [B "go"; B "1.21"] false; mkHL no_coms [B "use"; B "./a"] false] 0 no_coms
                 [SLine 0%nat; SLine 1%nat])
          None (Some (mkGo (B "1.21") (Some 0%nat))) None [] [] [] [] [] []
          [mkUse (B "./a") [] (Some 1%nat)].

Example end_to_end_work_nonvacuous :
  Coherent work_example /\ BlockIdsOk (fsyn work_example) /\ HeapSettable (fsyn work_example) /\
  SynGood known_work_block (fsyn work_example) /\ KOk Pwork (abs work_example) /\
  Forall (fun o => valid_args o = true) [WAddUse (B "./b") []] /\
  Forall comment_arg_ok [WAddUse (B "./b") []] /\
  Forall (strict_args Pwork) [WAddUse (B "./b") []] /\
  exists errs f', run_ops ([WAddUse (B "./b") []] ++ [WCleanup]) work_example = RunOk errs f' /\
    exists parsed, parse_work None (format (to_syntax [] (fsyn f'))) = DOk parsed /\
      map Directives.us_path (wf_use parsed) = [B "./a"; B "./b"].
Proof.
  split; [apply coherentb_sound; vm_compute; reflexivity|].
  split; [apply block_ids_okb_sound; vm_compute; reflexivity|].
  split; [apply heap_settableb_sound; vm_compute; reflexivity|].
  split; [apply syn_goodb_ok; vm_compute; reflexivity|].
  split; [apply (kokb_ok pworkb); [apply pworkb_ok|vm_compute; reflexivity]|].
  split; [repeat constructor|]. split; [repeat constructor|].
  split; [constructor; [|constructor]; apply pworkb_ok; vm_compute; reflexivity|].
  eexists. eexists. split; [vm_compute; reflexivity|]. eexists. split; vm_compute; reflexivity.
Qed.
