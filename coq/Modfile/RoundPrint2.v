(* Round trip, part 9b: comments before a node, lines, blocks, statements, Format. *)
From Verif.Base Require Import Bytes Utf8.
From Verif.Modfile Require Import Syntax Lex Parse Print ProofsLex RoundRows RoundParse
  RoundLexPure RoundLexPure3 RoundLexPure4 RoundLexB2 RoundTrim RoundTree RoundTree2 RoundTree3 RoundPrint.

Definition bcoms_bytes (m : nat) (cs : list str) : str := flat_map (fun c => render_row m (brow c)) cs.

(* a blank line can only be written behind a line that is not blank *)
Definition blank_ok (t : str) (cs : list str) : Prop :=
  match cs with c :: _ => c = [] -> tline1 t | [] => True end.

Lemma tline1_app t x : tline1 x -> tline1 (t ++ x).
Proof. intros (t' & b & -> & Hb). exists (t ++ t'), b. rewrite <- app_assoc. auto. Qed.

Lemma tline1_line m content sfx : vis_end content -> sfx_ok sfx ->
  tline1 (repeat 9 m ++ content ++ sfx_bytes (tcoms sfx) ++ [10]).
Proof.
  intros (pre & b & -> & Hb) (Hsf & Hlen). destruct sfx as [|c [|c2 sfx]]; [| |cbn in Hlen; lia].
  - cbn [tcoms map sfx_bytes flat_map app]. exists (repeat 9 m ++ pre), b. rewrite <- ?app_assoc. auto.
  - pose proof (Forall_inv Hsf) as Hct. destruct (trim_space_comment c Hct) as (_ & He & _).
    destruct (end_ok_vis _ He) as (pre' & b' & Ey & Hb').
    cbn [tcoms map sfx_bytes flat_map app]. rewrite app_nil_r, Ey.
    exists (repeat 9 m ++ (pre ++ [b]) ++ 32 :: pre'), b'. rewrite <- ?app_assoc. cbn [app]. rewrite <- ?app_assoc. auto.
Qed.

Lemma St_emit_mid p t m x : St p t m -> Mid (emit x p) t m x [] m.
Proof. intros (Ho & Hc & Hm). unfold Mid. rewrite emit_out, Ho. cbn [emit ps_comment ps_margin map]. auto. Qed.

Lemma before_loop_St : forall cs p t m, St p t m -> Forall bcom_ok cs -> no_adj_blank cs -> blank_ok t cs ->
  St (before_loop (map ec cs) p) (t ++ bcoms_bytes m cs) m /\
  (cs <> [] -> (last cs [] <> [] -> tline1 (t ++ bcoms_bytes m cs)) /\ tnl (t ++ bcoms_bytes m cs)).
Proof.
  induction cs as [|c cs IH]; intros p t m Hs Hok Hn Hb.
  - cbn. rewrite app_nil_r. split; [exact Hs|congruence].
  - inversion Hok as [|? ? Hc Hok']; subst. cbn [no_adj_blank] in Hn. destruct Hn as (Hadj & Hn).
    cbn [map before_loop ec c_token bcoms_bytes flat_map].
    assert (Hstep : exists t1, St (newline (emit (trim_space c) p)) t1 m /\ t1 = t ++ render_row m (brow c) /\
                               (c <> [] -> tline1 t1) /\ tnl t1).
    { destruct Hc as [->|Hc].
      - change (trim_space []) with (@nil Z). exists (t ++ [10]). split.
        + apply newline_blank; [|apply Hb; reflexivity]. destruct Hs as (A & B & C). unfold St, emit. cbn. auto.
        + split; [reflexivity|]. split; [congruence|]. right. exists t. reflexivity.
      - destruct (trim_space_comment c Hc) as (_ & He & _).
        pose proof (newline_mid _ t m (trim_space c) [] m (St_emit_mid p t m _ Hs) (end_ok_vis _ He) sfx_ok_nil) as H.
        cbn [tcoms map sfx_bytes flat_map app] in H.
        exists (t ++ repeat 9 m ++ trim_space c ++ [10]). split; [exact H|].
        pose proof (comment_text_nonnil _ Hc) as Hne. unfold brow. destruct c as [|b0 c0]; [congruence|]. cbn [snil render_row].
        split; [reflexivity|].
        assert (Ht1 : tline1 (t ++ repeat 9 m ++ trim_space (b0 :: c0) ++ [10])).
        { apply tline1_app. pose proof (tline1_line m (trim_space (b0 :: c0)) [] (end_ok_vis _ He) sfx_ok_nil) as Hl.
          cbn [tcoms map sfx_bytes flat_map app] in Hl. exact Hl. }
        split; [intros _; exact Ht1|apply tline1_tnl; exact Ht1]. }
    destruct Hstep as (t1 & Hs1 & Et1 & Hl1 & Hnl1).
    destruct (IH _ t1 m Hs1 Hok' Hn) as (A & B).
    { destruct cs as [|c' cs']; [exact I|]. cbn. intros Ec'. apply Hl1. intros Ec. apply (Hadj Ec). exact Ec'. }
    rewrite Et1 in A, B. rewrite <- app_assoc in A, B. split; [exact A|]. intros _.
    destruct cs as [|c' cs'].
    + cbn [bcoms_bytes flat_map last] in *. rewrite app_nil_r in *. rewrite <- Et1. auto.
    + apply B. discriminate.
Qed.

Lemma print_before_St2 cs p t m : St p t m -> tnl t -> Forall bcom_ok cs -> no_adj_blank cs -> blank_ok t cs ->
  St (print_before (map ec cs) p) (t ++ bcoms_bytes m cs) m /\
  (cs <> [] -> (last cs [] <> [] -> tline1 (t ++ bcoms_bytes m cs)) /\ tnl (t ++ bcoms_bytes m cs)).
Proof.
  intros Hs Ht Hok Hn Hb. destruct cs as [|c cs]; [cbn; rewrite app_nil_r; split; [exact Hs|congruence]|].
  unfold print_before. cbn [map].
  assert (Hs' : St (emit_tabs (if indent_pos (trim p) then emit [10] (trim p) else trim p)) t m).
  { destruct Hs as (Ho & Hc & Hm). unfold trim. rewrite Ho, drop_blanks_tabs, (drop_blanks_tnl _ Ht).
    assert (Hi : indent_pos (mkP (rev t) (ps_comment p) (ps_margin p)) = false).
    { unfold indent_pos. cbn [ps_out]. destruct Ht as [->|(t' & ->)]; [reflexivity|]. rewrite rev_app_distr. reflexivity. }
    rewrite Hi. unfold emit_tabs, St. cbn [ps_out ps_comment ps_margin]. rewrite Hm. auto. }
  apply (before_loop_St (c :: cs) _ t m Hs' Hok Hn Hb).
Qed.

Lemma print_before_St cs p t m : St p t m -> tnl t -> Forall bcom_ok cs -> no_adj_blank cs -> blank_ok t cs ->
  St (print_before (map ec cs) p) (t ++ bcoms_bytes m cs) m.
Proof. intros. apply print_before_St2; assumption. Qed.

(* all comments are real comments *)
Lemma coms_no_blank cs t : Forall comment_text cs -> no_adj_blank cs /\ blank_ok t cs.
Proof.
  intros H. split.
  - induction H as [|c cs Hc Hcs IH]; [exact I|]. cbn [no_adj_blank]. split; [|exact IH].
    destruct cs; [exact I|]. intros E. pose proof (comment_text_nonnil _ Hc). congruence.
  - destruct H as [|c cs Hc _]; [exact I|]. cbn. intros E. pose proof (comment_text_nonnil _ Hc). congruence.
Qed.

Lemma bcoms_bytes_coms m cs : Forall comment_text cs ->
  bcoms_bytes m cs = flat_map (fun c => render_row m (RCom (trim_space c))) cs.
Proof.
  induction 1 as [|c cs Hc Hcs IH]; [reflexivity|]. cbn [bcoms_bytes flat_map]. unfold bcoms_bytes in IH. rewrite IH.
  pose proof (comment_text_nonnil _ Hc). unfold brow. destruct c; [congruence|reflexivity].
Qed.

Lemma render_brows m cs : flat_map render_pl (map (fun c => PLRow m (brow c)) cs) = bcoms_bytes m cs.
Proof. induction cs as [|c cs IH]; [reflexivity|]. cbn [map flat_map bcoms_bytes render_pl]. unfold bcoms_bytes in IH. rewrite IH. reflexivity. Qed.

Lemma render_coms m cs : flat_map render_pl (map (com_pl m) cs) = flat_map (fun c => render_row m (RCom (trim_space c))) cs.
Proof. induction cs as [|c cs IH]; [reflexivity|]. cbn [map flat_map render_pl com_pl]. rewrite IH. reflexivity. Qed.

(* ---------------------------------------------------------------- a line *)

Lemma print_toks_mid p t m toks sfx : St p t m ->
  Mid (queue_suffix (map ec sfx) (print_tokens toks p)) t m (toks_bytes false toks) sfx m.
Proof.
  intros (Ho & Hc & Hm). unfold print_tokens, Mid, queue_suffix. destruct (tokens_loop_out toks false p) as (A & B & C).
  cbn [ps_out ps_comment ps_margin]. rewrite A, B, C, Ho, Hc, Hm. auto.
Qed.

Lemma print_line_mid inb l p t m : St p t m -> tnl t -> Forall bcom_ok (al_before l) -> no_adj_blank (al_before l) ->
  blank_ok t (al_before l) ->
  Mid (print_line (eline inb l) p) (t ++ bcoms_bytes m (al_before l)) m (toks_bytes false (al_toks l)) (al_suffix l) m.
Proof.
  intros Hs Ht Hok Hn Hb. unfold print_line, eline. cbn [l_comments cm_before cm_suffix l_token].
  apply print_toks_mid. apply print_before_St; assumption.
Qed.

(* the text once the current line is closed *)
Definition closed (t : str) (m0 : nat) (content : str) (sfx : list str) : str :=
  t ++ repeat 9 m0 ++ content ++ sfx_bytes (tcoms sfx) ++ [10].

Lemma print_block_lines_mid : forall ls first p t m0 content sfx,
  Mid p t m0 content sfx 1 -> vis_end content -> sfx_ok sfx -> alines_ok first ls ->
  exists t' m0' content' sfx',
    Mid (print_block_lines (map (eline true) ls) p) t' m0' content' sfx' 1 /\ vis_end content' /\ sfx_ok sfx' /\
    closed t' m0' content' sfx' = closed t m0 content sfx ++ render (flat_map line_pls ls).
Proof.
  induction ls as [|l ls IH]; intros first p t m0 content sfx Hm Hv Hs Hl.
  - exists t, m0, content, sfx. cbn. rewrite app_nil_r. auto.
  - destruct Hl as (((Hbok & Hnadj & _) & (t0 & more & Et & _) & Hlt & Hsl) & Hls).
    cbn [map print_block_lines].
    pose proof (newline_mid p t m0 content sfx 1 Hm Hv Hs) as Hst. fold (closed t m0 content sfx) in Hst.
    assert (Htl : tline1 (closed t m0 content sfx)) by (apply tline1_app, tline1_line; assumption).
    pose proof (print_line_mid true l _ _ 1 Hst (tline1_tnl _ Htl) Hbok Hnadj) as Hmid.
    specialize (Hmid ltac:(destruct (al_before l); [exact I|intros _; exact Htl])).
    assert (Hv' : vis_end (toks_bytes false (al_toks l))) by (apply toks_bytes_end; [rewrite Et; discriminate|exact Hlt]).
    destruct (IH false _ _ _ _ _ Hmid Hv' Hsl Hls) as (t' & m0' & content' & sfx' & A & B & C & D).
    exists t', m0', content', sfx'. split; [exact A|]. split; [exact B|]. split; [exact C|].
    rewrite D. unfold closed. cbn [flat_map]. unfold render. rewrite flat_map_app. unfold line_pls at 2.
    rewrite flat_map_app. cbn [flat_map render_pl render_row]. rewrite app_nil_r.
    rewrite render_brows. rewrite <- ?app_assoc. reflexivity.
Qed.

(* ---------------------------------------------------------------- statements *)

Lemma set_margin_mid p t m0 content sfx mg k : Mid p t m0 content sfx mg -> Mid (set_margin k p) t m0 content sfx k.
Proof. intros (A & B & C). unfold Mid, set_margin. cbn. auto. Qed.

Lemma print_block_mid b p t : St p t 0 -> tnl t -> ablock_ok b ->
  exists t',
    Mid (print_block (eblock b) p) t' 0 [41] (ab_rsfx b ++ ab_sfx b) 0 /\
    closed t' 0 [41] (ab_rsfx b ++ ab_sfx b) = t ++ render (stmt_pls (ABlock b)).
Proof.
  intros Hs Ht (Hb & Hlt & (t0 & more & Et & _) & Hls & Hl & (Hrb & Hrn & _) & Hsx).
  unfold print_block, eblock. cbn [b_comments cm_before cm_suffix b_token b_lparen b_line b_rparen].
  destruct (coms_no_blank _ t Hb) as (Hn1 & Hb1).
  pose proof (print_before_St _ p t 0 Hs Ht (Forall_comment_bcom _ Hb) Hn1 Hb1) as H1.
  set (t1 := t ++ bcoms_bytes 0 (ab_before b)) in *.
  (* the header line *)
  assert (H3 : Mid (print_paren 40 (mkParen (mkComments [] (map ec (ab_lsfx b)) []) zero_pos)
                      (emit [32] (print_tokens (ab_toks b) (print_before (map ec (ab_before b)) p))))
                   t1 0 (toks_bytes false (ab_toks b) ++ [32; 40]) (ab_lsfx b) 0).
  { destruct H1 as (Ho & Hc & Hm). unfold print_paren, print_tokens, Mid, queue_suffix. cbn [pr_comments cm_before cm_suffix print_before].
    destruct (tokens_loop_out (ab_toks b) false (print_before (map ec (ab_before b)) p)) as (A & B & C).
    cbn [ps_out ps_comment ps_margin emit]. rewrite !rev_append_rev. cbn [rev app]. rewrite A, B, C, Ho, Hc, Hm.
    rewrite rev_app_distr. cbn [rev app]. auto. }
  assert (Hv3 : vis_end (toks_bytes false (ab_toks b) ++ [32; 40])).
  { exists (toks_bytes false (ab_toks b) ++ [32]), 40. rewrite <- app_assoc. split; [reflexivity|]. unfold vis. lia. }
  pose proof (set_margin_mid _ _ _ _ _ _ 1 H3) as H3'.
  replace (S (ps_margin (print_paren 40 {| pr_comments := {| cm_before := []; cm_suffix := map ec (ab_lsfx b); cm_after := [] |}; pr_pos := zero_pos |}
              (emit [32] (print_tokens (ab_toks b) (print_before (map ec (ab_before b)) p)))))) with 1%nat
    by (destruct H3 as (_ & _ & E); rewrite E; reflexivity).
  destruct (print_block_lines_mid (ab_lines b) true _ _ _ _ _ H3' Hv3 Hls Hl) as (t4 & m4 & c4 & s4 & H4 & Hv4 & Hs4 & E4).
  set (p4 := print_block_lines (map (eline true) (ab_lines b)) _) in *.
  replace (Nat.pred (ps_margin p4)) with 0%nat by (destruct H4 as (_ & _ & E); rewrite E; reflexivity).
  pose proof (newline_mid _ _ _ _ _ 0 (set_margin_mid _ _ _ _ _ _ 0 H4) Hv4 Hs4) as H5. fold (closed t4 m4 c4 s4) in H5.
  assert (Htl5 : tline1 (closed t4 m4 c4 s4)) by (apply tline1_app, tline1_line; assumption).
  (* the closing parenthesis *)
  assert (Hb5 : blank_ok (closed t4 m4 c4 s4) (ab_rbefore b)) by (destruct (ab_rbefore b); [exact I|intros _; exact Htl5]).
  pose proof (print_before_St _ _ _ 0 H5 (tline1_tnl _ Htl5) Hrb Hrn Hb5) as H6.
  exists (closed t4 m4 c4 s4 ++ bcoms_bytes 0 (ab_rbefore b)). split.
  - destruct H6 as (Ho & Hc & Hm). unfold print_paren, Mid, queue_suffix. cbn [pr_comments cm_before cm_suffix ps_out ps_comment ps_margin emit].
    rewrite !rev_append_rev. cbn [rev app]. rewrite Ho, Hc, Hm. cbn [app repeat]. rewrite map_app. auto.
  - unfold closed at 1. rewrite E4. unfold closed. cbn [stmt_pls]. unfold render. rewrite !flat_map_app.
    cbn [flat_map render_pl render_row repeat app toks_bytes]. rewrite app_nil_r.
    unfold t1. rewrite (bcoms_bytes_coms 0 _ Hb). rewrite render_coms, render_brows.
    rewrite <- ?app_assoc. cbn [app]. destruct (is_close [41]); cbn [app]; rewrite <- ?app_assoc; reflexivity.
Qed.
