(* The directive layer rewrites tokens only: a top-level Line of f.Syntax is a top-level Line
   of the parsed tree at the same index, with the same Start.  With it, modulepath_agrees is
   stated through f.Module.Syntax as found in f.Syntax. *)
From Verif.Base Require Import Bytes Utf8 Strconv.
From Verif.Semver Require Import Model.
From Verif.Module Require Import Path.
From Verif.Modfile Require Import Syntax Lex Parse Print Directives ModulePath ProofsLex ProofsParse
  ProofsDirectives LaxRetract ModulePathProofs.

(* Line-ness and Start agree *)
Definition top_start (x y : expr) : Prop :=
  match x, y with
  | ELine l, ELine l' => l_start l = l_start l'
  | ELine _, _ | _, ELine _ => False
  | _, _ => True
  end.

Lemma step_top_start strict fx i x (st : loop_state file) :
  exists y, lp_stmts_r (step_of strict fx i x st) = y :: lp_stmts_r st /\ top_start x y.
Proof.
  unfold step_of, stmt_step. destruct x as [l|b|c].
  - destruct (l_token l); cbn [lp_stmts_r]; eexists; (split; [reflexivity|]); reflexivity.
  - destruct (b_token b) as [|verb [|v2 r]]; try (eexists; split; [reflexivity|exact I]).
    destruct (known_mod_block verb); [|eexists; split; [reflexivity|exact I]].
    destruct (block_lines _ i O (b_line b) (lp_file st) (lp_errs_r st) []) as [[f' e'] ls'].
    eexists. split; [reflexivity|exact I].
  - eexists. split; [reflexivity|exact I].
Qed.

Lemma stmts_loop_top_start strict fx : forall xs i done (st : loop_state file),
  Forall2 top_start done (rev (lp_stmts_r st)) ->
  Forall2 top_start (done ++ xs) (rev (lp_stmts_r (stmts_loop (step_of strict fx) i xs st))).
Proof.
  induction xs as [|x xs IH]; intros i done st H; cbn [stmts_loop]; [rewrite app_nil_r; exact H|].
  replace (done ++ x :: xs) with ((done ++ [x]) ++ xs) by (rewrite <- app_assoc; reflexivity).
  apply IH. destruct (step_top_start strict fx i x st) as (y & -> & Hy). cbn [rev].
  apply Forall2_app; [exact H|constructor; [exact Hy|constructor]].
Qed.

Lemma Forall2_update_nth (R : expr -> expr -> Prop) g : forall xs ys i,
  Forall2 R xs ys ->
  (forall x y, nth_expr i ys = Some y -> R x y -> R x (g y)) ->
  Forall2 R xs (update_nth i g ys).
Proof.
  intros xs ys i H. revert i. induction H as [|x y xs ys Hxy H IH]; intros i Hg.
  { destruct i; constructor. }
  destruct i as [|i]; cbn [update_nth].
  { constructor; [apply Hg; [reflexivity|exact Hxy]|exact H]. }
  constructor; [exact Hxy|]. apply IH. intros x0 y0 Hn. apply Hg. exact Hn.
Qed.

Lemma set_line_top_start xs syn ref l l' :
  Forall2 top_start xs (f_stmt syn) -> get_line syn ref = Some l -> l_start l' = l_start l ->
  Forall2 top_start xs (f_stmt (set_line syn ref l')).
Proof.
  intros H Hg Hs. unfold set_line. cbn [f_stmt]. apply Forall2_update_nth; [exact H|].
  intros x y Hn Hxy. unfold get_line in Hg. rewrite Hn in Hg.
  destruct y as [ly|b|c]; destruct (snd ref) as [j|]; try discriminate; try exact Hxy.
  injection Hg as ->. destruct x; cbn in *; congruence.
Qed.

Lemma frl_top_start fx path xs : forall rs syn acc errs panic,
  Forall2 top_start xs (f_stmt syn) ->
  Forall2 top_start xs (f_stmt (snd (fst (fst (fix_retract_loop fx path rs syn acc errs panic))))).
Proof.
  induction rs as [|r rs IH]; intros syn acc errs panic H; cbn [fix_retract_loop]; [exact H|].
  destruct (get_line syn (rt_syntax r)) as [l|] eqn:Hg; [|exact H].
  destruct (l_token l) as [|t0 targs]; [exact H|].
  destruct (parse_version_interval _ _ _) as [args' res].
  assert (H' : Forall2 top_start xs (f_stmt (set_line syn (rt_syntax r)
                 (line_set_token l (if str_eqb t0 (B "retract") then t0 :: args' else args'))))).
  { eapply set_line_top_start; eauto. }
  destruct res as [[[low high] rest]|]; apply IH; exact H'.
Qed.

Lemma file_top_start strict fx syn f : file_of_syntax strict fx syn = DOk f ->
  Forall2 top_start (f_stmt syn) (f_stmt (fd_syntax f)).
Proof.
  unfold file_of_syntax. fold (step_of strict fx).
  set (S0 := mkLS (empty_file syn) [] [] false).
  pose proof (stmts_loop_top_start strict fx (f_stmt syn) O [] S0 (Forall2_nil _)) as Hm. cbn [app] in Hm.
  set (st := stmts_loop (step_of strict fx) 0 (f_stmt syn) S0) in *.
  set (syn1 := mkFile (f_name syn) (f_comments syn) (frev (lp_stmts_r st))).
  assert (H1 : Forall2 top_start (f_stmt syn) (f_stmt syn1)).
  { unfold syn1. cbn [f_stmt]. rewrite frev_rev. exact Hm. }
  unfold fix_retract. destruct fx as [g|].
  2:{ destruct (lp_panic st); [discriminate|]. destruct (lp_errs_r st); [|discriminate]. intros [= <-]. exact H1. }
  cbn [fd_retract fd_syntax fd_module with_syntax].
  destruct (fd_retract (lp_file st)) as [|r rs].
  { destruct (lp_panic st); [discriminate|]. destruct (lp_errs_r st); [|discriminate]. intros [= <-]. exact H1. }
  destruct (Parse.is_nil _).
  - destruct (get_line syn1 (rt_syntax r)); [destruct (lp_panic st); discriminate|discriminate].
  - pose proof (frl_top_start (Some g) (match fd_module (lp_file st) with Some m => mv_path (md_mod m) | None => [] end)
                  (f_stmt syn) (r :: rs) syn1 [] (lp_errs_r st) (lp_panic st) H1) as H2.
    destruct (fix_retract_loop _ _ (r :: rs) syn1 [] (lp_errs_r st) (lp_panic st)) as [[[rs' syn'] errs'] panic'].
    cbn [fst snd] in H2. destruct panic'; [discriminate|]. destruct errs'; [|discriminate]. intros [= <-]. exact H2.
Qed.

Lemma Forall2_nth_expr (R : expr -> expr -> Prop) : forall xs ys i y,
  Forall2 R xs ys -> nth_expr i ys = Some y -> exists x, nth_expr i xs = Some x /\ R x y.
Proof.
  intros xs ys i y H. revert i. induction H as [|x0 y0 xs ys Hxy H IH]; intros [|i] Hn; cbn in *; try discriminate.
  - injection Hn as <-. eauto.
  - apply IH. exact Hn.
Qed.

(* modulepath_agrees through f.Syntax *)
Theorem modulepath_agrees_file fx data f m l :
  parse_to_file true fx data = DOk f ->
  fd_module f = Some m ->
  snd (md_syntax m) = None ->
  get_line (fd_syntax f) (md_syntax m) = Some l ->
  check_import_path (mv_path (md_mod m)) = None ->
  (forall k, Z.of_nat k < p_line (l_start l) - 1 -> module_path_line (nth k (split_on 10 data) []) = None) ->
  module_path data = mv_path (md_mod m).
Proof.
  intros Hfile Hmod Hsingle Hget Hvalid Hearlier.
  pose proof Hfile as Hfile0. unfold parse_to_file, lift_parse in Hfile.
  destruct (parse data) as [syn| | |] eqn:Hparse; try discriminate.
  pose proof (file_top_start true fx syn f Hfile) as Htop.
  unfold get_line in Hget. rewrite Hsingle in Hget.
  destruct (nth_expr (fst (md_syntax m)) (f_stmt (fd_syntax f))) as [[l1|b|c]|] eqn:Hn; try discriminate.
  injection Hget as ->.
  destruct (Forall2_nth_expr _ _ _ _ _ Htop Hn) as (x & Hx & Hr).
  destruct x as [l0|b|c]; cbn in Hr; try contradiction.
  apply (modulepath_agrees fx data syn f m l0); auto.
  - unfold get_line. rewrite Hx, Hsingle. reflexivity.
  - rewrite Hr. exact Hearlier.
Qed.
