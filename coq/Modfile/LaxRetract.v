(* fixRetract under an arbitrary version fixer.

   fixRetract re-reads, through the Syntax pointer of every Retract, the tokens of the
   retract lines that parseToFile has rewritten.  This file proves what is needed to
   reason about it:
     - the line references of f.Retract are pairwise distinct and point at rebuilt lines
       with at least one token (so fixRetract never faults: parse_to_file_no_panic);
     - two runs whose retract lists correspond and whose retract lines are equal give the
       same fixRetract outcome (frl_agree);
     - the strict and the lax run rebuild the retract lines identically, hence
       strict_implies_lax_same_core for every fixer. *)
From Verif.Base Require Import Bytes Utf8 Strconv.
From Verif.Semver Require Import Model.
From Verif.Module Require Import Path.
From Verif.Modfile Require Import Syntax Lex Parse Print Directives ProofsLex ProofsParse ProofsDirectives.

(* ---------------------------------------------------------------- lists and references *)

Lemma nth_expr_app_l k : forall a b, (k < length a)%nat -> nth_expr k (a ++ b) = nth_expr k a.
Proof.
  induction k as [|k IH]; intros [|x a] b H; cbn in *; try lia; auto. apply IH. lia.
Qed.

Lemma nth_expr_app_r : forall a x b, nth_expr (length a) (a ++ x :: b) = Some x.
Proof. induction a as [|y a IH]; intros x b; cbn; auto. Qed.

Lemma nth_expr_beyond : forall a k, (length a <= k)%nat -> nth_expr k a = None.
Proof. induction a as [|y a IH]; intros [|k] H; cbn in *; auto; try lia. apply IH. lia. Qed.


Lemma nth_expr_update_nth g : forall l i k,
  nth_expr k (update_nth i g l) = if Nat.eqb k i then option_map g (nth_expr i l) else nth_expr k l.
Proof.
  induction l as [|x l IH]; intros [|i] [|k]; cbn; try reflexivity;
    try (destruct (Nat.eqb k i); reflexivity); apply IH.
Qed.

Lemma nth_line_update_nth g : forall l i k,
  nth_line k (update_nth i g l) = if Nat.eqb k i then option_map g (nth_line i l) else nth_line k l.
Proof.
  induction l as [|x l IH]; intros [|i] [|k]; cbn; try reflexivity;
    try (destruct (Nat.eqb k i); reflexivity); apply IH.
Qed.

(* the line a reference denotes in a list of statements *)
Definition get_line_s (stmts : list expr) (ref : line_ref) : option line :=
  match nth_expr (fst ref) stmts, snd ref with
  | Some (ELine l), None => Some l
  | Some (EBlock b), Some j => nth_line j (b_line b)
  | _, _ => None
  end.

Lemma get_line_get_line_s s ref : get_line s ref = get_line_s (f_stmt s) ref.
Proof. reflexivity. Qed.

Lemma get_line_set_line_same s ref l' :
  get_line (set_line s ref l') ref = match get_line s ref with Some _ => Some l' | None => None end.
Proof.
  unfold get_line, set_line. cbn [f_stmt]. rewrite nth_expr_update_nth, Nat.eqb_refl.
  destruct (nth_expr (fst ref) (f_stmt s)) as [[l|b|c]|]; cbn [option_map]; destruct (snd ref) as [j|]; auto.
  cbn [b_line]. rewrite nth_line_update_nth, Nat.eqb_refl. destruct (nth_line j (b_line b)); reflexivity.
Qed.

Lemma get_line_set_line_other s ref ref' l' : ref <> ref' ->
  get_line (set_line s ref l') ref' = get_line s ref'.
Proof.
  intros Hne. unfold get_line, set_line. cbn [f_stmt]. rewrite nth_expr_update_nth.
  destruct (Nat.eqb_spec (fst ref') (fst ref)) as [E|E]; [|reflexivity].
  rewrite E.
  destruct (nth_expr (fst ref) (f_stmt s)) as [[l|b|c]|]; cbn [option_map]; auto.
  - destruct (snd ref) as [j|] eqn:Ej; [reflexivity|]. destruct (snd ref') as [j'|] eqn:E'; [reflexivity|].
    exfalso. apply Hne. destruct ref, ref'; cbn in *; congruence.
  - destruct (snd ref) as [j|] eqn:Ej; [|reflexivity]. destruct (snd ref') as [j'|] eqn:E'; [|reflexivity].
    cbn [b_line]. rewrite nth_line_update_nth.
    destruct (Nat.eqb_spec j' j) as [Ejj|Ejj]; [|reflexivity].
    exfalso. apply Hne. destruct ref, ref'; cbn in *; congruence.
Qed.

(* the statements rebuilt so far are kept reversed *)
Definition get_line_r (stmts_r : list expr) (ref : line_ref) : option line :=
  get_line_s (rev stmts_r) ref.

Lemma glr_old x xs ref : (fst ref < length xs)%nat -> get_line_r (x :: xs) ref = get_line_r xs ref.
Proof.
  intros H. unfold get_line_r, get_line_s. cbn [rev]. rewrite nth_expr_app_l by (rewrite rev_length; exact H).
  reflexivity.
Qed.

Lemma glr_new x xs o : get_line_r (x :: xs) (length xs, o) = get_line_s [x] (O, o).
Proof.
  unfold get_line_r, get_line_s. cbn [rev fst snd]. rewrite <- (rev_length xs), nth_expr_app_r. reflexivity.
Qed.

Lemma glr_cons_same x sA sB ref : length sA = length sB ->
  ((fst ref < length sA)%nat -> get_line_r sA ref = get_line_r sB ref) ->
  get_line_r (x :: sA) ref = get_line_r (x :: sB) ref.
Proof.
  intros Hl Hold. destruct (Nat.lt_ge_cases (fst ref) (length sA)) as [Hlt|Hge].
  - rewrite !glr_old by lia. auto.
  - destruct ref as [i o]. cbn [fst] in *. destruct (Nat.eq_dec i (length sA)) as [->|Hne].
    + rewrite glr_new. rewrite Hl, glr_new. reflexivity.
    + unfold get_line_r, get_line_s. cbn [rev fst].
      rewrite !nth_expr_beyond; auto; rewrite app_length, rev_length; cbn; lia.
Qed.

(* ---------------------------------------------------------------- what add does to f.Retract *)

Lemma pvi_some_nonnil fx path toks toks' r :
  parse_version_interval fx path toks = (toks', Some r) -> toks' <> [].
Proof.
  unfold parse_version_interval. destruct toks as [|t0 r0]; [discriminate|].
  destruct (str_eqb t0 lparen_s); [discriminate|].
  destruct (negb (str_eqb t0 lbrack)).
  { destruct (parse_version fx path t0) as [t0' v]. intros [= <- _]. discriminate. }
  destruct r0 as [|t1 r1]; [discriminate|].
  destruct (parse_version fx path t1) as [t1' [low|]]; [|intros [= <- _]; discriminate].
  destruct r1 as [|t2 [|t3 r3]]; try (intros [= <- _]; discriminate).
  destruct (str_eqb t2 comma); [|intros [= <- _]; discriminate].
  destruct (parse_version fx path t3) as [t3' [high|]]; [|intros [= <- _]; discriminate].
  destruct r3 as [|t4 r4]; [intros [= <- _]; discriminate|].
  destruct (str_eqb t4 rbrack); intros [= <- _]; discriminate.
Qed.

Lemma pvi_nonnil fx path toks : toks <> [] -> fst (parse_version_interval fx path toks) <> [].
Proof.
  unfold parse_version_interval. destruct toks as [|t0 r0]; [congruence|]. intros _.
  destruct (str_eqb t0 lparen_s); [discriminate|].
  destruct (negb (str_eqb t0 lbrack)).
  { destruct (parse_version fx path t0) as [t0' v]. discriminate. }
  destruct r0 as [|t1 r1]; [discriminate|].
  destruct (parse_version fx path t1) as [t1' [low|]]; [|discriminate].
  destruct r1 as [|t2 [|t3 r3]]; try discriminate.
  destruct (str_eqb t2 comma); [|discriminate].
  destruct (parse_version fx path t3) as [t3' [high|]]; [|discriminate].
  destruct r3 as [|t4 r4]; [discriminate|].
  destruct (str_eqb t4 rbrack); discriminate.
Qed.

(* a call of add leaves f.Retract alone or appends one entry whose Syntax is the line *)
Lemma add_retracts strict fx f blk l ref verb args :
  fd_retract (st_file (add strict fx f blk l ref verb args)) = fd_retract f \/
  exists low high,
    fd_retract (st_file (add strict fx f blk l ref verb args))
      = fd_retract f ++ [mkRetractD low high (directive_comment blk l) ref] /\
    st_args (add strict fx f blk l ref verb args) <> [].
Proof.
  unfold add.
  destruct (negb strict && negb _); [left; reflexivity|].
  destruct (is_verb verb "go").
  { left. unfold add_go. destruct (fd_go f); [reflexivity|].
    destruct args as [|a [|b args]]; try reflexivity.
    destruct (go_version_re a); [reflexivity|]. destruct (negb strict); [|reflexivity].
    destruct (lax_go_version a); reflexivity. }
  destruct (is_verb verb "toolchain").
  { left. unfold add_toolchain. destruct (fd_toolchain f); [reflexivity|].
    destruct args as [|a [|b args]]; try reflexivity. destruct (toolchain_re a); reflexivity. }
  destruct (is_verb verb "module").
  { left. destruct (fd_module f); [reflexivity|].
    destruct args as [|a [|b args]]; try reflexivity. destruct (parse_string a) as [[s tok]|]; reflexivity. }
  destruct (is_verb verb "godebug").
  { left. unfold add_godebug. destruct args as [|a [|b args]]; try reflexivity.
    destruct (contains_any a _); [reflexivity|]. destruct (cut_eq a) as [[k v]|]; reflexivity. }
  destruct (is_verb verb "require" || is_verb verb "exclude").
  { left. destruct args as [|a0 [|a1 [|a2 args]]]; try reflexivity.
    destruct (parse_string a0) as [[s tok0]|]; [|reflexivity].
    destruct (parse_version fx s a1) as [tok1 [v|]]; [|reflexivity].
    destruct (module_path_major s); [|reflexivity].
    destruct (negb (check_path_major v s0)); [reflexivity|].
    destruct (is_verb verb "require"); reflexivity. }
  destruct (is_verb verb "replace").
  { left. destruct (parse_replace fx verb ref args) as [args' [r|]]; reflexivity. }
  destruct (is_verb verb "retract").
  { destruct (parse_version_interval dont_fix [] args) as [args' [[[low high] rest]|]] eqn:E.
    - destruct (negb (Parse.is_nil rest) && strict); [left; reflexivity|].
      right. exists low, high. split; [reflexivity|]. cbn [st_args ok_step].
      eapply pvi_some_nonnil; eauto.
    - left. destruct strict; reflexivity. }
  destruct (is_verb verb "tool").
  { left. destruct args as [|a [|b args]]; try reflexivity. destruct (parse_string a) as [[s tok]|]; reflexivity. }
  left. reflexivity.
Qed.

(* ---------------------------------------------------------------- the run invariant *)

Definition ref_ok (stmts_r : list expr) (r : retract_d) : Prop :=
  (fst (rt_syntax r) < length stmts_r)%nat /\
  exists l, get_line_r stmts_r (rt_syntax r) = Some l /\ l_token l <> [].

(* what holds of a loop state after [i] statements *)
Definition rinv (st : loop_state file) : Prop :=
  NoDup (map rt_syntax (fd_retract (lp_file st))) /\
  Forall (ref_ok (lp_stmts_r st)) (fd_retract (lp_file st)).

Lemma ref_ok_cons x xs r : ref_ok xs r -> ref_ok (x :: xs) r.
Proof.
  intros (Hlt & l & Hl & Ht). split; [cbn; lia|]. exists l. rewrite glr_old by exact Hlt. auto.
Qed.

Lemma NoDup_snoc {A} (l : list A) x : NoDup l -> ~ In x l -> NoDup (l ++ [x]).
Proof.
  intros Hn Hx. induction Hn as [|y l Hy Hn IH]; cbn; [constructor; [auto|constructor]|].
  constructor.
  - rewrite in_app_iff. cbn. intros [H|[H|[]]]; [contradiction|]. subst. apply Hx. left. reflexivity.
  - apply IH. intros H. apply Hx. right. exact H.
Qed.

(* the lines of a block: the state while the loop runs *)
Definition binv (stmts_r : list expr) (i j : nat) (f : file) (acc : list line) : Prop :=
  length acc = j /\
  NoDup (map rt_syntax (fd_retract f)) /\
  Forall (fun r => ref_ok stmts_r r \/
                   exists j', rt_syntax r = (length stmts_r, Some j') /\ (j' < j)%nat /\
                              exists l, nth_line j' (rev acc) = Some l /\ l_token l <> [])
         (fd_retract f).

Lemma nth_line_app_l k : forall a b, (k < length a)%nat -> nth_line k (a ++ b) = nth_line k a.
Proof.
  induction k as [|k IH]; intros [|x a] b H; cbn in *; try lia; auto. apply IH. lia.
Qed.

Lemma nth_line_app_r : forall a x b, nth_line (length a) (a ++ x :: b) = Some x.
Proof. induction a as [|y a IH]; intros x b; cbn; auto. Qed.

Lemma block_lines_binv strict fx blk verb stmts_r :
  forall ls j f errs acc,
  binv stmts_r (length stmts_r) j f acc ->
  let r := block_lines (fun f l ref args => add strict fx f blk l ref verb args)
                       (length stmts_r) j ls f errs acc in
  exists acc', snd r = frev acc' /\ binv stmts_r (length stmts_r) (j + length ls) (fst (fst r)) acc'.
Proof.
  induction ls as [|l ls IH]; intros j f errs acc Hb; cbn [block_lines].
  - exists acc. cbn [snd fst length]. rewrite Nat.add_0_r. auto.
  - cbn zeta in IH.
    set (s := add strict fx f blk l (length stmts_r, Some j) verb (l_token l)).
    assert (Hb' : binv stmts_r (length stmts_r) (S j) (st_file s) (line_set_token l (st_args s) :: acc)).
    { destruct Hb as (Hlen & Hnd & Hall).
      assert (Hold : Forall (fun r => ref_ok stmts_r r \/
                   exists j', rt_syntax r = (length stmts_r, Some j') /\ (j' < S j)%nat /\
                              exists l0, nth_line j' (rev (line_set_token l (st_args s) :: acc)) = Some l0 /\ l_token l0 <> [])
                (fd_retract f)).
      { eapply Forall_impl; [|exact Hall]. intros r [H|(j' & E & Hlt & l0 & Hn & Ht)]; [left; exact H|].
        right. exists j'. split; [exact E|]. split; [lia|]. exists l0. cbn [rev].
        rewrite nth_line_app_l by (rewrite rev_length; lia). auto. }
      split; [cbn; lia|].
      destruct (add_retracts strict fx f blk l (length stmts_r, Some j) verb (l_token l))
        as [E|(low & high & E & Hargs)]; fold s in E; rewrite E.
      - split; [exact Hnd|exact Hold].
      - fold s in Hargs. split.
        + rewrite map_app. cbn [map rt_syntax]. apply NoDup_snoc; [exact Hnd|].
          intros Hin. apply in_map_iff in Hin as (r & Er & Hin).
          rewrite Forall_forall in Hall. destruct (Hall r Hin) as [(Hlt & _)|(j' & E' & Hlt & _)].
          * rewrite Er in Hlt. cbn in Hlt. lia.
          * rewrite Er in E'. injection E' as E'. lia.
        + apply Forall_app. split; [exact Hold|]. constructor; [|constructor].
          right. exists j. split; [reflexivity|]. split; [lia|].
          exists (line_set_token l (st_args s)). cbn [rev]. rewrite <- Hlen, <- (rev_length acc), nth_line_app_r.
          split; [reflexivity|exact Hargs]. }
    destruct (IH (S j) (st_file s) (add_err s (l_start l) errs) _ Hb') as (acc' & E1 & E2).
    exists acc'. split; [exact E1|]. cbn [length]. rewrite <- plus_n_Sm. exact E2.
Qed.

(* one statement preserves the invariant *)
Lemma stmt_step_rinv strict fx (st : loop_state file) x :
  rinv st -> rinv (step_of strict fx (length (lp_stmts_r st)) x st).
Proof.
  intros (Hnd & Hall). unfold step_of, stmt_step.
  assert (Hkeep : forall y, rinv (mkLS (lp_file st) (y :: lp_stmts_r st) (lp_errs_r st) (lp_panic st)) /\
                            forall e p, rinv (mkLS (lp_file st) (y :: lp_stmts_r st) e p)).
  { intros y. split; [|intros e p]; (split; [exact Hnd|]); cbn [lp_file lp_stmts_r];
      (eapply Forall_impl; [|exact Hall]); intros r; apply ref_ok_cons. }
  destruct x as [l|b|c].
  - destruct (l_token l) as [|verb args] eqn:Et; [apply Hkeep|].
    set (s := add strict fx (lp_file st) None l (length (lp_stmts_r st), None) verb args).
    unfold rinv. cbn [lp_file lp_stmts_r].
    assert (Hold : Forall (ref_ok (ELine (line_set_token l (verb :: st_args s)) :: lp_stmts_r st))
                          (fd_retract (lp_file st))).
    { eapply Forall_impl; [|exact Hall]. intros r; apply ref_ok_cons. }
    destruct (add_retracts strict fx (lp_file st) None l (length (lp_stmts_r st), None) verb args)
      as [E|(low & high & E & Hargs)]; fold s in E; rewrite E.
    + split; [exact Hnd|exact Hold].
    + split.
      * rewrite map_app. cbn [map rt_syntax]. apply NoDup_snoc; [exact Hnd|].
        intros Hin. apply in_map_iff in Hin as (r & Er & Hin).
        rewrite Forall_forall in Hall. destruct (Hall r Hin) as (Hlt & _).
        rewrite Er in Hlt. cbn in Hlt. lia.
      * apply Forall_app. split; [exact Hold|]. constructor; [|constructor].
        split; [cbn; lia|]. cbn [rt_syntax]. rewrite glr_new. cbn.
        eexists. split; [reflexivity|]. cbn. discriminate.
  - destruct (b_token b) as [|verb [|v2 r]]; try apply Hkeep.
    destruct (known_mod_block verb); [|apply Hkeep].
    pose proof (block_lines_binv strict fx (Some b) verb (lp_stmts_r st) (b_line b) O (lp_file st)
                  (lp_errs_r st) []) as Hb.
    cbn zeta in Hb.
    destruct (block_lines _ (length (lp_stmts_r st)) O (b_line b) (lp_file st) (lp_errs_r st) [])
      as [[f' errs'] ls'].
    cbn [fst snd] in Hb.
    destruct Hb as (acc' & -> & (Hlen & Hnd' & Hall')).
    { split; [reflexivity|]. split; [exact Hnd|]. eapply Forall_impl; [|exact Hall]. intros r H; left; exact H. }
    unfold rinv. cbn [lp_file lp_stmts_r]. split; [exact Hnd'|].
    eapply Forall_impl; [|exact Hall']. intros r [H|(j' & E & Hlt & l0 & Hn & Ht)]; [apply ref_ok_cons; exact H|].
    split; [rewrite E; cbn; lia|]. rewrite E, glr_new. cbn. rewrite frev_rev. exists l0. auto.
  - apply Hkeep.
Qed.

Lemma stmt_step_length strict fx i x (st : loop_state file) :
  length (lp_stmts_r (step_of strict fx i x st)) = S (length (lp_stmts_r st)).
Proof.
  unfold step_of, stmt_step. destruct x as [l|b|c]; cbn [lp_stmts_r]; auto.
  - destruct (l_token l); reflexivity.
  - destruct (b_token b) as [|verb [|v2 r]]; try reflexivity.
    destruct (known_mod_block verb); [|reflexivity].
    destruct (block_lines _ i O (b_line b) (lp_file st) (lp_errs_r st) []) as [[f' e'] ls']. reflexivity.
Qed.

Lemma stmts_loop_rinv strict fx : forall xs (st : loop_state file),
  rinv st -> rinv (stmts_loop (step_of strict fx) (length (lp_stmts_r st)) xs st).
Proof.
  induction xs as [|x xs IH]; intros st H; cbn [stmts_loop]; [exact H|].
  pose proof (stmt_step_rinv strict fx st x H) as H1.
  pose proof (stmt_step_length strict fx (length (lp_stmts_r st)) x st) as Hl.
  rewrite <- Hl. apply IH. exact H1.
Qed.

(* ---------------------------------------------------------------- fixRetract never faults *)

Lemma frl_panic fx path : forall rs syn acc errs panic,
  NoDup (map rt_syntax rs) ->
  Forall (fun r => exists l, get_line syn (rt_syntax r) = Some l /\ l_token l <> []) rs ->
  snd (fix_retract_loop fx path rs syn acc errs panic) = panic.
Proof.
  induction rs as [|r rs IH]; intros syn acc errs panic Hnd Hall; cbn [fix_retract_loop]; [reflexivity|].
  inversion Hall as [|? ? (l & Hl & Ht) Hall']; subst. inversion Hnd as [|? ? Hnin Hnd']; subst.
  rewrite Hl. destruct (l_token l) as [|t0 targs] eqn:Et; [congruence|].
  set (skip := str_eqb t0 (B "retract")).
  destruct (parse_version_interval fx path (if skip then targs else t0 :: targs)) as [args' res].
  assert (Hrest : Forall (fun r0 => exists l0,
            get_line (set_line syn (rt_syntax r) (line_set_token l (if skip then t0 :: args' else args')))
                     (rt_syntax r0) = Some l0 /\ l_token l0 <> []) rs).
  { rewrite Forall_forall in *. intros r0 Hin. destruct (Hall' r0 Hin) as (l0 & Hl0 & Ht0).
    exists l0. rewrite get_line_set_line_other; [auto|].
    intros E. apply Hnin. rewrite E. apply in_map. exact Hin. }
  destruct res as [[[low high] rest]|]; apply IH; auto.
Qed.

(* Parse and ParseLax never report an internal error, whatever the fixer *)
Theorem file_of_syntax_no_panic strict fx syn :
  Forall tokens_nonempty (f_stmt syn) -> file_of_syntax strict fx syn <> DPanic /\ file_of_syntax strict fx syn <> DFuel.
Proof.
  intros Htok. unfold file_of_syntax. fold (step_of strict fx).
  set (S0 := mkLS (empty_file syn) [] [] false).
  pose proof (stmts_loop_rinv strict fx (f_stmt syn) S0) as Hinv.
  cbn [lp_stmts_r S0 length] in Hinv.
  pose proof (stmts_loop_no_panic (fun f blk l ref verb args => add strict fx f blk l ref verb args)
                known_mod_block strict (f_stmt syn) O S0 Htok eq_refl) as Hp.
  fold (step_of strict fx) in Hp.
  set (st := stmts_loop (step_of strict fx) 0 (f_stmt syn) S0) in *.
  destruct Hinv as (Hnd & Hall). { split; [constructor|constructor]. }
  unfold fix_retract. destruct fx as [g|].
  2:{ rewrite Hp. destruct (lp_errs_r st); split; discriminate. }
  cbn [fd_module fd_retract with_syntax fd_syntax].
  destruct (fd_retract (lp_file st)) as [|r rs] eqn:Er.
  { rewrite Hp. destruct (lp_errs_r st); split; discriminate. }
  assert (Hall2 : Forall (fun r => exists l,
             get_line (mkFile (f_name syn) (f_comments syn) (frev (lp_stmts_r st))) (rt_syntax r) = Some l /\
             l_token l <> []) (r :: rs)).
  { eapply Forall_impl; [|exact Hall]. intros r0 (_ & l & Hl & Ht). exists l.
    rewrite get_line_get_line_s. cbn [f_stmt]. rewrite frev_rev. auto. }
  destruct (Parse.is_nil _).
  - inversion Hall2 as [|? ? (l & Hl & _) _]; subst. rewrite Hl. rewrite Hp. split; discriminate.
  - pose proof (frl_panic (Some g) (match fd_module (lp_file st) with Some m => mv_path (md_mod m) | None => [] end)
                  (r :: rs) (mkFile (f_name syn) (f_comments syn) (frev (lp_stmts_r st))) [] (lp_errs_r st)
                  (lp_panic st) Hnd Hall2) as Hfp.
    destruct (fix_retract_loop _ _ (r :: rs) _ [] (lp_errs_r st) (lp_panic st)) as [[[rs' syn'] errs'] panic'].
    cbn [snd] in Hfp. subst panic'. rewrite Hp. destruct errs'; split; discriminate.
Qed.

Theorem parse_to_file_no_panic strict fx data :
  parse_to_file strict fx data <> DPanic /\ parse_to_file strict fx data <> DFuel.
Proof.
  unfold parse_to_file, lift_parse. pose proof (parse_good_thm data) as Hg.
  destruct (parse data) as [s| | |]; cbn in Hg; try contradiction; [|split; discriminate].
  apply file_of_syntax_no_panic. eapply file_ok_tokens_nonempty; eauto.
Qed.
