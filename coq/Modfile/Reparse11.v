(* Reparse, part 11: validity of the typed entries is a property of the keyed collections
   [abs f], and the documented steps [kstep] (EditSpec.v) preserve it when the arguments of the
   operations are valid items themselves ([strict_args]).  With C08's refinement theorem
   (abs of the final state = krun) this gives the validity of the typed entries after any
   sequence of operations. *)
From Coq Require Import Permutation.
From Verif.Base Require Import Bytes.
From Verif.Modfile Require Import Syntax Lex Parse Print Directives Reparse1 Reparse3 Reparse5 Reparse7 Reparse8
  EditModel EditOps EditSpec.

Section Valid.
(* [P]: the items admitted for the file kind (a valid item of go.mod / of go.work) *)
Variable P : item -> Prop.
Hypothesis P_text : forall it, P (untext it) -> P it.

Record KOk (k : kstate) : Prop := {
  ko_module : Forall (fun p => P (ItModule p [])) (opt_list (k_module k));
  ko_go : Forall (fun v => P (ItGo v)) (opt_list (k_go k));
  ko_tc : Forall (fun v => P (ItToolchain v)) (opt_list (k_toolchain k));
  ko_godebug : Forall (fun g => P (ItGodebug (fst g) (snd g))) (k_godebug k);
  ko_require : Forall (fun r => P (ItRequire (fst (fst r)) (snd (fst r)) (snd r))) (k_require k);
  ko_exclude : Forall (fun x => P (ItExclude (fst x) (snd x))) (k_exclude k);
  ko_replace : Forall (fun r => match r with (a, b, c, d) => P (ItReplace a b c d) end) (k_replace k);
  ko_retract : Forall (fun r => P (ItRetract (fst (fst r)) (snd (fst r)) [])) (k_retract k);
  ko_tool : Forall (fun p => P (ItTool p)) (k_tool k);
  ko_use : Forall (fun u => P (ItUse (fst u))) (k_use k)
}.

(* ---------------------------------------------------------------- from abs f to typed_items f *)

Lemma seg_forall {E} (syn : E -> option lid) live mk (l : list E) :
  Forall (fun e => P (untext (mk e))) (filter live l) -> Forall (fun x => P (snd x)) (flat_map (ti syn live mk) l).
Proof.
  induction l as [|e l IH]; intros H; [constructor|]. cbn [flat_map filter] in *. apply Forall_app.
  unfold ti at 1. destruct (live e).
  - inversion H; subst. split; [|auto]. destruct (syn e); [|constructor]. constructor; [|constructor]. cbn [snd]. auto.
  - split; [|auto]. destruct (syn e); constructor.
Qed.

Lemma filter_true {A} (l : list A) : filter (fun _ => true) l = l.
Proof. induction l as [|x l IH]; [reflexivity|]. cbn. rewrite IH. reflexivity. Qed.

Theorem kok_typed f : KOk (abs f) -> Forall (fun x => P (snd x)) (typed_items f).
Proof.
  intros [K1 K2 K3 K4 K5 K6 K7 K8 K9 K10]. unfold abs in *.
  cbn [k_module k_go k_toolchain k_godebug k_require k_exclude k_replace k_retract k_tool k_use] in *.
  unfold typed_items. repeat (apply Forall_app; split); apply seg_forall; cbn [untext].
  - rewrite filter_true. destruct (f_module f); [|constructor]. cbn in *. constructor; [exact (Forall_inv K1)|constructor].
  - rewrite filter_true. destruct (f_go f); [|constructor]. cbn in *. constructor; [exact (Forall_inv K2)|constructor].
  - rewrite filter_true. destruct (f_toolchain f); [|constructor]. cbn in *. constructor; [exact (Forall_inv K3)|constructor].
  - rewrite Forall_map in K4. exact K4.
  - rewrite Forall_map in K5. exact K5.
  - rewrite Forall_map in K6. exact K6.
  - rewrite Forall_map in K7. exact K7.
  - rewrite Forall_map in K8. exact K8.
  - rewrite Forall_map in K9. exact K9.
  - rewrite Forall_map in K10. exact K10.
Qed.

(* ---------------------------------------------------------------- the keyed steps *)

Definition strict_args (o : op) : Prop :=
  match o with
  | AddModuleStmt p => P (ItModule p [])
  | AddGoStmt v | WAddGoStmt v => P (ItGo v)
  | AddToolchainStmt n | WAddToolchainStmt n => P (ItToolchain n)
  | AddGodebug k v | WAddGodebug k v => P (ItGodebug k v)
  | AddRequire p v => forall ind, P (ItRequire p v ind)
  | AddNewRequire p v ind => P (ItRequire p v ind)
  | SetRequire l | SetRequireSeparateIndirect l =>
      Forall (fun q : req => P (ItRequire (fst (fst q)) (snd (fst q)) (snd q))) l
  | AddExclude p v => P (ItExclude p v)
  | AddReplace a b c d | WAddReplace a b c d => P (ItReplace a b c d)
  | AddRetract lo hi _ => P (ItRetract lo hi [])
  | AddTool p => P (ItTool p)
  | WAddUse p _ | WAddNewUse p _ => P (ItUse p)
  | WSetUse l => Forall (fun q : str * str => P (ItUse (fst q))) l
  | _ => True
  end.

Lemma upsert_forall {A} (Q : A -> Prop) m upd new l :
  Forall Q l -> Q new -> (forall x, Q x -> m x = true -> Q (upd x)) -> Forall Q (upsert m upd new l).
Proof.
  intros Hl Hn Hu. unfold upsert. destruct (existsb m l).
  - induction Hl as [|x l Hx Hl IH]; [constructor|]. cbn [upsert_first]. destruct (m x) eqn:E.
    + constructor; [apply Hu; assumption|]. rewrite Forall_forall in *. intros y Hy. apply filter_In in Hy. apply Hl, Hy.
    + constructor; assumption.
  - apply Forall_app. split; [exact Hl|constructor; [exact Hn|constructor]].
Qed.

Lemma drop_forall {A} (Q : A -> Prop) m l : Forall Q l -> Forall Q (drop m l).
Proof. intros H. unfold drop. rewrite Forall_forall in *. intros y Hy. apply filter_In in Hy. apply H, Hy. Qed.

Lemma keep_first_incl {A} (same : A -> A -> bool) : forall l seen x, In x (keep_first same seen l) -> In x l.
Proof.
  induction l as [|y l IH]; intros seen x H; [exact H|]. cbn [keep_first] in H.
  destruct (existsb (same y) seen); [right; eapply IH; exact H|].
  destruct H as [->|H]; [left; reflexivity|right; eapply IH; exact H].
Qed.

Lemma keep_first_forall {A} (Q : A -> Prop) same seen l : Forall Q l -> Forall Q (keep_first same seen l).
Proof. intros H. rewrite Forall_forall in *. intros x Hx. apply H. eapply keep_first_incl. exact Hx. Qed.

Lemma keep_last_forall {A} (Q : A -> Prop) same l : Forall Q l -> Forall Q (keep_last same l).
Proof.
  intros H. unfold keep_last. rewrite Forall_forall in *. intros x Hx. apply in_rev in Hx.
  apply keep_first_incl in Hx. apply in_rev in Hx. apply H. exact Hx.
Qed.

Lemma kdedup_ok b k : KOk k -> KOk (kdedup b k).
Proof.
  intros [K1 K2 K3 K4 K5 K6 K7 K8 K9 K10]. unfold kdedup. constructor;
    cbn [k_module k_go k_toolchain k_godebug k_require k_exclude k_replace k_retract k_tool k_use]; auto.
  - destruct b; [apply keep_first_forall|]; exact K6.
  - apply keep_last_forall. exact K7.
  - destruct b; [apply keep_first_forall|]; exact K9.
Qed.

Lemma amap_set_in {V} k (v : V) : forall m x, In x (amap_set k v m) -> x = (k, v) \/ In x m.
Proof.
  induction m as [|[k' v'] m IH]; intros x H; cbn [amap_set] in H.
  - destruct H as [<-|[]]. left. reflexivity.
  - destruct (str_cmp k k').
    + destruct H as [<-|H]; [left; reflexivity|right; right; exact H].
    + destruct H as [<-|H]; [left; reflexivity|right; exact H].
    + destruct H as [<-|H]; [right; left; reflexivity|]. destruct (IH x H) as [->|H']; [left; reflexivity|right; right; exact H'].
Qed.

Lemma amap_get_in {V} k (m : list (str * V)) v : amap_get k m = Some v -> exists k', In (k', v) m.
Proof.
  induction m as [|[k' v'] m IH]; cbn [amap_get]; [discriminate|].
  destruct (str_eqb k k'); [intros [= <-]; exists k'; left; reflexivity|].
  intros H. destruct (IH H) as (k2 & Hin). exists k2. right. exact Hin.
Qed.

Lemma fold_amap_vals {A V} (key : A -> str) (val : A -> V) (Q : V -> Prop) : forall (l : list A) m,
  Forall (fun a => Q (val a)) l -> Forall (fun kv => Q (snd kv)) m ->
  Forall (fun kv => Q (snd kv)) (fold_left (fun m a => amap_set (key a) (val a) m) l m).
Proof.
  induction l as [|a l IH]; intros m Hl Hm; [exact Hm|]. cbn [fold_left]. inversion Hl; subst. apply IH; [assumption|].
  rewrite Forall_forall in *. intros x Hx. apply amap_set_in in Hx as [->|Hx]; [assumption|apply Hm; exact Hx].
Qed.

Lemma set_keyed_forall {A} (Q : A -> Prop) (key : A -> str) want l :
  Forall (fun kv => Q (snd kv)) want -> Forall Q (set_keyed key want l).
Proof.
  intros Hw. unfold set_keyed. rewrite Forall_forall in *. intros x Hx. apply in_app_iff in Hx as [Hx|Hx].
  - apply in_flat_map in Hx as (a & _ & Hx). destruct (amap_get (key a) want) eqn:E; [|destruct Hx].
    destruct Hx as [<-|[]]. destruct (amap_get_in _ _ _ E) as (k' & Hin). exact (Hw _ Hin).
  - apply in_flat_map in Hx as (kv & Hkv & Hx). destruct (existsb _ l); [destruct Hx|]. destruct Hx as [<-|[]]. exact (Hw _ Hkv).
Qed.

Ltac kcase K := destruct K as [K1 K2 K3 K4 K5 K6 K7 K8 K9 K10]; constructor;
  cbn [kset_module kset_go kset_toolchain kset_godebug kset_require kset_exclude kset_replace kset_retract kset_tool kset_use
       k_module k_go k_toolchain k_godebug k_require k_exclude k_replace k_retract k_tool k_use opt_list]; auto;
  try (constructor; [assumption|constructor]); try constructor.

Theorem kstep_ok o k : strict_args o -> KOk k -> KOk (fst (kstep o k)).
Proof.
  intros Hs K. destruct o; cbn [kstep strict_args] in *; try exact K.
  - kcase K.
  - destruct (go_version_ok v); [|exact K]. kcase K.
  - kcase K.
  - destruct (toolchain_ok name); [|exact K]. kcase K.
  - kcase K.
  - kcase K. apply upsert_forall; auto. intros g Hg E. cbn [fst snd]. apply str_eqb_eq in E. rewrite E. exact Hs.
  - kcase K. all: try (apply drop_forall; assumption).
  - kcase K. apply upsert_forall; auto. intros q Hq E. cbn [fst snd]. unfold req_path in *. apply str_eqb_eq in E. rewrite E. apply Hs.
  - kcase K. all: try (apply Forall_app; split; [assumption|constructor; [assumption|constructor]]).
  - apply kdedup_ok. kcase K. apply set_keyed_forall. unfold want_reqs.
    apply (fold_amap_vals req_path (fun q : req => q) (fun r => P (ItRequire (fst (fst r)) (snd (fst r)) (snd r)))); [exact Hs|constructor].
  - apply kdedup_ok. kcase K. apply set_keyed_forall. unfold want_reqs.
    apply (fold_amap_vals req_path (fun q : req => q) (fun r => P (ItRequire (fst (fst r)) (snd (fst r)) (snd r)))); [exact Hs|constructor].
  - kcase K. all: try (apply drop_forall; assumption).
  - destruct (negb (check_canonical_version path vers)); [exact K|]. destruct (existsb _ (k_exclude k)); [exact K|].
    kcase K. all: try (apply Forall_app; split; [assumption|constructor; [assumption|constructor]]).
  - kcase K. all: try (apply drop_forall; assumption).
  - kcase K. apply upsert_forall; auto. all: try (intros [[[? ?] ?] ?] _ _; exact Hs).
  - kcase K. all: try (apply drop_forall; assumption).
  - destruct (check_canonical_version _ hi && check_canonical_version _ lo); [|exact K].
    kcase K. all: try (apply Forall_app; split; [assumption|constructor; [assumption|constructor]]).
  - kcase K. all: try (apply drop_forall; assumption).
  - destruct (existsb (str_eqb path) (k_tool k)); [exact K|]. apply kdedup_ok. kcase K.
    all: try (apply Forall_app; split; [assumption|constructor; [assumption|constructor]]).
  - kcase K. all: try (apply drop_forall; assumption).
  - apply kdedup_ok. exact K.
  - destruct (go_version_ok v); [|exact K]. kcase K.
  - kcase K.
  - destruct (toolchain_ok name); [|exact K]. kcase K.
  - kcase K.
  - kcase K. apply upsert_forall; auto. intros g Hg E. cbn [fst snd]. apply str_eqb_eq in E. rewrite E. exact Hs.
  - kcase K. all: try (apply drop_forall; assumption).
  - kcase K. apply upsert_forall; auto.
  - kcase K. all: try (apply Forall_app; split; [assumption|constructor; [assumption|constructor]]).
  - apply kdedup_ok. kcase K. apply set_keyed_forall. unfold want_uses.
    apply (fold_amap_vals fst (fun q : str * str => q) (fun u => P (ItUse (fst u)))); [exact Hs|constructor].
  - kcase K. all: try (apply drop_forall; assumption).
  - kcase K. apply upsert_forall; auto. all: try (intros [[[? ?] ?] ?] _ _; exact Hs).
  - kcase K. all: try (apply drop_forall; assumption).
  - apply kdedup_ok. exact K.
Qed.

Theorem krun_ok : forall ops k errs_rev, Forall strict_args ops -> KOk k -> KOk (fst (krun ops k errs_rev)).
Proof.
  induction ops as [|o ops IH]; intros k e Hs K; [exact K|]. cbn [krun]. inversion Hs; subst.
  pose proof (kstep_ok o k ltac:(assumption) K) as K'. destruct (kstep o k) as [k' b]. apply IH; assumption.
Qed.
End Valid.
