(* Round trip, part 6a: a token lexes again in another context.  Fuel monotonicity of the
   pure lexer, and transport: if the text x was delivered as a token in front of r1, it is
   delivered as the same token in front of r2, provided r2 begins with a byte that ends the
   token ([stop_ok]). *)
From Verif.Base Require Import Bytes Utf8.
From Verif.Gen Require Import GenChars GenUnicode.
From Verif.Modfile Require Import Syntax Lex Parse ProofsLex ProofsLexNoLF RoundRows
  RoundLexPure RoundLexPure2 RoundLexPure3 RoundLexPure4.

(* ---------------------------------------------------------------- more fuel, same result *)

Lemma pstring_mono q : forall f f' s0 s, (f <= f')%nat -> pstring f q s0 s <> PBad ->
  pstring f' q s0 s = pstring f q s0 s.
Proof.
  induction f as [|f IH]; intros f' s0 s Hle; cbn [pstring]; [congruence|].
  destruct f' as [|f']; [lia|]. cbn [pstring].
  destruct (snil s); [reflexivity|]. destruct (ppeek s =? 10); [reflexivity|].
  destruct (prune s) as [[c s1]|]; [|reflexivity].
  destruct (c =? q); [reflexivity|].
  destruct (_ && _); [|intros H; apply IH; [lia|exact H]].
  destruct (snil s1); [reflexivity|]. destruct (ppeek s1 =? 10); [reflexivity|].
  destruct (prune s1) as [[c2 s2]|]; [|reflexivity]. intros H; apply IH; [lia|exact H].
Qed.

Lemma pident_mono : forall f f' s0 s, (f <= f')%nat -> pident f s0 s <> PBad ->
  pident f' s0 s = pident f s0 s.
Proof.
  induction f as [|f IH]; intros f' s0 s Hle; cbn [pident]; [congruence|].
  destruct f' as [|f']; [lia|]. cbn [pident].
  destruct (is_ident (ppeek s)); [|reflexivity].
  destruct (has_prefix s [47; 47]); [reflexivity|]. destruct (has_prefix s [47; 42]); [reflexivity|].
  destruct (prune s) as [[c s1]|]; [|reflexivity]. intros H; apply IH; [lia|exact H].
Qed.

Lemma pcomment_body_mono : forall f f' s, (f <= f')%nat -> pcomment_body f s <> None ->
  pcomment_body f' s = pcomment_body f s.
Proof.
  induction f as [|f IH]; intros f' s Hle; cbn [pcomment_body]; [congruence|].
  destruct f' as [|f']; [lia|]. cbn [pcomment_body].
  destruct s as [|b t]; [reflexivity|].
  destruct (prune (b :: t)) as [[r s1]|]; [|reflexivity].
  destruct (r =? 10); [reflexivity|]. intros H; apply IH; [lia|exact H].
Qed.

Lemma pmain_mono f f' s : (f <= f')%nat -> pmain f s <> PBad -> pmain f' s = pmain f s.
Proof.
  intros Hle. unfold pmain. destruct (snil s); [reflexivity|].
  destruct (is_punct (ppeek s)); [reflexivity|].
  destruct (_ || _).
  { destruct (prune s) as [[c s1]|]; [|reflexivity]. apply pstring_mono. exact Hle. }
  destruct (negb _); [reflexivity|]. apply pident_mono. exact Hle.
Qed.

Lemma pcomment_mono f f' d s : (f <= f')%nat -> pcomment f d s <> PBad -> pcomment f' d s = pcomment f d s.
Proof.
  intros Hle. unfold pcomment. destruct (prune s) as [[r1 s1]|]; [|reflexivity].
  destruct (prune s1) as [[r2 s2]|]; [|reflexivity].
  destruct (pcomment_body f s2) as [o|] eqn:E; [|congruence].
  intros _. rewrite (pcomment_body_mono f f' s2 Hle) by congruence. rewrite E. reflexivity.
Qed.

Lemma ptok0_mono f f' d s : (f <= f')%nat -> ptok0 f d s <> PBad -> ptok0 f' d s = ptok0 f d s.
Proof.
  intros Hle. unfold ptok0. destruct (has_prefix s [47; 47]); [apply pcomment_mono; exact Hle|].
  destruct (has_prefix s [47; 42]); [reflexivity|]. apply pmain_mono. exact Hle.
Qed.

(* ---------------------------------------------------------------- ptoken: white space, then ptok0 *)

Lemma is_sp_ascii c : is_sp c = true -> c < 128.
Proof. unfold is_sp. intros H. repeat (apply orb_true_iff in H as [H|H]); apply Z.eqb_eq in H; lia. Qed.

Lemma ptoken_skip : forall sp f d s, Forall (fun c => is_sp c = true) sp ->
  ptoken (length sp + f) d (sp ++ s) = ptoken f d s.
Proof.
  induction sp as [|c sp IH]; intros f d s Hsp; [reflexivity|].
  inversion Hsp as [|? ? Hc Hsp']; subst. cbn [length app plus ptoken snil].
  unfold ppeek, prune. rewrite decode_ascii_head by (apply is_sp_ascii; exact Hc). cbn [fst skipn].
  unfold is_sp in Hc. rewrite Hc. apply IH. exact Hsp'.
Qed.

(* the first rune of s is not white space the lexer skips *)
Definition starts_tok (s : str) : Prop := is_sp (ppeek s) = false.

Lemma ptoken_start f d s : starts_tok s -> ptoken (S f) d s = ptok0 f d s.
Proof.
  unfold starts_tok, is_sp. intros H. cbn [ptoken]. rewrite H. unfold ptok0.
  destruct s as [|b t]; [reflexivity|]. cbn [snil]. reflexivity.
Qed.

(* ---------------------------------------------------------------- transport *)

Lemma ppeek_transport y r1 r2 r w : y <> [] -> Utf8.decode (y ++ r1) = (r, w) -> (w <= length y)%nat ->
  ascii_head r2 -> ppeek (y ++ r2) = r /\ prune (y ++ r2) = Some (r, skipn w y ++ r2) /\
  ppeek (y ++ r1) = r /\ prune (y ++ r1) = Some (r, skipn w y ++ r1).
Proof.
  intros Hy Hd Hw Ha. pose proof (decode_transport y r1 r2 r w Hy Hd Hw Ha) as Hd2.
  unfold ppeek, prune. destruct y as [|b y']; [congruence|]. cbn [app] in *. rewrite Hd, Hd2. cbn [fst].
  change (b :: y' ++ r2) with ((b :: y') ++ r2). change (b :: y' ++ r1) with ((b :: y') ++ r1).
  rewrite !skipn_app. replace (w - length (b :: y'))%nat with O by lia. cbn [skipn]. auto.
Qed.

Lemma app_same_len {A} (a b c d : list A) : a ++ b = c ++ d -> length b = length d -> a = c /\ b = d.
Proof.
  intros E Hl. assert (length a = length c).
  { apply (f_equal (@length A)) in E. rewrite !app_length in E. lia. }
  revert c E H. induction a as [|x a IH]; intros [|y c] E H; cbn in *; try lia; auto.
  injection E as -> E. destruct (IH c E ltac:(lia)) as (-> & ->). auto.
Qed.

(* what may follow an identifier *)
Definition stop_ident (r2 : str) : Prop :=
  ascii_head r2 /\ is_ident (ppeek r2) = false /\
  match r2 with b :: _ => b <> 47 /\ b <> 42 | [] => True end.

Lemma has_prefix2_transport y r1 r2 p0 p1 : y <> [] ->
  (match r2 with b :: _ => b <> p1 | [] => True end) ->
  has_prefix (y ++ r1) [p0; p1] = false -> has_prefix (y ++ r2) [p0; p1] = false.
Proof.
  intros Hy H2. destruct y as [|a [|b y]]; [congruence| |].
  - intros _. destruct r2 as [|c r2]; cbn [app has_prefix]; [destruct (p0 =? a); reflexivity|].
    apply Z.eqb_neq in H2. rewrite Z.eqb_sym in H2. rewrite H2. destruct (p0 =? a); reflexivity.
  - cbn [app has_prefix]. destruct (p0 =? a); [|reflexivity]. destruct (p1 =? b); [|reflexivity]. cbn.
    destruct (y ++ r1); discriminate.
Qed.

Lemma pident_transport : forall f c y r1 r2 k x rest,
  pident f (c ++ y ++ r1) (y ++ r1) = PTok k x rest -> rest = r1 -> stop_ident r2 ->
  pident f (c ++ y ++ r2) (y ++ r2) = PTok KIdent (c ++ y) r2.
Proof.
  induction f as [|f IH]; intros c y r1 r2 k x rest H Er Hs; cbn [pident] in *; [discriminate|]. subst rest.
  destruct Hs as (Ha & Hni & H47).
  assert (Hstop : y = [] -> pident (S f) (c ++ y ++ r2) (y ++ r2) = PTok KIdent (c ++ y) r2).
  { intros ->. cbn [app pident]. rewrite Hni. rewrite app_nil_r. rewrite ptext_app. reflexivity. }
  assert (Hdone : PTok KIdent (ptext (c ++ y ++ r1) (y ++ r1)) (y ++ r1) = PTok k x r1 ->
                  PTok KIdent (ptext (c ++ y ++ r2) (y ++ r2)) (y ++ r2) = PTok KIdent (c ++ y) r2 /\ y = []).
  { intros [= _ _ E]. assert (y = []) by (apply (f_equal (@length Z)) in E; rewrite app_length in E; destruct y; [reflexivity|cbn in E; lia]).
    subst y. cbn [app]. rewrite app_nil_r, ptext_app. auto. }
  destruct y as [|b y'] eqn:Ey.
  { cbn [app pident]. rewrite Hni. rewrite app_nil_r, ptext_app. reflexivity. }
  rewrite <- Ey in *. assert (Hy : y <> []) by (rewrite Ey; discriminate).
  destruct (Utf8.decode (y ++ r1)) as [r w] eqn:Hd.
  destruct (is_ident (ppeek (y ++ r1))) eqn:Eid.
  2:{ destruct (Hdone H) as (_ & E). congruence. }
  destruct (has_prefix (y ++ r1) [47; 47]) eqn:Ess.
  { destruct (Hdone H) as (_ & E). congruence. }
  destruct (has_prefix (y ++ r1) [47; 42]) eqn:Esb; [discriminate|].
  destruct (prune (y ++ r1)) as [[r' s1]|] eqn:Hp; [|discriminate].
  destruct (prune_split _ _ _ Hp) as (bs & Hbs & Es & Hd' & _). rewrite Hd in Hd'. injection Hd' as <- ->.
  (* the rune read lies inside y *)
  destruct (pident_shape f (c ++ y ++ r1) s1 (c ++ bs) k x r1) as (_ & Ex & c' & Ec'); [rewrite Es, app_assoc; reflexivity|exact H|].
  assert (Es1 : s1 = c' ++ r1).
  { rewrite Ec' in Ex. rewrite Es in Ex. rewrite <- !app_assoc in Ex. apply app_inv_head in Ex. apply app_inv_head in Ex. exact Ex. }
  assert (Hy' : y = bs ++ c').
  { rewrite Es1, app_assoc in Es. apply app_inv_tail in Es. exact Es. }
  assert (Hw : (length bs <= length y)%nat) by (rewrite Hy', app_length; lia).
  destruct (ppeek_transport y r1 r2 r (length bs) Hy Hd Hw Ha) as (P1 & P2 & P3 & P4).
  rewrite P3 in Eid. rewrite P1, Eid.
  rewrite (has_prefix2_transport y r1 r2 47 47 Hy ltac:(destruct r2; [exact I|apply H47]) Ess).
  rewrite (has_prefix2_transport y r1 r2 47 42 Hy ltac:(destruct r2; [exact I|apply H47]) Esb).
  rewrite P2. replace (skipn (length bs) y) with c' by (rewrite Hy', skipn_app, skipn_all, Nat.sub_diag; reflexivity).
  replace (c ++ y ++ r2) with ((c ++ bs) ++ c' ++ r2) by (rewrite Hy', <- !app_assoc; reflexivity).
  replace (c ++ y) with ((c ++ bs) ++ c') by (rewrite Hy', <- !app_assoc; reflexivity).
  apply (IH (c ++ bs) c' r1 r2 k x r1); [|reflexivity|repeat split; assumption].
  rewrite <- H. rewrite Es1, Hy'. rewrite <- !app_assoc. reflexivity.
Qed.

(* strings: nothing is looked at beyond the closing quote *)
Lemma pstring_transport q : forall f c y r1 r2 k x rest,
  pstring f q (c ++ y ++ r1) (y ++ r1) = PTok k x rest -> rest = r1 -> ascii_head r2 ->
  pstring f q (c ++ y ++ r2) (y ++ r2) = PTok KString (c ++ y) r2.
Proof.
  induction f as [|f IH]; intros c y r1 r2 k x rest H Er Ha; cbn [pstring] in *; [discriminate|]. subst rest.
  destruct (snil (y ++ r1)) eqn:Esn; [discriminate|].
  destruct (ppeek (y ++ r1) =? 10) eqn:E10; [discriminate|].
  destruct (prune (y ++ r1)) as [[r s1]|] eqn:Hp; [|discriminate].
  destruct (prune_split _ _ _ Hp) as (bs & Hbs & Es & Hd & _).
  (* a helper: a suffix s' = c' ++ r1 reached after reading inside y *)
  assert (Hin : forall s' pre, c ++ y ++ r1 = pre ++ s' ->
            (exists kk xx, (exists ff, pstring ff q (c ++ y ++ r1) s' = PTok kk xx r1) \/ s' = r1) ->
            exists c', s' = c' ++ r1).
  { intros s' pre Epre (kk & xx & [(ff & Hff)|Hff]).
    - destruct (pstring_shape q ff _ s' pre kk xx r1 Epre Hff) as (_ & Ex & c' & Ec').
      exists c'. rewrite Ec' in Ex. rewrite Epre in Ex. rewrite <- app_assoc in Ex. apply app_inv_head in Ex. exact Ex.
    - exists []. exact Hff. }
  assert (Hy : y <> []).
  { intros ->. cbn [app] in *.
    assert (Hex : exists c', s1 = c' ++ r1).
    { destruct (r =? q).
      - injection H as _ _ E. exists []. exact E.
      - destruct (_ && _).
        + destruct (snil s1); [discriminate|]. destruct (ppeek s1 =? 10); [discriminate|].
          destruct (prune s1) as [[r2' s2]|] eqn:Hp2; [|discriminate].
          destruct (prune_split _ _ _ Hp2) as (bs2 & _ & Es2 & _).
          destruct (Hin s2 (c ++ bs ++ bs2)) as (c' & Ec'); [rewrite Es at 1; rewrite Es2, <- !app_assoc; reflexivity|eauto|].
          exists (bs2 ++ c'). rewrite Es2, Ec', app_assoc. reflexivity.
        + apply (Hin s1 (c ++ bs)); [rewrite Es at 1; rewrite <- app_assoc; reflexivity|eauto]. }
    destruct Hex as (c' & Ec'). rewrite Ec' in Es. apply (f_equal (@length Z)) in Es. rewrite !app_length in Es.
    destruct bs; [congruence|cbn in Es; lia]. }
  assert (Hs1 : exists c', s1 = c' ++ r1).
  { destruct (r =? q).
    - injection H as _ _ E. exists []. exact E.
    - destruct (_ && _).
      + destruct (snil s1); [discriminate|]. destruct (ppeek s1 =? 10); [discriminate|].
        destruct (prune s1) as [[r2' s2]|] eqn:Hp2; [|discriminate].
        destruct (prune_split _ _ _ Hp2) as (bs2 & _ & Es2 & _).
        destruct (Hin s2 (c ++ bs ++ bs2)) as (c' & Ec'); [rewrite Es, Es2, <- !app_assoc; reflexivity|eauto|].
        exists (bs2 ++ c'). rewrite Es2, Ec', app_assoc. reflexivity.
      + apply (Hin s1 (c ++ bs)); [rewrite Es, <- app_assoc; reflexivity|eauto]. }
  destruct Hs1 as (c1 & Ec1).
  assert (Hy1 : y = bs ++ c1) by (rewrite Ec1, app_assoc in Es; apply app_inv_tail in Es; exact Es).
  assert (Hw : (length bs <= length y)%nat) by (rewrite Hy1, app_length; lia).
  destruct (ppeek_transport y r1 r2 r (length bs) Hy Hd Hw Ha) as (P1 & P2 & P3 & P4).
  assert (Esn2 : snil (y ++ r2) = false) by (destruct y; [congruence|reflexivity]).
  rewrite Esn2. rewrite P3 in E10. rewrite P1, E10, P2.
  assert (Esk : skipn (length bs) y = c1).
  { rewrite Hy1, skipn_app, skipn_all, Nat.sub_diag. reflexivity. }
  rewrite Esk.
  destruct (r =? q) eqn:Eq.
  { injection H as _ _ E. rewrite Ec1 in E.
    assert (Hc1e : c1 = []) by (apply (f_equal (@length Z)) in E; rewrite app_length in E; destruct c1; [reflexivity|cbn in E; lia]).
    rewrite Hc1e in Hy1 |- *. cbn [app]. rewrite app_nil_r in Hy1. rewrite Hy1.
    replace (c ++ bs ++ r2) with ((c ++ bs) ++ r2) by (rewrite <- app_assoc; reflexivity). rewrite ptext_app. reflexivity. }
  destruct ((r =? 92) && negb (q =? 96)) eqn:Eesc.
  2:{ replace (c ++ y ++ r2) with ((c ++ bs) ++ c1 ++ r2) by (rewrite Hy1, <- !app_assoc; reflexivity).
      replace (c ++ y) with ((c ++ bs) ++ c1) by (rewrite Hy1, <- !app_assoc; reflexivity).
      apply (IH (c ++ bs) c1 r1 r2 k x r1); [|reflexivity|exact Ha].
      rewrite <- H. rewrite Ec1, Hy1, <- !app_assoc. reflexivity. }
  (* the escaped rune *)
  rewrite Ec1 in H.
  destruct (snil (c1 ++ r1)) eqn:Esn1; [discriminate|].
  destruct (ppeek (c1 ++ r1) =? 10) eqn:E101; [discriminate|].
  destruct (prune (c1 ++ r1)) as [[r' s2]|] eqn:Hp2; [|discriminate].
  destruct (prune_split _ _ _ Hp2) as (bs2 & Hbs2 & Es2 & Hd2 & _).
  destruct (Hin s2 (c ++ bs ++ bs2)) as (c2 & Ec2); [rewrite Hy1, <- !app_assoc, Es2; reflexivity|eauto|].
  assert (Hc1 : c1 = bs2 ++ c2) by (rewrite Ec2, app_assoc in Es2; apply app_inv_tail in Es2; exact Es2).
  assert (Hc1ne : c1 <> []) by (rewrite Hc1; destruct bs2; [congruence|discriminate]).
  assert (Hw2 : (length bs2 <= length c1)%nat) by (rewrite Hc1, app_length; lia).
  destruct (ppeek_transport c1 r1 r2 r' (length bs2) Hc1ne Hd2 Hw2 Ha) as (Q1 & Q2 & Q3 & Q4).
  assert (Esn3 : snil (c1 ++ r2) = false) by (destruct c1; [congruence|reflexivity]).
  rewrite Esn3. rewrite Q3 in E101. rewrite Q1, E101, Q2.
  assert (Esk2 : skipn (length bs2) c1 = c2).
  { rewrite Hc1, skipn_app, skipn_all, Nat.sub_diag. reflexivity. }
  rewrite Esk2.
  replace (c ++ y ++ r2) with ((c ++ bs ++ bs2) ++ c2 ++ r2) by (rewrite Hy1, Hc1, <- !app_assoc; reflexivity).
  replace (c ++ y) with ((c ++ bs ++ bs2) ++ c2) by (rewrite Hy1, Hc1, <- !app_assoc; reflexivity).
  apply (IH (c ++ bs ++ bs2) c2 r1 r2 k x r1); [|reflexivity|exact Ha].
  rewrite <- H. rewrite Ec2, Hy1, Hc1, <- !app_assoc. reflexivity.
Qed.
