(* C08: the bulk setters refine their documented step [kstep] — generic part: the loop "keep the
   first entry of every requested key with the requested value, drop the rest, then add the
   requested keys that were not seen" computes [set_keyed]. *)
From Coq Require Import Permutation.
From Verif.Base Require Import Bytes.
From Verif.Modfile Require Import EditModel EditOps EditSpec EditProofsTyped EditProofsExact.

Section Keyed.
  Context {E V : Type} (key : E -> str) (mk : str -> V -> E).
  Hypothesis key_mk : forall k x, key (mk k x) = k.
  Context (need : list (str * V)).
  Hypothesis need_nodup : NoDup (keys need).

  Definition nin (have : list str) (kv : str * V) : bool := negb (existsb (str_eqb (fst kv)) have).
  Definition mkkv (kv : str * V) : E := mk (fst kv) (snd kv).
  Definition want : list (str * E) := map (fun kv => (fst kv, mkkv kv)) need.

  (* the loop over the existing entries, on keys *)
  Fixpoint kl (have : list str) (L : list E) : list E * list str :=
    match L with
    | [] => ([], have)
    | q :: r =>
        match amap_get (key q) need with
        | Some x =>
            if existsb (str_eqb (key q)) have then kl have r
            else let (o, h) := kl (key q :: have) r in (mk (key q) x :: o, h)
        | None => kl have r
        end
    end.

  Lemma amap_get_want_gen k : forall n : list (str * V),
    amap_get k (map (fun kv => (fst kv, mkkv kv)) n) = option_map (mk k) (amap_get k n).
  Proof.
    induction n as [|[k' x] r IH]; [reflexivity|]. cbn [map amap_get fst snd].
    destruct (str_eqb k k') eqn:Ek; [apply str_eqb_eq in Ek; subst; reflexivity | apply IH].
  Qed.

  Lemma amap_get_want k : amap_get k want = option_map (mk k) (amap_get k need).
  Proof. apply amap_get_want_gen. Qed.

  Definition inW (a : E) : bool := match amap_get (key a) want with Some _ => true | None => false end.
  Definition lookW (a : E) : list E := match amap_get (key a) want with Some a' => [a'] | None => [] end.
  Definition samek (a b : E) : bool := str_eqb (key a) (key b).

  Lemma existsb_samek x seen : existsb (samek x) seen = existsb (str_eqb (key x)) (map key seen).
  Proof. induction seen as [|y r IH]; [reflexivity|]. cbn. rewrite IH. reflexivity. Qed.

  Lemma kl_fst L : forall seen,
    fst (kl (map key seen) L) = flat_map lookW (keep_first samek seen (filter inW L)).
  Proof.
    induction L as [|q r IH]; intros seen; [reflexivity|]. cbn [kl filter].
    unfold inW at 1. rewrite amap_get_want.
    destruct (amap_get (key q) need) as [x|] eqn:Eg; cbn [option_map].
    - cbn [keep_first]. rewrite existsb_samek.
      destruct (existsb (str_eqb (key q)) (map key seen)); [apply IH|].
      specialize (IH (q :: seen)). cbn [map] in IH.
      destruct (kl (key q :: map key seen) r) as [o h]. cbn [fst] in *. cbn [flat_map]. rewrite IH.
      unfold lookW at 2. rewrite amap_get_want, Eg. reflexivity.
    - apply IH.
  Qed.

  (* the keys seen at the end: those given and those of L that are requested *)
  Lemma kl_snd L : forall have k,
    existsb (str_eqb k) (snd (kl have L)) =
    existsb (str_eqb k) have || (existsb (fun a => str_eqb (key a) k) L && match amap_get k need with Some _ => true | None => false end).
  Proof.
    induction L as [|q r IH]; intros have k; cbn [kl existsb].
    - cbn. rewrite Bool.orb_false_r. reflexivity.
    - destruct (amap_get (key q) need) as [x|] eqn:Eg.
      + destruct (existsb (str_eqb (key q)) have) eqn:Eh.
        * rewrite IH. destruct (str_eqb (key q) k) eqn:Ek; cbn [orb]; [|reflexivity].
          apply str_eqb_eq in Ek. subst k. rewrite Eh, Eg. reflexivity.
        * specialize (IH (key q :: have) k). destruct (kl (key q :: have) r) as [o h]. cbn [snd] in *.
          rewrite IH. cbn [existsb]. rewrite (str_eqb_sym k (key q)).
          destruct (str_eqb (key q) k) eqn:Ek; cbn [orb andb].
          -- apply str_eqb_eq in Ek. subst k. rewrite Eg. rewrite Bool.orb_true_r. reflexivity.
          -- rewrite Bool.orb_comm. cbn [orb]. rewrite Bool.orb_comm. reflexivity.
      + rewrite IH. destruct (str_eqb (key q) k) eqn:Ek; cbn [orb]; [|reflexivity].
        apply str_eqb_eq in Ek. subst k. rewrite Eg. cbn. rewrite Bool.andb_false_r. reflexivity.
  Qed.

  Theorem kl_set_keyed L :
    fst (kl [] L) ++ map mkkv (filter (nin (snd (kl [] L))) need) = set_keyed key want L.
  Proof.
    unfold set_keyed. f_equal.
    - exact (kl_fst L []).
    - unfold want. rewrite flat_map_concat_map, map_map, <- flat_map_concat_map.
      assert (Hin : forall kv, In kv need -> amap_get (fst kv) need = Some (snd kv)).
      { clear - need_nodup. induction need as [|[k x] r IH]; intros kv Hin; [destruct Hin|].
        cbn [keys map fst] in need_nodup. inversion need_nodup as [|? ? Hni Hr]; subst.
        destruct Hin as [<-|Hin]; cbn [amap_get fst snd]; [rewrite str_eqb_refl; reflexivity|].
        destruct (str_eqb (fst kv) k) eqn:Ek; [|apply IH; assumption].
        apply str_eqb_eq in Ek. exfalso. apply Hni. rewrite <- Ek. apply in_map. exact Hin. }
      clear need_nodup.
      assert (G : forall N, (forall kv, In kv N -> In kv need) ->
                map mkkv (filter (nin (snd (kl [] L))) N)
                = flat_map (fun kv => if existsb (fun a => str_eqb (key a) (fst (fst kv, mkkv kv))) L then [] else [snd (fst kv, mkkv kv)]) N).
      { induction N as [|kv r IH]; intros Hsub; [reflexivity|]. cbn [filter flat_map fst snd].
        unfold nin at 1. rewrite kl_snd. cbn [existsb orb].
        rewrite (Hin kv (Hsub kv (or_introl eq_refl))), Bool.andb_true_r.
        destruct (existsb (fun a => str_eqb (key a) (fst kv)) L); cbn [negb app map];
          rewrite IH by (intros x Hx; apply Hsub; right; exact Hx); reflexivity. }
      apply G. auto.
  Qed.
End Keyed.
