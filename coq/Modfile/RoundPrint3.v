(* Round trip, part 9c: statements and Format: format (efile a) = render (file_pls a). *)
From Verif.Base Require Import Bytes Utf8.
From Verif.Modfile Require Import Syntax Lex Parse Print ProofsLex RoundRows RoundParse
  RoundLexPure RoundLexPure3 RoundLexPure4 RoundLexB2 RoundTrim RoundTree RoundTree2 RoundTree3 RoundPrint RoundPrint2.

Lemma last_comment cs : Forall comment_text cs -> cs <> [] -> last cs [] <> [].
Proof.
  intros H Hne. destruct (exists_last Hne) as (pre & c & ->). rewrite last_last.
  apply Forall_app in H as (_ & H). apply comment_text_nonnil. exact (Forall_inv H).
Qed.

Lemma print_stmt_St x p t : St p t 0 -> tnl t -> astmt_ok x ->
  St (before_loop (expr_after (estmt x))
        match estmt x with
        | ECommentBlock _ => print_expr (estmt x) p
        | _ => newline (print_expr (estmt x) p)
        end) (t ++ render (stmt_pls x)) 0 /\ tline1 (t ++ render (stmt_pls x)).
Proof.
  intros Hs Ht Hx. destruct x as [l|b|cs]; cbn [estmt expr_after print_expr].
  - destruct Hx as (Hb & (t0 & more & Et & _) & Hlt & Hsf). cbn [eline l_comments cm_after before_loop].
    destruct (coms_no_blank _ t Hb) as (Hn1 & Hb1).
    pose proof (print_line_mid false l p t 0 Hs Ht (Forall_comment_bcom _ Hb) Hn1 Hb1) as Hm.
    assert (Hv : vis_end (toks_bytes false (al_toks l))) by (apply toks_bytes_end; [rewrite Et; discriminate|exact Hlt]).
    pose proof (newline_mid _ _ _ _ _ _ Hm Hv Hsf) as H.
    assert (E : t ++ render (stmt_pls (ALine l)) =
                (t ++ bcoms_bytes 0 (al_before l)) ++ repeat 9 0 ++ toks_bytes false (al_toks l) ++ sfx_bytes (tcoms (al_suffix l)) ++ [10]).
    { cbn [stmt_pls]. unfold render. rewrite flat_map_app, render_coms, (bcoms_bytes_coms 0 _ Hb).
      cbn [flat_map render_pl render_row repeat app]. rewrite app_nil_r, <- ?app_assoc. reflexivity. }
    rewrite E. split; [exact H|]. apply tline1_app, tline1_line; assumption.
  - destruct (print_block_mid b p t Hs Ht Hx) as (t' & Hm & E). cbn [eblock b_comments cm_after before_loop].
    assert (Hv : vis_end [41]) by (exists [], 41; split; [reflexivity|unfold vis; lia]).
    destruct Hx as (_ & _ & _ & _ & _ & _ & Hsx).
    pose proof (newline_mid _ _ _ _ _ _ Hm Hv Hsx) as H. fold (closed t' 0 [41] (ab_rsfx b ++ ab_sfx b)) in H.
    rewrite E in H. split; [exact H|]. rewrite <- E. apply tline1_app, tline1_line; assumption.
  - destruct Hx as (Hne & Hc). cbn [cb_comments cm_after before_loop]. unfold print_comment_block. cbn [cb_comments cm_before cm_suffix].
    destruct (coms_no_blank _ t Hc) as (Hn1 & Hb1).
    destruct (print_before_St2 _ p t 0 Hs Ht (Forall_comment_bcom _ Hc) Hn1 Hb1) as ((Ho & Hcm & Hm) & Hl).
    assert (E : t ++ render (stmt_pls (ACB cs)) = t ++ bcoms_bytes 0 cs).
    { cbn [stmt_pls]. unfold render. rewrite render_coms, (bcoms_bytes_coms 0 _ Hc). reflexivity. }
    rewrite E. split.
    + unfold St, queue_suffix. cbn [ps_out ps_comment ps_margin]. rewrite Ho, Hcm, Hm. auto.
    + apply (Hl Hne). apply last_comment; assumption.
Qed.

Lemma print_stmts_St : forall a p t, St p t 0 -> tnl t -> Forall astmt_ok a ->
  St (print_stmts (map estmt a) p) (t ++ render (file_pls a)) 0 /\ (a <> [] -> tline1 (t ++ render (file_pls a))).
Proof.
  induction a as [|x r IH]; intros p t Hs Ht Ha.
  - cbn. rewrite app_nil_r. split; [exact Hs|congruence].
  - inversion Ha as [|? ? Hx Hr]; subst. cbn [map print_stmts].
    destruct (print_stmt_St x p t Hs Ht Hx) as (H2 & Hl2).
    destruct r as [|y r'].
    + cbn [map print_stmts file_pls]. split; [exact H2|intros _; exact Hl2].
    + cbn [map]. change (estmt y :: map estmt r') with (map estmt (y :: r')).
      pose proof (newline_blank _ _ _ H2 Hl2) as H3.
      destruct (IH _ _ H3 ltac:(right; eexists; reflexivity) Hr) as (H4 & Hl4).
      assert (E : t ++ render (file_pls (x :: y :: r')) = ((t ++ render (stmt_pls x)) ++ [10]) ++ render (file_pls (y :: r'))).
      { cbn [file_pls]. unfold render. rewrite flat_map_app. cbn [flat_map render_pl render_row]. rewrite <- ?app_assoc. reflexivity. }
      rewrite E. split; [exact H4|]. intros _. apply Hl4. discriminate.
Qed.

Theorem format_efile a : Forall astmt_ok a -> format (efile a) = render (file_pls a).
Proof.
  intros Ha. unfold format, print_file, efile. cbn [f_stmt f_comments no_comments cm_before before_loop].
  assert (Hs : St (mkP [] [] 0) [] 0) by (unfold St; cbn; auto).
  destruct (print_stmts_St a _ [] Hs (or_introl eq_refl) Ha) as ((Ho & _ & _) & Hl). cbn [app repeat] in Ho, Hl.
  rewrite Ho, frev_rev. destruct a as [|x r].
  - reflexivity.
  - destruct (Hl ltac:(discriminate)) as (t' & b & E & (_ & _ & Hb)). rewrite E, rev_app_distr. cbn [rev app].
    assert (Hst : forall o, strip_trailing (10 :: b :: o) = 10 :: b :: o).
    { intros o. cbn [strip_trailing]. destruct (Z.eq_dec b 10); [congruence|]. destruct b as [|pb|nb]; try reflexivity.
      repeat (destruct pb as [pb|pb|]; try reflexivity). congruence. }
    rewrite Hst. change (10 :: b :: rev t') with (rev [b; 10] ++ rev t'). rewrite <- rev_app_distr, rev_involutive. reflexivity.
Qed.
