(* Soundness of the executable mirrors: [coherentb] (EditSpec.v, evaluated by the correspondence
   run on every case) implies [Coherent]; executable mirrors of [BlockIdsOk] and [HeapSettable]. *)
From Coq Require Import Permutation.
From Verif.Base Require Import Bytes.
From Verif.Modfile Require Import EditModel EditOps EditSpec EditProofsTyped EditProofsHeap EditProofsCoherent
  EditProofsCleanup EditProofsAddLine EditProofsAdd EditProofsUpsert EditProofsSort EditProofsSeq EditProofsExact
  EditProofsBlocks EditProofsSetRequire EditProofsComments EditProofs2Blocks EditProofs2Settable EditProofs2Sri EditProofs2Inv.

Lemma nodupb_sound l : nodupb l = true -> NoDup l.
Proof.
  induction l as [|x r IH]; cbn; intros H; [constructor|].
  apply Bool.andb_true_iff in H. destruct H as [H1 H2]. constructor; [|auto].
  intros Hin. apply negb_true_false in H1.
  assert (existsb (Nat.eqb x) r = true) by (apply existsb_exists; exists x; split; [exact Hin | apply Nat.eqb_refl]).
  congruence.
Qed.

Lemma strs_eqb_eq a b : strs_eqb a b = true -> a = b.
Proof.
  revert b. induction a as [|x a IH]; intros [|y b]; cbn; try congruence.
  intros H. apply Bool.andb_true_iff in H. destruct H as [H1 H2]. apply str_eqb_eq in H1. subst. f_equal. auto.
Qed.

Lemma dview_eqb_eq a b : dview_eqb a b = true -> a = b.
Proof.
  destruct a as [[i v] t], b as [[j w] u]. cbn. intros H.
  apply Bool.andb_true_iff in H. destruct H as [H H3]. apply Bool.andb_true_iff in H. destruct H as [H1 H2].
  apply Nat.eqb_eq in H1. apply str_eqb_eq in H2. apply strs_eqb_eq in H3. subst. reflexivity.
Qed.

Lemma syntax_okb_sound s : syntax_okb s = true -> SyntaxOk s.
Proof.
  unfold syntax_okb. intros H.
  apply Bool.andb_true_iff in H. destruct H as [H H3]. apply Bool.andb_true_iff in H. destruct H as [H1 H2].
  split.
  - apply nodupb_sound. exact H1.
  - apply Forall_forall. intros x Hx. rewrite forallb_forall in H2. specialize (H2 x Hx).
    apply Bool.andb_true_iff in H2. destruct H2 as [H2 C]. apply Bool.andb_true_iff in H2. destruct H2 as [A Bq].
    destruct x as [j w]. cbn [fst snd] in *.
    split; [apply Nat.ltb_lt; exact A | split; [apply Bool.eqb_prop; exact Bq|]].
    destruct w; [exact I|]. intros E. apply negb_true_false in C. apply Nat.eqb_neq in C. apply C. exact E.
  - apply Forall_forall. intros st Hst. rewrite forallb_forall in H3. specialize (H3 st Hst).
    destruct st as [i|b|c]; cbn; auto.
    apply Bool.andb_true_iff in H3. destruct H3 as [A Bq]. split; [apply Nat.eqb_eq; exact A|].
    destruct (c_suffix (hb_com b)); [reflexivity | discriminate].
Qed.

Lemma entries_okb_sound f : entries_okb f = true -> EntriesOk f.
Proof.
  unfold entries_okb, EntriesOk. intros H. apply Forall_forall. intros e He.
  rewrite forallb_forall in H. specialize (H e He). unfold ent_okb in H. unfold ent_ok.
  destruct (en_syn e), (en_live e); cbn in *; congruence.
Qed.

Lemma nodup_of_ids (l : list dview) : NoDup (map vid l) -> NoDup l.
Proof. apply NoDup_map_inv. Qed.

Theorem coherentb_sound f : coherentb f = true -> Coherent f.
Proof.
  unfold coherentb. intros H.
  apply Bool.andb_true_iff in H. destruct H as [H H3]. apply Bool.andb_true_iff in H. destruct H as [H1 H2].
  pose proof (syntax_okb_sound _ H1) as Hs.
  split; [exact Hs | apply entries_okb_sound; exact H2|].
  unfold views_okb in H3.
  apply Bool.andb_true_iff in H3. destruct H3 as [H3 C]. apply Bool.andb_true_iff in H3. destruct H3 as [A Bq].
  apply NoDup_Permutation.
  - apply nodup_of_ids. apply tree_view_ids_nodup. apply Hs.
  - apply nodup_of_ids. apply nodupb_sound. exact A.
  - intros x. split; intros Hx.
    + rewrite forallb_forall in Bq. specialize (Bq x Hx). apply existsb_exists in Bq. destruct Bq as [y [Hy E]].
      apply dview_eqb_eq in E. subst. exact Hy.
    + rewrite forallb_forall in C. specialize (C x Hx). apply existsb_exists in C. destruct C as [y [Hy E]].
      apply dview_eqb_eq in E. subst. exact Hy.
Qed.

(* ---------------------------------------------------------------- the two side conditions *)
Definition block_ids_okb (s : syntax) : bool :=
  nodupb (block_ids (stmts s)) && forallb (fun i => (i <? nbid s)%nat) (block_ids (stmts s)).

Lemma block_ids_okb_sound s : block_ids_okb s = true -> BlockIdsOk s.
Proof.
  unfold block_ids_okb. intros H. apply Bool.andb_true_iff in H. destruct H as [H1 H2]. split.
  - apply nodupb_sound. exact H1.
  - apply Forall_forall. intros x Hx. rewrite forallb_forall in H2. apply Nat.ltb_lt. auto.
Qed.

Definition suf_settableb (sfx : list str) : bool :=
  Bool.eqb (is_ind_suf (set_ind_suf sfx true)) true && Bool.eqb (is_ind_suf (set_ind_suf sfx false)) false.

Definition heap_settableb (s : syntax) : bool := forallb (fun l => suf_settableb (suf l)) (heap s).

Lemma heap_settableb_sound s : heap_settableb s = true -> HeapSettable s.
Proof.
  unfold heap_settableb. intros H i.
  destruct (Nat.lt_ge_cases i (heap_len s)) as [Hl|Hl].
  - rewrite forallb_forall in H. specialize (H (sget s i) (nth_In _ _ Hl)).
    apply Bool.andb_true_iff in H. destruct H as [A Bq]. apply Bool.eqb_prop in A, Bq. intros [|]; assumption.
  - rewrite sget_overflow by exact Hl. apply suf_settable_nil.
Qed.

Definition edit_invb (f : file) : bool := coherentb f && block_ids_okb (fsyn f) && heap_settableb (fsyn f).

Theorem edit_invb_sound f : edit_invb f = true -> EditInv f.
Proof.
  unfold edit_invb. intros H.
  apply Bool.andb_true_iff in H. destruct H as [H H3]. apply Bool.andb_true_iff in H. destruct H as [H1 H2].
  split; [apply coherentb_sound | apply block_ids_okb_sound | apply heap_settableb_sound]; assumption.
Qed.

(* the invariant is satisfiable, and the file of finding K9 is exactly what it excludes *)
Lemma edit_inv_example : EditInv example_dup_file.
Proof. apply edit_invb_sound. vm_compute. reflexivity. Qed.

Lemma corner_file_not_settable : heap_settableb (fsyn corner_file) = false /\ coherentb corner_file = true.
Proof. split; vm_compute; reflexivity. Qed.
