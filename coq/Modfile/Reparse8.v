(* Reparse, part 8: the values of the typed items are the keyed collections [abs f] of the edit
   model (EditSpec.v), and the comment-derived texts do not matter for anything but the two
   text values (Module.Deprecated, Retract.Rationale). *)
From Coq Require Import Permutation.
From Verif.Base Require Import Bytes.
From Verif.Modfile Require Import Syntax Lex Parse Print Directives Reparse1 Reparse3 Reparse5 Reparse7
  EditModel EditOps EditSpec.

(* the item without its text *)
Definition untext (it : item) : item :=
  match it with
  | ItModule p _ => ItModule p []
  | ItRetract lo hi _ => ItRetract lo hi []
  | _ => it
  end.

Definition it_modp it := match it with ItModule p _ => [p] | _ => [] end.
Definition it_retr it := match it with ItRetract lo hi _ => [(lo, hi)] | _ => [] end.

Lemma untext_retext blk l it : untext (retext blk l it) = untext it.
Proof. destruct it; reflexivity. Qed.

Lemma untext_zip s : forall ctxs tis, length ctxs = length tis ->
  map untext (zip_items s ctxs tis) = map untext (map snd tis).
Proof.
  unfold zip_items. induction ctxs as [|c ctxs IH]; intros [|t tis] H; try discriminate; [reflexivity|].
  cbn [combine map]. unfold ctx_item at 1. rewrite untext_retext. cbn [fst snd]. f_equal. apply IH. cbn in H. lia.
Qed.

(* projections that do not see the text *)
Lemma flat_map_untext {B} (g : item -> list B) its : (forall it, g (untext it) = g it) ->
  flat_map g (map untext its) = flat_map g its.
Proof. intros H. induction its as [|it its IH]; [reflexivity|]. cbn [map flat_map]. rewrite H, IH. reflexivity. Qed.

Lemma modp_of_module its : map (fun x => fst (fst x)) (flat_map it_module its) = flat_map it_modp its.
Proof. induction its as [|it its IH]; [reflexivity|]. cbn [flat_map]. rewrite map_app, IH. destruct it; reflexivity. Qed.

Lemma retr_of_retract its : map (fun x => (fst (fst x), snd (fst x))) (flat_map it_retract its) = flat_map it_retr its.
Proof. induction its as [|it its IH]; [reflexivity|]. cbn [flat_map]. rewrite map_app, IH. destruct it; reflexivity. Qed.

(* ---------------------------------------------------------------- the segments of typed_items *)

Lemma seg_val {E B} (g : item -> list B) (syn : E -> option lid) live mk (l : list E) :
  flat_map g (map snd (flat_map (ti syn live mk) l)) =
  flat_map (fun e => match syn e with Some _ => if live e then g (mk e) else [] | None => [] end) l.
Proof.
  induction l as [|e l IH]; [reflexivity|]. cbn [flat_map]. rewrite map_app, flat_map_app, IH. f_equal.
  unfold ti. destruct (syn e); [|reflexivity]. destruct (live e); [|reflexivity]. cbn. apply app_nil_r.
Qed.

Lemma seg_other {E B} (g : item -> list B) (syn : E -> option lid) live mk (l : list E) :
  (forall e, g (mk e) = []) -> flat_map g (map snd (flat_map (ti syn live mk) l)) = [].
Proof.
  intros H. rewrite seg_val. induction l as [|e l IH]; [reflexivity|]. cbn [flat_map]. rewrite IH.
  destruct (syn e); [|reflexivity]. destruct (live e); [|reflexivity]. rewrite H. reflexivity.
Qed.

Lemma seg_same {E B} (g : item -> list B) (syn : E -> option lid) live mk (proj : E -> B) (l : list E) :
  (forall e, g (mk e) = [proj e]) -> Forall (fun e => live e = true -> syn e <> None) l ->
  flat_map g (map snd (flat_map (ti syn live mk) l)) = map proj (filter live l).
Proof.
  intros H Hl. rewrite seg_val. induction Hl as [|e l He Hl IH]; [reflexivity|]. cbn [flat_map filter]. rewrite IH.
  destruct (live e) eqn:El.
  - destruct (syn e); [|exfalso; apply (He eq_refl); reflexivity]. rewrite H. reflexivity.
  - destruct (syn e); reflexivity.
Qed.

(* a live entry has a line *)
Record LiveSyn (f : file) : Prop := {
  ls_module : Forall (fun m => true = true -> mo_syn m <> None) (opt_list (f_module f));
  ls_go : Forall (fun g => true = true -> go_syn g <> None) (opt_list (f_go f));
  ls_tc : Forall (fun g => true = true -> go_syn g <> None) (opt_list (f_toolchain f));
  ls_godebug : Forall (fun g => nonempty (gd_key g) = true -> gd_syn g <> None) (f_godebug f);
  ls_require : Forall (fun r => nonempty (rq_path r) = true -> rq_syn r <> None) (f_require f);
  ls_exclude : Forall (fun x => nonempty (ex_path x) = true -> ex_syn x <> None) (f_exclude f);
  ls_replace : Forall (fun r => nonempty (rp_op r) = true -> rp_syn r <> None) (f_replace f);
  ls_retract : Forall (fun r => nonempty (rt_lo r) || nonempty (rt_hi r) = true -> rt_syn r <> None) (f_retract f);
  ls_tool : Forall (fun t => nonempty (tl_path t) = true -> tl_syn t <> None) (f_tool f);
  ls_use : Forall (fun u => nonempty (us_path u) = true -> us_syn u <> None) (f_use f)
}.

Lemma ent_ok_live {E} (mk : E -> ent) (syn : E -> option lid) (live : E -> bool) (l : list E) :
  (forall e, en_syn (mk e) = syn e /\ en_live (mk e) = live e) ->
  Forall ent_ok (map mk l) -> Forall (fun e => live e = true -> syn e <> None) l.
Proof.
  intros H Hf. rewrite Forall_map in Hf. eapply Forall_impl; [|exact Hf]. intros e He Hl.
  unfold ent_ok in He. destruct (H e) as (A & B). rewrite B, Hl, A in He. exact He.
Qed.

Lemma entries_live f : EntriesOk f -> LiveSyn f.
Proof.
  unfold EntriesOk, entries. intros H.
  repeat (apply Forall_app in H; destruct H as (? & H)).
  constructor; eapply ent_ok_live; try eassumption; intros e; split; reflexivity.
Qed.

(* ---------------------------------------------------------------- the values of the typed items *)

Ltac segs :=
  unfold typed_items; rewrite !map_app, !flat_map_app;
  repeat match goal with
  | |- context [flat_map ?g (map snd (flat_map (ti ?syn ?live ?mk) ?l))] =>
      first [ rewrite (seg_other g syn live mk l (fun _ => eq_refl))
            | let k := fresh "keep" in set (k := flat_map g (map snd (flat_map (ti syn live mk) l))) ]
  end;
  cbn [app]; rewrite ?app_nil_r;
  repeat match goal with k := _ |- _ => subst k end.

Ltac same proj H := rewrite (seg_same _ _ _ _ proj); [|intros; reflexivity|exact H].

Section Typed.
Variable f : file.
Hypothesis Hl : LiveSyn f.

Lemma typed_modp : flat_map it_modp (map snd (typed_items f)) = opt_list (k_module (abs f)).
Proof.
  segs. same mo_path (ls_module f Hl).
  unfold abs. cbn [k_module]. destruct (f_module f); reflexivity.
Qed.

Lemma typed_module : flat_map it_module (map snd (typed_items f)) =
  map (fun m => (mo_path m, @nil Z, mo_depr m)) (opt_list (f_module f)).
Proof.
  segs. same (fun m => (mo_path m, @nil Z, mo_depr m)) (ls_module f Hl).
  destruct (f_module f); reflexivity.
Qed.

Lemma typed_go : flat_map it_go (map snd (typed_items f)) = opt_list (k_go (abs f)).
Proof.
  segs. same go_vers (ls_go f Hl).
  unfold abs. cbn [k_go]. destruct (f_go f); reflexivity.
Qed.

Lemma typed_tc : flat_map it_tc (map snd (typed_items f)) = opt_list (k_toolchain (abs f)).
Proof.
  segs. same go_vers (ls_tc f Hl).
  unfold abs. cbn [k_toolchain]. destruct (f_toolchain f); reflexivity.
Qed.

Lemma typed_godebug : flat_map it_godebug (map snd (typed_items f)) = k_godebug (abs f).
Proof. segs. same (fun g => (gd_key g, gd_val g)) (ls_godebug f Hl). reflexivity. Qed.

Lemma typed_require : flat_map it_require (map snd (typed_items f)) = k_require (abs f).
Proof. segs. same (fun r => (rq_path r, rq_vers r, rq_ind r)) (ls_require f Hl). reflexivity. Qed.

Lemma typed_exclude : flat_map it_exclude (map snd (typed_items f)) = k_exclude (abs f).
Proof. segs. same (fun x => (ex_path x, ex_vers x)) (ls_exclude f Hl). reflexivity. Qed.

Lemma typed_replace : flat_map it_replace (map snd (typed_items f)) = k_replace (abs f).
Proof. segs. same (fun r => (rp_op r, rp_ov r, rp_np r, rp_nv r)) (ls_replace f Hl). reflexivity. Qed.

Lemma typed_retract : flat_map it_retract (map snd (typed_items f)) = k_retract (abs f).
Proof. segs. same (fun r => (rt_lo r, rt_hi r, rt_rat r)) (ls_retract f Hl). reflexivity. Qed.

Lemma typed_retr : flat_map it_retr (map snd (typed_items f)) = map (fun x => (fst (fst x), snd (fst x))) (k_retract (abs f)).
Proof. rewrite <- typed_retract. symmetry. apply retr_of_retract. Qed.

Lemma typed_tool : flat_map it_tool (map snd (typed_items f)) = k_tool (abs f).
Proof. segs. same tl_path (ls_tool f Hl). reflexivity. Qed.

Lemma typed_use : flat_map it_use (map snd (typed_items f)) = map fst (k_use (abs f)).
Proof.
  segs. same us_path (ls_use f Hl).
  unfold abs. cbn [k_use]. rewrite map_map. reflexivity.
Qed.
End Typed.
