(* C16, separate_indirect_blocks: when the only require statement of the file is one line or
   block without comments of its own (oneFlatUncommentedBlock in rule.go), after
   SetRequireSeparateIndirect (and after Cleanup) no require block holds both a direct and an
   indirect requirement. *)
From Coq Require Import Permutation.
From Verif.Base Require Import Bytes.
From Verif.Modfile Require Import EditModel EditOps EditSpec EditProofsTyped EditProofsHeap EditProofsCoherent
  EditProofsCleanup EditProofsAddLine EditProofsAdd EditProofsUpsert EditProofsSort EditProofsSeq EditProofsExact
  EditProofsBlocks EditProofsSetRequire EditProofsLines EditProofsComments
  EditProofs2Blocks EditProofs2Settable EditProofs2Sri EditProofs2Inv.

Arguments hget : simpl never.
Arguments hset : simpl never.

(* ---------------------------------------------------------------- the two target blocks are different blocks *)
Definition block_at (L : list stmt) (k : nat) (bid : nat) : Prop :=
  exists b, nth_error L k = Some (SBlock b) /\ hb_id b = bid.

Lemma block_at_distinct L k1 k2 x1 x2 :
  NoDup (block_ids L) -> block_at L k1 x1 -> block_at L k2 x2 -> k1 <> k2 -> x1 <> x2.
Proof.
  revert k1 k2. induction L as [|st r IH]; intros k1 k2 Hnd [b1 [H1 E1]] [b2 [H2 E2]] Hk.
  - destruct k1; discriminate.
  - rewrite block_ids_cons in Hnd.
    destruct k1 as [|k1], k2 as [|k2]; cbn in H1, H2.
    + congruence.
    + injection H1 as ->. cbn [stmt_bids app] in Hnd. inversion Hnd as [|? ? Hni _]; subst.
      intros E. apply Hni. rewrite E. apply nth_error_In in H2. apply (in_block_ids _ _ H2).
    + injection H2 as ->. cbn [stmt_bids app] in Hnd. inversion Hnd as [|? ? Hni _]; subst.
      intros E. apply Hni. rewrite <- E. apply nth_error_In in H1. apply (in_block_ids _ _ H1).
    + apply (IH k1 k2); [exact (NoDup_app_r _ _ Hnd) | exists b1; auto | exists b2; auto | congruence].
Qed.

Lemma nth_error_insert {A} (L : list A) k x :
  let p := Nat.min k (length L) in
  nth_error (firstn k L ++ x :: skipn k L) p = Some x /\
  forall j, nth_error (firstn k L ++ x :: skipn k L) (if (j <? p)%nat then j else S j) = nth_error L j.
Proof.
  intros p. assert (Hlen : length (firstn k L) = p) by apply firstn_length.
  split.
  - rewrite nth_error_app2 by lia. rewrite Hlen, Nat.sub_diag. reflexivity.
  - intros j. rewrite <- (firstn_skipn k L) at 3. destruct (Nat.ltb_spec j p) as [Hj|Hj].
    + rewrite !nth_error_app1 by lia. reflexivity.
    + rewrite !nth_error_app2 by lia. rewrite Hlen. replace (S j - p)%nat with (S (j - p)) by lia. reflexivity.
Qed.

Lemma nth_error_set_nth_other {A} (L : list A) : forall k x j, j <> k -> nth_error (set_nth k x L) j = nth_error L j.
Proof.
  induction L as [|a L IH]; intros [|k] x [|j] H; cbn; try reflexivity; try congruence.
  apply IH. congruence.
Qed.

Lemma nth_error_set_nth_same {A} (L : list A) : forall k x, (k < length L)%nat -> nth_error (set_nth k x L) k = Some x.
Proof.
  induction L as [|a L IH]; intros [|k] x H; cbn in *; try lia; [reflexivity|]. apply IH. lia.
Qed.

Lemma insert_block_at s i :
  let p := Nat.min (Z.to_nat i) (length (stmts s)) in
  block_at (stmts (fst (insert_block s i))) p (nbid s) /\
  (forall k x, block_at (stmts s) k x -> block_at (stmts (fst (insert_block s i))) (if (k <? p)%nat then k else S k) x) /\
  snd (insert_block s i) = nbid s /\ length (stmts (fst (insert_block s i))) = S (length (stmts s)).
Proof.
  intros p. rewrite insert_block_stmts.
  destruct (nth_error_insert (stmts s) (Z.to_nat i) (SBlock (empty_require_block (nbid s)))) as [H1 H2]. fold p in H1, H2.
  split; [exists (empty_require_block (nbid s)); split; [exact H1 | reflexivity]|]. split; [|split; [reflexivity|]].
  - intros k x [b [Hb E]]. exists b. split; [rewrite H2; exact Hb | exact E].
  - rewrite app_length. cbn [length]. rewrite <- (firstn_skipn (Z.to_nat i) (stmts s)) at 3. rewrite app_length. lia.
Qed.

Lemma ensure_block_at s z s1 bid :
  0 <= z -> ensure_block s z = Some (s1, bid) ->
  block_at (stmts s1) (Z.to_nat z) bid /\ (forall k x, block_at (stmts s) k x -> block_at (stmts s1) k x)
  /\ length (stmts s1) = length (stmts s).
Proof.
  intros Hz H. unfold ensure_block in H.
  destruct (nth_error (stmts s) (Z.to_nat z)) as [[j|b|c]|] eqn:Hn; try discriminate.
  - injection H as <- <-. cbn [fresh_bid fst snd stmts with_stmts sset].
    assert (Hlt : (Z.to_nat z < length (stmts s))%nat) by (apply nth_error_Some; congruence).
    split; [|split].
    + eexists. split; [apply nth_error_set_nth_same; exact Hlt | reflexivity].
    + intros k x [b [Hb E]]. exists b. split; [|exact E].
      rewrite nth_error_set_nth_other; [exact Hb|]. intros ->. congruence.
    + clear. generalize (Z.to_nat z) as k. induction (stmts s) as [|a L IH]; intros [|k]; cbn; auto.
  - injection H as <- <-. split; [exists b; auto | auto].
Qed.

(* the scan never reports the same statement as direct-only and indirect-only *)
Lemma block_flags_mono s ls : forall ad ai,
  (fst (block_flags s ls ad ai) = true -> ad = true) /\ (snd (block_flags s ls ad ai) = true -> ai = true).
Proof.
  induction ls as [|i r IH]; intros ad ai; cbn [block_flags]; [auto|].
  destruct (has_comments _); [|destruct (is_indirect _)].
  - destruct (IH false false) as [A Bq]. split; intros H; [apply A in H | apply Bq in H]; discriminate.
  - destruct (IH false ai) as [A Bq]. split; [intros H; apply A in H; discriminate | exact Bq].
  - destruct (IH ad false) as [A Bq]. split; [exact A | intros H; apply Bq in H; discriminate].
Qed.

Lemma block_flags_not_both s ls ad ai :
  ls <> [] -> fst (block_flags s ls ad ai) = true -> snd (block_flags s ls ad ai) = true -> False.
Proof.
  destruct ls as [|i r]; [congruence|]. intros _. cbn [block_flags].
  destruct (has_comments _); [|destruct (is_indirect _)]; intros H1 H2.
  - apply (block_flags_mono s r false false) in H1. discriminate.
  - apply (block_flags_mono s r false ai) in H1. discriminate.
  - apply (block_flags_mono s r ad false) in H2. discriminate.
Qed.

Lemma scan_distinct s : forall todo i a,
  0 <= i -> sc_direct a < i -> sc_indirect a < i -> (0 <= sc_direct a -> sc_direct a <> sc_indirect a) ->
  0 <= sc_direct (sri_scan_loop s i todo a) -> sc_direct (sri_scan_loop s i todo a) <> sc_indirect (sri_scan_loop s i todo a).
Proof.
  induction todo as [|st rest IH]; intros i a Hi Hd Hin Hne; cbn [sri_scan_loop]; [exact Hne|].
  destruct st as [j|b|c].
  - destruct (hd_is (hl_tok (sget s j)) v_require); cbn [negb]; [|apply IH; try lia; exact Hne].
    destruct (has_comments (hl_com (sget s j))); [|destruct (is_indirect (sget s j))]; apply IH; cbn; try lia; exact Hne.
  - destruct (hd_is (hb_tok b) v_require); cbn [negb]; [|apply IH; try lia; exact Hne].
    set (init := negb (nilb (hb_lines b)) && negb (has_comments (hb_com b))).
    pose proof (block_flags_not_both s (hb_lines b) init init) as Hnb.
    pose proof (block_flags_mono s (hb_lines b) init init) as [Hm1 Hm2].
    destruct (block_flags s (hb_lines b) init init) as [ad ai]. cbn [fst snd] in *.
    assert (Hne' : hb_lines b = [] -> ad = false /\ ai = false).
    { intros E. unfold init in *. rewrite E in *. cbn in Hm1, Hm2. split; [destruct ad | destruct ai]; auto;
        [specialize (Hm1 eq_refl) | specialize (Hm2 eq_refl)]; discriminate. }
    apply IH; cbn; try lia.
    + destruct ad; lia.
    + destruct ai; lia.
    + destruct ad, ai; try lia; try exact Hne.
      exfalso. destruct (hb_lines b) eqn:E; [destruct (Hne' eq_refl); discriminate | apply Hnb; auto; discriminate].
  - apply IH; lia || exact Hne.
Qed.

(* the two ways SetRequireSeparateIndirect obtains its direct block, in normal form *)
Lemma sri_direct_cases s0 (sc : sri_scan) s1 dbid di ii :
  (if sc_direct sc <? 0 then
     let '(di, ii) := if 0 <=? sc_indirect sc then (sc_indirect sc, sc_indirect sc + 1)
                      else if 0 <=? sc_require sc then (sc_require sc + 1, sc_indirect sc)
                      else (Z.of_nat (length (stmts s0)), sc_indirect sc) in
     let (s1, bid) := insert_block s0 di in Some (s1, bid, di, ii)
   else do (s1, bid) <- ensure_block s0 (sc_direct sc); Some (s1, bid, sc_direct sc, sc_indirect sc))
  = Some (s1, dbid, di, ii) ->
  (sc_direct sc < 0 /\ insert_block s0 di = (s1, dbid) /\ 0 <= di /\
   ((0 <= sc_indirect sc /\ di = sc_indirect sc /\ ii = sc_indirect sc + 1) \/
    (sc_indirect sc < 0 /\ ii = sc_indirect sc)))
  \/ (0 <= sc_direct sc /\ ensure_block s0 (sc_direct sc) = Some (s1, dbid) /\ di = sc_direct sc /\ ii = sc_indirect sc).
Proof.
  intros E1. destruct (sc_direct sc <? 0) eqn:Ed.
  - left. apply Z.ltb_lt in Ed. split; [exact Ed|].
    destruct (0 <=? sc_indirect sc) eqn:Ei.
    + apply Z.leb_le in Ei. destruct (insert_block s0 (sc_indirect sc)) as [sx bx] eqn:Eb.
      injection E1 as <- <- <- <-. split; [exact Eb|]. split; [exact Ei|]. left. auto.
    + apply Z.leb_gt in Ei. destruct (0 <=? sc_require sc) eqn:Er; cbv beta iota in E1.
      * apply Z.leb_le in Er. destruct (insert_block s0 (sc_require sc + 1)) as [sx bx] eqn:Eb.
        injection E1 as <- <- <- <-. split; [exact Eb|]. split; [lia|]. right. auto.
      * destruct (insert_block s0 (Z.of_nat (length (stmts s0)))) as [sx bx] eqn:Eb.
        injection E1 as <- <- <- <-. split; [exact Eb|]. split; [lia|]. right. auto.
  - right. apply Z.ltb_ge in Ed. destruct (ensure_block s0 (sc_direct sc)) as [[sx bx]|] eqn:Eb; [|discriminate].
    injection E1 as <- <- <- <-. auto.
Qed.

Lemma req_at_lt s z : req_at s z -> (Z.to_nat z < length (stmts s))%nat.
Proof. intros [_ [st [Hn _]]]. apply nth_error_Some. congruence. Qed.

Lemma sri_blocks_distinct s0 (sc : sri_scan) s1 dbid di ii s2 ibid :
  SyntaxOk s0 -> BlockIdsOk s0 ->
  idx_ok s0 (sc_direct sc) -> idx_ok s0 (sc_indirect sc) ->
  (0 <= sc_direct sc -> sc_direct sc <> sc_indirect sc) ->
  (sc_direct sc < 0 /\ insert_block s0 di = (s1, dbid) /\ 0 <= di /\
   ((0 <= sc_indirect sc /\ di = sc_indirect sc /\ ii = sc_indirect sc + 1) \/
    (sc_indirect sc < 0 /\ ii = sc_indirect sc)))
  \/ (0 <= sc_direct sc /\ ensure_block s0 (sc_direct sc) = Some (s1, dbid) /\ di = sc_direct sc /\ ii = sc_indirect sc) ->
  (if ii <? 0 then Some (insert_block s1 (di + 1)) else ensure_block s1 ii) = Some (s2, ibid) ->
  dbid <> ibid.
Proof.
  intros Hsy0 Hbi0 Sd Si Hdist E1 E2.
  destruct E1 as [[Hd [Eb [Hdi Hcase]]] | [Hd [Eb [-> ->]]]].
  - (* the direct block is new *)
    destruct (insert_block_ok s0 di Hsy0 Hbi0) as [A1 [A2 [A3 [A4 [A5 [A6 A7]]]]]].
    destruct (insert_block_at s0 di) as [P1 [P2 [P3 P4]]].
    rewrite Eb in *. cbn [fst snd] in *. subst dbid.
    set (p := Nat.min (Z.to_nat di) (length (stmts s0))) in *.
    destruct Hcase as [[Hi [-> ->]] | [Hi ->]].
    + (* the indirect block exists: the statement after the new block *)
      destruct (Z.ltb_spec (sc_indirect sc + 1) 0) as [Hlt|Hge]; [lia|].
      assert (Hat0 : req_at s0 (sc_indirect sc)) by (destruct Si as [Si|Si]; [lia | exact Si]).
      pose proof (req_at_insert s0 (sc_indirect sc) (sc_indirect sc) Hat0 (Nat.le_refl _)) as Hat1. rewrite Eb in Hat1. cbn [fst] in Hat1.
      destruct (ensure_block_ok s1 _ _ _ A1 A3 Hat1 E2) as [_ [_ [[B1 _] _]]].
      destruct (ensure_block_at s1 _ _ _ Hge E2) as [Q1 [Q2 _]].
      pose proof (req_at_lt s0 _ Hat0) as Hlt.
      eapply (block_at_distinct (stmts s2) p (Z.to_nat (sc_indirect sc + 1))); [exact B1 | apply Q2; exact P1 | exact Q1|].
      unfold p. rewrite Z2Nat.inj_add by lia. lia.
    + (* both blocks are new *)
      destruct (Z.ltb_spec (sc_indirect sc) 0) as [Hlt|Hge]; [|lia].
      destruct (insert_block s1 (di + 1)) as [sx bx] eqn:Eb2. injection E2 as -> ->.
      destruct (insert_block_ok s1 (di + 1) A1 A3) as [_ [_ [[B1 _] _]]].
      destruct (insert_block_at s1 (di + 1)) as [Q1 [Q2 [Q3 _]]].
      rewrite Eb2 in *. cbn [fst snd] in *. subst ibid.
      set (p' := Nat.min (Z.to_nat (di + 1)) (length (stmts s1))) in *.
      assert (Hp' : p' = S p) by (unfold p', p; rewrite P4, Z2Nat.inj_add by lia; lia).
      specialize (Q2 p (nbid s0) P1). rewrite Hp' in Q2, Q1.
      assert (Hlt' : (p <? S p)%nat = true) by (apply Nat.ltb_lt; lia). rewrite Hlt' in Q2.
      eapply (block_at_distinct (stmts s2) p (S p)); [exact B1 | exact Q2 | exact Q1 | lia].
  - (* the direct block exists (or is a converted line) *)
    assert (Hat0 : req_at s0 (sc_direct sc)) by (destruct Sd as [Sd|Sd]; [lia | exact Sd]).
    destruct (ensure_block_ok s0 _ _ _ Hsy0 Hbi0 Hat0 Eb) as [A1 [_ [A3 [_ [_ [A6 _]]]]]].
    destruct (ensure_block_at s0 _ _ _ Hd Eb) as [P1 [P2 P3]].
    pose proof (req_at_lt s0 _ Hat0) as Hlt0.
    destruct (Z.ltb_spec (sc_indirect sc) 0) as [Hlt|Hge].
    + destruct (insert_block s1 (sc_direct sc + 1)) as [sx bx] eqn:Eb2. injection E2 as -> ->.
      destruct (insert_block_ok s1 (sc_direct sc + 1) A1 A3) as [_ [_ [[B1 _] _]]].
      destruct (insert_block_at s1 (sc_direct sc + 1)) as [Q1 [Q2 [Q3 _]]].
      rewrite Eb2 in *. cbn [fst snd] in *. subst ibid.
      set (p' := Nat.min (Z.to_nat (sc_direct sc + 1)) (length (stmts s1))) in *.
      assert (Hp' : p' = S (Z.to_nat (sc_direct sc))) by (unfold p'; rewrite P3, Z2Nat.inj_add by lia; lia).
      specialize (Q2 _ _ P1). rewrite Hp' in Q2, Q1.
      assert (Hlt' : (Z.to_nat (sc_direct sc) <? S (Z.to_nat (sc_direct sc)))%nat = true) by (apply Nat.ltb_lt; lia).
      rewrite Hlt' in Q2.
      eapply (block_at_distinct (stmts s2) _ _ _ _ B1 Q2 Q1). lia.
    + assert (Hat1 : req_at s1 (sc_indirect sc)) by (apply A6; destruct Si as [Si|Si]; [lia | exact Si]).
      destruct (ensure_block_ok s1 _ _ _ A1 A3 Hat1 E2) as [_ [_ [[B1 _] _]]].
      destruct (ensure_block_at s1 _ _ _ Hge E2) as [Q1 [Q2 _]].
      eapply (block_at_distinct (stmts s2) _ _ _ _ B1 (Q2 _ _ P1) Q1).
      intros E. apply Z2Nat.inj in E; lia.
Qed.

(* ---------------------------------------------------------------- where the requirements are put *)
Definition in_block (L : list stmt) (bid : nat) (n : lid) : Prop :=
  exists b, In (SBlock b) L /\ hb_id b = bid /\ In n (hb_lines b).

Lemma in_block_app1_mono bid n L x m : in_block L x m -> in_block (map (app1 bid n) L) x m.
Proof.
  intros [b [Hin [Hid Hm]]]. destruct (Nat.eqb (hb_id b) bid) eqn:E.
  - exists (block_with_lines b (hb_lines b ++ [n])). split; [|split; [exact Hid | cbn; apply in_app_iff; left; exact Hm]].
    apply in_map_iff. exists (SBlock b). split; [cbn [app1]; rewrite E; reflexivity | exact Hin].
  - exists b. split; [|split; assumption].
    apply in_map_iff. exists (SBlock b). split; [cbn [app1]; rewrite E; reflexivity | exact Hin].
Qed.

Lemma in_block_app1_new bid n L : has_req_block L bid -> in_block (map (app1 bid n) L) bid n.
Proof.
  intros [b [Hin [Hid _]]]. exists (block_with_lines b (hb_lines b ++ [n])).
  split; [|split; [exact Hid | cbn; apply in_app_iff; right; left; reflexivity]].
  apply in_map_iff. exists (SBlock b). split; [cbn [app1]; rewrite Hid, Nat.eqb_refl; reflexivity | exact Hin].
Qed.

(* a live requirement sits in the indirect block if it is indirect, in the direct block otherwise *)
Definition placed_ok (L : list stmt) (dbid ibid : nat) (r : e_require) : Prop :=
  nonempty (rq_path r) = true -> exists n, rq_syn r = Some n /\ in_block L (if rq_ind r then ibid else dbid) n.

Lemma placed_ok_mono L L' dbid ibid r :
  (forall x m, in_block L x m -> in_block L' x m) -> placed_ok L dbid ibid r -> placed_ok L' dbid ibid r.
Proof. intros Hm H Hl. destruct (H Hl) as [n [Hs Hb]]. exists n. split; [exact Hs | apply Hm; exact Hb]. Qed.

Lemma sri_loop_placed need l2b dbid ibid : forall l s have s' l' have',
  sri_loop s need have true l2b dbid ibid l = Some (s', l', have') ->
  has_req_block (stmts s) dbid -> has_req_block (stmts s) ibid ->
  Forall (placed_ok (stmts s') dbid ibid) l' /\ (forall x m, in_block (stmts s) x m -> in_block (stmts s') x m)
  /\ has_req_block (stmts s') dbid /\ has_req_block (stmts s') ibid.
Proof.
  induction l as [|r rest IH]; intros s have s' l' have' H Hdb Hib; cbn [sri_loop] in H.
  - injection H as <- <- _. auto.
  - destruct (rq_syn r) as [i|]; [|discriminate].
    assert (Hzero : placed_ok (stmts s') dbid ibid zero_require) by (intros Hl; discriminate Hl).
    destruct (match amap_get (rq_path r) need with
              | Some e => if existsb (str_eqb (rq_path r)) have then None else Some e
              | None => None end) as [[v ind]|].
    + set (s1 := sset s i _) in H. cbn [orb] in H.
      set (bid := if ind then ibid else dbid).
      assert (Hmv : (if ind then Some ibid else Some dbid) = Some bid) by (unfold bid; destruct ind; reflexivity).
      assert (Hbid : has_req_block (stmts s) bid) by (unfold bid; destruct ind; assumption).
      replace (if ind then if true then Some ibid else None else if true then Some dbid else None) with (Some bid) in H
        by (unfold bid; destruct ind; reflexivity).
      pose proof (move_req_stmts s1 i bid) as Hst.
      destruct (move_req s1 i bid) as [s2 n]. cbn [fst snd] in Hst.
      destruct (sri_loop s2 _ _ _ _ _ _ rest) as [[[s3 l3] h3]|] eqn:Hr; [|discriminate].
      injection H as <- <- _.
      assert (Hst' : stmts s2 = map (app1 bid n) (stmts s)) by exact Hst.
      destruct (IH _ _ _ _ _ Hr) as [R1 [R2 [R3 R4]]].
      * rewrite Hst'. apply app1_has_req. exact Hdb.
      * rewrite Hst'. apply app1_has_req. exact Hib.
      * split; [|split; [|split; assumption]].
        -- constructor; [|exact R1]. intros _. exists n. split; [reflexivity|]. cbn [rq_ind]. fold bid.
           apply R2. rewrite Hst'. apply in_block_app1_new. exact Hbid.
        -- intros x m Hx. apply R2. rewrite Hst'. apply in_block_app1_mono. exact Hx.
    + destruct (sri_loop _ _ _ _ _ _ _ rest) as [[[s3 l3] h3]|] eqn:Hr; [|discriminate].
      injection H as <- <- _.
      destruct (IH _ _ _ _ _ Hr Hdb Hib) as [R1 [R2 [R3 R4]]].
      split; [constructor; [intros Hl; discriminate Hl | exact R1] | split; [exact R2 | split; assumption]].
Qed.

Lemma sri_add_new_placed dbid ibid have : forall need s rs s' rs',
  fold_left (sri_add_new dbid ibid have) need (s, rs) = (s', rs') ->
  has_req_block (stmts s) dbid -> has_req_block (stmts s) ibid ->
  Forall (placed_ok (stmts s) dbid ibid) rs ->
  Forall (placed_ok (stmts s') dbid ibid) rs'.
Proof.
  induction need as [|[path [v ind]] rest IH]; intros s rs s' rs' H Hdb Hib Hp; cbn [fold_left] in H.
  - injection H as <- <-. exact Hp.
  - remember (sri_add_new dbid ibid have (s, rs) (path, (v, ind))) as acc eqn:Eacc.
    unfold sri_add_new in Eacc. destruct (existsb (str_eqb path) have).
    + subst acc. eapply IH; eauto.
    + cbn [salloc] in Eacc. set (bid := if ind then ibid else dbid) in *.
      match type of Eacc with _ = (?a, ?b) => set (s2 := a) in *; set (rs2 := b) in * end.
      assert (Hst : stmts s2 = map (app1 bid (length (heap s))) (stmts s)) by reflexivity.
      assert (Hbid : has_req_block (stmts s) bid) by (unfold bid; destruct ind; assumption).
      subst acc. eapply (IH s2 rs2); [exact H | | |].
      * rewrite Hst. apply app1_has_req. exact Hdb.
      * rewrite Hst. apply app1_has_req. exact Hib.
      * unfold rs2. apply Forall_app. split.
        -- eapply Forall_impl; [|exact Hp]. intros r. apply placed_ok_mono.
           intros x m Hx. rewrite Hst. apply in_block_app1_mono. exact Hx.
        -- constructor; [|constructor]. intros _. exists (length (heap s)). split; [reflexivity|].
           cbn [rq_ind]. fold bid. rewrite Hst. apply in_block_app1_new. exact Hbid.
Qed.

(* ---------------------------------------------------------------- uniform blocks *)
Definition block_uniform (s : syntax) (b : hblock) : Prop :=
  (forall i, In i (hb_lines b) -> hl_tok (sget s i) <> [] -> is_indirect (sget s i) = false) \/
  (forall i, In i (hb_lines b) -> hl_tok (sget s i) <> [] -> is_indirect (sget s i) = true).

Lemma block_of_line_unique i b b' : forall L,
  NoDup (map fst (stmts_lines L)) -> In (SBlock b) L -> In (SBlock b') L ->
  In i (hb_lines b) -> In i (hb_lines b') -> b = b'.
Proof.
  induction L as [|st r IH]; intros Hnd H1 H2 Hi Hi'; [destruct H1|].
  rewrite stmts_lines_cons, map_app in Hnd.
  assert (Hin_r : forall b0, In (SBlock b0) r -> In i (hb_lines b0) -> In i (map fst (stmts_lines r))).
  { intros b0 Hb0 Hi0. apply in_map_iff. exists (i, Some (hd [] (hb_tok b0))). split; [reflexivity|].
    unfold stmts_lines. apply in_flat_map. exists (SBlock b0). split; [exact Hb0|].
    cbn [stmt_lines]. apply (in_map (fun j => (j, Some (hd [] (hb_tok b0))))). exact Hi0. }
  assert (Hin_h : forall b0, st = SBlock b0 -> In i (hb_lines b0) -> In i (map fst (stmt_lines st))).
  { intros b0 -> Hi0. cbn [stmt_lines]. rewrite map_map. cbn [fst]. rewrite map_id. exact Hi0. }
  destruct H1 as [E1|H1], H2 as [E2|H2].
  - congruence.
  - exfalso. eapply (NoDup_app_disj _ _ i Hnd); [apply (Hin_h b E1 Hi) | apply (Hin_r b' H2 Hi')].
  - exfalso. eapply (NoDup_app_disj _ _ i Hnd); [apply (Hin_h b' E2 Hi') | apply (Hin_r b H1 Hi)].
  - apply IH; try assumption. exact (NoDup_app_r _ _ Hnd).
Qed.

Lemma placed_uniform g dbid ibid :
  Coherent g -> dbid <> ibid -> Forall (placed_ok (stmts (fsyn g)) dbid ibid) (f_require g) ->
  forall b, In (SBlock b) (stmts (fsyn g)) -> hd_is (hb_tok b) v_require = true -> block_uniform (fsyn g) b.
Proof.
  intros Hc Hne Hpl b Hb Hhd. pose proof Hc as [[H1 H2 H3] Hent Hperm]. set (s := fsyn g) in *.
  destruct (hd_is_eq _ _ Hhd) as [ts Hts].
  (* every live line of the block is the line of a live require entry that is placed *)
  assert (K : forall i, In i (hb_lines b) -> hl_tok (sget s i) <> [] ->
              hb_id b = if is_indirect (sget s i) then ibid else dbid).
  { intros i Hi Hlive.
    assert (Htl : In (i, Some v_require) (tree_lines s)).
    { unfold tree_lines. apply in_flat_map. exists (SBlock b). split; [exact Hb|].
      rewrite Hts. cbn [hd]. apply (in_map (fun j => (j, Some v_require))). exact Hi. }
    destruct (hl_tok (sget s i)) as [|t0 ts0] eqn:Et; [congruence|].
    assert (Hv : In (i, v_require, norm_args v_require (t0 :: ts0) (sget s i)) (tree_view s)).
    { unfold tree_view. apply in_flat_map. exists (i, Some v_require). split; [exact Htl|].
      unfold line_view. cbn [fst snd]. rewrite Et. left. reflexivity. }
    apply (Permutation_in _ Hperm) in Hv.
    assert (Hv' : In (i, v_require, norm_args v_require (t0 :: ts0) (sget s i)) (filter is_require_view (typed_view g))).
    { apply filter_In. split; [exact Hv | reflexivity]. }
    rewrite typed_view_require in Hv'. apply in_flat_map in Hv'. destruct Hv' as [e [He Hve]].
    apply in_map_iff in He. destruct He as [r [<- Hr]].
    unfold ent_view in Hve. cbn [ent_require en_syn en_live en_verb en_args] in Hve.
    destruct (rq_syn r) as [j|] eqn:Hs; [|destruct Hve]. destruct (nonempty (rq_path r)) eqn:Hl; [|destruct Hve].
    destruct Hve as [Hve|[]].
    pose proof (f_equal snd Hve) as Hargs. pose proof (f_equal (fun x : dview => fst (fst x)) Hve) as Hj.
    cbn [fst snd] in Hargs, Hj. subst j. clear Hve.
    assert (Hind : rq_ind r = is_indirect (sget s i)).
    { change (norm_args v_require (t0 :: ts0) (sget s i)) with ((t0 :: ts0) ++ [flag (is_indirect (sget s i))]) in Hargs.
      change ([auto_quote (rq_path r); rq_vers r] ++ [flag (rq_ind r)] = (t0 :: ts0) ++ [flag (is_indirect (sget s i))]) in Hargs.
      eapply norm_require_flag; eauto. }
    rewrite Forall_forall in Hpl. destruct (Hpl r Hr Hl) as [n [Hn [b' [Hb' [Hid' Hin']]]]].
    rewrite Hs in Hn. injection Hn as <-.
    assert (b' = b) by (eapply (block_of_line_unique i b' b (stmts s)); eauto). subst b'.
    rewrite Hid', Hind. reflexivity. }
  destruct (Nat.eq_dec (hb_id b) ibid) as [E|E].
  - right. intros i Hi Hl. specialize (K i Hi Hl). destruct (is_indirect (sget s i)); [reflexivity | congruence].
  - left. intros i Hi Hl. specialize (K i Hi Hl). destruct (is_indirect (sget s i)); [congruence | reflexivity].
Qed.

(* ---------------------------------------------------------------- through SortBlocks and Cleanup *)
Lemma sort_blocks_block_origin g b' :
  In (SBlock b') (stmts (fsyn (sort_blocks g))) ->
  exists b, In (SBlock b) (stmts (fsyn g)) /\ hb_tok b' = hb_tok b /\ incl (hb_lines b') (hb_lines b).
Proof.
  rewrite sort_blocks_as_sort_stmt. cbn [fsyn with_syn stmts with_stmts]. intros H.
  apply in_map_iff in H. destruct H as [st [Hst Hin]].
  destruct st as [i|b1|c]; try discriminate. cbn [sort_stmt] in Hst. injection Hst as <-.
  unfold remove_dups in Hin. cbn [fsyn with_tool with_replace with_exclude with_syn remove_killed stmts with_stmts] in Hin.
  apply in_flat_map in Hin. destruct Hin as [st0 [Hin0 Hst0]].
  destruct st0 as [i|b0|c]; cbn in Hst0.
  - destruct (killed _ _); [destruct Hst0 | destruct Hst0 as [E|[]]; discriminate].
  - destruct (nilb _); [destruct Hst0|]. destruct Hst0 as [E|[]]. injection E as <-.
    exists b0. split; [exact Hin0|]. split; [reflexivity|].
    cbn [sort_block block_with_lines hb_lines]. intros i Hi.
    apply (Permutation_in _ (Permutation_sym (stable_sort_perm _ _))) in Hi. apply filter_In in Hi. tauto.
  - destruct Hst0 as [E|[]]. discriminate.
Qed.

Lemma cleanup_block_origin todo : forall h b',
  In (SBlock b') (snd (syn_cleanup_loop h todo)) ->
  exists b, In (SBlock b) todo /\ hb_tok b' = hb_tok b /\
            forall i, In i (hb_lines b') -> In i (hb_lines b) /\ line_live h i = true.
Proof.
  induction todo as [|st rest IH]; intros h b' H; cbn [syn_cleanup_loop] in H; [destruct H|].
  assert (Hrest : forall h0, (forall i, line_live h0 i = true -> line_live h i = true) ->
            In (SBlock b') (snd (syn_cleanup_loop h0 rest)) ->
            exists b, In (SBlock b) (st :: rest) /\ hb_tok b' = hb_tok b /\
                      forall i, In i (hb_lines b') -> In i (hb_lines b) /\ line_live h i = true).
  { intros h0 Hlv Hin. destruct (IH h0 b' Hin) as [b [Hb [Ht Hl]]]. exists b. split; [right; exact Hb|]. split; [exact Ht|].
    intros i Hi. destruct (Hl i Hi) as [A Bq]. split; [exact A | apply Hlv; exact Bq]. }
  assert (Hkeep : forall b ls, st = SBlock b -> ls = filter (line_live h) (hb_lines b) ->
            In (SBlock b') (SBlock (block_with_lines b ls) :: snd (syn_cleanup_loop h rest)) ->
            exists b0, In (SBlock b0) (st :: rest) /\ hb_tok b' = hb_tok b0 /\
                       forall i, In i (hb_lines b') -> In i (hb_lines b0) /\ line_live h i = true).
  { intros b ls -> -> [E|Hin]; [|apply (Hrest h); auto].
    injection E as <-. exists b. split; [left; reflexivity|]. split; [reflexivity|].
    intros i Hi. cbn in Hi. apply filter_In in Hi. exact Hi. }
  destruct st as [i|b|c].
  - destruct (line_live h i).
    + destruct (syn_cleanup_loop h rest) as [h' out] eqn:E. cbn [snd] in H. destruct H as [H|H]; [discriminate|].
      apply (Hrest h); auto; rewrite E; exact H.
    + apply (Hrest h); auto.
  - destruct (filter (line_live h) (hb_lines b)) as [|j [|j2 more]] eqn:Ef.
    + apply (Hrest h); auto.
    + destruct (nilb (c_before (hb_rp b))).
      * match type of H with context [syn_cleanup_loop ?hx rest] => set (h1 := hx) in * end.
        destruct (syn_cleanup_loop h1 rest) as [h' out] eqn:E. cbn [snd] in H. destruct H as [H|H]; [discriminate|].
        apply (Hrest h1); [|rewrite E; exact H].
        intros i Hi. destruct (Nat.eq_dec j i) as [<-|Hn].
        -- assert (Hj : In j (filter (line_live h) (hb_lines b))) by (rewrite Ef; left; reflexivity).
           apply filter_In in Hj. tauto.
        -- unfold line_live in *. unfold h1 in Hi. rewrite hget_hset_other in Hi by exact Hn. exact Hi.
      * destruct (syn_cleanup_loop h rest) as [h' out] eqn:E. cbn [snd] in H.
        apply (Hkeep b [j]); auto; rewrite E; exact H.
    + destruct (syn_cleanup_loop h rest) as [h' out] eqn:E. cbn [snd] in H.
      apply (Hkeep b (j :: j2 :: more)); auto; rewrite E; exact H.
  - destruct (syn_cleanup_loop h rest) as [h' out] eqn:E. cbn [snd] in H. destruct H as [H|H]; [discriminate|].
    apply (Hrest h); auto; rewrite E; exact H.
Qed.

(* ---------------------------------------------------------------- the theorem *)
Lemma sri_scan_facts s0 :
  idx_ok s0 (sc_direct (sri_scan_of s0)) /\ idx_ok s0 (sc_indirect (sri_scan_of s0)) /\
  (0 <= sc_direct (sri_scan_of s0) -> sc_direct (sri_scan_of s0) <> sc_indirect (sri_scan_of s0)).
Proof.
  unfold sri_scan_of.
  destruct (sri_scan_ok s0 (stmts s0) 0 (mkScan (-1) (-1) (-1) O []) (Z.le_refl 0) eq_refl) as [Sd [Si _]];
    try (left; cbn; lia).
  split; [exact Sd | split; [exact Si|]].
  apply scan_distinct; cbn; lia.
Qed.

Theorem separate_indirect_blocks_pre_cleanup f l f' :
  distinct_paths (map req_path l) = true -> Coherent f -> BlockIdsOk (fsyn f) -> RequireSettable f ->
  one_flat_uncommented (fsyn f) = true ->
  set_require_separate_indirect f l = Some f' ->
  forall b, In (SBlock b) (stmts (fsyn f')) -> hd_is (hb_tok b) v_require = true -> block_uniform (fsyn f') b.
Proof.
  intros Hd Hc Hbi Hset Hof H.
  destruct (sri_steps_exist f l f' H) as [s1 [dbid [di [ii [s2 [ibid [s3 [rs [have [s4 [rs' St]]]]]]]]]]].
  destruct (sri_pre_sort_explicit _ _ _ _ _ _ _ _ _ _ _ _ _ _ Hd Hc Hbi Hset St) as [Hg [_ [_ [Hdb2 [Hib2 _]]]]].
  destruct St as [E1 [E2 [E3 [E4 Ef]]]].
  destruct (sri_scan_facts (fsyn f)) as [Sd [Si Hdist]].
  assert (Hne : dbid <> ibid).
  { eapply (sri_blocks_distinct (fsyn f)); [apply Hc | exact Hbi | exact Sd | exact Si | exact Hdist | apply sri_direct_cases; exact E1 | exact E2]. }
  rewrite Hof in E3.
  destruct (sri_loop_placed _ _ _ _ _ _ _ _ _ _ E3 Hdb2 Hib2) as [P1 [_ [Hdb3 Hib3]]].
  pose proof (sri_add_new_placed _ _ _ _ _ _ _ _ E4 Hdb3 Hib3 P1) as P2.
  set (g := with_require (with_syn f s4) rs') in *.
  intros b Hb Hhd. subst f'. destruct (sort_blocks_block_origin g b Hb) as [b0 [Hb0 [Ht Hincl]]].
  assert (U : block_uniform (fsyn g) b0).
  { apply (placed_uniform g dbid ibid Hg Hne P2 b0 Hb0). rewrite <- Ht. exact Hhd. }
  destruct U as [U|U]; [left|right]; intros i Hi Hl; apply (U i (Hincl i Hi) Hl).
Qed.

(* separate_indirect_blocks: after Cleanup every require block of the file is direct-only or
   indirect-only *)
Theorem separate_indirect_blocks f l f' :
  distinct_paths (map req_path l) = true -> Coherent f -> BlockIdsOk (fsyn f) -> RequireSettable f ->
  one_flat_uncommented (fsyn f) = true ->
  set_require_separate_indirect f l = Some f' ->
  forall b, In (SBlock b) (stmts (fsyn (cleanup f'))) -> hd_is (hb_tok b) v_require = true ->
    (forall i, In i (hb_lines b) -> is_indirect (sget (fsyn (cleanup f')) i) = false) \/
    (forall i, In i (hb_lines b) -> is_indirect (sget (fsyn (cleanup f')) i) = true).
Proof.
  intros Hd Hc Hbi Hset Hof H b Hb Hhd.
  pose proof (separate_indirect_blocks_pre_cleanup f l f' Hd Hc Hbi Hset Hof H) as U.
  pose proof (set_require_separate_indirect_coherent f l f' Hd Hc Hbi Hset H) as [[_ _ Hbk] _ _].
  cbn [fsyn cleanup] in *. unfold syn_cleanup in *.
  pose proof (cleanup_block_origin (stmts (fsyn f')) (heap (fsyn f')) b) as Ho.
  destruct (cleanup_suffix (stmts (fsyn f')) (heap (fsyn f')) Hbk) as [_ Hsuf].
  destruct (syn_cleanup_loop (heap (fsyn f')) (stmts (fsyn f'))) as [h st] eqn:E. cbn [fst snd stmts heap] in *.
  destruct (Ho Hb) as [b1 [Hb1 [Ht Hl]]].
  assert (Hlive : forall i, line_live (heap (fsyn f')) i = true -> hl_tok (sget (fsyn f') i) <> []).
  { intros i. unfold line_live, sget. destruct (hl_tok _); [discriminate | discriminate]. }
  assert (Hind : forall i, is_indirect (sget (mkSyn h (nbid (fsyn f')) (fcom (fsyn f')) st) i) = is_indirect (sget (fsyn f') i)).
  { intros i. rewrite !is_indirect_suf. unfold sget. cbn [heap]. rewrite Hsuf. reflexivity. }
  destruct (U b1 Hb1) as [U1|U1]; [rewrite <- Ht; exact Hhd | left | right];
    intros i Hi; destruct (Hl i Hi) as [Hi1 Hlv]; rewrite Hind; apply U1; auto.
Qed.

(* at the level of lines: the live require lines of the cleaned-up file are exactly the request *)
Theorem set_require_separate_lines_exact f l f' :
  distinct_paths (map req_path l) = true -> Coherent f -> BlockIdsOk (fsyn f) -> RequireSettable f ->
  set_require_separate_indirect f l = Some f' ->
  Permutation (map snd (filter is_require_view (tree_view (fsyn (cleanup f'))))) (map render_req l).
Proof.
  intros Hd Hc Hbi Hset H.
  pose proof (set_require_separate_indirect_coherent f l f' Hd Hc Hbi Hset H) as Hc'.
  apply cleanup_coherent in Hc'. destruct (set_require_separate_exact f l f' Hd H) as [_ Hex].
  destruct Hc' as [_ Hent Hperm].
  etransitivity; [apply Permutation_map, filter_perm; exact Hperm|].
  rewrite typed_view_require, require_views_render.
  - apply Permutation_map. exact Hex.
  - unfold EntriesOk in Hent. rewrite entries_require in Hent.
    apply Forall_app in Hent. destruct Hent as [_ Hent]. apply Forall_app in Hent. tauto.
Qed.

(* ---------------------------------------------------------------- what oneFlatUncommentedBlock means *)
Definition is_req_stmt (s : syntax) (st : stmt) : bool :=
  match st with
  | SLine j => hd_is (hl_tok (sget s j)) v_require
  | SBlock b => hd_is (hb_tok b) v_require
  | SComment _ => false
  end.

Lemma scan_require_spec s : forall todo i a, 0 <= i ->
  sc_count (sri_scan_loop s i todo a) = (sc_count a + length (filter (is_req_stmt s) todo))%nat /\
  (filter (is_req_stmt s) todo = [] -> sc_require (sri_scan_loop s i todo a) = sc_require a) /\
  (forall st, filter (is_req_stmt s) todo = [st] ->
     exists pre post, todo = pre ++ st :: post /\ filter (is_req_stmt s) pre = [] /\ filter (is_req_stmt s) post = [] /\
                      sc_require (sri_scan_loop s i todo a) = i + Z.of_nat (length pre)).
Proof.
  induction todo as [|x rest IH]; intros i a Hi; cbn [sri_scan_loop filter].
  - split; [cbn; lia | split; [reflexivity | intros st Hf; discriminate]].
  - assert (Hi1 : 0 <= i + 1) by lia.
    assert (Hskip : is_req_stmt s x = false ->
              sc_count (sri_scan_loop s (i + 1) rest a) = (sc_count a + length (filter (is_req_stmt s) rest))%nat /\
              (filter (is_req_stmt s) rest = [] -> sc_require (sri_scan_loop s (i + 1) rest a) = sc_require a) /\
              (forall st, filter (is_req_stmt s) rest = [st] ->
                 exists pre post, x :: rest = pre ++ st :: post /\ filter (is_req_stmt s) pre = [] /\ filter (is_req_stmt s) post = [] /\
                                  sc_require (sri_scan_loop s (i + 1) rest a) = i + Z.of_nat (length pre))).
    { intros Hx. destruct (IH (i + 1) a Hi1) as [C1 [C2 C3]]. split; [exact C1 | split; [exact C2|]].
      intros st Hf. destruct (C3 st Hf) as [pre [post [E [F1 [F2 Hr]]]]].
      exists (x :: pre), post. split; [rewrite E; reflexivity|]. split; [cbn; rewrite Hx; exact F1|]. split; [exact F2|].
      rewrite Hr. cbn [length]. lia. }
    assert (Hreq : is_req_stmt s x = true -> forall a', sc_count a' = S (sc_count a) -> sc_require a' = i ->
              sc_count (sri_scan_loop s (i + 1) rest a') = (sc_count a + S (length (filter (is_req_stmt s) rest)))%nat /\
              (x :: filter (is_req_stmt s) rest = [] -> sc_require (sri_scan_loop s (i + 1) rest a') = sc_require a) /\
              (forall st, x :: filter (is_req_stmt s) rest = [st] ->
                 exists pre post, x :: rest = pre ++ st :: post /\ filter (is_req_stmt s) pre = [] /\ filter (is_req_stmt s) post = [] /\
                                  sc_require (sri_scan_loop s (i + 1) rest a') = i + Z.of_nat (length pre))).
    { intros Hx a' Hc Hr. destruct (IH (i + 1) a' Hi1) as [C1 [C2 C3]]. split; [rewrite C1, Hc; lia|]. split; [discriminate|].
      intros st Hf. injection Hf as -> Hf. exists [], rest. split; [reflexivity|]. split; [reflexivity|]. split; [exact Hf|].
      rewrite (C2 Hf), Hr. cbn. lia. }
    destruct x as [j|b|c]; cbn [is_req_stmt] in *.
    + destruct (hd_is (hl_tok (sget s j)) v_require) eqn:Eh; cbn [negb].
      * destruct (has_comments (hl_com (sget s j))); [|destruct (is_indirect (sget s j))]; apply Hreq; reflexivity.
      * apply Hskip. reflexivity.
    + destruct (hd_is (hb_tok b) v_require) eqn:Eh; cbn [negb].
      * destruct (block_flags s (hb_lines b) _ _) as [ad ai]. apply Hreq; reflexivity.
      * apply Hskip. reflexivity.
    + apply Hskip. reflexivity.
Qed.

(* the precondition of the theorem, read off the statement list: exactly one statement is a
   require line or require block, and it carries no comments of its own (comments of the
   lines inside a block do not count, as in the code) *)
Theorem one_flat_uncommented_spec s :
  one_flat_uncommented s = true ->
  exists pre st post, stmts s = pre ++ st :: post /\ is_req_stmt s st = true /\
    has_comments (stmt_coms s st) = false /\
    filter (is_req_stmt s) pre = [] /\ filter (is_req_stmt s) post = [].
Proof.
  unfold one_flat_uncommented, sri_scan_of. intros H. apply Bool.andb_true_iff in H. destruct H as [Hc Hn].
  destruct (scan_require_spec s (stmts s) 0 (mkScan (-1) (-1) (-1) O []) (Z.le_refl 0)) as [C1 [_ C3]].
  apply Nat.eqb_eq in Hc. rewrite C1 in Hc. cbn [sc_count] in Hc.
  destruct (filter (is_req_stmt s) (stmts s)) as [|st [|? ?]] eqn:Ef; cbn in Hc; try lia.
  destruct (C3 st eq_refl) as [pre [post [E [F1 [F2 Hr]]]]].
  exists pre, st, post. split; [exact E|]. split; [|split; [|split; assumption]].
  - assert (Hin : In st (filter (is_req_stmt s) (stmts s))) by (rewrite Ef; left; reflexivity).
    apply filter_In in Hin. tauto.
  - rewrite Hr in Hn. cbn in Hn. rewrite Nat2Z.id in Hn. rewrite E, nth_error_app2, Nat.sub_diag in Hn by lia.
    cbn in Hn. apply negb_true_false in Hn. exact Hn.
Qed.
