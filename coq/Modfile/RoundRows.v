(* Round trip parse -> format -> parse, part 1: the position-free view of the parser.

   A token stream is a sequence of ROWS (the tokens of one input line with the end-of-line
   comment that may follow them, a whole-line comment, or a blank line).  [group] is the
   parser of read.go re-stated on rows: it has no positions, and an end-of-line comment is
   attached to the node of its row directly (the Go code drops it in the grammar and
   re-attaches it by byte position in assignComments).  The result is a lean tree [astmt]
   without positions; [estmt]/[efile] embed it into the syntax tree of Syntax.v with zero
   positions, and [zfile] erases the positions of a parsed tree.

   RoundParse.v proves that the real parser (Parse.v) on a lexer-produced stream agrees
   with [group]:  zfile (parse ...) = efile (group (arows ...)). *)
From Verif.Base Require Import Bytes.
From Verif.Modfile Require Import Syntax Lex Parse.

(* ---------------------------------------------------------------- rows *)

Inductive arow :=
| RToks (toks : list str) (sfx : list str)   (* tokens of a line; sfx = [] or [eol comment] *)
| RCom (c : str)                             (* a whole-line comment *)
| RBlank.                                    (* an empty line *)

(* a token that can stand in a line: identifier, string, punctuation other than LF *)
Definition is_ltok (k : tkind) : bool :=
  match k with
  | KIdent | KString => true
  | KPunct c => negb (c =? 10)
  | _ => false
  end.

Definition flush_row (acc_r : list str) : list arow :=
  match acc_r with [] => [] | _ => [RToks (rev acc_r) []] end.

(* the rows of a token stream; [acc_r]: the tokens of the current row, reversed *)
Fixpoint arows (acc_r : list str) (ts : list token) : list arow :=
  match ts with
  | [] => flush_row acc_r
  | t :: r =>
      match t_kind t with
      | KEOF => flush_row acc_r
      | KEOLComment => RToks (rev acc_r) [t_text t] :: arows [] r
      | KComment => RCom (t_text t) :: arows [] r
      | KPunct c =>
          if c =? 10 then (match acc_r with [] => RBlank | _ => RToks (rev acc_r) [] end) :: arows [] r
          else arows (t_text t :: acc_r) r
      | _ => arows (t_text t :: acc_r) r
      end
  end.

(* ---------------------------------------------------------------- the lean tree *)

Record aline := mkAL { al_before : list str; al_toks : list str; al_suffix : list str }.

Record ablock := mkAB {
  ab_before : list str;      (* LineBlock.Before *)
  ab_toks : list str;        (* LineBlock.Token *)
  ab_lsfx : list str;        (* LParen.Suffix *)
  ab_lines : list aline;
  ab_rbefore : list str;     (* RParen.Before *)
  ab_rsfx : list str;        (* RParen.Suffix *)
  ab_sfx : list str          (* LineBlock.Suffix *)
}.

Inductive astmt :=
| ALine (l : aline)
| ABlock (b : ablock)
| ACB (cs : list str).

(* ---------------------------------------------------------------- the shape of a top-level row *)

Inductive shape :=
| SLine (toks : list str)
| SOpen (btoks : list str)      (* "toks (" : a block opens *)
| SEmpty (btoks : list str).    (* "toks ( )" : an empty one-line block *)

Definition is_lp (t : str) : bool := str_eqb t [40].
Definition is_rp (t : str) : bool := str_eqb t [41].

(* the loop of parseStmt over the tokens after the first; [acc_r]: tokens so far, reversed *)
Fixpoint scan (acc_r : list str) (more : list str) : shape :=
  match more with
  | [] => SLine (rev acc_r)
  | t :: r =>
      if is_lp t then
        match r with
        | [] => SOpen (rev acc_r)
        | u :: r' =>
            if is_rp u then
              match r' with
              | [] => SEmpty (rev acc_r)
              | _ => scan (u :: t :: acc_r) r'
              end
            else scan (t :: acc_r) r
        end
      else scan (t :: acc_r) r
  end.

(* ---------------------------------------------------------------- group *)

Inductive gstate :=
| GTop (cb : option (list str)) (stmts_r : list astmt)
| GBlk (before btoks lsfx : list str) (coms_r : list str) (lines_r : list aline) (stmts_r : list astmt).

Definition cb_list (cb : option (list str)) : list str :=
  match cb with Some b => rev b | None => [] end.

Definition push_acb (cb : option (list str)) (stmts_r : list astmt) : list astmt :=
  match cb with Some b => ACB (rev b) :: stmts_r | None => stmts_r end.

Definition cb_add (c : str) (cb : option (list str)) : option (list str) :=
  Some (c :: match cb with Some b => b | None => [] end).

(* the condition under which parseLineBlock records a blank line *)
Definition blank_cond (coms_r : list str) (lines_r : list aline) : bool :=
  (is_nil coms_r && negb (is_nil lines_r))
  || (negb (is_nil coms_r) && match coms_r with c :: _ => negb (is_nil c) | [] => false end).

Fixpoint group (st : gstate) (rows : list arow) : option (list astmt) :=
  match rows with
  | [] =>
      match st with
      | GTop cb stmts_r => Some (rev (push_acb cb stmts_r))
      | GBlk _ _ _ _ _ _ => None                       (* unterminated block *)
      end
  | row :: r =>
      match st with
      | GTop cb stmts_r =>
          match row with
          | RBlank => group (GTop None (push_acb cb stmts_r)) r
          | RCom c => group (GTop (cb_add c cb) stmts_r) r
          | RToks toks sfx =>
              match toks with
              | [] => None
              | t0 :: more =>
                  match scan [t0] more with
                  | SLine tk => group (GTop None (ALine (mkAL (cb_list cb) tk sfx) :: stmts_r)) r
                  | SEmpty bt => group (GTop None (ABlock (mkAB (cb_list cb) bt [] [] [] [] sfx) :: stmts_r)) r
                  | SOpen bt => group (GBlk (cb_list cb) bt sfx [] [] stmts_r) r
                  end
              end
          end
      | GBlk before bt lsfx coms_r lines_r stmts_r =>
          match row with
          | RBlank =>
              group (GBlk before bt lsfx (if blank_cond coms_r lines_r then [] :: coms_r else coms_r)
                          lines_r stmts_r) r
          | RCom c => group (GBlk before bt lsfx (c :: coms_r) lines_r stmts_r) r
          | RToks toks sfx =>
              match toks with
              | [] => None
              | t0 :: more =>
                  if is_rp t0 then
                    match more with
                    | [] => group (GTop None (ABlock (mkAB before bt lsfx (rev lines_r) (rev coms_r) sfx [])
                                                     :: stmts_r)) r
                    | _ => None                        (* expected newline after closing paren *)
                    end
                  else group (GBlk before bt lsfx [] (mkAL (rev coms_r) toks sfx :: lines_r) stmts_r) r
              end
          end
      end
  end.

Definition group_file (rows : list arow) : option (list astmt) := group (GTop None []) rows.

(* ---------------------------------------------------------------- embedding, erasure *)

Definition ec (s : str) : comment := mkComment zero_pos s false.

Definition eline (inb : bool) (l : aline) : line :=
  mkLine (mkComments (map ec (al_before l)) (map ec (al_suffix l)) []) zero_pos (al_toks l) inb zero_pos.

Definition eblock (b : ablock) : line_block :=
  mkBlock (mkComments (map ec (ab_before b)) (map ec (ab_sfx b)) []) zero_pos
          (mkParen (mkComments [] (map ec (ab_lsfx b)) []) zero_pos)
          (ab_toks b) (map (eline true) (ab_lines b))
          (mkParen (mkComments (map ec (ab_rbefore b)) (map ec (ab_rsfx b)) []) zero_pos).

Definition estmt (x : astmt) : expr :=
  match x with
  | ALine l => ELine (eline false l)
  | ABlock b => EBlock (eblock b)
  | ACB cs => ECommentBlock (mkCommentBlock (mkComments (map ec cs) [] []) zero_pos)
  end.

Definition efile (a : list astmt) : file_syntax := mkFile [] no_comments (map estmt a).

(* erasure of positions (and of the Suffix flag of comments) *)
Definition zc (c : comment) : comment := mkComment zero_pos (c_token c) false.

Definition zcs (c : comments) : comments :=
  mkComments (map zc (cm_before c)) (map zc (cm_suffix c)) (map zc (cm_after c)).

Definition zline (l : line) : line :=
  mkLine (zcs (l_comments l)) zero_pos (l_token l) (l_inblock l) zero_pos.

Definition zparen (x : paren) : paren := mkParen (zcs (pr_comments x)) zero_pos.

Definition zblock (b : line_block) : line_block :=
  mkBlock (zcs (b_comments b)) zero_pos (zparen (b_lparen b)) (b_token b) (map zline (b_line b))
          (zparen (b_rparen b)).

Definition zexpr (x : expr) : expr :=
  match x with
  | ELine l => ELine (zline l)
  | EBlock b => EBlock (zblock b)
  | ECommentBlock c => ECommentBlock (mkCommentBlock (zcs (cb_comments c)) zero_pos)
  end.

Definition zfile (f : file_syntax) : file_syntax :=
  mkFile (f_name f) (zcs (f_comments f)) (map zexpr (f_stmt f)).
