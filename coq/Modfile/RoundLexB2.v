(* Round trip, part 6b: [relex_tok]: a token text delivered by the lexer somewhere, put
   behind white space and in front of a stopping byte, is delivered again; the same for
   comments in front of a line feed; and the last byte of a token is never blank. *)
From Verif.Base Require Import Bytes Utf8.
From Verif.Gen Require Import GenChars GenUnicode.
From Verif.Modfile Require Import Syntax Lex Parse ProofsLex ProofsLexNoLF RoundRows
  RoundLexPure RoundLexPure2 RoundLexPure3 RoundLexPure4 RoundLexB1.

(* ---------------------------------------------------------------- fuel suffices (via the real lexer) *)

Lemma pcomment_bad_d f d d' s : pcomment f d s = PBad -> pcomment f d' s = PBad.
Proof.
  unfold pcomment. destruct (prune s) as [[r1 s1]|]; auto. destruct (prune s1) as [[r2 s2]|]; auto.
  destruct (pcomment_body f s2) as [[s3|]|]; auto. discriminate.
Qed.

Lemma ptoken_bad_d : forall f d d' s, ptoken f d s = PBad -> ptoken f d' s = PBad.
Proof.
  induction f as [|f IH]; intros d d' s; cbn [ptoken]; auto.
  destruct (snil s); auto. destruct (_ || _).
  { destruct (prune s) as [[r s1]|]; auto. apply IH. }
  destruct (has_prefix s [47; 47]); [apply pcomment_bad_d|]. auto.
Qed.

Lemma ptoken_fuel_ok f d s : (length s + 2 <= f)%nat -> ptoken f d s <> PBad.
Proof.
  intros Hf Hbad. apply (ptoken_bad_d f d false) in Hbad.
  pose proof (read_token_pure s f (init_state s) false (linv_init s) (dinv_init s)) as Hp.
  pose proof (read_token_good s f (init_state s) (linv_init s) ltac:(unfold rem_len, init_state; cbn; lia)) as Hg.
  cbn [init_state ls_rem] in Hp. rewrite Hbad in Hp.
  destruct (read_token f (init_state s)); cbn in *; try contradiction.
  - destruct Hp as (Hp & _). discriminate.
  - discriminate.
Qed.

Lemma ptok0_fuel_ok f d s : starts_tok s -> (length s + 1 <= f)%nat -> ptok0 f d s <> PBad.
Proof. intros Hs Hf. rewrite <- (ptoken_start f d s Hs). apply ptoken_fuel_ok. lia. Qed.

(* ---------------------------------------------------------------- transport of a whole token *)

Definition stop_ok (k : tkind) (r2 : str) : Prop :=
  match k with KIdent => stop_ident r2 | _ => ascii_head r2 end.

Lemma stop_ok_ascii k r2 : stop_ok k r2 -> ascii_head r2.
Proof. destruct k; cbn; auto. intros (H & _). exact H. Qed.

Lemma has_prefix_head_ne b t p0 p1 : b <> p0 -> has_prefix (b :: t) [p0; p1] = false.
Proof. intros H. cbn [has_prefix]. apply Z.eqb_neq in H. rewrite Z.eqb_sym in H. rewrite H. reflexivity. Qed.

Lemma is_punct_not47 c : is_punct c = true -> c <> 47.
Proof. unfold is_punct. intros H Hc. subst c. discriminate. Qed.

Lemma pmain_transport f x r1 r2 k :
  is_ltok k = true -> ptok0 f false (x ++ r1) = PTok k x r1 -> stop_ok k r2 ->
  ptok0 f false (x ++ r2) = PTok k x r2 /\ x <> [] /\ starts_tok (x ++ r2).
Proof.
  intros Hk H Hs. pose proof (stop_ok_ascii _ _ Hs) as Ha. unfold ptok0 in H.
  destruct (has_prefix (x ++ r1) [47; 47]) eqn:Ess.
  { destruct (pcomment_shape _ _ _ _ _ _ Ess H) as (E & _). subst k. discriminate. }
  destruct (has_prefix (x ++ r1) [47; 42]) eqn:Esb; [discriminate|].
  destruct (pmain_shape _ _ _ _ _ H) as (_ & Hsh).
  unfold pmain in H. unfold ptok0, pmain, starts_tok.
  destruct (snil (x ++ r1)) eqn:Esn.
  { injection H as <- _ _. discriminate. }
  assert (Hx : x <> []).
  { destruct k; try discriminate.
    - destruct Hsh as [(_ & E)|(E & _)]; [rewrite E in Ess; discriminate|exact E].
    - destruct Hsh as (q & x' & -> & _). discriminate.
    - destruct Hsh as (-> & _). discriminate. }
  assert (Hne : x ++ r1 <> []) by (destruct x; [congruence|discriminate]).
  destruct (Utf8.decode (x ++ r1)) as [r w] eqn:Hd.
  (* the first rune lies inside x *)
  assert (Hw : (w <= length x)%nat).
  { destruct (is_punct (ppeek (x ++ r1))) eqn:Ep.
    { assert (Hr : ppeek (x ++ r1) = r) by (unfold ppeek; destruct (x ++ r1); [discriminate|]; rewrite Hd; reflexivity).
      rewrite Hr in Ep. destruct (decode_small _ _ _ Hne Hd (is_punct_small _ Ep)) as (-> & _).
      destruct x; [congruence|cbn; lia]. }
    destruct ((ppeek (x ++ r1) =? 34) || (ppeek (x ++ r1) =? 96)) eqn:Eq.
    { assert (Hr : ppeek (x ++ r1) = r) by (unfold ppeek; destruct (x ++ r1); [discriminate|]; rewrite Hd; reflexivity).
      rewrite Hr in Eq. destruct (decode_small _ _ _ Hne Hd ltac:(lia)) as (-> & _).
      destruct x; [congruence|cbn; lia]. }
    destruct (negb (is_ident (ppeek (x ++ r1)))) eqn:Eni; [discriminate|].
    destruct f as [|f]; [discriminate|]. cbn [pident] in H. apply negb_false_iff in Eni. rewrite Eni, Ess, Esb in H.
    destruct (prune (x ++ r1)) as [[r' s1]|] eqn:Hp; [|discriminate].
    destruct (prune_split _ _ _ Hp) as (bs & Hbs & Es & Hd' & _). rewrite Hd in Hd'. injection Hd' as <- ->.
    destruct (pident_shape f (x ++ r1) s1 bs k x r1 Es H) as (_ & _ & c' & Ec').
    rewrite Ec', app_length. lia. }
  destruct (ppeek_transport x r1 r2 r w Hx Hd Hw Ha) as (P1 & P2 & P3 & P4).
  assert (Esn2 : snil (x ++ r2) = false) by (destruct x; [congruence|reflexivity]).
  rewrite P3 in H. rewrite Esn2, P1.
  (* the comment tests *)
  assert (Hpre : has_prefix (x ++ r2) [47; 47] = false /\ has_prefix (x ++ r2) [47; 42] = false).
  { destruct k; try discriminate.
    - destruct Hs as (_ & _ & H47).
      split; apply (has_prefix2_transport x r1 r2); auto; destruct r2; auto; apply H47.
    - destruct Hsh as (q & x' & -> & Hq). cbn [app]. split; apply has_prefix_head_ne; lia.
    - destruct Hsh as (-> & Hp). cbn [app]. pose proof (is_punct_not47 _ Hp). split; apply has_prefix_head_ne; auto. }
  destruct Hpre as (-> & ->).
  destruct (is_punct r) eqn:Ep.
  { rewrite P4 in H. rewrite P2. injection H as <- Ex _.
    destruct (decode_small _ _ _ Hne Hd (is_punct_small _ Ep)) as (-> & t & Et).
    assert (Ex1 : x = [r]) by apply Hsh.
    subst x. cbn [skipn app]. change (r :: r2) with ([r] ++ r2). rewrite ptext_app.
    split; [reflexivity|]. split; [discriminate|].
    unfold is_sp. unfold is_punct in Ep.
    repeat (apply orb_true_iff in Ep as [Ep|Ep]); apply Z.eqb_eq in Ep; subst r; reflexivity. }
  destruct ((r =? 34) || (r =? 96)) eqn:Eq.
  { rewrite P4 in H. rewrite P2.
    destruct (decode_small _ _ _ Hne Hd ltac:(lia)) as (-> & t & Et).
    destruct x as [|b x']; [congruence|]. cbn [app] in Et. injection Et as -> _. cbn [skipn app] in *.
    pose proof (pstring_transport r f [r] x' r1 r2 k (r :: x') r1 H eq_refl Ha) as Ht. cbn [app] in Ht.
    assert (Ek : k = KString).
    { destruct (pstring_shape r f (r :: x' ++ r1) (x' ++ r1) [r] k (r :: x') r1 eq_refl H) as (E & _). exact E. }
    subst k. split; [exact Ht|]. split; [discriminate|].
    unfold is_sp. apply orb_true_iff in Eq as [E|E]; apply Z.eqb_eq in E; subst r; reflexivity. }
  destruct (negb (is_ident r)) eqn:Eni; [discriminate|].
  assert (Ek : k = KIdent) by (destruct (pident_shape f (x ++ r1) (x ++ r1) [] k x r1 eq_refl H) as (E & _); exact E).
  subst k. pose proof (pident_transport f [] x r1 r2 KIdent x r1 H eq_refl Hs) as Ht. cbn [app] in Ht.
  split; [exact Ht|]. split; [exact Hx|].
  apply negb_false_iff in Eni. destruct (is_ident_nonsp _ Eni) as (Hns & _).
  unfold is_sp. unfold nonsp in Hns.
  destruct (Z.eqb_spec r 32) as [->|]; [discriminate|]. destruct (Z.eqb_spec r 9) as [->|]; [discriminate|].
  destruct (Z.eqb_spec r 13) as [->|]; [discriminate|]. reflexivity.
Qed.

(* the comment kind does not matter for a token that is not a comment *)
Lemma ptok0_d f d d' s k x rest : is_ltok k = true -> ptok0 f d s = PTok k x rest -> ptok0 f d' s = PTok k x rest.
Proof.
  intros Hk. unfold ptok0. destruct (has_prefix s [47; 47]) eqn:Ess; [|auto].
  intros H. destruct (pcomment_shape _ _ _ _ _ _ Ess H) as (E & _). subst k. destruct d; discriminate.
Qed.

Theorem relex_tok k x r2 : is_ltok k = true -> lexed k x -> stop_ok k r2 ->
  x <> [] /\
  forall sp f d, Forall (fun c => is_sp c = true) sp -> (length (sp ++ x ++ r2) + 2 <= f)%nat ->
    ptoken f d (sp ++ x ++ r2) = PTok k x r2.
Proof.
  intros Hk (f0 & d0 & r1 & H0) Hs.
  apply (ptok0_d f0 d0 false _ _ _ _ Hk) in H0.
  destruct (pmain_transport f0 x r1 r2 k Hk H0 Hs) as (H1 & Hx & Hst).
  split; [exact Hx|]. intros sp f d Hsp Hf.
  rewrite app_length in Hf.
  replace f with (length sp + S (f - length sp - 1))%nat by lia.
  rewrite (ptoken_skip sp _ d (x ++ r2) Hsp). rewrite (ptoken_start _ d _ Hst).
  set (f1 := (f - length sp - 1)%nat).
  assert (Hok : ptok0 f1 false (x ++ r2) <> PBad) by (apply ptok0_fuel_ok; [exact Hst|unfold f1; lia]).
  apply (ptok0_d _ false d _ _ _ _ Hk).
  destruct (Nat.le_ge_cases f0 f1) as [Hle|Hle].
  - rewrite (ptok0_mono f0 f1 false _ Hle); [exact H1|rewrite H1; discriminate].
  - rewrite <- (ptok0_mono f1 f0 false _ Hle Hok). exact H1.
Qed.

(* ---------------------------------------------------------------- comments *)

Lemma count_lf_cons b s : count_lf (b :: s) = (if b =? 10 then 1 else 0) + count_lf s.
Proof. unfold count_lf. cbn [filter]. destruct (b =? 10); cbn [length]; lia. Qed.

Lemma count_lf_nonneg s : 0 <= count_lf s.
Proof. unfold count_lf. lia. Qed.

Lemma count_lf_skipn n s : count_lf s = 0 -> count_lf (skipn n s) = 0.
Proof.
  intros H. rewrite <- (firstn_skipn n s), count_lf_app in H.
  pose proof (count_lf_nonneg (firstn n s)). pose proof (count_lf_nonneg (skipn n s)). lia.
Qed.

Lemma pcomment_body_nolf : forall n body f rest, (length body <= n)%nat -> count_lf body = 0 ->
  (length body + 1 <= f)%nat -> pcomment_body f (body ++ 10 :: rest) = Some (Some rest).
Proof.
  induction n as [|n IH]; intros body f rest Hn Hb Hf.
  - destruct body; [|cbn in Hn; lia]. destruct f; [cbn in Hf; lia|]. cbn [app pcomment_body].
    unfold prune. rewrite decode_ascii_head by lia. cbn. reflexivity.
  - destruct body as [|b body'].
    { destruct f; [cbn in Hf; lia|]. cbn [app pcomment_body]. unfold prune. rewrite decode_ascii_head by lia. reflexivity. }
    destruct f as [|f]; [cbn in Hf; lia|]. cbn [pcomment_body].
    set (body := b :: body') in *.
    assert (Hne : body ++ 10 :: rest <> []) by discriminate.
    destruct (body ++ 10 :: rest) as [|z zs] eqn:Ez; [congruence|]. rewrite <- Ez in *.
    unfold prune. rewrite Ez. rewrite <- Ez.
    destruct (Utf8.decode (body ++ 10 :: rest)) as [r w] eqn:Hd.
    pose proof (decode_width _ _ _ Hne Hd) as Hw. pose proof (decode_lf _ _ _ Hne Hd) as Hlf.
    assert (Hr : r <> 10).
    { intros ->. destruct (decode_small _ _ _ Hne Hd ltac:(lia)) as (_ & t & Et). unfold body in Et. cbn in Et.
      injection Et as -> _. unfold body in Hb. rewrite count_lf_cons in Hb. change (10 =? 10) with true in Hb. cbn iota in Hb. pose proof (count_lf_nonneg body'). lia. }
    destruct (Z.eqb_spec r 10); [contradiction|].
    assert (Hwb : (w <= length body)%nat).
    { destruct (Nat.le_gt_cases w (length body)) as [H|H]; [exact H|exfalso].
      rewrite firstn_app in Hlf. rewrite (firstn_all2 body) in Hlf by lia. rewrite count_lf_app, Hb in Hlf.
      destruct (w - length body)%nat as [|m] eqn:Em; [lia|]. cbn [firstn] in Hlf. rewrite count_lf_cons in Hlf.
      change (10 =? 10) with true in Hlf. cbn iota in Hlf. 
      pose proof (count_lf_nonneg (firstn m rest)). lia. }
    rewrite skipn_app. replace (w - length body)%nat with O by lia. cbn [skipn].
    apply IH.
    + rewrite skipn_length. unfold body in *. cbn [length] in *. lia.
    + apply count_lf_skipn. exact Hb.
    + rewrite skipn_length. unfold body in *. cbn [length] in *. lia.
Qed.

(* the last byte of y is not blank, CR or LF *)
Definition end_ok (y : str) : Prop :=
  exists pre b, y = pre ++ [b] /\ b <> 9 /\ b <> 32 /\ b <> 10 /\ b <> 13.

Lemma strip_eol_lf y : end_ok y -> strip_eol (y ++ [10]) = y.
Proof.
  intros (pre & b & -> & _ & _ & _ & H13). unfold strip_eol. rewrite frev_rev, !rev_app_distr. cbn [rev app].
  change (10 =? 10) with true. cbn iota. apply Z.eqb_neq in H13. rewrite H13.
  rewrite frev_rev. cbn [rev]. rewrite rev_involutive. reflexivity.
Qed.

Theorem relex_comment y rest : comment_text y -> end_ok y ->
  forall sp f d, Forall (fun c => is_sp c = true) sp -> (length (sp ++ y ++ 10%Z :: rest) + 2 <= f)%nat ->
    ptoken f d (sp ++ y ++ 10 :: rest) = PTok (if d then KEOLComment else KComment) y rest.
Proof.
  intros (Hss & Hlf) He sp f d Hsp Hf. rewrite !app_length in Hf. cbn [length] in Hf.
  replace f with (length sp + S (f - length sp - 1))%nat by lia.
  rewrite (ptoken_skip sp _ d _ Hsp).
  apply has_prefix_true in Hss as (body & ->). cbn [app] in *.
  rewrite ptoken_start by reflexivity. unfold ptok0. rewrite hp_ss.
  unfold pcomment, prune. rewrite decode_ascii_head by lia. cbn [skipn]. rewrite decode_ascii_head by lia. cbn [skipn].
  assert (Hb : count_lf body = 0) by (rewrite !count_lf_cons in Hlf; cbn in Hlf; lia).
  rewrite (pcomment_body_nolf (length body) body _ rest (le_n _) Hb) by (cbn [length] in Hf; lia).
  replace (47 :: 47 :: body ++ 10 :: rest) with (((47 :: 47 :: body) ++ [10]) ++ rest)
    by (cbn [app]; rewrite <- app_assoc; reflexivity).
  rewrite ptext_app, (strip_eol_lf _ He). reflexivity.
Qed.

(* ---------------------------------------------------------------- the line feed and the end *)

Lemma relex_lf rest sp f d : Forall (fun c => is_sp c = true) sp -> (length sp + 3 <= f)%nat ->
  ptoken f d (sp ++ 10 :: rest) = PTok (KPunct 10) [10] rest.
Proof.
  intros Hsp Hf. replace f with (length sp + S (f - length sp - 1))%nat by lia.
  rewrite (ptoken_skip sp _ d _ Hsp). rewrite ptoken_start by reflexivity.
  unfold ptok0. cbn [has_prefix]. change (47 =? 10) with false. cbn [andb].
  unfold pmain. cbn [snil]. unfold ppeek, prune. rewrite decode_ascii_head by lia. cbn [fst skipn].
  change (is_punct 10) with true. cbn iota. change (10 :: rest) with ([10] ++ rest). rewrite ptext_app. reflexivity.
Qed.

Lemma relex_eof sp f d : Forall (fun c => is_sp c = true) sp -> (length sp + 2 <= f)%nat ->
  ptoken f d (sp ++ []) = PTok KEOF [] [].
Proof.
  intros Hsp Hf. replace f with (length sp + S (f - length sp - 1))%nat by lia.
  rewrite (ptoken_skip sp _ d _ Hsp). reflexivity.
Qed.

(* punctuation needs no condition on what follows *)
Lemma relex_punct c r2 sp f d : is_punct c = true -> c <> 10 ->
  Forall (fun c => is_sp c = true) sp -> (length sp + 3 <= f)%nat ->
  ptoken f d (sp ++ [c] ++ r2) = PTok (KPunct c) [c] r2.
Proof.
  intros Hp Hc Hsp Hf. replace f with (length sp + S (f - length sp - 1))%nat by lia.
  rewrite (ptoken_skip sp _ d _ Hsp). pose proof (is_punct_small _ Hp) as Hsm.
  assert (Hst : starts_tok ([c] ++ r2)).
  { unfold starts_tok, ppeek. cbn [app]. rewrite decode_ascii_head by exact Hsm. cbn [fst].
    unfold is_sp. unfold is_punct in Hp.
    repeat (apply orb_true_iff in Hp as [Hp|Hp]); apply Z.eqb_eq in Hp; subst c; reflexivity. }
  rewrite (ptoken_start _ d _ Hst). unfold ptok0. cbn [app].
  rewrite !has_prefix_head_ne by (apply is_punct_not47; exact Hp).
  unfold pmain. cbn [snil]. unfold ppeek, prune. rewrite decode_ascii_head by exact Hsm. cbn [fst skipn].
  rewrite Hp. change (c :: r2) with ([c] ++ r2). rewrite ptext_app. reflexivity.
Qed.

(* a token text of punctuation kind *)
Lemma lexed_punct c x : lexed (KPunct c) x -> x = [c] /\ is_punct c = true.
Proof.
  intros (f & d & r1 & H). unfold ptok0 in H.
  destruct (has_prefix (x ++ r1) [47; 47]) eqn:Ess.
  { destruct (pcomment_shape _ _ _ _ _ _ Ess H) as (E & _). destruct d; discriminate. }
  destruct (has_prefix (x ++ r1) [47; 42]); [discriminate|].
  destruct (pmain_shape _ _ _ _ _ H) as (_ & Hsh). exact Hsh.
Qed.

(* the kind of a token text that is an opening or closing bracket or a comma *)
Lemma lexed_kind_punct k x c : is_ltok k = true -> lexed k x -> x = [c] -> is_punct c = true -> k = KPunct c.
Proof.
  intros Hk (f & d & r1 & H) -> Hp. unfold ptok0 in H. pose proof (is_punct_small _ Hp) as Hsm.
  cbn [app] in H. rewrite !has_prefix_head_ne in H by (apply is_punct_not47; exact Hp).
  unfold pmain in H. cbn [snil] in H. unfold ppeek, prune in H. rewrite decode_ascii_head in H by exact Hsm.
  cbn [fst skipn] in H. rewrite Hp in H. injection H as <- _. reflexivity.
Qed.
