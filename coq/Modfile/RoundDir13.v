(* Round trip, part 12o: format_preserves_directives for go.mod with any sane version
   fixer, retract directives included. *)
From Verif.Base Require Import Bytes Utf8 Strconv QuoteProofs.
From Verif.Semver Require Import Spec Model.
From Verif.Module Require Import Path.
From Verif.Modfile Require Import Syntax Lex Parse Print Directives ProofsLex ProofsDirectives ProofsRound LaxRetract RoundRows
  RoundParse RoundParse5 RoundLexPure4 RoundLexB1 RoundMain1 RoundTrim RoundTrim2 RoundTree RoundTree2 RoundTree3
  RoundPrint RoundPrint3 RoundMain2 RoundMain3 RoundQuote RoundSemver RoundDir1 RoundDir2 RoundDir3 RoundDir4 RoundDir5 RoundDir6
  RoundDir7 RoundDir8 RoundDir9 RoundDir10 RoundDir11 RoundDir12 RoundWork.

Definition mod_path (f : file) : str := match fd_module f with Some m => mv_path (md_mod m) | None => [] end.

Lemma file_nr_eq a b : nr a = nr b -> a = with_retract b (fd_retract a).
Proof.
  destruct a, b. unfold nr, with_retract. cbn. intros H. injection H as -> -> -> -> -> -> -> -> ->. reflexivity.
Qed.

Lemma rev_nil_inv {A} (l : list A) : rev l = [] -> l = [].
Proof. intros H. apply (f_equal (@rev A)) in H. rewrite rev_involutive in H. exact H. Qed.

Definition state0 (s : file_syntax) : loop_state file := mkLS (empty_file s) [] [] false.

Lemma Rel0 g p s : Rel g p (state0 s) (state0 s).
Proof.
  unfold Rel, OK, RealInv, fix_errs, state0. cbn. repeat split; try reflexivity. constructor.
Qed.

Section Thm.
Variable g : str -> str -> option str.
Hypothesis Hfx : fixer_ok (Some g).
Notation fx := (Some g).

(* a successful run, with retract directives, as a run with addX *)
Lemma file_of_syntax_X s f : file_of_syntax true fx s = DOk f -> fd_retract f <> [] ->
  let p := mod_path f in
  let sx := stmts_loop (xstep g p) 0 (f_stmt s) (state0 s) in
  Parse.is_nil p = false /\ OK sx /\
  f = with_syntax (lp_file sx) (mkFile (f_name s) (f_comments s) (rev (lp_stmts_r sx))).
Proof.
  unfold file_of_syntax. fold (step_of true fx). fold (rstep g). fold (state0 s). cbv zeta.
  set (st := stmts_loop (rstep g) 0 (f_stmt s) (state0 s)).
  unfold fix_retract. cbn [with_syntax fd_module fd_retract fd_syntax].
  destruct (fd_retract (lp_file st)) as [|r rs0] eqn:Er.
  { destruct (lp_panic st); [discriminate|]. destruct (lp_errs_r st); [|discriminate].
    intros [= <-] H. exfalso. apply H. cbn [with_syntax fd_retract]. exact Er. }
  fold (mod_path (lp_file st)).
  destruct (Parse.is_nil (mod_path (lp_file st))) eqn:Ep.
  { destruct (get_line _ (rt_syntax r)); [|discriminate]. destruct (lp_panic st); discriminate. }
  destruct (fix_retract_loop fx (mod_path (lp_file st)) (r :: rs0)
              (mkFile (f_name s) (f_comments s) (frev (lp_stmts_r st))) [] (lp_errs_r st) (lp_panic st))
    as [[[rs syn'] errs'] panic'] eqn:Efrl.
  destruct panic'; [discriminate|]. destruct errs'; [|discriminate]. intros [= <-] _.
  change (mod_path (with_syntax (with_retract (with_syntax (lp_file st)
            (mkFile (f_name s) (f_comments s) (frev (lp_stmts_r st)))) rs) syn')) with (mod_path (lp_file st)).
  set (p := mod_path (lp_file st)) in *.
  assert (He : lp_errs_r st = []).
  { destruct (lp_errs_r st) eqn:E; [reflexivity|]. exfalso.
    pose proof (frl_errs_mono fx p (r :: rs0) (mkFile (f_name s) (f_comments s) (frev (lp_stmts_r st))) [] (p0 :: l) (lp_panic st)
                  ltac:(discriminate)) as Hm. rewrite Efrl in Hm. apply Hm. reflexivity. }
  assert (Hp : lp_panic st = false).
  { destruct (lp_panic st) eqn:E; [|reflexivity]. exfalso.
    pose proof (frl_panic_mono fx p (r :: rs0) (mkFile (f_name s) (f_comments s) (frev (lp_stmts_r st))) [] (lp_errs_r st)) as Hm.
    rewrite Efrl in Hm. discriminate Hm. }
  rewrite He, Hp in Efrl.
  assert (Hok : OK st) by (split; assumption).
  assert (Hri : RealInv st).
  { apply (loop_real g p (f_stmt s) (state0 s)); [split; [reflexivity|constructor]|exact Hok]. }
  destruct Hri as (R1 & R2). rewrite Er in R1.
  rewrite frev_rev in Efrl.
  pose proof (frl_fun g p (f_name s) (f_comments s) (rev (lp_stmts_r st)) [] (r :: rs0) [] [] false R1 R2) as Hfun.
  cbn [app] in Hfun. rewrite Efrl in Hfun. injection Hfun as Ers Esyn Eerrs.
  rewrite app_nil_r in Eerrs. symmetry in Eerrs. apply rev_nil_inv in Eerrs.
  pose proof (loop_rel g p (f_stmt s) (state0 s) (state0 s) (Rel0 g p s)) as Hrel. cbv zeta in Hrel.
  cbn [state0 lp_stmts_r length] in Hrel. fold (state0 s) in Hrel. fold st in Hrel.
  specialize (Hrel (or_intror (conj Hok Eerrs))).
  destruct Hrel as (_ & HokX & Hnr & _ & _ & HrX & HsX).
  split; [exact Ep|]. split; [exact HokX|].
  rewrite (file_nr_eq _ _ Hnr), HrX, HsX, Er, Ers, Esyn. cbn [frev app]. rewrite map_rev. reflexivity.
Qed.

(* a successful run with addX, as the real run *)
Lemma file_of_syntax_X_conv p s :
  let sx := stmts_loop (xstep g p) 0 (f_stmt s) (state0 s) in
  OK sx -> mod_path (lp_file sx) = p -> Parse.is_nil p = false ->
  exists f, file_of_syntax true fx s = DOk f /\ vals f = vals (lp_file sx).
Proof.
  cbv zeta. intros HokX Hpath Hp.
  pose proof (loop_rel g p (f_stmt s) (state0 s) (state0 s) (Rel0 g p s)) as Hrel. cbv zeta in Hrel.
  cbn [state0 lp_stmts_r length] in Hrel. fold (state0 s) in Hrel.
  specialize (Hrel (or_introl HokX)).
  set (sx := stmts_loop (xstep g p) 0 (f_stmt s) (state0 s)) in *.
  unfold file_of_syntax. fold (step_of true fx). fold (rstep g). fold (state0 s). cbv zeta.
  set (st := stmts_loop (rstep g) 0 (f_stmt s) (state0 s)) in *.
  destruct Hrel as ((He & Hpn) & _ & Hnr & (R1 & R2) & Hfe & HrX & HsX).
  unfold fix_retract. cbn [with_syntax fd_module fd_retract fd_syntax].
  assert (Hmod : fd_module (lp_file st) = fd_module (lp_file sx)).
  { apply (f_equal fd_module) in Hnr. exact (eq_sym Hnr). }
  destruct (fd_retract (lp_file st)) as [|r rs0] eqn:Er.
  { rewrite Hpn, He. eexists. split; [reflexivity|].
    rewrite (file_nr_eq _ _ Hnr), HrX. cbn [fix_ents]. unfold vals.
    cbn [with_retract with_syntax fd_module fd_go fd_toolchain fd_godebug fd_require fd_exclude fd_replace fd_retract fd_tool].
    rewrite Er. reflexivity. }
  fold (mod_path (lp_file st)).
  assert (Hpe : mod_path (lp_file st) = p) by (unfold mod_path in *; rewrite Hmod; exact Hpath).
  rewrite Hpe, Hp, He, Hpn, frev_rev.
  pose proof (frl_fun g p (f_name s) (f_comments s) (rev (lp_stmts_r st)) [] (r :: rs0) [] [] false R1 R2) as Hfun.
  cbn [app] in Hfun. rewrite Hfun. unfold fix_errs in Hfe. rewrite Hfe. cbn [rev app frev].
  eexists. split; [reflexivity|].
  rewrite (file_nr_eq _ _ Hnr), HrX. reflexivity.
Qed.

Lemma vals_mod_path a b : vals a = vals b -> mod_path a = mod_path b.
Proof.
  intros H. unfold vals in H. injection H as H _ _ _ _ _ _ _ _. unfold mod_path.
  destruct (fd_module a), (fd_module b); cbn in H; try discriminate; [|reflexivity]. congruence.
Qed.

Theorem format_preserves_directives_mod_retract data f :
  parse_to_file true fx data = DOk f -> wf_file f -> fd_retract f <> [] ->
  exists f', parse_to_file true fx (format (fd_syntax f)) = DOk f' /\ vals f' = vals f.
Proof.
  unfold parse_to_file. intros H Hwf Hnr. destruct (parse data) as [s| | |] eqn:Hp; try discriminate. cbn [lift_parse] in H.
  destruct (parse_wf2 data s Hp) as (a & Hz & Hok & Hsi).
  destruct (file_of_syntax_X s f H Hnr) as (Hpn & HokX & Ef). cbv zeta in *.
  set (p := mod_path f) in *.
  set (sx := stmts_loop (xstep g p) 0 (f_stmt s) (state0 s)) in *.
  assert (Hwf' : wf_file (lp_file sx)) by (rewrite Ef in Hwf; exact Hwf).
  destruct HokX as (He & Hpc).
  destruct (g_loop_rb file _ (addX g p) known_mod_block vals wf_file ext ext_refl ext_trans wf_ext (addX_ext g p) (addX_sim g p Hfx)
              (f_stmt s) O (state0 s) He Hpc Hwf') as (ys & Eys & Hrb).
  change (gstep file (addX g p) known_mod_block) with (xstep g p) in Eys.
  fold sx in Eys. cbn [state0 lp_stmts_r] in Eys. rewrite app_nil_r in Eys.
  assert (Hzs : map zexpr (f_stmt s) = map estmt a) by (apply (f_equal f_stmt) in Hz; exact Hz).
  destruct (rb_lean_all (f_stmt s) ys a Hrb Hzs Hok Hsi) as (a' & Ea' & Hok' & Hsi').
  assert (HzF : zfile (fd_syntax f) = efile a').
  { rewrite Ef. cbn [with_syntax fd_syntax]. unfold zfile, efile. cbn [f_name f_comments f_stmt].
    rewrite Eys, rev_involutive, Ea'.
    assert (En : f_name s = []) by (apply (f_equal f_name) in Hz; exact Hz).
    assert (Ec : zcs (f_comments s) = no_comments) by (apply (f_equal f_comments) in Hz; exact Hz).
    rewrite En, Ec. reflexivity. }
  assert (Hfmt : format (fd_syntax f) = RoundPrint.render (file_pls a')) by (rewrite <- format_zfile, HzF; apply format_efile; exact Hok').
  destruct (reparse a' Hok') as (s2 & Hp2 & Hz2 & _).
  rewrite Hfmt, Hp2. cbn [lift_parse].
  assert (Hy : Forall2 yrel ys (f_stmt s2)).
  { apply (yrel_lean_all ys (f_stmt s2) a'); auto. apply (f_equal f_stmt) in Hz2. exact Hz2. }
  pose proof (g_loop_sim file _ (addX g p) known_mod_block vals wf_file ext ext_refl ext_trans wf_ext (addX_ext g p) (addX_sim g p Hfx)
                (f_stmt s) O (state0 s) ys (f_stmt s2) O (state0 s2)) as Hs.
  cbv zeta in Hs. change (gstep file (addX g p) known_mod_block) with (xstep g p) in Hs. fold sx in Hs.
  specialize (Hs He Hpc Hwf' ltac:(cbn [state0 lp_stmts_r]; rewrite app_nil_r; exact Eys) Hy ltac:(split; [reflexivity|split; reflexivity])).
  destruct Hs as (Hv & He2 & Hp2').
  assert (Hvf : vals (lp_file sx) = vals f) by (rewrite Ef; reflexivity).
  destruct (file_of_syntax_X_conv p s2) as (f' & Ef' & Hv').
  - split; assumption.
  - rewrite <- (vals_mod_path _ _ Hv). apply vals_mod_path. exact Hvf.
  - exact Hpn.
  - exists f'. split; [exact Ef'|]. rewrite Hv', <- Hv. exact Hvf.
Qed.
End Thm.

(* format_preserves_directives for go.mod, any sane fixer *)
Theorem format_preserves_directives_mod_any fx data f :
  fixer_ok fx -> parse_to_file true fx data = DOk f -> wf_file f ->
  exists f', parse_to_file true fx (format (fd_syntax f)) = DOk f' /\ vals f' = vals f.
Proof.
  intros Hfx H Hwf. destruct (fd_retract f) as [|r rs] eqn:Er.
  - apply (format_preserves_directives_mod_fix fx data f Hfx H Hwf Er).
  - destruct fx as [g|].
    + apply (format_preserves_directives_mod_retract g Hfx data f H Hwf). rewrite Er. discriminate.
    + apply (format_preserves_directives_mod data f H Hwf).
Qed.
