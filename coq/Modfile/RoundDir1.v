(* Round trip, part 12b: the tokens the directive layer writes back (AutoQuote of a path,
   a canonical or fixed version) are tokens of the lexer, and reading them again gives the
   same values and leaves them unchanged. *)
From Verif.Base Require Import Bytes Utf8 Strconv QuoteProofs.
From Verif.Gen Require Import GenChars GenUnicode.
From Verif.Semver Require Import Spec Model.
From Verif.Modfile Require Import Syntax Lex Parse Print Directives ProofsLex RoundRows
  RoundLexPure RoundLexPure2 RoundLexPure3 RoundLexPure4 RoundLexB1 RoundLexB2 RoundTrim RoundTree
  RoundQuote RoundSemver.

(* a path as the property demands it *)
Definition path_ok (p : str) : Prop := Forall byte p /\ p <> [] /\ not_lone p.

(* a token that lexes again and is not a parenthesis *)
Definition tok_good (t : str) : Prop := ltext t /\ is_lp t = false /\ is_rp t = false.

(* a version fixer that can be applied twice *)
Definition fix_idem (fx : fixer) : Prop :=
  match fx with
  | None => True
  | Some g => forall p x y, g p x = Some y -> g p y = Some y
  end.

(* ... and that neither turns a parenthesis into a version nor delivers an empty version *)
Definition fix_noparen (fx : fixer) : Prop :=
  match fx with
  | None => True
  | Some g => forall p x y, g p x = Some y -> is_lp x = false /\ is_rp x = false /\ y <> []
  end.

Definition fixer_ok (fx : fixer) : Prop := fix_idem fx /\ fix_noparen fx.

(* ---------------------------------------------------------------- valid versions are plain *)

Lemma vchar_range c : vchar c = true ->
  c = 43 \/ c = 45 \/ c = 46 \/ (48 <= c <= 57) \/ (65 <= c <= 90) \/ (97 <= c <= 122).
Proof.
  unfold vchar, ident_char, is_digit, is_upper, is_lower. intros H.
  repeat (apply orb_true_iff in H as [H|H]);
    try (apply andb_true_iff in H as (A & B); apply Z.leb_le in A; apply Z.leb_le in B; lia);
    apply Z.eqb_eq in H; lia.
Qed.

Lemma runes_ascii : forall s, Forall (fun c => c < 128) s -> Utf8.runes s = s.
Proof.
  induction 1 as [|c s Hc Hs IH]; [reflexivity|].
  rewrite (runes_step (c :: s) c 1 (cne _ _) (decode_ascii_head c s Hc)). cbn [skipn]. rewrite IH. reflexivity.
Qed.

Lemma isprint_range c : 33 <= c <= 126 -> unicode_IsPrint c = true.
Proof.
  intros H. unfold unicode_IsPrint, in_ranges, IsPrint_ranges. cbn [existsb fst snd].
  assert (E : ((32 <=? c) && (c <=? 126)) = true) by (apply andb_true_iff; split; apply Z.leb_le; lia).
  rewrite E. reflexivity.
Qed.

Lemma no_slash_sub s b : ~ In 47 s -> contains_sub s [47; b] = false.
Proof.
  induction s as [|c s IH]; intros H; [reflexivity|]. cbn [contains_sub has_prefix].
  assert (c <> 47) by (intros ->; apply H; left; reflexivity).
  assert (E : (47 =? c) = false) by (apply Z.eqb_neq; congruence). rewrite E. cbn [andb orb].
  apply IH. intros Hin. apply H. right. exact Hin.
Qed.

Theorem valid_plain v : is_valid v = true ->
  Forall byte v /\ v <> [] /\ not_lone v /\ must_quote v = false.
Proof.
  intros Hv. destruct (valid_chars v Hv) as (Hc & r & Ev).
  assert (Hr : Forall (fun c => c = 43 \/ c = 45 \/ c = 46 \/ (48 <= c <= 57) \/ (65 <= c <= 90) \/ (97 <= c <= 122)) v).
  { apply Forall_forall. intros c Hin. apply vchar_range. rewrite forallb_forall in Hc. apply Hc. exact Hin. }
  split; [eapply Forall_impl; [|exact Hr]; intros c H; unfold byte; cbn beta in *; lia|].
  split; [rewrite Ev; discriminate|].
  split.
  { intros c E. rewrite E in Hr. apply Forall_inv in Hr. unfold is_punct.
    repeat (apply orb_false_iff; split); apply Z.eqb_neq; lia. }
  unfold must_quote. rewrite (runes_ascii v) by (eapply Forall_impl; [|exact Hr]; intros c H; cbn beta in *; lia).
  assert (E1 : existsb (fun r0 => (r0 =? 32) || (r0 =? 34) || (r0 =? 39) || (r0 =? 96)
             || is_punct r0 && negb (r0 =? 10) && (1 <? length v)%nat
             || negb (is_punct r0 && negb (r0 =? 10)) && negb (unicode_IsPrint r0)) v = false).
  { destruct (existsb _ v) eqn:E; [|reflexivity]. apply existsb_exists in E as (c & Hin & E).
    rewrite Forall_forall in Hr. specialize (Hr c Hin).
    assert (Hp : is_punct c = false) by (unfold is_punct; repeat (apply orb_false_iff; split); apply Z.eqb_neq; lia).
    rewrite Hp in E. cbn [andb negb] in E. rewrite (isprint_range c ltac:(lia)) in E. cbn [negb andb] in E.
    rewrite !orb_false_r in E. repeat (apply orb_true_iff in E as [E|E]); apply Z.eqb_eq in E; lia. }
  rewrite E1. cbn [orb].
  assert (E2 : Parse.is_nil v = false) by (rewrite Ev; reflexivity). rewrite E2. cbn [orb].
  assert (Hns : ~ In 47 v) by (intros Hin; rewrite Forall_forall in Hr; specialize (Hr 47 Hin); lia).
  rewrite !(no_slash_sub v _ Hns). reflexivity.
Qed.

Lemma valid_token v : is_valid v = true ->
  parse_string v = Some (v, v) /\ tok_good v /\ auto_quote v = v.
Proof.
  intros Hv. destruct (valid_plain v Hv) as (Hb & Hne & Hl & Hmq).
  destruct (auto_quote_token v Hb Hne Hl) as (A & B & C & D).
  assert (E : auto_quote v = v) by (unfold auto_quote; rewrite Hmq; reflexivity). rewrite E in *.
  split; [exact B|]. split; [split; [exact A|split; assumption]|reflexivity].
Qed.

(* ---------------------------------------------------------------- parseString, parseVersion *)

Lemma parse_string_tok t s tok : parse_string t = Some (s, tok) -> tok = auto_quote s.
Proof.
  unfold parse_string. destruct (has_prefix t [34]).
  - destruct (unquote t); [|discriminate]. intros [= <- <-]. reflexivity.
  - destruct (contains_any t [34; 39; 96]); [discriminate|]. intros [= <- <-]. reflexivity.
Qed.

Lemma parse_string_fix t s tok : parse_string t = Some (s, tok) -> path_ok s ->
  parse_string tok = Some (s, tok) /\ tok_good tok.
Proof.
  intros H (Hb & Hne & Hl). rewrite (parse_string_tok _ _ _ H).
  destruct (auto_quote_token s Hb Hne Hl) as (A & B & C & D). split; [exact B|]. split; [exact A|split; assumption].
Qed.

Lemma parse_version_some fx p t tok v : parse_version fx p t = (tok, Some v) -> tok = v.
Proof.
  unfold parse_version. destruct (parse_string t) as [[t' tok1]|]; [|discriminate].
  destruct fx as [g|].
  - destruct (g p t'); [|discriminate]. intros [= <- <-]. reflexivity.
  - destruct (Parse.is_nil (canonical_version t')); [discriminate|]. intros [= <- <-]. reflexivity.
Qed.

Lemma parse_version_fix fx p t tok v : parse_version fx p t = (tok, Some v) -> is_valid v = true -> fix_idem fx ->
  parse_version fx p v = (v, Some v) /\ tok_good v.
Proof.
  intros H Hv Hfx. destruct (valid_token v Hv) as (Hps & Hg & _). split; [|exact Hg].
  unfold parse_version in *. rewrite Hps.
  destruct (parse_string t) as [[t' tok1]|]; [|discriminate].
  destruct fx as [g|].
  - destruct (g p t') as [fixed|] eqn:Eg; [|discriminate]. injection H as _ <-. cbn in Hfx. rewrite (Hfx _ _ _ Eg). reflexivity.
  - destruct (Parse.is_nil (canonical_version t')) eqn:En; [discriminate|]. injection H as _ <-.
    rewrite canonical_version_idem, En. reflexivity.
Qed.

Lemma dont_fix_idem : fix_idem dont_fix.
Proof. cbn. intros p x y [= <-]. reflexivity. Qed.

(* the original token at a place the directive layer rewrites is not a parenthesis either
   (its value would be a lone parenthesis or an invalid version) *)
Lemma parse_string_noparen t s tok : parse_string t = Some (s, tok) -> path_ok s ->
  is_lp t = false /\ is_rp t = false.
Proof.
  intros H (_ & _ & Hl). split.
  - destruct (is_lp t) eqn:E; [|reflexivity]. apply is_lp_eq in E. subst t. cbn in H. injection H as <- _.
    specialize (Hl 40 eq_refl). discriminate.
  - destruct (is_rp t) eqn:E; [|reflexivity]. apply is_rp_eq in E. subst t. cbn in H. injection H as <- _.
    specialize (Hl 41 eq_refl). discriminate.
Qed.

Lemma valid_first v : is_valid v = true -> exists r, v = 118 :: r.
Proof. intros H. apply valid_chars in H. apply H. Qed.

(* the original token of a version is not a parenthesis *)
Lemma parse_version_noparen fx p t tok v : parse_version fx p t = (tok, Some v) -> fix_noparen fx ->
  is_lp t = false /\ is_rp t = false.
Proof.
  unfold parse_version. intros H Hfx.
  assert (Hps : forall c, t = [c] -> c < 128 -> c <> 34 -> c <> 39 -> c <> 96 -> parse_string t = Some ([c], auto_quote [c])).
  { intros c -> H1 H2 H3 H4. unfold parse_string. cbn [has_prefix contains_any existsb].
    apply Z.eqb_neq in H2, H3, H4. rewrite (Z.eqb_sym 34 c), H2, H3, H4. reflexivity. }
  split.
  - destruct (is_lp t) eqn:E; [|reflexivity]. apply is_lp_eq in E. rewrite (Hps 40 E) in H by lia. subst t.
    destruct fx as [g|]; [|cbn in H; discriminate].
    destruct (g p [40]) eqn:Eg; [|discriminate]. destruct (Hfx _ _ _ Eg) as (A & _ & _). discriminate.
  - destruct (is_rp t) eqn:E; [|reflexivity]. apply is_rp_eq in E. rewrite (Hps 41 E) in H by lia. subst t.
    destruct fx as [g|]; [|cbn in H; discriminate].
    destruct (g p [41]) eqn:Eg; [|discriminate]. destruct (Hfx _ _ _ Eg) as (_ & A & _). discriminate.
Qed.

(* with the fixer of retract (dontFixRetract) the version is the unquoted token *)
Lemma parse_version_dontfix_noparen p t tok v : parse_version dont_fix p t = (tok, Some v) -> is_valid v = true ->
  is_lp t = false /\ is_rp t = false.
Proof.
  unfold parse_version, dont_fix. intros H Hv. split.
  - destruct (is_lp t) eqn:E; [|reflexivity]. apply is_lp_eq in E. subst t. cbn in H. injection H as _ <-. discriminate.
  - destruct (is_rp t) eqn:E; [|reflexivity]. apply is_rp_eq in E. subst t. cbn in H. injection H as _ <-. discriminate.
Qed.

(* a rewritten token: unchanged, or a good token in place of one that was no parenthesis *)
Definition tsub (t t' : str) : Prop := t' = t \/ (tok_good t' /\ is_lp t = false /\ is_rp t = false).

Lemma tsub_refl t : tsub t t.
Proof. left. reflexivity. Qed.

Lemma tsub_all_refl l : Forall2 tsub l l.
Proof. induction l; constructor; [apply tsub_refl|assumption]. Qed.

Lemma tsub_string t s tok : parse_string t = Some (s, tok) -> path_ok s -> tsub t tok.
Proof.
  intros H Hp. right. destruct (parse_string_fix _ _ _ H Hp) as (_ & G). destruct (parse_string_noparen _ _ _ H Hp). auto.
Qed.

Lemma tsub_version fx p t tok v : parse_version fx p t = (tok, Some v) -> is_valid v = true -> fixer_ok fx -> tsub t tok.
Proof.
  intros H Hv (Hi & Hn). right. rewrite (parse_version_some _ _ _ _ _ H).
  destruct (parse_version_fix _ _ _ _ _ H Hv Hi) as (_ & G). destruct (parse_version_noparen _ _ _ _ _ H Hn). auto.
Qed.

Lemma tsub_version_df p t tok v : parse_version dont_fix p t = (tok, Some v) -> is_valid v = true -> tsub t tok.
Proof.
  intros H Hv. right. rewrite (parse_version_some _ _ _ _ _ H).
  destruct (parse_version_fix _ _ _ _ _ H Hv dont_fix_idem) as (_ & G).
  destruct (parse_version_dontfix_noparen _ _ _ _ H Hv). auto.
Qed.

Lemma parse_version_nonnil fx p t tok v : parse_version fx p t = (tok, Some v) -> fix_noparen fx -> v <> [].
Proof.
  unfold parse_version. intros H Hfx. destruct (parse_string t) as [[t' tok1]|]; [|discriminate].
  destruct fx as [g|].
  - destruct (g p t') eqn:Eg; [|discriminate]. injection H as _ <-. apply (Hfx _ _ _ Eg).
  - destruct (Parse.is_nil (canonical_version t')) eqn:En; [discriminate|]. injection H as _ <-.
    destruct (canonical_version t'); [discriminate|discriminate].
Qed.
