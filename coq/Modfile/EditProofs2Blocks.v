(* C15, SetRequireSeparateIndirect, part 1: the block-level helpers (insertBlock, ensureBlock,
   append to a block by identity, emptying a line) keep the tree well shaped and change the
   view of the tree in the expected way.

   Blocks are addressed by identity ([hb_id], Go: *LineBlock pointers).  [BlockIdsOk]: the
   identities of the blocks of the tree are pairwise different and below the allocation
   counter [nbid] — a well-formedness condition of the model state that Go's pointers satisfy
   by construction (and that the decoder of the correspondence run establishes). *)
From Coq Require Import Permutation.
From Verif.Base Require Import Bytes.
From Verif.Modfile Require Import EditModel EditOps EditSpec EditProofsTyped EditProofsHeap EditProofsCoherent
  EditProofsCleanup EditProofsAddLine EditProofsAdd EditProofsUpsert.

Arguments hget : simpl never.
Arguments hset : simpl never.

(* ---------------------------------------------------------------- block identities *)
Definition stmt_bids (st : stmt) : list nat := match st with SBlock b => [hb_id b] | _ => [] end.
Definition block_ids (L : list stmt) : list nat := flat_map stmt_bids L.

Record BlockIdsOk (s : syntax) : Prop := {
  bi_nodup : NoDup (block_ids (stmts s));
  bi_fresh : Forall (fun i => (i < nbid s)%nat) (block_ids (stmts s))
}.

Lemma block_ids_app a b : block_ids (a ++ b) = block_ids a ++ block_ids b.
Proof. apply flat_map_app. Qed.

Lemma block_ids_cons st L : block_ids (st :: L) = stmt_bids st ++ block_ids L.
Proof. reflexivity. Qed.

Lemma in_block_ids b L : In (SBlock b) L -> In (hb_id b) (block_ids L).
Proof. intros H. apply in_flat_map. exists (SBlock b). split; [exact H | left; reflexivity]. Qed.

(* a require block with identity bid is in the statement list *)
Definition has_req_block (L : list stmt) (bid : nat) : Prop :=
  exists b, In (SBlock b) L /\ hb_id b = bid /\ hb_tok b = [v_require].

Lemma syntax_ok_intro s :
  NoDup (ids_of (stmts_lines (stmts s))) -> Forall (placed (heap s)) (stmts_lines (stmts s)) ->
  Forall block_ok (stmts s) -> SyntaxOk s.
Proof. intros A B C. split; assumption. Qed.

Lemma tree_view_V s : tree_view s = V (heap s) (stmts s).
Proof. reflexivity. Qed.

Lemma placed_lt h x : placed h x -> (fst x < length h)%nat.
Proof. intros [H _]. exact H. Qed.

(* ---------------------------------------------------------------- appending to a block *)
Definition app1 (bid : nat) (n : lid) (st : stmt) : stmt :=
  match st with
  | SBlock b => if Nat.eqb (hb_id b) bid then SBlock (block_with_lines b (hb_lines b ++ [n])) else st
  | _ => st
  end.

Lemma append_to_block_stmts s bid n : stmts (append_to_block s bid n) = map (app1 bid n) (stmts s).
Proof. reflexivity. Qed.

Lemma app1_notin bid n L : ~ In bid (block_ids L) -> map (app1 bid n) L = L.
Proof.
  induction L as [|st r IH]; intros H; [reflexivity|]. cbn [map]. rewrite block_ids_cons in H.
  rewrite IH by (intros Hin; apply H; apply in_app_iff; right; exact Hin). f_equal.
  destruct st as [i|b|c]; try reflexivity. cbn [app1].
  destruct (Nat.eqb_spec (hb_id b) bid) as [E|E]; [|reflexivity].
  exfalso. apply H. apply in_app_iff. left. left. exact E.
Qed.

Lemma app1_bids bid n L : block_ids (map (app1 bid n) L) = block_ids L.
Proof.
  induction L as [|st r IH]; [reflexivity|]. cbn [map]. rewrite !block_ids_cons, IH. f_equal.
  destruct st as [i|b|c]; try reflexivity. cbn [app1]. destruct (Nat.eqb (hb_id b) bid); reflexivity.
Qed.

Lemma app1_block_ok bid n L : Forall block_ok L -> Forall block_ok (map (app1 bid n) L).
Proof.
  intros H. apply Forall_forall. intros x Hx. apply in_map_iff in Hx. destruct Hx as [st [<- Hin]].
  rewrite Forall_forall in H. specialize (H st Hin).
  destruct st as [i|b|c]; try exact H. cbn [app1]. destruct (Nat.eqb (hb_id b) bid); exact H.
Qed.

Lemma app1_has_req bid n L x : has_req_block L x -> has_req_block (map (app1 bid n) L) x.
Proof.
  intros [b [Hin [Hid Htok]]].
  destruct (Nat.eqb (hb_id b) bid) eqn:E.
  - exists (block_with_lines b (hb_lines b ++ [n])). split; [|split; assumption].
    apply in_map_iff. exists (SBlock b). split; [cbn [app1]; rewrite E; reflexivity | exact Hin].
  - exists b. split; [|split; assumption].
    apply in_map_iff. exists (SBlock b). split; [cbn [app1]; rewrite E; reflexivity | exact Hin].
Qed.

Lemma append_lines bid n b : forall L,
  NoDup (block_ids L) -> In (SBlock b) L -> hb_id b = bid ->
  Permutation (stmts_lines (map (app1 bid n) L)) ((n, Some (hd [] (hb_tok b))) :: stmts_lines L).
Proof.
  induction L as [|st r IH]; intros Hnd Hin Hid; [destruct Hin|].
  rewrite block_ids_cons in Hnd. cbn [map]. rewrite !stmts_lines_cons.
  destruct Hin as [->|Hin].
  - (* the block is the head: no other block carries its identity *)
    cbn [stmt_bids app] in Hnd. inversion Hnd as [|? ? Hni Hr]; subst.
    rewrite app1_notin by exact Hni. cbn [app1]. rewrite Nat.eqb_refl.
    cbn [stmt_lines block_with_lines hb_lines hb_tok]. rewrite map_app. cbn [map].
    rewrite <- app_assoc. cbn [app]. symmetry. apply Permutation_middle.
  - assert (Hst : app1 bid n st = st).
    { destruct st as [i|b0|c]; try reflexivity. cbn [app1].
      destruct (Nat.eqb_spec (hb_id b0) bid) as [E|E]; [|reflexivity].
      exfalso. cbn [stmt_bids app] in Hnd. apply NoDup_cons_iff in Hnd. destruct Hnd as [Hni _].
      apply Hni. rewrite E, <- Hid. apply in_block_ids. exact Hin. }
    rewrite Hst.
    etransitivity; [apply Permutation_app_head; apply IH; [exact (NoDup_app_r _ _ Hnd) | exact Hin | exact Hid]|].
    symmetry. apply Permutation_middle.
Qed.

(* a new line (InBlock, no verb) is allocated and appended to the require block bid *)
Lemma append_new_ok s bid lnew args :
  SyntaxOk s -> NoDup (block_ids (stmts s)) -> has_req_block (stmts s) bid ->
  hl_tok lnew = args -> args <> [] -> hl_inb lnew = true ->
  let n := length (heap s) in
  let s' := append_to_block (fst (salloc s lnew)) bid n in
  SyntaxOk s' /\
  Permutation (tree_view s') ((n, v_require, norm_args v_require args lnew) :: tree_view s).
Proof.
  intros [H1 H2 H3] Hnd [b [Hin [Hid Htok]]] Ht Ha Hb n s'.
  assert (Hheap : heap s' = heap s ++ [lnew]) by reflexivity.
  assert (Hstm : stmts s' = map (app1 bid n) (stmts s)) by reflexivity.
  pose proof (append_lines bid n b (stmts s) Hnd Hin Hid) as P. rewrite Htok in P. cbn [hd] in P.
  assert (Hpl_new : placed (heap s ++ [lnew]) (n, Some v_require)).
  { unfold placed; cbn [fst snd]. unfold n. rewrite hget_app_new, app_length. cbn.
    split; [lia | split; [exact Hb | exact I]]. }
  split.
  - apply syntax_ok_intro.
    + rewrite Hstm. eapply Permutation_NoDup; [symmetry; apply Permutation_map; exact P|].
      cbn [map fst]. constructor; [|exact H1]. intros Hi. apply in_map_iff in Hi. destruct Hi as [x [Hx Hi]].
      rewrite Forall_forall in H2. pose proof (placed_lt _ _ (H2 x Hi)) as Hl. unfold n in Hx. rewrite Hx in Hl. lia.
    + rewrite Hstm, Hheap. eapply Permutation_Forall; [symmetry; exact P|].
      constructor; [exact Hpl_new|]. eapply Forall_impl; [|exact H2]. intros x. apply placed_app_new.
    + rewrite Hstm. apply app1_block_ok. exact H3.
  - rewrite !tree_view_V, Hstm, Hheap. unfold V.
    etransitivity; [apply Permutation_flat_map; exact P|]. cbn [flat_map].
    assert (El : lview (heap s ++ [lnew]) (n, @Some (list Z) v_require) = [(n, v_require, norm_args v_require args lnew)]).
    { unfold lview; cbn [fst snd]. unfold n. rewrite hget_app_new, Ht. destruct args as [|a r]; [congruence | reflexivity]. }
    match goal with |- Permutation (?a ++ _) _ => replace a with [(n, v_require, norm_args v_require args lnew)] by (symmetry; exact El) end.
    cbn [app]. apply perm_skip.
    rewrite (flat_lview_frame (heap s)); [reflexivity|].
    intros x Hx. rewrite Forall_forall in H2. apply hget_app_old. exact (placed_lt _ _ (H2 x Hx)).
Qed.

(* ---------------------------------------------------------------- emptying a line *)
Lemma sget_sset_dead s i l' : hl_tok l' = [] -> hl_tok (sget (sset s i l') i) = [].
Proof.
  intros H. destruct (Nat.lt_ge_cases i (heap_len s)) as [Hl|Hl].
  - rewrite sget_sset_same by exact Hl. exact H.
  - unfold sget, sset, hget; cbn. rewrite nth_overflow; [reflexivity | rewrite hset_length; exact Hl].
Qed.

Lemma tree_view_kill s i l' :
  hl_tok l' = [] -> hl_inb l' = hl_inb (sget s i) -> SyntaxOk s ->
  SyntaxOk (sset s i l') /\ tree_view (sset s i l') = rm [i] (tree_view s).
Proof.
  intros Ht Hb [H1 H2 H3]. split.
  - split; [exact H1 | | exact H3].
    change (tree_lines (sset s i l')) with (tree_lines s).
    eapply Forall_impl; [|exact H2]. intros x [Hl [Hbx Htx]]. split; [|split].
    + change (length (heap (sset s i l'))) with (heap_len (sset s i l')). rewrite sset_len. exact Hl.
    + destruct (Nat.eq_dec i (fst x)) as [E|Hn]; [|rewrite sget_sset_other by exact Hn; exact Hbx].
      rewrite <- E in *. rewrite sget_sset_same by exact Hl. rewrite Hb. exact Hbx.
    + destruct (snd x); [exact I|].
      destruct (Nat.eq_dec i (fst x)) as [E|Hn]; [|rewrite sget_sset_other by exact Hn; exact Htx].
      rewrite <- E. rewrite sget_sset_dead by exact Ht. cbn. lia.
  - unfold tree_view. change (tree_lines (sset s i l')) with (tree_lines s).
    rewrite rm_flat_map. apply flat_map_ext. intros x.
    destruct (Nat.eq_dec (fst x) i) as [E|E].
    + rewrite rm_all.
      * unfold line_view. rewrite E, sget_sset_dead by exact Ht. reflexivity.
      * intros y Hy. left. rewrite (line_view_vid s x y Hy). symmetry. exact E.
    + rewrite rm_disjoint.
      * unfold line_view. rewrite sget_sset_other by congruence. reflexivity.
      * intros y Hy [Hi|[]]. apply E. rewrite <- (line_view_vid s x y Hy). symmetry. exact Hi.
Qed.

(* ---------------------------------------------------------------- insertBlock *)
Lemma in_firstn_skipn {A} (x y : A) k L : In x L -> In x (firstn k L ++ y :: skipn k L).
Proof.
  intros H. rewrite <- (firstn_skipn k L) in H. apply in_app_iff in H. apply in_app_iff.
  destruct H; [left | right; right]; assumption.
Qed.

Lemma stmts_lines_app a b : stmts_lines (a ++ b) = stmts_lines a ++ stmts_lines b.
Proof. apply flat_map_app. Qed.

Lemma insert_block_stmts s i :
  stmts (fst (insert_block s i)) =
  firstn (Z.to_nat i) (stmts s) ++ SBlock (empty_require_block (nbid s)) :: skipn (Z.to_nat i) (stmts s).
Proof. reflexivity. Qed.

Lemma insert_block_ok s i :
  SyntaxOk s -> BlockIdsOk s ->
  let s1 := fst (insert_block s i) in
  SyntaxOk s1 /\ tree_view s1 = tree_view s /\ BlockIdsOk s1 /\ heap s1 = heap s /\
  snd (insert_block s i) = nbid s /\ has_req_block (stmts s1) (nbid s) /\
  (forall x, has_req_block (stmts s) x -> has_req_block (stmts s1) x).
Proof.
  intros [H1 H2 H3] [B1 B2] s1.
  set (k := Z.to_nat i).
  assert (Hst : stmts s1 = firstn k (stmts s) ++ SBlock (empty_require_block (nbid s)) :: skipn k (stmts s)) by reflexivity.
  assert (Hh : heap s1 = heap s) by reflexivity.
  assert (Hl : stmts_lines (stmts s1) = stmts_lines (stmts s)).
  { rewrite Hst, stmts_lines_app, stmts_lines_cons. cbn [stmt_lines empty_require_block hb_lines map app].
    rewrite <- stmts_lines_app, firstn_skipn. reflexivity. }
  assert (Hb : Permutation (block_ids (stmts s1)) (nbid s :: block_ids (stmts s))).
  { rewrite Hst, block_ids_app, block_ids_cons. cbn [stmt_bids empty_require_block hb_id app].
    rewrite <- (firstn_skipn k (stmts s)) at 3. rewrite block_ids_app. symmetry. apply Permutation_middle. }
  split; [|split; [|split; [|split; [|split; [|split]]]]].
  - apply syntax_ok_intro.
    + rewrite Hl. exact H1.
    + rewrite Hl, Hh. exact H2.
    + rewrite Hst. apply Forall_app. split.
      * apply Forall_forall. intros x Hx. rewrite Forall_forall in H3. apply H3.
        rewrite <- (firstn_skipn k (stmts s)). apply in_app_iff. left. exact Hx.
      * constructor; [split; reflexivity|]. apply Forall_forall. intros x Hx. rewrite Forall_forall in H3. apply H3.
        rewrite <- (firstn_skipn k (stmts s)). apply in_app_iff. right. exact Hx.
  - rewrite !tree_view_V. unfold V. rewrite Hl, Hh. reflexivity.
  - split.
    + eapply Permutation_NoDup; [symmetry; exact Hb|]. constructor; [|exact B1].
      intros Hin. rewrite Forall_forall in B2. specialize (B2 _ Hin). lia.
    + eapply Permutation_Forall; [symmetry; exact Hb|]. cbn. constructor; [lia|].
      eapply Forall_impl; [|exact B2]. cbn. intros a Ha. lia.
  - exact Hh.
  - reflexivity.
  - exists (empty_require_block (nbid s)). split; [|split; reflexivity].
    rewrite Hst. apply in_app_iff. right. left. reflexivity.
  - intros x [b [Hin Hrest]]. exists b. split; [|exact Hrest]. rewrite Hst. apply in_firstn_skipn. exact Hin.
Qed.

(* ---------------------------------------------------------------- ensureBlock *)
Lemma nth_error_split' {A} (L : list A) k x :
  nth_error L k = Some x -> exists pre post, L = pre ++ x :: post /\ length pre = k.
Proof. apply nth_error_split. Qed.

Lemma set_nth_split {A} (pre post : list A) x y : set_nth (length pre) y (pre ++ x :: post) = pre ++ y :: post.
Proof. induction pre as [|a r IH]; cbn; [reflexivity | rewrite IH; reflexivity]. Qed.

(* the statement at index i is a require line or a require block *)
Definition req_stmt (s : syntax) (st : stmt) : Prop :=
  match st with
  | SLine j => hd_is (hl_tok (sget s j)) v_require = true
  | SBlock b => hd_is (hb_tok b) v_require = true
  | SComment _ => False
  end.
Definition req_at (s : syntax) (z : Z) : Prop :=
  0 <= z /\ exists st, nth_error (stmts s) (Z.to_nat z) = Some st /\ req_stmt s st.

Lemma hd_is_block_tok (b : hblock) : block_ok (SBlock b) -> hd_is (hb_tok b) v_require = true -> hb_tok b = [v_require].
Proof.
  intros [Hl _] Hh. destruct (hb_tok b) as [|t [|? ?]]; cbn in Hl; try discriminate.
  cbn in Hh. apply str_eqb_eq in Hh. subst. reflexivity.
Qed.

Lemma ensure_block_ok s z s1 bid :
  SyntaxOk s -> BlockIdsOk s -> req_at s z -> ensure_block s z = Some (s1, bid) ->
  SyntaxOk s1 /\ tree_view s1 = tree_view s /\ BlockIdsOk s1 /\ has_req_block (stmts s1) bid /\
  (forall x, has_req_block (stmts s) x -> has_req_block (stmts s1) x) /\
  (forall z', req_at s z' -> req_at s1 z') /\
  (heap_len s1 = heap_len s) /\
  (forall j, hl_com (sget s1 j) = hl_com (sget s j)).
Proof.
  intros Hs Hb [Hz [st [Hnth Hreq]]] He. unfold ensure_block in He. rewrite Hnth in He.
  destruct st as [j|b|c]; [| |destruct Hreq].
  - (* a line becomes a block of its own *)
    injection He as <- <-.
    destruct (nth_error_split' _ _ _ Hnth) as [pre [post [EL Hk]]].
    pose proof Hs as [H1 H2 H3]. destruct Hb as [B1 B2]. cbn [req_stmt] in Hreq.
    set (l := sget s j) in *.
    set (l' := mkHL (hl_com l) (tl (hl_tok l)) true).
    set (nb := mkHB (nbid s) no_coms no_coms [v_require] [j] no_coms).
    cbn [fresh_bid] in *.
    match goal with |- SyntaxOk ?t /\ _ => set (s1 := t) end.
    assert (Hst : stmts s1 = pre ++ SBlock nb :: post).
    { unfold s1. cbn [stmts with_stmts fst sset]. rewrite EL, <- Hk. apply set_nth_split. }
    assert (Hh : heap s1 = hset (heap s) j l') by reflexivity.
    rewrite tree_lines_stmts in H1, H2. change (Forall (placed (heap s)) (stmts_lines (stmts s))) in H2.
    rewrite EL in H1, H2, H3, B1, B2.
    rewrite stmts_lines_app, stmts_lines_cons in H1, H2. cbn [stmt_lines] in H1, H2.
    unfold ids_of in H1. rewrite map_app in H1. cbn [map fst app] in H1.
    apply Forall_app in H2. destruct H2 as [H2a H2b]. inversion H2b as [|? ? Hpj H2c]; subst.
    destruct Hpj as [Hj_len [Hj_inb Hj_tok]]. cbn [fst snd] in *.
    destruct (hd_is_eq _ _ Hreq) as [ts Hts]. fold l in Hts.
    assert (Hts_ne : ts <> []).
    { intros ->. unfold sget in Hj_tok. fold (sget s j) in Hj_tok. fold l in Hj_tok. rewrite Hts in Hj_tok. cbn in Hj_tok. lia. }
    assert (Hj_pre : ~ In j (map fst (stmts_lines pre))).
    { intros Hin. eapply (NoDup_app_disj _ _ j H1); [exact Hin | left; reflexivity]. }
    assert (Hj_post : ~ In j (map fst (stmts_lines post))).
    { apply NoDup_app_r in H1. inversion H1; assumption. }
    assert (Hfr : forall x, In x (stmts_lines pre ++ stmts_lines post) -> hget (hset (heap s) j l') (fst x) = hget (heap s) (fst x)).
    { intros x Hx. apply hget_hset_other. intros Heq. apply in_app_iff in Hx.
      destruct Hx as [Hx|Hx]; [apply Hj_pre | apply Hj_post]; rewrite Heq; apply in_map; exact Hx. }
    assert (Hl : stmts_lines (stmts s1) = stmts_lines pre ++ (j, Some v_require) :: stmts_lines post).
    { rewrite Hst, stmts_lines_app, stmts_lines_cons. reflexivity. }
    split; [|split; [|split; [|split; [|split; [|split; [|split]]]]]].
    + apply syntax_ok_intro.
      * rewrite Hl. unfold ids_of. rewrite map_app. cbn [map fst]. exact H1.
      * rewrite Hl, Hh. apply Forall_app. split; [|constructor].
        -- apply Forall_forall. intros x Hx. rewrite Forall_forall in H2a.
           apply (placed_frame (heap s)); [apply hset_length | apply Hfr; apply in_app_iff; left; exact Hx | apply H2a; exact Hx].
        -- unfold placed; cbn [fst snd]. rewrite hset_length, hget_hset_same by exact Hj_len.
           split; [exact Hj_len | split; [reflexivity | exact I]].
        -- apply Forall_forall. intros x Hx. rewrite Forall_forall in H2c.
           apply (placed_frame (heap s)); [apply hset_length | apply Hfr; apply in_app_iff; right; exact Hx | apply H2c; exact Hx].
      * rewrite Hst. apply Forall_app in H3. destruct H3 as [H3a H3b]. inversion H3b; subst.
        apply Forall_app. split; [exact H3a|]. constructor; [split; reflexivity | assumption].
    + rewrite !tree_view_V. unfold V. rewrite Hl, Hh, EL, stmts_lines_app, stmts_lines_cons, !flat_map_app.
      cbn [stmt_lines flat_map].
      rewrite (flat_lview_frame (heap s) _ (stmts_lines pre)) by (intros x Hx; apply Hfr; apply in_app_iff; left; exact Hx).
      rewrite (flat_lview_frame (heap s) _ (stmts_lines post)) by (intros x Hx; apply Hfr; apply in_app_iff; right; exact Hx).
      f_equal. f_equal.
      unfold lview; cbn [fst snd]. rewrite hget_hset_same by exact Hj_len.
      unfold sget in l. fold l. unfold l'; cbn [hl_tok]. rewrite Hts. cbn [tl].
      destruct ts as [|t ts']; [congruence|]. reflexivity.
    + rewrite block_ids_app, block_ids_cons in B1, B2. cbn [stmt_bids app] in B1, B2. split.
      * rewrite Hst, block_ids_app, block_ids_cons. cbn [stmt_bids nb hb_id app].
        eapply Permutation_NoDup; [apply Permutation_middle|]. constructor; [|exact B1].
        intros Hin. rewrite Forall_forall in B2. specialize (B2 _ Hin). lia.
      * rewrite Hst, block_ids_app, block_ids_cons. cbn [stmt_bids nb hb_id app].
        change (nbid s1) with (S (nbid s)).
        eapply Permutation_Forall; [apply Permutation_middle|]. constructor; [lia|].
        eapply Forall_impl; [|exact B2]. cbn. intros a Ha. lia.
    + exists nb. split; [|split; reflexivity]. rewrite Hst. apply in_app_iff. right. left. reflexivity.
    + intros x [b [Hin Hrest]]. exists b. split; [|exact Hrest]. rewrite Hst. rewrite EL in Hin.
      apply in_app_iff in Hin. apply in_app_iff. destruct Hin as [Hin|[Hin|Hin]]; [left; exact Hin | discriminate | right; right; exact Hin].
    + intros z' [Hz' [st' [Hn' Hr']]]. split; [exact Hz'|].
      rewrite EL in Hn'. rewrite Hst.
      destruct (Nat.lt_ge_cases (Z.to_nat z') (length pre)) as [Hlt|Hge].
      * rewrite nth_error_app1 in Hn' |- * by exact Hlt. exists st'. split; [exact Hn'|].
        destruct st' as [j'|b'|c']; try exact Hr'. cbn [req_stmt] in *.
        assert (j' <> j).
        { intros ->. apply Hj_pre. apply nth_error_In in Hn'.
          apply in_map_iff. exists (j, None). split; [reflexivity|]. unfold stmts_lines. apply in_flat_map.
          exists (SLine j). split; [exact Hn' | left; reflexivity]. }
        unfold sget. rewrite Hh, hget_hset_other by congruence. exact Hr'.
      * rewrite nth_error_app2 in Hn' |- * by exact Hge.
        destruct (Z.to_nat z' - length pre)%nat as [|m] eqn:Em.
        -- cbn in Hn' |- *. exists (SBlock nb). split; reflexivity.
        -- cbn in Hn' |- *. exists st'. split; [exact Hn'|].
           destruct st' as [j'|b'|c']; try exact Hr'. cbn [req_stmt] in *.
           assert (j' <> j).
           { intros ->. apply Hj_post. apply nth_error_In in Hn'.
             apply in_map_iff. exists (j, None). split; [reflexivity|]. unfold stmts_lines. apply in_flat_map.
             exists (SLine j). split; [exact Hn' | left; reflexivity]. }
           unfold sget. rewrite Hh, hget_hset_other by congruence. exact Hr'.
    + unfold heap_len. rewrite Hh. apply hset_length.
    + intros j0. unfold sget. rewrite Hh. apply (hget_hset_proj hl_com). reflexivity.
  - (* already a block *)
    injection He as <- <-. pose proof Hs as [_ _ H3]. cbn [req_stmt] in Hreq.
    split; [exact Hs|]. split; [reflexivity|]. split; [exact Hb|].
    split; [|split; [auto | split; [auto | split; [reflexivity | reflexivity]]]].
    exists b. split; [eapply nth_error_In; eauto | split; [reflexivity|]].
    apply hd_is_block_tok; [|exact Hreq]. rewrite Forall_forall in H3. apply (H3 (SBlock b)). eapply nth_error_In; eauto.
Qed.
