(* Reparse, part 1: the string helpers of the edit model (EditModel.v) and of the directive
   layer (Directives.v) are two transcriptions of the same Go functions; here they are shown
   equal where the composition C15/C08 needs it: MustQuote / AutoQuote (on every string),
   isIndirect (on end-of-line comments without non-ASCII bytes: the edit model transcribes
   strings.Fields for ASCII white space only). *)
From Verif.Base Require Import Bytes Utf8 Utf8Proofs Strconv.
From Verif.Gen Require Import GenUnicode.
From Verif.Modfile Require Import Syntax Lex Parse Print Directives EditModel ProofsLex RoundQuote.

(* ---------------------------------------------------------------- contains_sub *)

Lemma index_sub_contains s sub :
  EditModel.contains_sub s sub = Directives.contains_sub s sub.
Proof.
  unfold EditModel.contains_sub. induction s as [|c r IH].
  - cbn [index_sub Directives.contains_sub]. destruct (has_prefix [] sub); reflexivity.
  - cbn [index_sub Directives.contains_sub]. destruct (has_prefix (c :: r) sub); [reflexivity|].
    cbn [orb]. rewrite <- IH. destruct (index_sub r sub); reflexivity.
Qed.

(* ---------------------------------------------------------------- MustQuote, AutoQuote *)

Lemma existsb_ext' {A} (f g : A -> bool) l : (forall x, f x = g x) -> existsb f l = existsb g l.
Proof. intros H. induction l as [|x l IH]; [reflexivity|]. cbn. rewrite H, IH. reflexivity. Qed.

Lemma must_quote_same s : EditModel.must_quote s = Directives.must_quote s.
Proof.
  unfold EditModel.must_quote, Directives.must_quote. cbv zeta.
  rewrite !index_sub_contains.
  assert (Hn : match s with [] => true | _ :: _ => false end = Parse.is_nil s) by (destruct s; reflexivity).
  rewrite Hn. f_equal. f_equal. f_equal.
  apply existsb_ext'. intros r.
    assert (Hl : (1 <? len s) = Nat.ltb 1 (length s)).
    { unfold len. destruct (Nat.ltb_spec 1 (length s)); [apply Z.ltb_lt|apply Z.ltb_ge]; lia. }
    rewrite Hl. unfold is_punct. generalize (Nat.ltb 1 (length s)) as b. intros b.
    generalize (unicode_IsPrint r) as pr. intros pr.
    destruct (r =? 32), (r =? 34), (r =? 39), (r =? 96); try reflexivity. cbn [orb].
    destruct (r =? 10) eqn:E10.
    { destruct (r =? 40) eqn:E; [apply Z.eqb_eq in E10, E; lia|]. destruct (r =? 41) eqn:E1; [apply Z.eqb_eq in E10, E1; lia|].
      destruct (r =? 91) eqn:E2; [apply Z.eqb_eq in E10, E2; lia|]. destruct (r =? 93) eqn:E3; [apply Z.eqb_eq in E10, E3; lia|].
      destruct (r =? 123) eqn:E4; [apply Z.eqb_eq in E10, E4; lia|]. destruct (r =? 125) eqn:E5; [apply Z.eqb_eq in E10, E5; lia|].
      destruct (r =? 44) eqn:E6; [apply Z.eqb_eq in E10, E6; lia|]. reflexivity. }
    destruct (r =? 40), (r =? 41), (r =? 91), (r =? 93), (r =? 123), (r =? 125), (r =? 44), b, pr; reflexivity.
Qed.

Lemma auto_quote_same s : EditModel.auto_quote s = Directives.auto_quote s.
Proof. unfold EditModel.auto_quote, Directives.auto_quote. rewrite must_quote_same. reflexivity. Qed.

(* ---------------------------------------------------------------- strings.Fields, isIndirect *)

Definition ascii (s : str) : Prop := Forall (fun c => c < 128) s.

Lemma space_ascii c : c < 128 -> unicode_IsSpace c = is_space_ascii c.
Proof.
  intros Hc. unfold is_space_ascii. destruct (unicode_IsSpace c) eqn:E.
  - destruct (isspace_cases c E) as [H|[H|H]]; [| |lia].
    + destruct (Z.leb_spec 9 c), (Z.leb_spec c 13); lia.
    + subst c. reflexivity.
  - destruct (c =? 32) eqn:E32; [apply Z.eqb_eq in E32; subst c; vm_compute in E; discriminate|].
    destruct (Z.leb_spec 9 c), (Z.leb_spec c 13); try reflexivity.
    assert (c = 9 \/ c = 10 \/ c = 11 \/ c = 12 \/ c = 13) as [->|[->|[->|[->| ->]]]] by lia; vm_compute in E; discriminate.
Qed.

Lemma fields_loop_ascii : forall n s cur acc, (length s < n)%nat -> ascii s ->
  fields_loop n s cur acc = rev acc ++ fields_aux s cur.
Proof.
  induction n as [|n IH]; intros s cur acc Hn Ha; [lia|]. cbn [fields_loop].
  destruct s as [|c r].
  - cbn [fields_aux]. rewrite frev_rev. destruct cur; [rewrite app_nil_r; reflexivity|].
    rewrite frev_rev. cbn [rev]. reflexivity.
  - inversion Ha as [|? ? Hc Hr]; subst. rewrite (decode_ascii c r Hc). cbn [skipn firstn fields_aux].
    rewrite (space_ascii c Hc). cbn [length] in Hn. destruct (is_space_ascii c).
    + rewrite IH by (auto; lia). destruct cur; [reflexivity|]. rewrite frev_rev. cbn [rev]. rewrite <- app_assoc. reflexivity.
    + rewrite IH by (auto; lia). reflexivity.
Qed.

Lemma fields_ascii s : ascii s -> Directives.fields s = EditModel.fields s.
Proof.
  intros H. unfold Directives.fields, EditModel.fields. rewrite fields_loop_ascii; [reflexivity|lia|exact H].
Qed.

Lemma trim_prefix_same s p : Directives.trim_prefix s p = EditModel.trim_prefix s p.
Proof. reflexivity. Qed.

Lemma ascii_skipn k s : ascii s -> ascii (skipn k s).
Proof. revert s. induction k as [|k IH]; intros s H; [exact H|]. destruct s; [constructor|]. inversion H; subst. apply IH. assumption. Qed.

Lemma ascii_trim_prefix s p : ascii s -> ascii (EditModel.trim_prefix s p).
Proof. intros H. unfold EditModel.trim_prefix. destruct (has_prefix s p); [apply ascii_skipn; exact H|exact H]. Qed.

(* isIndirect on the end-of-line comments [sfx] of a line, for both models *)
Definition ind_of (sfx : list str) : bool :=
  match sfx with
  | [] => false
  | c :: _ =>
      match EditModel.fields (EditModel.trim_prefix c slash_slash) with
      | [x] => str_eqb x (B "indirect")
      | x :: _ :: _ => str_eqb x (B "indirect;")
      | [] => false
      end
  end.

Lemma is_indirect_ind_of l : EditModel.is_indirect l = ind_of (c_suffix (hl_com l)).
Proof. reflexivity. Qed.

Lemma dir_is_indirect_to_line l :
  Forall ascii (c_suffix (hl_com l)) ->
  Directives.is_indirect (to_line l) = EditModel.is_indirect l.
Proof.
  intros H. unfold Directives.is_indirect, EditModel.is_indirect, to_line, to_comments. cbn [l_comments cm_suffix].
  destruct (c_suffix (hl_com l)) as [|c r]; [reflexivity|]. cbn [map to_comment c_token].
  rewrite trim_prefix_same. change [47; 47] with slash_slash.
  rewrite fields_ascii by (apply ascii_trim_prefix; exact (Forall_inv H)). reflexivity.
Qed.
