(* Reparse, part 13: executable mirrors of the hypotheses of typed_equals_reparse
   ([printableb], [tis_okb], [kokb]) with their soundness, so that the hypotheses can be
   evaluated on concrete states (non-vacuity examples, the witnesses of finding K6). *)
From Coq Require Import Permutation.
From Verif.Base Require Import Bytes QuoteProofs.
From Verif.Semver Require Import Model.
From Verif.Module Require Import Path.
From Verif.Modfile Require Import Syntax Lex Parse Print Directives ProofsLex RoundRows RoundLexPure3 RoundTree RoundQuote RoundDir1
  Reparse1 Reparse2 Reparse3 Reparse5 Reparse7 Reparse8 Reparse9 Reparse10 Reparse11 Reparse12 EditModel EditOps EditSpec.

(* ---------------------------------------------------------------- comments *)

Definition ctextb (x : str) : bool := has_prefix x [47; 47] && (count_lf x =? 0).
Definition sfx_okb (s : list str) : bool := forallb ctextb s && (length s <=? 1)%nat.
Definition bcom_okb (c : str) : bool := is_nil c || ctextb c.
Fixpoint no_adj_blankb (cs : list str) : bool :=
  match cs with
  | a :: r => (match r with b :: _ => negb (is_nil a) || negb (is_nil b) | [] => true end) && no_adj_blankb r
  | [] => true
  end.
Definition head_nonblankb (cs : list str) : bool := match cs with c :: _ => negb (is_nil c) | [] => true end.
Definition bcoms_okb (first : bool) (cs : list str) : bool :=
  forallb bcom_okb cs && no_adj_blankb cs && (negb first || head_nonblankb cs).

Lemma ctextb_ok x : ctextb x = true -> ctext x.
Proof. unfold ctextb. intros H. apply andb_true_iff in H as (A & B). split; [exact A|apply Z.eqb_eq; exact B]. Qed.

Lemma forallb_Forall {A} (p : A -> bool) (Q : A -> Prop) l : (forall x, p x = true -> Q x) -> forallb p l = true -> Forall Q l.
Proof. intros H Hl. rewrite forallb_forall in Hl. apply Forall_forall. intros x Hx. apply H, Hl, Hx. Qed.

Lemma sfx_okb_ok s : sfx_okb s = true -> sfx_ok s.
Proof.
  unfold sfx_okb. intros H. apply andb_true_iff in H as (A & B). split; [eapply forallb_Forall; [apply ctextb_ok|exact A]|].
  apply Nat.leb_le. exact B.
Qed.

Lemma is_nil_true {A} (l : list A) : is_nil l = true -> l = [].
Proof. destruct l; [reflexivity|discriminate]. Qed.

Lemma bcom_okb_ok c : bcom_okb c = true -> bcom_ok c.
Proof. unfold bcom_okb. intros H. apply orb_true_iff in H as [H|H]; [left; apply is_nil_true; exact H|right; apply ctextb_ok; exact H]. Qed.

Lemma no_adj_blankb_ok cs : no_adj_blankb cs = true -> no_adj_blank cs.
Proof.
  induction cs as [|a r IH]; cbn [no_adj_blankb no_adj_blank]; [auto|]. intros H. apply andb_true_iff in H as (A & B).
  split; [|apply IH; exact B]. destruct r as [|b r']; [exact I|]. intros -> ->. discriminate.
Qed.

Lemma bcoms_okb_ok first cs : bcoms_okb first cs = true -> bcoms_ok first cs.
Proof.
  unfold bcoms_okb. intros H. apply andb_true_iff in H as (H & C). apply andb_true_iff in H as (A & B).
  split; [eapply forallb_Forall; [apply bcom_okb_ok|exact A]|]. split; [apply no_adj_blankb_ok; exact B|].
  intros ->. cbn in C. destruct cs as [|c r]; [exact I|]. cbn in *. intros ->. discriminate.
Qed.

Definition bline_coms_okb (first : bool) (l : hline) : bool :=
  bcoms_okb first (c_before (hl_com l)) && sfx_okb (c_suffix (hl_com l)) && is_nil (c_after (hl_com l)).

Fixpoint blines_coms_okb (first : bool) (ls : list hline) : bool :=
  match ls with
  | [] => true
  | l :: r => bline_coms_okb first l && blines_coms_okb false r
  end.

Lemma blines_coms_okb_ok : forall ls first, blines_coms_okb first ls = true -> blines_coms_ok first ls.
Proof.
  induction ls as [|l ls IH]; intros first H; [exact I|]. cbn [blines_coms_okb blines_coms_ok] in *.
  apply andb_true_iff in H as (H & R). unfold bline_coms_okb in H.
  apply andb_true_iff in H as (H & C). apply andb_true_iff in H as (A & B).
  split; [|apply IH; exact R]. split; [apply bcoms_okb_ok; exact A|]. split; [apply sfx_okb_ok; exact B|apply is_nil_true; exact C].
Qed.

Definition stmt_coms_okb (h : list hline) (st : stmt) : bool :=
  match st with
  | SLine i =>
      let c := hl_com (hget h i) in
      forallb ctextb (c_before c) && sfx_okb (c_suffix c) && is_nil (c_after c)
  | SBlock b =>
      forallb ctextb (c_before (hb_com b)) && is_nil (c_suffix (hb_com b)) && is_nil (c_after (hb_com b)) &&
      is_nil (c_before (hb_lp b)) && sfx_okb (c_suffix (hb_lp b)) && is_nil (c_after (hb_lp b)) &&
      blines_coms_okb true (map (hget h) (hb_lines b)) &&
      bcoms_okb (is_nil (hb_lines b)) (c_before (hb_rp b)) && sfx_okb (c_suffix (hb_rp b)) && is_nil (c_after (hb_rp b))
  | SComment c => negb (is_nil (c_before c)) && forallb ctextb (c_before c) && is_nil (c_suffix c) && is_nil (c_after c)
  end.

Ltac andbs H := repeat match type of H with (_ && _) = true => let H' := fresh H in apply andb_true_iff in H as (H & H') end.

Lemma stmt_coms_okb_ok h st : stmt_coms_okb h st = true -> stmt_coms_ok h st.
Proof.
  destruct st as [i|b|c]; cbn [stmt_coms_okb stmt_coms_ok]; intros H.
  - andbs H. split; [eapply forallb_Forall; [apply ctextb_ok|exact H]|]. split; [apply sfx_okb_ok; assumption|apply is_nil_true; assumption].
  - andbs H. repeat split; try (apply is_nil_true; assumption); try (apply sfx_okb_ok; assumption);
      try (eapply forallb_Forall; [apply ctextb_ok|assumption]).
    + apply blines_coms_okb_ok. assumption.
    + apply (proj1 (bcoms_okb_ok _ _ H2)).
    + apply (proj1 (proj2 (bcoms_okb_ok _ _ H2))).
    + apply (proj2 (proj2 (bcoms_okb_ok _ _ H2))).
  - andbs H. split; [destruct (c_before c); [discriminate|discriminate]|].
    split; [eapply forallb_Forall; [apply ctextb_ok|assumption]|]. split; apply is_nil_true; assumption.
Qed.

Definition coms_okb (s : syntax) : bool :=
  is_nil (c_before (fcom s)) && is_nil (c_suffix (fcom s)) && is_nil (c_after (fcom s)) && forallb (stmt_coms_okb (heap s)) (stmts s).

Lemma coms_okb_ok s : coms_okb s = true -> ComsOk s.
Proof.
  unfold coms_okb. intros H. andbs H. split.
  - destruct (fcom s) as [a b c]. cbn in *. apply is_nil_true in H, H2, H1. subst. reflexivity.
  - eapply forallb_Forall; [apply stmt_coms_okb_ok|assumption].
Qed.

(* ---------------------------------------------------------------- readiness *)

Definition asciib (s : str) : bool := forallb (fun c => c <? 128) s.
Lemma asciib_ok s : asciib s = true -> ascii s.
Proof. apply forallb_Forall. intros c H. apply Z.ltb_lt. exact H. Qed.

Definition line_readyb (s : syntax) (i : lid) : bool :=
  negb (is_nil (hl_tok (sget s i))) && forallb asciib (c_suffix (hl_com (sget s i))).

Lemma line_readyb_ok s i : line_readyb s i = true -> line_ready s i.
Proof.
  unfold line_readyb. intros H. andbs H. split; [destruct (hl_tok (sget s i)); [discriminate|discriminate]|].
  eapply forallb_Forall; [apply asciib_ok|assumption].
Qed.

Definition stmt_readyb (s : syntax) (known : str -> bool) (st : stmt) : bool :=
  match st with
  | SLine i => line_readyb s i
  | SBlock b => match hb_tok b with [verb] => known verb | _ => false end && forallb (line_readyb s) (hb_lines b)
  | SComment _ => true
  end.

Lemma stmt_readyb_ok s known st : stmt_readyb s known st = true -> stmt_ready s known st.
Proof.
  destruct st as [i|b|c]; cbn [stmt_readyb stmt_ready]; intros H; [apply line_readyb_ok; exact H| |exact I].
  andbs H. split; [|eapply forallb_Forall; [apply line_readyb_ok|assumption]].
  destruct (hb_tok b) as [|verb [|? ?]]; try discriminate. exists verb. auto.
Qed.

Definition printableb (known : str -> bool) (s : syntax) : bool :=
  coms_okb s && forallb (stmt_readyb s known) (stmts s).

Theorem printableb_ok known s : printableb known s = true -> Printable known s.
Proof.
  unfold printableb. intros H. andbs H. split; [apply coms_okb_ok; exact H|].
  eapply forallb_Forall; [apply stmt_readyb_ok|assumption].
Qed.

Definition stmt_readyWb (s : syntax) (st : stmt) : bool :=
  match st with
  | SLine i => negb (is_nil (hl_tok (sget s i)))
  | SBlock b => match hb_tok b with [verb] => known_work_block verb | _ => false end
                && forallb (fun i => negb (is_nil (hl_tok (sget s i)))) (hb_lines b)
  | SComment _ => true
  end.

Lemma live_ok s i : negb (is_nil (hl_tok (sget s i))) = true -> Reparse7.line_live s i.
Proof. unfold Reparse7.line_live. destruct (hl_tok (sget s i)); [discriminate|discriminate]. Qed.

Definition printableWb (s : syntax) : bool := coms_okb s && forallb (stmt_readyWb s) (stmts s).

Theorem printableWb_ok s : printableWb s = true -> PrintableW s.
Proof.
  unfold printableWb. intros H. andbs H. split; [apply coms_okb_ok; exact H|].
  eapply forallb_Forall; [|eassumption]. intros st Hst.
  destruct st as [i|b|c]; cbn [stmt_readyWb stmt_readyW] in *; [apply live_ok; exact Hst| |exact I].
  andbs Hst. split; [|eapply forallb_Forall; [apply live_ok|assumption]].
  destruct (hb_tok b) as [|verb [|? ?]]; try discriminate. exists verb. auto.
Qed.

(* ---------------------------------------------------------------- items *)

Definition path_okb (p : str) : bool :=
  forallb (fun c => (0 <=? c) && (c <? 256)) p && negb (is_nil p) && match p with [c] => negb (is_punct c) | _ => true end.

Lemma path_okb_ok p : path_okb p = true -> path_ok p.
Proof.
  unfold path_okb. intros H. andbs H. split; [|split].
  - eapply forallb_Forall; [|exact H]. intros c Hc. apply andb_true_iff in Hc as (A & B). unfold byte.
    apply Z.leb_le in A. apply Z.ltb_lt in B. lia.
  - destruct p; [discriminate|discriminate].
  - intros c ->. apply negb_true_iff in H0. exact H0.
Qed.

Definition plainb (u : str) : bool := path_okb u && negb (Directives.must_quote u).
Lemma plainb_ok u : plainb u = true -> plain u.
Proof. unfold plainb. intros H. andbs H. split; [apply path_okb_ok; exact H|apply negb_true_iff; assumption]. Qed.

Definition pv_okb (p v : str) : bool :=
  path_okb p && is_valid v && str_eqb (canonical_version v) v &&
  match module_path_major p with Some pm => check_path_major v pm | None => false end.

Lemma pv_okb_ok p v : pv_okb p v = true -> pv_ok p v.
Proof.
  unfold pv_okb. intros H. andbs H. split; [apply path_okb_ok; exact H|]. split; [assumption|]. split; [apply str_eqb_eq; assumption|].
  destruct (module_path_major p) as [pm|]; [|discriminate]. exists pm. auto.
Qed.

Definition replace_okb (op ov np nv : str) : bool :=
  path_okb op && path_okb np &&
  match module_path_major op with
  | Some pm => is_nil ov || (is_valid ov && str_eqb (canonical_version ov) ov && check_path_major ov pm)
  | None => false
  end &&
  ((is_nil nv && is_directory_path np && negb (contains_byte 92 np)) ||
   (is_valid nv && str_eqb (canonical_version nv) nv && negb (is_directory_path np))).

Lemma replace_okb_ok a b c d : replace_okb a b c d = true -> replace_ok a b c d.
Proof.
  unfold replace_okb. intros H. andbs H. split; [apply path_okb_ok; exact H|]. split; [apply path_okb_ok; assumption|]. split.
  - destruct (module_path_major a) as [pm|]; [|discriminate]. exists pm. split; [reflexivity|].
    apply orb_true_iff in H1 as [E|E]; [left; apply is_nil_true; exact E|right]. andbs E. split; [exact E|]. split; [apply str_eqb_eq; assumption|assumption].
  - apply orb_true_iff in H0 as [E|E]; andbs E.
    + left. split; [apply is_nil_true; exact E|]. split; [assumption|apply negb_true_iff; assumption].
    + right. split; [exact E|]. split; [apply str_eqb_eq; assumption|apply negb_true_iff; assumption].
Qed.

Definition item_okb (it : item) : bool :=
  match it with
  | ItModule p _ => path_okb p
  | ItGo v => go_version_re v && plainb v
  | ItToolchain v => toolchain_re v && plainb v
  | ItGodebug k v => plainb (k ++ [61] ++ v) && negb (contains_any (k ++ [61] ++ v) [34; 96; 39; 44]) && negb (existsb (fun c => c =? 61) k)
  | ItRequire p v _ => pv_okb p v
  | ItExclude p v => pv_okb p v
  | ItReplace a b c d => replace_okb a b c d
  | ItRetract lo hi _ => is_valid lo && is_valid hi
  | ItTool p => path_okb p
  | ItUse p => path_okb p
  end.

Lemma item_okb_ok it : item_okb it = true -> item_ok it.
Proof.
  destruct it; cbn [item_okb item_ok]; intros H; andbs H;
    try (apply path_okb_ok; assumption); try (apply pv_okb_ok; assumption); try (apply replace_okb_ok; assumption).
  - split; [exact H|apply plainb_ok; assumption].
  - split; [exact H|apply plainb_ok; assumption].
  - split; [apply plainb_ok; exact H|]. split; [apply negb_true_iff; assumption|].
    intros Hin. apply negb_true_iff in H0. assert (existsb (fun c => c =? 61) k = true); [|congruence].
    apply existsb_exists. exists 61. split; [exact Hin|reflexivity].
  - auto.
Qed.

Definition mod_itemb (it : item) : bool := match it with ItUse _ => false | _ => true end.
Definition work_itemb (it : item) : bool :=
  match it with ItGo _ | ItToolchain _ | ItGodebug _ _ | ItUse _ | ItReplace _ _ _ _ => true | _ => false end.

Definition tis_okb (tis : list (lid * item)) : bool := forallb (fun x => item_okb (snd x) && mod_itemb (snd x)) tis.
Definition tis_okWb (tis : list (lid * item)) : bool := forallb (fun x => item_okb (snd x) && work_itemb (snd x)) tis.

Theorem tis_okb_ok tis : tis_okb tis = true -> tis_ok tis.
Proof.
  apply forallb_Forall. intros x H. andbs H. split; [apply item_okb_ok; exact H|]. destruct (snd x); try exact I. discriminate.
Qed.

Theorem tis_okWb_ok tis : tis_okWb tis = true -> tis_okW tis.
Proof.
  apply forallb_Forall. intros x H. andbs H. split; [apply item_okb_ok; exact H|]. destruct (snd x); try exact I; discriminate.
Qed.
