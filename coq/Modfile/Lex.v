(* The lexer of modfile/read.go (input.readRune, peekRune, peekPrefix, startToken,
   endToken, readToken, isIdent).  Definitions only; proofs in ProofsLex*.v.

   Go interleaves lexer and parser (one token of look-ahead; every error is a panic that
   ends the parse).  readToken does not depend on parser state, so the model lexes the
   whole input first: [lex data] is the list of tokens readToken would deliver, and how
   the token stream ends: with the EOF token ([LEnd], the EOF token is the last list
   element), or with the error readToken raises while reading the token that would come
   next ([LErr pos class], pos is in.pos at the call of in.Error).  Parse.v replays the
   parser's peek/lex calls over this list, so that a lexer error surfaces at exactly the
   lex() call at which the Go code would hit it.

   The lexer state keeps the consumed input (reversed) so that the whole-line/suffix
   decision for a comment can look back to the last newline as the Go code does.

   Panics of the Go code that are not parse errors, and in.Error calls whose text says
   "internal", are the value [..Panic]; running out of fuel is [..Fuel]. *)
From Verif.Base Require Import Bytes Utf8.
From Verif.Gen Require Import GenChars GenUnicode.
From Verif.Modfile Require Import Syntax.

(* coarse classes of the in.Error call sites of read.go *)
Inductive err_class :=
| EBlockComment      (* "mod files must use // comments (not /* */ comments)" *)
| EStringEOF         (* "unexpected EOF in string" *)
| EStringNewline     (* "unexpected newline in string" *)
| EBadChar           (* "unexpected input character ..." *)
| EUnterminatedBlock (* "syntax error (unterminated block started at ...)" *)
| EExpectedNewline.  (* "syntax error (expected newline after closing paren)" *)

Definition err_code (e : err_class) : Z :=
  match e with
  | EBlockComment => 1 | EStringEOF => 2 | EStringNewline => 3 | EBadChar => 4
  | EUnterminatedBlock => 5 | EExpectedNewline => 6
  end.

(* tokenKind: the named kinds, and punctuation / newline as their ASCII code *)
Inductive tkind := KEOF | KEOLComment | KIdent | KString | KComment | KPunct (c : Z).

Record token := mkTok {
  t_kind : tkind;
  t_pos  : position;    (* token.pos *)
  t_end  : position;    (* token.endPos *)
  t_text : str
}.

(* tokenKind.isEOL *)
Definition is_eol (k : tkind) : bool :=
  match k with
  | KEOF | KEOLComment => true
  | KPunct c => c =? 10
  | _ => false
  end.

Definition is_eof (k : tkind) : bool := match k with KEOF => true | _ => false end.

Record lstate := mkL {
  ls_rem  : str;        (* in.remaining *)
  ls_pos  : position;   (* in.pos *)
  ls_done : str         (* the consumed input in.complete[:in.pos.Byte], reversed *)
}.

Definition init_state (data : str) : lstate := mkL data (mkPos 1 1 0) [].

(* list reversal in linear time (List.rev is quadratic); frev l = rev l *)
Definition frev {A} (l : list A) : list A := rev_append l [].

(* read.go isIdent, regenerated from the source *)
Definition is_ident (c : Z) : bool := modfile_isIdent c.

Definition eof (st : lstate) : bool := match ls_rem st with [] => true | _ => false end.

(* peekRune *)
Definition peek_rune (st : lstate) : Z :=
  match ls_rem st with
  | [] => 0
  | _ => fst (Utf8.decode (ls_rem st))
  end.

(* peekPrefix *)
Definition peek_prefix (st : lstate) (p : str) : bool := has_prefix (ls_rem st) p.

(* readRune; None is the "internal lexer error: readRune at EOF" *)
Definition read_rune (st : lstate) : option (Z * lstate) :=
  match ls_rem st with
  | [] => None
  | _ =>
      let (r, w) := Utf8.decode (ls_rem st) in
      let p := ls_pos st in
      let p' := if r =? 10 then mkPos (p_line p + 1) 1 (p_byte p + Z.of_nat w)
                else mkPos (p_line p) (p_col p + 1) (p_byte p + Z.of_nat w) in
      Some (r, mkL (skipn w (ls_rem st)) p' (rev_append (firstn w (ls_rem st)) (ls_done st)))
  end.

Inductive tok_result :=
| TTok (t : token) (st : lstate)
| TErr (p : position) (e : err_class)
| TPanic
| TFuel.

(* the text between startToken and endToken; comment tokens lose one trailing LF or CRLF *)
Definition strip_eol (s : str) : str :=
  match frev s with
  | a :: r =>
      if a =? 10 then
        match r with
        | b :: r' => if b =? 13 then frev r' else frev r
        | [] => frev r
        end
      else s
  | [] => s
  end.

Definition is_comment_kind (k : tkind) : bool :=
  match k with KComment | KEOLComment => true | _ => false end.

(* startToken ... endToken(kind): [st0] is the state at startToken, [st] the state now *)
Definition end_token (k : tkind) (st0 st : lstate) : token :=
  let n := Z.to_nat (p_byte (ls_pos st) - p_byte (ls_pos st0)) in
  let text := firstn n (ls_rem st0) in
  mkTok k (ls_pos st0) (ls_pos st) (if is_comment_kind k then strip_eol text else text).

(* len(bytes.TrimSpace(b)) > 0: some rune of b is not white space *)
Definition has_non_space (b : str) : bool :=
  existsb (fun r => negb (unicode_IsSpace r)) (Utf8.runes b).

(* in.complete[i+1:in.pos.Byte] for i the index of the last LF before in.pos *)
Definition line_so_far (st : lstate) : str :=
  frev (fst (span (fun c => negb (c =? 10)) (ls_done st))).

(* "for len(in.remaining) > 0 && in.readRune() != '\n' {}" *)
Fixpoint comment_body (f : nat) (st : lstate) : option (option lstate) :=
  match f with
  | O => None
  | S f' =>
      match ls_rem st with
      | [] => Some (Some st)
      | _ => match read_rune st with
             | None => Some None
             | Some (r, st') => if r =? 10 then Some (Some st') else comment_body f' st'
             end
      end
  end.

(* the loop over the body of a quoted string, after the opening quote *)
Fixpoint string_body (f : nat) (quote : Z) (st0 st : lstate) : tok_result :=
  match f with
  | O => TFuel
  | S f' =>
      if eof st then TErr (ls_pos st0) EStringEOF            (* in.pos = in.token.pos *)
      else if peek_rune st =? 10 then TErr (ls_pos st) EStringNewline
      else match read_rune st with
           | None => TPanic
           | Some (c, st1) =>
               if c =? quote then TTok (end_token KString st0 st1) st1
               else if (c =? 92) && negb (quote =? 96) then
                 if eof st1 then TErr (ls_pos st0) EStringEOF
                 else if peek_rune st1 =? 10 then TErr (ls_pos st1) EStringNewline
                 else match read_rune st1 with
                      | None => TPanic
                      | Some (_, st2) => string_body f' quote st0 st2
                      end
               else string_body f' quote st0 st1
           end
  end.

(* "for isIdent(in.peekRune()) { ... }" *)
Fixpoint ident_body (f : nat) (st0 st : lstate) : tok_result :=
  match f with
  | O => TFuel
  | S f' =>
      if is_ident (peek_rune st) then
        if peek_prefix st [47; 47] then TTok (end_token KIdent st0 st) st
        else if peek_prefix st [47; 42] then TErr (ls_pos st) EBlockComment
        else match read_rune st with
             | None => TPanic
             | Some (_, st') => ident_body f' st0 st'
             end
      else TTok (end_token KIdent st0 st) st
  end.

Definition is_punct (c : Z) : bool :=
  (c =? 10) || (c =? 40) || (c =? 41) || (c =? 91) || (c =? 93) || (c =? 123) || (c =? 125) || (c =? 44).

(* readToken from "Found the beginning of the next token" on *)
Definition read_main (f : nat) (st : lstate) : tok_result :=
  if eof st then TTok (end_token KEOF st st) st
  else
    let c := peek_rune st in
    if is_punct c then
      match read_rune st with
      | None => TPanic
      | Some (_, st1) => TTok (end_token (KPunct c) st st1) st1
      end
    else if (c =? 34) || (c =? 96) then
      match read_rune st with
      | None => TPanic
      | Some (_, st1) => string_body f c st st1
      end
    else if negb (is_ident c) then TErr (ls_pos st) EBadChar
    else ident_body f st st.

(* a // comment starting at st *)
Definition read_comment (f : nat) (st : lstate) : tok_result :=
  let suffix := has_non_space (line_so_far st) in
  match read_rune st with
  | None => TPanic
  | Some (_, st1) =>
      match read_rune st1 with
      | None => TPanic
      | Some (_, st2) =>
          match comment_body f st2 with
          | None => TFuel
          | Some None => TPanic
          | Some (Some st3) =>
              TTok (end_token (if suffix then KEOLComment else KComment) st st3) st3
          end
      end
  end.

(* readToken *)
Fixpoint read_token (f : nat) (st : lstate) : tok_result :=
  match f with
  | O => TFuel
  | S f' =>
      if eof st then read_main f' st
      else
        let c := peek_rune st in
        if (c =? 32) || (c =? 9) || (c =? 13) then
          match read_rune st with
          | None => TPanic
          | Some (_, st') => read_token f' st'
          end
        else if peek_prefix st [47; 47] then read_comment f' st
        else if peek_prefix st [47; 42] then TErr (ls_pos st) EBlockComment
        else read_main f' st
  end.

(* how the token stream ends *)
Inductive lex_end := LEnd | LErr (p : position) (e : err_class) | LPanic | LFuel.

(* [acc] holds the tokens read so far, last first *)
Fixpoint lex_all (f : nat) (st : lstate) (acc : list token) : list token * lex_end :=
  match f with
  | O => (frev acc, LFuel)
  | S f' =>
      match read_token f' st with
      | TTok t st' =>
          if is_eof (t_kind t) then (frev (t :: acc), LEnd)
          else lex_all f' st' (t :: acc)
      | TErr p e => (frev acc, LErr p e)
      | TPanic => (frev acc, LPanic)
      | TFuel => (frev acc, LFuel)
      end
  end.

Definition lex_fuel (data : str) : nat := (length data + 3)%nat.

Definition lex (data : str) : list token * lex_end := lex_all (lex_fuel data) (init_state data) [].
