(* Round trip, part 12a: facts about version strings needed by the directive layer: the
   characters of a valid version, and CanonicalVersion is idempotent. *)
From Verif.Base Require Import Bytes.
From Verif.Semver Require Import Spec Model ProofsStr ProofsParse.

(* the characters of a version: [0-9A-Za-z-] . + *)
Definition vchar (c : Z) : bool := ident_char c || (c =? 46) || (c =? 43).

Lemma digit_vchar c : is_digit c = true -> vchar c = true.
Proof. unfold vchar, ident_char. intros ->. reflexivity. Qed.

Lemma numeral_vchars M : numeral M = true -> forallb vchar M = true.
Proof.
  destruct M as [|c r]; [discriminate|]. cbn [numeral]. intros H. apply andb_true_iff in H as (H & _).
  apply andb_true_iff in H as (Hc & Hr). cbn [forallb]. rewrite (digit_vchar c Hc). cbn [andb].
  unfold all_digits in Hr. revert Hr. apply forallb_impl. intros x. apply digit_vchar.
Qed.

Lemma body_vchars body : forallb (fun c => ident_char c || (c =? 46)) body = true -> forallb vchar body = true.
Proof. apply forallb_impl. intros c H. unfold vchar. rewrite H. reflexivity. Qed.

Lemma pre_str_vchars pre : pre_str pre -> forallb vchar pre = true.
Proof.
  intros [->|(body & -> & H)]; [reflexivity|]. cbn [forallb]. change (vchar 45) with true. cbn [andb].
  apply body_vchars. apply (idents_body_chars pre_ident); [apply pre_ident_chars|exact H].
Qed.

Lemma build_str_vchars b : build_str b -> forallb vchar b = true.
Proof.
  intros [->|(body & -> & H)]; [reflexivity|]. cbn [forallb]. change (vchar 43) with true. cbn [andb].
  apply body_vchars. apply (idents_body_chars build_ident); [apply build_ident_chars|exact H].
Qed.

Lemma forallb_app' {A} (p : A -> bool) a b : forallb p a = true -> forallb p b = true -> forallb p (a ++ b) = true.
Proof. intros Ha Hb. rewrite forallb_app, Ha, Hb. reflexivity. Qed.

Theorem valid_chars v : is_valid v = true -> forallb vchar v = true /\ exists r, v = 118 :: r.
Proof.
  unfold is_valid. destruct (parse v) as [p|] eqn:Hp; [|discriminate]. intros _.
  apply parse_sound in Hp. destruct Hp as [M HM|M m HM Hm|M m pt pre b HM Hm Hpt Hpre Hb].
  - split; [|eauto]. cbn [forallb]. change (vchar 118) with true. cbn [andb]. apply numeral_vchars. exact HM.
  - split; [|eauto]. cbn [forallb]. change (vchar 118) with true. cbn [andb].
    apply forallb_app'; [apply numeral_vchars; exact HM|]. cbn [forallb]. change (vchar 46) with true. cbn [andb].
    apply numeral_vchars. exact Hm.
  - split; [|eauto]. cbn [forallb]. change (vchar 118) with true. cbn [andb].
    apply forallb_app'; [apply numeral_vchars; exact HM|]. cbn [forallb]. change (vchar 46) with true. cbn [andb].
    apply forallb_app'; [apply numeral_vchars; exact Hm|]. cbn [forallb]. change (vchar 46) with true. cbn [andb].
    apply forallb_app'; [apply numeral_vchars; exact Hpt|].
    apply forallb_app'; [apply pre_str_vchars; exact Hpre|apply build_str_vchars; exact Hb].
Qed.

(* ---------------------------------------------------------------- CanonicalVersion *)

Lemma build_str_incompatible : build_str (B "+incompatible").
Proof. right. exists (B "incompatible"). split; reflexivity. Qed.

Theorem canonical_version_idem v : canonical_version (canonical_version v) = canonical_version v.
Proof.
  destruct (parse v) as [p|] eqn:Hp.
  2:{ assert (E : canonical_version v = []).
      { unfold canonical_version. rewrite (canonical_invalid v Hp). unfold build. rewrite Hp. reflexivity. }
      rewrite E. reflexivity. }
  pose proof (canonical_parts v p Hp) as Hc. pose proof (parse_sound v p Hp) as Hrel.
  assert (Hnum : numeral (p_major p) = true /\ numeral (p_minor p) = true /\ numeral (p_patch p) = true /\ pre_str (p_prerelease p)).
  { destruct Hrel; cbn [p_major p_minor p_patch p_prerelease]; repeat split; auto; try (left; reflexivity). }
  destruct Hnum as (HM & Hm & Hpt & Hpre).
  assert (Hfull : forall b, build_str b ->
            parse (canonical v ++ b) = Some (mkParsed (p_major p) (p_minor p) (p_patch p) [] (p_prerelease p) b)).
  { intros b Hb. apply parse_complete.
    replace (canonical v ++ b) with (118 :: p_major p ++ 46 :: p_minor p ++ 46 :: p_patch p ++ p_prerelease p ++ b).
    - apply PR_full; assumption.
    - rewrite Hc. cbn [app]. f_equal. rewrite <- !app_assoc. f_equal. cbn [app]. f_equal. rewrite <- !app_assoc. f_equal.
      cbn [app]. f_equal. rewrite <- !app_assoc. reflexivity. }
  assert (Ecv : canonical_version v = canonical v ++ (if str_eqb (build v) (B "+incompatible") then B "+incompatible" else [])).
  { unfold canonical_version. destruct (str_eqb (build v) (B "+incompatible")); [reflexivity|symmetry; apply app_nil_r]. }
  rewrite Ecv. destruct (str_eqb (build v) (B "+incompatible")) eqn:Eb.
  - pose proof (Hfull _ build_str_incompatible) as H.
    unfold canonical_version. rewrite (canonical_parts _ _ H). unfold build. rewrite H. cbn [p_build p_major p_minor p_patch p_prerelease].
    change (str_eqb (B "+incompatible") (B "+incompatible")) with true. cbn iota. rewrite Hc. reflexivity.
  - pose proof (Hfull [] (or_introl eq_refl)) as H.
    unfold canonical_version. rewrite (canonical_parts _ _ H). unfold build. rewrite H. cbn [p_build p_major p_minor p_patch p_prerelease].
    change (str_eqb [] (B "+incompatible")) with false. cbn iota. rewrite Hc, app_nil_r. reflexivity.
Qed.
