(* C16, need_order_irrelevant for SetRequireSeparateIndirect: the requirements that are not yet in
   the file are appended to the direct / indirect block by ranging over a Go map. *)
From Coq Require Import Sorted Permutation.
From Verif.Base Require Import Bytes.
From Verif.Modfile Require Import Syntax EditModel EditOps EditSpec EditProofsTyped EditProofsHeap EditProofsCoherent
  EditProofsCleanup EditProofsAddLine EditProofsAdd EditProofsUpsert EditProofsSort EditProofsSeq EditProofsExact
  EditProofsBlocks EditProofsSetRequire EditProofsComments
  EditProofs2Blocks EditProofs2Settable EditProofs2Sri EditProofs2Inv EditProofs2Order EditProofs2Place EditProofs2Fold
  EditProofs2Render EditProofs2NeedOrder.

Arguments hget : simpl never.
Arguments hset : simpl never.

Lemma filter_perm' {A} (p : A -> bool) a b : Permutation a b -> Permutation (filter p a) (filter p b).
Proof.
  induction 1; cbn.
  - constructor.
  - destruct (p x); [constructor|]; assumption.
  - destruct (p x), (p y); try reflexivity. apply perm_swap.
  - etransitivity; eassumption.
Qed.

Lemma NoDup_map_filter {A B} (g : A -> B) (p : A -> bool) l : NoDup (map g l) -> NoDup (map g (filter p l)).
Proof.
  induction l as [|x r IH]; cbn; intros H; [constructor|]. inversion H as [|? ? Hni Hr]; subst.
  destruct (p x); cbn; [|auto]. constructor; [|auto]. intros Hin. apply Hni.
  apply in_map_iff in Hin. destruct Hin as [y [E Hy]]. apply filter_In in Hy. apply in_map_iff. exists y. tauto.
Qed.

Definition tgt (dbid ibid : nat) (kv : str * (str * bool)) : nat := if snd (snd kv) then ibid else dbid.
Definition sri_line (kv : str * (str * bool)) : hline := LB (req_item kv).

Lemma app_all_nil st : app_all [] st = st.
Proof. destruct st as [i|b|c]; try reflexivity. cbn. rewrite app_nil_r, bwl_same. reflexivity. Qed.

Lemma app_all_cons bid n ps st : app_all ps (app1 bid n st) = app_all ((bid, n) :: ps) st.
Proof.
  destruct st as [i|b|c]; try reflexivity. cbn [app1].
  destruct (Nat.eqb_spec (hb_id b) bid) as [E|E]; cbn [app_all block_with_lines hb_lines hb_id]; unfold sel; cbn [filter fst].
  - rewrite <- E, Nat.eqb_refl. cbn [map snd]. rewrite <- app_assoc. reflexivity.
  - destruct (Nat.eqb_spec bid (hb_id b)) as [E'|_]; [congruence | reflexivity].
Qed.

Lemma sri_fold_closed dbid ibid have : forall M s rs,
  fst (fold_left (sri_add_new dbid ibid have) M (s, rs)) =
  mkSyn (heap s ++ map sri_line (filter (notin have) M)) (nbid s) (fcom s)
        (map (app_all (combine (map (tgt dbid ibid) (filter (notin have) M))
                               (seq (length (heap s)) (length (filter (notin have) M))))) (stmts s)).
Proof.
  induction M as [|[path [v ind]] r IH]; intros s rs; cbn [fold_left filter].
  - cbn. rewrite app_nil_r. rewrite (map_ext _ (fun st => st)) by apply app_all_nil. rewrite map_id. apply syn_eta.
  - destruct (existsb (str_eqb path) have) eqn:Eh.
    + assert (En : notin have (path, (v, ind)) = false) by (unfold notin; cbn; rewrite Eh; reflexivity).
      assert (Estep : sri_add_new dbid ibid have (s, rs) (path, (v, ind)) = (s, rs)) by (unfold sri_add_new; rewrite Eh; reflexivity).
      rewrite En, Estep. apply IH.
    + assert (En : notin have (path, (v, ind)) = true) by (unfold notin; cbn; rewrite Eh; reflexivity).
      set (bid := if ind then ibid else dbid).
      assert (Estep : exists rs1, sri_add_new dbid ibid have (s, rs) (path, (v, ind))
                = (append_to_block (fst (salloc s (sri_line (path, (v, ind))))) bid (length (heap s)), rs1)).
      { unfold sri_add_new. rewrite Eh. cbn [salloc fst]. eexists. f_equal. f_equal. f_equal.
        unfold sri_line, LB, req_item. cbn [fst snd]. destruct ind; reflexivity. }
      destruct Estep as [rs1 Estep]. rewrite En, Estep, IH.
      cbn [append_to_block salloc fst heap nbid fcom stmts with_stmts map length seq combine].
      f_equal.
      * rewrite <- app_assoc. reflexivity.
      * rewrite app_length. cbn [length]. rewrite Nat.add_1_r. rewrite map_map. apply map_ext. intros st.
        change (tgt dbid ibid (path, (v, ind))) with bid.
        change (match st with
                | SBlock b => if Nat.eqb (hb_id b) bid
                              then SBlock (block_with_lines b (hb_lines b ++ [length (heap s)])) else st
                | _ => st end) with (app1 bid (length (heap s)) st).
        apply app_all_cons.
Qed.

(* what the lines appended to one block say *)
Lemma sel_contents {A} (g : A -> hline) (tg : A -> nat) id : forall (M : list A) (C : list hline),
  map (hget (C ++ map g M)) (sel id (combine (map tg M) (seq (length C) (length M))))
  = map g (filter (fun x => Nat.eqb (tg x) id) M).
Proof.
  induction M as [|x r IH]; intros C; [reflexivity|]. cbn [map length seq combine sel filter fst].
  assert (Hr : map (hget (C ++ g x :: map g r)) (sel id (combine (map tg r) (seq (S (length C)) (length r))))
               = map g (filter (fun y => Nat.eqb (tg y) id) r)).
  { replace (C ++ g x :: map g r) with ((C ++ [g x]) ++ map g r) by (rewrite <- app_assoc; reflexivity).
    replace (S (length C)) with (length (C ++ [g x])) by (rewrite app_length; cbn; lia). apply IH. }
  destruct (Nat.eqb (tg x) id); cbn [map snd]; [|exact Hr].
  rewrite hget_app_mid. f_equal. exact Hr.
Qed.

Lemma block_id_unique b b' : forall L,
  NoDup (block_ids L) -> In (SBlock b) L -> In (SBlock b') L -> hb_id b = hb_id b' -> b = b'.
Proof.
  induction L as [|st r IH]; intros Hnd H1 H2 E; [destruct H1|]. rewrite block_ids_cons in Hnd.
  destruct H1 as [->|H1], H2 as [E2|H2].
  - congruence.
  - exfalso. cbn [stmt_bids app] in Hnd. inversion Hnd as [|? ? Hni _]; subst. apply Hni. rewrite E. apply in_block_ids. exact H2.
  - exfalso. subst st. cbn [stmt_bids app] in Hnd. inversion Hnd as [|? ? Hni _]; subst. apply Hni. rewrite <- E. apply in_block_ids. exact H1.
  - apply IH; try assumption. exact (NoDup_app_r _ _ Hnd).
Qed.

Lemma sel_in id ps i : In i (sel id ps) -> In (id, i) ps.
Proof.
  unfold sel. intros H. apply in_map_iff in H. destruct H as [[a c] [<- Hp]]. apply filter_In in Hp.
  destruct Hp as [Hp E]. cbn in E. apply Nat.eqb_eq in E. subst. exact Hp.
Qed.

(* ---------------------------------------------------------------- the core *)
Theorem sri_add_new_order_irrelevant f s3 rs dbid ibid have (M M' : list (str * (str * bool))) name :
  Coherent (with_require (with_syn f s3) rs) ->
  has_req_block (stmts s3) dbid -> has_req_block (stmts s3) ibid -> NoDup (block_ids (stmts s3)) ->
  Permutation M M' -> NoDup (map (fun kv : str * (str * bool) => auto_quote (fst kv)) M) ->
  let r := fold_left (sri_add_new dbid ibid have) M (s3, rs) in
  let r' := fold_left (sri_add_new dbid ibid have) M' (s3, rs) in
  to_syntax name (fsyn (sort_blocks (with_require (with_syn f (fst r)) (snd r))))
  = to_syntax name (fsyn (sort_blocks (with_require (with_syn f (fst r')) (snd r')))).
Proof.
  intros Hc Hdb Hib Hbn HP Haq r r'.
  rewrite !sort_blocks_syn. cbn [fsyn with_require with_syn].
  change (kill_set (with_require (with_syn f (fst r)) (snd r)) true) with (kill_set (with_require (with_syn f s3) rs) true).
  change (kill_set (with_require (with_syn f (fst r')) (snd r')) true) with (kill_set (with_require (with_syn f s3) rs) true).
  change (block_less (with_require (with_syn f (fst r)) (snd r))) with (block_less f).
  change (block_less (with_require (with_syn f (fst r')) (snd r'))) with (block_less f).
  unfold r, r'. rewrite !sri_fold_closed.
  set (MA := filter (notin have) M). set (MB := filter (notin have) M').
  assert (HPf : Permutation MA MB) by (apply filter_perm'; exact HP).
  pose proof Hc as [[_ Hpl _] _ _]. cbn [fsyn with_require with_syn] in Hpl.
  apply (render_eq2 (heap s3) (map sri_line MA) (map sri_line MB) (block_less f) (fun b ls => eq_refl)
           (kill_set (with_require (with_syn f s3) rs) true)).
  - intros i Hi. apply (kill_set_old _ true i Hc Hi).
  - intros st Hst i Hi. apply in_map_iff in Hi. destruct Hi as [z [<- Hz]].
    rewrite Forall_forall in Hpl. assert (Hin : In z (tree_lines s3)).
    { unfold tree_lines. apply in_flat_map. exists st. split; [exact Hst|]. destruct st; exact Hz. }
    destruct (Hpl z Hin) as [Hl _]. exact Hl.
  - intros [a c] Hp. apply in_combine_r in Hp. apply in_seq in Hp. cbn. lia.
  - intros [a c] Hp. apply in_combine_r in Hp. apply in_seq in Hp. cbn. lia.
  - intros b Hb.
    rewrite (sel_contents sri_line (tgt dbid ibid) (hb_id b) MA (heap s3)).
    rewrite <- (map_length sri_line MA) at 1.
    assert (EB : map (hget (heap s3 ++ map sri_line MB))
                   (sel (hb_id b) (combine (map (tgt dbid ibid) MB) (seq (length (heap s3)) (length MB))))
                 = map sri_line (filter (fun x => Nat.eqb (tgt dbid ibid x) (hb_id b)) MB))
      by apply sel_contents.
    rewrite map_length. rewrite EB. split; [|split].
    + apply Permutation_map. apply filter_perm'. exact HPf.
    + intros Hne.
      assert (Hid : hb_id b = dbid \/ hb_id b = ibid).
      { destruct (sel (hb_id b) (combine (map (tgt dbid ibid) MA) (seq (length (heap s3)) (length MA)))) as [|i rr] eqn:E; [congruence|].
        assert (Hi : In i (sel (hb_id b) (combine (map (tgt dbid ibid) MA) (seq (length (heap s3)) (length MA))))) by (rewrite E; left; reflexivity).
        apply sel_in in Hi. apply in_combine_l in Hi. apply in_map_iff in Hi. destruct Hi as [kv [Hk _]].
        unfold tgt in Hk. destruct (snd (snd kv)); auto. }
      apply require_block_less.
      destruct Hid as [Hid|Hid]; [destruct Hdb as [b0 [Hb0 [Hi0 Ht0]]] | destruct Hib as [b0 [Hb0 [Hi0 Ht0]]]];
        assert (b0 = b) by (apply (block_id_unique b0 b (stmts s3) Hbn Hb0 Hb); congruence); subst b0;
        rewrite Ht0; reflexivity.
    + rewrite map_map.
      assert (Hsub : NoDup (map (fun kv : str * (str * bool) => auto_quote (fst kv))
                              (filter (fun x => Nat.eqb (tgt dbid ibid x) (hb_id b)) MA))).
      { apply NoDup_map_filter. apply NoDup_map_filter. exact Haq. }
      eapply NoDup_map_finer; [|exact Hsub]. intros a c E. cbn in E. congruence.
Qed.

(* ---------------------------------------------------------------- the operation with an arbitrary enumeration of the map *)
Definition set_require_separate_indirect_enum
           (enum : list (str * (str * bool)) -> list (str * (str * bool))) (f : file) (l : list req) : option file :=
  let s0 := fsyn f in
  let sc := sri_scan_loop s0 0 (stmts s0) (mkScan (-1) (-1) (-1) O []) in
  let one_flat :=
    Nat.eqb (sc_count sc) 1
    && match nth_error (stmts s0) (Z.to_nat (sc_require sc)) with
       | Some st => negb (has_comments (stmt_coms s0 st))
       | None => false
       end in
  do (s1, dbid, di, ii) <-
     (if sc_direct sc <? 0 then
        let '(di, ii) := if 0 <=? sc_indirect sc then (sc_indirect sc, sc_indirect sc + 1)
                         else if 0 <=? sc_require sc then (sc_require sc + 1, sc_indirect sc)
                         else (Z.of_nat (length (stmts s0)), sc_indirect sc) in
        let (s1, bid) := insert_block s0 di in Some (s1, bid, di, ii)
      else do (s1, bid) <- ensure_block s0 (sc_direct sc); Some (s1, bid, sc_direct sc, sc_indirect sc));
  do (s2, ibid) <-
     (if ii <? 0 then Some (insert_block s1 (di + 1))
      else ensure_block s1 ii);
  let need := fold_left (fun m (q : req) => let '(p, v, ind) := q in amap_set p (v, ind) m) l [] in
  do (s3, rs, have) <- sri_loop s2 need [] one_flat (sc_l2b sc) dbid ibid (f_require f);
  let '(s4, rs') := fold_left (sri_add_new dbid ibid have) (enum need) (s3, rs) in
  Some (sort_blocks (with_require (with_syn f s4) rs')).

Lemma set_require_separate_indirect_enum_id f l :
  set_require_separate_indirect_enum (fun m => m) f l = set_require_separate_indirect f l.
Proof. reflexivity. Qed.

Theorem set_require_separate_need_order_irrelevant enum f l f' name :
  (forall m, Permutation m (enum m)) ->
  distinct_paths (map req_path l) = true -> NoDup (map (fun q => auto_quote (req_path q)) l) ->
  Coherent f -> BlockIdsOk (fsyn f) -> RequireSettable f ->
  set_require_separate_indirect f l = Some f' ->
  exists f'', set_require_separate_indirect_enum enum f l = Some f'' /\
    to_syntax name (fsyn f'') = to_syntax name (fsyn f') /\
    Permutation (k_require (abs f'')) (k_require (abs f')) /\
    kset_require (abs f'') [] = kset_require (abs f') [].
Proof.
  intros Henum Hd Haq Hc Hb Hset H.
  destruct (sri_steps_exist f l f' H) as [s1 [dbid [di [ii [s2 [ibid [s3 [rs [have [s4 [rs' St]]]]]]]]]]].
  destruct (sri_pre_sort_explicit _ _ _ _ _ _ _ _ _ _ _ _ _ _ Hd Hc Hb Hset St) as [_ [_ [_ [_ [_ [Hc3 [Hdb3 [Hib3 Hbn3]]]]]]]].
  destruct St as [E1 [E2 [E3 [E4 Ef]]]].
  pose proof Hd as Hd0. apply distinct_paths_spec in Hd. destruct Hd as [Hnd Hne].
  destruct (need_of_requests l Hnd Hne) as [HPn [Hnd' Hne']]. fold (sri_need l) in HPn, Hnd', Hne'.
  unfold set_require_separate_indirect_enum.
  fold (sri_need l). fold (sri_scan_of (fsyn f)). fold (one_flat_uncommented (fsyn f)).
  rewrite E1, E2, E3.
  destruct (fold_left (sri_add_new dbid ibid have) (enum (sri_need l)) (s3, rs)) as [s4' rs''] eqn:E4'.
  eexists. split; [reflexivity|].
  assert (Haq' : NoDup (map (fun kv : str * (str * bool) => auto_quote (fst kv)) (sri_need l))).
  { eapply Permutation_NoDup; [|exact Haq]. symmetry.
    rewrite (Permutation_map _ HPn), map_map. apply Permutation_refl'. apply map_ext. intros [[p v] i]. reflexivity. }
  pose proof (sri_add_new_order_irrelevant f s3 rs dbid ibid have (sri_need l) (enum (sri_need l)) name
                Hc3 Hdb3 Hib3 Hbn3 (Henum _) Haq') as R. cbn zeta in R. rewrite E4, E4' in R. cbn [fst snd] in R.
  subst f'. split; [symmetry; exact R|]. split; [|reflexivity].
  change (k_require (abs (sort_blocks ?g))) with (k_require (abs g)).
  unfold abs; cbn [k_require f_require with_require with_syn].
  change (map (fun x => (rq_path x, rq_vers x, rq_ind x)) (filter (fun y => nonempty (rq_path y)) rs''))
    with (map projR (filter liveR rs'')).
  change (map (fun x => (rq_path x, rq_vers x, rq_ind x)) (filter (fun y => nonempty (rq_path y)) rs'))
    with (map projR (filter liveR rs')).
  pose proof (sri_add_new_abs dbid ibid have (sri_need l) s3 rs Hne') as A1. rewrite E4 in A1. cbn [snd] in A1.
  assert (Hne'' : forall k, In k (keys (enum (sri_need l))) -> k <> []).
  { intros k Hk. apply Hne'. eapply Permutation_in; [symmetry; apply (keys_perm _ _ (Henum _)) | exact Hk]. }
  pose proof (sri_add_new_abs dbid ibid have (enum (sri_need l)) s3 rs Hne'') as A2. rewrite E4' in A2. cbn [snd] in A2.
  rewrite A1, A2. apply Permutation_app_head. apply Permutation_map. apply filter_perm'. symmetry. apply Henum.
Qed.
