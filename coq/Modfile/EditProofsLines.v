(* C16 at the level of the syntax tree: after SetRequire and Cleanup the live require lines
   of the file are exactly the requested requirements. *)
From Coq Require Import Permutation.
From Verif.Base Require Import Bytes.
From Verif.Modfile Require Import EditModel EditOps EditSpec EditProofsTyped EditProofsHeap EditProofsCoherent
  EditProofsCleanup EditProofsAddLine EditProofsAdd EditProofsUpsert EditProofsSort EditProofsSeq EditProofsExact
  EditProofsBlocks EditProofsSetRequire.

Definition is_require_view (x : dview) : bool := str_eqb (snd (fst x)) v_require.

(* how a requirement reads on its line: quoted path, version, indirect marking *)
Definition render_req (q : req) : list str :=
  [auto_quote (fst (fst q)); snd (fst q); flag (snd q)].

Lemma filter_view_other {E} (g : E -> ent) l :
  (forall e, str_eqb (en_verb (g e)) v_require = false) ->
  filter is_require_view (flat_map ent_view (map g l)) = [].
Proof.
  intros H. induction l as [|e r IH]; cbn [map flat_map]; [reflexivity|].
  rewrite filter_app, IH, app_nil_r. unfold ent_view.
  destruct (en_syn (g e)); [|reflexivity]. destruct (en_live (g e)); [|reflexivity].
  cbn [filter]. unfold is_require_view; cbn [fst snd]. rewrite H. reflexivity.
Qed.

Lemma filter_view_require l :
  filter is_require_view (flat_map ent_view (map ent_require l)) = flat_map ent_view (map ent_require l).
Proof.
  induction l as [|e r IH]; cbn [map flat_map]; [reflexivity|].
  rewrite filter_app, IH. f_equal. unfold ent_view. cbn [ent_require en_syn en_live en_verb en_args].
  destruct (rq_syn e); [|reflexivity]. destruct (nonempty (rq_path e)); reflexivity.
Qed.

Lemma typed_view_require f :
  filter is_require_view (typed_view f) = flat_map ent_view (map ent_require (f_require f)).
Proof.
  unfold typed_view, entries. rewrite !flat_map_app, !filter_app.
  rewrite (filter_view_other ent_module), (filter_view_other ent_go), (filter_view_other ent_toolchain),
          (filter_view_other ent_godebug), (filter_view_other ent_exclude), (filter_view_other ent_replace),
          (filter_view_other ent_retract), (filter_view_other ent_tool), (filter_view_other ent_use);
    try (intros e; reflexivity).
  rewrite filter_view_require. cbn [app]. rewrite !app_nil_r. reflexivity.
Qed.

Lemma require_views_render l :
  Forall ent_ok (map ent_require l) ->
  map snd (flat_map ent_view (map ent_require l))
  = map render_req (map (fun r => (rq_path r, rq_vers r, rq_ind r)) (filter (fun r => nonempty (rq_path r)) l)).
Proof.
  induction l as [|e r IH]; intros H; [reflexivity|].
  cbn [map] in H. inversion H as [|? ? He Hr]; subst. specialize (IH Hr).
  unfold ent_ok in He. cbn [ent_require en_syn en_live] in He.
  cbn [map flat_map filter]. rewrite map_app.
  unfold ent_view at 1. cbn [ent_require en_syn en_live en_verb en_args].
  destruct (nonempty (rq_path e)); destruct (rq_syn e); try congruence.
  - cbn [map app snd]. unfold render_req at 1. cbn [fst snd]. f_equal. exact IH.
  - cbn [map app]. exact IH.
Qed.

Lemma filter_perm {A} (p : A -> bool) a b : Permutation a b -> Permutation (filter p a) (filter p b).
Proof.
  induction 1; cbn.
  - constructor.
  - destruct (p x); [constructor|]; assumption.
  - destruct (p x), (p y); try reflexivity. apply perm_swap.
  - etransitivity; eassumption.
Qed.

Theorem set_require_lines_exact f l f' :
  distinct_paths (map req_path l) = true -> Coherent f -> RequireSettable f ->
  set_require f l = Some f' ->
  Permutation (map snd (filter is_require_view (tree_view (fsyn (cleanup f'))))) (map render_req l).
Proof.
  intros Hd Hc Hset H.
  pose proof (set_require_coherent f l f' Hd Hc Hset H) as Hc'.
  apply cleanup_coherent in Hc'. destruct (set_require_exact f l f' Hd H) as [_ Hex].
  destruct Hc' as [_ Hent Hperm].
  etransitivity; [apply Permutation_map, filter_perm; exact Hperm|].
  rewrite typed_view_require, require_views_render.
  - apply Permutation_map. exact Hex.
  - unfold EntriesOk in Hent. rewrite entries_require in Hent.
    apply Forall_app in Hent. destruct Hent as [_ Hent]. apply Forall_app in Hent. tauto.
Qed.
